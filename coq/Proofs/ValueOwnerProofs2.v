(** Proofs about [PV.Metadata.ValueOwner] (property C09), part 2: SetScopeValueOwner, the five
    messages, the invariant and the consent theorem over all histories. *)
From Coq Require Import ZArith NArith List Bool Lia.
From PV Require Import Metadata.ValueOwner Proofs.ValueOwnerProofs.
Import ListNotations.
Open Scope Z_scope.

(** ** Mint and burn *)
Lemma mint_spec s d :
  BankInv s -> tok s d = [] ->
  let s1 := bank_mint s d 1 in
  BankInv s1 /\ tok s1 d = [(MODULE, 1)] /\ (forall d', d' <> d -> tok s1 d' = tok s d') /\
  scopes s1 = scopes s /\ markers s1 = markers s.
Proof.
  intros HB Ht. cbn zeta.
  assert (Hs : sup s d = 0) by (destruct (HB d) as [(Hs & _)|(_ & h & Hh)]; [exact Hs|congruence]).
  assert (Htok : forall d', tok (bank_mint s d 1) d' = if N.eqb d' d then [(MODULE, 1)] else tok s d').
  { intros d'. unfold bank_mint, bank_add. unfold tok at 1. cbn [toks with_sups with_toks].
    rewrite get_put. destruct (N.eqb d' d); [|reflexivity].
    rewrite Ht. cbn [bal_of find]. rewrite set_bal_nil by discriminate. reflexivity. }
  assert (Hsup : forall d', sup (bank_mint s d 1) d' = if N.eqb d' d then 1 else sup s d').
  { intros d'. unfold bank_mint. rewrite sup_put. destruct (N.eqb d' d); [|reflexivity].
    unfold bank_add. rewrite (sup_same s (with_toks s _) d) by reflexivity. rewrite Hs. reflexivity. }
  split; [|split; [|split; [|split; reflexivity]]].
  - intros d'. rewrite Htok, Hsup. destruct (N.eqb d' d); [|apply HB].
    right. split; [reflexivity|]. exists MODULE. reflexivity.
  - rewrite Htok, N.eqb_refl. reflexivity.
  - intros d' Hne. rewrite Htok. apply N.eqb_neq in Hne. rewrite Hne. reflexivity.
Qed.

Lemma burn_spec s d s' :
  BankInv s -> tok s d = [(MODULE, 1)] -> bank_burn s d 1 = Some s' ->
  BankInv s' /\ tok s' d = [] /\ sup s' d = 0 /\ (forall d', d' <> d -> tok s' d' = tok s d') /\
  scopes s' = scopes s.
Proof.
  intros HB Ht. unfold bank_burn, bank_sub. rewrite Ht, bal_of_single, N.eqb_refl.
  cbn [Z.ltb Z.compare Pos.compare Pos.compare_cont]. replace (1 - 1) with 0 by reflexivity.
  rewrite set_bal_single_zero. intros [= <-].
  assert (Hs : sup s d = 1) by (destruct (HB d) as [(_ & Hn)|(Hs & _)]; [congruence|exact Hs]).
  assert (Htok : forall d', tok (with_sups (with_toks s (put (toks s) d []))
                                  (put (sups (with_toks s (put (toks s) d []))) d
                                       (sup (with_toks s (put (toks s) d [])) d - 1))) d' =
                            if N.eqb d' d then [] else tok s d').
  { intros d'. unfold tok at 1. cbn [toks with_sups with_toks]. rewrite get_put.
    destruct (N.eqb d' d); reflexivity. }
  assert (Hsup : forall d', sup (with_sups (with_toks s (put (toks s) d []))
                                  (put (sups (with_toks s (put (toks s) d []))) d
                                       (sup (with_toks s (put (toks s) d [])) d - 1))) d' =
                            if N.eqb d' d then 0 else sup s d').
  { intros d'. rewrite sup_put. destruct (N.eqb d' d); [|reflexivity].
    rewrite (sup_same s (with_toks s _) d) by reflexivity. rewrite Hs. reflexivity. }
  split; [|split; [|split; [|split; [|reflexivity]]]].
  - intros d'. rewrite Htok, Hsup. destruct (N.eqb d' d); [left; split; reflexivity|apply HB].
  - rewrite Htok, N.eqb_refl. reflexivity.
  - rewrite Hsup, N.eqb_refl. reflexivity.
  - intros d' Hne. rewrite Htok. apply N.eqb_neq in Hne. rewrite Hne. reflexivity.
Qed.

(** One unit sent under the invariant. *)
Lemma send_one_spec s from to d agents s' :
  BankInv s -> send_one s from to d 1 agents = Some s' ->
  restrict (markers s) from to agents = true /\ tok s d = [(from, 1)] /\
  BankInv s' /\ tok s' d = [(to, 1)] /\ (forall d', d' <> d -> tok s' d' = tok s d') /\
  scopes s' = scopes s /\ sups s' = sups s.
Proof.
  intros HB. unfold send_one. destruct (restrict (markers s) from to agents); [|discriminate].
  intros H. split; [reflexivity|].
  assert (S : sent (fun _ => True) s s' to) by (apply (move_sent (fun _ => True) s from to d 1 s' HB Z.lt_0_1 I H)).
  destruct (move_inv _ _ _ _ _ _ HB Z.lt_0_1 H) as (Ht & _ & ->).
  split; [exact Ht|]. split; [eapply sent_bankinv; eassumption|].
  split; [rewrite moved_tok, N.eqb_refl; reflexivity|].
  split; [|split; reflexivity].
  intros d' Hne. rewrite moved_tok. apply N.eqb_neq in Hne. rewrite Hne. reflexivity.
Qed.

(** ** SetScopeValueOwner *)
Definition vo_src (s : state) (d : sid) : addr :=
  match value_owner s d with Some c => c | None => MODULE end.
Definition vo_dst (newvo : option addr) : addr :=
  match newvo with Some p => p | None => MODULE end.

Lemma set_vo_spec s d newvo agents s' :
  BankInv s -> set_vo s d newvo agents = Some s' ->
  scopes s' = scopes s /\ BankInv s' /\
  (forall d', d' <> d -> tok s' d' = tok s d') /\
  tok s' d = match newvo with Some p => [(p, 1)] | None => [] end /\
  (value_owner s d <> newvo -> restrict (markers s) (vo_src s d) (vo_dst newvo) agents = true).
Proof.
  intros HB. unfold set_vo.
  destruct (match newvo with Some p => mem p (blocked s) | None => false end); [discriminate|].
  unfold vo_src, value_owner.
  destruct (HB d) as [(Hs & Ht)|(Hs & h & Ht)]; rewrite Ht; cbn [denom_owner].
  - (* no token yet *)
    destruct newvo as [p|]; cbn [opt_addr_eqb vo_dst].
    + destruct (mint_spec s d HB Ht) as (HB1 & Ht1 & Ho1 & Hsc1 & Hm1).
      destruct (send_one (bank_mint s d 1) MODULE p d 1 agents) as [s2|] eqn:E; [|discriminate].
      intros [= <-]. destruct (send_one_spec _ _ _ _ _ _ HB1 E) as (Hr & _ & HB2 & Ht2 & Ho2 & Hsc2 & _).
      split; [congruence|]. split; [exact HB2|]. split; [|split; [exact Ht2|]].
      * intros d' Hne. rewrite Ho2, Ho1 by exact Hne. reflexivity.
      * intros _. rewrite <- Hm1. exact Hr.
    + intros [= <-]. split; [reflexivity|]. split; [exact HB|]. split; [reflexivity|].
      split; [exact Ht|]. intros Hc. contradiction Hc. reflexivity.
  - (* held by h *)
    destruct newvo as [p|]; cbn [opt_addr_eqb vo_dst].
    + destruct (N.eqb_spec h p) as [->|Hne].
      * intros [= <-]. split; [reflexivity|]. split; [exact HB|]. split; [reflexivity|].
        split; [exact Ht|]. intros Hc. contradiction Hc. reflexivity.
      * destruct (send_one s h p d 1 agents) as [s2|] eqn:E; [|discriminate]. intros [= <-].
        destruct (send_one_spec _ _ _ _ _ _ HB E) as (Hr & _ & HB2 & Ht2 & Ho2 & Hsc2 & _).
        split; [exact Hsc2|]. split; [exact HB2|]. split; [exact Ho2|]. split; [exact Ht2|].
        intros _. exact Hr.
    + destruct (send_one s h MODULE d 1 agents) as [s2|] eqn:E; [|discriminate]. intros Hb.
      destruct (send_one_spec _ _ _ _ _ _ HB E) as (Hr & _ & HB2 & Ht2 & Ho2 & Hsc2 & _).
      destruct (burn_spec _ _ _ HB2 Ht2 Hb) as (HB3 & Ht3 & _ & Ho3 & Hsc3).
      split; [congruence|]. split; [exact HB3|]. split; [|split; [exact Ht3|]].
      * intros d' Hne. rewrite Ho3, Ho2 by exact Hne. reflexivity.
      * intros _. exact Hr.
Qed.

(** ** What a step must satisfy *)
Definition good_step (s : state) (o : op) (s' : state) : Prop :=
  Inv s' /\
  (forall d h, holder s d = Some h -> holder s' d <> Some h -> consent s o h) /\
  (forall d n, holder s' d = Some n -> holder s d <> Some n -> deposit_ok s o n).

Lemma holder_single s d h : tok s d = [(h, 1)] -> holder s d = Some h.
Proof. intros H. unfold holder, value_owner. rewrite H. reflexivity. Qed.

Lemma holder_inv s d h : BankInv s -> holder s d = Some h -> tok s d = [(h, 1)].
Proof.
  intros HB. unfold holder, value_owner.
  destruct (HB d) as [(_ & Ht)|(_ & x & Ht)]; rewrite Ht; cbn; [discriminate|]. intros [= ->]. reflexivity.
Qed.

Lemma holder_nil s d : tok s d = [] -> holder s d = None.
Proof. intros H. unfold holder, value_owner. rewrite H. reflexivity. Qed.

Lemma holder_same s s' d : tok s' d = tok s d -> holder s' d = holder s d.
Proof. intros H. unfold holder, value_owner. rewrite H. reflexivity. Qed.

(** Consent from the two checks every metadata message runs: the signer check on the holder and
    the send restriction with the signers as transfer agents. *)
Lemma consent_from_checks s o k sg existing proposed agents used h to :
  signers_of o = sg -> kind_of o = Some k -> k <> KAddData ->
  vo_signers s existing proposed sg k = Some (agents, used) ->
  In h existing -> proposed <> Some h ->
  restrict (markers s) h to agents = true ->
  consent s o h.
Proof.
  intros Hsg Hk Hka Hv Hin Hne Hr.
  destruct (vo_signers_spec _ _ _ _ _ _ _ _ Hv Hin Hne) as (Ha & [H1|[H2|(g & Hg & Hgr)]]).
  - left. rewrite Hsg. eapply effective_signers_incl. rewrite <- Ha. exact H1.
  - right. right. unfold is_marker in H2. destruct (marker_of s h) as [m|] eqn:Em; [|discriminate].
    destruct (restrict_from _ _ _ _ _ Hr Em) as (g & Hg & Hw).
    exists m, g. split; [reflexivity|]. split; [|exact Hw].
    rewrite Hsg. eapply effective_signers_incl. rewrite <- Ha. exact Hg.
  - right. left. exists k, g. split; [exact Hk|]. split; [|rewrite <- (authz_plain s h g k Hka); exact Hgr].
    rewrite Hsg. eapply effective_signers_incl. rewrite <- Ha. exact Hg.
Qed.

Lemma deposit_from_restrict s o sg from n agents :
  signers_of o = sg -> agents <> [] -> (forall g, In g agents -> In g sg) ->
  restrict (markers s) from n agents = true -> deposit_ok s o n.
Proof.
  intros Hsg Hne Hincl Hr m Hm Hres.
  destruct (restrict_to _ _ _ _ _ Hr Hm Hres) as [(Hnil & _)|(g & Hg & Hd)]; [contradiction|].
  exists g. split; [rewrite Hsg; apply Hincl; exact Hg|exact Hd].
Qed.

(** When ValidateScopeValueOwnersSigners did not return early, the agents are the effective signers. *)
Lemma vo_signers_agents s existing proposed sg k agents used :
  vo_signers s existing proposed sg k = Some (agents, used) ->
  (exists e, existing = [e] /\ proposed = Some e /\ agents = []) \/ agents = effective_signers s sg.
Proof.
  unfold vo_signers.
  destruct (match existing with [x] => opt_is proposed x | _ => false end) eqn:Eearly.
  - destruct existing as [|x [|y r]]; try discriminate. apply opt_is_true in Eearly.
    intros [= <- <-]. left. exists x. auto.
  - destruct (vo_check s existing proposed (effective_signers s sg) k); [|discriminate].
    intros [= <- <-]. right. reflexivity.
Qed.

(** ** MsgWriteScope *)
Lemma step_write_good s sg d parties spec data rollup vo s' :
  Inv s -> step_write s sg d parties spec data rollup vo = Some s' ->
  good_step s (OWrite sg d parties spec data rollup vo) s'.
Proof.
  intros (HB & HT). unfold step_write.
  destruct (is_nil sg || negb (parties_basic parties rollup)) eqn:Eb; [discriminate|].
  assert (Hsg : sg <> []).
  { apply is_nil_false. apply orb_false_elim in Eb. apply Eb. }
  set (prop := {| sc_parties := parties; sc_spec := spec; sc_data := data; sc_rollup := rollup |}).
  destruct (match scope_of s d, vo with Some _, Some _ => denom_owner (tok s d) | _, _ => Some None end)
    as [cur|] eqn:Ecur; [|discriminate].
  match goal with |- match ?P with _ => _ end = _ -> _ => destruct P as [pused|]; [|discriminate] end.
  destruct (vo_signers s (opt_list cur) vo sg KWrite) as [[agents used]|] eqn:Ev; [|discriminate].
  destruct (negb (sc_check s (used ++ pused) KWrite true sg)); [discriminate|].
  destruct vo as [p|].
  - (* a value owner is proposed *)
    destruct (set_vo s d (Some p) agents) as [s1|] eqn:Es; [|discriminate]. intros [= <-].
    destruct (set_vo_spec _ _ _ _ _ HB Es) as (Hsc & HB1 & Ho & Ht & Hr).
    (* the looked-up current owner is the real one *)
    assert (Hcur : forall h, holder s d = Some h -> cur = Some h).
    { intros h Hh. pose proof (holder_inv _ _ _ HB Hh) as Hth.
      destruct (scope_of s d) eqn:Esc; [|exfalso; apply (HT d); [rewrite Hth; discriminate|exact Esc]].
      rewrite Hth in Ecur. cbn in Ecur. congruence. }
    assert (Htok' : forall d', tok (with_scopes s1 (put (scopes s1) d (Some prop))) d' = tok s1 d') by reflexivity.
    split; [|split].
    + split.
      * intros d'. rewrite (sup_same s1 _ d') by reflexivity. rewrite Htok'. apply HB1.
      * intros d' Hne. rewrite scope_of_put. destruct (N.eqb_spec d' d) as [->|Hd]; [discriminate|].
        rewrite (scope_of_same s s1 d' Hsc). apply HT. rewrite Htok' in Hne. rewrite <- Ho by exact Hd. exact Hne.
    + intros d' h Hh Hch. destruct (N.eq_dec d' d) as [->|Hd].
      2:{ exfalso. apply Hch. rewrite <- Hh. apply holder_same. rewrite Htok'. apply Ho. exact Hd. }
      assert (Hp : Some p <> Some h).
      { intros [= ->]. apply Hch. apply holder_single. rewrite Htok'. exact Ht. }
      rewrite (Hcur h Hh) in Ev. cbn [opt_list] in Ev.
      eapply (consent_from_checks s _ KWrite sg [h] (Some p) agents used h p); try reflexivity; try exact Ev.
      * discriminate.
      * left. reflexivity.
      * exact Hp.
      * assert (Hvo : value_owner s d = Some h) by exact Hh.
        specialize (Hr ltac:(rewrite Hvo; congruence)). unfold vo_src in Hr. rewrite Hvo in Hr. exact Hr.
    + intros d' n Hn Hch. destruct (N.eq_dec d' d) as [->|Hd].
      2:{ exfalso. apply Hch. rewrite <- Hn. symmetry. apply holder_same. rewrite Htok'. apply Ho. exact Hd. }
      assert (n = p).
      { unfold holder, value_owner in Hn. rewrite Htok', Ht in Hn. cbn in Hn. congruence. } subst n.
      assert (Hvo : value_owner s d <> Some p) by exact Hch.
      specialize (Hr Hvo). cbn [vo_dst] in Hr.
      destruct (vo_signers_agents _ _ _ _ _ _ _ Ev) as [(e & He & [= ->] & _)|Ha].
      * exfalso. destruct cur as [c|]; cbn [opt_list] in He; [|discriminate]. injection He as ->.
        destruct (scope_of s d); [|discriminate]. apply Hvo. unfold value_owner.
        destruct (denom_owner (tok s d)) as [[x|]|]; congruence.
      * eapply deposit_from_restrict; [reflexivity| | |exact Hr].
        -- rewrite Ha. apply effective_signers_nonempty. exact Hsg.
        -- intros g Hg. rewrite Ha in Hg. eapply effective_signers_incl. exact Hg.
  - (* no value owner field: the token is not touched *)
    intros [= <-].
    assert (Htok' : forall d', tok (with_scopes s (put (scopes s) d (Some prop))) d' = tok s d') by reflexivity.
    split; [|split].
    + split.
      * intros d'. rewrite (sup_same s _ d') by reflexivity. rewrite Htok'. apply HB.
      * intros d' Hne. rewrite scope_of_put. destruct (N.eqb_spec d' d) as [->|Hd]; [discriminate|].
        apply HT. exact Hne.
    + intros d' h Hh Hch. exfalso. apply Hch. rewrite <- Hh. apply holder_same. apply Htok'.
    + intros d' n Hn Hch. exfalso. apply Hch. rewrite <- Hn. symmetry. apply holder_same. apply Htok'.
Qed.

(** ** MsgDeleteScope *)
Lemma step_delete_spec s sg d s' :
  Inv s -> step_delete s sg d = Some s' ->
  good_step s (ODelete sg d) s' /\ sup s' d = 0 /\ tok s' d = [] /\ scope_of s' d = None.
Proof.
  intros (HB & HT). unfold step_delete.
  destruct (is_nil sg) eqn:Eb; [discriminate|].
  destruct (scope_of s d) as [e|] eqn:Esc; [|discriminate].
  destruct (existing_signed s e (get (specs s) (sc_spec e)) sg KDelete) as [pused|]; [|discriminate].
  destruct (denom_owner (tok s d)) as [cur|] eqn:Ecur; [|discriminate].
  destruct (vo_signers s (opt_list cur) None sg KDelete) as [[agents used]|] eqn:Ev; [|discriminate].
  destruct (negb (sc_check s (used ++ pused) KDelete true sg)); [discriminate|].
  destruct (set_vo s d None agents) as [s1|] eqn:Es; [|discriminate]. intros [= <-].
  destruct (set_vo_spec _ _ _ _ _ HB Es) as (Hsc & HB1 & Ho & Ht & Hr).
  assert (Htok' : forall d', tok (with_scopes s1 (put (scopes s1) d None)) d' = tok s1 d') by reflexivity.
  assert (HB' : BankInv (with_scopes s1 (put (scopes s1) d None))).
  { intros d'. rewrite (sup_same s1 _ d') by reflexivity. rewrite Htok'. apply HB1. }
  split; [split; [|split]|].
  - split; [exact HB'|].
    intros d' Hne. rewrite scope_of_put. destruct (N.eqb_spec d' d) as [->|Hd].
    + rewrite Htok', Ht in Hne. contradiction.
    + rewrite (scope_of_same s s1 d' Hsc). apply HT. rewrite Htok' in Hne. rewrite <- Ho by exact Hd. exact Hne.
  - intros d' h Hh Hch. destruct (N.eq_dec d' d) as [->|Hd].
    2:{ exfalso. apply Hch. rewrite <- Hh. apply holder_same. rewrite Htok'. apply Ho. exact Hd. }
    pose proof (holder_inv _ _ _ HB Hh) as Hth. rewrite Hth in Ecur. cbn in Ecur. injection Ecur as <-.
    cbn [opt_list] in Ev.
    eapply (consent_from_checks s _ KDelete sg [h] None agents used h MODULE); try reflexivity; try exact Ev.
    + discriminate.
    + left. reflexivity.
    + discriminate.
    + assert (Hvo : value_owner s d = Some h) by exact Hh.
      specialize (Hr ltac:(rewrite Hvo; discriminate)). unfold vo_src in Hr. rewrite Hvo in Hr. exact Hr.
  - intros d' n Hn Hch. destruct (N.eq_dec d' d) as [->|Hd].
    + exfalso. unfold holder, value_owner in Hn. rewrite Htok', Ht in Hn. discriminate.
    + exfalso. apply Hch. rewrite <- Hn. symmetry. apply holder_same. rewrite Htok'. apply Ho. exact Hd.
  - split; [|split].
    + destruct (HB' d) as [(Hs & _)|(_ & h & Hh)]; [exact Hs|]. rewrite Htok', Ht in Hh. discriminate.
    + rewrite Htok'. exact Ht.
    + rewrite scope_of_put, N.eqb_refl. reflexivity.
Qed.

(** ** Bulk update and migrate *)
Lemma send_many_sent (P : addr -> Prop) s from to ds agents s' :
  BankInv s -> (restrict (markers s) from to agents = true -> P from) ->
  send_many s from to ds agents = Some s' -> sent P s s' to.
Proof.
  intros HB HP. unfold send_many. destruct (restrict (markers s) from to agents); [|discriminate].
  apply move_all_sent; [exact HB|apply HP; reflexivity].
Qed.

Lemma send_groups_sent mks (froms0 : list addr) links p agents : forall froms s s',
  BankInv s -> markers s = mks -> (forall f, In f froms -> In f froms0) ->
  send_groups s froms links p agents = Some s' ->
  sent (fun f => In f froms0 /\ restrict mks f p agents = true) s s' p.
Proof.
  induction froms as [|f r IH]; intros s s' HB Hm Hin; cbn [send_groups].
  - intros [= <-]. apply sent_refl.
  - destruct (N.eqb f p).
    + apply IH; [exact HB|exact Hm|intros x Hx; apply Hin; right; exact Hx].
    + destruct (send_many s f p _ agents) as [s1|] eqn:E; [|discriminate]. intros H.
      assert (S1 : sent (fun f => In f froms0 /\ restrict mks f p agents = true) s s1 p).
      { eapply send_many_sent; [exact HB| |exact E]. intros Hr. split; [apply Hin; left; reflexivity|].
        rewrite <- Hm. exact Hr. }
      eapply sent_trans; [exact S1|]. apply IH.
      * eapply sent_bankinv; eassumption.
      * destruct S1 as ((_ & _ & _ & Hmk & _) & _). congruence.
      * intros x Hx. apply Hin. right. exact Hx.
      * exact H.
Qed.

Lemma update_core_good s o sg links p k s' :
  Inv s -> signers_of o = sg -> kind_of o = Some k -> k <> KAddData -> sg <> [] ->
  update_core s sg links p k = Some s' -> good_step s o s'.
Proof.
  intros (HB & HT) Hsg Hk Hka Hne. unfold update_core.
  destruct (is_nil links); [discriminate|].
  destruct (existsb (fun l => N.eqb (fst l) p) links); [discriminate|].
  set (froms := dedup (map fst links)).
  destruct (vo_signers s froms (Some p) sg k) as [[agents used]|] eqn:Ev; [|discriminate].
  destruct (mem p (blocked s)); [discriminate|]. intros H.
  pose proof (send_groups_sent (markers s) froms links p agents froms s s' HB eq_refl (fun f Hf => Hf) H) as S.
  split; [split; [eapply sent_bankinv; eassumption|eapply sent_tokscope; eassumption]|].
  destruct S as (_ & S).
  (* a changed holder: the token went from f (in froms, restriction passed) to p *)
  assert (Hchg : forall d, holder s' d <> holder s d ->
            exists f, In f froms /\ restrict (markers s) f p agents = true /\ tok s d = [(f, 1)] /\ tok s' d = [(p, 1)]).
  { intros d Hd. destruct (S d) as [E|(f & (Hf & Hr) & A & B)].
    - contradiction Hd. apply holder_same. exact E.
    - exists f. auto. }
  split.
  - intros d h Hh Hch. destruct (Hchg d ltac:(congruence)) as (f & Hf & Hr & A & B).
    rewrite (holder_single _ _ _ A) in Hh. injection Hh as ->.
    assert (Hp : Some p <> Some h).
    { intros [= ->]. apply Hch. apply holder_single. exact B. }
    eapply consent_from_checks; try eassumption.
  - intros d n Hn Hch. destruct (Hchg d ltac:(congruence)) as (f & Hf & Hr & A & B).
    rewrite (holder_single _ _ _ B) in Hn. injection Hn as <-.
    destruct (vo_signers_agents _ _ _ _ _ _ _ Ev) as [(e & He & [= <-] & _)|Ha].
    + exfalso. rewrite He in Hf. destruct Hf as [<-|[]]. apply Hch.
      rewrite (holder_single _ _ _ A). reflexivity.
    + eapply deposit_from_restrict; [exact Hsg| | |exact Hr].
      * rewrite Ha. apply effective_signers_nonempty. exact Hne.
      * intros g Hg. rewrite Ha in Hg. eapply effective_signers_incl. exact Hg.
Qed.

Lemma step_update_good s sg ds p s' :
  Inv s -> step_update s sg ds p = Some s' -> good_step s (OUpdate sg ds p) s'.
Proof.
  intros HI. unfold step_update.
  destruct (is_nil sg || is_nil ds) eqn:Eb; [discriminate|].
  destruct (links_of s [] ds) as [links|]; [|discriminate]. intros H.
  eapply update_core_good; [exact HI|reflexivity|reflexivity|discriminate| |exact H].
  apply is_nil_false. apply orb_false_elim in Eb. apply Eb.
Qed.

Lemma step_migrate_good s sg e p s' :
  Inv s -> step_migrate s sg e p = Some s' -> good_step s (OMigrate sg e p) s'.
Proof.
  intros HI. unfold step_migrate. destruct (is_nil sg) eqn:Eb; [discriminate|]. intros H.
  eapply update_core_good; [exact HI|reflexivity|reflexivity|discriminate| |exact H].
  apply is_nil_false. exact Eb.
Qed.

(** ** Plain bank send of the token *)
Lemma step_send_good s from to d amt s' :
  Inv s -> step_send s from to d amt = Some s' -> good_step s (OSend from to d amt) s'.
Proof.
  intros (HB & HT). unfold step_send.
  destruct (Z.leb_spec amt 0) as [|Hamt]; [discriminate|].
  destruct (mem to (blocked s)); [discriminate|].
  unfold send_one. destruct (restrict (markers s) from to []) eqn:Er; [|discriminate]. intros H.
  assert (S : sent (fun f => f = from) s s' to) by (apply (move_sent (fun f => f = from) s from to d amt s' HB Hamt eq_refl H)).
  split; [split; [eapply sent_bankinv; eassumption|eapply sent_tokscope; eassumption]|].
  destruct S as (_ & S).
  split.
  - intros d' h Hh Hch. destruct (S d') as [E|(f & -> & A & B)].
    + exfalso. apply Hch. rewrite <- Hh. apply holder_same. exact E.
    + rewrite (holder_single _ _ _ A) in Hh. injection Hh as ->. left. left. reflexivity.
  - intros d' n Hn Hch. destruct (S d') as [E|(f & -> & A & B)].
    + exfalso. apply Hch. rewrite <- Hn. symmetry. apply holder_same. exact E.
    + rewrite (holder_single _ _ _ B) in Hn. injection Hn as <-.
      intros m Hm Hres. destruct (restrict_to _ _ _ _ _ Er Hm Hres) as [(_ & Hd)|(g & [] & _)].
      exists from. split; [left; reflexivity|exact Hd].
Qed.

(** ** Environment steps do not touch tokens or scopes *)
Lemma env_good s o s' :
  Inv s -> (forall d, tok s' d = tok s d) -> sups s' = sups s -> scopes s' = scopes s -> good_step s o s'.
Proof.
  intros (HB & HT) Ht Hs Hsc. split; [split|split].
  - intros d. rewrite (sup_same _ _ d Hs), Ht. apply HB.
  - intros d Hne. rewrite (scope_of_same _ _ d Hsc). apply HT. rewrite <- Ht. exact Hne.
  - intros d h Hh Hch. exfalso. apply Hch. rewrite <- Hh. apply holder_same. apply Ht.
  - intros d n Hn Hch. exfalso. apply Hch. rewrite <- Hn. symmetry. apply holder_same. apply Ht.
Qed.

(** ** MsgAddScopeDataAccess rewrites the scope record only *)
Lemma step_adddata_good s sg d da s' :
  Inv s -> step_adddata s sg d da = Some s' -> good_step s (OAddData sg d da) s'.
Proof.
  intros (HB & HT). unfold step_adddata.
  destruct (is_nil sg || is_nil da); [discriminate|].
  destruct (scope_of s d) as [e|] eqn:Esc; [|discriminate].
  destruct (existsb (fun x => mem x (sc_data e)) da); [discriminate|].
  match goal with |- (if ?c then _ else _) = _ -> _ => destruct c; [|discriminate] end.
  intros [= <-].
  assert (Htok' : forall d' v, tok (with_scopes s (put (scopes s) d v)) d' = tok s d') by reflexivity.
  split; [split|split].
  - intros d'. rewrite (sup_same s _ d') by reflexivity. rewrite Htok'. apply HB.
  - intros d' Hne. rewrite scope_of_put. destruct (N.eqb_spec d' d) as [->|Hd]; [discriminate|].
    apply HT. exact Hne.
  - intros d' h Hh Hch. exfalso. apply Hch. rewrite <- Hh. apply holder_same. apply Htok'.
  - intros d' n Hn Hch. exfalso. apply Hch. rewrite <- Hn. symmetry. apply holder_same. apply Htok'.
Qed.

Lemma step_opt_good s o s' : Inv s -> step_opt s o = Some s' -> good_step s o s'.
Proof.
  intros HI. destruct o as [sg d parties spec data rollup vo|sg d da|sg ds p|sg e p|sg d|from to d amt|a b k|a b k|a m]; cbn [step_opt].
  - apply step_write_good; exact HI.
  - apply step_adddata_good; exact HI.
  - apply step_update_good; exact HI.
  - apply step_migrate_good; exact HI.
  - intros H. apply (step_delete_spec _ _ _ _ HI H).
  - apply step_send_good; exact HI.
  - intros [= <-]. apply env_good; [exact HI|reflexivity..].
  - intros [= <-]. apply env_good; [exact HI|reflexivity..].
  - intros [= <-]. apply env_good; [exact HI|reflexivity..].
Qed.

(** ** Histories *)
Lemma run_op_inv s o : Inv s -> Inv (run_op s o).
Proof.
  intros HI. unfold run_op, step. destruct (step_opt s o) as [s'|] eqn:E; [|exact HI].
  apply (step_opt_good _ _ _ HI E).
Qed.

Lemma run_inv ops : forall s, Inv s -> Inv (run s ops).
Proof.
  unfold run. induction ops as [|o r IH]; intros s HI; cbn [fold_left]; [exact HI|].
  apply IH. apply run_op_inv. exact HI.
Qed.

Lemma init_inv sp mks w bl : Inv (init sp mks w bl).
Proof.
  split.
  - intros d. left. split; reflexivity.
  - intros d Hne. contradiction Hne. reflexivity.
Qed.

(** *** Token uniqueness *)
Lemma balance_inv s : Inv s -> forall d,
  (sup s d = 0 \/ sup s d = 1) /\
  (forall a, balance s a d = 0 \/ balance s a d = 1) /\
  (forall a b, balance s a d <> 0 -> balance s b d <> 0 -> a = b) /\
  (forall a, balance s a d <> 0 -> sup s d = 1 /\ scope_of s d <> None) /\
  (sup s d = 1 -> exists a, balance s a d = 1).
Proof.
  intros (HB & HT) d. unfold balance.
  destruct (HB d) as [(Hs & Ht)|(Hs & h & Ht)]; rewrite Ht, Hs.
  - split; [left; reflexivity|]. split; [intros a; left; reflexivity|].
    split; [intros a b Ha; contradiction Ha; reflexivity|].
    split; [intros a Ha; contradiction Ha; reflexivity|discriminate].
  - split; [right; reflexivity|].
    split; [intros a; rewrite bal_of_single; destruct (N.eqb h a); auto|].
    split.
    { intros a b. rewrite !bal_of_single. destruct (N.eqb_spec h a), (N.eqb_spec h b); congruence. }
    split.
    { intros a _. split; [reflexivity|]. apply HT. rewrite Ht. discriminate. }
    intros _. exists h. rewrite bal_of_single, N.eqb_refl. reflexivity.
Qed.

(** *** The reported value owner is the holder of the token *)
Lemma value_owner_inv s : Inv s -> forall d,
  match value_owner s d with
  | Some h => balance s h d = 1 /\ (forall a, a <> h -> balance s a d = 0) /\ sup s d = 1
  | None => (forall a, balance s a d = 0) /\ sup s d = 0
  end /\ denom_owner (tok s d) <> None.
Proof.
  intros (HB & _) d. unfold value_owner, balance.
  destruct (HB d) as [(Hs & Ht)|(Hs & h & Ht)]; rewrite Ht, Hs; cbn [denom_owner].
  - split; [|discriminate]. split; [intros a; reflexivity|reflexivity].
  - split; [|discriminate]. split; [rewrite bal_of_single, N.eqb_refl; reflexivity|].
    split; [|reflexivity]. intros a Ha. rewrite bal_of_single.
    destruct (N.eqb_spec h a); [congruence|reflexivity].
Qed.

(** *** Consent *)
Lemma run_op_consent s o d h :
  Inv s -> holder s d = Some h -> holder (run_op s o) d <> Some h -> consent s o h.
Proof.
  intros HI Hh. unfold run_op, step. destruct (step_opt s o) as [s'|] eqn:E; cbn [fst].
  - intros Hch. destruct (step_opt_good _ _ _ HI E) as (_ & Hc & _). eapply Hc; eassumption.
  - intros Hch. contradiction.
Qed.

Lemma run_op_deposit s o d n :
  Inv s -> holder (run_op s o) d = Some n -> holder s d <> Some n -> deposit_ok s o n.
Proof.
  intros HI. unfold run_op, step. destruct (step_opt s o) as [s'|] eqn:E; cbn [fst].
  - intros Hn Hch. destruct (step_opt_good _ _ _ HI E) as (_ & _ & Hd). eapply Hd; eassumption.
  - intros Hn Hch. contradiction.
Qed.

Lemma delete_burns s sg d :
  Inv s -> snd (step s (ODelete sg d)) = true ->
  let s' := run_op s (ODelete sg d) in
  sup s' d = 0 /\ (forall a, balance s' a d = 0) /\ scope_of s' d = None.
Proof.
  intros HI. unfold run_op, step. cbn [step_opt].
  destruct (step_delete s sg d) as [s'|] eqn:E; cbn [fst snd]; [|discriminate]. intros _.
  destruct (step_delete_spec _ _ _ _ HI E) as (_ & Hs & Ht & Hsc).
  split; [exact Hs|]. split; [|exact Hsc]. intros a. unfold balance. rewrite Ht. reflexivity.
Qed.
