(** Detection part of the trigger model (property C17): exact characterisations of
    [listeners], [scan], [detect_height], [detect_time], [detect_tx] and [detect].
    Self-contained: depends on the model only. *)
From Coq Require Import ZArith NArith List Bool Lia Permutation Sorted.
From PV Require Import Trigger.Trigger.
Import ListNotations.
Open Scope N_scope.

(** * 1. Matching of one emitted event *)
Lemma attr_matches_spec : forall w g,
  attr_matches w g = true <-> fst g = fst w /\ (snd w = 0 \/ snd w = snd g).
Proof.
  intros w g. unfold attr_matches.
  rewrite andb_true_iff, orb_true_iff, !N.eqb_eq. intuition congruence.
Qed.

Lemma tx_matches_spec : forall name attrs e,
  tx_matches name attrs e = true <->
  (name = em_type e /\
   forall w, In w attrs ->
     exists g, In g (em_attrs e) /\ fst g = fst w /\ (snd w = 0 \/ snd w = snd g)).
Proof.
  intros name attrs e. unfold tx_matches.
  rewrite andb_true_iff, N.eqb_eq, forallb_forall.
  split; intros [H1 H2]; (split; [exact H1|]); intros w Hw.
  - apply H2 in Hw. apply existsb_exists in Hw. destruct Hw as [g [Hg Hm]].
    exists g. split; [exact Hg|]. apply attr_matches_spec; exact Hm.
  - apply existsb_exists. destruct (H2 w Hw) as [g [Hg Hm]].
    exists g. split; [exact Hg|]. apply attr_matches_spec; exact Hm.
Qed.

(** * 2. The listener order and the insertion sort *)
Lemma key_le_spec : forall a b,
  key_le a b = true <-> (fst a < fst b \/ (fst a = fst b /\ snd a <= snd b)).
Proof.
  intros a b. unfold key_le.
  rewrite orb_true_iff, andb_true_iff, N.ltb_lt, N.eqb_eq, N.leb_le. tauto.
Qed.

Lemma key_le_refl : forall a, key_le a a = true.
Proof. intros a. apply key_le_spec. lia. Qed.

Lemma key_le_total : forall a b, key_le a b = true \/ key_le b a = true.
Proof. intros a b. rewrite !key_le_spec. lia. Qed.

Lemma key_le_trans : forall a b c, key_le a b = true -> key_le b c = true -> key_le a c = true.
Proof. intros a b c. rewrite !key_le_spec. lia. Qed.

Lemma key_le_antisym : forall a b, key_le a b = true -> key_le b a = true -> a = b.
Proof.
  intros [a1 a2] [b1 b2]. rewrite !key_le_spec. cbn [fst snd]. intros H1 H2.
  f_equal; lia.
Qed.

(** strict order on keys *)
Definition key_lt (a b : N * N) : Prop := key_le a b = true /\ a <> b.

Lemma key_lt_spec : forall a b,
  key_lt a b <-> (fst a < fst b \/ (fst a = fst b /\ snd a < snd b)).
Proof.
  intros [a1 a2] [b1 b2]. unfold key_lt. rewrite key_le_spec. cbn [fst snd]. split.
  - intros [H Hne].
    assert (Hx : ~ (a1 = b1 /\ a2 = b2)) by (intros [-> ->]; apply Hne; reflexivity). lia.
  - intros H. split; [lia|]. intros Heq. injection Heq as -> ->. lia.
Qed.

Definition D_le (k : entry -> N * N) (a b : entry) : Prop := key_le (k a) (k b) = true.

Lemma sort_by_cons : forall k x l, sort_by k (x :: l) = insert_by k x (sort_by k l).
Proof. reflexivity. Qed.

Lemma In_insert_by : forall k x y l, In y (insert_by k x l) <-> y = x \/ In y l.
Proof.
  intros k x y l. induction l as [|a l IH]; cbn [insert_by].
  - cbn [In]. intuition.
  - destruct (key_le (k x) (k a)); cbn [In]; [|rewrite IH]; intuition.
Qed.

Lemma In_sort_by : forall k y l, In y (sort_by k l) <-> In y l.
Proof.
  intros k y l. induction l as [|a l IH].
  - reflexivity.
  - rewrite sort_by_cons, In_insert_by, IH. cbn [In]. intuition.
Qed.

Lemma insert_by_perm : forall k x l, Permutation (insert_by k x l) (x :: l).
Proof.
  intros k x l. induction l as [|a l IH]; cbn [insert_by].
  - apply Permutation_refl.
  - destruct (key_le (k x) (k a)).
    + apply Permutation_refl.
    + apply perm_trans with (a :: x :: l).
      * apply perm_skip. exact IH.
      * apply perm_swap.
Qed.

Lemma sort_by_perm : forall k l, Permutation (sort_by k l) l.
Proof.
  intros k l. induction l as [|a l IH].
  - apply Permutation_refl.
  - rewrite sort_by_cons. apply perm_trans with (a :: sort_by k l).
    + apply insert_by_perm.
    + apply perm_skip. exact IH.
Qed.

Lemma insert_by_sorted : forall k x l,
  StronglySorted (D_le k) l -> StronglySorted (D_le k) (insert_by k x l).
Proof.
  intros k x l. induction l as [|a l IH]; intros Hs; cbn [insert_by].
  - constructor; constructor.
  - apply StronglySorted_inv in Hs. destruct Hs as [Hs Hall].
    destruct (key_le (k x) (k a)) eqn:Hk.
    + constructor.
      * constructor; assumption.
      * constructor; [exact Hk|].
        rewrite Forall_forall in *. intros z Hz. unfold D_le.
        apply key_le_trans with (k a); [exact Hk|]. apply Hall; exact Hz.
    + constructor.
      * apply IH; exact Hs.
      * rewrite Forall_forall in *. intros z Hz. apply In_insert_by in Hz.
        destruct Hz as [->|Hz].
        -- unfold D_le. destruct (key_le_total (k a) (k x)) as [H|H]; [exact H|congruence].
        -- apply Hall; exact Hz.
Qed.

Lemma sort_by_sorted : forall k l,
  StronglySorted (fun a b => key_le (k a) (k b) = true) (sort_by k l).
Proof.
  intros k l. change (StronglySorted (D_le k) (sort_by k l)).
  induction l as [|a l IH].
  - constructor.
  - rewrite sort_by_cons. apply insert_by_sorted. exact IH.
Qed.

Lemma D_sorted_app : forall (R : entry -> entry -> Prop) pre y post,
  StronglySorted R (pre ++ y :: post) ->
  (forall z, In z post -> R y z) /\ (forall z, In z pre -> R z y).
Proof.
  intros R pre y post. induction pre as [|a pre IH]; cbn [app]; intros Hs.
  - apply StronglySorted_inv in Hs. destruct Hs as [_ Hall].
    rewrite Forall_forall in Hall. split; [exact Hall|]. intros z [].
  - apply StronglySorted_inv in Hs. destruct Hs as [Hs Hall].
    destruct (IH Hs) as [H1 H2]. split; [exact H1|].
    rewrite Forall_forall in Hall.
    intros z [<-|Hz].
    + apply Hall. apply in_or_app. right. left. reflexivity.
    + apply H2; exact Hz.
Qed.

Lemma In_listeners : forall p r x,
  In x (listeners p r) <-> In x r /\ ev_prefix (t_event (fst x)) = p.
Proof.
  intros p r x. unfold listeners. rewrite In_sort_by, filter_In, N.eqb_eq. tauto.
Qed.

Lemma listeners_sorted : forall p r,
  StronglySorted (fun a b => key_le (lkey a) (lkey b) = true) (listeners p r).
Proof. intros p r. unfold listeners. apply sort_by_sorted. Qed.

Lemma listeners_perm : forall p r,
  Permutation (listeners p r) (filter (fun x => ev_prefix (t_event (fst x)) =? p) r).
Proof. intros p r. unfold listeners. apply sort_by_perm. Qed.

Lemma D_NoDup_map_filter : forall (A B : Type) (f : A -> B) (g : A -> bool) (l : list A),
  NoDup (map f l) -> NoDup (map f (filter g l)).
Proof.
  intros A B f g l. induction l as [|a l IH]; cbn [map filter]; intros H.
  - constructor.
  - inversion H as [|u v Hn Hd]; subst. destruct (g a); cbn [map].
    + constructor; [|apply IH; exact Hd].
      intros Hin. apply Hn. apply in_map_iff in Hin. destruct Hin as [y [Hy Hin]].
      apply filter_In in Hin. apply in_map_iff. exists y. tauto.
    + apply IH; exact Hd.
Qed.

Lemma listeners_nodup : forall p r, NoDup (map eid r) -> NoDup (map eid (listeners p r)).
Proof.
  intros p r H.
  apply Permutation_NoDup with (map eid (filter (fun x => ev_prefix (t_event (fst x)) =? p) r)).
  - apply Permutation_map. apply Permutation_sym. apply listeners_perm.
  - apply D_NoDup_map_filter. exact H.
Qed.

Lemma D_eid_inj : forall (r : list entry) a b,
  NoDup (map eid r) -> In a r -> In b r -> eid a = eid b -> a = b.
Proof.
  intros r a b. induction r as [|c r IH]; cbn [map]; intros Hnd Ha Hb Heq.
  - destruct Ha.
  - inversion Hnd as [|u v Hn Hd]; subst.
    destruct Ha as [Ha|Ha]; destruct Hb as [Hb|Hb].
    + congruence.
    + subst c. exfalso. apply Hn. rewrite Heq. apply in_map; exact Hb.
    + subst c. exfalso. apply Hn. rewrite <- Heq. apply in_map; exact Ha.
    + apply IH; assumption.
Qed.

Lemma D_NoDup_split : forall (pre post : list entry) x y,
  NoDup (map eid (pre ++ x :: post)) -> In y pre -> eid y <> eid x.
Proof.
  intros pre post x y H Hy Heq. rewrite map_app in H. cbn [map] in H.
  apply NoDup_remove_2 in H. apply H. apply in_or_app. left.
  rewrite <- Heq. apply in_map; exact Hy.
Qed.

(** * 3. The ordered scan *)
Lemma scan_spec : forall mt tm l x,
  In x (scan mt tm l) <->
  exists pre post, l = pre ++ x :: post /\ mt x = true /\ (forall y, In y pre -> tm y = false).
Proof.
  intros mt tm l x. induction l as [|a l IH]; cbn [scan].
  - split; [intros []|]. intros [pre [post [H _]]]. destruct pre; discriminate.
  - rewrite in_app_iff. split.
    + intros [H|H].
      * destruct (mt a) eqn:Hm; cbn [In] in H; [|contradiction].
        destruct H as [H|[]]. subst a. exists [], l. cbn [app].
        split; [reflexivity|]. split; [exact Hm|]. intros y [].
      * destruct (tm a) eqn:Ht; [contradiction|]. apply IH in H.
        destruct H as [pre [post [H1 [H2 H3]]]]. exists (a :: pre), post.
        split; [rewrite H1; reflexivity|]. split; [exact H2|].
        intros y [Hy|Hy]; [subst y; exact Ht|apply H3; exact Hy].
    + intros [pre [post [H1 [H2 H3]]]]. destruct pre as [|b pre]; cbn [app] in H1.
      * injection H1 as Ha Hl. subst a. left. rewrite H2. left; reflexivity.
      * injection H1 as Ha Hl. subst b. right.
        rewrite (H3 a (or_introl eq_refl)). apply IH. exists pre, post.
        split; [exact Hl|]. split; [exact H2|]. intros y Hy. apply H3. right; exact Hy.
Qed.

Lemma scan_incl : forall mt tm l x, In x (scan mt tm l) -> In x l /\ mt x = true.
Proof.
  intros mt tm l x H. apply scan_spec in H. destruct H as [pre [post [H1 [H2 _]]]].
  split; [|exact H2]. rewrite H1. apply in_or_app. right. left. reflexivity.
Qed.

Lemma D_filter_nil : forall (A : Type) (f : A -> bool) (l : list A),
  (forall z, In z l -> f z = false) -> filter f l = [].
Proof.
  intros A f l. induction l as [|a l IH]; intros H; cbn [filter].
  - reflexivity.
  - rewrite (H a (or_introl eq_refl)). apply IH. intros z Hz. apply H. right; exact Hz.
Qed.

Lemma scan_filter : forall mt tm l,
  (forall pre y post, l = pre ++ y :: post -> tm y = true -> forall z, In z post -> mt z = false) ->
  scan mt tm l = filter mt l.
Proof.
  intros mt tm l. induction l as [|a l IH]; intros H; cbn [scan filter].
  - reflexivity.
  - destruct (tm a) eqn:Ht.
    + rewrite (D_filter_nil _ mt l).
      * destruct (mt a); reflexivity.
      * intros z Hz. apply (H [] a l eq_refl Ht z Hz).
    + rewrite IH.
      * destruct (mt a); reflexivity.
      * intros pre y post Hl Hy z Hz. apply (H (a :: pre) y post); [|exact Hy|exact Hz].
        rewrite Hl. reflexivity.
Qed.

Lemma scan_nodup : forall mt tm (l : list entry),
  NoDup (map eid l) -> NoDup (map eid (scan mt tm l)).
Proof.
  intros mt tm l. induction l as [|a l IH]; cbn [scan map]; intros H.
  - constructor.
  - inversion H as [|u v Hn Hd]; subst.
    assert (Hrest : NoDup (map eid (if tm a then [] else scan mt tm l))).
    { destruct (tm a); [constructor|apply IH; exact Hd]. }
    destruct (mt a); cbn [app map]; [|exact Hrest].
    constructor; [|exact Hrest].
    intros Hin. apply Hn. destruct (tm a); [destruct Hin|].
    apply in_map_iff in Hin. destruct Hin as [y [Hy Hin]].
    apply scan_incl in Hin. rewrite <- Hy. apply in_map. tauto.
Qed.

(** * 4. Heights: the scan is exact *)
Lemma detect_height_filter : forall h r,
  detect_height h r = filter (h_match h) (listeners P_HEIGHT r).
Proof.
  intros h r. unfold detect_height. apply scan_filter.
  intros pre y post Hl Hy z Hz.
  pose proof (listeners_sorted P_HEIGHT r) as Hs. rewrite Hl in Hs.
  apply D_sorted_app in Hs. destruct Hs as [Hpost _]. specialize (Hpost z Hz).
  unfold h_term in Hy. unfold h_match.
  destruct (t_event (fst y)) as [v| |] eqn:Ey; try discriminate.
  destruct (t_event (fst z)) as [w| |] eqn:Ez; try reflexivity.
  apply key_le_spec in Hpost. unfold lkey in Hpost. cbn [fst snd] in Hpost.
  rewrite Ey, Ez in Hpost. cbn [ev_order] in Hpost.
  apply N.ltb_lt in Hy. apply N.leb_gt. lia.
Qed.

Lemma detect_height_exact : forall h r x v,
  In x r -> t_event (fst x) = EvHeight v -> (In x (detect_height h r) <-> v <= h).
Proof.
  intros h r x v Hx Hev. rewrite detect_height_filter, filter_In, In_listeners.
  unfold h_match. rewrite Hev. cbn [ev_prefix]. rewrite N.leb_le. tauto.
Qed.

(** * 5. Times *)
(** INTENDED (false because the order key wraps modulo 2^64, see [detect_time_refuted]):
      In x r -> t_event (fst x) = EvTime v -> (In x (detect_time t r) <-> (v <= t)%Z).
    Exact version: additionally every time listener strictly before x in key order is due. *)
Lemma detect_time_exact : forall t r x v,
  NoDup (map eid r) -> In x r -> t_event (fst x) = EvTime v ->
  (In x (detect_time t r) <->
   (v <= t)%Z /\
   forall y w, In y r -> t_event (fst y) = EvTime w -> key_lt (lkey y) (lkey x) -> (w <= t)%Z).
Proof.
  intros t r x v Hnd Hx Hev. unfold detect_time. rewrite scan_spec.
  pose proof (listeners_sorted P_TIME r) as Hs.
  assert (HxL : In x (listeners P_TIME r)).
  { apply In_listeners. split; [exact Hx|]. rewrite Hev. reflexivity. }
  split.
  - intros [pre [post [Hl [Hm Hpre]]]].
    unfold t_match in Hm. rewrite Hev in Hm. apply Z.leb_le in Hm. split; [exact Hm|].
    intros y w Hy Hyw [Hle Hne].
    assert (HyL : In y (listeners P_TIME r)).
    { apply In_listeners. split; [exact Hy|]. rewrite Hyw. reflexivity. }
    rewrite Hl in Hs, HyL. apply D_sorted_app in Hs. destruct Hs as [Hpost _].
    apply in_app_or in HyL. destruct HyL as [HyL | [HyL | HyL]].
    + apply Hpre in HyL. unfold t_term in HyL. rewrite Hyw in HyL.
      apply Z.ltb_ge in HyL. exact HyL.
    + subst y. exfalso. apply Hne. reflexivity.
    + exfalso. apply Hne. apply key_le_antisym; [exact Hle|]. apply Hpost; exact HyL.
  - intros [Hv Hall]. pose proof (listeners_nodup P_TIME r Hnd) as HndL.
    apply in_split in HxL. destruct HxL as [pre [post Hl]].
    exists pre, post. split; [exact Hl|]. split.
    + unfold t_match. rewrite Hev. apply Z.leb_le. exact Hv.
    + intros y Hy. unfold t_term.
      destruct (t_event (fst y)) as [hh|w|nm ln ats] eqn:Ey; try reflexivity.
      apply Z.ltb_ge. apply (Hall y w).
      * assert (HyL : In y (listeners P_TIME r)).
        { rewrite Hl. apply in_or_app. left. exact Hy. }
        apply In_listeners in HyL. tauto.
      * exact Ey.
      * rewrite Hl in Hs, HndL. apply D_sorted_app in Hs. destruct Hs as [_ Hpre].
        split; [apply Hpre; exact Hy|].
        intros Heq. unfold lkey in Heq. injection Heq as _ Hid.
        exact (D_NoDup_split pre post x y HndL Hy Hid).
Qed.

Lemma detect_time_complete : forall t r,
  (forall y w, In y r -> t_event (fst y) = EvTime w -> (0 <= w < two64)%Z) ->
  detect_time t r = filter (t_match t) (listeners P_TIME r).
Proof.
  intros t r Hb. unfold detect_time. apply scan_filter.
  intros pre y post Hl Hy z Hz.
  pose proof (listeners_sorted P_TIME r) as Hs. rewrite Hl in Hs.
  apply D_sorted_app in Hs. destruct Hs as [Hpost _]. specialize (Hpost z Hz).
  assert (HyL : In y (listeners P_TIME r)).
  { rewrite Hl. apply in_or_app. right. left. reflexivity. }
  assert (HzL : In z (listeners P_TIME r)).
  { rewrite Hl. apply in_or_app. right. right. exact Hz. }
  apply In_listeners in HyL. apply In_listeners in HzL.
  destruct HyL as [HyR _]. destruct HzL as [HzR _].
  unfold t_term in Hy. unfold t_match.
  destruct (t_event (fst y)) as [|w|] eqn:Ey; try discriminate.
  destruct (t_event (fst z)) as [|w'|] eqn:Ez; try reflexivity.
  apply Z.ltb_lt in Hy. apply Z.leb_gt.
  pose proof (Hb y w HyR Ey) as Hw. pose proof (Hb z w' HzR Ez) as Hw'.
  apply key_le_spec in Hpost. unfold lkey in Hpost. cbn [fst snd] in Hpost.
  rewrite Ey, Ez in Hpost. cbn [ev_order] in Hpost.
  rewrite (Z.mod_small w two64 Hw), (Z.mod_small w' two64 Hw') in Hpost.
  assert (Hle : Z.to_N w <= Z.to_N w') by lia.
  apply Z2N.inj_le in Hle; lia.
Qed.

Lemma detect_time_complete_iff : forall t r x v,
  (forall y w, In y r -> t_event (fst y) = EvTime w -> (0 <= w < two64)%Z) ->
  In x r -> t_event (fst x) = EvTime v ->
  (In x (detect_time t r) <-> (v <= t)%Z).
Proof.
  intros t r x v Hb Hx Hev. rewrite (detect_time_complete t r Hb), filter_In, In_listeners.
  unfold t_match. rewrite Hev. cbn [ev_prefix]. rewrite Z.leb_le. tauto.
Qed.

(** an entry with dummy fields for the witnesses *)
Definition D_mk (i : N) (ev : event) : entry :=
  ({| t_id := i; t_owner := 0; t_event := ev; t_actions := []; t_auths := []; t_root := [];
      t_prepaid := 0 |}, 0).

(** A due time trigger hidden behind a far-future one whose order key wrapped. *)
Lemma detect_time_refuted : exists t r x v,
  NoDup (map eid r) /\ In x r /\ t_event (fst x) = EvTime v /\ (v <= t)%Z /\
  ~ In x (detect_time t r).
Proof.
  exists 200%Z, [D_mk 1 (EvTime (two64 + 5)); D_mk 2 (EvTime 100)], (D_mk 2 (EvTime 100)), 100%Z.
  split.
  { cbn [map D_mk eid t_id fst]. constructor.
    - intros [H|[]]. discriminate.
    - constructor; [intros []|constructor]. }
  split; [right; left; reflexivity|].
  split; [reflexivity|].
  split; [lia|].
  vm_compute. intros [].
Qed.

Lemma D_NoDup_map_app : forall (f : entry -> N) (l1 l2 : list entry),
  NoDup (map f l1) -> NoDup (map f l2) ->
  (forall a b, In a l1 -> In b l2 -> f a <> f b) ->
  NoDup (map f (l1 ++ l2)).
Proof.
  intros f l1 l2. induction l1 as [|a l1 IH]; cbn [app map]; intros H1 H2 Hd.
  - exact H2.
  - inversion H1 as [|u v Hn Hd1]; subst. constructor.
    + rewrite map_app. intros Hin. apply in_app_or in Hin. destruct Hin as [Hin|Hin].
      * apply Hn; exact Hin.
      * apply in_map_iff in Hin. destruct Hin as [b [Hb Hin]].
        apply (Hd a b (or_introl eq_refl) Hin). symmetry. exact Hb.
    + apply IH; [exact Hd1|exact H2|]. intros x y Hx Hy. apply Hd; [right; exact Hx|exact Hy].
Qed.

(** * 6. Transaction events *)
(** Model after the repair of detectTransactionEvents: only the MATCHED triggers are remembered in [seen],
    so an event that does not match no longer hides a later matching one. *)
Lemma mem_spec : forall x l, mem x l = true <-> In x l.
Proof.
  intros x l. unfold mem. rewrite existsb_exists. split.
  - intros [y [Hy Heq]]. apply N.eqb_eq in Heq. subst y. exact Hy.
  - intros H. exists x. split; [exact H|apply N.eqb_refl].
Qed.

Definition D_cands (e : emitted) (r : list entry) (seen : list N) : list entry :=
  filter (fun x => is_tx x && negb (mem (eid x) seen)) (listeners (em_ltype e) r).

Definition D_matched (e : emitted) (r : list entry) (seen : list N) : list entry :=
  filter (ev_matches e) (D_cands e r seen).

Lemma detect_tx_cons : forall e rest r seen,
  detect_tx (e :: rest) r seen =
  D_matched e r seen ++ detect_tx rest r (map eid (D_matched e r seen) ++ seen).
Proof. reflexivity. Qed.

Lemma In_D_cands : forall e r seen x,
  In x (D_cands e r seen) <->
  In x r /\ ev_prefix (t_event (fst x)) = em_ltype e /\ is_tx x = true /\ ~ In (eid x) seen.
Proof.
  intros e r seen x. unfold D_cands.
  rewrite filter_In, In_listeners, andb_true_iff, negb_true_iff, <- mem_spec.
  rewrite not_true_iff_false. tauto.
Qed.

Lemma In_D_matched : forall e r seen x,
  In x (D_matched e r seen) <->
  In x r /\ ev_prefix (t_event (fst x)) = em_ltype e /\ is_tx x = true /\ ~ In (eid x) seen /\
  ev_matches e x = true.
Proof.
  intros e r seen x. unfold D_matched. rewrite filter_In, In_D_cands. tauto.
Qed.

(** membership of a given transaction-event trigger in the block of one emitted event *)
Lemma In_D_matched_tx : forall e r seen x name lname attrs,
  In x r -> t_event (fst x) = EvTx name lname attrs ->
  (In x (D_matched e r seen) <->
   ~ In (eid x) seen /\ em_ltype e = lname /\ tx_matches name attrs e = true).
Proof.
  intros e r seen x name lname attrs Hx Hev. rewrite In_D_matched.
  unfold is_tx, ev_matches. rewrite Hev. cbn [ev_prefix]. split.
  - intros [_ [Hp [_ [Hns Hm]]]]. split; [exact Hns|]. split; [symmetry; exact Hp|exact Hm].
  - intros [Hns [Hp Hm]]. split; [exact Hx|]. split; [symmetry; exact Hp|].
    split; [reflexivity|]. split; [exact Hns|exact Hm].
Qed.

Lemma D_matched_nodup : forall e r seen,
  NoDup (map eid r) -> NoDup (map eid (D_matched e r seen)).
Proof.
  intros e r seen Hnd. unfold D_matched, D_cands.
  apply D_NoDup_map_filter. apply D_NoDup_map_filter. apply listeners_nodup. exact Hnd.
Qed.

Lemma detect_tx_sound : forall evs r seen x,
  In x (detect_tx evs r seen) ->
  In x r /\ is_tx x = true /\ exists e, In e evs /\ ev_matches e x = true.
Proof.
  intros evs r. induction evs as [|e rest IH]; intros seen x H.
  - destruct H.
  - rewrite detect_tx_cons in H. apply in_app_or in H. destruct H as [H|H].
    + apply In_D_matched in H. destruct H as [Hr [_ [Hi [_ Hm]]]].
      split; [exact Hr|]. split; [exact Hi|].
      exists e. split; [left; reflexivity|exact Hm].
    + apply IH in H. destruct H as [Hr [Hi [e' [He' Hm]]]].
      split; [exact Hr|]. split; [exact Hi|]. exists e'. split; [right; exact He'|exact Hm].
Qed.

Lemma detect_tx_not_seen : forall evs r seen x,
  In x (detect_tx evs r seen) -> ~ In (eid x) seen.
Proof.
  intros evs r. induction evs as [|e rest IH]; intros seen x H.
  - destruct H.
  - rewrite detect_tx_cons in H. apply in_app_or in H. destruct H as [H|H].
    + apply In_D_matched in H. tauto.
    + apply IH in H. intros Hs. apply H. apply in_or_app. right. exact Hs.
Qed.

(** generalisation over the already-detected set: x is detected from [seen] iff it is not in [seen] and
    SOME emitted event of its prefix matches it *)
Lemma detect_tx_gen : forall r x name lname attrs,
  NoDup (map eid r) -> In x r -> t_event (fst x) = EvTx name lname attrs ->
  forall evs seen,
  In x (detect_tx evs r seen) <->
  ~ In (eid x) seen /\
  exists e, In e evs /\ em_ltype e = lname /\ tx_matches name attrs e = true.
Proof.
  intros r x name lname attrs Hnd Hx Hev.
  induction evs as [|e rest IH]; intros seen.
  - cbn [detect_tx]. split; [intros []|]. intros [_ [e [[] _]]].
  - rewrite detect_tx_cons, in_app_iff, IH.
    pose proof (In_D_matched_tx e r seen x name lname attrs Hx Hev) as Hxm.
    split.
    + intros [H | [Hns [e' [He' [Hl Hm]]]]].
      * apply Hxm in H. destruct H as [Hns [Hl Hm]]. split; [exact Hns|].
        exists e. split; [left; reflexivity|]. split; [exact Hl|exact Hm].
      * split.
        -- intros Hs. apply Hns. apply in_or_app. right. exact Hs.
        -- exists e'. split; [right; exact He'|]. split; [exact Hl|exact Hm].
    + intros [Hns [e0 [Hin [Hl Hm]]]].
      assert (Hskip : ~ In x (D_matched e r seen) ->
                      ~ In (eid x) (map eid (D_matched e r seen) ++ seen)).
      { intros Hnx Hin'. apply in_app_or in Hin'. destruct Hin' as [Hin'|Hin']; [|exact (Hns Hin')].
        apply in_map_iff in Hin'. destruct Hin' as [c [Hc Hcin]].
        assert (Hcr : In c r) by (apply In_D_matched in Hcin; tauto).
        assert (Hcx : c = x) by (apply D_eid_inj with r; assumption).
        subst c. exact (Hnx Hcin). }
      destruct Hin as [He0|Hin].
      * subst e0. left. apply Hxm. split; [exact Hns|]. split; [exact Hl|exact Hm].
      * destruct (N.eq_dec (em_ltype e) lname) as [He|He];
          [destruct (tx_matches name attrs e) eqn:Hte|].
        -- left. apply Hxm. split; [exact Hns|]. split; [exact He|reflexivity].
        -- right. split.
           ++ apply Hskip. intros H. apply Hxm in H. destruct H as [_ [_ H]]. discriminate H.
           ++ exists e0. split; [exact Hin|]. split; [exact Hl|exact Hm].
        -- right. split.
           ++ apply Hskip. intros H. apply Hxm in H. destruct H as [_ [H _]]. exact (He H).
           ++ exists e0. split; [exact Hin|]. split; [exact Hl|exact Hm].
Qed.

(** Exact: x is detected iff SOME emitted event under x's prefix matches it.
    (Before the repair only the FIRST emitted event of the prefix counted.)  Since [lname] is the interned
    lower(trim(name)) and [tx_matches] compares [name] with [em_type e], the prefix condition is what the
    listener lookup adds to the plain match. *)
Lemma detect_tx_exact : forall evs r x name lname attrs,
  NoDup (map eid r) -> In x r -> t_event (fst x) = EvTx name lname attrs ->
  (In x (detect_tx evs r []) <->
   exists e, In e evs /\ em_ltype e = lname /\ tx_matches name attrs e = true).
Proof.
  intros evs r x name lname attrs Hnd Hx Hev.
  rewrite (detect_tx_gen r x name lname attrs Hnd Hx Hev evs []).
  split; [tauto|]. intros H. split; [intros []|exact H].
Qed.

(** every trigger is detected at most once per block *)
Lemma detect_tx_nodup : forall evs r seen,
  NoDup (map eid r) -> NoDup (map eid (detect_tx evs r seen)).
Proof.
  intros evs r seen Hnd. revert seen. induction evs as [|e rest IH]; intros seen.
  - constructor.
  - rewrite detect_tx_cons. apply D_NoDup_map_app.
    + apply D_matched_nodup. exact Hnd.
    + apply IH.
    + intros a b Ha Hb Heq. apply detect_tx_not_seen in Hb. apply Hb.
      apply in_or_app. left. rewrite <- Heq. apply in_map. exact Ha.
Qed.

(** [detect_tx] reads [seen] through membership only *)
Lemma detect_tx_ext : forall evs r s1 s2,
  (forall i, In i s1 <-> In i s2) -> detect_tx evs r s1 = detect_tx evs r s2.
Proof.
  intros evs r. induction evs as [|e rest IH]; intros s1 s2 Hs.
  - reflexivity.
  - rewrite !detect_tx_cons.
    assert (Hm : D_matched e r s1 = D_matched e r s2).
    { unfold D_matched, D_cands. f_equal. apply filter_ext. intros a. f_equal. f_equal.
      destruct (mem (eid a) s1) eqn:H1; destruct (mem (eid a) s2) eqn:H2; try reflexivity.
      - apply mem_spec in H1. apply Hs in H1. apply mem_spec in H1. congruence.
      - apply mem_spec in H2. apply Hs in H2. apply mem_spec in H2. congruence. }
    rewrite Hm. f_equal. apply IH. intros i. rewrite !in_app_iff, Hs. tauto.
Qed.

Lemma detect_tx_app : forall pre post r seen,
  detect_tx (pre ++ post) r seen =
  detect_tx pre r seen ++ detect_tx post r (map eid (detect_tx pre r seen) ++ seen).
Proof.
  intros pre post r. induction pre as [|e pre IH]; intros seen.
  - reflexivity.
  - cbn [app]. rewrite !detect_tx_cons, IH, <- app_assoc. f_equal. f_equal.
    apply detect_tx_ext. intros i. rewrite map_app, !in_app_iff. tauto.
Qed.

(** x sits in the block of the FIRST emitted event that matches it: with evs = pre ++ e :: post, no event
    of pre matching x and e matching x, the output is (output of pre) ++ (block of e) ++ (rest), x is not
    in the output of pre and is in the block of e. *)
Lemma detect_tx_first : forall r x name lname attrs,
  NoDup (map eid r) -> In x r -> t_event (fst x) = EvTx name lname attrs ->
  forall pre e post,
  (forall e', In e' pre -> ~ (em_ltype e' = lname /\ tx_matches name attrs e' = true)) ->
  em_ltype e = lname -> tx_matches name attrs e = true ->
  let S := map eid (detect_tx pre r []) in
  detect_tx (pre ++ e :: post) r [] =
    detect_tx pre r [] ++ D_matched e r S ++ detect_tx post r (map eid (D_matched e r S) ++ S) /\
  ~ In x (detect_tx pre r []) /\ In x (D_matched e r S).
Proof.
  intros r x name lname attrs Hnd Hx Hev pre e post Hpre Hl Hm S.
  assert (Hnx : ~ In x (detect_tx pre r [])).
  { intros H. apply (detect_tx_gen r x name lname attrs Hnd Hx Hev) in H.
    destruct H as [_ [e' [He' [Hl' Hm']]]]. apply (Hpre e' He'). split; assumption. }
  split; [|split; [exact Hnx|]].
  - rewrite detect_tx_app, detect_tx_cons, app_nil_r. reflexivity.
  - apply (In_D_matched_tx e r S x name lname attrs Hx Hev).
    split; [|split; [exact Hl|exact Hm]].
    unfold S. intros Hin. apply in_map_iff in Hin. destruct Hin as [c [Hc Hcin]].
    assert (Hcr : In c r) by (apply detect_tx_sound in Hcin; tauto).
    assert (Hcx : c = x) by (apply D_eid_inj with r; assumption).
    subst c. exact (Hnx Hcin).
Qed.

(** * 7. The whole detection *)
Definition D_met (h : N) (t : Z) (evs : list emitted) (ev : event) : bool :=
  match ev with
  | EvHeight v => v <=? h
  | EvTime v => (v <=? t)%Z
  | EvTx name _ attrs => existsb (tx_matches name attrs) evs
  end.

Lemma D_height_kind : forall h r x,
  In x (detect_height h r) -> In x r /\ exists v, t_event (fst x) = EvHeight v /\ v <= h.
Proof.
  intros h r x H. unfold detect_height in H. apply scan_incl in H. destruct H as [Hl Hm].
  apply In_listeners in Hl. split; [tauto|]. unfold h_match in Hm.
  destruct (t_event (fst x)) as [v| |]; try discriminate. exists v.
  split; [reflexivity|apply N.leb_le; exact Hm].
Qed.

Lemma D_time_kind : forall t r x,
  In x (detect_time t r) -> In x r /\ exists v, t_event (fst x) = EvTime v /\ (v <= t)%Z.
Proof.
  intros t r x H. unfold detect_time in H. apply scan_incl in H. destruct H as [Hl Hm].
  apply In_listeners in Hl. split; [tauto|]. unfold t_match in Hm.
  destruct (t_event (fst x)) as [|v|]; try discriminate. exists v.
  split; [reflexivity|apply Z.leb_le; exact Hm].
Qed.

Lemma detect_sound : forall h t evs r x,
  In x (detect h t evs r) -> In x r /\ D_met h t evs (t_event (fst x)) = true.
Proof.
  intros h t evs r x H. unfold detect in H.
  apply in_app_or in H. destruct H as [H|H]; [|apply in_app_or in H; destruct H as [H|H]].
  - apply detect_tx_sound in H. destruct H as [Hr [_ [e [He Hm]]]]. split; [exact Hr|].
    unfold ev_matches in Hm. destruct (t_event (fst x)) as [| |nm ln ats]; try discriminate.
    cbn [D_met]. apply existsb_exists. exists e. split; [exact He|exact Hm].
  - apply D_height_kind in H. destruct H as [Hr [v [Hev Hv]]]. split; [exact Hr|].
    rewrite Hev. cbn [D_met]. apply N.leb_le. exact Hv.
  - apply D_time_kind in H. destruct H as [Hr [v [Hev Hv]]]. split; [exact Hr|].
    rewrite Hev. cbn [D_met]. apply Z.leb_le. exact Hv.
Qed.

Lemma detect_nodup : forall h t evs r,
  NoDup (map eid r) -> NoDup (map eid (detect h t evs r)).
Proof.
  intros h t evs r Hnd. unfold detect. apply D_NoDup_map_app; [| |].
  - apply detect_tx_nodup. exact Hnd.
  - apply D_NoDup_map_app.
    + unfold detect_height. apply scan_nodup. apply listeners_nodup. exact Hnd.
    + unfold detect_time. apply scan_nodup. apply listeners_nodup. exact Hnd.
    + intros a b Ha Hb Heq. apply D_height_kind in Ha. apply D_time_kind in Hb.
      destruct Ha as [Har [v [Hav _]]]. destruct Hb as [Hbr [w [Hbw _]]].
      assert (Hab : a = b) by (apply D_eid_inj with r; assumption).
      subst b. congruence.
  - intros a b Ha Hb Heq. apply detect_tx_sound in Ha. destruct Ha as [Har [Hai _]].
    unfold is_tx in Hai.
    assert (Hb' : In b r /\ is_tx b = false).
    { apply in_app_or in Hb. destruct Hb as [Hb|Hb].
      - apply D_height_kind in Hb. destruct Hb as [Hbr [v [Hbv _]]].
        split; [exact Hbr|]. unfold is_tx. rewrite Hbv. reflexivity.
      - apply D_time_kind in Hb. destruct Hb as [Hbr [v [Hbv _]]].
        split; [exact Hbr|]. unfold is_tx. rewrite Hbv. reflexivity. }
    destruct Hb' as [Hbr Hbi].
    assert (Hab : a = b) by (apply D_eid_inj with r; assumption).
    subst b. unfold is_tx in Hbi. congruence.
Qed.

Print Assumptions detect_time_exact.
Print Assumptions detect_tx_exact.
Print Assumptions detect_height_exact.
Print Assumptions detect_nodup.
