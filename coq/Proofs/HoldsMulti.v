(** Property C02, multi-item operations: the hold of every (account, denom) changes by EXACTLY
    [reserved_delta] for the operations that need no well-formedness hypothesis. *)
From Coq Require Import ZArith List Bool Lia ZifyBool.
From PV Require Import Exchange.Holds Proofs.HoldsProofs.
Import ListNotations. Open Scope Z_scope.
Ltac Zify.zify_post_hook ::= Z.div_mod_to_equations.

(** * First-match association lists. *)
Section AListMore.
  Context {K V : Type}.
  Variable eqb : K -> K -> bool.
  Hypothesis eqb_spec : forall x y, reflect (x = y) (eqb x y).

  Lemma afind_adel_other k k' (l : list (K * V)) :
    k' <> k -> afind eqb k' (adel eqb k l) = afind eqb k' l.
  Proof.
    intros Hne. induction l as [|[k0 v0] r IH]; cbn [adel afind]; [reflexivity|].
    destruct (eqb_spec k k0) as [E|E]; cbn [afind].
    - subst k0. destruct (eqb_spec k' k) as [E'|E']; [congruence | reflexivity].
    - rewrite IH. reflexivity.
  Qed.

  Lemma afind_aset_other k k' v (l : list (K * V)) :
    k' <> k -> afind eqb k' (aset eqb k v l) = afind eqb k' l.
  Proof.
    intros Hne. rewrite (afind_aset eqb eqb_spec).
    destruct (eqb_spec k' k) as [E|E]; [congruence | reflexivity].
  Qed.
End AListMore.

(** * Sums and lists. *)
Lemma sum_by_ext {X} (f g : X -> Z) l : (forall x, In x l -> f x = g x) -> sum_by f l = sum_by g l.
Proof.
  induction l as [|x r IH]; intros H; [reflexivity|].
  rewrite !sum_by_cons, (H x (or_introl eq_refl)), IH; [reflexivity|].
  intros y Hy. apply H. right. exact Hy.
Qed.

Lemma sum_by_nil {X} (f : X -> Z) : sum_by f [] = 0.
Proof. reflexivity. Qed.

Lemma sum_by_map {X Y} (g : X -> Y) (f : Y -> Z) l : sum_by f (map g l) = sum_by (fun x => f (g x)) l.
Proof.
  induction l as [|x r IH]; cbn [map]; [reflexivity|].
  rewrite !sum_by_cons, IH. reflexivity.
Qed.

Lemma existsb_eqb_in x l : existsb (Z.eqb x) l = true <-> In x l.
Proof.
  rewrite existsb_exists. split.
  - intros (y & Hy & E). apply Z.eqb_eq in E. subst y. exact Hy.
  - intros H. exists x. split; [exact H | apply Z.eqb_refl].
Qed.

Lemma nodupb_NoDup l : nodupb l = true -> NoDup l.
Proof.
  induction l as [|x r IH]; cbn [nodupb]; intros H; [constructor|].
  apply andb_prop in H. destruct H as [H1 H2]. constructor; [|exact (IH H2)].
  intros Hin. apply existsb_eqb_in in Hin. rewrite Hin in H1. discriminate H1.
Qed.

Lemma dedupe_spec : forall l seen,
  NoDup (dedupe l seen) /\ forall x, In x (dedupe l seen) -> ~ In x seen.
Proof.
  induction l as [|x r IH]; intros seen; cbn [dedupe].
  - split; [constructor | intros y []].
  - destruct (existsb (Z.eqb x) seen) eqn:E.
    + apply IH.
    + destruct (IH (x :: seen)) as [N D]. split.
      * constructor; [|exact N]. intros Hin. apply (D x Hin). left. reflexivity.
      * intros y [<-|Hy].
        -- intros Hin. apply existsb_eqb_in in Hin. congruence.
        -- intros Hin. apply (D y Hy). right. exact Hin.
Qed.

Lemma dedupe_NoDup l : NoDup (dedupe l []).
Proof. exact (proj1 (dedupe_spec l [])). Qed.

Lemma NoDup_app_l {X} (l l' : list X) : NoDup (l ++ l') -> NoDup l.
Proof.
  induction l as [|x r IH]; cbn [app]; intros H; [constructor|].
  apply NoDup_cons_iff in H. destruct H as [Hn H]. constructor; [|exact (IH H)].
  intros Hin. apply Hn. apply in_or_app. left. exact Hin.
Qed.

Lemma NoDup_app_last {X} (l : list X) x : NoDup (l ++ [x]) -> ~ In x l.
Proof.
  intros H Hin. apply NoDup_remove_2 in H. apply H. apply in_or_app. left. exact Hin.
Qed.

Lemma fold_opt_map {X Y} (g : X -> Y) (f : Y -> state -> option state) l :
  forall s, fold_opt (fun x => f (g x)) l s = fold_opt f (map g l) s.
Proof.
  induction l as [|x r IH]; intros s; cbn [fold_opt map]; [reflexivity|].
  destruct (f (g x) s) as [s1|]; cbn [obind]; [apply IH | reflexivity].
Qed.

Lemma NoDup_map_pair (src : Z) (l : list Z) : NoDup l -> NoDup (map (fun ext : Z => (src, ext)) l).
Proof.
  induction l as [|x r IH]; cbn [map]; intros H; [constructor|].
  apply NoDup_cons_iff in H. destruct H as [Hn H]. constructor; [|exact (IH H)].
  intros Hin. apply in_map_iff in Hin. destruct Hin as (y & E & Hy).
  assert (Eq : y = x) by congruence. subst y. exact (Hn Hy).
Qed.

(** * Commitment store. *)
Lemma cget_cset_other k k' v l : k' <> k -> cget k' (cset k v l) = cget k' l.
Proof.
  intros H. unfold cget, cset. destruct (coins_is_zero v).
  - rewrite (afind_adel_other k2_eqb k2_eqb_spec) by exact H. reflexivity.
  - rewrite (afind_aset_other k2_eqb k2_eqb_spec) by exact H. reflexivity.
Qed.

(** * Cancelling a duplicate-free list of orders. *)
Lemma cancel_order_recs id s s' :
  cancel_order id s = Some s' ->
  orders s' = adel Z.eqb id (orders s) /\ commits s' = commits s /\ pays s' = pays s.
Proof.
  unfold cancel_order.
  destruct (afind Z.eqb id (orders s)) as [o|]; cbn [obind]; [|discriminate].
  destruct (release_hold s (o_owner o) (order_hold o)) as [s1|] eqn:Er; cbn [obind]; [|discriminate].
  intros H. injection H as <-. apply release_hold_spec in Er.
  destruct Er as ((Ho & _ & Hc & Hp) & _).
  cbn [orders commits pays set_orders]. rewrite Ho. auto.
Qed.

Lemma cancel_list_delta : forall ids s s',
  NoDup ids -> fold_opt cancel_order ids s = Some s' ->
  (forall a d, hold_of s' a d = hold_of s a d - sum_by (fun id => order_req_of s id a d) ids) /\
  (forall id', ~ In id' ids -> afind Z.eqb id' (orders s') = afind Z.eqb id' (orders s)) /\
  commits s' = commits s /\ pays s' = pays s.
Proof.
  induction ids as [|id r IH]; intros s s' Hnd H; cbn [fold_opt] in H.
  - injection H as <-. repeat split. intros a d. rewrite sum_by_nil. lia.
  - destruct (cancel_order id s) as [s1|] eqn:E; cbn [obind] in H; [|discriminate].
    apply NoDup_cons_iff in Hnd. destruct Hnd as [Hnin Hnd].
    destruct (IH s1 s' Hnd H) as (Hh & Ho & Hc & Hp).
    destruct (cancel_order_recs _ _ _ E) as (Ro & Rc & Rp).
    destruct (cancel_order_eff _ _ _ E) as (Eh & _).
    assert (Hother : forall id', id' <> id ->
                                 afind Z.eqb id' (orders s1) = afind Z.eqb id' (orders s)).
    { intros id' Hne. rewrite Ro. apply (afind_adel_other Z.eqb Z.eqb_spec). exact Hne. }
    split; [|split; [|split]].
    + intros a d. rewrite Hh, Eh, sum_by_cons.
      rewrite (sum_by_ext (fun id0 => order_req_of s1 id0 a d) (fun id0 => order_req_of s id0 a d)).
      * lia.
      * intros x Hx. unfold order_req_of. rewrite Hother; [reflexivity|].
        intros ->. exact (Hnin Hx).
    + intros id' Hnin'. rewrite Ho by (intros Hin; apply Hnin'; right; exact Hin).
      apply Hother. intros ->. apply Hnin'. left. reflexivity.
    + congruence.
    + congruence.
Qed.

Lemma settle_delta req fulls part xfers s s' a d :
  settle req fulls part xfers s = Some s' ->
  hold_of s' a d - hold_of s a d = reserved_delta s (OSettle true req fulls part xfers) a d.
Proof.
  unfold settle, fill_full. destruct (negb (nodupb req)); [discriminate|].
  cbn [reserved_delta].
  destruct part as [p|].
  - destruct (nodupb (fulls ++ [fst p])) eqn:End; cbn [negb]; [|discriminate].
    apply nodupb_NoDup in End.
    destruct (fold_opt cancel_order fulls s) as [s1|] eqn:E1; cbn [obind]; [|discriminate].
    destruct (cancel_list_delta fulls s s1 (NoDup_app_l _ _ End) E1) as (Hh & Ho & _ & _).
    destruct (fill_partial (fst p) (snd p) s1) as [s2|] eqn:E2; cbn [obind]; [|discriminate].
    intros E3. apply apply_net_spec in E3. destruct E3 as (_ & Hhs & _).
    apply fill_partial_eff in E2. destruct E2 as (o & fl & Ef & Esp & (Eh & _)).
    rewrite Ho in Ef by exact (NoDup_app_last _ _ End).
    rewrite Ef, Esp. unfold hold_of at 1. rewrite Hhs. fold (hold_of s2 a d).
    rewrite Eh, Hh. lia.
  - destruct (nodupb (fulls ++ [])) eqn:End; cbn [negb]; [|discriminate].
    apply nodupb_NoDup in End.
    destruct (fold_opt cancel_order fulls s) as [s1|] eqn:E1; cbn [obind]; [|discriminate].
    destruct (cancel_list_delta fulls s s1 (NoDup_app_l _ _ End) E1) as (Hh & _).
    intros E3. apply apply_net_spec in E3. destruct E3 as (_ & Hhs & _).
    unfold hold_of at 1. rewrite Hhs. fold (hold_of s1 a d). rewrite Hh. lia.
Qed.

(** * Release lists. *)
Lemma release_commitment_spec m e s s' :
  release_commitment m e s = Some s' ->
  exists nr, release_split (cget (m, fst e) (commits s)) (snd e) = Some nr /\
             commits s' = cset (m, fst e) (fst nr) (commits s) /\
             forall a d, hold_of s' a d =
                         hold_of s a d - (if fst e =? a then amt_of (snd nr) d else 0).
Proof.
  unfold release_commitment. cbv zeta.
  destruct (release_split (cget (m, fst e) (commits s)) (snd e)) as [nr|] eqn:Esp;
    cbn [obind]; [|discriminate].
  destruct (release_hold s (fst e) (snd nr)) as [s1|] eqn:Er; cbn [obind]; [|discriminate].
  intros H. injection H as <-. exists nr. split; [reflexivity|].
  apply release_hold_spec in Er. destruct Er as ((_ & _ & Hc & _) & _ & Hh & _).
  split.
  - cbn [commits set_commits]. rewrite Hc. reflexivity.
  - intros a d. unfold hold_of at 1. cbn [holds set_commits]. fold (hold_of s1 a d).
    rewrite Hh. rewrite (Z.eqb_sym a). destruct (fst e =? a); lia.
Qed.

Lemma release_list_delta m : forall es s s' a d,
  release_commitments m es s = Some s' ->
  hold_of s' a d - hold_of s a d = - release_delta m (commits s) es a d.
Proof.
  unfold release_commitments.
  induction es as [|e r IH]; intros s s' a d H; cbn [fold_opt] in H.
  - injection H as <-. cbn [release_delta]. lia.
  - destruct (release_commitment m e s) as [s1|] eqn:E; cbn [obind] in H; [|discriminate].
    apply release_commitment_spec in E. destruct E as (nr & Esp & Hc & Hh).
    cbn [release_delta]. rewrite Esp.
    specialize (IH s1 s' a d H). rewrite Hc in IH. specialize (Hh a d). lia.
Qed.

Lemma release_split_released cur amount nr :
  release_split cur amount = Some nr ->
  snd nr = if coins_is_zero amount then cur else amount.
Proof.
  unfold release_split. destruct (negb (coins_nonneg amount)); [discriminate|].
  destruct (coins_is_zero cur); [discriminate|].
  destruct (coins_is_zero amount); cbn [negb].
  - intros H. injection H as <-. reflexivity.
  - destruct (coins_geb cur amount); [|discriminate]. intros H. injection H as <-. reflexivity.
Qed.

Lemma release_delta_distinct m a d : forall es cs,
  NoDup (map fst es) ->
  (forall e, In e es -> release_split (cget (m, fst e) cs) (snd e) <> None) ->
  release_delta m cs es a d =
  sum_by (fun e => if fst e =? a
                   then (if coins_is_zero (snd e) then amt_of (cget (m, fst e) cs) d else amt_of (snd e) d)
                   else 0) es.
Proof.
  induction es as [|e r IH]; intros cs Hnd Hok; [reflexivity|].
  cbn [release_delta]. rewrite sum_by_cons.
  cbn [map] in Hnd. apply NoDup_cons_iff in Hnd. destruct Hnd as [Hnin Hnd].
  destruct (release_split (cget (m, fst e) cs) (snd e)) as [nr|] eqn:Esp.
  2: { exfalso. apply (Hok e (or_introl eq_refl)). exact Esp. }
  rewrite (release_split_released _ _ _ Esp).
  assert (Hcg : forall e', In e' r ->
                           cget (m, fst e') (cset (m, fst e) (fst nr) cs) = cget (m, fst e') cs).
  { intros e' He'. apply cget_cset_other. intros Heq.
    assert (Hf : fst e' = fst e) by congruence.
    apply Hnin. rewrite <- Hf. apply in_map. exact He'. }
  rewrite IH.
  - f_equal.
    + destruct (fst e =? a); [|reflexivity]. destruct (coins_is_zero (snd e)); reflexivity.
    + apply sum_by_ext. intros e' He'. rewrite (Hcg e' He'). reflexivity.
  - exact Hnd.
  - intros e' He'. rewrite (Hcg e' He'). apply Hok. right. exact He'.
Qed.

(** * Account-amount lists. *)
Lemma entries_amt_nil a d : entries_amt [] a d = 0.
Proof. reflexivity. Qed.

Lemma entries_amt_cons e es a d :
  entries_amt (e :: es) a d = (if fst e =? a then amt_of (snd e) d else 0) + entries_amt es a d.
Proof. reflexivity. Qed.

Lemma entries_amt_app x y a d : entries_amt (x ++ y) a d = entries_amt x a d + entries_amt y a d.
Proof. unfold entries_amt. apply sum_by_app. Qed.

Lemma entries_amt_simplify_add a' cs acc a d :
  entries_amt (simplify_add a' cs acc) a d =
  entries_amt acc a d + (if a' =? a then amt_of cs d else 0).
Proof.
  induction acc as [|e r IH]; cbn [simplify_add].
  - rewrite entries_amt_cons, entries_amt_nil. cbn [fst snd]. rewrite amt_of_add. cbn [amt_of].
    destruct (a' =? a); lia.
  - destruct (Z.eqb_spec (fst e) a') as [E|E].
    + rewrite !entries_amt_cons. cbn [fst snd]. rewrite amt_of_add. subst a'.
      destruct (fst e =? a); lia.
    + rewrite !entries_amt_cons, IH. lia.
Qed.

Lemma entries_amt_fold es : forall acc a d,
  entries_amt (fold_left (fun acc e => simplify_add (fst e) (snd e) acc) es acc) a d =
  entries_amt acc a d + entries_amt es a d.
Proof.
  induction es as [|e r IH]; intros acc a d; cbn [fold_left].
  - rewrite entries_amt_nil. lia.
  - rewrite IH, entries_amt_simplify_add, entries_amt_cons. lia.
Qed.

Lemma entries_amt_simplify es a d : entries_amt (simplify es) a d = entries_amt es a d.
Proof. unfold simplify. rewrite entries_amt_fold, entries_amt_nil. lia. Qed.

(** "A non-zero amount of non-negative coins", by meaning. *)
Definition posc (cs : coins) : Prop := (forall d, 0 <= amt_of cs d) /\ exists d, 0 < amt_of cs d.
Definition all_posc (es : list (Z * coins)) : Prop := forall e, In e es -> posc (snd e).

Lemma posc_nonzero cs : posc cs -> coins_is_zero cs = false.
Proof.
  intros (_ & d & Hd). destruct (coins_is_zero cs) eqn:E; [|reflexivity].
  rewrite (amt_of_zero cs d E) in Hd. lia.
Qed.

Lemma posc_add a b : (forall d, 0 <= amt_of a d) -> posc b -> posc (coins_add a b).
Proof.
  intros Ha (Hb & d & Hd). split.
  - intros d'. rewrite amt_of_add. specialize (Ha d'). specialize (Hb d'). lia.
  - exists d. rewrite amt_of_add. specialize (Ha d). lia.
Qed.

Lemma coins_pos_nonneg cs d : coins_pos cs = true -> 0 <= amt_of cs d.
Proof.
  unfold coins_pos. induction cs as [|c r IH]; cbn [forallb amt_of]; intros H; [lia|].
  apply andb_prop in H. destruct H as [H1 H2]. specialize (IH H2).
  destruct (fst c =? d); lia.
Qed.

Lemma valid_posc cs : cs <> [] -> coins_pos cs = true -> posc cs.
Proof.
  intros Hne Hp. split; [intros d; apply coins_pos_nonneg; exact Hp|].
  destruct cs as [|c r]; [congruence|]. exists (fst c).
  unfold coins_pos in Hp. cbn [forallb] in Hp. apply andb_prop in Hp. destruct Hp as [H1 H2].
  cbn [amt_of]. rewrite Z.eqb_refl.
  pose proof (coins_pos_nonneg r (fst c) H2) as Hr. lia.
Qed.

Lemma valid_all_posc es : entries_valid es = true -> all_posc es.
Proof.
  unfold entries_valid. intros H e He. rewrite forallb_forall in H. specialize (H e He). cbn beta in H.
  change (@snd Z (list coin) e) with (@snd Z coins e) in H.
  destruct (snd e) as [|c r] eqn:Es; rewrite ?Es in H; [discriminate H|].
  apply valid_posc; [discriminate | exact H].
Qed.

Lemma all_posc_app x y : all_posc x -> all_posc y -> all_posc (x ++ y).
Proof. intros Hx Hy e He. apply in_app_or in He. destruct He; auto. Qed.

Lemma simplify_add_posc a cs acc : posc cs -> all_posc acc -> all_posc (simplify_add a cs acc).
Proof.
  intros Hcs. induction acc as [|e r IH]; intros Hacc; cbn [simplify_add].
  - intros e' [<-|[]]. cbn [snd]. apply posc_add; [intros d; cbn [amt_of]; lia | exact Hcs].
  - destruct (fst e =? a).
    + intros e' [<-|He'].
      * cbn [snd]. apply posc_add; [|exact Hcs].
        exact (proj1 (Hacc e (or_introl eq_refl))).
      * apply Hacc. right. exact He'.
    + intros e' [<-|He'].
      * apply Hacc. left. reflexivity.
      * apply IH; [|exact He']. intros e'' He''. apply Hacc. right. exact He''.
Qed.

Lemma simplify_fold_posc es : forall acc,
  all_posc acc -> all_posc es ->
  all_posc (fold_left (fun acc e => simplify_add (fst e) (snd e) acc) es acc).
Proof.
  induction es as [|e r IH]; intros acc Hacc Hes; cbn [fold_left]; [exact Hacc|].
  apply IH.
  - apply simplify_add_posc; [|exact Hacc]. apply Hes. left. reflexivity.
  - intros e' He'. apply Hes. right. exact He'.
Qed.

Lemma simplify_posc es : all_posc es -> all_posc (simplify es).
Proof. intros H. unfold simplify. apply simplify_fold_posc; [intros e [] | exact H]. Qed.

Lemma release_list_nonzero m : forall es s s' a d,
  (forall e, In e es -> coins_is_zero (snd e) = false) ->
  release_commitments m es s = Some s' ->
  hold_of s' a d = hold_of s a d - entries_amt es a d.
Proof.
  unfold release_commitments.
  induction es as [|e r IH]; intros s s' a d Hz H; cbn [fold_opt] in H.
  - injection H as <-. rewrite entries_amt_nil. lia.
  - destruct (release_commitment m e s) as [s1|] eqn:E; cbn [obind] in H; [|discriminate].
    apply release_commitment_spec in E. destruct E as (nr & Esp & _ & Hh).
    apply release_split_released in Esp. rewrite (Hz e (or_introl eq_refl)) in Esp.
    rewrite (IH s1 s' a d) by (try exact H; intros e' He'; apply Hz; right; exact He').
    rewrite Hh, Esp, entries_amt_cons. lia.
Qed.

Lemma add_commitments_delta m : forall es s s' a d,
  fold_opt (fun e => add_commitment m (fst e) (snd e)) es s = Some s' ->
  hold_of s' a d = hold_of s a d + entries_amt es a d.
Proof.
  induction es as [|e r IH]; intros s s' a d H; cbn [fold_opt] in H.
  - injection H as <-. rewrite entries_amt_nil. lia.
  - destruct (add_commitment m (fst e) (snd e) s) as [s1|] eqn:E; cbn [obind] in H; [|discriminate].
    apply add_commitment_eff in E. destruct E as (Hh & _).
    rewrite (IH s1 s' a d H), Hh, entries_amt_cons. lia.
Qed.

Lemma settle_commitments_delta m i o f s s' a d :
  settle_commitments m i o f s = Some s' ->
  hold_of s' a d - hold_of s a d = entries_amt o a d - entries_amt i a d - entries_amt f a d.
Proof.
  unfold settle_commitments. cbv zeta.
  destruct (entries_valid i && entries_valid o && entries_valid f) eqn:Ev; cbn [negb]; [|discriminate].
  destruct (negb (coins_eqb _ _)); [discriminate|].
  destruct (release_commitments m _ s) as [s1|] eqn:E1; cbn [obind]; [|discriminate].
  destruct (apply_net s1 _) as [s2|] eqn:E2; cbn [obind]; [|discriminate].
  intros E3.
  apply andb_prop in Ev. destruct Ev as [Ev Evf]. apply andb_prop in Ev. destruct Ev as [Evi Evo].
  apply release_list_nonzero with (a := a) (d := d) in E1.
  2: { intros e He. apply posc_nonzero. revert e He. apply simplify_posc.
       apply all_posc_app; apply simplify_posc; apply valid_all_posc; assumption. }
  apply apply_net_spec in E2. destruct E2 as (_ & Hh2 & _).
  apply add_commitments_delta with (a := a) (d := d) in E3.
  rewrite E3. unfold hold_of at 1. rewrite Hh2. fold (hold_of s1 a d). rewrite E1.
  rewrite !entries_amt_simplify, entries_amt_app, !entries_amt_simplify. lia.
Qed.

(** * Deleting a duplicate-free list of payment keys. *)
Lemma delete_release_recs k s s' :
  delete_release k s = Some s' ->
  pays s' = adel k2_eqb k (pays s) /\ orders s' = orders s /\ commits s' = commits s.
Proof.
  unfold delete_release.
  destruct (afind k2_eqb k (pays s)) as [p|]; cbn [obind]; [|discriminate].
  destruct (release_hold s (fst k) (p_samt p)) as [s1|] eqn:Er; cbn [obind]; [|discriminate].
  intros H. injection H as <-. apply release_hold_spec in Er.
  destruct Er as ((Ho & _ & Hc & Hp) & _).
  cbn [orders commits pays set_pays]. rewrite Hp. auto.
Qed.

Lemma del_keys_delta : forall ks s s',
  NoDup ks -> fold_opt delete_release ks s = Some s' ->
  (forall a d, hold_of s' a d = hold_of s a d - sum_by (fun k => pay_req_of s k a d) ks) /\
  pays s' = fold_left (fun l k => adel k2_eqb k l) ks (pays s) /\
  orders s' = orders s /\ commits s' = commits s.
Proof.
  induction ks as [|k r IH]; intros s s' Hnd H; cbn [fold_opt] in H.
  - injection H as <-. repeat split. intros a d. rewrite sum_by_nil. lia.
  - destruct (delete_release k s) as [s1|] eqn:E; cbn [obind] in H; [|discriminate].
    apply NoDup_cons_iff in Hnd. destruct Hnd as [Hnin Hnd].
    destruct (IH s1 s' Hnd H) as (Hh & Hp & Ho & Hc).
    destruct (delete_release_recs _ _ _ E) as (Rp & Ro & Rc).
    destruct (delete_release_eff _ _ _ E) as (Eh & _).
    split; [|split; [|split]].
    + intros a d. rewrite Hh, Eh, sum_by_cons.
      rewrite (sum_by_ext (fun k0 => pay_req_of s1 k0 a d) (fun k0 => pay_req_of s k0 a d)).
      * lia.
      * intros x Hx. unfold pay_req_of. rewrite Rp.
        rewrite (afind_adel_other k2_eqb k2_eqb_spec); [reflexivity|].
        intros ->. exact (Hnin Hx).
    + cbn [fold_left]. rewrite Hp, Rp. reflexivity.
    + congruence.
    + congruence.
Qed.

Lemma pay_cancel_delta src exts s s' a d :
  pay_cancel src exts s = Some s' ->
  hold_of s' a d - hold_of s a d = - sum_by (fun ext => pay_req_of s (src, ext) a d) (dedupe exts []).
Proof.
  unfold pay_cancel. destruct exts as [|x r]; [discriminate|].
  intros H.
  pose proof (fold_opt_map (fun ext : Z => (src, ext)) delete_release (dedupe (x :: r) []) s) as Hm.
  cbn beta in Hm. rewrite Hm in H. clear Hm.
  apply del_keys_delta in H; [|apply NoDup_map_pair, dedupe_NoDup].
  destruct H as (Hh & _). rewrite Hh, sum_by_map. lia.
Qed.

(** * Every operation that needs no well-formedness hypothesis. *)
Theorem delta_exact_nowf s o s' a d :
  needs_wf o = false -> step s o = (s', ROk) ->
  hold_of s' a d - hold_of s a d = reserved_delta s o a d.
Proof.
  intros Hwf Hst. unfold step in Hst.
  destruct (op_adm o); [|congruence].
  destruct (op_fun o s) as [s1|] eqn:E; [|congruence].
  assert (Es : s1 = s') by congruence. subst s1. clear Hst.
  destruct o; cbn [op_fun] in E; cbn [reserved_delta]; cbn [needs_wf] in Hwf; try discriminate Hwf.
  - (* OCreate *)
    apply create_order_spec in E. destruct E as (Hh & _). rewrite Hh. lia.
  - (* OCancel *)
    apply cancel_order_by_eff in E. destruct E as (Hh & _). rewrite Hh. lia.
  - (* OSettle *)
    exact (settle_delta _ _ _ _ _ _ a d E).
  - (* OCommit *)
    apply commit_funds_eff in E. destruct E as (Hh & _). rewrite Hh. lia.
  - (* ORelease *)
    destruct entries as [|e r]; [discriminate|]. apply release_list_delta. exact E.
  - (* OCommitSettle *)
    exact (settle_commitments_delta _ _ _ _ _ _ a d E).
  - (* OPayCreate *)
    apply pay_create_eff in E. destruct E as (Hh & _). rewrite Hh. lia.
  - (* OPayAccept *)
    apply pay_accept_eff in E. destruct E as (Hh & _). rewrite Hh. lia.
  - (* OPayReject *)
    apply pay_reject_eff in E. destruct E as (Hh & _). rewrite Hh. lia.
  - (* OPayCancel *)
    exact (pay_cancel_delta _ _ _ _ a d E).
  - (* OPayRetarget *)
    apply pay_retarget_eff in E. destruct E as (Hh & _). rewrite Hh. lia.
  - (* OManageFees *)
    injection E as <-. lia.
  - (* OSetExtId *)
    apply set_ext_id_same in E. subst s'. lia.
  - (* OWithdraw *)
    unfold withdraw in E. apply credit_spec in E. destruct E as (_ & Hh & _).
    unfold hold_of. rewrite Hh. lia.
  - (* ODelegate *)
    apply delegate_spec in E. destruct E as (_ & Hh & _).
    unfold hold_of. rewrite Hh. lia.
  - (* OTime *)
    apply set_time_spec in E. destruct E as (_ & Hh & _).
    unfold hold_of. rewrite Hh. lia.
Qed.
