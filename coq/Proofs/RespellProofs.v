(** C13 (payments, address spellings): a payment whose Target is stored in the upper-case bech32
    spelling and is then given the SAME account as "new" target stays listed under that account;
    and why the order of the two index writes of setPaymentInStore matters. *)
From Coq Require Import ZArith NArith List Bool Lia.
From PV Require Import Exchange.KV Exchange.Index Proofs.KVProofs Proofs.PaymentProofs.
Import ListNotations.
Open Scope N_scope.

(** the record written by setPaymentInStore is the one read back *)
Lemma sps_get : forall s p, Inv s ->
  get (set_payment_in_store s p) (kp (p_source p) (p_ext p)) = Some (VPay p).
Proof.
  intros s p HI. destruct (sps_shape s p HI) as [old [new [E [HN HO]]]]. rewrite E.
  assert (N16 : forall k, new = Some k -> exists y, k = 16 :: y).
  { intros k Hk. destruct HN as [[HN _]|[HN _]]; rewrite HN in Hk; [|discriminate].
    injection Hk as <-. unfold kt. eexists; reflexivity. }
  assert (O16 : forall k, old = Some k -> exists y, k = 16 :: y).
  { intros k Hk. destruct HO as [[ex [HO _]]|[HO _]]; rewrite HO in Hk; [|discriminate].
    injection Hk as <-. unfold kt. eexists; reflexivity. }
  unfold kp at 2. unfold kp at 1. rewrite upd_112 by assumption.
  rewrite key_eqb_refl. reflexivity.
Qed.

Definition relower (p : payment) : payment :=
  {| p_source := p_source p; p_src_up := p_src_up p; p_ext := p_ext p;
     p_target := p_target p; p_tgt_up := false; p_amount := p_amount p |}.

(** After ANY history: if a payment's target is stored in the upper-case spelling, a
    (well-formed) MsgChangePaymentTarget naming the same account is accepted -- the stored string
    differs from the canonical one -- the record now carries the lower-case string, the payment is
    still fetched by (source, external id) and is still listed under the bytes of its target. *)
Lemma respelled_target_stays_listed : forall ops src e p,
  let s := run ops in
  get_payment s src e = Some p ->
  p_target p <> [] -> p_tgt_up p = true ->
  addr_ok src = true -> ext_ok e = true -> addr_ok (p_target p) = true ->
  exists s',
    retarget_payment s src e (p_target p) = Some s' /\
    s' = run (ops ++ [OPayRetarget src e (p_target p)]) /\
    get_payment s' src e = Some (relower p) /\
    In (relower p) (payments_of_target s' (p_target p)) /\
    (forall q, In q (payments_of_target s' (p_target p)) ->
               get_payment s' (p_source q) (p_ext q) = Some q /\ p_target q = p_target p).
Proof.
  intros ops src e p s G Tne Tup Hsrc Hext Htgt.
  pose proof (inv_run ops : Inv s) as HI.
  destruct (get_payment_stored _ _ _ _ HI G) as [Hst [Hs [He Hne]]].
  assert (R : retarget_payment s src e (p_target p) = Some (set_payment_in_store s (relower p))).
  { unfold retarget_payment. rewrite Hsrc, Hext, Htgt. rewrite orb_true_r. cbn [andb negb].
    rewrite G. unfold tgt_str_eqb. rewrite Tup.
    assert (L : Nat.eqb (length (p_target p)) 0 = false).
    { destruct (p_target p); [congruence|reflexivity]. }
    rewrite L. cbn [Bool.eqb orb]. rewrite andb_false_r. reflexivity. }
  exists (set_payment_in_store s (relower p)).
  assert (Erun : set_payment_in_store s (relower p) = run (ops ++ [OPayRetarget src e (p_target p)])).
  { unfold run, run_from. rewrite fold_left_app. cbn [fold_left step].
    change (fold_left (fun s' o => fst (step s' o)) ops init) with s. rewrite R. reflexivity. }
  split; [exact R|]. split; [exact Erun|].
  assert (HI' : Inv (set_payment_in_store s (relower p))).
  { rewrite Erun. apply inv_run. }
  assert (G' : get_payment (set_payment_in_store s (relower p)) src e = Some (relower p)).
  { apply get_payment_iff. rewrite <- Hs, <- He.
    change (p_source p) with (p_source (relower p)). change (p_ext p) with (p_ext (relower p)).
    apply sps_get. exact HI. }
  split; [exact G'|].
  destruct (tgt_ok _ (p_target p) HI') as [_ Hiff]. split.
  - apply Hiff. cbn [relower p_source p_ext p_target]. rewrite Hs, He.
    split; [exact G'|]. split; [reflexivity|exact Tne].
  - intros q Hq. apply Hiff in Hq. destruct Hq as [A [B _]]. split; assumption.
Qed.

(** ---- the order of the index writes ---- *)

(** setPaymentInStore with the two index writes swapped (new entry written first, old entry
    deleted afterwards) -- NOT the code of /repo; kept to show what the order protects. *)
Definition set_payment_in_store_reordered (s : st) (p : payment) : st :=
  let pkey := k_pay (p_source p) (p_ext p) in
  let ikey := match p_target p with
              | [] => None
              | t => Some (k_tgt t (p_source p) (p_ext p))
              end in
  let '(ikey, old_ikey) :=
    match get_payment s (p_source p) (p_ext p) with
    | Some ex =>
        match p_target ex with
        | [] => (ikey, None)
        | t => if tgt_str_eqb t (p_tgt_up ex) (p_target p) (p_tgt_up p) then (None, None)
               else (ikey, Some (k_tgt t (p_source p) (p_ext p)))
        end
    | None => (ikey, None)
    end in
  let s1 := set s pkey (VPay p) in
  let s2 := match ikey with Some k => set s1 k (VBytes []) | None => s1 end in
  match old_ikey with Some k => del s2 k | None => s2 end.

Definition respell_src : bytes := [7; 7].
Definition respell_tgt : bytes := [9; 9; 9].
Definition respell_pay : payment :=
  {| p_source := respell_src; p_src_up := false; p_ext := [120]; p_target := respell_tgt;
     p_tgt_up := true; p_amount := 3%Z |}.

(** With the swapped writes the re-spelled payment still exists and still names its target, but
    the target listing no longer shows it (the entry just written is deleted again). *)
Lemma reordered_index_write_refuted :
  let s := run [OPayCreate respell_pay] in
  let s' := set_payment_in_store_reordered s (relower respell_pay) in
  get_payment s' respell_src [120] = Some (relower respell_pay) /\
  p_target (relower respell_pay) = respell_tgt /\
  payments_of_target s' respell_tgt = [] /\
  (* the code of /repo on the same input keeps it listed *)
  payments_of_target (set_payment_in_store s (relower respell_pay)) respell_tgt = [relower respell_pay].
Proof. vm_compute. repeat split; reflexivity. Qed.

(** RejectPayment compares the stored Target STRING with the canonical spelling of the rejecting
    account: a payment whose target is stored in upper case cannot be rejected one by one (the
    target can still reject it through RejectPayments, which goes through the index). *)
Lemma upper_case_target_cannot_reject_single :
  let s := run [OPayCreate respell_pay] in
  take_payment s respell_tgt respell_src [120] = None /\
  exists s', reject_payments s respell_tgt [(respell_src, false)] = Some s' /\
             get_payment s' respell_src [120] = None.
Proof. vm_compute. split; [reflexivity|]. eexists. split; reflexivity. Qed.

Print Assumptions respelled_target_stays_listed.
Print Assumptions reordered_index_write_refuted.
Print Assumptions upper_case_target_cannot_reject_single.
