(** What the model's own (hold-relevant) admission checks of [PV.Exchange.Holds] mean (property C02):
    an operation is admitted exactly when, per denom, the MERGED amount is covered by the spendable
    balance / the hold (processing a coin list with a repeated denom entry by entry is the same as
    merging the denom first). *)
From Coq Require Import ZArith List Bool Lia ZifyBool.
From PV Require Import Exchange.Holds Proofs.HoldsProofs.
Import ListNotations. Open Scope Z_scope.
Ltac Zify.zify_post_hook ::= Z.div_mod_to_equations.

(** * Coins. *)
Lemma amt_of_nonneg cs d : coins_nonneg cs = true -> 0 <= amt_of cs d.
Proof.
  unfold coins_nonneg. induction cs as [|c r IH]; cbn [forallb amt_of]; intros H; [lia|].
  apply andb_prop in H. destruct H as [H1 H2]. specialize (IH H2).
  destruct (fst c =? d); lia.
Qed.

Lemma coins_nonneg_cons c r :
  coins_nonneg (c :: r) = true -> 0 <= snd c /\ coins_nonneg r = true.
Proof.
  unfold coins_nonneg. cbn [forallb]. intros H. apply andb_prop in H. destruct H as [H1 H2].
  split; [lia | exact H2].
Qed.

Lemma coins_pos_nonneg cs : coins_pos cs = true -> coins_nonneg cs = true.
Proof.
  unfold coins_pos, coins_nonneg. induction cs as [|c r IH]; cbn [forallb]; intros H; [reflexivity|].
  apply andb_prop in H. destruct H as [H1 H2]. rewrite (IH H2).
  apply andb_true_intro. split; [lia | reflexivity].
Qed.

Lemma coins_zero_nonneg cs : coins_is_zero cs = true -> coins_nonneg cs = true.
Proof.
  unfold coins_is_zero, coins_nonneg. induction cs as [|c r IH]; cbn [forallb]; intros H; [reflexivity|].
  apply andb_prop in H. destruct H as [H1 H2]. rewrite (IH H2).
  apply andb_true_intro. split; [lia | reflexivity].
Qed.

Lemma forallb_filter {X} (f g : X -> bool) l : forallb f l = true -> forallb f (filter g l) = true.
Proof.
  induction l as [|x r IH]; cbn [forallb filter]; intros H; [reflexivity|].
  apply andb_prop in H. destruct H as [H1 H2].
  destruct (g x); cbn [forallb]; [rewrite H1, (IH H2); reflexivity | exact (IH H2)].
Qed.

(** * Spendable after an update of the hold store / the balances. *)
Lemma spendable_hold_add s a d0 v a' d :
  spendable (set_holds s (aset k2_eqb (a, d0) (hold_of s a d0 + v) (holds s))) a' d =
  spendable s a' d - (if (a' =? a) && (d =? d0) then v else 0).
Proof.
  unfold spendable. rewrite hold_of_aset.
  unfold bal_of, vlock_of. cbn [bals vest set_holds].
  zeqb; cbn [andb]; lia.
Qed.

Lemma spendable_bal_sub s a d0 v a' d :
  spendable (set_bals s (aset k2_eqb (a, d0) (bal_of s a d0 - v) (bals s))) a' d =
  spendable s a' d - (if (a' =? a) && (d =? d0) then v else 0).
Proof.
  unfold spendable. rewrite bal_of_aset.
  unfold hold_of, vlock_of. cbn [holds vest set_bals].
  zeqb; cbn [andb]; lia.
Qed.

(** * AddHold. *)
Lemma add_hold_iff : forall cs s a, coins_nonneg cs = true ->
  ((exists s', add_hold s a cs = Some s') <-> forall d, 0 < amt_of cs d -> amt_of cs d <= spendable s a d).
Proof.
  induction cs as [|[d0 v] r IH]; intros s a Hnn.
  - cbn [add_hold amt_of]. split; [intros _ d Hd; lia | intros _; eexists; reflexivity].
  - apply coins_nonneg_cons in Hnn. cbn [snd] in Hnn. destruct Hnn as [Hv Hr].
    pose proof (fun d => amt_of_nonneg r d Hr) as Hpos.
    cbn [add_hold fst snd amt_of].
    destruct (Z.eqb_spec v 0) as [Ev|Ev].
    + rewrite (IH s a Hr). subst v.
      split; intros H d; specialize (H d); destruct (d0 =? d); lia.
    + destruct (v <? 0) eqn:Evn; [exfalso; lia|].
      destruct (spendable s a d0 <? v) eqn:Esp.
      * split; [intros [s' H]; discriminate|].
        intros H. specialize (H d0). specialize (Hpos d0). rewrite Z.eqb_refl in H. exfalso. lia.
      * rewrite (IH _ a Hr).
        split; intros H d; specialize (H d); specialize (Hpos d);
          rewrite spendable_hold_add, Z.eqb_refl, (Z.eqb_sym d d0) in *; cbn [andb] in *;
          destruct (Z.eqb_spec d0 d) as [E|E]; try subst d; lia.
Qed.

Lemma add_hold_negative cs s a : coins_nonneg cs = false -> add_hold s a cs = None.
Proof.
  revert s. unfold coins_nonneg.
  induction cs as [|[d0 v] r IH]; intros s H; cbn [forallb snd] in H; [discriminate|].
  cbn [add_hold fst snd].
  destruct (Z.eqb_spec v 0) as [Ev|Ev].
  - apply IH. subst v. cbn [Z.leb Z.compare andb] in H. exact H.
  - destruct (v <? 0) eqn:Evn; [reflexivity|].
    destruct (spendable s a d0 <? v); [reflexivity|].
    apply IH. apply andb_false_iff in H. destruct H as [H|H]; [exfalso; lia | exact H].
Qed.

(** * ReleaseHold. *)
Lemma release_hold_iff : forall cs s a, coins_nonneg cs = true ->
  ((exists s', release_hold s a cs = Some s') <-> forall d, 0 < amt_of cs d -> amt_of cs d <= hold_of s a d).
Proof.
  induction cs as [|[d0 v] r IH]; intros s a Hnn.
  - cbn [release_hold amt_of]. split; [intros _ d Hd; lia | intros _; eexists; reflexivity].
  - apply coins_nonneg_cons in Hnn. cbn [snd] in Hnn. destruct Hnn as [Hv Hr].
    pose proof (fun d => amt_of_nonneg r d Hr) as Hpos.
    cbn [release_hold fst snd amt_of].
    destruct (Z.eqb_spec v 0) as [Ev|Ev].
    + rewrite (IH s a Hr). subst v.
      split; intros H d; specialize (H d); destruct (d0 =? d); lia.
    + destruct (v <? 0) eqn:Evn; [exfalso; lia|].
      destruct (hold_of s a d0 - v <? 0) eqn:Esp.
      * split; [intros [s' H]; discriminate|].
        intros H. specialize (H d0). specialize (Hpos d0). rewrite Z.eqb_refl in H. exfalso. lia.
      * rewrite (IH _ a Hr).
        split; intros H d; specialize (H d); specialize (Hpos d);
          rewrite hold_of_aset, Z.eqb_refl, (Z.eqb_sym d d0) in *; cbn [andb] in *;
          destruct (Z.eqb_spec d0 d) as [E|E]; try subst d; lia.
Qed.

(** * subUnlockedCoins. *)
Lemma spend_iff : forall cs s a, coins_nonneg cs = true ->
  ((exists s', spend s a cs = Some s') <-> forall d, 0 < amt_of cs d -> amt_of cs d <= spendable s a d).
Proof.
  induction cs as [|[d0 v] r IH]; intros s a Hnn.
  - cbn [spend amt_of]. split; [intros _ d Hd; lia | intros _; eexists; reflexivity].
  - apply coins_nonneg_cons in Hnn. cbn [snd] in Hnn. destruct Hnn as [Hv Hr].
    pose proof (fun d => amt_of_nonneg r d Hr) as Hpos.
    cbn [spend fst snd amt_of].
    destruct (Z.eqb_spec v 0) as [Ev|Ev].
    + rewrite (IH s a Hr). subst v.
      split; intros H d; specialize (H d); destruct (d0 =? d); lia.
    + destruct (v <? 0) eqn:Evn; [exfalso; lia|].
      destruct (spendable s a d0 <? v) eqn:Esp.
      * split; [intros [s' H]; discriminate|].
        intros H. specialize (H d0). specialize (Hpos d0). rewrite Z.eqb_refl in H. exfalso. lia.
      * rewrite (IH _ a Hr).
        split; intros H d; specialize (H d); specialize (Hpos d);
          rewrite spendable_bal_sub, Z.eqb_refl, (Z.eqb_sym d d0) in *; cbn [andb] in *;
          destruct (Z.eqb_spec d0 d) as [E|E]; try subst d; lia.
Qed.

Lemma spend_spendable cs : forall s s' a, spend s a cs = Some s' -> coins_nonneg cs = true ->
  forall a' d, spendable s' a' d = spendable s a' d - (if a' =? a then amt_of cs d else 0).
Proof.
  induction cs as [|[d0 v] r IH]; intros s s' a H Hnn a' d; cbn [spend fst snd] in H.
  - injection H as <-. cbn [amt_of]. destruct (a' =? a); lia.
  - apply coins_nonneg_cons in Hnn. destruct Hnn as [_ Hr]. cbn [amt_of fst snd].
    destruct (Z.eqb_spec v 0) as [Ev|Ev].
    + rewrite (IH _ _ _ H Hr). subst v. destruct (a' =? a), (d0 =? d); lia.
    + destruct (v <? 0); [discriminate|].
      destruct (spendable s a d0 <? v); [discriminate|].
      rewrite (IH _ _ _ H Hr), spendable_bal_sub, (Z.eqb_sym d d0).
      destruct (a' =? a), (d0 =? d); cbn [andb]; lia.
Qed.

(** Fee first, then a hold on the state the fee left behind ([P] = whatever record update happens
    in between; it does not touch funds). *)
Lemma spend_then_hold_iff fee h s a (P : state -> state) :
  coins_nonneg fee = true -> coins_nonneg h = true ->
  (forall s1 a' d, spendable (P s1) a' d = spendable s1 a' d) ->
  ((exists s1 s', spend s a fee = Some s1 /\ add_hold (P s1) a h = Some s') <->
   forall d, 0 < amt_of fee d + amt_of h d -> amt_of fee d + amt_of h d <= spendable s a d).
Proof.
  intros Hf Hh HP.
  pose proof (fun d => amt_of_nonneg fee d Hf) as Pf.
  pose proof (fun d => amt_of_nonneg h d Hh) as Ph.
  split.
  - intros (s1 & s' & Es & Ea) d Hd.
    assert (E1 : exists x, spend s a fee = Some x) by (eexists; exact Es).
    assert (E2 : exists x, add_hold (P s1) a h = Some x) by (eexists; exact Ea).
    rewrite (spend_iff fee s a Hf) in E1. rewrite (add_hold_iff h (P s1) a Hh) in E2.
    specialize (E1 d). specialize (E2 d).
    rewrite HP, (spend_spendable fee s s1 a Es Hf), Z.eqb_refl in E2.
    specialize (Pf d). specialize (Ph d). lia.
  - intros H.
    assert (E1 : exists x, spend s a fee = Some x).
    { apply (spend_iff fee s a Hf). intros d Hd. specialize (H d). specialize (Pf d). specialize (Ph d). lia. }
    destruct E1 as [s1 Es].
    assert (E2 : exists x, add_hold (P s1) a h = Some x).
    { apply (add_hold_iff h (P s1) a Hh). intros d Hd.
      rewrite HP, (spend_spendable fee s s1 a Es Hf), Z.eqb_refl.
      specialize (H d). specialize (Pf d). specialize (Ph d). lia. }
    destruct E2 as [s' Ea]. exists s1, s'. split; assumption.
Qed.

(** * Orders. *)
Lemma order_valid_hold_nonneg o : order_valid o = true -> coins_nonneg (order_hold o) = true.
Proof.
  unfold order_valid. intros H.
  apply andb_prop in H. destruct H as [H _].
  apply andb_prop in H. destruct H as [H Hfees].
  apply andb_prop in H. destruct H as [H _].
  apply andb_prop in H. destruct H as [Ha Hp].
  apply coins_pos_nonneg in Hfees.
  unfold order_hold. destruct (o_ask o).
  - unfold coins_nonneg in *. cbn [forallb]. apply andb_true_intro. split; [lia|].
    apply forallb_filter. exact Hfees.
  - unfold coins_nonneg in *. rewrite forallb_app. apply andb_true_intro. split; [exact Hfees|].
    cbn [forallb]. apply andb_true_intro. split; [lia | reflexivity].
Qed.

(** A new order is admitted (as far as funds go) iff, per denom, creation fee + hold amount fits
    into the owner's spendable balance. *)
Lemma create_order_accept_iff o cfee s : coins_nonneg cfee = true ->
  ((exists s', create_order o cfee s = Some s') <->
   order_valid o = true /\
   forall d, 0 < amt_of cfee d + amt_of (order_hold o) d ->
             amt_of cfee d + amt_of (order_hold o) d <= spendable s (o_owner o) d).
Proof.
  intros Hf. unfold create_order. destruct (order_valid o) eqn:Ev; cbn [negb].
  - pose proof (order_valid_hold_nonneg o Ev) as Hh.
    rewrite <- (spend_then_hold_iff cfee (order_hold o) s (o_owner o)
                  (fun s1 => set_orders s1 (aset Z.eqb (last_id s1 + 1) o (orders s1)) (last_id s1 + 1))
                  Hf Hh (fun _ _ _ => eq_refl)).
    split.
    + intros [s' H]. split; [reflexivity|].
      destruct (spend s (o_owner o) cfee) as [s1|] eqn:Es; cbn [obind] in H; [|discriminate].
      exists s1, s'. split; [reflexivity | exact H].
    + intros [_ (s1 & s' & Es & Ea)]. exists s'. rewrite Es. cbn [obind]. exact Ea.
  - split; [intros [s' H]; discriminate | intros [H _]; discriminate].
Qed.

(** * Commitments. *)
Lemma commit_funds_accept_iff m a amount cfee s : coins_nonneg cfee = true ->
  ((exists s', commit_funds m a amount cfee s = Some s') <->
   coins_nonneg amount = true /\
   forall d, 0 < amt_of cfee d + amt_of amount d -> amt_of cfee d + amt_of amount d <= spendable s a d).
Proof.
  intros Hf. unfold commit_funds, add_commitment.
  destruct (coins_is_zero amount) eqn:Ez.
  - pose proof (coins_zero_nonneg amount Ez) as Hn.
    assert (E : (exists s', obind (spend s a cfee) (fun s0 => Some s0) = Some s') <->
                (exists s', spend s a cfee = Some s')).
    { destruct (spend s a cfee) as [s1|]; cbn [obind]; reflexivity. }
    rewrite E, (spend_iff cfee s a Hf).
    split.
    + intros H. split; [exact Hn|]. intros d. rewrite (amt_of_zero amount d Ez), Z.add_0_r. apply H.
    + intros [_ H] d. specialize (H d). rewrite (amt_of_zero amount d Ez), Z.add_0_r in H. exact H.
  - destruct (coins_nonneg amount) eqn:Hn; cbn [negb].
    + rewrite <- (spend_then_hold_iff cfee amount s a (fun s1 => s1) Hf Hn (fun _ _ _ => eq_refl)).
      split.
      * intros [s' H]. split; [reflexivity|].
        destruct (spend s a cfee) as [s1|] eqn:Es; cbn [obind] in H; [|discriminate].
        destruct (add_hold s1 a amount) as [s2|] eqn:Ea; cbn [obind] in H; [|discriminate].
        exists s1, s2. split; [reflexivity | exact Ea].
      * intros [_ (s1 & s2 & Es & Ea)]. rewrite Es. cbn [obind]. rewrite Ea. cbn [obind].
        eexists. reflexivity.
    + split; [|intros [H _]; discriminate].
      intros [s' H]. destruct (spend s a cfee); cbn [obind] in H; discriminate.
Qed.

(** * Payments. *)
Lemma pay_create_accept_iff src ext samt tamt target s :
  ((exists s', pay_create src ext samt tamt target s = Some s') <->
   coins_pos samt = true /\ coins_pos tamt = true /\ (coins_is_zero samt && coins_is_zero tamt) = false /\
   afind k2_eqb (src, ext) (pays s) = None /\
   forall d, 0 < amt_of samt d -> amt_of samt d <= spendable s src d).
Proof.
  unfold pay_create.
  destruct (coins_pos samt) eqn:Eps; cbn [andb negb orb].
  2:{ split; [intros [s' H]; discriminate | intros (H & _); discriminate]. }
  destruct (coins_pos tamt) eqn:Ept; cbn [andb negb orb].
  2:{ split; [intros [s' H]; discriminate | intros (_ & H & _); discriminate]. }
  destruct (coins_is_zero samt && coins_is_zero tamt) eqn:Ezz.
  { split; [intros [s' H]; discriminate | intros (_ & _ & H & _); discriminate]. }
  destruct (afind k2_eqb (src, ext) (pays s)) as [p|] eqn:Ef.
  { split; [intros [s' H]; discriminate | intros (_ & _ & _ & H & _); discriminate]. }
  rewrite (add_hold_iff samt _ src (coins_pos_nonneg samt Eps)).
  split.
  - intros H. repeat split; try reflexivity. exact H.
  - intros (_ & _ & _ & _ & H). exact H.
Qed.

(** Releasing more than is committed is refused, anything else that is committed is accepted as
    far as release_split goes. *)
Lemma release_split_iff cur amount :
  (exists nr, release_split cur amount = Some nr) <->
  coins_nonneg amount = true /\ coins_is_zero cur = false /\
  (coins_is_zero amount = true \/ coins_geb cur amount = true).
Proof.
  unfold release_split.
  destruct (coins_nonneg amount); cbn [negb].
  2:{ split; [intros [nr H]; discriminate | intros (H & _); discriminate]. }
  destruct (coins_is_zero cur).
  { split; [intros [nr H]; discriminate | intros (_ & H & _); discriminate]. }
  destruct (coins_is_zero amount); cbn [negb].
  - split; [intros _; repeat split; left; reflexivity | intros _; eexists; reflexivity].
  - destruct (coins_geb cur amount).
    + split; [intros _; repeat split; right; reflexivity | intros _; eexists; reflexivity].
    + split; [intros [nr H]; discriminate | intros (_ & _ & [H|H]); discriminate].
Qed.

Lemma coins_geb_spec cur amount : coins_nonneg cur = true ->
  (coins_geb cur amount = true <-> forall d, (exists c, In c amount /\ fst c = d) -> amt_of amount d <= amt_of cur d).
Proof.
  intros _. unfold coins_geb. rewrite forallb_forall. split.
  - intros H d (c & Hc & <-). specialize (H c Hc). lia.
  - intros H c Hc. specialize (H (fst c) (ex_intro _ c (conj Hc eq_refl))). lia.
Qed.

(** * Delegation (bank DelegateCoins): funds on hold cannot be delegated, coins still vesting can. *)
Lemma delegate_one_iff a d v s :
  (exists s', delegate a [(d, v)] s = Some s') <-> 0 < v /\ v <= bal_of s a d - hold_of s a d.
Proof.
  unfold delegate. cbn [coins_pos forallb map fst snd nodupb existsb negb andb delegate_coins].
  destruct (Z.ltb_spec 0 v) as [Hv|Hv]; cbn [andb negb].
  - destruct (Z.ltb_spec (bal_of s a d - hold_of s a d) v) as [Hb|Hb].
    + split; [intros (s' & H); discriminate | intros (_ & H); lia].
    + split; [intros _; split; lia | intros _; eexists; reflexivity].
  - split; [intros (s' & H); discriminate | intros (H & _); lia].
Qed.

(** What an accepted delegation does: the balance goes down by the amount, the vesting lock by the
    amount but not below zero, the hold and every record stay. *)
Lemma delegate_one_effect a d v s s' :
  delegate a [(d, v)] s = Some s' ->
  bal_of s' a d = bal_of s a d - v /\ vlock_of s' a d = Z.max 0 (vlock_of s a d - v) /\
  holds s' = holds s /\ orders s' = orders s /\ commits s' = commits s /\ pays s' = pays s.
Proof.
  unfold delegate. cbn [coins_pos forallb map fst snd nodupb existsb negb andb delegate_coins].
  destruct (0 <? v); cbn [andb negb]; [|discriminate].
  destruct (bal_of s a d - hold_of s a d <? v); [discriminate|].
  intros H. injection H as <-. cbn [holds orders commits pays set_vest set_bals].
  repeat split.
  - unfold bal_of. cbn [bals set_vest set_bals]. rewrite zget_aset.
    destruct (k2_eqb_spec (a, d) (a, d)); [reflexivity | congruence].
  - unfold vlock_of at 1. cbn [vest set_vest]. rewrite zget_aset.
    destruct (k2_eqb_spec (a, d) (a, d)); [|congruence].
    unfold vlock_of. lia.
Qed.
