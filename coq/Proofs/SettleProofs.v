(** Proofs about [PV.Exchange.Settle] (property C01): over every history of order creations,
    market settlements and user fills no coin is created or destroyed, and a rejected
    operation changes nothing. *)
From Coq Require Import ZArith List Bool Lia ZifyBool PArith.
From PV Require Import Exchange.Arith Exchange.Split Exchange.Fulfill Exchange.Settle
  Proofs.ArithProofs Proofs.SplitProofs Proofs.FulfillProofs.
Import ListNotations.
Open Scope Z_scope.

(** Sum of all balances of one denom. *)
Definition total (m : amap) (d : denom) : Z :=
  fold_right (fun e acc => (if Pos.eqb d (snd (fst e)) then snd e else 0) + acc) 0 m.

Lemma total_cons a d z r d' : total ((a, d, z) :: r) d' = (if Pos.eqb d' d then z else 0) + total r d'.
Proof. reflexivity. Qed.

Lemma total_aadd m a d z d' : total (aadd m a d z) d' = total m d' + (if Pos.eqb d' d then z else 0).
Proof.
  induction m as [|[[a1 d1] z1] r IH]; cbn [aadd].
  - rewrite total_cons. cbn. lia.
  - destruct (Pos.eqb a a1 && Pos.eqb d d1) eqn:E.
    + apply andb_prop in E as [_ E]. apply Pos.eqb_eq in E. subst d1.
      rewrite !total_cons. destruct (Pos.eqb d' d); lia.
    + rewrite !total_cons, IH. lia.
Qed.

Lemma sub_unlocked_total hold a c : forall bal bal' d,
  sub_unlocked bal hold a c = Ok bal' -> total bal' d = total bal d - raw_sum c d.
Proof.
  induction c as [|[d1 z1] r IH]; intros bal bal' d H; cbn [sub_unlocked] in H.
  - inversion H; subst. cbn. lia.
  - destruct (aget bal a d1 - aget hold a d1 <? z1); [discriminate|].
    rewrite (IH _ _ _ H), total_aadd, raw_sum_cons. destruct (Pos.eqb d d1); lia.
Qed.

Lemma add_coins_total a c : forall bal d, total (add_coins bal a c) d = total bal d + raw_sum c d.
Proof.
  unfold add_coins. induction c as [|[d1 z1] r IH]; intros bal d; cbn [fold_left].
  - cbn. lia.
  - rewrite IH, total_aadd, raw_sum_cons. cbn [fst snd]. destruct (Pos.eqb d d1); lia.
Qed.

Lemma send_total bal hold from to c bal' d : send bal hold from to c = Ok bal' -> total bal' d = total bal d.
Proof.
  unfold send. intros H. inv_bind H. inversion H; subst.
  rewrite add_coins_total, (sub_unlocked_total _ _ _ _ _ _ Hx). lia.
Qed.

Definition idx_raw (i : indexed) (d : denom) : Z :=
  fold_right (fun e acc => raw_sum (snd e) d + acc) 0 i.

Lemma idx_raw_cons a c r d : idx_raw ((a, c) :: r) d = raw_sum c d + idx_raw r d.
Proof. reflexivity. Qed.

Lemma idx_total_spec i : forall acc, sorted acc ->
  sorted (fold_left (fun acc e => coins_add acc (snd e)) i acc) /\
  forall d, amount_of (fold_left (fun acc e => coins_add acc (snd e)) i acc) d = amount_of acc d + idx_raw i d.
Proof.
  induction i as [|[a c] r IH]; intros acc Hs; cbn [fold_left].
  - split; [assumption|]. intros d; cbn; lia.
  - destruct (coins_add_spec c acc Hs) as [Hs1 Ha1]. destruct (IH _ Hs1) as [Hs2 Ha2].
    split; [assumption|]. intros d. rewrite Ha2, Ha1, idx_raw_cons. cbn [snd]. lia.
Qed.

Lemma sub_inputs_total hold ins : forall bal bal' d,
  sub_inputs bal hold ins = Ok bal' -> total bal' d = total bal d - idx_raw ins d.
Proof.
  induction ins as [|[a c] r IH]; intros bal bal' d H; cbn [sub_inputs] in H.
  - inversion H; subst. cbn. lia.
  - inv_bind H. rewrite (IH _ _ _ H), (sub_unlocked_total _ _ _ _ _ _ Hx), idx_raw_cons. lia.
Qed.

Lemma add_outputs_total outs : forall bal d, total (add_outputs bal outs) d = total bal d + idx_raw outs d.
Proof.
  unfold add_outputs. induction outs as [|[a c] r IH]; intros bal d; cbn [fold_left].
  - cbn. lia.
  - rewrite IH, add_coins_total, idx_raw_cons. cbn [fst snd]. lia.
Qed.

Lemma input_output_total bal hold ins outs bal' d :
  input_output bal hold ins outs = Ok bal' -> total bal' d = total bal d.
Proof.
  unfold input_output. intros H.
  assert (Hcore : (if negb (coins_eqb (idx_total ins) (idx_total outs)) then Err
                   else rbind (sub_inputs bal hold ins) (fun bal'0 => Ok (add_outputs bal'0 outs))) = Ok bal' ->
                  total bal' d = total bal d).
  { clear H. intros H. destruct (coins_eqb (idx_total ins) (idx_total outs)) eqn:E; cbn [negb] in H; [|discriminate].
    apply coins_eqb_eq in E. inv_bind H. inversion H; subst.
    rewrite add_outputs_total, (sub_inputs_total _ _ _ _ _ Hx).
    destruct (idx_total_spec ins [] sorted_nil) as [_ Hi]. destruct (idx_total_spec outs [] sorted_nil) as [_ Ho].
    specialize (Hi d). specialize (Ho d). unfold idx_total in E. rewrite E in Hi. rewrite Hi in Ho. cbn in Ho. lia. }
  destruct ins as [|i1 [|i2 ir]]; destruct outs as [|o1 [|o2 or]]; try discriminate; auto.
Qed.

Lemma do_transfer_total bal hold t bal' d : do_transfer bal hold t = Ok bal' -> total bal' d = total bal d.
Proof.
  unfold do_transfer. intros H.
  destruct (t_in t) as [|[fa fc] [|i2 ir]]; destruct (t_out t) as [|[ta tc] [|o2 or]];
    try (apply (input_output_total _ _ _ _ _ _ H)).
  destruct (coins_eqb fc tc); [|discriminate]. apply (send_total _ _ _ _ _ _ _ H).
Qed.

Lemma transfer_all_total hold ts : forall bal bal' d,
  transfer_all bal hold ts = Ok bal' -> total bal' d = total bal d.
Proof.
  induction ts as [|t r IH]; intros bal bal' d H; cbn [transfer_all] in H.
  - inversion H; reflexivity.
  - inv_bind H. rewrite (IH _ _ _ H). apply (do_transfer_total _ _ _ _ _ Hx).
Qed.

Lemma collect_fee_total cfg bal hold payer fee bal' d :
  collect_fee cfg bal hold payer fee = Ok bal' -> total bal' d = total bal d.
Proof.
  unfold collect_fee. intros H. destruct (coins_is_zero fee); [inversion H; reflexivity|].
  inv_bind H. inv_bind H. destruct (coins_is_zero x).
  - inversion H; subst. apply (send_total _ _ _ _ _ _ _ Hx0).
  - rewrite (send_total _ _ _ _ _ _ _ H). apply (send_total _ _ _ _ _ _ _ Hx0).
Qed.

Lemma collect_fees_total cfg bal hold inputs bal' d :
  collect_fees cfg bal hold inputs = Ok bal' -> total bal' d = total bal d.
Proof.
  unfold collect_fees. intros H.
  assert (Hmulti : (let total0 := idx_total inputs in
            if coins_is_zero total0 then Ok bal
            else rbind (calc_split cfg total0) (fun ex =>
                 rbind (input_output bal hold inputs [(c_market cfg, total0)]) (fun bal1 =>
                 if coins_is_zero ex then Ok bal1 else send bal1 hold (c_market cfg) (c_feecol cfg) ex))) = Ok bal' ->
            total bal' d = total bal d).
  { clear H. cbn zeta. intros H. destruct (coins_is_zero (idx_total inputs)); [inversion H; reflexivity|].
    inv_bind H. inv_bind H. destruct (coins_is_zero x).
    - inversion H; subst. apply (input_output_total _ _ _ _ _ _ Hx0).
    - rewrite (send_total _ _ _ _ _ _ _ H). apply (input_output_total _ _ _ _ _ _ Hx0). }
  destruct inputs as [|[payer fee] [|i2 ir]].
  - inversion H; reflexivity.
  - apply (collect_fee_total _ _ _ _ _ _ _ H).
  - apply Hmulti, H.
Qed.

Lemma close_total cfg st s st' d : close cfg st s = Ok st' -> total (st_bal st') d = total (st_bal st) d.
Proof.
  unfold close. intros H. inv_bind H. inv_bind H. inv_bind H. inversion H; subst; cbn [st_bal].
  rewrite (collect_fees_total _ _ _ _ _ _ Hx1). apply (transfer_all_total _ _ _ _ _ Hx0).
Qed.

Lemma run_op_total cfg st o st' d : run_op cfg st o = Ok st' -> total (st_bal st') d = total (st_bal st) d.
Proof.
  destruct o as [ord [|]|askids bidids e|seller ids ta fl|buyer ids tp fs]; cbn [run_op]; intros H.
  - unfold create in H. inv_bind H. inversion H; reflexivity.
  - discriminate.
  - unfold settle in H.
    destruct (valid_ids askids && valid_ids bidids && disjoint_ids askids bidids); cbn [negb] in H; [|discriminate].
    inv_bind H. inv_bind H. inv_bind H.
    destruct e, (s_partial x1); try discriminate; apply (close_total _ _ _ _ _ H).
  - unfold fill_bids in H.
    destruct (valid_ids ids && negb (coins_is_zero ta)); cbn [negb] in H; [|discriminate].
    destruct (validate_flat (c_seller_flat cfg) fl); cbn [negb] in H; [|discriminate].
    inv_bind H. destruct (coins_eqb (sum_assets x) ta); cbn [negb] in H; [|discriminate].
    inv_bind H. inv_bind H. inv_bind H. inv_bind H. apply (close_total _ _ _ _ _ H).
  - unfold fill_asks in H.
    destruct (valid_ids ids && (0 <? snd tp)); cbn [negb] in H; [|discriminate].
    destruct (validate_buyer_flat (c_buyer_flat cfg) fs); cbn [negb] in H; [|discriminate].
    inv_bind H. destruct (coins_eqb (sum_price x) [tp]); cbn [negb] in H; [|discriminate].
    inv_bind H. inv_bind H. inv_bind H. inv_bind H. apply (close_total _ _ _ _ _ H).
Qed.

Lemma step_total cfg st o d : total (st_bal (fst (step cfg st o))) d = total (st_bal st) d.
Proof.
  unfold step. destruct (run_op cfg st o) as [st'| |] eqn:E; cbn [fst]; try reflexivity.
  apply (run_op_total _ _ _ _ _ E).
Qed.

(** Over every history: the per-denom sum of all balances never changes. *)
Lemma run_total cfg ops : forall st d, total (st_bal (run cfg st ops)) d = total (st_bal st) d.
Proof.
  unfold run. induction ops as [|o r IH]; intros st d; cbn [fold_left]; [reflexivity|].
  rewrite IH. apply step_total.
Qed.

(** A rejected operation changes nothing. *)
Lemma step_rejected cfg st o st' : step cfg st o = (st', false) -> st' = st.
Proof. unfold step. destruct (run_op cfg st o); intros H; inversion H; reflexivity. Qed.

(** A market settlement that is accepted built a settlement for exactly the stored orders
    and closed it; so everything [build_sound] says holds for what was executed. *)
Lemma settle_ok_build cfg st askids bidids e st' :
  settle cfg st askids bidids e = Ok st' ->
  exists asks bids s,
    get_orders (st_orders st) true askids None = Ok asks /\
    get_orders (st_orders st) false bidids None = Ok bids /\
    build asks bids (match asks with a :: _ => ratio_lookup cfg (o_pd a) | [] => Err end) = Ok s /\
    (e = true <-> s_partial s <> None) /\
    close cfg st s = Ok st'.
Proof.
  unfold settle. intros H.
  destruct (valid_ids askids && valid_ids bidids && disjoint_ids askids bidids); cbn [negb] in H; [|discriminate].
  inv_bind H. inv_bind H. inv_bind H. exists x, x0, x1. repeat split; try assumption.
  - intros ->. destruct (s_partial x1); [discriminate|discriminate].
  - intros Hp. destruct e; [reflexivity|]. destruct (s_partial x1); [discriminate|contradiction].
  - destruct e, (s_partial x1); try discriminate; assumption.
Qed.
