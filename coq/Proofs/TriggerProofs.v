(** Lemmas about the trigger model (Trigger/Trigger.v) for property C17:
      A. the effect of a dispatch ([eff_entry]): exactly the effects of the entries whose actions all
         succeeded, nothing for the others;
      B. the invariant [Inv] (every id in one place, ids below the counter, FIFO bookkeeping, gas limits
         and signers of every stored trigger) and [TimeOk], through every transition, from any
         well-formed genesis state ([wf_gen]);
      D. nested creations;
      E. ids are never reused ([GoneR], [Gone]);
      C. the history theorems; F. exactness of the detection in every block of a history. *)
From Coq Require Import ZArith NArith List Bool Lia.
From PV Require Import Trigger.Trigger Proofs.TriggerDetectProofs Proofs.TriggerLiveProofs.
Import ListNotations.
Open Scope N_scope.

(* ------------------------------------------------------------------------------------------------ *)
(** * 1. Counting the entries with a given id *)
Definition cnt (l : list entry) (i : N) : nat := length (filter (fun e => eid e =? i) l).

Lemma cnt_nil i : cnt [] i = 0%nat.
Proof. reflexivity. Qed.

Lemma cnt_cons x l i : cnt (x :: l) i = ((if (eid x =? i)%N then 1 else 0) + cnt l i)%nat.
Proof. unfold cnt; cbn [filter]. destruct (eid x =? i); reflexivity. Qed.

Lemma cnt_app l1 l2 i : cnt (l1 ++ l2) i = (cnt l1 i + cnt l2 i)%nat.
Proof. unfold cnt. rewrite filter_app, app_length. reflexivity. Qed.

Lemma cnt_filter_le p l i : (cnt (filter p l) i <= cnt l i)%nat.
Proof.
  induction l as [|x l IH]; [apply le_n|].
  cbn [filter]. destruct (p x); rewrite ?cnt_cons; lia.
Qed.

Lemma cnt_remove_id j l i : cnt (remove_id j l) i = if i =? j then 0%nat else cnt l i.
Proof.
  unfold remove_id. induction l as [|x l IH].
  - destruct (i =? j); reflexivity.
  - cbn [filter]. destruct (eid x =? j) eqn:Hx; cbn [negb].
    + rewrite IH, cnt_cons. destruct (i =? j) eqn:Hij; [reflexivity|].
      apply N.eqb_eq in Hx. destruct (eid x =? i) eqn:Hxi; [|reflexivity].
      apply N.eqb_eq in Hxi. apply N.eqb_neq in Hij. congruence.
    + rewrite !cnt_cons, IH. destruct (i =? j) eqn:Hij; [|reflexivity].
      apply N.eqb_eq in Hij. subst j. rewrite Hx. reflexivity.
Qed.

Lemma cnt_pos_In l i : (0 < cnt l i)%nat <-> exists e, In e l /\ eid e = i.
Proof.
  induction l as [|x l IH].
  - cbn. split; [lia|]. intros [e [[] _]].
  - rewrite cnt_cons. split.
    + intros H. destruct (eid x =? i) eqn:Hx.
      * exists x. split; [left; reflexivity|apply N.eqb_eq; assumption].
      * destruct IH as [IH1 _]. destruct IH1 as [e [He1 He2]]; [lia|]. exists e. split; [right; assumption|assumption].
    + intros [e [[He|He] Hi]].
      * subst x. apply N.eqb_eq in Hi. rewrite Hi. lia.
      * assert (0 < cnt l i)%nat by (apply IH; exists e; auto). lia.
Qed.

Lemma cnt_zero_not_In l i : cnt l i = 0%nat -> forall e, In e l -> eid e <> i.
Proof.
  intros Hz e He Hi. assert (Hp : (0 < cnt l i)%nat) by (apply cnt_pos_In; exists e; auto). lia.
Qed.

Lemma cnt_incl_zero l1 l2 i : (forall e, In e l1 -> In e l2) -> cnt l2 i = 0%nat -> cnt l1 i = 0%nat.
Proof.
  intros Hs Hz. destruct (Nat.eq_dec (cnt l1 i) 0) as [|Hn]; [assumption|].
  assert (Hp : (0 < cnt l1 i)%nat) by lia. apply cnt_pos_In in Hp. destruct Hp as [e [He1 He2]].
  exfalso. exact (cnt_zero_not_In l2 i Hz e (Hs e He1) He2).
Qed.

Lemma mem_In x l : mem x l = true <-> In x l.
Proof. apply mem_spec. Qed.

Lemma cnt_le1_NoDup l : (forall i, (cnt l i <= 1)%nat) -> NoDup (map eid l).
Proof.
  induction l as [|x l IH]; intros H; cbn [map]; constructor.
  - intros Hin. apply in_map_iff in Hin. destruct Hin as [e [He1 He2]].
    assert (0 < cnt l (eid x))%nat by (apply cnt_pos_In; exists e; auto).
    specialize (H (eid x)). rewrite cnt_cons, N.eqb_refl in H. lia.
  - apply IH. intros i. specialize (H i). rewrite cnt_cons in H. lia.
Qed.

Lemma NoDup_cnt_le1 l : NoDup (map eid l) -> forall i, (cnt l i <= 1)%nat.
Proof.
  induction l as [|x l IH]; cbn [map]; intros H i.
  - rewrite cnt_nil. lia.
  - inversion H as [|u v Hn Hd]; subst. rewrite cnt_cons. specialize (IH Hd i).
    destruct (eid x =? i) eqn:Hx; [|lia].
    apply N.eqb_eq in Hx. subst i.
    destruct (Nat.eq_dec (cnt l (eid x)) 0) as [Hz|Hz]; [lia|].
    exfalso. apply Hn. assert (Hp : (0 < cnt l (eid x))%nat) by lia.
    apply cnt_pos_In in Hp. destruct Hp as [e [He1 He2]]. rewrite <- He2. apply in_map. exact He1.
Qed.

Lemma cnt_firstn_skipn k l i : cnt l i = (cnt (firstn k l) i + cnt (skipn k l) i)%nat.
Proof. rewrite <- cnt_app, firstn_skipn. reflexivity. Qed.

(* ------------------------------------------------------------------------------------------------ *)
(** * 2. State algebra: the queue field is independent of everything an action does *)
Lemma set_queue_id s : set_queue s (queue s) = s.
Proof. destruct s; reflexivity. Qed.

Lemma set_queue_twice s q q' : set_queue (set_queue s q) q' = set_queue s q'.
Proof. reflexivity. Qed.

Lemma eff0_set_queue s q a : eff0 (set_queue s q) a = set_queue (eff0 s a) q.
Proof. destruct a; reflexivity. Qed.

Lemma register_set_queue s q owner au root ev acts lim pp :
  register (set_queue s q) owner au root ev acts lim pp = set_queue (register s owner au root ev acts lim pp) q.
Proof. reflexivity. Qed.

(** * 3. The effect of a complete action list (specification) *)
Definition eff_action (root : list addr) (plim : N) (nl : option N) (s : state) (a : action) : state :=
  match a with
  | ABasic b => eff0 s b
  | ACreate au ev acts =>
      match nl, au with
      | Some lim, owner :: _ => register s owner au root ev (map ABasic acts) lim plim
      | _, _ => s
      end
  end.

Definition eff_all (root : list addr) (plim : N) (nl : option N) (s : state) (acts : list action) : state :=
  fold_left (eff_action root plim nl) acts s.

Definition eff_entry (nest : list (N * N)) (s : state) (x : entry * bool) : state :=
  if snd x
  then eff_all (t_root (fst (fst x))) (snd (fst x)) (lookupN (eid (fst x)) nest) s (t_actions (fst (fst x)))
  else s.

Lemma eff_action_set_queue root plim nl s q a :
  eff_action root plim nl (set_queue s q) a = set_queue (eff_action root plim nl s a) q.
Proof.
  destruct a as [b|au ev acts]; cbn [eff_action].
  - apply eff0_set_queue.
  - destruct nl as [lim|]; [|reflexivity]. destruct au as [|owner au']; reflexivity.
Qed.

Lemma eff_all_set_queue root plim nl q : forall acts s,
  eff_all root plim nl (set_queue s q) acts = set_queue (eff_all root plim nl s acts) q.
Proof.
  unfold eff_all. induction acts as [|a r IH]; intros s; cbn [fold_left]; [reflexivity|].
  rewrite eff_action_set_queue. apply IH.
Qed.

Lemma eff_entry_set_queue nest s q x : eff_entry nest (set_queue s q) x = set_queue (eff_entry nest s x) q.
Proof. unfold eff_entry. destruct (snd x); [apply eff_all_set_queue|reflexivity]. Qed.

Lemma fold_eff_entry_set_queue nest q : forall d s,
  fold_left (eff_entry nest) d (set_queue s q) = set_queue (fold_left (eff_entry nest) d s) q.
Proof.
  induction d as [|x d IH]; intros s; cbn [fold_left]; [reflexivity|].
  rewrite eff_entry_set_queue. apply IH.
Qed.

Lemma eff_action_queue root plim nl s a : queue (eff_action root plim nl s a) = queue s.
Proof.
  destruct a as [b|au ev acts]; cbn [eff_action].
  - apply L_eff0_queue.
  - destruct nl as [lim|]; [|reflexivity]. destruct au as [|owner au']; reflexivity.
Qed.

Lemma eff_all_queue root plim nl : forall acts s, queue (eff_all root plim nl s acts) = queue s.
Proof.
  unfold eff_all. induction acts as [|a r IH]; intros s; cbn [fold_left]; [reflexivity|].
  rewrite IH. apply eff_action_queue.
Qed.

Lemma eff_entry_queue nest s x : queue (eff_entry nest s x) = queue s.
Proof. unfold eff_entry. destruct (snd x); [apply eff_all_queue|reflexivity]. Qed.

Lemma fold_eff_entry_queue nest : forall d s, queue (fold_left (eff_entry nest) d s) = queue s.
Proof.
  induction d as [|x d IH]; intros s; cbn [fold_left]; [reflexivity|].
  rewrite IH. apply eff_entry_queue.
Qed.

(** a list of failed entries has no effect at all *)
Lemma fold_eff_entry_failed nest : forall d s,
  (forall x, In x d -> snd x = false) -> fold_left (eff_entry nest) d s = s.
Proof.
  induction d as [|x d IH]; intros s H; cbn [fold_left]; [reflexivity|].
  unfold eff_entry at 2. rewrite (H x (or_introl eq_refl)).
  apply IH. intros y Hy. apply H. right. exact Hy.
Qed.

(* ------------------------------------------------------------------------------------------------ *)
(** * A. What a dispatch does to the state *)
Lemma exec0_some t s a s' : exec0 t s a = Some s' -> pre0 t s a = true /\ s' = eff0 s a.
Proof. unfold exec0. destruct (pre0 t s a); intros H; inversion H. auto. Qed.

(** D. a nested creation that was accepted *)
Lemma nested_registered h t root plim nl s au ev acts s' :
  exec_action h t root plim nl s (ACreate au ev acts) = Some s' ->
  exists owner rest lim,
    au = owner :: rest /\ nl = Some lim /\ lim + SetGasLimitCost <= plim /\
    validate_basic0 au ev acts = true /\ event_valid_ctx h t ev = true /\
    s' = register s owner au root ev (map ABasic acts) lim plim.
Proof.
  cbn [exec_action]. destruct nl as [lim|]; [|discriminate]. destruct au as [|owner rest]; [discriminate|].
  destruct (validate_basic0 (owner :: rest) ev acts) eqn:Hv; cbn [andb]; [|discriminate].
  destruct (event_valid_ctx h t ev) eqn:Hc; cbn [andb]; [|discriminate].
  destruct (lim + SetGasLimitCost <=? plim) eqn:Hl; [|discriminate].
  intros H. inversion H. exists owner, rest, lim. apply N.leb_le in Hl. repeat split; assumption.
Qed.

Lemma exec_action_spec h t root plim nl s a s' :
  exec_action h t root plim nl s a = Some s' -> s' = eff_action root plim nl s a.
Proof.
  destruct a as [b|au ev acts].
  - cbn [exec_action eff_action]. intros H. apply exec0_some in H. tauto.
  - intros H. apply nested_registered in H.
    destruct H as [owner [rest [lim [Hau [Hnl [_ [_ [_ Hs]]]]]]]]. subst. reflexivity.
Qed.

Lemma exec_all_spec h t root plim nl : forall acts s s',
  exec_all h t root plim nl s acts = Some s' -> s' = eff_all root plim nl s acts.
Proof.
  induction acts as [|a r IH]; intros s s' H.
  - cbn [exec_all] in H. inversion H. reflexivity.
  - apply L_exec_all_cons in H. destruct H as [s1 [H1 H2]].
    apply exec_action_spec in H1. apply IH in H2. subst. reflexivity.
Qed.

(** D. nothing runs after a nested creation *)
Lemma nested_last h t root plim nl : forall acts s s',
  exec_all h t root plim nl s acts = Some s' ->
  forall pre a post, acts = pre ++ a :: post -> (exists au ev l, a = ACreate au ev l) -> post = [].
Proof.
  induction acts as [|a0 r IH]; intros s s' H pre a post Heq Ha.
  - destruct pre; discriminate.
  - destruct pre as [|p pre]; cbn [app] in Heq; injection Heq as H0 Hr.
    + subst a0 r. destruct Ha as [au [ev [l Ha]]]. subst a.
      cbn [exec_all] in H. destruct (exec_action h t root plim nl s (ACreate au ev l)); [|discriminate].
      destruct post; [reflexivity|discriminate].
    + apply L_exec_all_cons in H. destruct H as [s1 [_ H2]].
      eapply IH; [exact H2|exact Hr|exact Ha].
Qed.

Lemma run_actions_inv h t s e oracle nest s' ok :
  run_actions h t s e oracle nest = (s', ok) ->
  (ok = false /\ s' = s) \/
  (ok = true /\ exec_all h t (t_root (fst e)) (snd e) (lookupN (eid e) nest) s (t_actions (fst e)) = Some s').
Proof.
  unfold run_actions.
  destruct (snd e <? gas_lo * N.of_nat (length (t_actions (fst e)))); [intros H; inversion H; auto|].
  destruct (mem (eid e) oracle); [intros H; inversion H; auto|].
  destruct (exec_all h t (t_root (fst e)) (snd e) (lookupN (eid e) nest) s (t_actions (fst e))) as [s1|];
    intros H; inversion H; subst; auto.
Qed.

Lemma run_actions_spec h t s e oracle nest s' ok :
  run_actions h t s e oracle nest = (s', ok) -> s' = eff_entry nest s (e, ok).
Proof.
  intros H. apply run_actions_inv in H. destruct H as [[Hok Hs]|[Hok Hx]]; subst ok.
  - subst. reflexivity.
  - unfold eff_entry. cbn [fst snd]. eapply exec_all_spec. exact Hx.
Qed.

(** the effects of a begin blocker: exactly the effects of the entries that succeeded, in order *)
Theorem dispatch_effects h t oracle nest : forall fuel gas s s' d,
  dispatch fuel h t gas s oracle nest = (s', d) ->
  s' = set_queue (fold_left (eff_entry nest) d s) (skipn (length d) (queue s)).
Proof.
  induction fuel as [|f IH]; intros gas s s' d H.
  - cbn [dispatch] in H. inversion H; subst. cbn [fold_left length skipn]. symmetry. apply set_queue_id.
  - apply L_dispatch_S in H.
    destruct H as [[_ [Hs Hd]]|[[e [rest [_ [_ [Hs Hd]]]]]|[e [rest [s1 [ok [l [EQ [_ [ER [ED Hd]]]]]]]]]]].
    + subst. cbn [fold_left length skipn]. symmetry. apply set_queue_id.
    + subst. cbn [fold_left length skipn]. symmetry. apply set_queue_id.
    + apply IH in ED. apply run_actions_spec in ER. rewrite eff_entry_set_queue in ER.
      subst d. cbn [fold_left length]. rewrite EQ. cbn [skipn].
      rewrite ED, ER. cbn [queue set_queue]. rewrite fold_eff_entry_set_queue. reflexivity.
Qed.

Theorem dispatch_all_failed h t oracle nest fuel gas s s' d :
  dispatch fuel h t gas s oracle nest = (s', d) ->
  (forall x, In x d -> snd x = false) ->
  cfg s' = cfg s /\ reg s' = reg s /\ next_id s' = next_id s /\ bank s' = bank s /\ rbank s' = rbank s /\
  names s' = names s /\ grants s' = grants s /\ queue s' = skipn (length d) (queue s).
Proof.
  intros H Hf. apply dispatch_effects in H. rewrite (fold_eff_entry_failed nest d s Hf) in H.
  subst s'. cbn [set_queue cfg reg next_id bank rbank names grants queue]. repeat split; reflexivity.
Qed.

(** the queue side of a dispatch *)
Definition sum_lim (l : list entry) : N := fold_right (fun e acc => snd e + acc) 0 l.

Lemma dispatch_spec h t oracle nest : forall fuel gas s s' d,
  dispatch fuel h t gas s oracle nest = (s', d) ->
  queue s = map fst d ++ queue s' /\ (length d <= fuel)%nat /\
  (gas <= MaximumQueueGas -> gas + sum_lim (map fst d) <= MaximumQueueGas).
Proof.
  induction fuel as [|f IH]; intros gas s s' d H.
  - cbn [dispatch] in H. inversion H; subst. cbn [map app length sum_lim fold_right]. repeat split; lia.
  - apply L_dispatch_S in H.
    destruct H as [[_ [Hs Hd]]|[[e [rest [_ [_ [Hs Hd]]]]]|[e [rest [s1 [ok [l [EQ [EG [ER [ED Hd]]]]]]]]]]].
    + subst. cbn [map app length sum_lim fold_right]. repeat split; lia.
    + subst. cbn [map app length sum_lim fold_right]. repeat split; lia.
    + apply IH in ED. apply run_actions_queue in ER. cbn [queue set_queue] in ER. rewrite ER in ED.
      destruct ED as [D1 [D2 D3]]. apply N.ltb_ge in EG. subst d.
      cbn [map fst app length sum_lim fold_right]. fold (sum_lim (map fst l)). repeat split.
      * rewrite EQ, D1. reflexivity.
      * lia.
      * intros _. assert (HG : gas + snd e <= MaximumQueueGas) by lia. specialize (D3 HG). lia.
Qed.

(* ------------------------------------------------------------------------------------------------ *)
(** * Validation facts *)
Lemma addrs_eqb_eq x : forall y, addrs_eqb x y = true -> x = y.
Proof.
  induction x as [|a x IH]; intros [|b y]; cbn [addrs_eqb]; try discriminate; [reflexivity|].
  intros H. apply andb_true_iff in H. destruct H as [Ha Hx]. apply N.eqb_eq in Ha. apply IH in Hx. congruence.
Qed.

Lemma signed_by_In au sg x : signed_by au sg = true -> In x sg -> In x au.
Proof.
  unfold signed_by. rewrite forallb_forall. intros H Hx. apply mem_In. apply H. exact Hx.
Qed.

Lemma validate_basic0_inv au ev acts :
  validate_basic0 au ev acts = true ->
  acts <> [] /\ event_valid ev = true /\
  forall b x, In b acts -> In x (signers0 b) -> In x au.
Proof.
  unfold validate_basic0. rewrite !andb_true_iff. intros [[Hne Hev] Ha].
  split; [destruct acts; [discriminate|congruence]|]. split; [exact Hev|].
  intros b x Hb Hx. rewrite forallb_forall in Ha. specialize (Ha b Hb).
  apply andb_true_iff in Ha. destruct Ha as [_ Ha]. eapply signed_by_In; eassumption.
Qed.

Lemma validate_basic_inv au ev acts :
  validate_basic au ev acts = true ->
  acts <> [] /\ event_valid ev = true /\
  forall a x, In a acts -> In x (a_signers a) -> In x au.
Proof.
  unfold validate_basic. rewrite !andb_true_iff. intros [[Hne Hev] Ha].
  split; [destruct acts; [discriminate|congruence]|]. split; [exact Hev|].
  intros a x Hin Hx. rewrite forallb_forall in Ha. specialize (Ha a Hin).
  unfold action_ok in Ha. apply andb_true_iff in Ha. destruct Ha as [_ Ha]. eapply signed_by_In; eassumption.
Qed.

Lemma find_id_some i l e : find_id i l = Some e -> In e l /\ eid e = i.
Proof.
  unfold find_id. intros H. apply find_some in H. destruct H as [H1 H2]. apply N.eqb_eq in H2. auto.
Qed.

Lemma find_id_none i l : find_id i l = None -> cnt l i = 0%nat.
Proof.
  unfold find_id. intros H. destruct (Nat.eq_dec (cnt l i) 0) as [|Hn]; [assumption|].
  assert (Hp : (0 < cnt l i)%nat) by lia. apply cnt_pos_In in Hp. destruct Hp as [e [He1 He2]].
  pose proof (find_none _ _ H e He1) as Hf. cbn beta in Hf. apply N.eqb_neq in Hf. contradiction.
Qed.

Lemma destroy_pre t s who id :
  pre0 t s (ADestroy who id) = true ->
  id <> 0 /\ exists e, In e (reg s) /\ eid e = id /\ t_owner (fst e) = who.
Proof.
  cbn [pre0]. rewrite andb_true_iff, negb_true_iff, N.eqb_neq. intros [Hid H]. split; [exact Hid|].
  destruct (find_id id (reg s)) as [e|] eqn:Hf; [|discriminate].
  apply find_id_some in Hf. apply N.eqb_eq in H. exists e. tauto.
Qed.

(** what an accepted creation looks like *)
Lemma create_accepted h t s sg au ev acts g u s' :
  apply_tx h t s (TCreate sg au ev acts g u) = (s', true) ->
  sg = au /\ (forall a x, In a acts -> In x (a_signers a) -> In x au) /\ acts <> [] /\
  event_valid_ctx h t ev = true /\ event_valid ev = true /\
  exists owner rest lim,
    au = owner :: rest /\ lim <= MaximumTriggerGas /\ lim + SetGasLimitCost <= g /\
    s' = register s owner au au ev acts lim g.
Proof.
  cbn [apply_tx].
  destruct (validate_basic au ev acts) eqn:Hv; cbn [negb]; [|intros H; inversion H].
  destruct (addrs_eqb sg au) eqn:Hs; cbn [negb]; [|intros H; inversion H].
  destruct au as [|owner rest]; [intros H; inversion H|].
  destruct (event_valid_ctx h t ev) eqn:Hc; cbn [negb]; [|intros H; inversion H].
  destruct (g <? u) eqn:Hgu; [intros H; inversion H|].
  destruct (g - u <? SetGasLimitCost) eqn:Hr; [intros H; inversion H|].
  intros H. inversion H; subst; clear H.
  apply addrs_eqb_eq in Hs. apply validate_basic_inv in Hv. destruct Hv as [Hne [Hev Hsig]].
  apply N.ltb_ge in Hgu. apply N.ltb_ge in Hr.
  split; [assumption|]. split; [exact Hsig|]. split; [exact Hne|]. split; [reflexivity|]. split; [exact Hev|].
  exists owner, rest, (N.min (g - u - SetGasLimitCost) MaximumTriggerGas).
  split; [reflexivity|]. split; [lia|]. split; [lia|]. reflexivity.
Qed.

(** a rejected transaction leaves the state unchanged *)
Lemma apply_tx_rejected h t s x s' : apply_tx h t s x = (s', false) -> s' = s.
Proof.
  destruct x as [signers auths ev acts txgas used|who id|from to amt]; cbn [apply_tx].
  - destruct (negb (validate_basic auths ev acts)); [intros H; inversion H; reflexivity|].
    destruct (negb (addrs_eqb signers auths)); [intros H; inversion H; reflexivity|].
    destruct auths; [intros H; inversion H; reflexivity|].
    destruct (negb (event_valid_ctx h t ev)); [intros H; inversion H; reflexivity|].
    destruct (txgas <? used); [intros H; inversion H; reflexivity|].
    destruct (txgas - used <? SetGasLimitCost); intros H; inversion H; reflexivity.
  - destruct (exec0 t s (ADestroy who id)); intros H; inversion H; reflexivity.
  - destruct (exec0 t s (ASend from to amt)); intros H; inversion H; reflexivity.
Qed.

(** an accepted transaction is a creation or a basic message that took effect *)
Lemma apply_tx_accepted h t s x s' :
  apply_tx h t s x = (s', true) ->
  (exists sg au ev acts g u, x = TCreate sg au ev acts g u) \/
  (exists b, pre0 t s b = true /\ s' = eff0 s b /\
             (x = TDestroy (match b with ADestroy w _ => w | _ => 0 end) (match b with ADestroy _ i => i | _ => 0 end)
              \/ exists f to amt, x = TSend f to amt)).
Proof.
  destruct x as [signers auths ev acts txgas used|who id|from to amt].
  - intros _. left. exists signers, auths, ev, acts, txgas, used. reflexivity.
  - cbn [apply_tx]. destruct (exec0 t s (ADestroy who id)) as [s1|] eqn:E; intros H; inversion H; subst.
    apply exec0_some in E. right. exists (ADestroy who id). split; [tauto|]. split; [tauto|]. left. reflexivity.
  - cbn [apply_tx]. destruct (exec0 t s (ASend from to amt)) as [s1|] eqn:E; intros H; inversion H; subst.
    apply exec0_some in E. right. exists (ASend from to amt). split; [tauto|]. split; [tauto|].
    right. exists from, to, amt. reflexivity.
Qed.

Lemma apply_txs_app h t : forall l1 l2 s s' oks,
  apply_txs h t s (l1 ++ l2) = (s', oks) ->
  exists sa o1 o2, apply_txs h t s l1 = (sa, o1) /\ apply_txs h t sa l2 = (s', o2) /\
                   oks = o1 ++ o2 /\ length o1 = length l1.
Proof.
  induction l1 as [|x l1 IH]; intros l2 s s' oks H.
  - cbn [app] in H. exists s, [], oks. cbn [apply_txs app length]. auto.
  - cbn [app] in H. apply L_apply_txs_cons in H. destruct H as [s1 [ok [oks' [H1 [H2 Ho]]]]].
    apply IH in H2. destruct H2 as [sa [o1 [o2 [A1 [A2 [A3 A4]]]]]].
    exists sa, (ok :: o1), o2. cbn [apply_txs]. rewrite H1, A1. cbn [app length].
    repeat split; [exact A2|subst; reflexivity|congruence].
Qed.

(* ------------------------------------------------------------------------------------------------ *)
(** * move_all *)
Lemma move_all_cons s e d : move_all s (e :: d) = move_all (move_one s e) d.
Proof. reflexivity. Qed.

Lemma move_all_next d : forall s, next_id (move_all s d) = next_id s.
Proof.
  induction d as [|e d IH]; intros s; [reflexivity|]. rewrite move_all_cons, IH. reflexivity.
Qed.

Lemma move_all_reg_cnt d : forall s i,
  cnt (reg (move_all s d)) i = if Nat.eqb (cnt d i) 0 then cnt (reg s) i else 0%nat.
Proof.
  induction d as [|e d IH]; intros s i; [reflexivity|].
  rewrite move_all_cons, IH. cbn [move_one reg set_queue set_reg]. rewrite cnt_remove_id, cnt_cons.
  rewrite (N.eqb_sym i (eid e)). destruct (eid e =? i); destruct (Nat.eqb (cnt d i) 0) eqn:Hz; cbn [Nat.add Nat.eqb]; try reflexivity.
  all: try (rewrite Hz; reflexivity).
Qed.

Lemma move_all_reg_In d : forall s x, In x (reg (move_all s d)) -> In x (reg s).
Proof.
  induction d as [|e d IH]; intros s x; [auto|]. rewrite move_all_cons.
  intros H. apply IH in H. cbn [move_one reg set_queue set_reg] in H. apply L_remove_id_incl in H. exact H.
Qed.

(* ------------------------------------------------------------------------------------------------ *)
(** * B. The invariant: where every trigger is, together with the history of detections and dispatches *)
Definition time_ok (e : entry) : Prop :=
  match t_event (fst e) with EvTime w => (0 <= w <= max_int64)%Z | _ => True end.

Definition good (e : entry) : Prop :=
  snd e <= MaximumTriggerGas /\ snd e + SetGasLimitCost <= t_prepaid (fst e) /\
  In (t_owner (fst e)) (t_auths (fst e)) /\
  (forall a x, In a (t_actions (fst e)) -> In x (a_signers a) -> In x (t_auths (fst e))) /\
  (forall x, In x (t_auths (fst e)) -> In x (t_root (fst e))).

Record Inv (s : state) (det disp : list entry) : Prop := {
  I_one : forall i, (cnt (reg s) i + cnt det i <= 1)%nat;
  I_bound : forall i, (0 < cnt (reg s) i + cnt det i)%nat -> 1 <= i < next_id s;
  I_fifo : det = disp ++ queue s;
  I_good : forall e, In e (reg s) \/ In e det -> good e;
  I_next : 1 <= next_id s
}.

(** a well-formed imported genesis state: what is queued counts as detected, nothing dispatched yet *)
Definition wf_gen (s : state) : Prop := Inv s (queue s) [].

Definition TimeOk (s : state) : Prop := forall e, In e (reg s) -> time_ok e.

Lemma wf_gen_init c b rb : wf_gen (init_cfg c b rb).
Proof.
  constructor; cbn [init_cfg reg queue next_id app]; intros; rewrite ?cnt_nil in *; try lia; try reflexivity.
  destruct H as [[]|[]].
Qed.

Lemma wf_gen_init0 b : wf_gen (init b).
Proof. apply wf_gen_init. Qed.

Lemma TimeOk_init c b rb : TimeOk (init_cfg c b rb).
Proof. intros e []. Qed.

(** what [wf_gen] asks of an imported genesis: distinct ids over registry and queue together, all of them
    in [1, next id), every stored trigger [good] *)
Lemma wf_gen_init_gen c b rb r q nx :
  wf_gen (init_gen c b rb r q nx) <->
  NoDup (map eid (r ++ q)) /\ 1 <= nx /\ forall e, In e (r ++ q) -> 1 <= eid e < nx /\ good e.
Proof.
  unfold wf_gen. split.
  - intros [H1 H2 _ H4 H5]. cbn [init_gen reg queue next_id] in *. split; [|split].
    + apply cnt_le1_NoDup. intros i. rewrite cnt_app. apply H1.
    + exact H5.
    + intros e He. split.
      * apply H2. rewrite <- cnt_app. apply cnt_pos_In. exists e. auto.
      * apply H4. apply in_app_or. exact He.
  - intros [Hnd [Hnx Hall]]. constructor; cbn [init_gen reg queue next_id app].
    + intros i. rewrite <- cnt_app. apply NoDup_cnt_le1. exact Hnd.
    + intros i Hp. rewrite <- cnt_app in Hp. apply cnt_pos_In in Hp. destruct Hp as [e [He1 He2]].
      subst i. apply Hall. exact He1.
    + reflexivity.
    + intros e He. apply Hall. apply in_or_app. exact He.
    + exact Hnx.
Qed.

Lemma TimeOk_init_gen c b rb r q nx : TimeOk (init_gen c b rb r q nx) <-> forall e, In e r -> time_ok e.
Proof. reflexivity. Qed.

Lemma Inv_NoDup_reg s det disp : Inv s det disp -> NoDup (map eid (reg s)).
Proof. intros HI. apply cnt_le1_NoDup. intros i. pose proof (I_one _ _ _ HI i). lia. Qed.

Lemma Inv_same s s' det disp :
  reg s' = reg s -> queue s' = queue s -> next_id s' = next_id s -> Inv s det disp -> Inv s' det disp.
Proof. intros R Q Nx [H1 H2 H3 H4 H5]. constructor; rewrite ?R, ?Q, ?Nx; assumption. Qed.

Lemma Inv_remove s i det disp : Inv s det disp -> Inv (set_reg s (remove_id i (reg s))) det disp.
Proof.
  intros [H1 H2 H3 H4 H5]. constructor; cbn [set_reg reg queue next_id]; try assumption.
  - intros j. rewrite cnt_remove_id. specialize (H1 j). destruct (j =? i); lia.
  - intros j Hp. apply H2. rewrite cnt_remove_id in Hp. destruct (j =? i); lia.
  - intros e [He|He]; [|apply H4; right; assumption].
    apply L_remove_id_incl in He. apply H4. left. exact He.
Qed.

Lemma Inv_eff0 s a det disp : Inv s det disp -> Inv (eff0 s a) det disp.
Proof.
  intros HI. destruct a; cbn [eff0]; try (apply (Inv_same s); [reflexivity|reflexivity|reflexivity|exact HI]).
  apply Inv_remove. exact HI.
Qed.

Lemma Inv_register s owner au root ev acts lim pp det disp :
  Inv s det disp ->
  good ({| t_id := next_id s; t_owner := owner; t_event := ev; t_actions := acts;
           t_auths := au; t_root := root; t_prepaid := pp |}, lim) ->
  Inv (register s owner au root ev acts lim pp) det disp.
Proof.
  intros [H1 H2 H3 H4 H5] Hg. constructor; cbn [register reg queue next_id].
  - intros i. rewrite cnt_app, cnt_cons, cnt_nil. unfold eid at 1. cbn [fst t_id].
    destruct (next_id s =? i) eqn:Hn; [|specialize (H1 i); lia].
    apply N.eqb_eq in Hn. subst i.
    destruct (Nat.eq_dec (cnt (reg s) (next_id s) + cnt det (next_id s)) 0) as [Hz|Hz]; [lia|].
    assert (Hp : (0 < cnt (reg s) (next_id s) + cnt det (next_id s))%nat) by lia.
    apply H2 in Hp. lia.
  - intros i. rewrite cnt_app, cnt_cons, cnt_nil. unfold eid at 1. cbn [fst t_id].
    destruct (next_id s =? i) eqn:Hn.
    + apply N.eqb_eq in Hn. subst i. lia.
    + intros Hp. assert (Hq : (0 < cnt (reg s) i + cnt det i)%nat) by lia. apply H2 in Hq. lia.
  - assumption.
  - intros e [He|He]; [|apply H4; right; assumption].
    apply in_app_iff in He. destruct He as [He|[He|[]]]; [apply H4; left; assumption|].
    subst e. exact Hg.
  - lia.
Qed.

Lemma Inv_exec_action h t root plim nl s a s' det disp :
  Inv s det disp -> plim <= MaximumTriggerGas ->
  (forall x, In x (a_signers a) -> In x root) ->
  exec_action h t root plim nl s a = Some s' -> Inv s' det disp.
Proof.
  intros HI HP HR H. destruct a as [b|au ev acts].
  - cbn [exec_action] in H. apply exec0_some in H. destruct H as [_ H]. subst s'. apply Inv_eff0. exact HI.
  - apply nested_registered in H. destruct H as [owner [rest [lim [Hau [Hnl [Hlim [Hv [Hc Hs]]]]]]]].
    subst s'. apply Inv_register; [exact HI|].
    apply validate_basic0_inv in Hv. destruct Hv as [_ [_ Hsig]].
    unfold good; cbn [fst snd t_prepaid t_owner t_auths t_actions t_root].
    split; [lia|]. split; [exact Hlim|]. split; [rewrite Hau; left; reflexivity|]. split.
    + intros a x Ha Hx. apply in_map_iff in Ha. destruct Ha as [b [Hb Hin]]. subst a. cbn [a_signers] in Hx.
      eapply Hsig; eassumption.
    + intros x Hx. apply HR. exact Hx.
Qed.

Lemma Inv_exec_all h t root plim nl det disp : plim <= MaximumTriggerGas ->
  forall acts s s',
  (forall a x, In a acts -> In x (a_signers a) -> In x root) ->
  Inv s det disp -> exec_all h t root plim nl s acts = Some s' -> Inv s' det disp.
Proof.
  intros HP. induction acts as [|a r IH]; intros s s' HR HI H.
  - cbn [exec_all] in H. inversion H; subst. exact HI.
  - apply L_exec_all_cons in H. destruct H as [s1 [H1 H2]].
    eapply IH; [|eapply Inv_exec_action; [exact HI|exact HP| |exact H1]|exact H2].
    + intros a' x Ha Hx. eapply HR; [right; exact Ha|exact Hx].
    + intros x Hx. eapply HR; [left; reflexivity|exact Hx].
Qed.

(** the running trigger [e] is NOT in the queue any more: [dispatch] popped it *)
Lemma Inv_run_actions h t s e oracle nest s' ok det disp :
  Inv s det disp -> good e -> run_actions h t s e oracle nest = (s', ok) -> Inv s' det disp.
Proof.
  intros HI [G1 [_ [_ [G4 G5]]]] H. apply run_actions_inv in H. destruct H as [[_ Hs]|[_ Hx]].
  - subst. exact HI.
  - eapply Inv_exec_all; [exact G1| |exact HI|exact Hx].
    intros a x Ha Hx'. apply G5. eapply G4; eassumption.
Qed.

Lemma Inv_dispatch h t oracle nest : forall fuel gas s s' d det disp,
  Inv s det disp -> dispatch fuel h t gas s oracle nest = (s', d) -> Inv s' det (disp ++ map fst d).
Proof.
  induction fuel as [|f IH]; intros gas s s' d det disp HI H.
  - cbn [dispatch] in H. inversion H; subst. cbn [map]. rewrite app_nil_r. exact HI.
  - apply L_dispatch_S in H.
    destruct H as [[_ [Hs Hd]]|[[e [rest [_ [_ [Hs Hd]]]]]|[e [rest [s1 [ok [l [EQ [_ [ER [ED Hd]]]]]]]]]]].
    + subst. cbn [map]. rewrite app_nil_r. exact HI.
    + subst. cbn [map]. rewrite app_nil_r. exact HI.
    + subst d. cbn [map fst].
      replace (disp ++ e :: map fst l) with ((disp ++ [e]) ++ map fst l) by (rewrite <- app_assoc; reflexivity).
      eapply IH; [|exact ED].
      assert (Hg : good e).
      { apply (I_good _ _ _ HI). right. rewrite (I_fifo _ _ _ HI), EQ. apply in_or_app. right. left. reflexivity. }
      eapply Inv_run_actions; [|exact Hg|exact ER].
      destruct HI as [H1 H2 H3 H4 H5]. constructor; cbn [set_queue reg queue next_id]; try assumption.
      rewrite H3, EQ, <- app_assoc. reflexivity.
Qed.

Lemma Inv_tx h t s x s' ok det disp :
  Inv s det disp -> apply_tx h t s x = (s', ok) -> Inv s' det disp.
Proof.
  intros HI Hx. destruct ok.
  2:{ apply apply_tx_rejected in Hx. subst. exact HI. }
  destruct (apply_tx_accepted _ _ _ _ _ Hx) as [[sg [au [ev [acts [g [u Hc]]]]]]|[b [_ [Hs _]]]].
  - subst x. apply create_accepted in Hx.
    destruct Hx as [_ [Hsig [_ [_ [_ [owner [rest [lim [Hau [Hl1 [Hl2 Hs']]]]]]]]]]].
    subst s'. apply Inv_register; [exact HI|].
    unfold good; cbn [fst snd t_prepaid t_owner t_auths t_actions t_root].
    split; [exact Hl1|]. split; [exact Hl2|]. split; [rewrite Hau; left; reflexivity|]. split; [exact Hsig|auto].
  - subst s'. apply Inv_eff0. exact HI.
Qed.

Lemma Inv_txs h t l : forall s s' oks det disp,
  Inv s det disp -> apply_txs h t s l = (s', oks) -> Inv s' det disp.
Proof.
  induction l as [|x l IH]; intros s s' oks det disp HI H.
  - cbn [apply_txs] in H. inversion H; subst; assumption.
  - apply L_apply_txs_cons in H. destruct H as [s1 [ok [oks' [H1 [H2 _]]]]].
    eapply IH; [|exact H2]. eapply Inv_tx; eassumption.
Qed.

(** detection: what is detected is in the registry, once *)
Lemma cnt_detect h t evs r i : NoDup (map eid r) -> (cnt (detect h t evs r) i <= cnt r i)%nat.
Proof.
  intros Hnd. pose proof (NoDup_cnt_le1 _ (detect_nodup h t evs r Hnd) i) as H1.
  destruct (Nat.eq_dec (cnt (detect h t evs r) i) 0) as [Hz|Hz]; [lia|].
  assert (Hp : (0 < cnt (detect h t evs r) i)%nat) by lia.
  apply cnt_pos_In in Hp. destruct Hp as [e [He1 He2]]. apply L_detect_incl in He1.
  assert (0 < cnt r i)%nat by (apply cnt_pos_In; exists e; auto). lia.
Qed.

Lemma Inv_detect h t evs s det disp :
  Inv s det disp ->
  Inv (move_all s (detect h t evs (reg s))) (det ++ detect h t evs (reg s)) disp.
Proof.
  intros HI. pose proof (Inv_NoDup_reg _ _ _ HI) as Hnd. destruct HI as [H1 H2 H3 H4 H5].
  set (D := detect h t evs (reg s)).
  assert (HD : forall i, (cnt D i <= cnt (reg s) i)%nat) by (intros i; apply cnt_detect; exact Hnd).
  constructor.
  - intros i. rewrite move_all_reg_cnt, cnt_app. specialize (H1 i). specialize (HD i).
    destruct (Nat.eqb (cnt D i) 0) eqn:Hz; [apply Nat.eqb_eq in Hz|]; lia.
  - intros i. rewrite move_all_reg_cnt, cnt_app, move_all_next. intros Hp. apply H2. specialize (HD i).
    destruct (Nat.eqb (cnt D i) 0) eqn:Hz; [apply Nat.eqb_eq in Hz|]; lia.
  - rewrite move_all_queue, H3, app_assoc. reflexivity.
  - intros e [He|He].
    + apply H4. left. eapply move_all_reg_In. eassumption.
    + apply in_app_iff in He. destruct He as [He|He]; [apply H4; right; assumption|].
      apply L_detect_incl in He. apply H4. left. exact He.
  - rewrite move_all_next. assumption.
Qed.

Definition det_of (outs : list bout) : list entry := flat_map o_det outs.
Definition disp_of (outs : list bout) : list entry := flat_map (fun o => map fst (o_disp o)) outs.

Lemma step_unfold s b s1 d s2 oks :
  dispatch MaximumActions (b_height b) (b_time b) 0 s (b_oracle b) (b_nest b) = (s1, d) ->
  apply_txs (b_height b) (b_time b) s1 (b_txs b) = (s2, oks) ->
  step s b = (move_all s2 (detect (b_height b) (b_time b) (b_events b) (reg s2)),
              {| o_disp := d; o_txres := oks;
                 o_det := detect (b_height b) (b_time b) (b_events b) (reg s2) |}).
Proof. intros Hd Ht. unfold step. rewrite Hd, Ht. reflexivity. Qed.

Lemma Inv_step s b s' o det disp :
  Inv s det disp -> step s b = (s', o) -> Inv s' (det ++ o_det o) (disp ++ map fst (o_disp o)).
Proof.
  intros HI H. apply L_step_inv in H. destruct H as [s1 [s2 [HD [HT [HE Hs]]]]].
  subst s'. rewrite HE. apply Inv_detect. eapply Inv_txs; [|exact HT]. eapply Inv_dispatch; eassumption.
Qed.

Lemma Inv_run bs : forall s s' outs det disp,
  Inv s det disp -> run s bs = (s', outs) -> Inv s' (det ++ det_of outs) (disp ++ disp_of outs).
Proof.
  induction bs as [|b bs IH]; intros s s' outs det disp HI H.
  - cbn [run] in H. inversion H; subst. cbn [det_of disp_of flat_map]. rewrite !app_nil_r. assumption.
  - apply L_run_cons in H. destruct H as [s1 [o [os [H1 [H2 Ho]]]]]. subst outs.
    unfold det_of, disp_of. cbn [flat_map]. rewrite !app_assoc.
    eapply IH; [|exact H2]. eapply Inv_step; eassumption.
Qed.

Lemma Inv_history s0 bs s outs :
  wf_gen s0 -> run s0 bs = (s, outs) -> Inv s (queue s0 ++ det_of outs) (disp_of outs).
Proof. intros Hw H. exact (Inv_run bs _ _ _ _ [] Hw H). Qed.

Lemma run_state_eq bs : forall s, fst (run s bs) = run_state s bs.
Proof.
  unfold run_state. induction bs as [|b bs IH]; intros s; cbn [run fold_left]; [reflexivity|].
  destruct (step s b) as [s1 o] eqn:Hs. specialize (IH s1). destruct (run s1 bs) as [s2 os]. cbn [fst] in *.
  rewrite IH. reflexivity.
Qed.

(* ------------------------------------------------------------------------------------------------ *)
(** * TimeOk: every registered block-time trigger has a time in [0, MaxInt64] *)
Lemma TimeOk_sub s s' : (forall e, In e (reg s') -> In e (reg s)) -> TimeOk s -> TimeOk s'.
Proof. intros Hs HT e He. apply HT. apply Hs. exact He. Qed.

Lemma eff0_reg_incl s a e : In e (reg (eff0 s a)) -> In e (reg s).
Proof.
  destruct a; cbn [eff0 reg set_bank set_rbank set_names set_grants set_reg]; auto.
  apply L_remove_id_incl.
Qed.

Lemma TimeOk_eff0 s a : TimeOk s -> TimeOk (eff0 s a).
Proof. apply TimeOk_sub. intros e. apply eff0_reg_incl. Qed.

Lemma TimeOk_register h t s owner au root ev acts lim pp :
  (0 <= t)%Z -> event_valid ev = true -> event_valid_ctx h t ev = true ->
  TimeOk s -> TimeOk (register s owner au root ev acts lim pp).
Proof.
  intros Ht Hv Hc HT e He. cbn [register reg] in He. apply in_app_iff in He.
  destruct He as [He|[He|[]]]; [apply HT; exact He|]. subst e. unfold time_ok. cbn [fst t_event].
  destruct ev as [v|w|nm ln ats]; try exact I.
  cbn [event_valid event_valid_ctx] in Hv, Hc. apply Z.leb_le in Hv. apply Z.ltb_lt in Hc. lia.
Qed.

Lemma TimeOk_exec_action h t root plim nl s a s' :
  (0 <= t)%Z -> TimeOk s -> exec_action h t root plim nl s a = Some s' -> TimeOk s'.
Proof.
  intros Ht HT H. destruct a as [b|au ev acts].
  - cbn [exec_action] in H. apply exec0_some in H. destruct H as [_ H]. subst s'. apply TimeOk_eff0. exact HT.
  - apply nested_registered in H. destruct H as [owner [rest [lim [_ [_ [_ [Hv [Hc Hs]]]]]]]].
    subst s'. apply validate_basic0_inv in Hv. destruct Hv as [_ [Hv _]].
    eapply TimeOk_register; eassumption.
Qed.

Lemma TimeOk_exec_all h t root plim nl : (0 <= t)%Z ->
  forall acts s s', TimeOk s -> exec_all h t root plim nl s acts = Some s' -> TimeOk s'.
Proof.
  intros Ht. induction acts as [|a r IH]; intros s s' HT H.
  - cbn [exec_all] in H. inversion H; subst. exact HT.
  - apply L_exec_all_cons in H. destruct H as [s1 [H1 H2]].
    eapply IH; [|exact H2]. eapply TimeOk_exec_action; eassumption.
Qed.

Lemma TimeOk_run_actions h t s e oracle nest s' ok :
  (0 <= t)%Z -> TimeOk s -> run_actions h t s e oracle nest = (s', ok) -> TimeOk s'.
Proof.
  intros Ht HT H. apply run_actions_inv in H. destruct H as [[_ Hs]|[_ Hx]].
  - subst. exact HT.
  - eapply TimeOk_exec_all; eassumption.
Qed.

Lemma TimeOk_dispatch h t oracle nest : (0 <= t)%Z ->
  forall fuel gas s s' d, TimeOk s -> dispatch fuel h t gas s oracle nest = (s', d) -> TimeOk s'.
Proof.
  intros Ht. induction fuel as [|f IH]; intros gas s s' d HT H.
  - cbn [dispatch] in H. inversion H; subst. exact HT.
  - apply L_dispatch_S in H.
    destruct H as [[_ [Hs _]]|[[e [rest [_ [_ [Hs _]]]]]|[e [rest [s1 [ok [l [_ [_ [ER [ED _]]]]]]]]]]].
    + subst; exact HT.
    + subst; exact HT.
    + eapply IH; [|exact ED]. eapply TimeOk_run_actions; [exact Ht| |exact ER]. exact HT.
Qed.

Lemma TimeOk_tx h t s x s' ok : (0 <= t)%Z -> TimeOk s -> apply_tx h t s x = (s', ok) -> TimeOk s'.
Proof.
  intros Ht HT Hx. destruct ok.
  2:{ apply apply_tx_rejected in Hx. subst. exact HT. }
  destruct (apply_tx_accepted _ _ _ _ _ Hx) as [[sg [au [ev [acts [g [u Hc]]]]]]|[b [_ [Hs _]]]].
  - subst x. apply create_accepted in Hx.
    destruct Hx as [_ [_ [_ [Hc [Hv [owner [rest [lim [_ [_ [_ Hs']]]]]]]]]]].
    subst s'. eapply TimeOk_register; eassumption.
  - subst s'. apply TimeOk_eff0. exact HT.
Qed.

Lemma TimeOk_txs h t : (0 <= t)%Z ->
  forall l s s' oks, TimeOk s -> apply_txs h t s l = (s', oks) -> TimeOk s'.
Proof.
  intros Ht. induction l as [|x l IH]; intros s s' oks HT H.
  - cbn [apply_txs] in H. inversion H; subst; assumption.
  - apply L_apply_txs_cons in H. destruct H as [s1 [ok [oks' [H1 [H2 _]]]]].
    eapply IH; [|exact H2]. eapply TimeOk_tx; eassumption.
Qed.

(** the state in which a block's detection runs *)
Lemma TimeOk_block h t oracle nest fuel gas s s1 d txs s2 oks :
  (0 <= t)%Z -> TimeOk s ->
  dispatch fuel h t gas s oracle nest = (s1, d) -> apply_txs h t s1 txs = (s2, oks) -> TimeOk s2.
Proof.
  intros Ht HT HD HX. eapply TimeOk_txs; [exact Ht| |exact HX]. eapply TimeOk_dispatch; eassumption.
Qed.

Lemma TimeOk_move_all s d : TimeOk s -> TimeOk (move_all s d).
Proof. apply TimeOk_sub. intros e. apply move_all_reg_In. Qed.

Lemma TimeOk_step s b s' o : (0 <= b_time b)%Z -> TimeOk s -> step s b = (s', o) -> TimeOk s'.
Proof.
  intros Ht HT H. apply L_step_inv in H. destruct H as [s1 [s2 [HD [HX [_ Hs]]]]].
  subst s'. apply TimeOk_move_all. eapply TimeOk_block; eassumption.
Qed.

Theorem TimeOk_run : forall bs s s' outs,
  TimeOk s -> (forall b, In b bs -> (0 <= b_time b)%Z) -> run s bs = (s', outs) -> TimeOk s'.
Proof.
  induction bs as [|b bs IH]; intros s s' outs HT Hb H.
  - cbn [run] in H. inversion H; subst. exact HT.
  - apply L_run_cons in H. destruct H as [s1 [o [os [H1 [H2 _]]]]].
    eapply IH; [| |exact H2].
    + eapply TimeOk_step; [|exact HT|exact H1]. apply Hb. left. reflexivity.
    + intros b' Hb'. apply Hb. right. exact Hb'.
Qed.

(* ------------------------------------------------------------------------------------------------ *)
(** * E. Ids are never reused: an id below the counter that is not in the registry stays out of it *)
Definition GoneR (s : state) (i : N) : Prop := i < next_id s /\ cnt (reg s) i = 0%nat.

Lemma GoneR_eff0 s a i : GoneR s i -> GoneR (eff0 s a) i.
Proof.
  intros [H1 H2]. split; [destruct a; exact H1|].
  eapply cnt_incl_zero; [|exact H2]. intros e. apply eff0_reg_incl.
Qed.

Lemma GoneR_register s owner au root ev acts lim pp i :
  GoneR s i -> GoneR (register s owner au root ev acts lim pp) i.
Proof.
  intros [H1 H2]. split; cbn [register reg next_id]; [lia|].
  rewrite cnt_app, cnt_cons, cnt_nil, H2. unfold eid. cbn [fst t_id].
  destruct (next_id s =? i) eqn:Hn; [|reflexivity]. apply N.eqb_eq in Hn. lia.
Qed.

Lemma GoneR_exec_action h t root plim nl s a s' i :
  GoneR s i -> exec_action h t root plim nl s a = Some s' -> GoneR s' i.
Proof.
  intros HG H. apply exec_action_spec in H. subst s'. destruct a as [b|au ev acts]; cbn [eff_action].
  - apply GoneR_eff0. exact HG.
  - destruct nl as [lim|]; [|exact HG]. destruct au as [|owner au']; [exact HG|]. apply GoneR_register. exact HG.
Qed.

Lemma GoneR_exec_all h t root plim nl i : forall acts s s',
  GoneR s i -> exec_all h t root plim nl s acts = Some s' -> GoneR s' i.
Proof.
  induction acts as [|a r IH]; intros s s' HG H.
  - cbn [exec_all] in H. inversion H; subst. exact HG.
  - apply L_exec_all_cons in H. destruct H as [s1 [H1 H2]].
    eapply IH; [|exact H2]. eapply GoneR_exec_action; eassumption.
Qed.

Lemma GoneR_run_actions h t s e oracle nest s' ok i :
  GoneR s i -> run_actions h t s e oracle nest = (s', ok) -> GoneR s' i.
Proof.
  intros HG H. apply run_actions_inv in H. destruct H as [[_ Hs]|[_ Hx]].
  - subst. exact HG.
  - eapply GoneR_exec_all; eassumption.
Qed.

Lemma GoneR_dispatch h t oracle nest i : forall fuel gas s s' d,
  GoneR s i -> dispatch fuel h t gas s oracle nest = (s', d) -> GoneR s' i.
Proof.
  induction fuel as [|f IH]; intros gas s s' d HG H.
  - cbn [dispatch] in H. inversion H; subst. exact HG.
  - apply L_dispatch_S in H.
    destruct H as [[_ [Hs _]]|[[e [rest [_ [_ [Hs _]]]]]|[e [rest [s1 [ok [l [_ [_ [ER [ED _]]]]]]]]]]].
    + subst; exact HG.
    + subst; exact HG.
    + eapply IH; [|exact ED]. eapply GoneR_run_actions; [|exact ER]. exact HG.
Qed.

Lemma GoneR_tx h t s x s' ok i : GoneR s i -> apply_tx h t s x = (s', ok) -> GoneR s' i.
Proof.
  intros HG Hx. destruct ok.
  2:{ apply apply_tx_rejected in Hx. subst. exact HG. }
  destruct (apply_tx_accepted _ _ _ _ _ Hx) as [[sg [au [ev [acts [g [u Hc]]]]]]|[b [_ [Hs _]]]].
  - subst x. apply create_accepted in Hx.
    destruct Hx as [_ [_ [_ [_ [_ [owner [rest [lim [_ [_ [_ Hs']]]]]]]]]]].
    subst s'. apply GoneR_register. exact HG.
  - subst s'. apply GoneR_eff0. exact HG.
Qed.

Lemma GoneR_txs h t i : forall l s s' oks, GoneR s i -> apply_txs h t s l = (s', oks) -> GoneR s' i.
Proof.
  induction l as [|x l IH]; intros s s' oks HG H.
  - cbn [apply_txs] in H. inversion H; subst; assumption.
  - apply L_apply_txs_cons in H. destruct H as [s1 [ok [oks' [H1 [H2 _]]]]].
    eapply IH; [|exact H2]. eapply GoneR_tx; eassumption.
Qed.

Lemma GoneR_move_all s d i : GoneR s i -> GoneR (move_all s d) i.
Proof.
  intros [H1 H2]. split; [rewrite move_all_next; exact H1|].
  eapply cnt_incl_zero; [|exact H2]. intros e. apply move_all_reg_In.
Qed.

(* ------------------------------------------------------------------------------------------------ *)
(** * Detection is sound, block by block *)
Definition det_sound (b : block) (o : bout) : Prop :=
  forall e, In e (o_det o) -> D_met (b_height b) (b_time b) (b_events b) (t_event (fst e)) = true.

Lemma step_det_sound s b s' o : step s b = (s', o) -> det_sound b o.
Proof.
  intros H. apply L_step_inv in H. destruct H as [s1 [s2 [_ [_ [HE _]]]]].
  intros e He. rewrite HE in He. apply detect_sound in He. tauto.
Qed.

Lemma run_det_sound bs : forall s s' outs,
  run s bs = (s', outs) ->
  length outs = length bs /\ forall b o, In (b, o) (combine bs outs) -> det_sound b o.
Proof.
  induction bs as [|b bs IH]; intros s s' outs H.
  - cbn [run] in H. inversion H; subst. split; [reflexivity|]. intros ? ? [].
  - apply L_run_cons in H. destruct H as [s1 [o [os [Hs [Hr Ho]]]]]. subst outs.
    apply IH in Hr. destruct Hr as [Hl Hc]. split; [cbn [length]; congruence|].
    intros b' o' [Hin|Hin].
    + inversion Hin; subst. eapply step_det_sound; eassumption.
    + apply Hc; assumption.
Qed.

Lemma in_combine_ex {A B} (l1 : list A) : forall (l2 : list B) y,
  length l2 = length l1 -> In y l2 -> exists x, In (x, y) (combine l1 l2).
Proof.
  induction l1 as [|a l1 IH]; intros [|b l2] y Hl Hin; cbn [length combine In] in *; try discriminate; try contradiction.
  destruct Hin as [Hin|Hin].
  - subst. exists a. left; reflexivity.
  - destruct (IH l2 y) as [x Hx]; [congruence|assumption|]. exists x. right; assumption.
Qed.

(* ------------------------------------------------------------------------------------------------ *)
(** * C. The history theorems: any history from any well-formed genesis state *)
Theorem exactly_one_place s0 bs s outs :
  wf_gen s0 -> run s0 bs = (s, outs) ->
  forall i, (cnt (reg s) i + cnt (queue s) i <= 1)%nat /\
            ((0 < cnt (reg s) i + cnt (queue s) i)%nat -> 1 <= i < next_id s) /\
            ((0 < cnt (disp_of outs) i)%nat -> cnt (reg s) i = 0%nat /\ cnt (queue s) i = 0%nat).
Proof.
  intros Hw H i. pose proof (Inv_history _ _ _ _ Hw H) as [H1 H2 H3 _ _].
  specialize (H1 i). specialize (H2 i). rewrite H3, cnt_app in H1, H2. repeat split; try lia.
  all: intros; try (apply H2; lia); lia.
Qed.

Theorem at_most_once s0 bs s outs :
  wf_gen s0 -> run s0 bs = (s, outs) -> NoDup (map eid (disp_of outs)).
Proof.
  intros Hw H. pose proof (Inv_history _ _ _ _ Hw H) as [H1 _ H3 _ _].
  apply cnt_le1_NoDup. intros i. specialize (H1 i). rewrite H3, cnt_app in H1. lia.
Qed.

Theorem fifo s0 bs s outs :
  wf_gen s0 -> run s0 bs = (s, outs) -> queue s0 ++ det_of outs = disp_of outs ++ queue s.
Proof. intros Hw H. exact (I_fifo _ _ _ (Inv_history _ _ _ _ Hw H)). Qed.

(** what the next block dispatches sits in the queue *)
Lemma dispatched_in_queue s b s' o e ok :
  step s b = (s', o) -> In (e, ok) (o_disp o) -> In e (queue s).
Proof.
  intros Hs Hin. apply L_step_inv in Hs. destruct Hs as [s1 [s2 [HD _]]].
  apply dispatch_spec in HD. destruct HD as [Q _]. rewrite Q. apply in_or_app. left.
  apply in_map_iff. exists (e, ok). auto.
Qed.

Lemma dispatched_good s0 bs s outs b s' o e ok :
  wf_gen s0 -> run s0 bs = (s, outs) -> step s b = (s', o) -> In (e, ok) (o_disp o) -> good e.
Proof.
  intros Hw Hr Hs Hin. pose proof (Inv_history _ _ _ _ Hw Hr) as [_ _ H3 H4 _].
  apply H4. right. rewrite H3. apply in_or_app. right. eapply dispatched_in_queue; eassumption.
Qed.

Theorem not_before_condition s0 bs b s outs s' o :
  wf_gen s0 -> run s0 bs = (s, outs) -> step s b = (s', o) ->
  forall e ok, In (e, ok) (o_disp o) ->
  In e (queue s0) \/
  exists b' o', In (b', o') (combine bs outs) /\ In e (o_det o') /\
                D_met (b_height b') (b_time b') (b_events b') (t_event (fst e)) = true.
Proof.
  intros Hw Hr Hs e ok Hin.
  pose proof (fifo _ _ _ _ Hw Hr) as Hf. pose proof (run_det_sound _ _ _ _ Hr) as [Hl Hc].
  assert (Hq : In e (queue s)) by (eapply dispatched_in_queue; eassumption).
  assert (Hdet : In e (queue s0 ++ det_of outs)). { rewrite Hf. apply in_or_app. right. assumption. }
  apply in_app_or in Hdet. destruct Hdet as [Hdet|Hdet]; [left; exact Hdet|right].
  unfold det_of in Hdet. apply in_flat_map in Hdet. destruct Hdet as [o' [Ho' He]].
  destruct (in_combine_ex bs outs o' Hl Ho') as [b' Hb'].
  exists b', o'. split; [assumption|]. split; [assumption|]. apply (Hc b' o' Hb'). assumption.
Qed.

Theorem gas_caps s0 bs b s outs s' o :
  wf_gen s0 -> run s0 bs = (s, outs) -> step s b = (s', o) ->
  (length (o_disp o) <= MaximumActions)%nat /\
  sum_lim (map fst (o_disp o)) <= MaximumQueueGas /\
  forall e ok, In (e, ok) (o_disp o) ->
    snd e <= MaximumTriggerGas /\ snd e + SetGasLimitCost <= t_prepaid (fst e).
Proof.
  intros Hw Hr Hs. split; [|split].
  - apply L_step_inv in Hs. destruct Hs as [s1 [s2 [HD _]]]. apply dispatch_spec in HD. tauto.
  - apply L_step_inv in Hs. destruct Hs as [s1 [s2 [HD _]]]. apply dispatch_spec in HD.
    destruct HD as [_ [_ Hsum]]. assert (H0 : 0 <= MaximumQueueGas) by apply N.le_0_l.
    specialize (Hsum H0). lia.
  - intros e ok Hin. destruct (dispatched_good _ _ _ _ _ _ _ _ _ Hw Hr Hs Hin) as [G1 [G2 _]]. auto.
Qed.

Theorem action_signers s0 bs b s outs s' o :
  wf_gen s0 -> run s0 bs = (s, outs) -> step s b = (s', o) ->
  forall e ok, In (e, ok) (o_disp o) ->
  In (t_owner (fst e)) (t_auths (fst e)) /\
  (forall a x, In a (t_actions (fst e)) -> In x (a_signers a) -> In x (t_auths (fst e))) /\
  (forall x, In x (t_auths (fst e)) -> In x (t_root (fst e))).
Proof.
  intros Hw Hr Hs e ok Hin.
  destruct (dispatched_good _ _ _ _ _ _ _ _ _ Hw Hr Hs Hin) as [_ [_ [G3 [G4 G5]]]]. auto.
Qed.

(** the invariant at any point inside the block after a history *)
Lemma Inv_inside s0 bs s outs h t oracle nest s1 d txs s2 oks :
  wf_gen s0 -> run s0 bs = (s, outs) ->
  dispatch MaximumActions h t 0 s oracle nest = (s1, d) ->
  apply_txs h t s1 txs = (s2, oks) ->
  Inv s2 (queue s0 ++ det_of outs) (disp_of outs ++ map fst d).
Proof.
  intros Hw Hr Hd Ht. eapply Inv_txs; [|exact Ht]. eapply Inv_dispatch; [|exact Hd].
  eapply Inv_history; eassumption.
Qed.

(** destroy, at any point inside any block of any history *)
Theorem destroy_rules s0 bs s outs h t oracle nest s1 d txs s2 oks who id s3 ok :
  wf_gen s0 -> run s0 bs = (s, outs) ->
  dispatch MaximumActions h t 0 s oracle nest = (s1, d) ->
  apply_txs h t s1 txs = (s2, oks) ->
  apply_tx h t s2 (TDestroy who id) = (s3, ok) ->
  (ok = true -> id <> 0 /\ (exists e, In e (reg s2) /\ eid e = id /\ t_owner (fst e) = who) /\
                cnt (queue s2) id = 0%nat /\ cnt (reg s3) id = 0%nat /\ queue s3 = queue s2 /\
                s3 = set_reg s2 (remove_id id (reg s2))) /\
  ((0 < cnt (queue s2) id)%nat -> ok = false) /\
  (ok = false -> s3 = s2).
Proof.
  intros Hw Hr Hd Ht Hx.
  pose proof (Inv_inside _ _ _ _ _ _ _ _ _ _ _ _ _ Hw Hr Hd Ht) as [H1 _ H3 _ _].
  assert (Hacc : ok = true -> id <> 0 /\ (exists e, In e (reg s2) /\ eid e = id /\ t_owner (fst e) = who) /\
                 s3 = set_reg s2 (remove_id id (reg s2))).
  { intros ->. cbn [apply_tx] in Hx. destruct (exec0 t s2 (ADestroy who id)) as [s'|] eqn:E; [|inversion Hx].
    inversion Hx; subst s'. apply exec0_some in E. destruct E as [Hp Hs]. apply destroy_pre in Hp.
    destruct Hp as [Hid He]. auto. }
  assert (Hq : ok = true -> cnt (queue s2) id = 0%nat).
  { intros Hok. destruct (Hacc Hok) as [_ [[e [He1 [He2 _]]] _]].
    assert (0 < cnt (reg s2) id)%nat by (apply cnt_pos_In; exists e; auto).
    specialize (H1 id). rewrite H3, !cnt_app in H1. lia. }
  split; [|split].
  - intros Hok. destruct (Hacc Hok) as [A [B C]]. split; [exact A|]. split; [exact B|]. split; [auto|].
    rewrite C. cbn [set_reg reg queue]. rewrite cnt_remove_id, N.eqb_refl. auto.
  - intros Hp. destruct ok; [|reflexivity]. specialize (Hq eq_refl). lia.
  - intros ->. eapply apply_tx_rejected. exact Hx.
Qed.

(* ------------------------------------------------------------------------------------------------ *)
(** * E. A trigger that is gone stays gone *)
Definition Gone (s : state) (i : N) : Prop := GoneR s i /\ cnt (queue s) i = 0%nat.

Lemma Gone_step s b s' o i :
  Gone s i -> step s b = (s', o) ->
  Gone s' i /\ cnt (map fst (o_disp o)) i = 0%nat /\ cnt (o_det o) i = 0%nat.
Proof.
  intros [HG HQ] H. apply L_step_inv in H. destruct H as [s1 [s2 [HD [HT [HE Hs]]]]].
  pose proof (GoneR_dispatch _ _ _ _ _ _ _ _ _ _ HG HD) as HG1.
  pose proof (GoneR_txs _ _ _ _ _ _ _ HG1 HT) as HG2.
  apply dispatch_prefix in HD. destruct HD as [D1 [D2 _]].
  apply apply_txs_queue in HT.
  pose proof (cnt_firstn_skipn (length (o_disp o)) (queue s) i) as Hsplit.
  assert (Hdet : cnt (o_det o) i = 0%nat).
  { rewrite HE. eapply cnt_incl_zero; [|exact (proj2 HG2)]. intros e. apply L_detect_incl. }
  split; [|split].
  - subst s'. split; [apply GoneR_move_all; exact HG2|].
    rewrite move_all_queue, cnt_app, HT, D2, Hdet. lia.
  - rewrite D1. lia.
  - exact Hdet.
Qed.

Lemma Gone_run i : forall bs s s' outs,
  Gone s i -> run s bs = (s', outs) ->
  Gone s' i /\ cnt (disp_of outs) i = 0%nat /\ cnt (det_of outs) i = 0%nat.
Proof.
  induction bs as [|b bs IH]; intros s s' outs HG H.
  - cbn [run] in H. inversion H; subst. cbn [disp_of det_of flat_map]. rewrite !cnt_nil. auto.
  - apply L_run_cons in H. destruct H as [s1 [o [os [H1 [H2 Ho]]]]]. subst outs.
    destruct (Gone_step _ _ _ _ _ HG H1) as [HG1 [A B]].
    destruct (IH _ _ _ HG1 H2) as [HG2 [C D]].
    split; [exact HG2|]. unfold disp_of, det_of in *. cbn [flat_map]. rewrite !cnt_app. lia.
Qed.

(** ids are never reused: an id that was handed out and is neither registered nor queued (its trigger was
    destroyed, or executed) never comes back, and is never detected or dispatched again *)
Theorem gone_stays_gone s0 bs s outs :
  wf_gen s0 -> run s0 bs = (s, outs) ->
  forall i, i < next_id s -> cnt (reg s) i = 0%nat -> cnt (queue s) i = 0%nat ->
  forall bs' s' outs', run s bs' = (s', outs') ->
  cnt (reg s') i = 0%nat /\ cnt (queue s') i = 0%nat /\ cnt (disp_of outs') i = 0%nat /\
  cnt (det_of outs') i = 0%nat.
Proof.
  intros _ _ i Hi Hr Hq bs' s' outs' H.
  destruct (Gone_run i bs' s s' outs' (conj (conj Hi Hr) Hq) H) as [[[_ A] B] [C D]]. auto.
Qed.

Theorem destroyed_in_block_never_detected h t s1 pre who id post s2 oks det disp evs :
  Inv s1 det disp ->
  apply_txs h t s1 (pre ++ TDestroy who id :: post) = (s2, oks) ->
  nth (length pre) oks false = true ->
  cnt (reg s2) id = 0%nat /\ id < next_id s2 /\
  forall x, In x (detect h t evs (reg s2)) -> eid x <> id.
Proof.
  intros HI H Hn. apply apply_txs_app in H. destruct H as [sa [o1 [o2 [A1 [A2 [A3 A4]]]]]].
  apply L_apply_txs_cons in A2. destruct A2 as [sb [ok [oks' [B1 [B2 B3]]]]].
  subst oks o2. rewrite app_nth2 in Hn by lia. rewrite A4, Nat.sub_diag in Hn. cbn [nth] in Hn. subst ok.
  pose proof (Inv_txs _ _ _ _ _ _ _ _ HI A1) as HIa.
  assert (HG : GoneR sb id).
  { cbn [apply_tx] in B1. destruct (exec0 t sa (ADestroy who id)) as [s'|] eqn:E; [|inversion B1].
    inversion B1; subst s'. apply exec0_some in E. destruct E as [Hp Hs]. apply destroy_pre in Hp.
    destruct Hp as [_ [e [He1 [He2 _]]]].
    assert (Hp : (0 < cnt (reg sa) id + cnt det id)%nat).
    { assert (0 < cnt (reg sa) id)%nat by (apply cnt_pos_In; exists e; auto). lia. }
    apply (I_bound _ _ _ HIa) in Hp. subst sb. split; cbn [eff0 set_reg next_id reg]; [lia|].
    rewrite cnt_remove_id, N.eqb_refl. reflexivity. }
  pose proof (GoneR_txs _ _ _ _ _ _ _ HG B2) as [G1 G2].
  split; [exact G2|]. split; [exact G1|].
  intros x Hx. apply L_detect_incl in Hx. eapply cnt_zero_not_In; eassumption.
Qed.

(* ------------------------------------------------------------------------------------------------ *)
(** * F. Detection is exact in every block of a history *)
Lemma detect_exact_pure h t evs r x :
  NoDup (map eid r) ->
  (forall y w, In y r -> t_event (fst y) = EvTime w -> (0 <= w < two64)%Z) ->
  In x r ->
  (In x (detect h t evs r) <->
   match t_event (fst x) with
   | EvHeight v => v <= h
   | EvTime v => (v <= t)%Z
   | EvTx name lname attrs => exists e, In e evs /\ em_ltype e = lname /\ tx_matches name attrs e = true
   end).
Proof.
  intros Hnd Hb Hx. unfold detect. rewrite !in_app_iff.
  assert (Htx : In x (detect_tx evs r []) -> exists n l a, t_event (fst x) = EvTx n l a).
  { intros H. apply detect_tx_sound in H. destruct H as [_ [Hi _]]. unfold is_tx in Hi.
    destruct (t_event (fst x)) as [| |n l a]; try discriminate. exists n, l, a. reflexivity. }
  assert (Hh : In x (detect_height h r) -> exists v, t_event (fst x) = EvHeight v).
  { intros H. apply D_height_kind in H. destruct H as [_ [v [Hv _]]]. exists v. exact Hv. }
  assert (Ht : In x (detect_time t r) -> exists v, t_event (fst x) = EvTime v).
  { intros H. apply D_time_kind in H. destruct H as [_ [v [Hv _]]]. exists v. exact Hv. }
  destruct (t_event (fst x)) as [v|v|name lname attrs] eqn:Ev.
  - pose proof (detect_height_exact h r x v Hx Ev) as HE. split.
    + intros [H|[H|H]].
      * destruct (Htx H) as [n [l [a Hn]]]. discriminate.
      * apply HE. exact H.
      * destruct (Ht H) as [w Hw]. discriminate.
    + intros H. right. left. apply HE. exact H.
  - pose proof (detect_time_complete_iff t r x v Hb Hx Ev) as HE. split.
    + intros [H|[H|H]].
      * destruct (Htx H) as [n [l [a Hn]]]. discriminate.
      * destruct (Hh H) as [w Hw]. discriminate.
      * apply HE. exact H.
    + intros H. right. right. apply HE. exact H.
  - pose proof (detect_tx_exact evs r x name lname attrs Hnd Hx Ev) as HE. split.
    + intros [H|[H|H]].
      * apply HE. exact H.
      * destruct (Hh H) as [w Hw]. discriminate.
      * destruct (Ht H) as [w Hw]. discriminate.
    + intros H. left. apply HE. exact H.
Qed.

Lemma TimeOk_two64 s : TimeOk s ->
  forall y w, In y (reg s) -> t_event (fst y) = EvTime w -> (0 <= w < two64)%Z.
Proof.
  intros HT y w Hy Hw. specialize (HT y Hy). unfold time_ok in HT. rewrite Hw in HT.
  unfold max_int64 in HT. unfold two64. lia.
Qed.

Theorem detection_exact s0 bs s outs b s1 d s2 oks :
  wf_gen s0 -> TimeOk s0 -> run s0 bs = (s, outs) ->
  (forall b', In b' bs -> (0 <= b_time b')%Z) -> (0 <= b_time b)%Z ->
  dispatch MaximumActions (b_height b) (b_time b) 0 s (b_oracle b) (b_nest b) = (s1, d) ->
  apply_txs (b_height b) (b_time b) s1 (b_txs b) = (s2, oks) ->
  (forall x, In x (reg s2) ->
     (In x (detect (b_height b) (b_time b) (b_events b) (reg s2)) <->
      match t_event (fst x) with
      | EvHeight v => v <= b_height b
      | EvTime v => (v <= b_time b)%Z
      | EvTx name lname attrs =>
          exists e, In e (b_events b) /\ em_ltype e = lname /\ tx_matches name attrs e = true
      end)) /\
  (forall x, In x (detect (b_height b) (b_time b) (b_events b) (reg s2)) -> In x (reg s2)) /\
  NoDup (map eid (detect (b_height b) (b_time b) (b_events b) (reg s2))).
Proof.
  intros Hw HT0 Hr Hbs Hb Hd Ht.
  pose proof (Inv_inside _ _ _ _ _ _ _ _ _ _ _ _ _ Hw Hr Hd Ht) as HI.
  pose proof (Inv_NoDup_reg _ _ _ HI) as Hnd.
  assert (HT2 : TimeOk s2).
  { eapply TimeOk_block; [exact Hb| |exact Hd|exact Ht]. eapply TimeOk_run; eassumption. }
  split; [|split].
  - intros x Hx. apply detect_exact_pure; [exact Hnd|apply TimeOk_two64; exact HT2|exact Hx].
  - intros x. apply L_detect_incl.
  - apply detect_nodup. exact Hnd.
Qed.

(* ------------------------------------------------------------------------------------------------ *)
(** * A computed instance: the hypotheses are satisfiable by a non-empty genesis, and a nested creation
      goes through (fresh id 2, root and prepaid gas inherited from the running trigger) *)
Definition X_tr : trigger :=
  {| t_id := 1; t_owner := 7; t_event := EvHeight 5;
     t_actions := [ABasic (ASend 7 8 3%Z); ACreate [7] (EvTime 900) [ASend 7 8 1%Z]];
     t_auths := [7]; t_root := [7]; t_prepaid := 200000 |}.

Definition X_s0 : state :=
  init_gen cfg0 (fun a => if a =? 7 then 10%Z else 0%Z) (fun _ => 0%Z) [] [(X_tr, 100000)] 2.

Definition X_b : block :=
  {| b_height := 10; b_time := 100; b_oracle := []; b_nest := [(1, 50000)]; b_txs := []; b_events := [] |}.

Example X_wf : wf_gen X_s0 /\ TimeOk X_s0.
Proof.
  split.
  - apply wf_gen_init_gen. cbn [app]. split; [|split].
    + cbn [map]. constructor; [intros []|constructor].
    + lia.
    + intros e [<-|[]]. split; [unfold eid; cbn [fst X_tr t_id]; lia|].
      unfold good. cbn [fst snd X_tr t_prepaid t_owner t_auths t_actions t_root].
      unfold MaximumTriggerGas, SetGasLimitCost. split; [lia|]. split; [lia|].
      split; [left; reflexivity|]. split.
      * intros a x [<-|[<-|[]]]; cbn [a_signers signers0]; auto.
      * auto.
  - intros e [].
Qed.

Example X_run :
  let r := step X_s0 X_b in
  map (fun p => (eid (fst p), snd p)) (o_disp (snd r)) = [(1, true)] /\
  map (fun e => (eid e, snd e, t_root (fst e), t_prepaid (fst e))) (reg (fst r)) = [(2, 50000, [7], 100000)] /\
  bank (fst r) 8 = 3%Z /\ next_id (fst r) = 3.
Proof. vm_compute. repeat split; reflexivity. Qed.

(* ------------------------------------------------------------------------------------------------ *)
Print Assumptions exactly_one_place.
Print Assumptions at_most_once.
Print Assumptions fifo.
Print Assumptions not_before_condition.
Print Assumptions dispatch_effects.
Print Assumptions dispatch_all_failed.
Print Assumptions gas_caps.
Print Assumptions action_signers.
Print Assumptions create_accepted.
Print Assumptions destroy_rules.
Print Assumptions nested_registered.
Print Assumptions nested_last.
Print Assumptions gone_stays_gone.
Print Assumptions destroyed_in_block_never_detected.
Print Assumptions TimeOk_run.
Print Assumptions detection_exact.
