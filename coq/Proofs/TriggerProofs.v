(** Lemmas about the trigger model (Trigger/Trigger.v) for property C17. *)
From Coq Require Import ZArith NArith List Bool Lia.
From PV Require Import Trigger.Trigger.
Import ListNotations.
Open Scope N_scope.

(** * Counting the entries with a given id *)
Definition cnt (l : list entry) (i : N) : nat := length (filter (fun e => eid e =? i) l).

Lemma cnt_nil i : cnt [] i = 0%nat.
Proof. reflexivity. Qed.

Lemma cnt_cons x l i : cnt (x :: l) i = ((if (eid x =? i)%N then 1 else 0) + cnt l i)%nat.
Proof. unfold cnt; cbn [filter]. destruct (eid x =? i); reflexivity. Qed.

Lemma cnt_app l1 l2 i : cnt (l1 ++ l2) i = (cnt l1 i + cnt l2 i)%nat.
Proof. unfold cnt. rewrite filter_app, app_length. reflexivity. Qed.

Lemma cnt_filter_le p l i : (cnt (filter p l) i <= cnt l i)%nat.
Proof.
  induction l as [|x l IH]; [apply le_n|].
  cbn [filter]. destruct (p x); rewrite ?cnt_cons; lia.
Qed.

Lemma cnt_filter_mono (p q : entry -> bool) l i :
  (forall x, p x = true -> q x = true) -> (cnt (filter p l) i <= cnt (filter q l) i)%nat.
Proof.
  intros Hpq. induction l as [|x l IH]; [apply le_n|].
  cbn [filter]. destruct (p x) eqn:Hp.
  - rewrite (Hpq x Hp). rewrite !cnt_cons. lia.
  - destruct (q x); rewrite ?cnt_cons; lia.
Qed.

Lemma cnt_remove_id j l i : cnt (remove_id j l) i = if i =? j then 0%nat else cnt l i.
Proof.
  unfold remove_id. induction l as [|x l IH].
  - destruct (i =? j); reflexivity.
  - cbn [filter]. destruct (eid x =? j) eqn:Hx; cbn [negb].
    + rewrite IH, cnt_cons. destruct (i =? j) eqn:Hij; [reflexivity|].
      apply N.eqb_eq in Hx. destruct (eid x =? i) eqn:Hxi; [|reflexivity].
      apply N.eqb_eq in Hxi. apply N.eqb_neq in Hij. congruence.
    + rewrite !cnt_cons, IH. destruct (i =? j) eqn:Hij; [|reflexivity].
      apply N.eqb_eq in Hij. subst j. rewrite Hx. reflexivity.
Qed.

Lemma cnt_pos_In l i : (0 < cnt l i)%nat <-> exists e, In e l /\ eid e = i.
Proof.
  induction l as [|x l IH].
  - cbn. split; [lia|]. intros [e [[] _]].
  - rewrite cnt_cons. split.
    + intros H. destruct (eid x =? i) eqn:Hx.
      * exists x. split; [left; reflexivity|apply N.eqb_eq; assumption].
      * destruct IH as [IH1 _]. destruct IH1 as [e [He1 He2]]; [lia|]. exists e. split; [right; assumption|assumption].
    + intros [e [[He|He] Hi]].
      * subst x. apply N.eqb_eq in Hi. rewrite Hi. lia.
      * assert (0 < cnt l i)%nat by (apply IH; exists e; auto). lia.
Qed.

Lemma mem_In x l : mem x l = true <-> In x l.
Proof.
  unfold mem. rewrite existsb_exists. split.
  - intros [y [Hy He]]. apply N.eqb_eq in He. subst y. assumption.
  - intros H. exists x. split; [assumption|apply N.eqb_refl].
Qed.

Lemma cnt_le1_NoDup l : (forall i, (cnt l i <= 1)%nat) -> NoDup (map eid l).
Proof.
  induction l as [|x l IH]; intros H; cbn [map]; constructor.
  - intros Hin. apply in_map_iff in Hin. destruct Hin as [e [He1 He2]].
    assert (0 < cnt l (eid x))%nat by (apply cnt_pos_In; exists e; auto).
    specialize (H (eid x)). rewrite cnt_cons, N.eqb_refl in H. lia.
  - apply IH. intros i. specialize (H i). rewrite cnt_cons in H. lia.
Qed.

(** * Sorting keeps the elements *)
Lemma cnt_insert k x l i : cnt (insert_by k x l) i = cnt (x :: l) i.
Proof.
  induction l as [|y l IH]; [reflexivity|].
  cbn [insert_by]. destruct (key_le (k x) (k y)); [reflexivity|].
  rewrite cnt_cons, IH, !cnt_cons. lia.
Qed.

Lemma cnt_sort k l i : cnt (sort_by k l) i = cnt l i.
Proof.
  unfold sort_by. induction l as [|x l IH]; [reflexivity|].
  cbn [fold_right]. rewrite cnt_insert, !cnt_cons, IH. reflexivity.
Qed.

Lemma In_insert k x l y : In y (insert_by k x l) <-> y = x \/ In y l.
Proof.
  induction l as [|z l IH]; cbn [insert_by].
  - cbn. intuition.
  - destruct (key_le (k x) (k z)); cbn [In]; [intuition|]. rewrite IH. intuition.
Qed.

Lemma In_sort k l y : In y (sort_by k l) <-> In y l.
Proof.
  unfold sort_by. induction l as [|x l IH]; [reflexivity|].
  cbn [fold_right]. rewrite In_insert, IH. cbn [In]. intuition.
Qed.

(** * Detection *)
Definition is_tx (x : entry) : bool := match t_event (fst x) with EvTx _ _ => true | _ => false end.

(** the condition of a trigger is met in a block *)
Definition met (h t : N) (evs : list emitted) (ev : event) : bool :=
  match ev with
  | EvHeight x => x <=? h
  | EvTime x => x <=? t
  | EvTx name attrs => existsb (tx_matches name attrs) evs
  end.

Lemma cnt_cands ty seen r i :
  cnt (filter (fun x => listens ty x && negb (mem (eid x) seen)) r) i =
  if mem i seen then 0%nat else cnt (filter (listens ty) r) i.
Proof.
  induction r as [|x r IH]; [destruct (mem i seen); reflexivity|].
  cbn [filter]. destruct (listens ty x) eqn:Hl; cbn [andb].
  - destruct (mem (eid x) seen) eqn:Hm; cbn [negb].
    + rewrite IH, cnt_cons. destruct (mem i seen) eqn:Hi; [reflexivity|].
      destruct (eid x =? i) eqn:Hx; [|reflexivity]. apply N.eqb_eq in Hx. congruence.
    + rewrite !cnt_cons, IH. destruct (mem i seen) eqn:Hi; [|reflexivity].
      destruct (eid x =? i) eqn:Hx; [|reflexivity]. apply N.eqb_eq in Hx. congruence.
  - apply IH.
Qed.

Lemma mem_app x l1 l2 : mem x (l1 ++ l2) = mem x l1 || mem x l2.
Proof. unfold mem. apply existsb_app. Qed.

Lemma mem_map_eid l i : mem i (map eid l) = negb (Nat.eqb (cnt l i) 0).
Proof.
  induction l as [|x l IH]; [reflexivity|].
  cbn [map]. unfold mem in *. cbn [existsb]. rewrite IH, cnt_cons.
  rewrite (N.eqb_sym i (eid x)). destruct (eid x =? i); [reflexivity|].
  cbn [orb]. reflexivity.
Qed.

Lemma cnt_detect_tx evs r : forall seen i,
  (cnt (detect_tx evs r seen) i <= if mem i seen then 0 else cnt (filter is_tx r) i)%nat.
Proof.
  induction evs as [|e evs IH]; intros seen i; cbn [detect_tx].
  - rewrite cnt_nil. lia.
  - rewrite cnt_app.
    set (cands := filter (fun x => listens (em_type e) x && negb (mem (eid x) seen)) r).
    pose proof (cnt_filter_le (ev_matches e) cands i) as Hm.
    pose proof (cnt_cands (em_type e) seen r i) as Hc. fold cands in Hc.
    specialize (IH (map eid cands ++ seen) i).
    rewrite mem_app, mem_map_eid in IH.
    assert (Hl : (cnt (filter (listens (em_type e)) r) i <= cnt (filter is_tx r) i)%nat).
    { apply cnt_filter_mono. intros x. unfold listens, is_tx. destruct (t_event (fst x)); congruence. }
    destruct (mem i seen) eqn:Hs.
    + rewrite orb_true_r in IH. lia.
    + rewrite orb_false_r in IH. destruct (Nat.eqb (cnt cands i) 0) eqn:Hz.
      * apply Nat.eqb_eq in Hz. cbn [negb] in IH. lia.
      * cbn [negb] in IH. lia.
Qed.

Lemma cnt_partition h t r i :
  (cnt (filter is_tx r) i + cnt (filter (ready height_of h) r) i + cnt (filter (ready time_of t) r) i <= cnt r i)%nat.
Proof.
  induction r as [|x r IH]; [apply le_n|].
  cbn [filter]. unfold is_tx, ready, height_of, time_of in *.
  destruct (t_event (fst x)) as [v|v|nm ats].
  - destruct (v <=? h); rewrite ?cnt_cons; lia.
  - destruct (v <=? t); rewrite ?cnt_cons; lia.
  - rewrite !cnt_cons. lia.
Qed.

Lemma cnt_detect h t evs r i : (cnt (detect h t evs r) i <= cnt r i)%nat.
Proof.
  unfold detect, detect_height, detect_time. rewrite !cnt_app, !cnt_sort.
  pose proof (cnt_detect_tx evs r [] i) as H1. cbn [mem existsb] in H1.
  pose proof (cnt_partition h t r i). lia.
Qed.

Lemma In_detect_tx evs r : forall seen x,
  In x (detect_tx evs r seen) -> In x r /\ exists e, In e evs /\ ev_matches e x = true.
Proof.
  induction evs as [|e evs IH]; intros seen x; cbn [detect_tx]; [intros []|].
  rewrite in_app_iff. intros [H|H].
  - apply filter_In in H. destruct H as [H1 H2]. apply filter_In in H1. destruct H1 as [H1 _].
    split; [assumption|]. exists e. split; [left; reflexivity|assumption].
  - apply IH in H. destruct H as [H1 [e' [H2 H3]]]. split; [assumption|]. exists e'. split; [right; assumption|assumption].
Qed.

Lemma In_detect h t evs r x :
  In x (detect h t evs r) -> In x r /\ met h t evs (t_event (fst x)) = true.
Proof.
  unfold detect, detect_height, detect_time. rewrite !in_app_iff, !In_sort.
  intros [H|[H|H]].
  - apply In_detect_tx in H. destruct H as [H1 [e [H2 H3]]]. split; [assumption|].
    unfold ev_matches in H3. destruct (t_event (fst x)); try discriminate.
    cbn [met]. apply existsb_exists. exists e. auto.
  - apply filter_In in H. destruct H as [H1 H2]. split; [assumption|].
    unfold ready, height_of in H2. destruct (t_event (fst x)); try discriminate. exact H2.
  - apply filter_In in H. destruct H as [H1 H2]. split; [assumption|].
    unfold ready, time_of in H2. destruct (t_event (fst x)); try discriminate. exact H2.
Qed.

(** * move_all *)
Lemma move_all_queue d : forall s, queue (move_all s d) = queue s ++ d.
Proof.
  induction d as [|e d IH]; intros s; cbn [move_all fold_left].
  - rewrite app_nil_r. reflexivity.
  - change (fold_left move_one d (move_one s e)) with (move_all (move_one s e) d).
    rewrite IH. cbn [move_one queue]. rewrite <- app_assoc. reflexivity.
Qed.

Lemma move_all_next d : forall s, next_id (move_all s d) = next_id s.
Proof.
  induction d as [|e d IH]; intros s; cbn [move_all fold_left]; [reflexivity|].
  change (fold_left move_one d (move_one s e)) with (move_all (move_one s e) d). rewrite IH. reflexivity.
Qed.

Lemma move_all_bank d : forall s, bank (move_all s d) = bank s.
Proof.
  induction d as [|e d IH]; intros s; cbn [move_all fold_left]; [reflexivity|].
  change (fold_left move_one d (move_one s e)) with (move_all (move_one s e) d). rewrite IH. reflexivity.
Qed.

Lemma move_all_reg_cnt d : forall s i,
  cnt (reg (move_all s d)) i = if Nat.eqb (cnt d i) 0 then cnt (reg s) i else 0%nat.
Proof.
  induction d as [|e d IH]; intros s i; cbn [move_all fold_left]; [reflexivity|].
  change (fold_left move_one d (move_one s e)) with (move_all (move_one s e) d).
  rewrite IH. cbn [move_one reg]. rewrite cnt_remove_id, cnt_cons.
  rewrite (N.eqb_sym i (eid e)). destruct (eid e =? i); destruct (Nat.eqb (cnt d i) 0) eqn:Hz; cbn; try reflexivity.
  all: try (rewrite Hz; reflexivity).
Qed.

Lemma move_all_reg_In d : forall s x, In x (reg (move_all s d)) -> In x (reg s).
Proof.
  induction d as [|e d IH]; intros s x; cbn [move_all fold_left]; [auto|].
  change (fold_left move_one d (move_one s e)) with (move_all (move_one s e) d).
  intros H. apply IH in H. cbn [move_one reg] in H. unfold remove_id in H. apply filter_In in H. tauto.
Qed.

(** * Actions *)
Lemma send_all_apply acts : forall b b', send_all b acts = Some b' -> b' = apply_all b acts.
Proof.
  induction acts as [|a acts IH]; intros b b'; cbn [send_all apply_all fold_left].
  - intros H; inversion H; reflexivity.
  - destruct (can_send b a); [|discriminate]. intros H. apply IH in H. exact H.
Qed.

Lemma run_actions_spec b e oracle b' ok :
  run_actions b e oracle = (b', ok) ->
  b' = if ok then apply_all b (t_actions (fst e)) else b.
Proof.
  unfold run_actions.
  destruct (snd e <? gas_lo * N.of_nat (length (t_actions (fst e)))); [intros H; inversion H; reflexivity|].
  destruct (mem (eid e) oracle); [intros H; inversion H; reflexivity|].
  destruct (send_all b (t_actions (fst e))) eqn:Hs; intros H; inversion H; subst; [|reflexivity].
  apply send_all_apply. assumption.
Qed.

Definition effects (b : bank_t) (d : list (entry * bool)) : bank_t :=
  fold_left (fun (b : bank_t) (x : entry * bool) => if snd x then apply_all b (t_actions (fst (fst x))) else b) d b.

Definition sum_lim (l : list entry) : N := fold_right (fun e acc => snd e + acc) 0 l.

Lemma dispatch_spec fuel : forall gas s oracle s' d,
  dispatch fuel gas s oracle = (s', d) ->
  queue s = map fst d ++ queue s' /\ reg s' = reg s /\ next_id s' = next_id s /\
  (length d <= fuel)%nat /\
  (gas <= MaximumQueueGas -> gas + sum_lim (map fst d) <= MaximumQueueGas) /\
  bank s' = effects (bank s) d.
Proof.
  induction fuel as [|f IH]; intros gas s oracle s' d; cbn [dispatch].
  - intros H; inversion H; subst. cbn. repeat split; try reflexivity; try lia.
  - destruct (queue s) as [|e rest] eqn:Hq.
    + intros H; inversion H; subst. cbn. rewrite Hq. repeat split; try reflexivity; try lia.
    + destruct (MaximumQueueGas <? snd e + gas) eqn:Hg.
      * intros H; inversion H; subst. cbn. rewrite Hq. repeat split; try reflexivity; try lia.
      * destruct (run_actions (bank s) e oracle) as [b' ok] eqn:Hr.
        destruct (dispatch f (gas + snd e) _ oracle) as [s2 l] eqn:Hd.
        intros H; inversion H; subst. apply IH in Hd. cbn [queue reg next_id bank] in Hd.
        destruct Hd as [H1 [H2 [H3 [H4 [H5 H6]]]]].
        apply run_actions_spec in Hr. apply N.ltb_ge in Hg.
        cbn [map fst length sum_lim fold_right app]. repeat split.
        -- rewrite H1. reflexivity.
        -- assumption.
        -- assumption.
        -- lia.
        -- intros _. fold (sum_lim (map fst l)). assert (gas + snd e <= MaximumQueueGas) by lia. specialize (H5 H0). lia.
        -- rewrite H6. unfold effects. cbn [fold_left fst snd]. rewrite Hr. reflexivity.
Qed.

(** * The invariant: where every trigger is, together with the history of detections and dispatches *)
Definition good (e : entry) : Prop :=
  snd e <= MaximumTriggerGas /\ snd e <= t_prepaid (fst e) /\
  In (t_owner (fst e)) (t_auths (fst e)) /\
  forall a x, In a (t_actions (fst e)) -> In x (a_signers a) -> In x (t_auths (fst e)).

Record Inv (s : state) (det disp : list entry) : Prop := {
  I_one : forall i, (cnt (reg s) i + cnt det i <= 1)%nat;
  I_bound : forall i, (0 < cnt (reg s) i + cnt det i)%nat -> 1 <= i < next_id s;
  I_fifo : det = disp ++ queue s;
  I_good : forall e, In e (reg s) \/ In e det -> good e;
  I_next : 1 <= next_id s
}.

Lemma Inv_init b : Inv (init b) [] [].
Proof.
  constructor; cbn; intros; try lia; try reflexivity; try tauto.
Qed.

Lemma Inv_dispatch fuel gas s oracle s' d det disp :
  Inv s det disp -> dispatch fuel gas s oracle = (s', d) -> Inv s' det (disp ++ map fst d).
Proof.
  intros [H1 H2 H3 H4 H5] Hd. apply dispatch_spec in Hd. destruct Hd as [Q [R [Nx _]]].
  constructor; rewrite ?R, ?Nx; try assumption.
  rewrite H3, Q, app_assoc. reflexivity.
Qed.

Lemma addrs_eqb_eq x : forall y, addrs_eqb x y = true -> x = y.
Proof.
  induction x as [|a x IH]; intros [|b y]; cbn; try discriminate; [reflexivity|].
  intros H. apply andb_true_iff in H. destruct H as [Ha Hx]. apply N.eqb_eq in Ha. apply IH in Hx. congruence.
Qed.

Lemma find_id_some i l e : find_id i l = Some e -> In e l /\ eid e = i.
Proof.
  unfold find_id. intros H. apply find_some in H. destruct H as [H1 H2]. apply N.eqb_eq in H2. auto.
Qed.

Lemma find_id_none i l : find_id i l = None -> cnt l i = 0%nat.
Proof.
  unfold find_id. intros H. destruct (Nat.eq_dec (cnt l i) 0) as [|Hn]; [assumption|].
  assert (Hp : (0 < cnt l i)%nat) by lia. apply cnt_pos_In in Hp. destruct Hp as [e [He1 He2]].
  pose proof (find_none _ _ H e He1) as Hf. cbn in Hf. apply N.eqb_neq in Hf. contradiction.
Qed.

(** what an accepted creation looks like *)
Lemma create_accepted h t s sg au ev acts g u s' :
  apply_tx h t s (TCreate sg au ev acts g u) = (s', true) ->
  sg = au /\ (forall a x, In a acts -> In x (a_signers a) -> In x au) /\ acts <> [] /\ event_valid_ctx h t ev = true /\
  exists owner rest lim,
    au = owner :: rest /\ lim <= MaximumTriggerGas /\ lim <= g /\
    s' = {| reg := reg s ++ [({| t_id := next_id s; t_owner := owner; t_event := ev; t_actions := acts;
                                  t_auths := au; t_prepaid := g |}, lim)];
            queue := queue s; next_id := next_id s + 1; bank := bank s |}.
Proof.
  cbn [apply_tx].
  destruct (validate_basic au ev acts) eqn:Hv; cbn [negb]; [|intros H; inversion H].
  destruct (addrs_eqb sg au) eqn:Hs; cbn [negb]; [|intros H; inversion H].
  destruct au as [|owner rest]; [intros H; inversion H|].
  destruct (event_valid_ctx h t ev) eqn:Hc; cbn [negb]; [|intros H; inversion H].
  destruct (g <? u) eqn:Hgu; [intros H; inversion H|].
  destruct (g - u <? SetGasLimitCost) eqn:Hr; [intros H; inversion H|].
  intros H. inversion H; subst; clear H.
  apply addrs_eqb_eq in Hs.
  unfold validate_basic in Hv. apply andb_true_iff in Hv. destruct Hv as [Hv Ha].
  apply andb_true_iff in Hv. destruct Hv as [Hne _].
  split; [assumption|]. split.
  { intros a x Hin Hx. rewrite forallb_forall in Ha. specialize (Ha a Hin). unfold action_ok in Ha.
    rewrite forallb_forall in Ha. apply mem_In. apply Ha. assumption. }
  split. { destruct acts; [discriminate|congruence]. }
  split; [reflexivity|].
  exists owner, rest, (N.min (g - u - SetGasLimitCost) MaximumTriggerGas).
  split; [reflexivity|]. split; [lia|]. split; [lia|]. reflexivity.
Qed.

Lemma Inv_tx h t s x s' ok det disp :
  Inv s det disp -> apply_tx h t s x = (s', ok) -> Inv s' det disp.
Proof.
  intros HI Hx. destruct ok.
  2:{ (* a rejected transaction leaves the state unchanged *)
      assert (s' = s); [|subst; assumption].
      destruct x; cbn [apply_tx] in Hx.
      - destruct (negb (validate_basic auths ev acts)); [inversion Hx; reflexivity|].
        destruct (negb (addrs_eqb signers auths)); [inversion Hx; reflexivity|].
        destruct auths; [inversion Hx; reflexivity|].
        destruct (negb (event_valid_ctx h t ev)); [inversion Hx; reflexivity|].
        destruct (txgas <? used); [inversion Hx; reflexivity|].
        destruct (txgas - used <? SetGasLimitCost); inversion Hx; reflexivity.
      - destruct (id =? 0); [inversion Hx; reflexivity|].
        destruct (find_id id (reg s)); [|inversion Hx; reflexivity].
        destruct (negb (t_owner (fst e) =? who)); inversion Hx; reflexivity.
      - destruct (can_send (bank s) _); inversion Hx; reflexivity. }
  destruct HI as [H1 H2 H3 H4 H5].
  destruct x.
  - apply create_accepted in Hx. destruct Hx as [_ [Hs [_ [_ [owner [rest [lim [Hau [Hl1 [Hl2 Hs']]]]]]]]]].
    subst s'. constructor; cbn [reg queue next_id].
    + intros i. rewrite cnt_app, cnt_cons, cnt_nil. unfold eid at 1. cbn [fst t_id].
      destruct (next_id s =? i) eqn:Hn; [|specialize (H1 i); lia].
      apply N.eqb_eq in Hn. subst i.
      destruct (Nat.eq_dec (cnt (reg s) (next_id s) + cnt det (next_id s)) 0) as [Hz|Hz]; [lia|].
      assert (Hp : (0 < cnt (reg s) (next_id s) + cnt det (next_id s))%nat) by lia.
      apply H2 in Hp. lia.
    + intros i. rewrite cnt_app, cnt_cons, cnt_nil. unfold eid at 1. cbn [fst t_id].
      destruct (next_id s =? i) eqn:Hn.
      * apply N.eqb_eq in Hn. subst i. lia.
      * intros Hp. assert (Hq : (0 < cnt (reg s) i + cnt det i)%nat) by lia. apply H2 in Hq. lia.
    + assumption.
    + intros e [He|He]; [|apply H4; right; assumption].
      apply in_app_iff in He. destruct He as [He|[He|[]]]; [apply H4; left; assumption|].
      subst e. unfold good. cbn [fst snd t_prepaid t_owner t_auths t_actions].
      split; [assumption|]. split; [assumption|]. split; [rewrite Hau; left; reflexivity|]. assumption.
    + lia.
  - cbn [apply_tx] in Hx. destruct (id =? 0); [inversion Hx|].
    destruct (find_id id (reg s)) as [e|]; [|inversion Hx].
    destruct (negb (t_owner (fst e) =? who)); inversion Hx; subst s'; clear Hx.
    constructor; cbn [reg queue next_id]; try assumption.
    + intros i. rewrite cnt_remove_id. specialize (H1 i). destruct (i =? id); lia.
    + intros i Hp. apply H2. rewrite cnt_remove_id in Hp. destruct (i =? id); lia.
    + intros e' [He|He]; [|apply H4; right; assumption].
      unfold remove_id in He. apply filter_In in He. apply H4. left. tauto.
  - cbn [apply_tx] in Hx. destruct (can_send (bank s) _); inversion Hx; subst s'; clear Hx.
    constructor; cbn [reg queue next_id]; assumption.
Qed.

Lemma Inv_txs h t l : forall s s' oks det disp,
  Inv s det disp -> apply_txs h t s l = (s', oks) -> Inv s' det disp.
Proof.
  induction l as [|x l IH]; intros s s' oks det disp HI; cbn [apply_txs].
  - intros H; inversion H; subst; assumption.
  - destruct (apply_tx h t s x) as [s1 ok] eqn:Hx. destruct (apply_txs h t s1 l) as [s2 oks'] eqn:Hl.
    intros H; inversion H; subst. eapply IH; [|eassumption]. eapply Inv_tx; eassumption.
Qed.

Lemma Inv_detect h t evs s det disp :
  Inv s det disp ->
  Inv (move_all s (detect h t evs (reg s))) (det ++ detect h t evs (reg s)) disp.
Proof.
  intros [H1 H2 H3 H4 H5]. set (D := detect h t evs (reg s)).
  assert (HD : forall i, (cnt D i <= cnt (reg s) i)%nat) by (intros i; apply cnt_detect).
  constructor.
  - intros i. rewrite move_all_reg_cnt, cnt_app. specialize (H1 i). specialize (HD i).
    destruct (Nat.eqb (cnt D i) 0) eqn:Hz; [apply Nat.eqb_eq in Hz|]; lia.
  - intros i. rewrite move_all_reg_cnt, cnt_app, move_all_next. intros Hp. apply H2. specialize (HD i).
    destruct (Nat.eqb (cnt D i) 0) eqn:Hz; [apply Nat.eqb_eq in Hz|]; lia.
  - rewrite move_all_queue, H3, app_assoc. reflexivity.
  - intros e [He|He].
    + apply H4. left. eapply move_all_reg_In. eassumption.
    + apply in_app_iff in He. destruct He as [He|He]; [apply H4; right; assumption|].
      apply In_detect in He. apply H4. left. tauto.
  - rewrite move_all_next. assumption.
Qed.

Definition det_of (outs : list bout) : list entry := flat_map o_det outs.
Definition disp_of (outs : list bout) : list entry := flat_map (fun o => map fst (o_disp o)) outs.

Lemma Inv_step s b s' o det disp :
  Inv s det disp -> step s b = (s', o) -> Inv s' (det ++ o_det o) (disp ++ map fst (o_disp o)).
Proof.
  intros HI. unfold step.
  destruct (dispatch MaximumActions 0 s (b_oracle b)) as [s1 d] eqn:Hd.
  destruct (apply_txs (b_height b) (b_time b) s1 (b_txs b)) as [s2 r] eqn:Ht.
  intros H; inversion H; subst; clear H. cbn [o_det o_disp].
  apply Inv_detect. eapply Inv_txs; [|eassumption]. eapply Inv_dispatch; eassumption.
Qed.

Lemma Inv_run bs : forall s s' outs det disp,
  Inv s det disp -> run s bs = (s', outs) -> Inv s' (det ++ det_of outs) (disp ++ disp_of outs).
Proof.
  induction bs as [|b bs IH]; intros s s' outs det disp HI; cbn [run].
  - intros H; inversion H; subst. cbn. rewrite !app_nil_r. assumption.
  - destruct (step s b) as [s1 o] eqn:Hs. destruct (run s1 bs) as [s2 os] eqn:Hr.
    intros H; inversion H; subst; clear H.
    unfold det_of, disp_of. cbn [flat_map]. rewrite !app_assoc.
    eapply IH; [|eassumption]. eapply Inv_step; eassumption.
Qed.

Lemma Inv_history b0 bs s outs :
  run (init b0) bs = (s, outs) -> Inv s (det_of outs) (disp_of outs).
Proof.
  intros H. pose proof (Inv_run bs _ _ _ [] [] (Inv_init b0) H) as HI. exact HI.
Qed.

Lemma run_state_eq bs : forall s, fst (run s bs) = run_state s bs.
Proof.
  unfold run_state. induction bs as [|b bs IH]; intros s; cbn [run fold_left]; [reflexivity|].
  destruct (step s b) as [s1 o] eqn:Hs. specialize (IH s1). destruct (run s1 bs) as [s2 os]. cbn [fst] in *.
  rewrite IH. reflexivity.
Qed.

(** * Detection is sound, block by block *)
Definition det_sound (b : block) (o : bout) : Prop :=
  forall e, In e (o_det o) -> met (b_height b) (b_time b) (b_events b) (t_event (fst e)) = true.

Lemma step_det_sound s b s' o : step s b = (s', o) -> det_sound b o.
Proof.
  unfold step.
  destruct (dispatch MaximumActions 0 s (b_oracle b)) as [s1 d].
  destruct (apply_txs (b_height b) (b_time b) s1 (b_txs b)) as [s2 r].
  intros H; inversion H; subst; clear H. intros e He. cbn [o_det] in He. apply In_detect in He. tauto.
Qed.

Lemma run_det_sound bs : forall s s' outs,
  run s bs = (s', outs) ->
  length outs = length bs /\ forall b o, In (b, o) (combine bs outs) -> det_sound b o.
Proof.
  induction bs as [|b bs IH]; intros s s' outs; cbn [run].
  - intros H; inversion H; subst. split; [reflexivity|]. intros ? ? [].
  - destruct (step s b) as [s1 o] eqn:Hs. destruct (run s1 bs) as [s2 os] eqn:Hr.
    intros H; inversion H; subst; clear H. apply IH in Hr. destruct Hr as [Hl Hc]. split; [cbn; congruence|].
    intros b' o' [Hin|Hin].
    + inversion Hin; subst. eapply step_det_sound; eassumption.
    + apply Hc; assumption.
Qed.

Lemma in_combine_ex {A B} (l1 : list A) : forall (l2 : list B) y,
  length l2 = length l1 -> In y l2 -> exists x, In (x, y) (combine l1 l2).
Proof.
  induction l1 as [|a l1 IH]; intros [|b l2] y Hl Hin; cbn in *; try discriminate; try contradiction.
  destruct Hin as [Hin|Hin].
  - subst. exists a. left; reflexivity.
  - destruct (IH l2 y) as [x Hx]; [congruence|assumption|]. exists x. right; assumption.
Qed.

(** * The history theorems *)
Lemma exactly_one_place b0 bs s outs :
  run (init b0) bs = (s, outs) ->
  forall i, (cnt (reg s) i + cnt (queue s) i <= 1)%nat /\
            ((0 < cnt (reg s) i + cnt (queue s) i)%nat -> 1 <= i < next_id s) /\
            ((0 < cnt (disp_of outs) i)%nat -> cnt (reg s) i = 0%nat /\ cnt (queue s) i = 0%nat).
Proof.
  intros H i. apply Inv_history in H. destruct H as [H1 H2 H3 _ _].
  specialize (H1 i). specialize (H2 i). rewrite H3, cnt_app in H1, H2. repeat split; try lia.
  all: intros; try (apply H2; lia); lia.
Qed.

Lemma at_most_once b0 bs s outs :
  run (init b0) bs = (s, outs) -> NoDup (map eid (disp_of outs)).
Proof.
  intros H. apply Inv_history in H. destruct H as [H1 _ H3 _ _].
  apply cnt_le1_NoDup. intros i. specialize (H1 i). rewrite H3, cnt_app in H1. lia.
Qed.

Lemma fifo b0 bs s outs :
  run (init b0) bs = (s, outs) -> det_of outs = disp_of outs ++ queue s.
Proof. intros H. apply Inv_history in H. destruct H. assumption. Qed.

Lemma not_before_condition b0 bs b s outs s' o :
  run (init b0) bs = (s, outs) -> step s b = (s', o) ->
  forall e ok, In (e, ok) (o_disp o) ->
  exists b' o', In (b', o') (combine bs outs) /\ In e (o_det o') /\
                met (b_height b') (b_time b') (b_events b') (t_event (fst e)) = true.
Proof.
  intros Hr Hs e ok Hin.
  pose proof (fifo _ _ _ _ Hr) as Hf. pose proof (run_det_sound _ _ _ _ Hr) as [Hl Hc].
  unfold step in Hs.
  destruct (dispatch MaximumActions 0 s (b_oracle b)) as [s1 d] eqn:Hd.
  destruct (apply_txs (b_height b) (b_time b) s1 (b_txs b)) as [s2 r].
  inversion Hs; subst; clear Hs. cbn [o_disp] in Hin.
  apply dispatch_spec in Hd. destruct Hd as [Q _].
  assert (Hq : In e (queue s)). { rewrite Q. apply in_app_iff. left. apply in_map_iff. exists (e, ok). auto. }
  assert (Hdet : In e (det_of outs)). { rewrite Hf. apply in_app_iff. right. assumption. }
  unfold det_of in Hdet. apply in_flat_map in Hdet. destruct Hdet as [o' [Ho' He]].
  destruct (in_combine_ex bs outs o' Hl Ho') as [b' Hb'].
  exists b', o'. split; [assumption|]. split; [assumption|]. apply (Hc b' o' Hb'). assumption.
Qed.

Lemma atomic b0 bs s outs oracle s1 d :
  run (init b0) bs = (s, outs) -> dispatch MaximumActions 0 s oracle = (s1, d) ->
  bank s1 = effects (bank s) d.
Proof. intros _ Hd. apply dispatch_spec in Hd. tauto. Qed.

Lemma gas_caps b0 bs b s outs s' o :
  run (init b0) bs = (s, outs) -> step s b = (s', o) ->
  (length (o_disp o) <= MaximumActions)%nat /\
  sum_lim (map fst (o_disp o)) <= MaximumQueueGas /\
  forall e ok, In (e, ok) (o_disp o) -> snd e <= MaximumTriggerGas /\ snd e <= t_prepaid (fst e).
Proof.
  intros Hr Hs. apply Inv_history in Hr. destruct Hr as [_ _ H3 H4 _].
  unfold step in Hs.
  destruct (dispatch MaximumActions 0 s (b_oracle b)) as [s1 d] eqn:Hd.
  destruct (apply_txs (b_height b) (b_time b) s1 (b_txs b)) as [s2 r].
  inversion Hs; subst; clear Hs. cbn [o_disp].
  apply dispatch_spec in Hd. destruct Hd as [Q [_ [_ [Hlen [Hsum _]]]]].
  split; [assumption|]. split.
  { assert (0 <= MaximumQueueGas) by (unfold MaximumQueueGas; lia). specialize (Hsum H). lia. }
  intros e ok Hin.
  assert (Hg : good e).
  { apply H4. right. rewrite H3. apply in_app_iff. right. rewrite Q. apply in_app_iff. left.
    apply in_map_iff. exists (e, ok). auto. }
  destruct Hg as [G1 [G2 _]]. auto.
Qed.

Lemma action_signers b0 bs b s outs s' o :
  run (init b0) bs = (s, outs) -> step s b = (s', o) ->
  forall e ok, In (e, ok) (o_disp o) ->
  In (t_owner (fst e)) (t_auths (fst e)) /\
  forall a x, In a (t_actions (fst e)) -> In x (a_signers a) -> In x (t_auths (fst e)).
Proof.
  intros Hr Hs e ok Hin. apply Inv_history in Hr. destruct Hr as [_ _ H3 H4 _].
  unfold step in Hs.
  destruct (dispatch MaximumActions 0 s (b_oracle b)) as [s1 d] eqn:Hd.
  destruct (apply_txs (b_height b) (b_time b) s1 (b_txs b)) as [s2 r].
  inversion Hs; subst; clear Hs. cbn [o_disp] in Hin.
  apply dispatch_spec in Hd. destruct Hd as [Q _].
  assert (Hg : good e).
  { apply H4. right. rewrite H3. apply in_app_iff. right. rewrite Q. apply in_app_iff. left.
    apply in_map_iff. exists (e, ok). auto. }
  destruct Hg as [_ [_ [G3 G4]]]. auto.
Qed.

(** destroy, at any point inside any block of any history *)
Lemma destroy_rules b0 bs s outs oracle s1 d h t txs s2 oks who id s3 ok :
  run (init b0) bs = (s, outs) ->
  dispatch MaximumActions 0 s oracle = (s1, d) ->
  apply_txs h t s1 txs = (s2, oks) ->
  apply_tx h t s2 (TDestroy who id) = (s3, ok) ->
  (ok = true -> (exists e, In e (reg s2) /\ eid e = id /\ t_owner (fst e) = who) /\
                cnt (queue s2) id = 0%nat /\ cnt (reg s3) id = 0%nat /\ queue s3 = queue s2) /\
  ((0 < cnt (queue s2) id)%nat -> ok = false) /\
  (ok = false -> s3 = s2).
Proof.
  intros Hr Hd Ht Hx.
  assert (HI : Inv s2 (det_of outs) (disp_of outs ++ map fst d)).
  { eapply Inv_txs; [|eassumption]. eapply Inv_dispatch; [|eassumption]. eapply Inv_history; eassumption. }
  destruct HI as [H1 _ H3 _ _].
  cbn [apply_tx] in Hx.
  assert (Hacc : ok = true -> (exists e, In e (reg s2) /\ eid e = id /\ t_owner (fst e) = who) /\
                 cnt (reg s3) id = 0%nat /\ queue s3 = queue s2).
  { intros ->. destruct (id =? 0); [inversion Hx|].
    destruct (find_id id (reg s2)) as [e|] eqn:Hf; [|inversion Hx].
    destruct (t_owner (fst e) =? who) eqn:Ho; cbn [negb] in Hx; inversion Hx; subst; clear Hx.
    apply find_id_some in Hf. apply N.eqb_eq in Ho. split; [exists e; tauto|].
    cbn [reg queue]. rewrite cnt_remove_id, N.eqb_refl. auto. }
  assert (Hq : ok = true -> cnt (queue s2) id = 0%nat).
  { intros Hok. destruct (Hacc Hok) as [[e [He1 [He2 _]]] _].
    assert (0 < cnt (reg s2) id)%nat by (apply cnt_pos_In; exists e; auto).
    specialize (H1 id). rewrite H3, !cnt_app in H1. lia. }
  split; [intros Hok; destruct (Hacc Hok) as [A [B C]]; auto|].
  split.
  - intros Hp. destruct ok; [|reflexivity]. specialize (Hq eq_refl). lia.
  - intros ->. destruct (id =? 0); [inversion Hx; reflexivity|].
    destruct (find_id id (reg s2)) as [e|]; [|inversion Hx; reflexivity].
    destruct (negb (t_owner (fst e) =? who)); inversion Hx. reflexivity.
Qed.
