(** Well-formedness of the states of [PV.Exchange.Holds] (property C02) and its preservation:
    the stores are KV stores (distinct keys), every recorded amount is non-negative, a stored
    commitment is a valid sdk.Coins.  Under [wf] every record's reserved amount is one summand of
    [required], so under [cover] a release of it cannot fail. *)
From Coq Require Import ZArith List Bool Lia ZifyBool.
From PV Require Import Exchange.Holds Proofs.HoldsProofs.
Import ListNotations. Open Scope Z_scope.
Ltac Zify.zify_post_hook ::= Z.div_mod_to_equations.

Definition kv_ok (s : state) : Prop :=
  NoDup (map fst (orders s)) /\ NoDup (map fst (commits s)) /\ NoDup (map fst (pays s)).
(* a stored commitment is a valid sdk.Coins: distinct denoms, no negative entry *)
Definition coins_ok (cs : coins) : Prop := NoDup (map fst cs) /\ coins_nonneg cs = true.
Definition recs_ok (s : state) : Prop :=
  (forall e, In e (orders s) -> coins_nonneg (order_hold (snd e)) = true) /\
  (forall e, In e (commits s) -> coins_ok (snd e)) /\
  (forall e, In e (pays s) -> coins_nonneg (p_samt (snd e)) = true).
Definition wf (s : state) : Prop := kv_ok s /\ recs_ok s.
Definition cover (s : state) : Prop := forall a d, required s a d <= hold_of s a d.

(** * Association lists with distinct keys. *)
Section AListWf.
  Context {K V : Type}.
  Variable eqb : K -> K -> bool.
  Hypothesis eqb_spec : forall x y, reflect (x = y) (eqb x y).

  Implicit Types (k : K) (v : V) (l : list (K * V)).

  Lemma nodup_aset k v l : NoDup (map fst l) -> NoDup (map fst (aset eqb k v l)).
  Proof.
    induction l as [|[k0 v0] r IH]; cbn [aset map fst]; intros H.
    - constructor; [intros []|constructor].
    - inversion H as [|x xs Hnin Hnd]; subst.
      destruct (eqb_spec k k0) as [E|E]; cbn [map fst].
      + constructor; assumption.
      + constructor; [|apply IH; exact Hnd].
        intros Hin. apply (keys_aset eqb eqb_spec) in Hin.
        destruct Hin as [Hin|Hin]; [congruence|contradiction].
  Qed.

  Lemma nodup_adel k l : NoDup (map fst l) -> NoDup (map fst (adel eqb k l)).
  Proof.
    induction l as [|[k0 v0] r IH]; cbn [adel map fst]; intros H.
    - constructor.
    - inversion H as [|x xs Hnin Hnd]; subst.
      destruct (eqb_spec k k0) as [E|E]; cbn [map fst].
      + exact Hnd.
      + constructor; [|apply IH; exact Hnd].
        intros Hin. apply (keys_adel eqb eqb_spec) in Hin. contradiction.
  Qed.

  Lemma in_aset k v l e : In e (aset eqb k v l) -> In e l \/ e = (k, v).
  Proof.
    induction l as [|[k0 v0] r IH]; cbn [aset In]; intros H.
    - destruct H as [H|[]]; right; symmetry; exact H.
    - destruct (eqb_spec k k0) as [E|E]; cbn [In] in H.
      + subst k0. destruct H as [H|H]; [right; symmetry; exact H | left; right; exact H].
      + destruct H as [H|H]; [left; left; exact H|].
        destruct (IH H) as [H'|H']; [left; right; exact H' | right; exact H'].
  Qed.

  Lemma in_adel k l e : In e (adel eqb k l) -> In e l.
  Proof.
    induction l as [|[k0 v0] r IH]; cbn [adel In]; intros H.
    - exact H.
    - destruct (eqb_spec k k0) as [E|E]; cbn [In] in H.
      + right; exact H.
      + destruct H as [H|H]; [left; exact H | right; exact (IH H)].
  Qed.

  Lemma afind_In k l v : afind eqb k l = Some v -> In (k, v) l.
  Proof.
    induction l as [|[k0 v0] r IH]; cbn [afind In]; intros H.
    - discriminate.
    - destruct (eqb_spec k k0) as [E|E].
      + left. injection H as <-. subst k0. reflexivity.
      + right. exact (IH H).
  Qed.

  Lemma In_afind k l v : NoDup (map fst l) -> In (k, v) l -> afind eqb k l = Some v.
  Proof.
    induction l as [|[k0 v0] r IH]; cbn [afind In map fst]; intros Hnd H.
    - contradiction.
    - inversion Hnd as [|x xs Hnin Hnd']; subst.
      destruct H as [H|H].
      + injection H as -> ->. destruct (eqb_spec k k) as [_|N]; [reflexivity | congruence].
      + destruct (eqb_spec k k0) as [E|E]; [|exact (IH Hnd' H)].
        subst k0. exfalso. apply Hnin. apply in_map_iff. exists (k, v). split; [reflexivity | exact H].
  Qed.

  Lemma afind_none_notin k l : afind eqb k l = None -> ~ In k (map fst l).
  Proof.
    induction l as [|[k0 v0] r IH]; cbn [afind In map fst]; intros H.
    - intros [].
    - destruct (eqb_spec k k0) as [E|E]; [discriminate|].
      intros [H'|H']; [congruence | exact (IH H H')].
  Qed.
End AListWf.

Lemma nodup_filter_fst {A B} (P : A * B -> bool) (l : list (A * B)) :
  NoDup (map fst l) -> NoDup (map fst (filter P l)).
Proof.
  induction l as [|x r IH]; cbn [filter map]; intros H; [constructor|].
  inversion H as [|y ys Hnin Hnd]; subst.
  destruct (P x); cbn [map]; [|exact (IH Hnd)].
  constructor; [|exact (IH Hnd)].
  intros Hin. apply Hnin. apply in_map_iff in Hin. destruct Hin as (e & Ee & He).
  apply filter_In in He. apply in_map_iff. exists e. split; [exact Ee | apply He].
Qed.

(** * Sums of non-negative summands. *)
Lemma sum_by_nonneg {X} (f : X -> Z) l : (forall x, In x l -> 0 <= f x) -> 0 <= sum_by f l.
Proof.
  induction l as [|x r IH]; intros H; [unfold sum_by; cbn [fold_right]; lia|].
  rewrite sum_by_cons. pose proof (H x (or_introl eq_refl)).
  assert (0 <= sum_by f r) by (apply IH; intros y Hy; apply H; right; exact Hy). lia.
Qed.

Lemma sum_by_ge {X} (f : X -> Z) l e :
  (forall x, In x l -> 0 <= f x) -> In e l -> f e <= sum_by f l.
Proof.
  induction l as [|x r IH]; intros H He; [contradiction|].
  rewrite sum_by_cons. pose proof (H x (or_introl eq_refl)) as Hx.
  assert (Hr : forall y, In y r -> 0 <= f y) by (intros y Hy; apply H; right; exact Hy).
  destruct He as [->|He].
  - pose proof (sum_by_nonneg f r Hr). lia.
  - pose proof (IH Hr He). lia.
Qed.

(** * Coins. *)
Lemma nonneg_forall cs : coins_nonneg cs = true <-> forall c, In c cs -> 0 <= snd c.
Proof.
  unfold coins_nonneg. rewrite forallb_forall.
  split; intros H c Hc; specialize (H c Hc); lia.
Qed.

Lemma amt_nonneg cs d : coins_nonneg cs = true -> 0 <= amt_of cs d.
Proof.
  unfold coins_nonneg. induction cs as [|c r IH]; cbn [forallb amt_of]; intros H; [lia|].
  apply andb_prop in H. destruct H as [H1 H2]. specialize (IH H2).
  destruct (fst c =? d); lia.
Qed.

Lemma pos_nonneg cs : coins_pos cs = true -> coins_nonneg cs = true.
Proof.
  unfold coins_pos, coins_nonneg. rewrite !forallb_forall.
  intros H c Hc. specialize (H c Hc). lia.
Qed.

Lemma nonneg_filter P cs : coins_nonneg cs = true -> coins_nonneg (filter P cs) = true.
Proof.
  rewrite !nonneg_forall. intros H c Hc. apply filter_In in Hc. apply H, Hc.
Qed.

Lemma coins_ok_nil : coins_ok [].
Proof. split; [constructor | reflexivity]. Qed.

Lemma coins_ok_trim cs : coins_ok cs -> coins_ok (coins_trim cs).
Proof.
  intros [H1 H2]. split; unfold coins_trim; [apply nodup_filter_fst, H1 | apply nonneg_filter, H2].
Qed.

Lemma keys_add1 d v cs d' : In d' (map fst (coins_add1 d v cs)) -> d' = d \/ In d' (map fst cs).
Proof.
  induction cs as [|c r IH]; cbn [coins_add1 map fst In]; intros H.
  - destruct H as [H|[]]; left; symmetry; exact H.
  - destruct (Z.eqb_spec (fst c) d) as [E|E]; cbn [map fst In] in H.
    + destruct H as [H|H]; [left; symmetry; exact H | right; right; exact H].
    + destruct H as [H|H]; [right; left; exact H|].
      destruct (IH H) as [H'|H']; [left; exact H' | right; right; exact H'].
Qed.

Lemma nodup_add1 d v cs : NoDup (map fst cs) -> NoDup (map fst (coins_add1 d v cs)).
Proof.
  induction cs as [|c r IH]; cbn [coins_add1 map fst]; intros H.
  - constructor; [intros [] | constructor].
  - inversion H as [|x xs Hnin Hnd]; subst.
    destruct (Z.eqb_spec (fst c) d) as [E|E]; cbn [map fst].
    + subst d. constructor; assumption.
    + constructor; [|exact (IH Hnd)].
      intros Hin. apply keys_add1 in Hin. destruct Hin as [Hin|Hin]; [congruence | contradiction].
Qed.

Lemma nonneg_add1 d v cs : coins_nonneg cs = true -> 0 <= v -> coins_nonneg (coins_add1 d v cs) = true.
Proof.
  unfold coins_nonneg. intros H Hv.
  induction cs as [|c r IH]; cbn [coins_add1 forallb snd].
  - lia.
  - cbn [forallb] in H. apply andb_prop in H. destruct H as [H1 H2].
    destruct (fst c =? d); cbn [forallb snd].
    + rewrite H2. lia.
    + rewrite (IH H2). lia.
Qed.

Lemma nodup_add b : forall a, NoDup (map fst a) -> NoDup (map fst (coins_add a b)).
Proof.
  unfold coins_add. induction b as [|c r IH]; intros a H; cbn [fold_left]; [exact H|].
  apply IH, nodup_add1, H.
Qed.

Lemma nonneg_add b : forall a,
  coins_nonneg a = true -> coins_nonneg b = true -> coins_nonneg (coins_add a b) = true.
Proof.
  unfold coins_add. induction b as [|c r IH]; intros a Ha Hb; cbn [fold_left]; [exact Ha|].
  unfold coins_nonneg in Hb. cbn [forallb] in Hb. apply andb_prop in Hb. destruct Hb as [H1 H2].
  apply IH; [apply nonneg_add1; [exact Ha | lia] | exact H2].
Qed.

Lemma coins_ok_add a b : coins_ok a -> coins_nonneg b = true -> coins_ok (coins_add a b).
Proof. intros [H1 H2] Hb. split; [apply nodup_add, H1 | apply nonneg_add; assumption]. Qed.

Lemma amt_of_nodup cs c : NoDup (map fst cs) -> In c cs -> amt_of cs (fst c) = snd c.
Proof.
  induction cs as [|c0 r IH]; cbn [map In amt_of]; intros Hnd H; [contradiction|].
  inversion Hnd as [|x xs Hnin Hnd']; subst.
  destruct H as [->|H].
  - rewrite Z.eqb_refl. rewrite amt_of_absent; [lia|].
    intros c' Hc' E. apply Hnin. apply in_map_iff. exists c'. split; assumption.
  - rewrite (IH Hnd' H).
    destruct (Z.eqb_spec (fst c0) (fst c)) as [E|E]; [|lia].
    exfalso. apply Hnin. apply in_map_iff. exists c. split; [symmetry; exact E | exact H].
Qed.

Lemma geb_le cur amount d :
  coins_nonneg cur = true -> coins_geb cur amount = true -> amt_of amount d <= amt_of cur d.
Proof.
  intros Hc Hg. unfold coins_geb in Hg. rewrite forallb_forall in Hg.
  destruct (in_dec Z.eq_dec d (map fst amount)) as [Hin|Hout].
  - apply in_map_iff in Hin. destruct Hin as (c & <- & Hc'). specialize (Hg c Hc'). lia.
  - rewrite (amt_of_absent amount d).
    + apply amt_nonneg, Hc.
    + intros c Hc' E. apply Hout. apply in_map_iff. exists c. split; assumption.
Qed.

Lemma coins_ok_sub cur amount :
  coins_ok cur -> coins_geb cur amount = true -> coins_ok (coins_sub cur amount).
Proof.
  intros [H1 H2] Hg.
  assert (Hnd : NoDup (map fst (coins_sub cur amount))).
  { unfold coins_sub, coins_trim. apply nodup_filter_fst, nodup_add, H1. }
  split; [exact Hnd|].
  apply nonneg_forall. intros c Hc.
  rewrite <- (amt_of_nodup _ c Hnd Hc), amt_of_sub.
  pose proof (geb_le cur amount (fst c) H2 Hg). lia.
Qed.

Lemma release_split_ok cur amount nr :
  coins_ok cur -> release_split cur amount = Some nr -> coins_ok (fst nr).
Proof.
  intros Hc. unfold release_split.
  destruct (negb (coins_nonneg amount)); [discriminate|].
  destruct (coins_is_zero cur); [discriminate|].
  destruct (negb (coins_is_zero amount)).
  - destruct (coins_geb cur amount) eqn:Eg; [|discriminate].
    intros H. injection H as <-. cbn [fst]. apply coins_ok_sub; assumption.
  - intros H. injection H as <-. cbn [fst]. apply coins_ok_nil.
Qed.

(** * Orders: the hold amount of a valid order, and of the unfilled part of a split, is
      non-negative. *)
Lemma order_valid_nonneg o : order_valid o = true -> coins_nonneg (order_hold o) = true.
Proof.
  unfold order_valid. intros H.
  apply andb_prop in H. destruct H as [H _].
  apply andb_prop in H. destruct H as [H HD].
  apply andb_prop in H. destruct H as [H _].
  apply andb_prop in H. destruct H as [HA HB].
  apply pos_nonneg in HD.
  unfold order_hold. destruct (o_ask o).
  - apply nonneg_forall. intros c [<-|Hc]; [lia|].
    apply filter_In in Hc. destruct Hc as [Hc _].
    rewrite nonneg_forall in HD. exact (HD c Hc).
  - apply nonneg_forall. intros c Hc. apply in_app_or in Hc. destruct Hc as [Hc|[<-|[]]]; [|lia].
    rewrite nonneg_forall in HD. exact (HD c Hc).
Qed.

Lemma quot_le v n a : 0 <= v -> 0 < n < a -> 0 <= v - Z.quot (v * n) a.
Proof.
  intros Hv Hn.
  assert (H0 : 0 <= v * n) by (apply Z.mul_nonneg_nonneg; lia).
  rewrite Z.quot_div_nonneg by lia.
  assert (H1 : v * n / a <= v).
  { apply Z.div_le_upper_bound; [lia|]. rewrite (Z.mul_comm a v).
    apply Z.mul_le_mono_nonneg_l; lia. }
  lia.
Qed.

Lemma split_nonneg o n f l :
  split_order o n = Some (f, l) -> coins_nonneg (order_hold o) = true ->
  coins_nonneg (order_hold l) = true.
Proof.
  unfold split_order. intros H.
  destruct (_ || _) eqn:E1 in H; [discriminate|].
  destruct (negb _) in H; [discriminate|].
  destruct (negb _) in H; [discriminate|].
  injection H as <- <-.
  apply orb_false_elim in E1. destruct E1 as [E1 _].
  apply orb_false_elim in E1. destruct E1 as [E1 E3].
  apply orb_false_elim in E1. destruct E1 as [E1 E2].
  assert (Hn : 0 < n < snd (o_assets o)) by lia. clear E1 E2 E3.
  unfold order_hold. cbn [o_ask o_assets o_price o_fees fst snd].
  destruct (o_ask o); intros Hnn; rewrite nonneg_forall in Hnn; apply nonneg_forall; intros c Hc.
  - destruct Hc as [<-|Hc]; [cbn [snd]; lia|].
    apply filter_In in Hc. destruct Hc as [Hc HP].
    unfold coins_trim in Hc. apply filter_In in Hc. destruct Hc as [Hc _].
    apply in_map_iff in Hc. destruct Hc as (f0 & <- & Hf0). cbn [fst snd] in HP |- *.
    apply quot_le; [|exact Hn]. apply Hnn. right. apply filter_In. split; assumption.
  - apply in_app_or in Hc. destruct Hc as [Hc|[<-|[]]].
    + unfold coins_trim in Hc. apply filter_In in Hc. destruct Hc as [Hc _].
      apply in_map_iff in Hc. destruct Hc as (f0 & <- & Hf0). cbn [snd].
      apply quot_le; [|exact Hn]. apply Hnn. apply in_or_app. left. exact Hf0.
    + cbn [snd]. apply quot_le; [|exact Hn]. apply Hnn. apply in_or_app. right. left. reflexivity.
Qed.

(** * States. *)
Lemma wf_same s s' : same_recs s s' -> wf s -> wf s'.
Proof.
  intros (A & _ & C & D). unfold wf, kv_ok, recs_ok. rewrite A, C, D. exact (fun H => H).
Qed.

Lemma wf_orders_aset s id o lid :
  wf s -> coins_nonneg (order_hold o) = true -> wf (set_orders s (aset Z.eqb id o (orders s)) lid).
Proof.
  intros ((K1 & K2 & K3) & (R1 & R2 & R3)) Ho.
  split; [split; [|split] | split; [|split]]; cbn [orders commits pays set_orders]; auto.
  - apply (nodup_aset Z.eqb Z.eqb_spec), K1.
  - intros e He. apply (in_aset Z.eqb Z.eqb_spec) in He. destruct He as [He| ->]; [auto | exact Ho].
Qed.

Lemma wf_orders_adel s id lid : wf s -> wf (set_orders s (adel Z.eqb id (orders s)) lid).
Proof.
  intros ((K1 & K2 & K3) & (R1 & R2 & R3)).
  split; [split; [|split] | split; [|split]]; cbn [orders commits pays set_orders]; auto.
  - apply (nodup_adel Z.eqb Z.eqb_spec), K1.
  - intros e He. apply (in_adel Z.eqb Z.eqb_spec) in He. auto.
Qed.

Lemma wf_pays_aset s k p :
  wf s -> coins_nonneg (p_samt p) = true -> wf (set_pays s (aset k2_eqb k p (pays s))).
Proof.
  intros ((K1 & K2 & K3) & (R1 & R2 & R3)) Hp.
  split; [split; [|split] | split; [|split]]; cbn [orders commits pays set_pays]; auto.
  - apply (nodup_aset k2_eqb k2_eqb_spec), K3.
  - intros e He. apply (in_aset k2_eqb k2_eqb_spec) in He. destruct He as [He| ->]; [auto | exact Hp].
Qed.

Lemma wf_pays_adel s k : wf s -> wf (set_pays s (adel k2_eqb k (pays s))).
Proof.
  intros ((K1 & K2 & K3) & (R1 & R2 & R3)).
  split; [split; [|split] | split; [|split]]; cbn [orders commits pays set_pays]; auto.
  - apply (nodup_adel k2_eqb k2_eqb_spec), K3.
  - intros e He. apply (in_adel k2_eqb k2_eqb_spec) in He. auto.
Qed.

Lemma wf_commits_cset s k v : wf s -> coins_ok v -> wf (set_commits s (cset k v (commits s))).
Proof.
  intros ((K1 & K2 & K3) & (R1 & R2 & R3)) Hv. unfold cset.
  split; [split; [|split] | split; [|split]]; cbn [orders commits pays set_commits]; auto.
  - destruct (coins_is_zero v);
      [apply (nodup_adel k2_eqb k2_eqb_spec), K2 | apply (nodup_aset k2_eqb k2_eqb_spec), K2].
  - intros e He. destruct (coins_is_zero v).
    + apply (in_adel k2_eqb k2_eqb_spec) in He. auto.
    + apply (in_aset k2_eqb k2_eqb_spec) in He. destruct He as [He| ->]; [auto|].
      cbn [snd]. apply coins_ok_trim, Hv.
Qed.

Lemma cget_ok s k : wf s -> coins_ok (cget k (commits s)).
Proof.
  intros (_ & (_ & R2 & _)). unfold cget.
  destruct (afind k2_eqb k (commits s)) as [v|] eqn:E; [|apply coins_ok_nil].
  apply (afind_In k2_eqb k2_eqb_spec) in E. exact (R2 _ E).
Qed.

Lemma order_nonneg s id o :
  wf s -> afind Z.eqb id (orders s) = Some o -> coins_nonneg (order_hold o) = true.
Proof.
  intros (_ & (R1 & _)) E. apply (afind_In Z.eqb Z.eqb_spec) in E. exact (R1 _ E).
Qed.

Lemma pay_nonneg s k p :
  wf s -> afind k2_eqb k (pays s) = Some p -> coins_nonneg (p_samt p) = true.
Proof.
  intros (_ & (_ & _ & R3)) E. apply (afind_In k2_eqb k2_eqb_spec) in E. exact (R3 _ E).
Qed.

(** * Every operation keeps [wf]. *)
Definition keeps (s s' : state) : Prop := wf s -> wf s'.

Lemma keeps_refl s : keeps s s.
Proof. exact (fun H => H). Qed.

Lemma keeps_trans a b c : keeps a b -> keeps b c -> keeps a c.
Proof. unfold keeps. auto. Qed.

Lemma keeps_same s s' : same_recs s s' -> keeps s s'.
Proof. exact (wf_same s s'). Qed.

Lemma keeps_bals s s' : only_bals s s' -> keeps s s'.
Proof. intros (H & _). exact (wf_same s s' H). Qed.

Lemma try_keeps f :
  (forall s s', f s = Some s' -> keeps s s') ->
  forall s s', try_or_skip f s = Some s' -> keeps s s'.
Proof.
  intros Hf s s' H. unfold try_or_skip in H. destruct (f s) as [s1|] eqn:E.
  - injection H as <-. apply Hf, E.
  - injection H as <-. apply keeps_refl.
Qed.

Lemma fold_keeps {X} (f : X -> state -> option state) :
  (forall x s s', f x s = Some s' -> keeps s s') ->
  forall l s s', fold_opt f l s = Some s' -> keeps s s'.
Proof. apply fold_opt_rel; [exact keeps_refl | exact keeps_trans]. Qed.

Lemma create_order_wf o cfee s s' : create_order o cfee s = Some s' -> wf s -> wf s'.
Proof.
  unfold create_order. destruct (order_valid o) eqn:Ev; cbn [negb]; [|discriminate].
  destruct (spend s (o_owner o) cfee) as [s1|] eqn:Es; cbn [obind]; [|discriminate].
  intros Ha W. apply spend_spec in Es. destruct Es as (Hr1 & _).
  apply add_hold_spec in Ha. destruct Ha as (Hr & _).
  apply (wf_same _ _ Hr). apply wf_orders_aset; [exact (wf_same _ _ Hr1 W)|].
  apply order_valid_nonneg, Ev.
Qed.

Lemma cancel_order_wf id s s' : cancel_order id s = Some s' -> wf s -> wf s'.
Proof.
  unfold cancel_order.
  destruct (afind Z.eqb id (orders s)) as [o|] eqn:Ef; cbn [obind]; [|discriminate].
  destruct (release_hold s (o_owner o) (order_hold o)) as [s1|] eqn:Er; cbn [obind]; [|discriminate].
  intros H W. injection H as <-. apply release_hold_spec in Er. destruct Er as (Hr & _).
  apply wf_orders_adel. exact (wf_same _ _ Hr W).
Qed.

Lemma cancel_order_by_wf signer priv id s s' :
  cancel_order_by signer priv id s = Some s' -> wf s -> wf s'.
Proof.
  unfold cancel_order_by.
  destruct (afind Z.eqb id (orders s)) as [o|]; cbn [obind]; [|discriminate].
  destruct (_ || _); [|discriminate]. apply cancel_order_wf.
Qed.

Lemma fill_partial_wf id n s s' : fill_partial id n s = Some s' -> wf s -> wf s'.
Proof.
  unfold fill_partial.
  destruct (afind Z.eqb id (orders s)) as [o|] eqn:Ef; cbn [obind]; [|discriminate].
  destruct (split_order o n) as [[f l]|] eqn:Esp; cbn [obind fst snd]; [|discriminate].
  destruct (release_hold s (o_owner o) (order_hold f)) as [s1|] eqn:Er; cbn [obind]; [|discriminate].
  intros H W. injection H as <-. apply release_hold_spec in Er. destruct Er as (Hr & _).
  apply wf_orders_aset; [exact (wf_same _ _ Hr W)|].
  eapply split_nonneg; [exact Esp|]. eapply order_nonneg; eassumption.
Qed.

Lemma settle_wf req fulls part xfers s s' : settle req fulls part xfers s = Some s' -> wf s -> wf s'.
Proof.
  unfold settle, fill_full. destruct (negb (nodupb req)); [discriminate|].
  destruct (negb (nodupb _)); [discriminate|].
  destruct (fold_opt cancel_order fulls s) as [s1|] eqn:E1; cbn [obind]; [|discriminate].
  assert (P1 : keeps s s1).
  { eapply fold_keeps; [|exact E1]. intros x t t' Hx. exact (cancel_order_wf x t t' Hx). }
  destruct part as [p|].
  - destruct (fill_partial (fst p) (snd p) s1) as [s2|] eqn:E2; cbn [obind]; [|discriminate].
    intros E3 W. apply apply_net_spec in E3. apply (keeps_bals _ _ E3).
    eapply fill_partial_wf; [exact E2|]. exact (P1 W).
  - cbn [obind]. intros E3 W. apply apply_net_spec in E3. apply (keeps_bals _ _ E3). exact (P1 W).
Qed.

Lemma add_commitment_wf m a amount s s' : add_commitment m a amount s = Some s' -> wf s -> wf s'.
Proof.
  unfold add_commitment. destruct (coins_is_zero amount).
  - intros H W. injection H as <-. exact W.
  - destruct (coins_nonneg amount) eqn:En; cbn [negb]; [|discriminate].
    destruct (add_hold s a amount) as [s1|] eqn:Ea; cbn [obind]; [|discriminate].
    intros H W. injection H as <-. apply add_hold_spec in Ea. destruct Ea as (Hr & _).
    pose proof (wf_same _ _ Hr W) as W1.
    apply wf_commits_cset; [exact W1|]. apply coins_ok_add; [apply cget_ok, W1 | exact En].
Qed.

Lemma commit_funds_wf m a amount cfee s s' : commit_funds m a amount cfee s = Some s' -> wf s -> wf s'.
Proof.
  unfold commit_funds. destruct (spend s a cfee) as [s1|] eqn:Es; cbn [obind]; [|discriminate].
  intros H W. apply spend_spec in Es. eapply add_commitment_wf; [exact H|].
  exact (keeps_bals _ _ Es W).
Qed.

Lemma release_commitment_wf m e s s' : release_commitment m e s = Some s' -> wf s -> wf s'.
Proof.
  unfold release_commitment.
  destruct (release_split (cget (m, fst e) (commits s)) (snd e)) as [nr|] eqn:Esp; cbn [obind]; [|discriminate].
  destruct (release_hold s (fst e) (snd nr)) as [s1|] eqn:Er; cbn [obind]; [|discriminate].
  intros H W. injection H as <-. apply release_hold_spec in Er. destruct Er as (Hr & _).
  apply wf_commits_cset; [exact (wf_same _ _ Hr W)|].
  eapply release_split_ok; [|exact Esp]. apply cget_ok, W.
Qed.

Lemma release_commitments_wf m es s s' : release_commitments m es s = Some s' -> wf s -> wf s'.
Proof.
  unfold release_commitments. intros H.
  eapply fold_keeps; [|exact H]. intros x t t' Hx. exact (release_commitment_wf m x t t' Hx).
Qed.

Lemma settle_commitments_wf m i o f s s' : settle_commitments m i o f s = Some s' -> wf s -> wf s'.
Proof.
  unfold settle_commitments. destruct (negb (_ && _ && _)); [discriminate|].
  destruct (negb (coins_eqb _ _)); [discriminate|].
  destruct (release_commitments m _ s) as [s1|] eqn:E1; cbn [obind]; [|discriminate].
  destruct (apply_net s1 _) as [s2|] eqn:E2; cbn [obind]; [|discriminate].
  intros E3 W. pose proof (release_commitments_wf _ _ _ _ E1 W) as W1. apply apply_net_spec in E2.
  eapply (fold_keeps (fun e => add_commitment m (fst e) (snd e))); [|exact E3|].
  - intros x t t' Hx. exact (add_commitment_wf m (fst x) (snd x) t t' Hx).
  - exact (keeps_bals _ _ E2 W1).
Qed.

Lemma delete_release_wf k s s' : delete_release k s = Some s' -> wf s -> wf s'.
Proof.
  unfold delete_release.
  destruct (afind k2_eqb k (pays s)) as [p|] eqn:Ef; cbn [obind]; [|discriminate].
  destruct (release_hold s (fst k) (p_samt p)) as [s1|] eqn:Er; cbn [obind]; [|discriminate].
  intros H W. injection H as <-. apply release_hold_spec in Er. destruct Er as (Hr & _).
  apply wf_pays_adel. exact (wf_same _ _ Hr W).
Qed.

Lemma pay_create_wf src ext samt tamt target s s' :
  pay_create src ext samt tamt target s = Some s' -> wf s -> wf s'.
Proof.
  unfold pay_create. destruct (coins_pos samt) eqn:Ep; cbn [andb negb orb]; [|discriminate].
  destruct (_ || _); [discriminate|].
  destruct (afind k2_eqb (src, ext) (pays s)) as [p|] eqn:Ef; [discriminate|].
  intros Ha W. apply add_hold_spec in Ha. destruct Ha as (Hr & _).
  apply (wf_same _ _ Hr). apply wf_pays_aset; [exact W|]. cbn [p_samt]. apply pos_nonneg, Ep.
Qed.

Lemma pay_accept_wf src ext samt tamt target s s' :
  pay_accept src ext samt tamt target s = Some s' -> wf s -> wf s'.
Proof.
  unfold pay_accept. destruct (target =? 0); [discriminate|].
  destruct (afind k2_eqb (src, ext) (pays s)) as [p|] eqn:Ef; cbn [obind]; [|discriminate].
  destruct (negb _); [discriminate|].
  destruct (delete_release (src, ext) s) as [s1|] eqn:E1; cbn [obind]; [|discriminate].
  destruct (send s1 src target (p_samt p)) as [s2|] eqn:E2; cbn [obind]; [|discriminate].
  intros E3 W. apply send_spec in E3. apply send_spec in E2.
  apply (keeps_bals _ _ E3). apply (keeps_bals _ _ E2). eapply delete_release_wf; eassumption.
Qed.

Lemma pay_reject_wf target src ext s s' : pay_reject target src ext s = Some s' -> wf s -> wf s'.
Proof.
  unfold pay_reject. destruct (target =? 0); [discriminate|].
  destruct (afind k2_eqb (src, ext) (pays s)) as [p|] eqn:Ef; cbn [obind]; [|discriminate].
  destruct (_ || _); [discriminate|]. apply delete_release_wf.
Qed.

Lemma pay_reject_source_wf target src s s' : pay_reject_source target src s = Some s' -> wf s -> wf s'.
Proof.
  unfold pay_reject_source. destruct (map fst _) as [|k ks]; [discriminate|].
  intros H. eapply fold_keeps; [|exact H]. intros x t t' Hx. exact (delete_release_wf x t t' Hx).
Qed.

Lemma pay_reject_all_wf target srcs s s' : pay_reject_all target srcs s = Some s' -> wf s -> wf s'.
Proof.
  unfold pay_reject_all. destruct (target =? 0); [discriminate|].
  destruct srcs as [|x r]; [discriminate|].
  intros H. eapply fold_keeps; [|exact H]. intros y t t' Hy. exact (pay_reject_source_wf target y t t' Hy).
Qed.

Lemma pay_cancel_wf src exts s s' : pay_cancel src exts s = Some s' -> wf s -> wf s'.
Proof.
  unfold pay_cancel. destruct exts as [|x r]; [discriminate|].
  intros H. eapply (fold_keeps (fun ext => delete_release (src, ext))); [|exact H].
  intros y t t' Hy. exact (delete_release_wf (src, y) t t' Hy).
Qed.

Lemma pay_retarget_wf src ext newt s s' : pay_retarget src ext newt s = Some s' -> wf s -> wf s'.
Proof.
  unfold pay_retarget.
  destruct (afind k2_eqb (src, ext) (pays s)) as [p|] eqn:Ef; cbn [obind]; [|discriminate].
  destruct (p_target p =? newt); [discriminate|]. intros H W. injection H as <-.
  apply wf_pays_aset; [exact W|]. cbn [p_samt]. eapply pay_nonneg; eassumption.
Qed.

Lemma close_market_wf m s s' : close_market m s = Some s' -> wf s -> wf s'.
Proof.
  unfold close_market.
  destruct (fold_opt _ _ s) as [s1|] eqn:E1; cbn [obind]; [|discriminate].
  intros E2 W.
  eapply (fold_keeps (fun a => try_or_skip (release_commitment m (a, [])))); [|exact E2|].
  - intros a t t' H. eapply try_keeps; [|exact H]. intros u u' Hu. exact (release_commitment_wf m _ u u' Hu).
  - eapply (fold_keeps (fun id => try_or_skip (cancel_order id))); [|exact E1|exact W].
    intros id t t' H. eapply try_keeps; [|exact H]. intros u u' Hu. exact (cancel_order_wf id u u' Hu).
Qed.

Lemma op_fun_wf o s s' : op_fun o s = Some s' -> wf s -> wf s'.
Proof.
  destruct o; cbn [op_fun].
  - apply create_order_wf.
  - apply cancel_order_by_wf.
  - apply settle_wf.
  - apply commit_funds_wf.
  - destruct entries as [|e r]; [discriminate|]. apply release_commitments_wf.
  - apply settle_commitments_wf.
  - apply pay_create_wf.
  - apply pay_accept_wf.
  - apply pay_reject_wf.
  - apply pay_reject_all_wf.
  - apply pay_cancel_wf.
  - apply pay_retarget_wf.
  - intros H W. injection H as <-. exact W.
  - intros H W. apply set_ext_id_same in H. subst s'. exact W.
  - intros H W. apply credit_spec in H. exact (keeps_bals _ _ H W).
  - intros H W. apply delegate_spec in H. exact (keeps_bals _ _ H W).
  - intros H W. apply set_time_spec in H. exact (keeps_bals _ _ H W).
  - apply close_market_wf.
Qed.

Lemma wf_step s o : wf s -> wf (fst (step s o)).
Proof.
  intros W. unfold step. destruct (op_adm o); [|exact W].
  destruct (op_fun o s) as [s'|] eqn:E; cbn [fst]; [|exact W].
  eapply op_fun_wf; eassumption.
Qed.

Lemma wf_run ops : forall s, wf s -> wf (run s ops).
Proof.
  unfold run. induction ops as [|o r IH]; intros s W; cbn [fold_left]; [exact W|].
  apply IH, wf_step, W.
Qed.

(** * Coverage is kept (the hold and the requirement move together). *)
Lemma pres_cover s s' : pres s s' -> ids_ok s -> cover s -> cover s' /\ ids_ok s'.
Proof.
  intros P Hok C. destruct (P Hok) as (Hok' & D & _). split; [|exact Hok'].
  intros a d. specialize (D a d). specialize (C a d). lia.
Qed.

Lemma cover_step s o : ids_ok s -> cover s -> cover (fst (step s o)).
Proof. intros Hok C. exact (proj1 (pres_cover _ _ (step_pres s o) Hok C)). Qed.

Lemma cover_run ops s : ids_ok s -> cover s -> cover (run s ops) /\ ids_ok (run s ops).
Proof. intros Hok C. exact (pres_cover _ _ (run_pres ops s) Hok C). Qed.

(** * A release of no more than what is on hold succeeds. *)
Lemma release_hold_succeeds : forall cs s a,
  coins_nonneg cs = true -> (forall d, amt_of cs d <= hold_of s a d) ->
  exists s', release_hold s a cs = Some s'.
Proof.
  induction cs as [|[d0 v] r IH]; intros s a Hnn Hle; cbn [release_hold fst snd].
  - exists s. reflexivity.
  - unfold coins_nonneg in Hnn. cbn [forallb snd] in Hnn. apply andb_prop in Hnn.
    destruct Hnn as [Hv Hr]. fold (coins_nonneg r) in Hr.
    destruct (Z.eqb_spec v 0) as [Ev|Ev].
    + apply IH; [exact Hr|]. intros d. specialize (Hle d). cbn [amt_of fst snd] in Hle.
      destruct (d0 =? d); lia.
    + assert (Hv' : (v <? 0) = false) by lia. rewrite Hv'.
      pose proof (Hle d0) as H0. cbn [amt_of fst snd] in H0. rewrite Z.eqb_refl in H0.
      pose proof (amt_nonneg r d0 Hr) as H1.
      assert (Hh : (hold_of s a d0 - v <? 0) = false) by lia. rewrite Hh.
      apply IH; [exact Hr|]. intros d. rewrite hold_of_aset. rewrite Z.eqb_refl. cbn [andb].
      specialize (Hle d). cbn [amt_of fst snd] in Hle.
      destruct (Z.eqb_spec d d0) as [E|E].
      * subst d. lia.
      * destruct (Z.eqb_spec d0 d) as [E'|E']; [congruence | lia].
Qed.

(** * Every record's reserved amount is at most what the records require. *)
Lemma order_req_nonneg s a d e : wf s -> In e (orders s) -> 0 <= order_req a d e.
Proof.
  intros (_ & (R1 & _)) He. unfold order_req.
  destruct (o_owner (snd e) =? a); [apply amt_nonneg, R1, He | lia].
Qed.

Lemma commit_req_nonneg s a d e : wf s -> In e (commits s) -> 0 <= commit_req a d e.
Proof.
  intros (_ & (_ & R2 & _)) He. unfold commit_req.
  destruct (snd (fst e) =? a); [apply amt_nonneg, (R2 e He) | lia].
Qed.

Lemma pay_req_nonneg s a d e : wf s -> In e (pays s) -> 0 <= pay_req a d e.
Proof.
  intros (_ & (_ & _ & R3)) He. unfold pay_req.
  destruct (fst (fst e) =? a); [apply amt_nonneg, R3, He | lia].
Qed.

Lemma required_parts_nonneg s a d :
  wf s ->
  0 <= sum_by (order_req a d) (orders s) /\ 0 <= sum_by (commit_req a d) (commits s) /\
  0 <= sum_by (pay_req a d) (pays s).
Proof.
  intros W. split; [|split]; apply sum_by_nonneg; intros e He.
  - eapply order_req_nonneg; eassumption.
  - eapply commit_req_nonneg; eassumption.
  - eapply pay_req_nonneg; eassumption.
Qed.

Lemma order_le_required s id o d :
  wf s -> afind Z.eqb id (orders s) = Some o -> amt_of (order_hold o) d <= required s (o_owner o) d.
Proof.
  intros W E. apply (afind_In Z.eqb Z.eqb_spec) in E.
  destruct (required_parts_nonneg s (o_owner o) d W) as (_ & H2 & H3).
  pose proof (sum_by_ge (order_req (o_owner o) d) (orders s) (id, o)
                (fun e He => order_req_nonneg s _ d e W He) E) as H1.
  unfold order_req in H1 at 1. cbn [snd] in H1. rewrite Z.eqb_refl in H1.
  unfold required. lia.
Qed.

Lemma commit_le_required s m a d : wf s -> amt_of (cget (m, a) (commits s)) d <= required s a d.
Proof.
  intros W. destruct (required_parts_nonneg s a d W) as (H1 & H2 & H3).
  unfold cget. destruct (afind k2_eqb (m, a) (commits s)) as [v|] eqn:E.
  - apply (afind_In k2_eqb k2_eqb_spec) in E.
    pose proof (sum_by_ge (commit_req a d) (commits s) ((m, a), v)
                  (fun e He => commit_req_nonneg s a d e W He) E) as H.
    unfold commit_req in H at 1. cbn [fst snd] in H. rewrite Z.eqb_refl in H.
    unfold required. lia.
  - cbn [amt_of]. unfold required. lia.
Qed.

Lemma pay_le_required s k p d :
  wf s -> afind k2_eqb k (pays s) = Some p -> amt_of (p_samt p) d <= required s (fst k) d.
Proof.
  intros W E. apply (afind_In k2_eqb k2_eqb_spec) in E.
  destruct (required_parts_nonneg s (fst k) d W) as (H1 & H2 & _).
  pose proof (sum_by_ge (pay_req (fst k) d) (pays s) (k, p)
                (fun e He => pay_req_nonneg s _ d e W He) E) as H.
  unfold pay_req in H at 1. cbn [fst snd] in H. rewrite Z.eqb_refl in H.
  unfold required. lia.
Qed.
