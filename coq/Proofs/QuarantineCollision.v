(** The record key of a single sender longer than 32 bytes is its first 32 bytes: two such senders
    with the same first 32 bytes share one record, and an Accept naming both releases it twice
    (property C07, known finding "quarantine-record-key-truncation-collision").  A concrete witness
    in [PV.Quarantine.Quarantine], evaluated by vm_compute; the harness replays the same history on
    the real code. *)
From Coq Require Import ZArith PArith List Bool.
From PV Require Import Quarantine.Quarantine Proofs.QuarantineProofs Proofs.QuarantineIndex Proofs.QuarantineSteps.
Import ListNotations.
Open Scope Z_scope.

(* holder 1; short accounts 2 (sender), 3 and 4 (receivers); two 40-byte senders with the same first 32 bytes *)
Definition cx_h : addr := 1%positive.
Definition cx_L1 : addr := 102001%positive.
Definition cx_L2 : addr := 102002%positive.
Definition cx_s0 : state :=
  empty_state (bal_of_list [(2%positive, 1%positive, 1000); (cx_L1, 1%positive, 1000); (cx_L2, 1%positive, 1000)]) [].
Definition cx_ops : list op :=
  [OOptIn 3%positive; OOptIn 4%positive;
   OSend 2%positive 4%positive [(1%positive, 500)];
   OSend cx_L1 3%positive [(1%positive, 100)];
   OSend cx_L2 3%positive [(1%positive, 30)]].

Lemma empty_good b x : good (empty_state b x).
Proof.
  split; [split; constructor|]. split; [|constructor]. intros k r Hk. discriminate.
Qed.

Lemma prefix_collision_refuted :
  good cx_s0 /\ covers cx_h cx_s0 /\ Forall (signer_ok cx_h) cx_ops /\ cx_L1 <> cx_L2 /\ trunc cx_L1 = trunc cx_L2 /\
  let s := run cx_h cx_s0 cx_ops in
  (* the 30 sent by L2 sit in the record whose only sender is L1 *)
  option_map all_froms (rget (3%positive, [trunc cx_L2]) (s_recs s)) = Some [cx_L1] /\
  old (3%positive, [trunc cx_L2]) (s_recs s) 1%positive = 130 /\
  (* accepting L2 alone is accepted and releases nothing *)
  snd (step cx_h s (OAccept 3%positive [cx_L2] false)) = Some [] /\
  s_recs (fst (step cx_h s (OAccept 3%positive [cx_L2] false))) = s_recs s /\
  (* accepting L1 and L2 together releases the one record twice: 260 instead of 130, out of the
     funds held for receiver 4, whose own accept then fails *)
  let s' := fst (step cx_h s (OAccept 3%positive [cx_L1; cx_L2] false)) in
  option_map (fun rel => amt rel 1%positive) (snd (step cx_h s (OAccept 3%positive [cx_L1; cx_L2] false))) = Some 260 /\
  rec_total (s_recs s) 1%positive - rec_total (s_recs s') 1%positive = 130 /\
  s_bal s' 3%positive 1%positive = s_bal s 3%positive 1%positive + 260 /\
  s_bal s' cx_h 1%positive = 370 /\ rec_total (s_recs s') 1%positive = 500 /\
  snd (step cx_h s' (OAccept 4%positive [2%positive] false)) = None.
Proof.
  split; [apply empty_good|].
  split; [intros d; unfold covers, cx_s0, empty_state, rec_total; cbn [s_recs fold_right s_bal bal_of_list];
          destruct (Pos.eqb cx_h 2 && Pos.eqb d 1), (Pos.eqb cx_h cx_L1 && Pos.eqb d 1), (Pos.eqb cx_h cx_L2 && Pos.eqb d 1);
          discriminate|].
  split; [repeat constructor; discriminate|]. split; [discriminate|]. split; [reflexivity|].
  cbn zeta. split; [vm_compute; reflexivity|]. split; [vm_compute; reflexivity|].
  split; [vm_compute; reflexivity|]. split; [vm_compute; reflexivity|].
  vm_compute. repeat split; discriminate.
Qed.
