(** C13 (markets listing): GetAllMarkets pages completely, and the SDK paginators with the maximum
    limit (2^64-1) return a whole listing in one page for the listings of reachable states. *)
From Coq Require Import ZArith NArith List Bool Lia Sorted.
From PV Require Import Exchange.KV Exchange.Index Exchange.Paging Exchange.Commit Proofs.KVProofs
  Proofs.IndexProofs Proofs.PagingProofs Proofs.PagingSdkProofs Proofs.CommitProofs Proofs.PagingMaxProofs.
Import ListNotations.
Open Scope N_scope.

Lemma known_keys_len4 : forall ops k v,
  In (k, v) (pstore (cs_kv (crun ops)) p_known) -> length k = 4%nat.
Proof.
  intros ops k v Hin.
  destruct (known_entry _ _ _ _ (crun_inv ops) Hin) as [_ [m [_ [-> _]]]].
  apply u32be_length.
Qed.

Lemma markets_all_hit : forall ops k v,
  In (k, v) (pstore (cs_kv (crun ops)) p_known) -> markets_hit k v = true.
Proof.
  intros ops k v Hin. unfold markets_hit. rewrite (known_keys_len4 ops k v Hin). reflexivity.
Qed.

Lemma markets_all_hits : forall ops reverse,
  let l := pstore (cs_kv (crun ops)) p_known in
  matching markets_hit l reverse 0 = if reverse then rev l else l.
Proof.
  intros ops reverse l. rewrite matching_eq. rewrite <- itlist0_eq.
  apply filter_all_true. intros [k v] Hin. apply in_itlist0 in Hin.
  unfold hitp. cbn [fst snd]. exact (markets_all_hit ops k v Hin).
Qed.

(** The items of the complete listing are the known markets. *)
Lemma markets_items : forall ops,
  flat_map (fun e => match u32_from_bz (fst e) with Some m => [m] | None => [] end)
           (pstore (cs_kv (crun ops)) p_known)
  = known_markets (cs_kv (crun ops)).
Proof. reflexivity. Qed.

Lemma paging_complete_markets : forall ops limit reverse fuel,
  let l := pstore (cs_kv (crun ops)) p_known in
  1 <= limit ->
  N.of_nat (length l) + limit + 1 < two64 ->
  (length l < fuel)%nat ->
  follow_keys (fun rq => sdk_filtered_paginate markets_hit l rq) fuel limit reverse []
    = Some (if reverse then rev l else l) /\
  follow_offsets (fun rq => sdk_filtered_paginate markets_hit l rq) fuel limit reverse 0
    = Some (if reverse then rev l else l) /\
  (exists items next,
     sdk_filtered_paginate markets_hit l
       {| pr_key := []; pr_offset := 0; pr_limit := limit; pr_count_total := true; pr_reverse := reverse |}
     = Some (items, {| ps_next := next; ps_total := N.of_nat (length l) |})) /\
  (forall e, In e l -> exists m, m < two32 /\ u32_from_bz (fst e) = Some m /\
                                 In m (known_markets (cs_kv (crun ops)))).
Proof.
  intros ops limit reverse fuel l HL Hb Hf.
  assert (Hs : sorted_keys l).
  { apply pstore_sorted. exact (proj1 (ci_KI _ _ (crun_inv ops))). }
  assert (Hne : forall k v, In (k, v) l -> k <> []).
  { intros k v Hin E. subst k. pose proof (known_keys_len4 ops [] v Hin) as H4. discriminate H4. }
  pose proof (sdk_filtered_paging_complete cval markets_hit l limit reverse fuel Hs Hne HL Hb Hf)
    as (H1 & H2 & H3).
  pose proof (markets_all_hits ops reverse) as Hm. cbv zeta in Hm. fold l in Hm.
  rewrite Hm in H1, H2, H3.
  assert (Hlen : length (if reverse then rev l else l) = length l)
    by (destruct reverse; [apply rev_length|reflexivity]).
  rewrite Hlen in H3. split; [exact H1|split; [exact H2|split; [exact H3|]]].
  intros [r v] Hin. cbn [fst].
  destruct (known_entry _ _ _ _ (crun_inv ops) Hin) as [_ [m [A [-> C]]]].
  exists m. split; [exact A|]. split; [apply u32_from_bz_u32be; exact A|].
  apply (known_iff _ _ m (crun_inv ops)). exact C.
Qed.

(** ---- the maximum limit on the SDK-paginated listings of reachable states ---- *)

(** GetAllMarkets and GetAllOrders (query.FilteredPaginate): every entry is a hit, so key = nil,
    offset = 0, limit = 2^64-1 returns the whole listing in one page. *)
Lemma max_limit_markets_one_page : forall ops ct reverse,
  let l := pstore (cs_kv (crun ops)) p_known in
  N.of_nat (length l) < u64max ->
  sdk_filtered_paginate markets_hit l (max_limit_req 0 ct reverse)
  = Some ((if reverse then rev l else l),
          {| ps_next := []; ps_total := if ct then N.of_nat (length l) else 0 |}).
Proof.
  intros ops ct reverse l Hn. apply sdk_filtered_max_limit_one_page; [exact Hn|].
  intros k v Hin. exact (markets_all_hit ops k v Hin).
Qed.

Lemma max_limit_all_orders_one_page : forall ops ct reverse,
  let l := pstore (run ops) p_all_orders in
  N.of_nat (length ops) < u64max ->
  N.of_nat (length l) < u64max ->
  sdk_filtered_paginate all_orders_hit l (max_limit_req 0 ct reverse)
  = Some ((if reverse then rev l else l),
          {| ps_next := []; ps_total := if ct then N.of_nat (length l) else 0 |}).
Proof.
  intros ops ct reverse l Hops Hn. apply sdk_filtered_max_limit_one_page; [exact Hn|].
  intros k v Hin. unfold all_orders_hit.
  rewrite (all_orders_keys_nonempty ops k v Hops Hin). reflexivity.
Qed.

Print Assumptions paging_complete_markets.
Print Assumptions max_limit_markets_one_page.
Print Assumptions max_limit_all_orders_one_page.
