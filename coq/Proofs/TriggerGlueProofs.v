(** History-level corollaries for C17 that combine the invariant (TriggerProofs), the queue lemmas
    (TriggerLiveProofs) and the detection lemmas (TriggerDetectProofs). *)
From Coq Require Import ZArith NArith List Bool Lia.
From PV Require Import Trigger.Trigger Proofs.TriggerDetectProofs Proofs.TriggerLiveProofs Proofs.TriggerProofs.
Import ListNotations.
Open Scope N_scope.

Lemma Inv_lim_ok s det disp : Inv s det disp -> L_lim_ok s.
Proof.
  intros HI e He. destruct HI as [_ _ Hf Hg _].
  assert (Hgood : good e).
  { apply Hg. destruct He as [He|He]; [left; exact He|right]. rewrite Hf. apply in_or_app. right. exact He. }
  destruct Hgood as [H _]. exact H.
Qed.

Lemma L_disp_of_eq outs : L_disp_of outs = disp_of outs.
Proof. reflexivity. Qed.

(** a queued trigger at position p is dispatched within the next p+1 blocks, whatever they contain *)
Theorem no_starvation_hist s0 bs s outs p e bs' s' outs' :
  wf_gen s0 -> run s0 bs = (s, outs) -> nth_error (queue s) p = Some e ->
  run s bs' = (s', outs') -> (p < length bs')%nat -> In e (disp_of outs').
Proof.
  intros Hw Hr Hn Hr' Hp. rewrite <- L_disp_of_eq.
  eapply no_starvation; [|exact Hn|exact Hr'|exact Hp].
  eapply Inv_lim_ok. eapply Inv_history; eassumption.
Qed.

(** the begin blocker takes exactly the longest prefix of the queue that fits MaximumActions and the gas cap *)
Theorem dispatch_exact_hist s b s' o :
  step s b = (s', o) ->
  let k := length (o_disp o) in
  let lims := map snd (queue s) in
  map fst (o_disp o) = firstn k (queue s) /\
  queue s' = skipn k (queue s) ++ o_det o /\
  (k <= MaximumActions)%nat /\ (k <= length (queue s))%nat /\
  L_sum (firstn k lims) <= MaximumQueueGas /\
  (k = MaximumActions \/ k = length (queue s) \/ MaximumQueueGas < L_sum (firstn (S k) lims)).
Proof.
  intros Hs. cbn zeta.
  pose proof (step_queue_shape _ _ _ _ Hs) as [Hq Hm].
  unfold step in Hs.
  destruct (dispatch MaximumActions (b_height b) (b_time b) 0 s (b_oracle b) (b_nest b)) as [s1 d] eqn:Hd.
  destruct (apply_txs (b_height b) (b_time b) s1 (b_txs b)) as [s2 r] eqn:Ht.
  inversion Hs; subst; clear Hs. cbn [o_disp o_det] in *.
  apply dispatch_prefix in Hd. destruct Hd as [_ [_ Hk]].
  pose proof (L_take_spec MaximumActions 0 (map snd (queue s))) as Hspec. cbn zeta in Hspec.
  rewrite <- Hk in Hspec. destruct Hspec as [A [B [C D]]].
  rewrite map_length in B. rewrite map_length in D.
  split; [exact Hm|]. split; [exact Hq|]. split; [exact A|]. split; [exact B|].
  split.
  - assert (H0 : 0 <= MaximumQueueGas) by (unfold MaximumQueueGas; lia). specialize (C H0). lia.
  - destruct D as [D|[D|D]]; [left; exact D|right; left; exact D|right; right; lia].
Qed.

(** exactly at its time, not a nanosecond before *)
Theorem time_boundary s0 bs s outs b s1 d s2 oks :
  wf_gen s0 -> TimeOk s0 -> run s0 bs = (s, outs) ->
  (forall b', In b' bs -> (0 <= b_time b')%Z) -> (0 <= b_time b)%Z ->
  dispatch MaximumActions (b_height b) (b_time b) 0 s (b_oracle b) (b_nest b) = (s1, d) ->
  apply_txs (b_height b) (b_time b) s1 (b_txs b) = (s2, oks) ->
  forall x v, In x (reg s2) -> t_event (fst x) = EvTime v ->
  ((b_time b = v - 1)%Z -> ~ In x (detect (b_height b) (b_time b) (b_events b) (reg s2))) /\
  ((b_time b = v)%Z -> In x (detect (b_height b) (b_time b) (b_events b) (reg s2))).
Proof.
  intros Hw Ht Hr Hb Hb0 Hd Hx x v Hin Hev.
  destruct (detection_exact _ _ _ _ _ _ _ _ _ Hw Ht Hr Hb Hb0 Hd Hx) as [He _].
  specialize (He x Hin). rewrite Hev in He. split.
  - intros Heq Hdet. apply He in Hdet. lia.
  - intros Heq. apply He. lia.
Qed.

Print Assumptions no_starvation_hist.
Print Assumptions dispatch_exact_hist.
Print Assumptions time_boundary.
