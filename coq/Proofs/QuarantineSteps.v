(** Sharp one-record specifications of accept / decline, the invariant [good] (well-formed,
    index-sound, non-negative record coins) and its preservation by every operation and history
    of [PV.Quarantine.Quarantine] (property C07). *)
From Coq Require Import ZArith PArith List Bool Lia ZifyBool Permutation.
From PV Require Import Quarantine.Quarantine Proofs.QuarantineProofs Proofs.QuarantineIndex.
Import ListNotations.
Open Scope Z_scope.

(** * Non-negative record coins *)
Definition coins_nn (kr : rkey * qrec) : Prop := forall d, 0 <= amt (q_coins (snd kr)) d.
Definition recs_nn (s : state) : Prop := Forall coins_nn (s_recs s).

Lemma nn_rdel k l : Forall coins_nn l -> Forall coins_nn (rdel k l).
Proof.
  intros H. apply Forall_forall. intros e He. apply In_rdel in He. rewrite Forall_forall in H. apply H, He.
Qed.

Lemma nn_rset k v l : Forall coins_nn l -> (forall d, 0 <= amt (q_coins v) d) -> Forall coins_nn (rset k v l).
Proof. intros H Hv. unfold aset. constructor; [exact Hv | apply nn_rdel, H]. Qed.

Lemma nn_rget l k r : Forall coins_nn l -> rget k l = Some r -> forall d, 0 <= amt (q_coins r) d.
Proof. intros H Hg. rewrite Forall_forall in H. apply (H (k, r)), rget_In, Hg. Qed.

Lemma rec_total_nn l d : Forall coins_nn l -> 0 <= rec_total l d.
Proof.
  induction 1 as [|x l Hx _ IH]; [cbn; lia|]. rewrite rec_total_cons. specialize (Hx d). lia.
Qed.

Lemma rec_total_ge l k r d : Forall coins_nn l -> rget k l = Some r -> amt (q_coins r) d <= rec_total l d.
Proof.
  induction 1 as [|x l Hx Hl IH]; cbn [aget]; [discriminate|]. rewrite rec_total_cons.
  destruct (rkey_eqb k (fst x)).
  - intros [= <-]. pose proof (rec_total_nn l d Hl). lia.
  - intros Hg. specialize (IH Hg). specialize (Hx d). lia.
Qed.

Lemma old_nn l k d : Forall coins_nn l -> 0 <= old k l d.
Proof. intros H. unfold old. destruct (rget k l) as [r|] eqn:E; [apply (nn_rget _ _ _ H E) | lia]. Qed.

(** * The invariant *)
Definition good (s : state) : Prop := wf s /\ idx_sound s /\ recs_nn s.

Lemma good_with_bal s b : good s -> good (with_bal s b).
Proof. intros H; exact H. Qed.

Lemma settings_auto_decline s s' to l : same_settings s s' -> is_auto_decline s' to l = is_auto_decline s to l.
Proof.
  intros H. unfold is_auto_decline. induction l as [|f l IH]; cbn [existsb]; [reflexivity|].
  rewrite IH, (settings_get_auto _ _ _ _ H). reflexivity.
Qed.

Lemma same_settings_refl s : same_settings s s.
Proof. split; reflexivity. Qed.

Lemma same_settings_trans s1 s2 s3 : same_settings s1 s2 -> same_settings s2 s3 -> same_settings s1 s3.
Proof. intros [A B] [C D]. split; congruence. Qed.

(** * AddQuarantinedCoins and one credit *)
Lemma add_quarantined_idx_sound s c to froms s' :
  wf s -> idx_sound s -> add_quarantined s c to froms = Some s' -> idx_sound s'.
Proof.
  intros Hw Hi. unfold add_quarantined. destruct froms as [|f0 fr]; [discriminate|].
  match goal with |- (if ?b then _ else _) = _ -> _ => destruct b end; [discriminate|].
  apply set_record_idx_sound; assumption.
Qed.

Lemma add_quarantined_xfer s c to froms s' : add_quarantined s c to froms = Some s' -> s_xfer s' = s_xfer s.
Proof.
  unfold add_quarantined. destruct froms as [|f0 fr]; [discriminate|].
  match goal with |- (if ?b then _ else _) = _ -> _ => destruct b end; [discriminate|].
  intros H. apply set_record_full in H. apply H.
Qed.

Section WithHolder.
Variable h : addr.

Lemma marker_ok_holder s c : marker_ok h s h c = true.
Proof.
  unfold marker_ok. apply forallb_forall. intros d _.
  destruct (aget Pos.eqb d (s_xfer s)); [|reflexivity]. rewrite Pos.eqb_refl. apply orb_true_r.
Qed.

Lemma credit_good s from to c s' :
  good s -> nonneg_coins c -> credit h (Some s) (from, to, c) = Some s' ->
  good s' /\ same_settings s s' /\ s_xfer s' = s_xfer s.
Proof.
  intros (Hw & Hi & Hn) Hc Hcr.
  destruct (credit_spec h _ _ _ _ _ Hw Hcr) as (Hw' & Hset & Hcase).
  assert (Hix : idx_sound s' /\ s_xfer s' = s_xfer s).
  { revert Hcr. unfold credit, restrict.
    destruct (marker_ok h s from c); cbn [negb]; [|discriminate].
    destruct (Pos.eqb from to || Pos.eqb from h); [intros [= <-]; split; [exact Hi | reflexivity]|].
    destruct (negb (is_optin s to) || is_auto_accept s to [from]); [intros [= <-]; split; [exact Hi | reflexivity]|].
    destruct (add_quarantined s c to [from]) as [s2|] eqn:Ea; [|discriminate].
    intros [= <-]. split.
    - apply idx_sound_with_bal. apply (add_quarantined_idx_sound _ _ _ _ _ Hw Hi Ea).
    - cbn [s_xfer with_bal]. apply (add_quarantined_xfer _ _ _ _ _ Ea). }
  destruct Hix as [Hi' Hx']. split; [|split; [exact Hset | exact Hx']].
  split; [exact Hw'|]. split; [exact Hi'|].
  destruct Hcase as [(_ & Hr & _)|(_ & _ & r' & Hr & Hcn)]; unfold recs_nn; rewrite Hr; [exact Hn|].
  apply nn_rset; [exact Hn|]. intros d. rewrite Hcn. pose proof (old_nn (s_recs s) (to, [trunc from]) d Hn). specialize (Hc d). lia.
Qed.

Lemma credits_good ts : forall s s',
  good s -> Forall (fun t : addr * addr * coins => nonneg_coins (snd t)) ts ->
  fold_left (credit h) ts (Some s) = Some s' ->
  good s' /\ same_settings s s' /\ s_xfer s' = s_xfer s.
Proof.
  induction ts as [|[[from to] c] ts IH]; intros s s' Hg Hnn; cbn [fold_left].
  - intros [= <-]. split; [exact Hg|]. split; [apply same_settings_refl | reflexivity].
  - destruct (credit h (Some s) (from, to, c)) as [s1|] eqn:E1; [|rewrite fold_credit_none; discriminate].
    inversion Hnn as [|? ? Hn1 Hn2]; subst. cbn [snd] in Hn1. intros Hf.
    destruct (credit_good _ _ _ _ _ Hg Hn1 E1) as (Hg1 & Hs1 & Hx1).
    destruct (IH _ _ Hg1 Hn2 Hf) as (Hg' & Hs' & Hx').
    split; [exact Hg'|]. split; [eapply same_settings_trans; eassumption | congruence].
Qed.

Lemma debits_good ins : forall s s',
  good s -> fold_left debit ins (Some s) = Some s' ->
  good s' /\ same_settings s s' /\ s_xfer s' = s_xfer s /\ s_recs s' = s_recs s.
Proof.
  induction ins as [|[a c] ins IH]; intros s s' Hg; cbn [fold_left].
  - intros [= <-]. split; [exact Hg|]. split; [apply same_settings_refl|]. split; reflexivity.
  - destruct (debit (Some s) (a, c)) as [s1|] eqn:E1; [|rewrite fold_debit_none; discriminate].
    apply debit_spec in E1. destruct E1 as [-> _]. intros Hf.
    destruct (IH _ _ (good_with_bal s _ Hg) Hf) as (A & B & C & D).
    split; [exact A|]. split; [exact B|]. split; [exact C | exact D].
Qed.

(** * One record of an accept *)
Definition acc_res (s : state) (to : addr) (froms : list addr) (r : qrec) : option qrec :=
  match accept_from r froms with
  | None => Some r
  | Some r' => if fully_accepted r' then None
               else Some (with_declined r' (is_auto_decline s to (q_unacc r')))
  end.
Definition acc_paid (froms : list addr) (r : qrec) : coins :=
  match accept_from r froms with
  | Some r' => if fully_accepted r' then q_coins r else []
  | None => []
  end.

Lemma key_of_record s k r r2 to :
  wf s -> rget k (s_recs s) = Some r -> fst k = to -> sfx_of (all_froms r2) = sfx_of (all_froms r) ->
  mk_key to (all_froms r2) = k.
Proof.
  intros Hw Hg Hto Hs. pose proof (wf_rget _ _ _ Hw Hg) as [Hk _]. cbn [fst snd] in Hk.
  unfold mk_key. rewrite Hs, <- Hk, <- Hto. destruct k; reflexivity.
Qed.

Lemma accept_one_step to froms si rel k r s1 rel1 :
  wf si -> rget k (s_recs si) = Some r -> fst k = to ->
  accept_one h to froms (Some (si, rel)) (k, r) = Some (s1, rel1) ->
  wf s1 /\ same_settings si s1 /\ s_xfer s1 = s_xfer si /\
  (idx_sound si -> idx_sound s1) /\ (recs_nn si -> recs_nn s1) /\
  (forall k', k' <> k -> rget k' (s_recs s1) = rget k' (s_recs si)) /\
  rget k (s_recs s1) = acc_res si to froms r /\
  rel1 = rel ++ acc_paid froms r /\
  (forall a d, s_bal s1 a d = bal_add (bal_sub (s_bal si) h (acc_paid froms r)) to (acc_paid froms r) a d) /\
  (to <> h -> forall d, slack h s1 d = slack h si d).
Proof.
  intros Hw Hg Hto. unfold accept_one, acc_res, acc_paid. cbn [snd].
  destruct (accept_from r froms) as [r1|] eqn:Eaf.
  2:{ intros [= <- <-]. split; [exact Hw|]. split; [apply same_settings_refl|]. split; [reflexivity|].
      split; [auto|]. split; [auto|]. split; [auto|]. split; [exact Hg|]. split; [symmetry; apply app_nil_r|].
      split; [|reflexivity]. intros a d. unfold bal_add, bal_sub. cbn [amt].
      destruct (Pos.eqb a to), (Pos.eqb a h); lia. }
  destruct (accept_from_spec _ _ _ Eaf) as (Hc1 & Hu1 & Hsort1).
  destruct (fully_accepted r1) eqn:Efa.
  - destruct (marker_ok h si h (q_coins r1) && can_pay (s_bal si) h (q_coins r1)); [|discriminate].
    destruct (set_record _ to r1) as [s2|] eqn:Esr; [|discriminate]. intros [= <- <-].
    assert (Hidx : idx_sound si -> idx_sound s2).
    { intros Hi. refine (set_record_idx_sound _ _ _ _ _ _ Esr); [exact Hw | exact Hi]. }
    apply set_record_full in Esr. rewrite Efa in Esr.
    rewrite (key_of_record si k r r1 to Hw Hg Hto Hsort1) in Esr.
    cbn [s_bal s_recs s_xfer with_bal] in Esr. destruct Esr as (Hb1 & Hset1 & Hx1 & Hr1 & _).
    split; [unfold wf; rewrite Hr1; apply wfl_rdel, Hw|].
    split; [exact Hset1|]. split; [exact Hx1|].
    split; [exact Hidx|].
    split; [intros Hn; unfold recs_nn; rewrite Hr1; apply nn_rdel, Hn|].
    split; [intros k' Hk'; rewrite Hr1, rget_rdel, rkey_eqb_neq by exact Hk'; reflexivity|].
    split; [rewrite Hr1, rget_rdel, rkey_eqb_refl; reflexivity|].
    split; [rewrite Hc1; reflexivity|].
    split; [intros a d; rewrite Hb1, Hc1; reflexivity|].
    intros Hth d. unfold slack. rewrite Hb1, Hr1, rec_total_rdel by apply Hw. unfold old. rewrite Hg, Hc1.
    unfold bal_add, bal_sub. rewrite Pos.eqb_refl. destruct (Pos.eqb_spec h to); [congruence | lia].
  - destruct (set_record si to _) as [s2|] eqn:Esr; [|discriminate]. intros [= <- <-].
    assert (Hidx : idx_sound si -> idx_sound s2).
    { intros Hi. exact (set_record_idx_sound _ _ _ _ Hw Hi Esr). }
    apply set_record_full in Esr.
    change (fully_accepted (with_declined r1 (is_auto_decline si to (q_unacc r1)))) with (fully_accepted r1) in Esr.
    rewrite Efa in Esr.
    rewrite (key_of_record si k r (with_declined r1 (is_auto_decline si to (q_unacc r1))) to Hw Hg Hto Hsort1) in Esr.
    destruct Esr as (Hb1 & Hset1 & Hx1 & Hr1 & _).
    assert (Hne : q_unacc r1 <> []) by (unfold fully_accepted in Efa; destruct (q_unacc r1); discriminate).
    pose proof (wf_rget _ _ _ Hw Hg) as [Hk0 _]. cbn [fst snd] in Hk0.
    split.
    { unfold wf. rewrite Hr1. apply wfl_rset; [exact Hw|]. split; cbn [fst snd].
      - change (all_froms (with_declined r1 (is_auto_decline si to (q_unacc r1)))) with (all_froms r1).
        rewrite Hsort1. exact Hk0.
      - exact Hne. }
    split; [exact Hset1|]. split; [exact Hx1|].
    split; [exact Hidx|].
    split.
    { intros Hn. unfold recs_nn. rewrite Hr1. apply nn_rset; [exact Hn|]. cbn [q_coins with_declined].
      rewrite Hc1. apply (nn_rget _ _ _ Hn Hg). }
    split; [intros k' Hk'; rewrite Hr1, rget_rset, rkey_eqb_neq by exact Hk'; reflexivity|].
    split; [rewrite Hr1, rget_rset, rkey_eqb_refl; reflexivity|].
    split; [symmetry; apply app_nil_r|].
    split.
    { intros a d. rewrite Hb1. unfold bal_add, bal_sub. cbn [amt]. destruct (Pos.eqb a to), (Pos.eqb a h); lia. }
    intros _ d. unfold slack. rewrite Hb1, Hr1, rec_total_rset by apply Hw. unfold old. rewrite Hg.
    cbn [q_coins with_declined]. rewrite Hc1. lia.
Qed.

Lemma can_pay_covered b a c : (forall d, amt c d <= b a d) -> can_pay b a c = true.
Proof. intros H. unfold can_pay. apply forallb_forall. intros d _. apply Z.leb_le, H. Qed.

Lemma accept_from_nonempty r froms r' : accept_from r froms = Some r' -> all_froms r' <> [].
Proof.
  unfold accept_from. destruct (filter (fun a => mem a froms) (q_unacc r)) as [|x fnd]; [discriminate|].
  intros [= <-]. unfold all_froms. cbn [q_unacc q_acc]. intros E. apply app_eq_nil in E. destruct E as [_ E].
  apply app_eq_nil in E. destruct E as [_ E]. discriminate.
Qed.

Lemma accept_one_total to froms si rel k r :
  wf si -> recs_nn si -> covers h si -> rget k (s_recs si) = Some r ->
  exists out, accept_one h to froms (Some (si, rel)) (k, r) = Some out.
Proof.
  intros Hw Hn Hc Hg. unfold accept_one. cbn [snd].
  destruct (accept_from r froms) as [r1|] eqn:Eaf; [|eexists; reflexivity].
  destruct (accept_from_spec _ _ _ Eaf) as (Hc1 & _ & Hsort1).
  assert (Hne : forall r2, all_froms r2 = all_froms r1 -> all_froms r2 <> []).
  { intros r2 E2 E. rewrite E2 in E. revert E. apply (accept_from_nonempty _ _ _ Eaf). }
  destruct (fully_accepted r1).
  - rewrite marker_ok_holder. cbn [andb]. rewrite can_pay_covered.
    + destruct (set_record_some (with_bal si (bal_add (bal_sub (s_bal si) h (q_coins r1)) to (q_coins r1))) to r1
                  (Hne r1 eq_refl)) as [s2 ->]. eexists; reflexivity.
    + intros d. rewrite Hc1. pose proof (rec_total_ge _ _ _ d Hn Hg). specialize (Hc d). lia.
  - destruct (set_record_some si to (with_declined r1 (is_auto_decline si to (q_unacc r1))) (Hne _ eq_refl)) as [s2 ->].
    eexists; reflexivity.
Qed.

(* what a list of records releases: the coins of those that become fully accepted *)
Definition paid_sum (froms : list addr) (rest : list (rkey * qrec)) (d : denom) : Z :=
  fold_right (fun kr acc => amt (acc_paid froms (snd kr)) d + acc) 0 rest.

(** the whole loop of AcceptQuarantinedFunds, given that it succeeds *)
Lemma accept_fold_sharp to froms s : forall rest si rel s' rel',
  NoDup (map fst rest) -> wf si -> same_settings s si ->
  (forall k r, In (k, r) rest -> fst k = to /\ rget k (s_recs si) = Some r) ->
  fold_left (accept_one h to froms) rest (Some (si, rel)) = Some (s', rel') ->
  wf s' /\ same_settings s s' /\ s_xfer s' = s_xfer si /\
  (idx_sound si -> idx_sound s') /\ (recs_nn si -> recs_nn s') /\
  (forall k, ~ In k (map fst rest) -> rget k (s_recs s') = rget k (s_recs si)) /\
  (forall k r, In (k, r) rest -> rget k (s_recs s') = acc_res s to froms r) /\
  (forall d, amt rel' d = amt rel d + paid_sum froms rest d).
Proof.
  induction rest as [|[k0 r0] rest IH]; intros si rel s' rel' Hnd Hw Hset Hrest; cbn [fold_left].
  - intros [= <- <-]. split; [exact Hw|]. split; [exact Hset|]. split; [reflexivity|].
    split; [auto|]. split; [auto|]. split; [auto|]. split; [intros k r []|]. intros d. cbn. lia.
  - inversion Hnd as [|? ? Hni Hnd']; subst. cbn [fst] in Hni.
    destruct (Hrest k0 r0 (or_introl eq_refl)) as (Hto & Hsi0).
    destruct (accept_one h to froms (Some (si, rel)) (k0, r0)) as [[s1 rel1]|] eqn:E1;
      [|rewrite fold_accept_none; discriminate].
    intros Hf.
    destruct (accept_one_step _ _ _ _ _ _ _ _ Hw Hsi0 Hto E1) as (Hw1 & Hs1 & Hx1 & Hi1 & Hn1 & Hfr1 & Hk1 & Hrel1 & _).
    assert (Hrest1 : forall k r, In (k, r) rest -> fst k = to /\ rget k (s_recs s1) = Some r).
    { intros k r Hin. destruct (Hrest k r (or_intror Hin)) as [A B]. split; [exact A|].
      rewrite Hfr1; [exact B|]. intros ->. apply Hni. apply in_map_iff. exists (k0, r). split; [reflexivity | exact Hin]. }
    destruct (IH _ _ _ _ Hnd' Hw1 (same_settings_trans _ _ _ Hset Hs1) Hrest1 Hf) as (Hw' & Hs' & Hx' & Hi' & Hn' & Hfr' & Hk' & Hrel').
    split; [exact Hw'|]. split; [exact Hs'|]. split; [congruence|].
    split; [auto|]. split; [auto|]. split; [|split].
    + intros k Hk. cbn [map fst In] in Hk. rewrite Hfr' by (intros Hin; apply Hk; right; exact Hin).
      apply Hfr1. intros ->. apply Hk. left. reflexivity.
    + intros k r [Hin|Hin].
      * injection Hin as <- <-. rewrite Hfr' by exact Hni. rewrite Hk1. unfold acc_res.
        destruct (accept_from r0 froms) as [r1|]; [|reflexivity]. destruct (fully_accepted r1); [reflexivity|].
        rewrite (settings_auto_decline _ _ _ _ Hset). reflexivity.
      * apply Hk', Hin.
    + intros d. rewrite Hrel', Hrel1, amt_app. cbn [paid_sum fold_right snd]. fold (paid_sum froms rest d). lia.
Qed.

Lemma acc_paid_nn l k r froms d : Forall coins_nn l -> rget k l = Some r -> 0 <= amt (acc_paid froms r) d.
Proof.
  intros Hn Hg. unfold acc_paid. destruct (accept_from r froms) as [r1|]; [|cbn; lia].
  destruct (fully_accepted r1); [apply (nn_rget _ _ _ Hn Hg) | cbn; lia].
Qed.

Lemma paid_sum_nn froms l rest d :
  Forall coins_nn l -> (forall k r, In (k, r) rest -> rget k l = Some r) -> 0 <= paid_sum froms rest d.
Proof.
  intros Hn. induction rest as [|[k1 r1] rest IH]; intros Hall; [cbn; lia|].
  cbn [paid_sum fold_right snd]. fold (paid_sum froms rest d).
  pose proof (acc_paid_nn l k1 r1 froms d Hn (Hall k1 r1 (or_introl eq_refl))).
  assert (0 <= paid_sum froms rest d); [|lia]. apply IH. intros k r Hin. apply Hall. right. exact Hin.
Qed.

Lemma paid_sum_ge froms l rest k r d :
  Forall coins_nn l -> (forall k r, In (k, r) rest -> rget k l = Some r) -> In (k, r) rest ->
  amt (acc_paid froms r) d <= paid_sum froms rest d.
Proof.
  intros Hn. induction rest as [|[k0 r0] rest IH]; intros Hall Hin; [destruct Hin|].
  cbn [paid_sum fold_right snd]. fold (paid_sum froms rest d).
  assert (Hrest : forall k r, In (k, r) rest -> rget k l = Some r) by (intros k' r' Hi; apply Hall; right; exact Hi).
  pose proof (paid_sum_nn froms l rest d Hn Hrest) as H0.
  destruct Hin as [Hin|Hin].
  - injection Hin as <- <-. lia.
  - pose proof (acc_paid_nn l k0 r0 froms d Hn (Hall k0 r0 (or_introl eq_refl))). specialize (IH Hrest Hin). lia.
Qed.

(** ... and that it cannot fail when the holder covers the records *)
Lemma accept_fold_total to froms : to <> h -> forall rest si rel,
  NoDup (map fst rest) -> wf si -> recs_nn si -> covers h si ->
  (forall k r, In (k, r) rest -> fst k = to /\ rget k (s_recs si) = Some r) ->
  exists s' rel', fold_left (accept_one h to froms) rest (Some (si, rel)) = Some (s', rel').
Proof.
  intros Hth. induction rest as [|[k0 r0] rest IH]; intros si rel Hnd Hw Hn Hc Hrest; cbn [fold_left].
  - eexists; eexists; reflexivity.
  - inversion Hnd as [|? ? Hni Hnd']; subst. cbn [fst] in Hni.
    destruct (Hrest k0 r0 (or_introl eq_refl)) as (Hto & Hsi0).
    destruct (accept_one_total to froms si rel k0 r0 Hw Hn Hc Hsi0) as [[s1 rel1] E1].
    destruct (accept_one_step _ _ _ _ _ _ _ _ Hw Hsi0 Hto E1) as (Hw1 & _ & _ & _ & Hn1 & Hfr1 & _ & _ & _ & Hsl).
    enough (Hex : exists s' rel', fold_left (accept_one h to froms) rest (Some (s1, rel1)) = Some (s', rel')).
    { destruct Hex as (s' & rel' & Ef). exists s', rel'. rewrite <- Ef. f_equal. exact E1. }
    apply IH; [exact Hnd' | exact Hw1 | apply Hn1, Hn | |].
    + intros d. specialize (Hsl Hth d). specialize (Hc d). unfold slack in Hsl. lia.
    + intros k r Hin. destruct (Hrest k r (or_intror Hin)) as [A B]. split; [exact A|].
      rewrite Hfr1; [exact B|]. intros ->. apply Hni. apply in_map_iff. exists (k0, r). split; [reflexivity | exact Hin].
Qed.

End WithHolder.

(** * One record of a decline *)
Definition dec_res (froms : list addr) (r : qrec) : qrec :=
  match decline_from r froms with Some r' => r' | None => r end.

Lemma decline_one_step to froms si k r :
  wf si -> rget k (s_recs si) = Some r -> fst k = to ->
  exists s1, decline_one to froms (Some si) (k, r) = Some s1 /\
  wf s1 /\ s_bal s1 = s_bal si /\ same_settings si s1 /\ s_xfer s1 = s_xfer si /\
  (idx_sound si -> idx_sound s1) /\ (recs_nn si -> recs_nn s1) /\
  (forall k', k' <> k -> rget k' (s_recs s1) = rget k' (s_recs si)) /\
  rget k (s_recs s1) = Some (dec_res froms r).
Proof.
  intros Hw Hg Hto. unfold decline_one, dec_res. cbn [snd].
  destruct (decline_from r froms) as [r1|] eqn:Ed.
  2:{ exists si. split; [reflexivity|]. split; [exact Hw|]. split; [reflexivity|]. split; [apply same_settings_refl|].
      split; [reflexivity|]. split; [auto|]. split; [auto|]. split; [auto | exact Hg]. }
  destruct (decline_from_spec _ _ _ Ed) as (Hc & Hne & Hsort).
  pose proof (wf_rget _ _ _ Hw Hg) as [Hk0 Hun0]. cbn [fst snd] in Hk0, Hun0. specialize (Hne Hun0).
  assert (Hnf : all_froms r1 <> []).
  { unfold all_froms. intros E. apply app_eq_nil in E. apply Hne, E. }
  destruct (set_record_some si to r1 Hnf) as [s1 Esr]. exists s1. split; [exact Esr|].
  assert (Hidx : idx_sound si -> idx_sound s1).
  { intros Hi. exact (set_record_idx_sound _ _ _ _ Hw Hi Esr). }
  apply set_record_full in Esr.
  assert (Efa : fully_accepted r1 = false) by (unfold fully_accepted; destruct (q_unacc r1); [contradiction | reflexivity]).
  rewrite Efa in Esr. rewrite (key_of_record si k r r1 to Hw Hg Hto Hsort) in Esr.
  destruct Esr as (Hb1 & Hset1 & Hx1 & Hr1 & _).
  split.
  { unfold wf. rewrite Hr1. apply wfl_rset; [exact Hw|]. split; cbn [fst snd]; [rewrite Hsort; exact Hk0 | exact Hne]. }
  split; [exact Hb1|]. split; [exact Hset1|]. split; [exact Hx1|].
  split; [exact Hidx|].
  split.
  { intros Hn. unfold recs_nn. rewrite Hr1. apply nn_rset; [exact Hn|]. rewrite Hc. apply (nn_rget _ _ _ Hn Hg). }
  split; [intros k' Hk'; rewrite Hr1, rget_rset, rkey_eqb_neq by exact Hk'; reflexivity|].
  rewrite Hr1, rget_rset, rkey_eqb_refl. reflexivity.
Qed.

Lemma decline_fold_sharp to froms : forall rest si,
  NoDup (map fst rest) -> wf si ->
  (forall k r, In (k, r) rest -> fst k = to /\ rget k (s_recs si) = Some r) ->
  exists s', fold_left (decline_one to froms) rest (Some si) = Some s' /\
  wf s' /\ s_bal s' = s_bal si /\ same_settings si s' /\ s_xfer s' = s_xfer si /\
  (idx_sound si -> idx_sound s') /\ (recs_nn si -> recs_nn s') /\
  (forall k, ~ In k (map fst rest) -> rget k (s_recs s') = rget k (s_recs si)) /\
  (forall k r, In (k, r) rest -> rget k (s_recs s') = Some (dec_res froms r)).
Proof.
  induction rest as [|[k0 r0] rest IH]; intros si Hnd Hw Hrest; cbn [fold_left].
  - exists si. split; [reflexivity|]. split; [exact Hw|]. split; [reflexivity|]. split; [apply same_settings_refl|].
    split; [reflexivity|]. split; [auto|]. split; [auto|]. split; [auto|]. intros k r [].
  - inversion Hnd as [|? ? Hni Hnd']; subst. cbn [fst] in Hni.
    destruct (Hrest k0 r0 (or_introl eq_refl)) as (Hto & Hsi0).
    destruct (decline_one_step to froms si k0 r0 Hw Hsi0 Hto) as (s1 & E1 & Hw1 & Hb1 & Hs1 & Hx1 & Hi1 & Hn1 & Hfr1 & Hk1).
    assert (Hrest1 : forall k r, In (k, r) rest -> fst k = to /\ rget k (s_recs s1) = Some r).
    { intros k r Hin. destruct (Hrest k r (or_intror Hin)) as [A B]. split; [exact A|].
      rewrite Hfr1; [exact B|]. intros ->. apply Hni. apply in_map_iff. exists (k0, r). split; [reflexivity | exact Hin]. }
    destruct (IH s1 Hnd' Hw1 Hrest1) as (s' & Ef & Hw' & Hb' & Hs' & Hx' & Hi' & Hn' & Hfr' & Hk').
    exists s'. split; [rewrite <- Ef; f_equal; exact E1|]. split; [exact Hw'|]. split; [congruence|].
    split; [eapply same_settings_trans; eassumption|]. split; [congruence|].
    split; [auto|]. split; [auto|]. split.
    + intros k Hk. cbn [map fst In] in Hk. rewrite Hfr' by (intros Hin; apply Hk; right; exact Hin).
      apply Hfr1. intros ->. apply Hk. left. reflexivity.
    + intros k r [Hin|Hin].
      * injection Hin as <- <-. rewrite Hfr' by exact Hni. exact Hk1.
      * apply Hk', Hin.
Qed.

(** * Whole operations *)
Lemma set_auto_frame s to f r :
  s_recs (set_auto s to f r) = s_recs s /\ s_idx (set_auto s to f r) = s_idx s /\
  s_bal (set_auto s to f r) = s_bal s /\ s_xfer (set_auto s to f r) = s_xfer s.
Proof. unfold set_auto. destruct r; cbn; auto. Qed.

Lemma fold_set_auto_frame {A} (g : A -> addr) (v : A -> auto) to l : forall s,
  let s' := fold_left (fun s x => set_auto s to (g x) (v x)) l s in
  s_recs s' = s_recs s /\ s_idx s' = s_idx s /\ s_bal s' = s_bal s /\ s_xfer s' = s_xfer s.
Proof.
  induction l as [|x l IH]; intros s; cbn [fold_left]; [auto|].
  specialize (IH (set_auto s to (g x) (v x))). cbn zeta in IH.
  destruct IH as (A1 & B1 & C1 & D1). destruct (set_auto_frame s to (g x) (v x)) as (A2 & B2 & C2 & D2).
  repeat split; congruence.
Qed.

Lemma good_frame s s' : s_recs s' = s_recs s -> s_idx s' = s_idx s -> good s -> good s'.
Proof. intros A B. unfold good, wf, idx_sound, recs_nn. rewrite A, B. tauto. Qed.

Section Ops.
Variable h : addr.

(** what an accepted Accept does to each record (sharp form) *)
Lemma accept_sharp s to froms perm s' rel :
  wf s -> inj_named froms -> accept h s to froms perm = Some (s', rel) ->
  wf s' /\ s_xfer s' = s_xfer s /\ (idx_sound s -> idx_sound s') /\ (recs_nn s -> recs_nn s') /\
  (forall k, ~ In k (map fst (get_records s to froms)) -> rget k (s_recs s') = rget k (s_recs s)) /\
  (forall k r, In (k, r) (get_records s to froms) -> rget k (s_recs s') = acc_res s to froms r) /\
  (forall d, amt rel d = paid_sum froms (get_records s to froms) d).
Proof.
  intros Hw Hinj. unfold accept. destruct froms as [|f0 fr] eqn:Ef; [discriminate|]. rewrite <- Ef in *.
  destruct (fold_left _ _ _) as [[s1 rel1]|] eqn:Efold; [|discriminate]. intros [= <- <-].
  destruct (get_records_spec s to froms Hinj) as [Hnd Hrs].
  destruct (accept_fold_sharp h to froms s _ _ _ _ _ Hnd Hw (same_settings_refl s) Hrs Efold)
    as (Hw1 & _ & Hx1 & Hi1 & Hn1 & Hfr1 & Hk1 & Hrel1).
  set (sf := if perm then _ else s1).
  assert (Hk : s_recs sf = s_recs s1 /\ s_idx sf = s_idx s1 /\ s_bal sf = s_bal s1 /\ s_xfer sf = s_xfer s1).
  { unfold sf. destruct perm; [|auto].
    apply (fold_set_auto_frame (fun f : addr => f) (fun _ => AAccept) to froms s1). }
  destruct Hk as (A & B & _ & D). unfold wf, idx_sound, recs_nn in *. rewrite A, B, D.
  split; [exact Hw1|]. split; [exact Hx1|]. split; [exact Hi1|]. split; [exact Hn1|]. split; [exact Hfr1|].
  split; [exact Hk1|]. intros d. rewrite Hrel1. cbn [amt]. lia.
Qed.

(** what a Decline does to each record (it never fails on a non-empty sender list) *)
Lemma decline_sharp s to froms perm :
  wf s -> inj_named froms -> froms <> [] ->
  exists s', decline s to froms perm = Some s' /\
  wf s' /\ s_bal s' = s_bal s /\ s_xfer s' = s_xfer s /\ (idx_sound s -> idx_sound s') /\ (recs_nn s -> recs_nn s') /\
  (forall k, ~ In k (map fst (get_records s to froms)) -> rget k (s_recs s') = rget k (s_recs s)) /\
  (forall k r, In (k, r) (get_records s to froms) -> rget k (s_recs s') = Some (dec_res froms r)).
Proof.
  intros Hw Hinj Hne. unfold decline. destruct froms as [|f0 fr] eqn:Ef; [contradiction|]. rewrite <- Ef in *.
  destruct (get_records_spec s to froms Hinj) as [Hnd Hrs].
  destruct (decline_fold_sharp to froms _ s Hnd Hw Hrs) as (s1 & Efold & Hw1 & Hb1 & _ & Hx1 & Hi1 & Hn1 & Hfr1 & Hk1).
  rewrite Efold. eexists. split; [reflexivity|].
  set (sf := if perm then _ else s1).
  assert (Hk : s_recs sf = s_recs s1 /\ s_idx sf = s_idx s1 /\ s_bal sf = s_bal s1 /\ s_xfer sf = s_xfer s1).
  { unfold sf. destruct perm; [|auto].
    apply (fold_set_auto_frame (fun f : addr => f) (fun _ => ADecline) to froms s1). }
  destruct Hk as (A & B & C & D). unfold wf, idx_sound, recs_nn in *. rewrite A, B, C, D.
  split; [exact Hw1|]. split; [exact Hb1|]. split; [exact Hx1|]. split; [exact Hi1|]. split; [exact Hn1|].
  split; [exact Hfr1 | exact Hk1].
Qed.

Lemma step_good s o s' res : good s -> named_ok o -> step h s o = (s', res) -> good s' /\ s_xfer s' = s_xfer s.
Proof.
  intros Hg Hno. destruct o as [a|a|from to c|from inc outs|ins to|to froms perm|to froms perm|to ups]; cbn [step].
  - intros [= <- _]. unfold opt_in. destruct (is_optin s a); split; try exact Hg; reflexivity.
  - intros [= <- _]. split; [exact Hg | reflexivity].
  - unfold lift. destruct (send h s from to c) as [s1|] eqn:E; intros [= <- _]; [|split; [exact Hg | reflexivity]].
    unfold send in E. destruct (coins_valid c) eqn:Ev; [|discriminate].
    destruct (debit (Some s) (from, c)) as [s0|] eqn:Ed; [|discriminate].
    apply debit_spec in Ed. destruct Ed as [-> _].
    destruct (credit_good h _ _ _ _ _ (good_with_bal s _ Hg) (fun d => coins_valid_nonneg c d Ev) E) as (A & _ & C).
    split; [exact A | exact C].
  - unfold lift. destruct (multi_send h s from inc outs) as [s1|] eqn:E; intros [= <- _]; [|split; [exact Hg | reflexivity]].
    unfold multi_send in E. destruct outs as [|o0 outs0] eqn:Eo; [discriminate|]. rewrite <- Eo in *.
    destruct (coins_valid inc && _ && _) eqn:Ev; [|discriminate].
    apply andb_true_iff in Ev. destruct Ev as [Ev _]. apply andb_true_iff in Ev. destruct Ev as [_ Ev].
    destruct (debit (Some s) (from, inc)) as [s0|] eqn:Ed; [|rewrite fold_credit_none in E; discriminate].
    apply debit_spec in Ed. destruct Ed as [-> _].
    assert (Hn : Forall (fun t : addr * addr * coins => nonneg_coins (snd t)) (map (fun o => (from, fst o, snd o)) outs)).
    { apply Forall_map. cbn [snd]. apply (valid_all_nonneg (fun o : addr * coins => snd o)), Ev. }
    destruct (credits_good h _ _ _ (good_with_bal s _ Hg) Hn E) as (A & _ & C). split; [exact A | exact C].
  - unfold lift. destruct (multi_in h s ins to) as [s1|] eqn:E; intros [= <- _]; [|split; [exact Hg | reflexivity]].
    unfold multi_in in E. destruct ins as [|i0 ins0] eqn:Ei; [discriminate|]. rewrite <- Ei in *.
    destruct (forallb _ ins) eqn:Ev; [|discriminate].
    destruct (fold_left debit ins (Some s)) as [s0|] eqn:Ed; [|rewrite fold_credit_none in E; discriminate].
    destruct (debits_good _ _ _ Hg Ed) as (Hg0 & _ & Hx0 & _).
    assert (Hn : Forall (fun t : addr * addr * coins => nonneg_coins (snd t)) (map (fun i => (fst i, to, snd i)) ins)).
    { apply Forall_map. cbn [snd]. apply (valid_all_nonneg (fun o : addr * coins => snd o)), Ev. }
    destruct (credits_good h _ _ _ Hg0 Hn E) as (A & _ & C). split; [exact A | congruence].
  - destruct (accept h s to froms perm) as [[s1 rel]|] eqn:E; intros [= <- _]; [|split; [exact Hg | reflexivity]].
    destruct Hg as (Hw & Hi & Hn). destruct (accept_sharp _ _ _ _ _ _ Hw Hno E) as (A & B & C & D & _).
    split; [split; [exact A | split; [apply C, Hi | apply D, Hn]] | exact B].
  - unfold lift. destruct froms as [|f0 fr] eqn:Ef.
    + cbn [decline]. intros [= <- _]. split; [exact Hg | reflexivity].
    + rewrite <- Ef in *. destruct Hg as (Hw & Hi & Hn).
      destruct (decline_sharp s to froms perm Hw Hno) as (s1 & E & A & _ & B & C & D & _); [rewrite Ef; discriminate|].
      rewrite E. intros [= <- _]. split; [split; [exact A | split; [apply C, Hi | apply D, Hn]] | exact B].
  - unfold lift. destruct (update_auto s to ups) as [s1|] eqn:E; intros [= <- _]; [|split; [exact Hg | reflexivity]].
    unfold update_auto in E. destruct ups as [|u0 ups0] eqn:Eu; [discriminate|]. rewrite <- Eu in *.
    destruct (forallb _ ups); [|discriminate]. injection E as <-.
    pose proof (fold_set_auto_frame (fun u : addr * auto => fst u) (fun u => snd u) to ups s) as Hk. cbn zeta in Hk.
    destruct Hk as (A & B & _ & D). split; [exact (good_frame _ _ A B Hg) | exact D].
Qed.

Lemma run_good ops : forall s, good s -> Forall named_ok ops -> good (run h s ops) /\ s_xfer (run h s ops) = s_xfer s.
Proof.
  induction ops as [|o ops IH]; intros s Hg Hno; cbn [run fold_left]; [split; [exact Hg | reflexivity]|].
  inversion Hno as [|? ? Hn1 Hn2]; subst.
  destruct (step h s o) as [s1 res] eqn:E. cbn [fst]. fold (run h s1 ops).
  destruct (step_good _ _ _ _ Hg Hn1 E) as [Hg1 Hx1]. destruct (IH s1 Hg1 Hn2) as [A B]. split; [exact A | congruence].
Qed.

(** C07_suffix_index_sound *)
Lemma suffix_index_sound : forall s0 ops,
  wf s0 -> idx_sound s0 -> recs_nn s0 -> Forall named_ok ops ->
  let s := run h s0 ops in
  idx_sound s /\
  forall k r f froms, rget k (s_recs s) = Some r -> In f (all_froms r) -> In f froms ->
    In (k, r) (get_records s (fst k) froms).
Proof.
  intros s0 ops Hw Hi Hn Hno. cbn zeta.
  destruct (run_good ops s0 (conj Hw (conj Hi Hn)) Hno) as [(Hw' & Hi' & _) _].
  split; [exact Hi'|]. intros k r f froms Hg Hf Hfr. apply (get_records_complete _ _ _ _ _ Hw' Hi' Hg Hf Hfr).
Qed.

End Ops.

(** * Genesis produces an index-sound state *)
Lemma fold_opt_in_frame l : forall s,
  s_recs (fold_left opt_in l s) = s_recs s /\ s_idx (fold_left opt_in l s) = s_idx s.
Proof.
  induction l as [|a l IH]; intros s; cbn [fold_left]; [auto|].
  destruct (IH (opt_in s a)) as [A B]. rewrite A, B. unfold opt_in. destruct (is_optin s a); auto.
Qed.
