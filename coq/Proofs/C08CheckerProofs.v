(** The block checker of Corr/C08.v, evaluated on the MODEL's own run, accepts: under the
    classification read off the model's results (ROk: succeeded, RFailed: charged the base fee,
    RAnteFail: nothing, not in the block: out) the state the checker expects ([expect]) has exactly the
    balances and the sequence numbers of the model's state after the block.  So a
    "prop:state after the block is not the sum of the per-transaction charges" failure on the node
    whose cause is a balance or a sequence number is a behaviour the model cannot show.

    Partial: the third component of [state_agree], the fee allowances, is not covered here.  The full
    statement would be
      forall u cfg s left bs inb, wf_cfg cfg -> ... ->
        state_agree u (expect u cfg s txs (classes inb (results ...))) (end_state s (trace ...)) = true
        /\ In (classes ...) (assignments txs true)
    What is missing: (1) a closed form for the allowance after [use_grant] was applied twice (base fee
    in the ante handler, declared - base in FeeInvoke) equal to the checker's [spent_allow], which
    compares per-denom sums only on the universe's denoms while the model deletes an allowance when its
    own denoms are all zero; (2) that the model never refuses the first transaction of a block in the
    ante handler after admitting it on the same state (needs max_gas > 0 and the monotonicity of [ante]
    in its [is_check] flag). *)
From Coq Require Import ZArith NArith List Bool Lia.
From PV Require Import Exchange.Arith Fees.TxFees Fees.TxBlocks Proofs.TxFeesProofs Proofs.TxBlocksProofs Corr.C08.
Import ListNotations.
Open Scope Z_scope.

Definition cls_of (r : result) : cls :=
  match r with ROk => KOk | RFailed => KCharged | RAnteFail => KNothing | RRejected => KOut end.

(* the checker's view of the offered transactions: only the transaction bodies matter to [expect] *)
Definition offered (bs : list (btx * bool)) (xs : list txobs) : list (btx * txobs) :=
  combine (map fst bs) xs.

Lemma apply_cls_spec u cfg s b o res s' :
  wf_cfg cfg -> wf_tx (b_tx b) ->
  deliver cfg s (inst s o b) = (s', res) ->
  (forall a d, bal (apply_cls u cfg s (b_tx b) (cls_of res)) a d = bal s' a d) /\
  (forall a, seqn (apply_cls u cfg s (b_tx b) (cls_of res)) a = seqn s' a).
Proof.
  intros Hc Hw Hd.
  pose proof (deliver_clauses cfg s (inst s o b) Hc (inst_wf s o b Hw)) as Hcl. rewrite Hd in Hcl. cbn [fst snd] in Hcl.
  destruct res; cbn [tx_clauses cls_of apply_cls] in *.
  - subst s'. split; reflexivity.
  - subst s'. split; reflexivity.
  - destruct Hcl as (Hb & Hs & _). split.
    + intros a d. cbn [bal]. rewrite Hb. reflexivity.
    + intros a. cbn [seqn]. unfold bump_if. rewrite Hs. reflexivity.
  - destruct Hcl as (Hb & _ & _ & Hs & _). split.
    + intros a d. cbn [bal]. rewrite Hb. reflexivity.
    + intros a. cbn [seqn]. unfold bump_if. rewrite Hs. reflexivity.
Qed.

(* [expect] only looks at balances and sequences of its state through [apply_cls]; two states that agree
   on those give expectations that agree on those *)
Lemma apply_cls_ext u cfg s1 s2 t k :
  (forall a d, bal s1 a d = bal s2 a d) -> (forall a, seqn s1 a = seqn s2 a) ->
  (forall a d, bal (apply_cls u cfg s1 t k) a d = bal (apply_cls u cfg s2 t k) a d) /\
  (forall a, seqn (apply_cls u cfg s1 t k) a = seqn (apply_cls u cfg s2 t k) a).
Proof.
  intros Hb Hs. destruct k; cbn [apply_cls bal seqn]; split; intros; try apply Hb; try apply Hs.
  all: try (rewrite Hb; reflexivity). all: unfold bump_if; rewrite Hs; reflexivity.
Qed.

Lemma expect_ext u cfg txs : forall ks s1 s2,
  (forall a d, bal s1 a d = bal s2 a d) -> (forall a, seqn s1 a = seqn s2 a) ->
  (forall a d, bal (expect u cfg s1 txs ks) a d = bal (expect u cfg s2 txs ks) a d) /\
  (forall a, seqn (expect u cfg s1 txs ks) a = seqn (expect u cfg s2 txs ks) a).
Proof.
  induction txs as [|bx txs IH]; intros ks s1 s2 Hb Hs; cbn [expect]; [split; assumption|].
  destruct ks as [|k ks]; [split; assumption|].
  destruct (apply_cls_ext u cfg s1 s2 (b_tx (fst bx)) k Hb Hs) as (Hb' & Hs'). apply IH; assumption.
Qed.

Theorem block_checker_sound_partial u cfg bs : wf_cfg cfg -> wf_btxs bs ->
  forall s left xs, length xs = length bs ->
  let tr := trace cfg s left bs in
  let ks := map cls_of (results bs tr) in
  (forall a d, bal (expect u cfg s (offered bs xs) ks) a d = bal (end_state s tr) a d) /\
  (forall a, seqn (expect u cfg s (offered bs xs) ks) a = seqn (end_state s tr) a).
Proof.
  intros Hc. induction bs as [|[b inb] bs IH]; intros Hw s left xs Hlen.
  - cbn. split; reflexivity.
  - inversion Hw as [|? ? Hb Hbs]. subst. cbn [fst] in Hb.
    destruct xs as [|x xs]; [discriminate|]. cbn [length] in Hlen. injection Hlen as Hlen.
    unfold offered. cbn [map fst combine]. fold (offered bs xs).
    destruct inb.
    + cbn [trace]. destruct (deliver cfg s (deliver_inst s left b)) as [s' res] eqn:Ed.
      cbn [results ts_res map expect fst]. rewrite end_state_cons. cbn [ts_post].
      unfold deliver_inst in Ed.
      destruct (apply_cls_spec u cfg s b _ res s' Hc Hb Ed) as (Hb1 & Hs1).
      destruct (IH Hbs s' (block_gas_after (limit_of b) left (b_used b)) xs Hlen) as (Hb2 & Hs2).
      destruct (expect_ext u cfg (offered bs xs)
                  (map cls_of (results bs (trace cfg s' (block_gas_after (limit_of b) left (b_used b)) bs)))
                  _ _ Hb1 Hs1) as (Hb3 & Hs3).
      split; intros; [rewrite Hb3; apply Hb2|rewrite Hs3; apply Hs2].
    + cbn [trace results map expect fst cls_of apply_cls]. apply IH; assumption.
Qed.
