(** Proofs/NameUnicodeProofs.v — the UTF-8 widening of Keeper.Normalize (Name/NameUnicode.v) is
    CONSERVATIVE: on a name made of bytes < 128 the UTF-8 model is defined (no rune falls outside
    the tables) and answers exactly what the ASCII model of Name/Name.v answers.

    Main result: [normalize_utf8_ascii].  Everything is proved; no axioms.

    Name clashes to keep in mind: [Utf8NameProofs.ascii] (a predicate on [list N]) hides the type
    [Ascii.ascii]; the list-N [trim] / [is_space] / [drop_space] of Metadata/Address.v are always
    written qualified ([Address.trim] ...), the unqualified ones are Name.v's string versions. *)
From Coq Require Import Arith NArith List String Ascii Bool Lia.
From PV Require Import Name.Name Name.NameUnicode Metadata.Utf8Name Proofs.Utf8NameProofs Proofs.NameProofs.
Import ListNotations.

Definition ascii_string (s : string) : bool := forallb (fun c => (N_of_ascii c <? 128)%N) (chars s).

(** * 1. bytes_of / string_of *)

Lemma bytes_of_cons : forall c r, bytes_of (String c r) = N_of_ascii c :: bytes_of r.
Proof. reflexivity. Qed.

Lemma ascii_string_cons : forall c r,
  ascii_string (String c r) = (N_of_ascii c <? 128)%N && ascii_string r.
Proof. reflexivity. Qed.

Lemma ascii_string_cons_inv : forall c r, ascii_string (String c r) = true ->
  (N_of_ascii c < 128)%N /\ ascii_string r = true.
Proof.
  intros c r H. rewrite ascii_string_cons in H. apply andb_true_iff in H.
  destruct H as [Hc Hr]. apply N.ltb_lt in Hc. split; assumption.
Qed.

Lemma string_of_bytes_of : forall s, string_of (bytes_of s) = s.
Proof.
  induction s as [|c r IH]; [reflexivity|].
  rewrite bytes_of_cons. cbn [string_of]. rewrite IH, ascii_N_embedding. reflexivity.
Qed.

Lemma ascii_bytes_of : forall s, ascii_string s = true -> Utf8NameProofs.ascii (bytes_of s).
Proof.
  induction s as [|c r IH]; intros Ha; [reflexivity|].
  apply ascii_string_cons_inv in Ha. destruct Ha as [Hc Hr].
  rewrite bytes_of_cons. apply ascii_cons. split; [exact Hc|apply IH, Hr].
Qed.

(** * 2. the tables on one byte < 128 (one computation over the 128 values) *)

Definition lowN (b : N) : N := N_of_ascii (lower_char (ascii_of_N b)).

Definition byte_facts (b : N) : bool :=
  in_ranges modelled b
  && (rune_lower b =? lowN b)%N
  && (lowN b <? 128)%N
  && Bool.eqb (in_ranges lower_table b) (is_lower (ascii_of_N b))
  && Bool.eqb (in_ranges digit_table b) (is_digit (ascii_of_N b))
  && Bool.eqb (b =? 45)%N (is_dash (ascii_of_N b))
  && Bool.eqb (Address.is_space b) (is_space (ascii_of_N b)).

Lemma byte_facts_all : forallb byte_facts (map N.of_nat (seq 0 128)) = true.
Proof. vm_compute. reflexivity. Qed.

Lemma byte_facts_lt : forall b, (b < 128)%N -> byte_facts b = true.
Proof.
  intros b Hb. apply (proj1 (forallb_forall _ _) byte_facts_all).
  rewrite <- (N2Nat.id b). apply in_map. apply in_seq. lia.
Qed.

Lemma byte_facts_spec : forall b, (b < 128)%N ->
  in_ranges modelled b = true /\
  rune_lower b = lowN b /\
  (lowN b < 128)%N /\
  in_ranges lower_table b = is_lower (ascii_of_N b) /\
  in_ranges digit_table b = is_digit (ascii_of_N b) /\
  (b =? 45)%N = is_dash (ascii_of_N b) /\
  Address.is_space b = is_space (ascii_of_N b).
Proof.
  intros b Hb. pose proof (byte_facts_lt b Hb) as H. unfold byte_facts in H.
  apply andb_true_iff in H. destruct H as [H H7].
  apply andb_true_iff in H. destruct H as [H H6].
  apply andb_true_iff in H. destruct H as [H H5].
  apply andb_true_iff in H. destruct H as [H H4].
  apply andb_true_iff in H. destruct H as [H H3].
  apply andb_true_iff in H. destruct H as [H1 H2].
  apply N.eqb_eq in H2. apply N.ltb_lt in H3.
  apply Bool.eqb_prop in H4. apply Bool.eqb_prop in H5.
  apply Bool.eqb_prop in H6. apply Bool.eqb_prop in H7.
  repeat split; assumption.
Qed.

(* the same facts on a character *)
Lemma char_facts : forall c : Ascii.ascii, (N_of_ascii c < 128)%N ->
  in_ranges modelled (N_of_ascii c) = true /\
  rune_lower (N_of_ascii c) = N_of_ascii (lower_char c) /\
  (N_of_ascii (lower_char c) < 128)%N /\
  in_ranges lower_table (N_of_ascii c) = is_lower c /\
  in_ranges digit_table (N_of_ascii c) = is_digit c /\
  (N_of_ascii c =? 45)%N = is_dash c /\
  Address.is_space (N_of_ascii c) = is_space c.
Proof.
  intros c Hc. pose proof (byte_facts_spec (N_of_ascii c) Hc) as H.
  unfold lowN in H. rewrite ascii_N_embedding in H. exact H.
Qed.

Lemma encode_small : forall b, (b < 128)%N -> encode b = [b].
Proof. intros b Hb. unfold encode. apply N.ltb_lt in Hb. rewrite Hb. reflexivity. Qed.

Lemma decode_cons_ascii : forall b l, (b < 128)%N -> decode (b :: l) = arune b :: decode l.
Proof.
  intros b l Hb. unfold decode. cbn [List.length decode_fuel].
  rewrite decode1_ascii by exact Hb. reflexivity.
Qed.

(** * 3. strings.ToLower on ASCII bytes *)

Lemma lower_bytes_nil : lower_bytes [] = Some [].
Proof. reflexivity. Qed.

Lemma lower_bytes_cons_ascii : forall b l, (b < 128)%N ->
  lower_bytes (b :: l) =
  match lower_bytes l with
  | None => None
  | Some rest => if in_ranges modelled b then Some (encode (rune_lower b) ++ rest) else None
  end.
Proof.
  intros b l Hb. unfold lower_bytes. rewrite decode_cons_ascii by exact Hb.
  cbn [fold_right arune u_ok u_cp]. reflexivity.
Qed.

Lemma lower_bytes_ascii : forall t, ascii_string t = true ->
  lower_bytes (bytes_of t) = Some (bytes_of (to_lower t)).
Proof.
  induction t as [|c r IH]; intros Ha; [reflexivity|].
  apply ascii_string_cons_inv in Ha. destruct Ha as [Hc Hr].
  destruct (char_facts c Hc) as [Hm [Hl [Hlt _]]].
  rewrite bytes_of_cons, lower_bytes_cons_ascii by exact Hc.
  rewrite (IH Hr), Hm, Hl, encode_small by exact Hlt.
  cbn [to_lower app]. rewrite bytes_of_cons. reflexivity.
Qed.

(* the list form asked for: on ASCII bytes ToLower is the byte-wise [lower_char] *)
Lemma lower_bytes_ascii_list : forall l, Utf8NameProofs.ascii l ->
  lower_bytes l = Some (map lowN l).
Proof.
  induction l as [|b r IH]; intros Ha; [reflexivity|].
  apply ascii_cons in Ha. destruct Ha as [Hb Hr].
  destruct (byte_facts_spec b Hb) as [Hm [Hl [Hlt _]]].
  rewrite lower_bytes_cons_ascii by exact Hb.
  rewrite (IH Hr), Hm, Hl, encode_small by exact Hlt. reflexivity.
Qed.

(** * 4. the list-N TrimSpace of Metadata/Address.v is Name.v's string [trim] *)

Lemma drop_space_bytes : forall s, ascii_string s = true ->
  Address.drop_space (bytes_of s) = bytes_of (trim_left_by is_space s).
Proof.
  induction s as [|c r IH]; intros Ha; [reflexivity|].
  apply ascii_string_cons_inv in Ha. destruct Ha as [Hc Hr].
  destruct (char_facts c Hc) as [_ [_ [_ [_ [_ [_ Hs]]]]]].
  rewrite bytes_of_cons. cbn [Address.drop_space trim_left_by]. rewrite Hs.
  destruct (is_space c); [apply IH, Hr|rewrite bytes_of_cons; reflexivity].
Qed.

Lemma drop_space_snoc : forall m b,
  Address.drop_space (m ++ [b]) =
  match Address.drop_space m with
  | [] => if Address.is_space b then [] else [b]
  | _ :: _ => Address.drop_space m ++ [b]
  end.
Proof.
  induction m as [|a m IH]; intros b.
  - cbn [app Address.drop_space]. destruct (Address.is_space b); reflexivity.
  - cbn [app Address.drop_space]. destruct (Address.is_space a); [apply IH|reflexivity].
Qed.

Lemma bytes_of_nil_inv : forall s, bytes_of s = [] -> s = EmptyString.
Proof. intros [|c r] H; [reflexivity|rewrite bytes_of_cons in H; discriminate H]. Qed.

Lemma trim_right_bytes : forall s, ascii_string s = true ->
  rev (Address.drop_space (rev (bytes_of s))) = bytes_of (trim_right_by is_space s).
Proof.
  induction s as [|c r IH]; intros Ha; [reflexivity|].
  apply ascii_string_cons_inv in Ha. destruct Ha as [Hc Hr].
  destruct (char_facts c Hc) as [_ [_ [_ [_ [_ [_ Hs]]]]]].
  specialize (IH Hr).
  rewrite bytes_of_cons. cbn [rev trim_right_by]. rewrite drop_space_snoc, Hs.
  destruct (Address.drop_space (rev (bytes_of r))) as [|x d] eqn:Ed.
  - cbn [rev] in IH. symmetry in IH. apply bytes_of_nil_inv in IH. rewrite IH.
    cbn [is_empty]. rewrite andb_true_r. destruct (is_space c); reflexivity.
  - rewrite rev_unit, IH.
    destruct (trim_right_by is_space r) as [|c' r'] eqn:Er.
    + cbn [rev] in IH. exfalso. destruct (rev d); discriminate IH.
    + cbn [is_empty]. rewrite andb_false_r, bytes_of_cons. reflexivity.
Qed.

Lemma ascii_trim_left : forall s, ascii_string s = true ->
  ascii_string (trim_left_by is_space s) = true.
Proof.
  induction s as [|c r IH]; intros Ha; [reflexivity|].
  cbn [trim_left_by]. destruct (is_space c); [|exact Ha].
  apply ascii_string_cons_inv in Ha. apply IH, (proj2 Ha).
Qed.

Lemma ascii_trim_right : forall s, ascii_string s = true ->
  ascii_string (trim_right_by is_space s) = true.
Proof.
  induction s as [|c r IH]; intros Ha; [reflexivity|].
  apply ascii_string_cons_inv in Ha. destruct Ha as [Hc Hr].
  cbn [trim_right_by].
  destruct (is_space c && is_empty (trim_right_by is_space r)); [reflexivity|].
  rewrite ascii_string_cons, (IH Hr). apply N.ltb_lt in Hc. rewrite Hc. reflexivity.
Qed.

Lemma ascii_string_trim : forall s, ascii_string s = true -> ascii_string (trim s) = true.
Proof. intros s Ha. unfold trim. apply ascii_trim_right, ascii_trim_left, Ha. Qed.

Lemma ascii_string_to_lower : forall s, ascii_string s = true -> ascii_string (to_lower s) = true.
Proof.
  induction s as [|c r IH]; intros Ha; [reflexivity|].
  apply ascii_string_cons_inv in Ha. destruct Ha as [Hc Hr].
  destruct (char_facts c Hc) as [_ [_ [Hlt _]]].
  cbn [to_lower]. rewrite ascii_string_cons, (IH Hr).
  apply N.ltb_lt in Hlt. rewrite Hlt. reflexivity.
Qed.

Lemma trim_bytes : forall s, ascii_string s = true ->
  Address.trim (bytes_of s) = bytes_of (trim s).
Proof.
  intros s Ha. unfold Address.trim, trim.
  rewrite drop_space_bytes by exact Ha.
  apply trim_right_bytes, ascii_trim_left, Ha.
Qed.

(* the statement in the [string_of] form *)
Lemma string_of_trim_bytes : forall s, ascii_string s = true ->
  string_of (Address.trim (bytes_of s)) = trim s.
Proof. intros s Ha. rewrite trim_bytes by exact Ha. apply string_of_bytes_of. Qed.

Lemma trim_u_bytes : forall s, ascii_string s = true -> trim_u (bytes_of s) = bytes_of (trim s).
Proof.
  intros s Ha. rewrite trim_u_ascii by (apply ascii_bytes_of, Ha). apply trim_bytes, Ha.
Qed.

(** * 5. one segment through TrimSpace and ToLower *)

Lemma seg_norm_u_ascii : forall seg, ascii_string seg = true ->
  seg_norm_u seg = Some (to_lower (trim seg)).
Proof.
  intros seg Ha. unfold seg_norm_u.
  rewrite trim_u_bytes by exact Ha.
  rewrite lower_bytes_ascii by (apply ascii_string_trim, Ha).
  cbn [option_map]. rewrite string_of_bytes_of. reflexivity.
Qed.

Lemma split_dots_ascii : forall s, ascii_string s = true ->
  forall seg, In seg (split_dots s) -> ascii_string seg = true.
Proof.
  induction s as [|c r IH]; intros Ha seg Hin.
  - cbn [split_dots In] in Hin. destruct Hin as [E|[]]. rewrite <- E. reflexivity.
  - apply ascii_string_cons_inv in Ha. destruct Ha as [Hc Hr].
    specialize (IH Hr). apply N.ltb_lt in Hc.
    cbn [split_dots] in Hin. destruct (is_dot c).
    + destruct Hin as [E|Hin]; [rewrite <- E; reflexivity|apply IH, Hin].
    + destruct (split_dots r) as [|h t] eqn:Es.
      * destruct Hin as [E|[]]. rewrite <- E, ascii_string_cons, Hc. reflexivity.
      * destruct Hin as [E|Hin].
        -- rewrite <- E, ascii_string_cons, Hc, (IH h (in_eq h t)). reflexivity.
        -- apply IH, in_cons, Hin.
Qed.

Lemma ascii_string_app : forall a b,
  ascii_string (a ++ b)%string = ascii_string a && ascii_string b.
Proof.
  induction a as [|c a IH]; intros b; [reflexivity|].
  cbn [append]. rewrite !ascii_string_cons, IH, andb_assoc. reflexivity.
Qed.

Lemma ascii_string_join : forall l, (forall x, In x l -> ascii_string x = true) ->
  ascii_string (join_dots l) = true.
Proof.
  unfold join_dots. induction l as [|a l IH]; intros H; [reflexivity|].
  destruct l as [|b l].
  - cbn [concat]. apply H, in_eq.
  - rewrite concat_cons2, !ascii_string_app, (H a (in_eq _ _)).
    rewrite IH by (intros x Hx; apply H, in_cons, Hx). reflexivity.
Qed.

Lemma ascii_string_normalize_name : forall s, ascii_string s = true ->
  ascii_string (normalize_name s) = true.
Proof.
  intros s Ha. unfold normalize_name. apply ascii_string_join.
  intros x Hx. apply in_map_iff in Hx. destruct Hx as [seg [E Hseg]]. rewrite <- E.
  apply ascii_string_to_lower, ascii_string_trim, (split_dots_ascii s Ha seg Hseg).
Qed.

(** * 6. NormalizeName *)

Lemma sequence_map_some : forall (A B : Type) (f : A -> option B) (g : A -> B) (l : list A),
  (forall x, In x l -> f x = Some (g x)) -> sequence (map f l) = Some (map g l).
Proof.
  intros A B f g. induction l as [|a l IH]; intros H; [reflexivity|].
  cbn [map sequence]. rewrite (H a (in_eq _ _)).
  rewrite IH by (intros x Hx; apply H, in_cons, Hx). reflexivity.
Qed.

Lemma normalize_name_u_ascii : forall s, ascii_string s = true ->
  normalize_name_u s = Some (normalize_name s).
Proof.
  intros s Ha. unfold normalize_name_u.
  rewrite (sequence_map_some _ _ seg_norm_u (fun seg => to_lower (trim seg))).
  - reflexivity.
  - intros seg Hseg. apply seg_norm_u_ascii, (split_dots_ascii s Ha seg Hseg).
Qed.

(** * 7. ValidateNameSegment *)

Lemma valid_fold_ascii : forall seg, ascii_string seg = true ->
  fold_right (fun (u : urune) (acc : option bool) =>
                match acc with
                | None => None
                | Some ok =>
                    if negb (u_ok u) then Some false
                    else if negb (in_ranges modelled (u_cp u)) then None
                    else Some (ok && ((u_cp u =? 45)%N || in_ranges lower_table (u_cp u) || in_ranges digit_table (u_cp u)))
                end) (Some true) (decode (bytes_of seg))
  = Some (forallb (fun c => is_dash c || is_lower c || is_digit c) (chars seg)).
Proof.
  induction seg as [|c r IH]; intros Ha; [reflexivity|].
  apply ascii_string_cons_inv in Ha. destruct Ha as [Hc Hr].
  destruct (char_facts c Hc) as [Hm [_ [_ [Hlo [Hdi [Hda _]]]]]].
  rewrite bytes_of_cons, decode_cons_ascii by exact Hc.
  cbn [fold_right]. rewrite (IH Hr). cbn [arune u_ok u_cp negb].
  rewrite Hm, Hlo, Hdi, Hda. cbn [negb chars forallb]. rewrite andb_comm. reflexivity.
Qed.

Lemma valid_segment_u_ascii : forall seg, ascii_string seg = true ->
  valid_segment_u seg = Some (valid_segment seg).
Proof.
  intros seg Ha. unfold valid_segment_u, valid_segment.
  destruct (is_uuid seg); [reflexivity|]. cbn [orb].
  rewrite N.leb_antisym.
  destruct (1 <? count_by is_dash seg)%N; [reflexivity|]. cbn [negb andb].
  apply valid_fold_ascii, Ha.
Qed.

(** * 8. Keeper.Normalize *)

Lemma forallb_id_map : forall (A : Type) (f : A -> bool) (l : list A),
  forallb (fun b : bool => b) (map f l) = forallb f l.
Proof.
  intros A f. induction l as [|a l IH]; [reflexivity|].
  cbn [map forallb]. rewrite IH. reflexivity.
Qed.

Theorem normalize_utf8_ascii : forall p s, ascii_string s = true ->
  normalize_utf8 p s = Some (normalize p s).
Proof.
  intros p s Ha. unfold normalize_utf8, normalize, is_valid_name.
  rewrite normalize_name_u_ascii by exact Ha. cbv beta iota zeta.
  rewrite (sequence_map_some _ _ valid_segment_u valid_segment).
  - rewrite forallb_id_map.
    destruct (forallb valid_segment (split_dots (normalize_name s))); cbn [negb]; [|reflexivity].
    destruct (forallb
                (fun seg => (p_min_seg p <=? slen seg)%N && ((slen seg <=? p_max_seg p)%N || is_uuid seg))
                (split_dots (normalize_name s))
              && (N.of_nat (List.length (split_dots (normalize_name s))) <=? p_max_levels p)%N);
      reflexivity.
  - intros seg Hseg. apply valid_segment_u_ascii.
    apply (split_dots_ascii (normalize_name s) (ascii_string_normalize_name s Ha) seg Hseg).
Qed.
Print Assumptions normalize_utf8_ascii.

(* consequence: on ASCII input the widened model is never "not modelled" *)
Corollary normalize_utf8_ascii_defined : forall p s, ascii_string s = true ->
  normalize_utf8 p s <> None.
Proof. intros p s Ha. rewrite normalize_utf8_ascii by exact Ha. discriminate. Qed.

(** * Sanity examples *)

Example utf8_ex_ascii : normalize_utf8 default_params "Aa. bB" = Some (Some "aa.bb"%string).
Proof. vm_compute. reflexivity. Qed.

(* "É.pb" = C3 89 2E 70 62  ->  "é.pb" = C3 A9 2E 70 62 (the segment has two BYTES: long enough) *)
Example utf8_ex_latin1 :
  normalize_utf8 default_params (String (ascii_of_N 195) (String (ascii_of_N 137) ".pb"))
  = Some (Some (String (ascii_of_N 195) (String (ascii_of_N 169) ".pb"))).
Proof. vm_compute. reflexivity. Qed.

(* an invalid byte: ToLower writes U+FFFD, which ValidateNameSegment rejects *)
Example utf8_ex_invalid :
  normalize_utf8 default_params (String (ascii_of_N 255) "a.pb") = Some None.
Proof. vm_compute. reflexivity. Qed.
