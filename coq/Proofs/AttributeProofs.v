(** Lemmas about the attribute model (Attribute/Attribute.v) behind property C16. *)
From Coq Require Import ZArith List Bool Lia ZifyBool.
From PV Require Import Attribute.Attribute.
Import ListNotations.
Open Scope Z_scope.
Ltac Zify.zify_post_hook ::= Z.div_mod_to_equations.

(** * Keys and entries *)
Lemma key_eqb_eq : forall k1 k2, key_eqb k1 k2 = true <-> k1 = k2.
Proof.
  intros [[a1 n1] v1] [[a2 n2] v2]. unfold key_eqb.
  rewrite !andb_true_iff, !Z.eqb_eq. split.
  - intros [[-> ->] ->]. reflexivity.
  - intros H. inversion H. auto.
Qed.

Lemma key_eqb_refl : forall k, key_eqb k k = true.
Proof. intros k. apply key_eqb_eq. reflexivity. Qed.

Lemma key_eqb_neq : forall k1 k2, key_eqb k1 k2 = false <-> k1 <> k2.
Proof.
  intros k1 k2. split.
  - intros H E. apply key_eqb_eq in E. congruence.
  - intros H. destruct (key_eqb k1 k2) eqn:E; auto. apply key_eqb_eq in E. contradiction.
Qed.

Lemma entry_eqb_eq : forall x y, entry_eqb x y = true <-> x = y.
Proof.
  intros [e1 k1] [e2 k2]. unfold entry_eqb. cbn [fst snd].
  rewrite andb_true_iff, Z.eqb_eq, key_eqb_eq. split.
  - intros [-> ->]. reflexivity.
  - intros H. inversion H. auto.
Qed.

Lemma oz_eqb_eq : forall x y, oz_eqb x y = true <-> x = y.
Proof.
  intros [a|] [b|]; cbn [oz_eqb]; try rewrite Z.eqb_eq; split; intros H;
    try congruence; try discriminate; auto.
Qed.

(** * Records *)
Lemma In_remove_key : forall k l r, In r (remove_key k l) <-> In r l /\ akey r <> k.
Proof.
  intros k l r. unfold remove_key. rewrite filter_In, negb_true_iff, key_eqb_neq. tauto.
Qed.

Lemma In_map_filter : forall {A B} (f : A -> B) p l x, In x (map f (filter p l)) -> In x (map f l).
Proof.
  intros A B f p l x H. apply in_map_iff in H. destruct H as [y [Hy Hin]].
  apply filter_In in Hin. apply in_map_iff. exists y. tauto.
Qed.

Lemma NoDup_map_filter : forall {A B} (f : A -> B) p l, NoDup (map f l) -> NoDup (map f (filter p l)).
Proof.
  intros A B f p l. induction l as [|x t IH]; cbn [map filter]; intros H.
  - constructor.
  - inversion H as [|? ? Hnin Hnd]; subst. destruct (p x); cbn [map].
    + constructor; auto. intros Hin. apply Hnin. eapply In_map_filter; eauto.
    + auto.
Qed.

Lemma find_rec_some : forall k l r, find_rec k l = Some r -> In r l /\ akey r = k.
Proof.
  intros k l r H. unfold find_rec in H. apply find_some in H. destruct H as [Hin Hk].
  apply key_eqb_eq in Hk. auto.
Qed.

Lemma find_rec_none : forall k l, find_rec k l = None -> forall r, In r l -> akey r <> k.
Proof.
  intros k l H r Hin E. unfold find_rec in H.
  pose proof (find_none _ _ H r Hin) as Hn. cbn beta in Hn. rewrite E, key_eqb_refl in Hn. discriminate.
Qed.

Lemma NoDup_key_unique : forall l r1 r2,
  NoDup (map akey l) -> In r1 l -> In r2 l -> akey r1 = akey r2 -> r1 = r2.
Proof.
  induction l as [|x t IH]; intros r1 r2 Hnd H1 H2 E; [destruct H1|].
  cbn [map] in Hnd. inversion Hnd as [|? ? Hnin Hnd']; subst.
  destruct H1 as [<-|H1], H2 as [<-|H2]; auto.
  - exfalso. apply Hnin. rewrite E. apply in_map. exact H2.
  - exfalso. apply Hnin. rewrite <- E. apply in_map. exact H1.
Qed.

Lemma find_rec_unique : forall l r, NoDup (map akey l) -> In r l -> find_rec (akey r) l = Some r.
Proof.
  intros l r Hnd Hin. destruct (find_rec (akey r) l) as [r'|] eqn:F.
  - apply find_rec_some in F. destruct F as [Hin' E]. f_equal. eapply NoDup_key_unique; eauto.
  - exfalso. eapply find_rec_none; eauto.
Qed.

(** * Counting records of a (name, account) pair *)
Definition cmatch (n a : Z) (r : attr) : bool := (a_name r =? n) && (a_acct r =? a).

Lemma count_recs_eq : forall n a l, count_recs n a l = Z.of_nat (length (filter (cmatch n a) l)).
Proof. reflexivity. Qed.

Lemma len_filter_filter_le : forall {A} (p q : A -> bool) l,
  (length (filter p (filter q l)) <= length (filter p l))%nat.
Proof.
  intros A p q l. induction l as [|x t IH]; cbn [filter]; auto.
  destruct (q x), (p x) eqn:P; cbn [filter length]; try rewrite P; cbn [length]; lia.
Qed.

Lemma len_filter_filter_lt : forall {A} (p q : A -> bool) l r,
  In r l -> p r = true -> q r = false ->
  (length (filter p (filter q l)) + 1 <= length (filter p l))%nat.
Proof.
  intros A p q l r. induction l as [|x t IH]; intros Hin Hp Hq; [destruct Hin|].
  destruct Hin as [->|Hin].
  - cbn [filter]. rewrite Hq, Hp. cbn [length]. pose proof (len_filter_filter_le p q t). lia.
  - specialize (IH Hin Hp Hq). cbn [filter].
    destruct (q x), (p x) eqn:P; cbn [filter length]; try rewrite P; cbn [length]; lia.
Qed.

Lemma count_nonneg : forall n a l, 0 <= count_recs n a l.
Proof. intros. rewrite count_recs_eq. lia. Qed.

Lemma count_remove_le : forall n a k l, count_recs n a (remove_key k l) <= count_recs n a l.
Proof.
  intros. rewrite !count_recs_eq. unfold remove_key.
  pose proof (len_filter_filter_le (cmatch n a) (fun r => negb (key_eqb (akey r) k)) l). lia.
Qed.

Lemma count_remove_lt : forall r l, In r l ->
  count_recs (a_name r) (a_acct r) (remove_key (akey r) l) + 1 <= count_recs (a_name r) (a_acct r) l.
Proof.
  intros r l Hin. rewrite !count_recs_eq. unfold remove_key.
  pose proof (len_filter_filter_lt (cmatch (a_name r) (a_acct r))
                (fun x => negb (key_eqb (akey x) (akey r))) l r Hin) as H.
  unfold cmatch in H at 1. rewrite !Z.eqb_refl, key_eqb_refl in H. specialize (H eq_refl eq_refl). lia.
Qed.

Lemma count_cons : forall n a r l,
  count_recs n a (r :: l) = (if cmatch n a r then 1 else 0) + count_recs n a l.
Proof.
  intros. rewrite !count_recs_eq. cbn [filter]. destruct (cmatch n a r); cbn [length]; lia.
Qed.

Lemma count_pos_in : forall r l, In r l -> 1 <= count_recs (a_name r) (a_acct r) l.
Proof.
  intros r l Hin. pose proof (count_remove_lt r l Hin).
  pose proof (count_nonneg (a_name r) (a_acct r) (remove_key (akey r) l)). lia.
Qed.

(** * Counters *)
Lemma cnt_upd_same : forall f n a v, cnt_upd f n a v n a = v.
Proof. intros. unfold cnt_upd. rewrite !Z.eqb_refl. reflexivity. Qed.

Lemma cnt_upd_other : forall f n a v n' a', (n', a') <> (n, a) -> cnt_upd f n a v n' a' = f n' a'.
Proof.
  intros. unfold cnt_upd. destruct ((n' =? n) && (a' =? a)) eqn:E; auto.
  apply andb_true_iff in E. destruct E as [E1 E2]. apply Z.eqb_eq in E1, E2. subst. contradiction.
Qed.

Lemma cmatch_pair : forall n a r, cmatch n a r = true <-> (n, a) = (a_name r, a_acct r).
Proof.
  intros. unfold cmatch. rewrite andb_true_iff, !Z.eqb_eq. split.
  - intros [-> ->]. reflexivity.
  - intros H. inversion H. auto.
Qed.

(* the counter after a decrement still covers the records once one record of the pair is gone *)
Lemma cnt_dec_covers : forall f r l n a,
  (forall n a, count_recs n a l <= f n a) -> In r l ->
  count_recs n a (remove_key (akey r) l) <= cnt_dec f (a_name r) (a_acct r) n a.
Proof.
  intros f r l n a Hc Hin.
  pose proof (count_remove_lt r l Hin) as Hlt.
  pose proof (count_nonneg (a_name r) (a_acct r) (remove_key (akey r) l)) as Hnn.
  pose proof (Hc (a_name r) (a_acct r)) as Hr.
  unfold cnt_dec.
  destruct (cmatch n a r) eqn:M.
  - apply cmatch_pair in M. inversion M; subst n a.
    destruct (f (a_name r) (a_acct r) <=? 0) eqn:E0; [lia|].
    destruct (f (a_name r) (a_acct r) <=? 1) eqn:E1; rewrite cnt_upd_same; lia.
  - assert (Hne : (n, a) <> (a_name r, a_acct r)).
    { intros E. apply cmatch_pair in E. congruence. }
    pose proof (count_remove_le n a (akey r) l) as Hle. pose proof (Hc n a) as Hna.
    destruct (f (a_name r) (a_acct r) <=? 0); [lia|].
    destruct (f (a_name r) (a_acct r) <=? 1); rewrite cnt_upd_other by exact Hne; lia.
Qed.

(** * Queue *)
Lemma In_q_remove : forall x y q, In x (q_remove y q) <-> In x q /\ x <> y.
Proof.
  intros x y q. unfold q_remove. rewrite filter_In, negb_true_iff. split.
  - intros [H1 H2]. split; auto. intros E. subst.
    assert (entry_eqb y y = true) by (apply entry_eqb_eq; reflexivity). congruence.
  - intros [H1 H2]. split; auto. destruct (entry_eqb x y) eqn:E; auto.
    apply entry_eqb_eq in E. contradiction.
Qed.

Lemma In_q_add : forall x q r, In x q -> In x (q_add q r).
Proof.
  intros x q r H. unfold q_add. destruct (a_exp r); auto.
  destruct (existsb _ q); auto. right. exact H.
Qed.

Lemma In_q_add_self : forall q r e, a_exp r = Some e -> In (e, akey r) (q_add q r).
Proof.
  intros q r e H. unfold q_add. rewrite H.
  destruct (existsb (entry_eqb (e, akey r)) q) eqn:E.
  - apply existsb_exists in E. destruct E as [y [Hy Ey]]. apply entry_eqb_eq in Ey. subst. exact Hy.
  - left. reflexivity.
Qed.

Lemma In_q_del_other : forall x q r, In x q -> snd x <> akey r -> In x (q_del q r).
Proof.
  intros x q r H Hk. unfold q_del. destruct (a_exp r); auto.
  apply In_q_remove. split; auto. intros E. subst. cbn [snd] in Hk. contradiction.
Qed.

(** * Invariants *)
Record inv_core (s : state) : Prop := {
  ic_nodup : NoDup (map akey (s_recs s));
  ic_cnt : forall n a, count_recs n a (s_recs s) <= s_cnt s n a;
  ic_queue : forall r e, In r (s_recs s) -> a_exp r = Some e -> In (e, akey r) (s_queue s) }.

Definition named (s : state) : Prop :=
  forall r, In r (s_recs s) -> s_owner s (a_name r) <> None.

Definition inv (s : state) : Prop := inv_core s /\ named s.

Lemma inv_core_init : forall t0 accts, inv_core (init t0 accts).
Proof.
  intros. constructor; cbn.
  - constructor.
  - intros. lia.
  - intros r e [].
Qed.

Lemma nodup_put : forall r l, NoDup (map akey l) -> NoDup (map akey (r :: remove_key (akey r) l)).
Proof.
  intros r l H. cbn [map]. constructor.
  - intros Hin. apply in_map_iff in Hin. destruct Hin as [y [Ey Hy]].
    apply In_remove_key in Hy. destruct Hy as [_ Hne]. contradiction.
  - unfold remove_key. apply NoDup_map_filter. exact H.
Qed.

Lemma inv_core_put : forall s r, inv_core s -> inv_core (put s r).
Proof.
  intros s r [Hnd Hc Hq]. constructor; cbn [put set_store s_recs s_cnt s_queue].
  - apply nodup_put. exact Hnd.
  - intros n a. rewrite count_cons. pose proof (count_remove_le n a (akey r) (s_recs s)) as Hle.
    pose proof (Hc n a) as Hna. unfold cnt_inc.
    destruct (cmatch n a r) eqn:M.
    + apply cmatch_pair in M. inversion M; subst n a. rewrite cnt_upd_same. lia.
    + rewrite cnt_upd_other; [lia|]. intros E. apply cmatch_pair in E. congruence.
  - intros x e [<-|Hin] He.
    + apply In_q_add_self. exact He.
    + apply In_remove_key in Hin. destruct Hin as [Hin _]. apply In_q_add. eauto.
Qed.

Lemma inv_core_del_rec : forall b s r, inv_core s -> In r (s_recs s) -> inv_core (del_rec b s r).
Proof.
  intros b s r [Hnd Hc Hq] Hin. constructor; cbn [del_rec set_store s_recs s_cnt s_queue].
  - unfold remove_key. apply NoDup_map_filter. exact Hnd.
  - intros n a. apply cnt_dec_covers; auto.
  - intros x e Hx He. apply In_remove_key in Hx. destruct Hx as [Hx Hne].
    destruct b; [apply In_q_del_other|]; eauto.
Qed.

(** Deleting a list of distinct present records one after the other. *)
Lemma del_fold : forall b l s,
  inv_core s -> NoDup (map akey l) -> incl l (s_recs s) ->
  let s' := fold_left (del_rec b) l s in
  inv_core s' /\
  (forall x, In x (s_recs s') <-> In x (s_recs s) /\ ~ In (akey x) (map akey l)) /\
  s_owner s' = s_owner s /\ s_now s' = s_now s /\ s_acct s' = s_acct s /\
  (forall x, In x (s_queue s') -> In x (s_queue s)) /\
  (b = false -> s_queue s' = s_queue s).
Proof.
  intros b l. induction l as [|h t IH]; intros s Hinv Hnd Hincl; cbn [fold_left].
  - split; [exact Hinv|]. split.
    + intros x. split; [intros H; split; [exact H|intros []] | intros [H _]; exact H].
    + repeat split; auto.
  - cbn [map] in Hnd. inversion Hnd as [|? ? Hnin Hnd']; subst.
    assert (Hh : In h (s_recs s)) by (apply Hincl; left; reflexivity).
    assert (Hincl' : incl t (s_recs (del_rec b s h))).
    { intros x Hx. cbn [del_rec set_store s_recs]. apply In_remove_key. split.
      - apply Hincl. right. exact Hx.
      - intros E. apply Hnin. rewrite <- E. apply in_map. exact Hx. }
    destruct (IH (del_rec b s h) (inv_core_del_rec b s h Hinv Hh) Hnd' Hincl')
      as [I1 [I2 [I3 [I4 [I5 [I6 I7]]]]]].
    cbn zeta. split; [exact I1|]. split; [intros x; split|repeat split].
    + intros Hx. apply I2 in Hx. destruct Hx as [Hx Hn]. cbn [del_rec set_store s_recs] in Hx.
      apply In_remove_key in Hx. split; [tauto|]. cbn [map].
      intros [E|E]; [destruct Hx as [_ Hx]; congruence|tauto].
    + intros [Hx Hn]. apply I2. cbn [map] in Hn. split.
      * cbn [del_rec set_store s_recs]. apply In_remove_key. split; [exact Hx|].
        intros E. apply Hn. left. symmetry. exact E.
      * intros Hin. apply Hn. right. exact Hin.
    + rewrite I3. reflexivity.
    + rewrite I4. reflexivity.
    + rewrite I5. reflexivity.
    + intros x Hx. apply I6 in Hx. cbn [del_rec set_store s_queue] in Hx.
      destruct b; auto. unfold q_del in Hx. destruct (a_exp h); auto.
      apply In_q_remove in Hx. tauto.
    + intros Hb. rewrite (I7 Hb). subst b. reflexivity.
Qed.

Lemma del_filter : forall b p s,
  inv_core s ->
  let s' := fold_left (del_rec b) (filter p (s_recs s)) s in
  inv_core s' /\
  (forall x, In x (s_recs s') <-> In x (s_recs s) /\ p x = false) /\
  s_owner s' = s_owner s /\ s_now s' = s_now s /\ s_acct s' = s_acct s /\
  (forall x, In x (s_queue s') -> In x (s_queue s)) /\
  (b = false -> s_queue s' = s_queue s).
Proof.
  intros b p s Hinv.
  destruct (del_fold b (filter p (s_recs s)) s Hinv) as [I1 [I2 I3]].
  - apply NoDup_map_filter. apply Hinv.
  - intros x Hx. apply filter_In in Hx. tauto.
  - cbn zeta. split; [exact I1|]. split; [|exact I3].
    intros x. rewrite I2. split.
    + intros [Hx Hn]. split; auto. destruct (p x) eqn:P; auto. exfalso. apply Hn.
      apply in_map. apply filter_In. auto.
    + intros [Hx P]. split; auto. intros Hin. apply in_map_iff in Hin.
      destruct Hin as [y [Ey Hy]]. apply filter_In in Hy. destruct Hy as [Hy Py].
      assert (y = x) by (eapply NoDup_key_unique; eauto; apply Hinv). subst. congruence.
Qed.

(** * The begin-block sweep *)
Lemma attr_eq_dec : forall x y : attr, {x = y} + {x <> y}.
Proof. repeat decide equality. Qed.

Lemma inv_core_same_store : forall s s',
  s_recs s' = s_recs s -> s_cnt s' = s_cnt s -> s_queue s' = s_queue s -> inv_core s -> inv_core s'.
Proof.
  intros s s' E1 E2 E3 [Hnd Hc Hq]. constructor; rewrite ?E1, ?E2, ?E3; auto.
Qed.

Lemma sweep_entry_facts : forall s x,
  inv_core s ->
  let s' := sweep_entry s x in
  inv_core s' /\
  (forall r, In r (s_recs s') -> In r (s_recs s)) /\
  s_owner s' = s_owner s /\ s_now s' = s_now s /\ s_acct s' = s_acct s /\
  (forall r, In r (s_recs s) -> ~ In r (s_recs s') -> a_exp r = Some (fst x) /\ akey r = snd x) /\
  (forall r, In r (s_recs s) -> a_exp r = Some (fst x) -> akey r = snd x ->
             forall r', In r' (s_recs s') -> akey r' <> akey r).
Proof.
  intros s [e k] Hinv. cbn zeta. unfold sweep_entry. cbn [fst snd].
  destruct (find_rec k (s_recs s)) as [r0|] eqn:F.
  - pose proof (find_rec_some _ _ _ F) as [Hin0 Hk0].
    destruct (oz_eqb (a_exp r0) (Some e)) eqn:E.
    + apply oz_eqb_eq in E.
      split; [apply inv_core_del_rec; auto|].
      cbn [del_rec set_store s_recs s_owner s_now s_acct].
      split; [intros r Hr; apply In_remove_key in Hr; tauto|].
      split; [reflexivity|]. split; [reflexivity|]. split; [reflexivity|]. split.
      * intros r Hr Hn.
        assert (Ek : akey r = akey r0).
        { destruct (key_eqb (akey r) (akey r0)) eqn:K; [apply key_eqb_eq; exact K|].
          exfalso. apply Hn. apply In_remove_key. split; auto. apply key_eqb_neq. exact K. }
        assert (r = r0) by (eapply NoDup_key_unique; eauto; apply Hinv). subst. auto.
      * intros r Hr He Hk r' Hr'. apply In_remove_key in Hr'. destruct Hr' as [_ Hne]. congruence.
    + assert (Hstale : forall r, In r (s_recs s) -> akey r = k -> a_exp r <> Some e).
      { intros r Hr Hk He. assert (r = r0) by (eapply NoDup_key_unique; eauto; [apply Hinv|congruence]).
        subst. apply oz_eqb_eq in He. congruence. }
      split.
      { destruct Hinv as [Hnd Hc Hq]. constructor; cbn [set_store s_recs s_cnt s_queue]; auto.
        intros r e' Hr He'. apply In_q_remove. split; eauto.
        intros Eq. inversion Eq; subst. eapply Hstale; eauto. }
      cbn [set_store s_recs s_owner s_now s_acct].
      split; [auto|]. split; [reflexivity|]. split; [reflexivity|]. split; [reflexivity|]. split.
      * intros r Hr Hn. contradiction.
      * intros r Hr He Hk. exfalso. eapply Hstale; eauto.
  - pose proof (find_rec_none _ _ F) as Hnone.
    split.
    { destruct Hinv as [Hnd Hc Hq]. constructor; cbn [set_store s_recs s_cnt s_queue]; auto.
      intros r e' Hr He'. apply In_q_remove. split; eauto.
      intros Eq. inversion Eq; subst. eapply Hnone; eauto. }
    cbn [set_store s_recs s_owner s_now s_acct].
    split; [auto|]. split; [reflexivity|]. split; [reflexivity|]. split; [reflexivity|]. split.
    + intros r Hr Hn. contradiction.
    + intros r Hr He Hk. exfalso. eapply Hnone; eauto.
Qed.

Lemma sweep_fold : forall L s,
  inv_core s ->
  let s' := fold_left sweep_entry L s in
  inv_core s' /\
  (forall r, In r (s_recs s') -> In r (s_recs s)) /\
  s_owner s' = s_owner s /\ s_now s' = s_now s /\ s_acct s' = s_acct s /\
  (forall r, In r (s_recs s) -> ~ In r (s_recs s') -> exists e, a_exp r = Some e /\ In (e, akey r) L) /\
  (forall r e, In r (s_recs s) -> a_exp r = Some e -> In (e, akey r) L ->
               forall r', In r' (s_recs s') -> akey r' <> akey r).
Proof.
  induction L as [|h t IH]; intros s Hinv; cbn [fold_left]; cbn zeta.
  - split; [exact Hinv|]. split; [auto|]. split; [reflexivity|]. split; [reflexivity|].
    split; [reflexivity|]. split.
    + intros r Hr Hn. contradiction.
    + intros r e Hr He [].
  - destruct (sweep_entry_facts s h Hinv) as [F1 [F2 [F3 [F4 [F5 [F6 F7]]]]]].
    destruct (IH (sweep_entry s h) F1) as [I1 [I2 [I3 [I4 [I5 [I6 I7]]]]]].
    split; [exact I1|]. split; [auto|]. split; [congruence|]. split; [congruence|].
    split; [congruence|]. split.
    + intros r Hr Hn. destruct (in_dec attr_eq_dec r (s_recs (sweep_entry s h))) as [Hin|Hnin].
      * destruct (I6 r Hin Hn) as [e [He Hl]]. exists e. split; auto. right. exact Hl.
      * destruct (F6 r Hr Hnin) as [He Hk]. exists (fst h). split; auto. left.
        rewrite Hk. destruct h; reflexivity.
    + intros r e Hr He Hl r' Hr'.
      destruct (in_dec attr_eq_dec r (s_recs (sweep_entry s h))) as [Hin|Hnin].
      * destruct Hl as [Eh|Hl].
        -- apply (F7 r Hr); [subst h; exact He|subst h; reflexivity|]. apply I2. exact Hr'.
        -- eapply I7; eauto.
      * destruct (F6 r Hr Hnin) as [He' Hk]. apply (F7 r Hr He' Hk). apply I2. exact Hr'.
Qed.

Lemma In_due : forall t q e k, In (e, k) (due t q) <-> In (e, k) q /\ e < t.
Proof. intros. unfold due. rewrite filter_In. cbn [fst]. rewrite Z.ltb_lt. tauto. Qed.

(** * Every operation preserves the invariants *)
Lemma inv_core_set_owner : forall s f, inv_core s -> inv_core (set_owner s f).
Proof. intros s f H. apply (inv_core_same_store s); auto. Qed.

Lemma inv_core_set_now : forall s t, inv_core s -> inv_core (set_now s t).
Proof. intros s t H. apply (inv_core_same_store s); auto. Qed.

Lemma resolves_owner : forall s n c, resolves s n c = true -> s_owner s n = Some c.
Proof.
  intros s n c H. unfold resolves in H. destruct (s_owner s n); [|discriminate].
  apply Z.eqb_eq in H. subst. reflexivity.
Qed.

Lemma may_remove_owner : forall s c n,
  may_remove s c n = true -> s_owner s n <> None -> s_owner s n = Some c.
Proof.
  intros s c n H Hne. unfold may_remove in H. apply andb_true_iff in H. destruct H as [_ H].
  apply orb_true_iff in H. destruct H as [H|H].
  - apply resolves_owner. exact H.
  - unfold name_exists in H. destruct (s_owner s n); [discriminate|contradiction].
Qed.

Lemma upd_owner_some : forall f n o n', f n' <> None -> upd_owner f n (Some o) n' <> None.
Proof. intros. unfold upd_owner. destruct (n' =? n); [discriminate|auto]. Qed.

Lemma inv_update_exp : forall s cur e,
  inv s -> In cur (s_recs s) ->
  inv (set_store s (with_exp cur e :: remove_key (akey cur) (s_recs s)) (s_cnt s)
                 (q_add (q_del (s_queue s) cur) (with_exp cur e))).
Proof.
  intros s cur e [[Hnd Hc Hq] Hn] Hin. split.
  - constructor; cbn [set_store s_recs s_cnt s_queue].
    + change (akey cur) with (akey (with_exp cur e)). apply nodup_put. exact Hnd.
    + intros n a. rewrite count_cons. change (cmatch n a (with_exp cur e)) with (cmatch n a cur).
      pose proof (Hc n a) as Hna. pose proof (count_remove_le n a (akey cur) (s_recs s)) as Hle.
      destruct (cmatch n a cur) eqn:M; [|lia].
      apply cmatch_pair in M. inversion M; subst n a.
      pose proof (count_remove_lt cur (s_recs s) Hin). lia.
    + intros x e' [<-|Hx] He'.
      * apply In_q_add_self. exact He'.
      * apply In_remove_key in Hx. destruct Hx as [Hx Hne].
        apply In_q_add. apply In_q_del_other; eauto.
  - intros x. cbn [set_store s_recs s_owner]. intros [<-|Hx].
    + change (a_name (with_exp cur e)) with (a_name cur). auto.
    + apply In_remove_key in Hx. apply Hn. tauto.
Qed.

Lemma exec_inv : forall s o s', inv s -> exec s o = Some s' -> inv s'.
Proof.
  intros s o s' [Hc Hn] E. destruct o; cbn [exec] in E.
  - (* bind *)
    destruct (name_exists s n); inversion E; subst. split.
    + apply inv_core_set_owner. exact Hc.
    + intros r Hr. cbn [set_owner s_owner]. apply upd_owner_some. apply Hn. exact Hr.
  - (* modify *)
    destruct (s_owner s n) as [cur|]; [|discriminate].
    destruct ((auth =? gov) || (auth =? cur)); inversion E; subst. split.
    + apply inv_core_set_owner. exact Hc.
    + intros r Hr. cbn [set_owner s_owner]. apply upd_owner_some. apply Hn. exact Hr.
  - (* delete name *)
    destruct (resolves s n c); [|discriminate]. unfold purge_attribute in E.
    destruct (may_remove _ c n); inversion E; subst. clear E.
    pose proof (del_filter false
                (fun r => (a_name r =? n) && (0 <? s_cnt (set_owner s (upd_owner (s_owner s) n None)) n (a_acct r)))
                (set_owner s (upd_owner (s_owner s) n None))
                (inv_core_set_owner _ _ Hc)) as I. cbn zeta in I.
    cbn [set_owner s_recs s_cnt s_owner] in I. destruct I as [I1 [I2 [I3 _]]].
    split; [exact I1|]. intros r Hr. apply I2 in Hr. destruct Hr as [Hr Hp].
    rewrite I3. unfold upd_owner.
    destruct (a_name r =? n) eqn:En.
    + exfalso. apply Z.eqb_eq in En. subst n. cbn [andb] in Hp.
      pose proof (count_pos_in r _ Hr). pose proof (ic_cnt _ Hc (a_name r) (a_acct r)). lia.
    + apply Hn. exact Hr.
  - (* add *)
    unfold set_attribute in E. match type of E with (if ?b then _ else _) = _ => destruct b eqn:C end;
      inversion E; subst. clear E.
    apply andb_true_iff in C. destruct C as [_ C]. apply resolves_owner in C. cbn [a_name] in C. split.
    + apply inv_core_put. exact Hc.
    + intros r. cbn [put set_store s_recs s_owner]. intros [<-|Hr].
      * cbn [a_name]. congruence.
      * apply In_remove_key in Hr. apply Hn. tauto.
  - (* update *)
    unfold update_attribute in E. match type of E with (if ?b then _ else _) = _ => destruct b eqn:C end;
      [|discriminate].
    destruct (sp_inner sp); [discriminate|].
    destruct (find_rec (a, n, ov) (s_recs s)) as [cur|] eqn:F; [|discriminate].
    destruct (a_type cur =? oty); inversion E; subst. clear E.
    apply find_rec_some in F. destruct F as [Hcur Hk].
    apply andb_true_iff in C. destruct C as [_ C]. apply resolves_owner in C. split.
    + apply inv_core_put. apply inv_core_del_rec; auto.
    + intros r. cbn [put del_rec set_store s_recs s_owner]. intros [<-|Hr].
      * cbn [a_name]. congruence.
      * apply In_remove_key in Hr. destruct Hr as [Hr _]. apply In_remove_key in Hr. apply Hn. tauto.
  - (* update expiration *)
    unfold update_expiration in E. match type of E with (if ?b then _ else _) = _ => destruct b eqn:C end;
      [|discriminate].
    destruct (find_rec (a, n, v) (s_recs s)) as [cur|] eqn:F; inversion E; subst. clear E.
    apply find_rec_some in F. destruct F as [Hcur Hk].
    apply inv_update_exp; [split; auto|exact Hcur].
  - (* delete *)
    unfold delete_attribute in E. destruct (may_remove_raw s c n sp); [|discriminate].
    match type of E with context [filter ?p (s_recs s)] =>
      destruct (del_filter true p s Hc) as [I1 [I2 [I3 _]]]; destruct (filter p (s_recs s)) end;
      [discriminate|]. injection E as <-. cbn [fold_left] in I1, I2, I3.
    split; [exact I1|]. intros r Hr. apply I2 in Hr. rewrite I3. apply Hn. tauto.
  - (* delete distinct *)
    unfold delete_attribute in E. destruct (may_remove_raw s c n sp); [|discriminate].
    match type of E with context [filter ?p (s_recs s)] =>
      destruct (del_filter true p s Hc) as [I1 [I2 [I3 _]]]; destruct (filter p (s_recs s)) end;
      [discriminate|]. injection E as <-. cbn [fold_left] in I1, I2, I3.
    split; [exact I1|]. intros r Hr. apply I2 in Hr. rewrite I3. apply Hn. tauto.
  - (* purge *)
    unfold purge_attribute in E. destruct (may_remove s c n); inversion E; subst. clear E.
    match goal with |- context [filter ?p (s_recs s)] =>
      destruct (del_filter false p s Hc) as [I1 [I2 [I3 _]]] end.
    split; [exact I1|]. intros r Hr. apply I2 in Hr. rewrite I3. apply Hn. tauto.
  - (* block *)
    destruct (dt <? 0); inversion E; subst. clear E. unfold sweep.
    destruct (sweep_fold (due (s_now (set_now s (s_now s + dt))) (s_queue (set_now s (s_now s + dt))))
                (set_now s (s_now s + dt)) (inv_core_set_now _ _ Hc)) as [I1 [I2 [I3 _]]].
    split; [exact I1|]. intros r Hr. rewrite I3. apply I2 in Hr. cbn [set_now s_owner s_recs] in *.
    apply Hn. exact Hr.
Qed.

Lemma step_inv : forall s o, inv s -> inv (fst (step s o)).
Proof.
  intros s o H. unfold step. destruct (exec s o) eqn:E; cbn [fst]; [eapply exec_inv; eauto|exact H].
Qed.

Lemma run_from_inv : forall ops s, inv s -> inv (run_from s ops).
Proof.
  induction ops as [|o t IH]; intros s H; cbn [run_from fold_left]; [exact H|].
  apply IH. apply step_inv. exact H.
Qed.

Lemma run_inv : forall t0 accts ops, inv (run t0 accts ops).
Proof.
  intros. apply run_from_inv. split; [apply inv_core_init|]. intros r [].
Qed.

(** * The property lemmas *)
Lemma filter_none : forall {A} (p : A -> bool) l, (forall x, In x l -> p x = false) -> filter p l = [].
Proof.
  intros A p l. induction l as [|x t IH]; intros H; cbn [filter]; [reflexivity|].
  rewrite (H x (or_introl eq_refl)). apply IH. intros y Hy. apply H. right. exact Hy.
Qed.

(** Who may write under a name: the accepted operation was issued by the name's current owner.
    PurgeAttribute (the keeper entry point, reached on-chain only from MsgDeleteName) also
    accepts any caller with an account when the name does not exist; then it changes nothing. *)
Definition writes_as_owner (s : state) (o : op) : Prop :=
  match o with
  | OAdd c _ n _ _ _ _ | OUpdate c _ n _ _ _ _ _ | OUpdateExp c _ n _ _ _
  | ODelete c _ n _ | ODeleteDistinct c _ n _ _ | ODeleteName c n => s_owner s n = Some c
  | OPurge c n => s_owner s n = Some c \/ (s_owner s n = None /\ fst (step s o) = s)
  | _ => True
  end.

Lemma delete_owner : forall s c a n ov sp s',
  named s -> delete_attribute s c a n ov sp = Some s' -> s_owner s n = Some c.
Proof.
  intros s c a n ov sp s' Hn E. unfold delete_attribute in E.
  destruct (may_remove_raw s c n sp) eqn:M; [|discriminate].
  match type of E with context [filter ?p (s_recs s)] => destruct (filter p (s_recs s)) as [|x t] eqn:Fl end;
    [discriminate|].
  assert (Hx : In x (x :: t)) by (left; reflexivity). rewrite <- Fl in Hx. apply filter_In in Hx.
  destruct Hx as [Hx Hp]. apply andb_true_iff in Hp. destruct Hp as [Hp Hsp].
  apply andb_true_iff in Hp. destruct Hp as [Hp _].
  apply andb_true_iff in Hp. destruct Hp as [_ Hp]. apply Z.eqb_eq in Hp.
  (* only the canonical spelling matches a stored name, and then the gate is the ordinary one *)
  apply andb_true_iff in Hsp. destruct Hsp as [_ Hsp]. apply Z.eqb_eq in Hsp. subst sp.
  change (may_remove_raw s c n 0) with (may_remove s c n) in M.
  apply may_remove_owner; auto. rewrite <- Hp. apply Hn. exact Hx.
Qed.

Lemma only_owner_step : forall s o, inv s -> snd (step s o) = true -> writes_as_owner s o.
Proof.
  intros s o [Hc Hn] H. unfold step in H. destruct (exec s o) as [s'|] eqn:E; [|discriminate]. clear H.
  destruct o; cbn [writes_as_owner]; auto; cbn [exec] in E.
  - destruct (resolves s n c) eqn:R; [|discriminate]. apply resolves_owner. exact R.
  - unfold set_attribute in E. match type of E with (if ?b then _ else _) = _ => destruct b eqn:C end;
      [|discriminate]. apply andb_true_iff in C. destruct C as [_ C]. apply resolves_owner in C. exact C.
  - unfold update_attribute in E. match type of E with (if ?b then _ else _) = _ => destruct b eqn:C end;
      [|discriminate]. apply andb_true_iff in C. destruct C as [_ C]. apply resolves_owner in C. exact C.
  - unfold update_expiration in E. match type of E with (if ?b then _ else _) = _ => destruct b eqn:C end;
      [|discriminate]. apply andb_true_iff in C. destruct C as [_ C]. apply resolves_owner in C. exact C.
  - eapply delete_owner; eauto.
  - eapply delete_owner; eauto.
  - unfold purge_attribute in E. destruct (may_remove s c n) eqn:M; [|discriminate].
    destruct (s_owner s n) as [ow|] eqn:O.
    + left. rewrite <- O. apply may_remove_owner; auto. congruence.
    + right. split; [reflexivity|]. unfold step. cbn [exec]. unfold purge_attribute. rewrite M.
      rewrite filter_none; [reflexivity|]. intros x Hx.
      destruct (a_name x =? n) eqn:En; [|reflexivity]. apply Z.eqb_eq in En. subst n.
      exfalso. apply (Hn x Hx). exact O.
Qed.

(** When may a present attribute be absent after a step. *)
Definition justified (s : state) (o : op) (r : attr) : Prop :=
  match o with
  | ODelete c a n _ => a_acct r = a /\ a_name r = n /\ s_owner s n = Some c
  | ODeleteDistinct c a n v _ => a_acct r = a /\ a_name r = n /\ a_val r = v /\ s_owner s n = Some c
  | OUpdate c a n ov _ _ _ _ => akey r = (a, n, ov) /\ s_owner s n = Some c
  | ODeleteName c n | OPurge c n => a_name r = n /\ s_owner s n = Some c
  | OBlock dt => exists e, a_exp r = Some e /\ e < s_now s + dt
  | _ => False
  end.

Definition absent (r : attr) (s : state) : Prop := forall r', In r' (s_recs s) -> akey r' <> akey r.

Lemma put_keeps : forall s x r, In r (s_recs s) -> ~ absent r (put s x).
Proof.
  intros s x r Hr Ha. cbn [put] in Ha. unfold absent in Ha. cbn [set_store s_recs] in Ha.
  destruct (key_eqb (akey r) (akey x)) eqn:K.
  - apply key_eqb_eq in K. apply (Ha x); [left; reflexivity|congruence].
  - apply key_eqb_neq in K. apply (Ha r); [|reflexivity]. right. apply In_remove_key. auto.
Qed.

Lemma delete_justified : forall s c a n ov sp s' r,
  inv s -> delete_attribute s c a n ov sp = Some s' -> In r (s_recs s) -> absent r s' ->
  a_acct r = a /\ a_name r = n /\ match ov with Some v => a_val r = v | None => True end.
Proof.
  intros s c a n ov sp s' r [Hc Hn] E Hr Ha. unfold delete_attribute in E.
  destruct (may_remove_raw s c n sp); [|discriminate].
  match type of E with context [filter ?p (s_recs s)] =>
    destruct (del_filter true p s Hc) as [_ [I2 _]]; destruct (filter p (s_recs s)); [discriminate|];
    destruct (p r) eqn:P end.
  - apply andb_true_iff in P. destruct P as [P _].
    apply andb_true_iff in P. destruct P as [P Pv]. apply andb_true_iff in P. destruct P as [Pa Pn].
    apply Z.eqb_eq in Pa, Pn. repeat split; auto. destruct ov; auto. apply Z.eqb_eq. exact Pv.
  - exfalso. injection E as <-. cbn [fold_left] in I2. apply (Ha r); [|reflexivity]. apply I2. auto.
Qed.

Lemma purge_justified : forall s c n s' r,
  inv_core s -> purge_attribute s c n = Some s' -> In r (s_recs s) -> absent r s' -> a_name r = n.
Proof.
  intros s c n s' r Hc E Hr Ha. unfold purge_attribute in E.
  destruct (may_remove s c n); [|discriminate]. injection E as <-.
  match type of Ha with context [filter ?p (s_recs s)] =>
    destruct (del_filter false p s Hc) as [_ [I2 _]]; destruct (p r) eqn:P end.
  - apply andb_true_iff in P. destruct P as [P _]. apply Z.eqb_eq. exact P.
  - exfalso. apply (Ha r); [|reflexivity]. apply I2. auto.
Qed.

Lemma disappears_step : forall s o r,
  inv s -> In r (s_recs s) -> absent r (fst (step s o)) -> justified s o r.
Proof.
  intros s o r Hinv Hr Ha. pose proof Hinv as [Hc Hn].
  pose proof (only_owner_step s o Hinv) as Hown.
  unfold step in *. destruct (exec s o) as [s'|] eqn:E; cbn [fst snd] in *;
    [|exfalso; apply (Ha r Hr); reflexivity].
  specialize (Hown eq_refl).
  destruct o; cbn [justified writes_as_owner] in *; cbn [exec] in E.
  - destruct (name_exists s n); inversion E; subst. apply (Ha r Hr). reflexivity.
  - destruct (s_owner s n) as [cur|]; [|discriminate].
    destruct ((auth =? gov) || (auth =? cur)); inversion E; subst. apply (Ha r Hr). reflexivity.
  - destruct (resolves s n c); [|discriminate]. split; [|exact Hown].
    eapply (purge_justified (set_owner s (upd_owner (s_owner s) n None))); eauto.
    apply inv_core_set_owner. exact Hc.
  - unfold set_attribute in E. match type of E with (if ?b then _ else _) = _ => destruct b end;
      inversion E; subst. eapply put_keeps; eauto.
  - unfold update_attribute in E. match type of E with (if ?b then _ else _) = _ => destruct b end;
      [|discriminate].
    destruct (sp_inner sp); [discriminate|].
    destruct (find_rec (a, n, ov) (s_recs s)) as [cur|] eqn:F; [|discriminate].
    destruct (a_type cur =? oty); inversion E; subst. clear E.
    apply find_rec_some in F. destruct F as [Hcur Hk].
    destruct (key_eqb (akey r) (akey cur)) eqn:K.
    + apply key_eqb_eq in K. split; [congruence|exact Hown].
    + exfalso. apply key_eqb_neq in K. eapply put_keeps; [|exact Ha].
      cbn [del_rec set_store s_recs]. apply In_remove_key. auto.
  - unfold update_expiration in E. match type of E with (if ?b then _ else _) = _ => destruct b end;
      [|discriminate].
    destruct (find_rec (a, n, v) (s_recs s)) as [cur|] eqn:F; inversion E; subst. clear E.
    apply find_rec_some in F. destruct F as [Hcur Hk]. unfold absent in Ha. cbn [set_store s_recs] in Ha.
    destruct (key_eqb (akey r) (akey cur)) eqn:K.
    + apply key_eqb_eq in K. apply (Ha (with_exp cur e)); [left; reflexivity|].
      change (akey (with_exp cur e)) with (akey cur). congruence.
    + apply key_eqb_neq in K. apply (Ha r); [|reflexivity]. right. apply In_remove_key. auto.
  - destruct (delete_justified s c a n None sp s' r Hinv E Hr Ha) as [H1 [H2 _]]. auto.
  - destruct (delete_justified s c a n (Some v) sp s' r Hinv E Hr Ha) as [H1 [H2 H3]]. auto.
  - pose proof (purge_justified s c n s' r Hc E Hr Ha) as Hname. split; [exact Hname|].
    destruct Hown as [Ho|[Ho _]]; [exact Ho|]. exfalso. apply (Hn r Hr). rewrite Hname. exact Ho.
  - destruct (dt <? 0); inversion E; subst. clear E. unfold sweep in Ha.
    destruct (sweep_fold (due (s_now (set_now s (s_now s + dt))) (s_queue (set_now s (s_now s + dt))))
                (set_now s (s_now s + dt)) (inv_core_set_now _ _ Hc)) as [_ [_ [_ [_ [_ [I6 _]]]]]].
    destruct (I6 r Hr) as [e [He Hl]].
    + intros Hin. apply (Ha r Hin). reflexivity.
    + exists e. split; [exact He|]. apply In_due in Hl. cbn [set_now s_now] in Hl. tauto.
Qed.

Lemma expired_gone_step : forall s r e dt,
  inv s -> In r (s_recs s) -> a_exp r = Some e -> 0 <= dt -> e < s_now s + dt ->
  absent r (fst (step s (OBlock dt))).
Proof.
  intros s r e dt [Hc Hn] Hr He Hdt Hlt. unfold step. cbn [exec].
  destruct (dt <? 0) eqn:D; [lia|]. cbn [fst]. unfold sweep.
  destruct (sweep_fold (due (s_now (set_now s (s_now s + dt))) (s_queue (set_now s (s_now s + dt))))
              (set_now s (s_now s + dt)) (inv_core_set_now _ _ Hc)) as [_ [_ [_ [_ [_ [_ I7]]]]]].
  unfold absent. apply (I7 r e Hr He). apply In_due. cbn [set_now s_now s_queue]. split; [|exact Hlt].
  apply (ic_queue _ Hc). exact Hr. exact He.
Qed.

Lemma lookup_lists_holder : forall s r universe,
  inv s -> In r (s_recs s) -> In (a_acct r) universe ->
  In (a_acct r) (accounts_by_attribute s (a_name r) universe).
Proof.
  intros s r u [Hc _] Hr Hu. unfold accounts_by_attribute. apply filter_In. split; [exact Hu|].
  pose proof (count_pos_in r _ Hr). pose proof (ic_cnt _ Hc (a_name r) (a_acct r)). lia.
Qed.

(** * The statements over all histories *)
Lemma only_owner_writes_all : forall t0 accts ops o,
  let s := run t0 accts ops in
  snd (step s o) = true ->
  match o with
  | OAdd c _ n _ _ _ _ | OUpdate c _ n _ _ _ _ _ | OUpdateExp c _ n _ _ _
  | ODelete c _ n _ | ODeleteDistinct c _ n _ _ | ODeleteName c n => s_owner s n = Some c
  | OPurge c n => s_owner s n = Some c \/ (s_owner s n = None /\ fst (step s o) = s)
  | _ => True
  end.
Proof. intros t0 accts ops o s H. apply (only_owner_step s o (run_inv t0 accts ops) H). Qed.

Lemma disappears_only_when_all : forall t0 accts ops o r,
  let s := run t0 accts ops in
  let s' := fst (step s o) in
  In r (s_recs s) ->
  (forall r', In r' (s_recs s') -> akey r' <> akey r) ->
  match o with
  | ODelete c a n _ => a_acct r = a /\ a_name r = n /\ s_owner s n = Some c
  | ODeleteDistinct c a n v _ => a_acct r = a /\ a_name r = n /\ a_val r = v /\ s_owner s n = Some c
  | OUpdate c a n ov _ _ _ _ => akey r = (a, n, ov) /\ s_owner s n = Some c
  | ODeleteName c n | OPurge c n => a_name r = n /\ s_owner s n = Some c
  | OBlock dt => exists e, a_exp r = Some e /\ e < s_now s + dt
  | _ => False
  end.
Proof. intros t0 accts ops o r s s' Hr Ha. apply (disappears_step s o r (run_inv t0 accts ops) Hr Ha). Qed.

Lemma lookup_never_omits_all : forall t0 accts ops,
  let s := run t0 accts ops in
  (forall n a, count_recs n a (s_recs s) <= s_cnt s n a) /\
  (forall r universe, In r (s_recs s) -> In (a_acct r) universe ->
                      In (a_acct r) (accounts_by_attribute s (a_name r) universe)).
Proof.
  intros t0 accts ops s. pose proof (run_inv t0 accts ops) as H. split.
  - apply (ic_cnt _ (proj1 H)).
  - intros r u. apply lookup_lists_holder. exact H.
Qed.

Lemma expired_gone_after_sweep_all : forall t0 accts ops r e dt,
  let s := run t0 accts ops in
  In r (s_recs s) -> a_exp r = Some e -> 0 <= dt -> e < s_now s + dt ->
  forall r', In r' (s_recs (fst (step s (OBlock dt)))) -> akey r' <> akey r.
Proof.
  intros t0 accts ops r e dt s Hr He Hdt Hlt.
  apply (expired_gone_step s r e dt (run_inv t0 accts ops) Hr He Hdt Hlt).
Qed.

(** Structural facts used in the statement of C16: at most one record per key, every stored
    expiration has its queue entry, and no attribute lives under an unbound name. *)
Lemma well_formed_all : forall t0 accts ops,
  let s := run t0 accts ops in
  NoDup (map akey (s_recs s)) /\
  (forall r e, In r (s_recs s) -> a_exp r = Some e -> In (e, akey r) (s_queue s)) /\
  (forall r, In r (s_recs s) -> s_owner s (a_name r) <> None).
Proof.
  intros t0 accts ops s. destruct (run_inv t0 accts ops) as [[H1 H2 H3] H4]. auto.
Qed.
