(** Lemmas about the attribute model (Attribute/Attribute.v, composed with Name/Name.v) behind
    property C16.  Part 1: the attribute store on its own — keys, counters, queue, the sweep with
    its limit — none of which depends on how names are owned. *)
From Coq Require Import ZArith NArith List Bool String Ascii Lia ZifyBool.
From PV Require Import Name.Name Proofs.NameProofs Proofs.AttrNameKeyProofs Attribute.Attribute.
Import ListNotations.
Open Scope list_scope.
Open Scope Z_scope.
Ltac Zify.zify_post_hook ::= Z.div_mod_to_equations.

(** * Keys and entries *)
Lemma key_eqb_eq : forall k1 k2, key_eqb k1 k2 = true <-> k1 = k2.
Proof.
  intros [[a1 n1] v1] [[a2 n2] v2]. unfold key_eqb.
  rewrite !andb_true_iff, N.eqb_eq, String.eqb_eq, Z.eqb_eq. split.
  - intros [[-> ->] ->]. reflexivity.
  - intros H. inversion H. auto.
Qed.

Lemma key_eqb_refl : forall k, key_eqb k k = true.
Proof. intros k. apply key_eqb_eq. reflexivity. Qed.

Lemma key_eqb_neq : forall k1 k2, key_eqb k1 k2 = false <-> k1 <> k2.
Proof.
  intros k1 k2. split.
  - intros H E. apply key_eqb_eq in E. congruence.
  - intros H. destruct (key_eqb k1 k2) eqn:E; auto. apply key_eqb_eq in E. contradiction.
Qed.

Lemma entry_eqb_eq : forall x y, entry_eqb x y = true <-> x = y.
Proof.
  intros [e1 k1] [e2 k2]. unfold entry_eqb. cbn [fst snd].
  rewrite andb_true_iff, Z.eqb_eq, key_eqb_eq. split.
  - intros [-> ->]. reflexivity.
  - intros H. inversion H. auto.
Qed.

Lemma oz_eqb_eq : forall x y, oz_eqb x y = true <-> x = y.
Proof.
  intros [a|] [b|]; cbn [oz_eqb]; try rewrite Z.eqb_eq; split; intros H;
    try congruence; try discriminate; auto.
Qed.

Lemma key_eq_dec : forall x y : key, {x = y} + {x <> y}.
Proof. intros x y. destruct (key_eqb x y) eqn:E; [left; apply key_eqb_eq; exact E|right; apply key_eqb_neq; exact E]. Qed.

Lemma attr_eq_dec : forall x y : attr, {x = y} + {x <> y}.
Proof. decide equality; try apply Z.eq_dec; try apply N.eq_dec; try apply string_dec. decide equality. apply Z.eq_dec. Qed.

Lemma entry_eq_dec : forall x y : entry, {x = y} + {x <> y}.
Proof. intros x y. destruct (entry_eqb x y) eqn:E; [left; apply entry_eqb_eq; exact E|right]. intros H. apply entry_eqb_eq in H. congruence. Qed.

(** * Records *)
Lemma In_remove_key : forall k l r, In r (remove_key k l) <-> In r l /\ akey r <> k.
Proof.
  intros k l r. unfold remove_key. rewrite filter_In, negb_true_iff, key_eqb_neq. tauto.
Qed.

Lemma In_map_filter : forall {A B} (f : A -> B) p l x, In x (map f (filter p l)) -> In x (map f l).
Proof.
  intros A B f p l x H. apply in_map_iff in H. destruct H as [y [Hy Hin]].
  apply filter_In in Hin. apply in_map_iff. exists y. tauto.
Qed.

Lemma NoDup_map_filter : forall {A B} (f : A -> B) p l, NoDup (map f l) -> NoDup (map f (filter p l)).
Proof.
  intros A B f p l. induction l as [|x t IH]; cbn [map filter]; intros H.
  - constructor.
  - inversion H as [|? ? Hnin Hnd]; subst. destruct (p x); cbn [map].
    + constructor; auto. intros Hin. apply Hnin. eapply In_map_filter; eauto.
    + auto.
Qed.

Lemma NoDup_filter : forall {A} (p : A -> bool) l, NoDup l -> NoDup (filter p l).
Proof.
  intros A p l H. rewrite <- (map_id (filter p l)). apply NoDup_map_filter. rewrite map_id. exact H.
Qed.

Lemma find_rec_some : forall k l r, find_rec k l = Some r -> In r l /\ akey r = k.
Proof.
  intros k l r H. unfold find_rec in H. apply find_some in H. destruct H as [Hin Hk].
  apply key_eqb_eq in Hk. auto.
Qed.

Lemma find_rec_none : forall k l, find_rec k l = None -> forall r, In r l -> akey r <> k.
Proof.
  intros k l H r Hin E. unfold find_rec in H.
  pose proof (find_none _ _ H r Hin) as Hn. cbn beta in Hn. rewrite E, key_eqb_refl in Hn. discriminate.
Qed.

Lemma NoDup_key_unique : forall l r1 r2,
  NoDup (map akey l) -> In r1 l -> In r2 l -> akey r1 = akey r2 -> r1 = r2.
Proof.
  induction l as [|x t IH]; intros r1 r2 Hnd H1 H2 E; [destruct H1|].
  cbn [map] in Hnd. inversion Hnd as [|? ? Hnin Hnd']; subst.
  destruct H1 as [<-|H1], H2 as [<-|H2]; auto.
  - exfalso. apply Hnin. rewrite E. apply in_map. exact H2.
  - exfalso. apply Hnin. rewrite <- E. apply in_map. exact H1.
Qed.

Lemma find_rec_unique : forall l r, NoDup (map akey l) -> In r l -> find_rec (akey r) l = Some r.
Proof.
  intros l r Hnd Hin. destruct (find_rec (akey r) l) as [r'|] eqn:F.
  - apply find_rec_some in F. destruct F as [Hin' E]. f_equal. eapply NoDup_key_unique; eauto.
  - exfalso. eapply find_rec_none; eauto.
Qed.

(** * Counting records of a (name key, account) pair *)
Definition cmatch (n : string) (a : N) (r : attr) : bool := String.eqb (ank (a_name r)) n && N.eqb (a_acct r) a.

Lemma count_recs_eq : forall n a l, count_recs n a l = Z.of_nat (List.length (filter (cmatch n a) l)).
Proof. reflexivity. Qed.

Lemma len_filter_filter_le : forall {A} (p q : A -> bool) l,
  (List.length (filter p (filter q l)) <= List.length (filter p l))%nat.
Proof.
  intros A p q l. induction l as [|x t IH]; cbn [filter]; auto.
  destruct (q x), (p x) eqn:P; cbn [filter List.length]; try rewrite P; cbn [List.length]; lia.
Qed.

Lemma len_filter_filter_lt : forall {A} (p q : A -> bool) l r,
  In r l -> p r = true -> q r = false ->
  (List.length (filter p (filter q l)) + 1 <= List.length (filter p l))%nat.
Proof.
  intros A p q l r. induction l as [|x t IH]; intros Hin Hp Hq; [destruct Hin|].
  destruct Hin as [->|Hin].
  - cbn [filter]. rewrite Hq, Hp. cbn [List.length]. pose proof (len_filter_filter_le p q t). lia.
  - specialize (IH Hin Hp Hq). cbn [filter].
    destruct (q x), (p x) eqn:P; cbn [filter List.length]; try rewrite P; cbn [List.length]; lia.
Qed.

Lemma count_nonneg : forall n a l, 0 <= count_recs n a l.
Proof. intros. rewrite count_recs_eq. lia. Qed.

Lemma count_remove_le : forall n a k l, count_recs n a (remove_key k l) <= count_recs n a l.
Proof.
  intros. rewrite !count_recs_eq. unfold remove_key.
  pose proof (len_filter_filter_le (cmatch n a) (fun r => negb (key_eqb (akey r) k)) l). lia.
Qed.

Lemma cmatch_self : forall r, cmatch (ank (a_name r)) (a_acct r) r = true.
Proof. intros r. unfold cmatch. rewrite String.eqb_refl, N.eqb_refl. reflexivity. Qed.

Lemma count_remove_lt : forall r l, In r l ->
  count_recs (ank (a_name r)) (a_acct r) (remove_key (akey r) l) + 1 <= count_recs (ank (a_name r)) (a_acct r) l.
Proof.
  intros r l Hin. rewrite !count_recs_eq. unfold remove_key.
  pose proof (len_filter_filter_lt (cmatch (ank (a_name r)) (a_acct r))
                (fun x => negb (key_eqb (akey x) (akey r))) l r Hin (cmatch_self r)) as H.
  cbn beta in H. rewrite key_eqb_refl in H. specialize (H eq_refl). lia.
Qed.

Lemma count_cons : forall n a r l,
  count_recs n a (r :: l) = (if cmatch n a r then 1 else 0) + count_recs n a l.
Proof.
  intros. rewrite !count_recs_eq. cbn [filter]. destruct (cmatch n a r); cbn [List.length]; lia.
Qed.

Lemma count_pos_in : forall r l, In r l -> 1 <= count_recs (ank (a_name r)) (a_acct r) l.
Proof.
  intros r l Hin. pose proof (count_remove_lt r l Hin).
  pose proof (count_nonneg (ank (a_name r)) (a_acct r) (remove_key (akey r) l)). lia.
Qed.

(** * Counters *)
Lemma cnt_upd_same : forall f n a v, cnt_upd f n a v n a = v.
Proof. intros. unfold cnt_upd. rewrite String.eqb_refl, N.eqb_refl. reflexivity. Qed.

Lemma cnt_upd_other : forall f n a v n' a', (n', a') <> (n, a) -> cnt_upd f n a v n' a' = f n' a'.
Proof.
  intros. unfold cnt_upd. destruct (String.eqb n' n && N.eqb a' a) eqn:E; auto.
  apply andb_true_iff in E. destruct E as [E1 E2]. apply String.eqb_eq in E1. apply N.eqb_eq in E2.
  subst. contradiction.
Qed.

Lemma cmatch_pair : forall n a r, cmatch n a r = true <-> (n, a) = (ank (a_name r), a_acct r).
Proof.
  intros. unfold cmatch. rewrite andb_true_iff, String.eqb_eq, N.eqb_eq. split.
  - intros [<- <-]. reflexivity.
  - intros H. inversion H. auto.
Qed.

(* the counter after a decrement still covers the records once one record of the pair is gone *)
Lemma cnt_dec_covers : forall f r l n a,
  (forall n a, count_recs n a l <= f n a) -> In r l ->
  count_recs n a (remove_key (akey r) l) <= cnt_dec f (ank (a_name r)) (a_acct r) n a.
Proof.
  intros f r l n a Hc Hin.
  pose proof (count_remove_lt r l Hin) as Hlt.
  pose proof (count_nonneg (ank (a_name r)) (a_acct r) (remove_key (akey r) l)) as Hnn.
  pose proof (Hc (ank (a_name r)) (a_acct r)) as Hr.
  unfold cnt_dec.
  destruct (cmatch n a r) eqn:M.
  - apply cmatch_pair in M. inversion M; subst n a.
    destruct (f (ank (a_name r)) (a_acct r) <=? 0) eqn:E0; [lia|].
    destruct (f (ank (a_name r)) (a_acct r) <=? 1) eqn:E1; rewrite cnt_upd_same; lia.
  - assert (Hne : (n, a) <> (ank (a_name r), a_acct r)).
    { intros E. apply cmatch_pair in E. congruence. }
    pose proof (count_remove_le n a (akey r) l) as Hle. pose proof (Hc n a) as Hna.
    destruct (f (ank (a_name r)) (a_acct r) <=? 0); [lia|].
    destruct (f (ank (a_name r)) (a_acct r) <=? 1); rewrite cnt_upd_other by exact Hne; lia.
Qed.

(** * Queue *)
Lemma In_q_remove : forall x y q, In x (q_remove y q) <-> In x q /\ x <> y.
Proof.
  intros x y q. unfold q_remove. rewrite filter_In, negb_true_iff. split.
  - intros [H1 H2]. split; auto. intros E. subst.
    assert (entry_eqb y y = true) by (apply entry_eqb_eq; reflexivity). congruence.
  - intros [H1 H2]. split; auto. destruct (entry_eqb x y) eqn:E; auto.
    apply entry_eqb_eq in E. contradiction.
Qed.

Lemma In_q_add : forall x q r, In x q -> In x (q_add q r).
Proof.
  intros x q r H. unfold q_add. destruct (a_exp r); auto.
  destruct (existsb _ q); auto. right. exact H.
Qed.

Lemma In_q_add_self : forall q r e, a_exp r = Some e -> In (e, akey r) (q_add q r).
Proof.
  intros q r e H. unfold q_add. rewrite H.
  destruct (existsb (entry_eqb (e, akey r)) q) eqn:E.
  - apply existsb_exists in E. destruct E as [y [Hy Ey]]. apply entry_eqb_eq in Ey. subst. exact Hy.
  - left. reflexivity.
Qed.

Lemma In_q_del_other : forall x q r, In x q -> snd x <> akey r -> In x (q_del q r).
Proof.
  intros x q r H Hk. unfold q_del. destruct (a_exp r); auto.
  apply In_q_remove. split; auto. intros E. subst. cbn [snd] in Hk. contradiction.
Qed.

Lemma NoDup_q_remove : forall x q, NoDup q -> NoDup (q_remove x q).
Proof. intros x q H. unfold q_remove. apply NoDup_filter. exact H. Qed.

Lemma NoDup_q_add : forall q r, NoDup q -> NoDup (q_add q r).
Proof.
  intros q r H. unfold q_add. destruct (a_exp r) as [e|]; [|exact H].
  destruct (existsb (entry_eqb (e, akey r)) q) eqn:E; [exact H|].
  constructor; [|exact H]. intros Hin.
  assert (existsb (entry_eqb (e, akey r)) q = true).
  { apply existsb_exists. exists (e, akey r). split; [exact Hin|apply entry_eqb_eq; reflexivity]. }
  congruence.
Qed.

Lemma NoDup_q_del : forall q r, NoDup q -> NoDup (q_del q r).
Proof. intros q r H. unfold q_del. destruct (a_exp r); [apply NoDup_q_remove|]; exact H. Qed.

(** * The invariants of the attribute store *)
Record inv_core (s : state) : Prop := {
  ic_nodup : NoDup (map akey (s_recs s));
  ic_cnt : forall n a, count_recs n a (s_recs s) <= s_cnt s n a;
  ic_queue : forall r e, In r (s_recs s) -> a_exp r = Some e -> In (e, akey r) (s_queue s);
  ic_qnodup : NoDup (s_queue s) }.

Lemma inv_core_init : forall cfg t0, inv_core (init cfg t0).
Proof.
  intros. constructor; cbn.
  - constructor.
  - intros. lia.
  - intros r e [].
  - constructor.
Qed.

Lemma nodup_put : forall r l, NoDup (map akey l) -> NoDup (map akey (r :: remove_key (akey r) l)).
Proof.
  intros r l H. cbn [map]. constructor.
  - intros Hin. apply in_map_iff in Hin. destruct Hin as [y [Ey Hy]].
    apply In_remove_key in Hy. destruct Hy as [_ Hne]. contradiction.
  - unfold remove_key. apply NoDup_map_filter. exact H.
Qed.

Lemma inv_core_put : forall s r, inv_core s -> inv_core (put s r).
Proof.
  intros s r [Hnd Hc Hq Hqn]. constructor; cbn [put set_store s_recs s_cnt s_queue].
  - apply nodup_put. exact Hnd.
  - intros n a. rewrite count_cons. pose proof (count_remove_le n a (akey r) (s_recs s)) as Hle.
    pose proof (Hc n a) as Hna. unfold cnt_inc.
    destruct (cmatch n a r) eqn:M.
    + apply cmatch_pair in M. inversion M; subst n a. rewrite cnt_upd_same. lia.
    + rewrite cnt_upd_other; [lia|]. intros E. apply cmatch_pair in E. congruence.
  - intros x e [<-|Hin] He.
    + apply In_q_add_self. exact He.
    + apply In_remove_key in Hin. destruct Hin as [Hin _]. apply In_q_add. eauto.
  - apply NoDup_q_add. exact Hqn.
Qed.

Lemma inv_core_del_rec : forall b s r, inv_core s -> In r (s_recs s) -> inv_core (del_rec b s r).
Proof.
  intros b s r [Hnd Hc Hq Hqn] Hin. constructor; cbn [del_rec set_store s_recs s_cnt s_queue].
  - unfold remove_key. apply NoDup_map_filter. exact Hnd.
  - intros n a. apply cnt_dec_covers; auto.
  - intros x e Hx He. apply In_remove_key in Hx. destruct Hx as [Hx Hne].
    destruct b; [apply In_q_del_other|]; eauto.
  - destruct b; [apply NoDup_q_del|]; exact Hqn.
Qed.

(** everything but the attribute store is left alone *)
Definition same_frame (s s' : state) : Prop :=
  s_names s' = s_names s /\ s_now s' = s_now s /\ s_maxlen s' = s_maxlen s.

Lemma same_frame_refl : forall s, same_frame s s.
Proof. intros s. repeat split. Qed.
Lemma same_frame_trans : forall a b c, same_frame a b -> same_frame b c -> same_frame a c.
Proof. intros a b c [H1 [H2 H3]] [H4 [H5 H6]]. repeat split; congruence. Qed.

(** Deleting a list of distinct present records one after the other. *)
Lemma del_fold : forall b l s,
  inv_core s -> NoDup (map akey l) -> incl l (s_recs s) ->
  let s' := fold_left (del_rec b) l s in
  inv_core s' /\
  (forall x, In x (s_recs s') <-> In x (s_recs s) /\ ~ In (akey x) (map akey l)) /\
  same_frame s s' /\
  (forall x, In x (s_queue s') -> In x (s_queue s)) /\
  (b = false -> s_queue s' = s_queue s).
Proof.
  intros b l. induction l as [|h t IH]; intros s Hinv Hnd Hincl; cbn [fold_left].
  - split; [exact Hinv|]. split.
    + intros x. split; [intros H; split; [exact H|intros []] | intros [H _]; exact H].
    + repeat split; auto.
  - cbn [map] in Hnd. inversion Hnd as [|? ? Hnin Hnd']; subst.
    assert (Hh : In h (s_recs s)) by (apply Hincl; left; reflexivity).
    assert (Hincl' : incl t (s_recs (del_rec b s h))).
    { intros x Hx. cbn [del_rec set_store s_recs]. apply In_remove_key. split.
      - apply Hincl. right. exact Hx.
      - intros E. apply Hnin. rewrite <- E. apply in_map. exact Hx. }
    destruct (IH (del_rec b s h) (inv_core_del_rec b s h Hinv Hh) Hnd' Hincl')
      as [I1 [I2 [I3 [I6 I7]]]].
    cbn zeta. split; [exact I1|]. split; [intros x; split|split; [|split]].
    + intros Hx. apply I2 in Hx. destruct Hx as [Hx Hn]. cbn [del_rec set_store s_recs] in Hx.
      apply In_remove_key in Hx. split; [tauto|]. cbn [map].
      intros [E|E]; [destruct Hx as [_ Hx]; congruence|tauto].
    + intros [Hx Hn]. apply I2. cbn [map] in Hn. split.
      * cbn [del_rec set_store s_recs]. apply In_remove_key. split; [exact Hx|].
        intros E. apply Hn. left. symmetry. exact E.
      * intros Hin. apply Hn. right. exact Hin.
    + eapply same_frame_trans; [|exact I3]. repeat split.
    + intros x Hx. apply I6 in Hx. cbn [del_rec set_store s_queue] in Hx.
      destruct b; auto. unfold q_del in Hx. destruct (a_exp h); auto.
      apply In_q_remove in Hx. tauto.
    + intros Hb. rewrite (I7 Hb). subst b. reflexivity.
Qed.

Lemma del_filter : forall b p s,
  inv_core s ->
  let s' := fold_left (del_rec b) (filter p (s_recs s)) s in
  inv_core s' /\
  (forall x, In x (s_recs s') <-> In x (s_recs s) /\ p x = false) /\
  same_frame s s' /\
  (forall x, In x (s_queue s') -> In x (s_queue s)) /\
  (b = false -> s_queue s' = s_queue s).
Proof.
  intros b p s Hinv.
  destruct (del_fold b (filter p (s_recs s)) s Hinv) as [I1 [I2 I3]].
  - apply NoDup_map_filter. apply Hinv.
  - intros x Hx. apply filter_In in Hx. tauto.
  - cbn zeta. split; [exact I1|]. split; [|exact I3].
    intros x. rewrite I2. split.
    + intros [Hx Hn]. split; auto. destruct (p x) eqn:P; auto. exfalso. apply Hn.
      apply in_map. apply filter_In. auto.
    + intros [Hx P]. split; auto. intros Hin. apply in_map_iff in Hin.
      destruct Hin as [y [Ey Hy]]. apply filter_In in Hy. destruct Hy as [Hy Py].
      assert (y = x) by (eapply NoDup_key_unique; eauto; apply Hinv). subst. congruence.
Qed.

(** * The begin-block sweep *)
Lemma inv_core_same_store : forall s s',
  s_recs s' = s_recs s -> s_cnt s' = s_cnt s -> s_queue s' = s_queue s -> inv_core s -> inv_core s'.
Proof.
  intros s s' E1 E2 E3 [Hnd Hc Hq Hqn]. constructor; rewrite ?E1, ?E2, ?E3; auto.
Qed.

Lemma sweep_entry_facts : forall s x,
  inv_core s ->
  let s' := sweep_entry s x in
  inv_core s' /\
  (forall r, In r (s_recs s') -> In r (s_recs s)) /\
  same_frame s s' /\
  (forall r, In r (s_recs s) -> ~ In r (s_recs s') -> a_exp r = Some (fst x) /\ akey r = snd x) /\
  (forall r, In r (s_recs s) -> a_exp r = Some (fst x) -> akey r = snd x ->
             forall r', In r' (s_recs s') -> akey r' <> akey r).
Proof.
  intros s [e k] Hinv. cbn zeta. unfold sweep_entry. cbn [fst snd].
  destruct (find_rec k (s_recs s)) as [r0|] eqn:F.
  - pose proof (find_rec_some _ _ _ F) as [Hin0 Hk0].
    destruct (oz_eqb (a_exp r0) (Some e)) eqn:E.
    + apply oz_eqb_eq in E.
      split; [apply inv_core_del_rec; auto|].
      cbn [del_rec set_store s_recs].
      split; [intros r Hr; apply In_remove_key in Hr; tauto|].
      split; [repeat split|]. split.
      * intros r Hr Hn.
        assert (Ek : akey r = akey r0).
        { destruct (key_eqb (akey r) (akey r0)) eqn:K; [apply key_eqb_eq; exact K|].
          exfalso. apply Hn. apply In_remove_key. split; auto. apply key_eqb_neq. exact K. }
        assert (r = r0) by (eapply NoDup_key_unique; eauto; apply Hinv). subst. auto.
      * intros r Hr He Hk r' Hr'. apply In_remove_key in Hr'. destruct Hr' as [_ Hne]. congruence.
    + assert (Hstale : forall r, In r (s_recs s) -> akey r = k -> a_exp r <> Some e).
      { intros r Hr Hk He. assert (r = r0) by (eapply NoDup_key_unique; eauto; [apply Hinv|congruence]).
        subst. apply oz_eqb_eq in He. congruence. }
      split.
      { destruct Hinv as [Hnd Hc Hq Hqn]. constructor; cbn [set_store s_recs s_cnt s_queue]; auto.
        - intros r e' Hr He'. apply In_q_remove. split; eauto.
          intros Eq. inversion Eq; subst. eapply Hstale; eauto.
        - apply NoDup_q_remove. exact Hqn. }
      cbn [set_store s_recs].
      split; [auto|]. split; [repeat split|]. split.
      * intros r Hr Hn. contradiction.
      * intros r Hr He Hk. exfalso. eapply Hstale; eauto.
  - pose proof (find_rec_none _ _ F) as Hnone.
    split.
    { destruct Hinv as [Hnd Hc Hq Hqn]. constructor; cbn [set_store s_recs s_cnt s_queue]; auto.
      - intros r e' Hr He'. apply In_q_remove. split; eauto.
        intros Eq. inversion Eq; subst. eapply Hnone; eauto.
      - apply NoDup_q_remove. exact Hqn. }
    cbn [set_store s_recs].
    split; [auto|]. split; [repeat split|]. split.
    + intros r Hr Hn. contradiction.
    + intros r Hr He Hk. exfalso. eapply Hnone; eauto.
Qed.

Lemma sweep_fold : forall L s,
  inv_core s ->
  let s' := fold_left sweep_entry L s in
  inv_core s' /\
  (forall r, In r (s_recs s') -> In r (s_recs s)) /\
  same_frame s s' /\
  (forall r, In r (s_recs s) -> ~ In r (s_recs s') -> exists e, a_exp r = Some e /\ In (e, akey r) L) /\
  (forall r e, In r (s_recs s) -> a_exp r = Some e -> In (e, akey r) L ->
               forall r', In r' (s_recs s') -> akey r' <> akey r).
Proof.
  induction L as [|h t IH]; intros s Hinv; cbn [fold_left]; cbn zeta.
  - split; [exact Hinv|]. split; [auto|]. split; [apply same_frame_refl|]. split.
    + intros r Hr Hn. contradiction.
    + intros r e Hr He [].
  - destruct (sweep_entry_facts s h Hinv) as [F1 [F2 [F3 [F6 F7]]]].
    destruct (IH (sweep_entry s h) F1) as [I1 [I2 [I3 [I6 I7]]]].
    split; [exact I1|]. split; [auto|]. split; [eapply same_frame_trans; eauto|]. split.
    + intros r Hr Hn. destruct (in_dec attr_eq_dec r (s_recs (sweep_entry s h))) as [Hin|Hnin].
      * destruct (I6 r Hin Hn) as [e [He Hl]]. exists e. split; auto. right. exact Hl.
      * destruct (F6 r Hr Hnin) as [He Hk]. exists (fst h). split; auto. left.
        rewrite Hk. destruct h; reflexivity.
    + intros r e Hr He Hl r' Hr'.
      destruct (in_dec attr_eq_dec r (s_recs (sweep_entry s h))) as [Hin|Hnin].
      * destruct Hl as [Eh|Hl].
        -- apply (F7 r Hr); [subst h; exact He|subst h; reflexivity|]. apply I2. exact Hr'.
        -- eapply I7; eauto.
      * destruct (F6 r Hr Hnin) as [He' Hk]. apply (F7 r Hr He' Hk). apply I2. exact Hr'.
Qed.

(** ** the limit: the loop processes a prefix of the due entries; it stops early only after
    [limit] records have been deleted *)
Definition expired (t : Z) (r : attr) : bool :=
  match a_exp r with Some e => e <? t | None => false end.
Definition ecount (t : Z) (s : state) : Z := Z.of_nat (List.length (filter (expired t) (s_recs s))).

Lemma len_filter_remove_unique : forall (p : attr -> bool) l r,
  NoDup (map akey l) -> In r l -> p r = true ->
  (List.length (filter p (remove_key (akey r) l)) + 1 = List.length (filter p l))%nat.
Proof.
  intros p l r. induction l as [|x t IH]; intros Hnd Hin Hp; [destruct Hin|].
  cbn [map] in Hnd. inversion Hnd as [|? ? Hnin Hnd']; subst.
  unfold remove_key in *. cbn [filter]. destruct Hin as [->|Hin].
  - rewrite key_eqb_refl. cbn [negb]. rewrite Hp. cbn [List.length].
    assert (E : filter (fun r0 => negb (key_eqb (akey r0) (akey r))) t = t).
    { clear - Hnin. induction t as [|y t' IHt]; [reflexivity|]. cbn [filter].
      destruct (key_eqb (akey y) (akey r)) eqn:K.
      - exfalso. apply Hnin. apply key_eqb_eq in K. rewrite <- K. left. reflexivity.
      - cbn [negb]. f_equal. apply IHt. intros H. apply Hnin. right. exact H. }
    rewrite E. lia.
  - assert (K : key_eqb (akey x) (akey r) = false).
    { apply key_eqb_neq. intros E. apply Hnin. rewrite E. apply in_map. exact Hin. }
    rewrite K. cbn [negb filter]. specialize (IH Hnd' Hin Hp).
    destruct (p x); cbn [List.length]; lia.
Qed.

Lemma sweep_entry_count : forall t s x,
  inv_core s -> fst x < t ->
  ecount t (sweep_entry s x) = ecount t s - (if sweep_deletes s x then 1 else 0).
Proof.
  intros t s [e k] Hinv Hlt. unfold sweep_entry, sweep_deletes, ecount. cbn [fst snd] in *.
  destruct (find_rec k (s_recs s)) as [r0|] eqn:F; [|cbn [set_store s_recs]; lia].
  destruct (oz_eqb (a_exp r0) (Some e)) eqn:E; [|cbn [set_store s_recs]; lia].
  apply oz_eqb_eq in E. apply find_rec_some in F. destruct F as [Hin _].
  cbn [del_rec set_store s_recs].
  pose proof (len_filter_remove_unique (expired t) (s_recs s) r0 (ic_nodup _ Hinv) Hin) as H.
  assert (Hex : expired t r0 = true) by (unfold expired; rewrite E; lia).
  specialize (H Hex). lia.
Qed.

Lemma sweep_loop_prefix : forall t limit L count s,
  inv_core s -> Forall (fun x => fst x < t) L ->
  exists L1 L2, L = L1 ++ L2 /\
    sweep_loop limit count L s = fold_left sweep_entry L1 s /\
    (L2 = [] \/ (limit <> 0 /\ limit <= count + (ecount t s - ecount t (sweep_loop limit count L s)))).
Proof.
  intros t limit L. induction L as [|x T IH]; intros count s Hinv Hall.
  - exists [], []. repeat split. left. reflexivity.
  - inversion Hall as [|? ? Hx HT]; subst. cbn [sweep_loop].
    pose proof (sweep_entry_count t s x Hinv Hx) as Hc.
    destruct (sweep_entry_facts s x Hinv) as [Hinv1 _].
    set (count' := if sweep_deletes s x then count + 1 else count) in *.
    destruct (negb (sweep_stale s x) && negb (limit =? 0) && (limit <=? count')) eqn:B.
    + exists [x], T. split; [reflexivity|]. split; [reflexivity|]. right.
      apply andb_true_iff in B. destruct B as [B B3]. apply andb_true_iff in B. destruct B as [_ B2].
      split; [lia|]. subst count'. destruct (sweep_deletes s x); lia.
    + destruct (IH count' (sweep_entry s x) Hinv1 HT) as [L1 [L2 [E1 [E2 E3]]]].
      exists (x :: L1), L2. split; [rewrite E1; reflexivity|]. split; [exact E2|].
      destruct E3 as [E3|[E3 E4]]; [left; exact E3|right]. split; [exact E3|].
      subst count'. destruct (sweep_deletes s x); lia.
Qed.

Lemma In_due : forall t q e k, In (e, k) (due t q) <-> In (e, k) q /\ e < t.
Proof. intros. unfold due. rewrite filter_In. cbn [fst]. rewrite Z.ltb_lt. tauto. Qed.

Lemma In_insert_entry : forall cfg x y l, In x (insert_entry cfg y l) <-> x = y \/ In x l.
Proof.
  intros cfg x y l. induction l as [|h t IH]; cbn [insert_entry].
  - cbn. intuition congruence.
  - destruct (entry_ltb cfg h y); cbn [In]; [rewrite IH|]; intuition congruence.
Qed.

Lemma In_sort_entries : forall cfg x l, In x (sort_entries cfg l) <-> In x l.
Proof.
  intros cfg x l. induction l as [|h t IH]; [tauto|]. unfold sort_entries in *. cbn [fold_right].
  rewrite In_insert_entry, IH. cbn [In]. intuition congruence.
Qed.

Lemma due_sorted_all_lt : forall cfg t q, Forall (fun x => fst x < t) (sort_entries cfg (due t q)).
Proof.
  intros cfg t q. apply Forall_forall. intros [e k] H. apply In_sort_entries in H.
  apply In_due in H. cbn [fst]. tauto.
Qed.

(** what one sweep does, whatever the limit; [T] is any time not before the block time (the
    count of deleted records is the same measured against any such time) *)
Lemma sweep_facts_at : forall cfg limit s T,
  inv_core s -> s_now s <= T ->
  let s' := sweep cfg limit s in
  inv_core s' /\
  (forall r, In r (s_recs s') -> In r (s_recs s)) /\
  same_frame s s' /\
  (forall r, In r (s_recs s) -> ~ In r (s_recs s') -> exists e, a_exp r = Some e /\ e < s_now s) /\
  ((forall r, In r (s_recs s) -> expired (s_now s) r = true ->
              forall r', In r' (s_recs s') -> akey r' <> akey r) \/
   (limit <> 0 /\ limit <= ecount T s - ecount T s')).
Proof.
  intros cfg limit s T Hinv HT. cbn zeta. unfold sweep.
  set (L := sort_entries cfg (due (s_now s) (s_queue s))).
  assert (HL : Forall (fun x => fst x < T) L).
  { pose proof (due_sorted_all_lt cfg (s_now s) (s_queue s)) as H. fold L in H.
    eapply Forall_impl; [|exact H]. cbn beta. intros x Hx. lia. }
  destruct (sweep_loop_prefix T limit L 0 s Hinv HL) as [L1 [L2 [E1 [E2 E3]]]].
  rewrite E2 in *.
  destruct (sweep_fold L1 s Hinv) as [I1 [I2 [I3 [I6 I7]]]].
  split; [exact I1|]. split; [exact I2|]. split; [exact I3|]. split.
  - intros r Hr Hn. destruct (I6 r Hr Hn) as [e [He Hl]]. exists e. split; [exact He|].
    assert (HinL : In (e, akey r) L) by (rewrite E1; apply in_or_app; left; exact Hl).
    apply In_sort_entries in HinL. apply In_due in HinL. tauto.
  - destruct E3 as [E3|[E3 E4]]; [left|right; split; [exact E3|lia]].
    subst L2. rewrite app_nil_r in E1. subst L1.
    intros r Hr Hex. unfold expired in Hex. destruct (a_exp r) as [e|] eqn:He; [|discriminate].
    apply (I7 r e Hr He). apply In_sort_entries. apply In_due. split; [|lia].
    apply (ic_queue _ Hinv); assumption.
Qed.

Lemma sweep_facts : forall cfg limit s,
  inv_core s ->
  let s' := sweep cfg limit s in
  inv_core s' /\
  (forall r, In r (s_recs s') -> In r (s_recs s)) /\
  same_frame s s' /\
  (forall r, In r (s_recs s) -> ~ In r (s_recs s') -> exists e, a_exp r = Some e /\ e < s_now s) /\
  ((forall r, In r (s_recs s) -> expired (s_now s) r = true ->
              forall r', In r' (s_recs s') -> akey r' <> akey r) \/
   (limit <> 0 /\ limit <= ecount (s_now s) s - ecount (s_now s) s')).
Proof. intros cfg limit s Hinv. apply sweep_facts_at; [exact Hinv|lia]. Qed.

Lemma ecount_pos : forall t s r, In r (s_recs s) -> expired t r = true -> 1 <= ecount t s.
Proof.
  intros t s r Hr He. unfold ecount.
  assert (In r (filter (expired t) (s_recs s))) by (apply filter_In; auto).
  destruct (filter (expired t) (s_recs s)); [contradiction|]. cbn [List.length]. lia.
Qed.

Lemma ecount_nonneg : forall t s, 0 <= ecount t s.
Proof. intros. unfold ecount. lia. Qed.

(** the clause of the property: under "no more attributes have expired than the limit allows"
    (or no limit) every expired attribute is gone after the sweep *)
Lemma sweep_expired_gone : forall cfg limit s r,
  inv_core s -> (limit = 0 \/ ecount (s_now s) s <= limit) ->
  In r (s_recs s) -> expired (s_now s) r = true ->
  forall r', In r' (s_recs (sweep cfg limit s)) -> akey r' <> akey r.
Proof.
  intros cfg limit s r Hinv Hlim Hr Hex r' Hr' Ek.
  destruct (sweep_facts cfg limit s Hinv) as [I1 [I2 [_ [_ [I5|[I5 I6]]]]]].
  - exact (I5 r Hr Hex r' Hr' Ek).
  - destruct Hlim as [Hlim|Hlim]; [contradiction|].
    assert (r' = r) by (apply (NoDup_key_unique (s_recs s)); auto; apply Hinv). subst r'.
    pose proof (ecount_pos _ _ _ Hr' Hex). lia.
Qed.

(** * Part 2: what each keeper entry point does (inversion lemmas) *)
Definition the_attr (a : N) (n : string) (v ty : Z) (e : option Z) : attr :=
  {| a_acct := a; a_name := n; a_val := v; a_type := ty; a_exp := e |}.

Lemma set_attribute_spec : forall cfg s c a name v ty e s',
  set_attribute cfg s c a name v ty e = Some s' ->
  exists n, norm cfg name = Some n /\ resolves s n c = true /\ c_has_acct cfg c = true /\
            s' = put s (the_attr a n v ty e).
Proof.
  intros cfg s c a name v ty e s' H. unfold set_attribute in H.
  destruct (exp_ok (s_now s) e && attr_basic cfg a name ty && (c_vlen cfg v <=? s_maxlen s)); [|discriminate].
  destruct (norm cfg name) as [n|]; [|discriminate].
  destruct (c_has_acct cfg c && resolves s n c) eqn:G; [|discriminate].
  apply andb_true_iff in G. destruct G as [G1 G2]. injection H as <-. exists n. auto.
Qed.

Lemma update_attribute_spec : forall cfg s c a name ov oty nv nty s',
  update_attribute cfg s c a name ov oty nv nty = Some s' ->
  exists n cur, norm cfg name = Some n /\ resolves s n c = true /\ c_has_acct cfg c = true /\
                In cur (s_recs s) /\ akey cur = (a, ank name, ov) /\
                s' = put (del_rec true s cur) (the_attr a n nv nty None).
Proof.
  intros cfg s c a name ov oty nv nty s' H. unfold update_attribute in H.
  destruct (attr_basic cfg a name oty && type_ok nty && (c_vlen cfg nv <=? s_maxlen s)); [|discriminate].
  destruct (norm cfg name) as [n|]; [|discriminate].
  destruct (c_has_acct cfg c && resolves s n c) eqn:G; [|discriminate].
  apply andb_true_iff in G. destruct G as [G1 G2].
  destruct (find_rec (a, ank name, ov) (s_recs s)) as [cur|] eqn:F; [|discriminate].
  destruct (a_type cur =? oty); [|discriminate]. injection H as <-.
  apply find_rec_some in F. destruct F as [F1 F2]. exists n, cur. auto 10.
Qed.

Lemma update_expiration_spec : forall cfg s c a name v e s',
  update_expiration cfg s c a name v e = Some s' ->
  exists n cur, norm cfg name = Some n /\ resolves s n c = true /\ c_has_acct cfg c = true /\
                In cur (s_recs s) /\ akey cur = (a, ank n, v) /\
                s' = set_store s (with_exp cur e :: remove_key (akey cur) (s_recs s)) (s_cnt s)
                               (q_add (q_del (s_queue s) cur) (with_exp cur e)).
Proof.
  intros cfg s c a name v e s' H. unfold update_expiration in H.
  destruct (exp_ok (s_now s) e && negb (blank name) && holder_ok cfg a); [|discriminate].
  destruct (norm cfg name) as [n|]; [|discriminate].
  destruct (c_has_acct cfg c && resolves s n c) eqn:G; [|discriminate].
  apply andb_true_iff in G. destruct G as [G1 G2].
  destruct (find_rec (a, ank n, v) (s_recs s)) as [cur|] eqn:F; [|discriminate].
  injection H as <-. apply find_rec_some in F. destruct F as [F1 F2]. exists n, cur. auto 10.
Qed.

Lemma delete_k_spec : forall cfg s c a name ov s',
  delete_attribute_k cfg s c a name ov = Some s' ->
  may_remove cfg s c name = true /\
  (exists r, In r (s_recs s) /\ delete_matches a name ov r = true) /\
  s' = fold_left (del_rec true) (filter (delete_matches a name ov) (s_recs s)) s.
Proof.
  intros cfg s c a name ov s' H. unfold delete_attribute_k in H.
  destruct (may_remove cfg s c name); [|discriminate]. split; [reflexivity|].
  destruct (filter (delete_matches a name ov) (s_recs s)) as [|x t] eqn:Fl; [discriminate|].
  injection H as <-. split; [|reflexivity].
  exists x. apply filter_In. rewrite Fl. left. reflexivity.
Qed.

Lemma delete_msg_spec : forall cfg s c a name ov s',
  delete_attribute cfg s c a name ov = Some s' -> delete_attribute_k cfg s c a name ov = Some s'.
Proof.
  intros cfg s c a name ov s' H. unfold delete_attribute in H.
  destruct (negb (blank name) && holder_ok cfg a); [exact H|discriminate].
Qed.

Definition purge_matches (s : state) (name : string) (r : attr) : bool :=
  String.eqb (ank (a_name r)) (ank name) && (0 <? s_cnt s (ank name) (a_acct r)).

Lemma purge_spec : forall cfg s c name s',
  purge_attribute cfg s c name = Some s' ->
  may_remove cfg s c name = true /\
  s' = fold_left (del_rec false) (filter (purge_matches s name) (s_recs s)) s.
Proof.
  intros cfg s c name s' H. unfold purge_attribute in H.
  destruct (may_remove cfg s c name); [|discriminate]. destruct (negb (blank name)); [|discriminate].
  injection H as <-. split; reflexivity.
Qed.

(** a delete removes exactly the matching records; a purge exactly the records of that name key *)
Lemma delete_k_removes : forall cfg s c a name ov s',
  inv_core s -> delete_attribute_k cfg s c a name ov = Some s' ->
  inv_core s' /\ same_frame s s' /\
  (forall x, In x (s_recs s') <-> In x (s_recs s) /\ delete_matches a name ov x = false).
Proof.
  intros cfg s c a name ov s' Hc H. destruct (delete_k_spec _ _ _ _ _ _ _ H) as [_ [_ ->]].
  destruct (del_filter true (delete_matches a name ov) s Hc) as [I1 [I2 [I3 _]]]. auto.
Qed.

Lemma purge_removes : forall cfg s c name s',
  inv_core s -> purge_attribute cfg s c name = Some s' ->
  inv_core s' /\ same_frame s s' /\ s_queue s' = s_queue s /\
  (forall x, In x (s_recs s') <-> In x (s_recs s) /\ ank (a_name x) <> ank name).
Proof.
  intros cfg s c name s' Hc H. destruct (purge_spec _ _ _ _ _ H) as [_ ->].
  destruct (del_filter false (purge_matches s name) s Hc) as [I1 [I2 [I3 [_ I5]]]].
  split; [exact I1|]. split; [exact I3|]. split; [exact (I5 eq_refl)|].
  intros x. rewrite I2. split; intros [Hx Hp]; (split; [exact Hx|]).
  - intros E. unfold purge_matches in Hp. rewrite E, String.eqb_refl in Hp. cbn [andb] in Hp.
    pose proof (count_pos_in x _ Hx). pose proof (ic_cnt _ Hc (ank (a_name x)) (a_acct x)).
    rewrite E in *. lia.
  - unfold purge_matches. destruct (String.eqb_spec (ank (a_name x)) (ank name)); [contradiction|reflexivity].
Qed.

Lemma inv_core_update_exp : forall s cur e,
  inv_core s -> In cur (s_recs s) ->
  inv_core (set_store s (with_exp cur e :: remove_key (akey cur) (s_recs s)) (s_cnt s)
                      (q_add (q_del (s_queue s) cur) (with_exp cur e))).
Proof.
  intros s cur e [Hnd Hc Hq Hqn] Hin.
  constructor; cbn [set_store s_recs s_cnt s_queue].
  - change (akey cur) with (akey (with_exp cur e)). apply nodup_put. exact Hnd.
  - intros n a. rewrite count_cons. change (cmatch n a (with_exp cur e)) with (cmatch n a cur).
    pose proof (Hc n a) as Hna. pose proof (count_remove_le n a (akey cur) (s_recs s)) as Hle.
    destruct (cmatch n a cur) eqn:M; [|lia].
    apply cmatch_pair in M. inversion M; subst n a.
    pose proof (count_remove_lt cur (s_recs s) Hin). lia.
  - intros x e' [<-|Hx] He'.
    + apply In_q_add_self. exact He'.
    + apply In_remove_key in Hx. destruct Hx as [Hx Hne].
      apply In_q_add. apply In_q_del_other; eauto.
  - apply NoDup_q_add. apply NoDup_q_del. exact Hqn.
Qed.

(** SetAccountData: either nothing changes, or it is a delete of the account's accountdata
    attributes as the module account, and/or a SetAttribute of the new value as the module account *)
Lemma set_account_data_spec : forall cfg s via a v s',
  set_account_data cfg s via a v = Some s' ->
  exists s1,
    (s1 = s \/ delete_attribute_k cfg s mod_addr a account_data_name None = Some s1) /\
    (s' = s1 \/ set_attribute cfg s1 mod_addr a account_data_name v 3 None = Some s').
Proof.
  intros cfg s via a v s' H. unfold set_account_data in H.
  destruct (via && negb (plain_acct cfg a)); [discriminate|].
  destruct (get_attributes s a account_data_name) as [ex|]; [|discriminate].
  destruct ex as [|x t].
  - exists s. split; [left; reflexivity|]. destruct (v =? 0); [left; congruence|right; exact H].
  - destruct (delete_attribute_k cfg s mod_addr a account_data_name None) as [s1|] eqn:D; [|discriminate].
    exists s1. split; [right; reflexivity|]. destruct (v =? 0); [left; congruence|right; exact H].
Qed.

(** * Part 3: the invariants that involve the name module *)
Definition ninv (cfg : config) (s : state) : Prop := NameProofs.inv idh (c_params cfg) (s_names s).
(** every stored attribute name is a normal form *)
Definition normal (cfg : config) (s : state) : Prop :=
  forall r, In r (s_recs s) -> exists raw, norm cfg raw = Some (a_name r).
(** every stored attribute's name is bound: the name module holds a record with exactly that name *)
Definition named (s : state) : Prop :=
  forall r, In r (s_recs s) ->
    exists nr, get_record idh (s_names s) (a_name r) = Some nr /\ r_name nr = a_name r.
(** all names in the two stores come from the universe [U] *)
Definition names_in (U : list string) (s : state) : Prop :=
  (forall k nr, rget (s_names s) k = Some nr -> In (r_name nr) U) /\
  (forall r, In r (s_recs s) -> In (a_name r) U).
(** no two names of [U] share a name-module key (C15's known finding is the failure of this for
    e.g. aa.bbcc / ccaa.bb) *)
Definition coll_free (U : list string) : Prop :=
  forall n1 n2, In n1 U -> In n2 U -> name_key_preimage n1 = name_key_preimage n2 -> n1 = n2.
(** the names an operation mentions, in normal form, belong to [U] *)
Definition op_in (cfg : config) (U : list string) (o : op) : Prop :=
  match o with
  | OBind parent _ child _ _ => forall n, norm cfg (child ++ "." ++ parent)%string = Some n -> In n U
  | OModifyName _ name _ _ | ODeleteName name _ | OAdd _ _ name _ _ _ | OUpdate _ _ name _ _ _ _
  | OUpdateExp _ _ name _ _ | ODelete _ _ name | ODeleteDistinct _ _ name _ | OPurge _ name =>
      forall n, norm cfg name = Some n -> In n U
  | OSetAccountData _ _ _ => In account_data_name U
  | _ => True
  end.

Record inv0 (cfg : config) (s : state) : Prop := {
  i_core : inv_core s; i_names : ninv cfg s; i_normal : normal cfg s }.
Definition inv1 (U : list string) (s : state) : Prop := named s /\ names_in U s.

Lemma get_record_key : forall ns n nr,
  get_record idh ns n = Some nr <-> exists k, name_key_preimage n = Some k /\ rget ns k = Some nr.
Proof.
  intros ns n nr. unfold get_record, name_key, idh. destruct (name_key_preimage n) as [k|].
  - split; [intros H; exists k; auto|intros [k' [E H]]; injection E as ->; exact H].
  - split; [discriminate|intros [k' [E _]]; discriminate].
Qed.

Lemma name_key_idh : forall n k, name_key idh n = Some k <-> name_key_preimage n = Some k.
Proof. intros n k. unfold name_key, idh. destruct (name_key_preimage n); tauto. Qed.

(** under collision freedom a record found under a name's key is the record OF that name *)
Lemma exact_record : forall cfg U s n nr,
  ninv cfg s -> coll_free U -> names_in U s -> In n U ->
  get_record idh (s_names s) n = Some nr -> r_name nr = n.
Proof.
  intros cfg U s n nr Hn Hcf [Hu _] Hin H. apply get_record_key in H. destruct H as [k [Ek Hk]].
  destruct (inv_key _ _ _ Hn k nr Hk) as [Hkey _]. apply name_key_idh in Hkey.
  apply Hcf; [eapply Hu; eauto|exact Hin|congruence].
Qed.

Lemma resolves_record : forall s n c,
  resolves s n c = true -> exists nr, get_record idh (s_names s) n = Some nr /\ r_addr nr = c.
Proof.
  intros s n c H. unfold resolves, resolves_to in H.
  destruct (get_record idh (s_names s) n) as [nr|]; [|discriminate].
  exists nr. split; [reflexivity|]. apply N.eqb_eq. exact H.
Qed.

Lemma owner_of_exact : forall s n nr, get_record idh (s_names s) n = Some nr -> r_name nr = n ->
  owner_of s n = Some (r_addr nr).
Proof. intros s n nr H E. unfold owner_of. rewrite H, E, String.eqb_refl. reflexivity. Qed.

Lemma resolves_owner : forall cfg U s n c,
  ninv cfg s -> coll_free U -> names_in U s -> In n U -> resolves s n c = true -> owner_of s n = Some c.
Proof.
  intros cfg U s n c Hn Hcf Hu Hin H. destruct (resolves_record _ _ _ H) as [nr [Hr <-]].
  apply owner_of_exact; [exact Hr|]. eapply exact_record; eauto.
Qed.

(** an operation that leaves the name store alone and whose records carry old names, or a new
    normalised name that resolves to somebody *)
Lemma inv_store_step : forall cfg U s s',
  s_names s' = s_names s ->
  (forall r, In r (s_recs s') ->
     (exists r0, In r0 (s_recs s) /\ a_name r0 = a_name r) \/
     (exists raw, norm cfg raw = Some (a_name r))) ->
  ninv cfg s -> normal cfg s ->
  (ninv cfg s' /\ normal cfg s') /\
  (coll_free U ->
   (forall r, In r (s_recs s') ->
     (exists r0, In r0 (s_recs s) /\ a_name r0 = a_name r) \/
     (exists c, In (a_name r) U /\ resolves s (a_name r) c = true)) ->
   inv1 U s -> inv1 U s').
Proof.
  intros cfg U s s' En Hfrom Hn Hnorm. split; [split|].
  - unfold ninv. rewrite En. exact Hn.
  - intros r Hr. destruct (Hfrom r Hr) as [[r0 [H0 E0]]|[raw H]].
    + rewrite <- E0. apply Hnorm. exact H0.
    + exists raw. exact H.
  - intros Hcf Hfrom' [Hnamed Hu]. split; [|split].
    + intros r Hr. rewrite En. destruct (Hfrom' r Hr) as [[r0 [H0 E0]]|[c [HU Hres]]].
      * rewrite <- E0. apply Hnamed. exact H0.
      * destruct (resolves_record _ _ _ Hres) as [nr [Hg _]]. exists nr. split; [exact Hg|].
        eapply exact_record; eauto.
    + rewrite En. apply Hu.
    + intros r Hr. destruct (Hfrom' r Hr) as [[r0 [H0 E0]]|[c [HU _]]]; [|exact HU].
      rewrite <- E0. apply Hu. exact H0.
Qed.

Definition keeps (cfg : config) (U : list string) (s s' : state) (HU : Prop) : Prop :=
  inv0 cfg s' /\ (coll_free U -> HU -> inv1 U s -> inv1 U s').

Lemma In_put : forall s r x, In x (s_recs (put s r)) -> x = r \/ In x (s_recs s).
Proof.
  intros s r x H. cbn [put set_store s_recs] in H. destruct H as [<-|H]; [left; reflexivity|].
  apply In_remove_key in H. tauto.
Qed.

Lemma old_name : forall s x, In x (s_recs s) -> exists r0, In r0 (s_recs s) /\ a_name r0 = a_name x.
Proof. intros s x H. exists x. auto. Qed.

(** the shape shared by all attribute-store operations *)
Lemma store_op_keeps : forall cfg U s s' (HU : Prop),
  inv0 cfg s -> inv_core s' -> s_names s' = s_names s ->
  (forall r, In r (s_recs s') ->
     (exists r0, In r0 (s_recs s) /\ a_name r0 = a_name r) \/
     (exists raw c, norm cfg raw = Some (a_name r) /\ resolves s (a_name r) c = true /\
                    (HU -> In (a_name r) U))) ->
  keeps cfg U s s' HU.
Proof.
  intros cfg U s s' HU [Hc Hn Hnorm] Hc' En Hfrom.
  destruct (inv_store_step cfg U s s' En) as [[I1 I2] I3]; auto.
  - intros r Hr. destruct (Hfrom r Hr) as [H|[raw [c [H _]]]]; [left; exact H|right; exists raw; exact H].
  - split; [constructor; assumption|]. intros Hcf Hu Hi. apply I3; auto.
    intros r Hr. destruct (Hfrom r Hr) as [H|[raw [c [_ [H1 H2]]]]]; [left; exact H|right].
    exists c. auto.
Qed.

Lemma set_attribute_keeps : forall cfg U s c a name v ty e s',
  inv0 cfg s -> set_attribute cfg s c a name v ty e = Some s' ->
  keeps cfg U s s' (forall n, norm cfg name = Some n -> In n U).
Proof.
  intros cfg U s c a name v ty e s' Hi H.
  destruct (set_attribute_spec _ _ _ _ _ _ _ _ _ H) as [n [Hn [Hres [_ ->]]]].
  apply store_op_keeps; auto.
  - apply inv_core_put. apply Hi.
  - intros r Hr. apply In_put in Hr. destruct Hr as [->|Hr]; [right|left; apply old_name; exact Hr].
    exists name, c. cbn [the_attr a_name]. auto.
Qed.

Lemma update_attribute_keeps : forall cfg U s c a name ov oty nv nty s',
  inv0 cfg s -> update_attribute cfg s c a name ov oty nv nty = Some s' ->
  keeps cfg U s s' (forall n, norm cfg name = Some n -> In n U).
Proof.
  intros cfg U s c a name ov oty nv nty s' Hi H.
  destruct (update_attribute_spec _ _ _ _ _ _ _ _ _ _ H) as [n [cur [Hn [Hres [_ [Hcur [_ ->]]]]]]].
  apply store_op_keeps; auto.
  - apply inv_core_put. apply inv_core_del_rec; [apply Hi|exact Hcur].
  - intros r Hr. apply In_put in Hr. destruct Hr as [->|Hr].
    + right. exists name, c. cbn [the_attr a_name]. auto.
    + left. cbn [del_rec set_store s_recs] in Hr. apply In_remove_key in Hr. apply old_name. tauto.
Qed.

Lemma update_expiration_keeps : forall cfg U s c a name v e s' (HU : Prop),
  inv0 cfg s -> update_expiration cfg s c a name v e = Some s' -> keeps cfg U s s' HU.
Proof.
  intros cfg U s c a name v e s' HU Hi H.
  destruct (update_expiration_spec _ _ _ _ _ _ _ _ H) as [n [cur [Hn [Hres [_ [Hcur [_ ->]]]]]]].
  apply store_op_keeps; auto.
  - apply inv_core_update_exp; [apply Hi|exact Hcur].
  - intros r Hr. cbn [set_store s_recs] in Hr. left. destruct Hr as [<-|Hr].
    + exists cur. auto.
    + apply In_remove_key in Hr. apply old_name. tauto.
Qed.

Lemma delete_k_keeps : forall cfg U s c a name ov s' (HU : Prop),
  inv0 cfg s -> delete_attribute_k cfg s c a name ov = Some s' -> keeps cfg U s s' HU.
Proof.
  intros cfg U s c a name ov s' HU Hi H.
  destruct (delete_k_removes _ _ _ _ _ _ _ (i_core _ _ Hi) H) as [I1 [[I2 _] I3]].
  apply store_op_keeps; auto.
  intros r Hr. left. apply old_name. apply I3 in Hr. tauto.
Qed.

Lemma purge_keeps : forall cfg U s c name s' (HU : Prop),
  inv0 cfg s -> purge_attribute cfg s c name = Some s' -> keeps cfg U s s' HU.
Proof.
  intros cfg U s c name s' HU Hi H.
  destruct (purge_removes _ _ _ _ _ (i_core _ _ Hi) H) as [I1 [[I2 _] [_ I3]]].
  apply store_op_keeps; auto.
  intros r Hr. left. apply old_name. apply I3 in Hr. tauto.
Qed.

Lemma keeps_trans : forall cfg U s s1 s2 (H1 H2 : Prop),
  keeps cfg U s s1 H1 -> keeps cfg U s1 s2 H2 -> keeps cfg U s s2 (H1 /\ H2).
Proof.
  intros cfg U s s1 s2 H1 H2 [A1 A2] [B1 B2]. split; [exact B1|].
  intros Hcf [h1 h2] Hi. apply B2; auto.
Qed.

Lemma keeps_weaken : forall cfg U s s' (H1 H2 : Prop),
  (H2 -> H1) -> keeps cfg U s s' H1 -> keeps cfg U s s' H2.
Proof. intros cfg U s s' H1 H2 Himp [A1 A2]. split; [exact A1|]. intros Hcf h2 Hi. apply A2; auto. Qed.

Lemma norm_account_data : forall cfg n, norm cfg account_data_name = Some n -> n = account_data_name.
Proof. intros cfg n H. rewrite (normalize_is_normalize_name _ _ _ H). reflexivity. Qed.

Lemma set_account_data_keeps : forall cfg U s via a v s',
  inv0 cfg s -> set_account_data cfg s via a v = Some s' ->
  keeps cfg U s s' (In account_data_name U).
Proof.
  intros cfg U s via a v s' Hi H.
  destruct (set_account_data_spec _ _ _ _ _ _ H) as [s1 [Hd Hs]].
  assert (K1 : keeps cfg U s s1 True).
  { destruct Hd as [->|Hd]; [split; [exact Hi|auto]|]. eapply delete_k_keeps; eauto. }
  assert (K2 : keeps cfg U s1 s' (In account_data_name U)).
  { destruct Hs as [->|Hs]; [split; [apply K1|auto]|].
    eapply keeps_weaken; [|eapply set_attribute_keeps; [apply K1|exact Hs]].
    intros HU n Hn. rewrite (norm_account_data _ _ Hn). exact HU. }
  eapply keeps_weaken; [|exact (keeps_trans _ _ _ _ _ _ _ K1 K2)]. tauto.
Qed.

(** ** name-module messages *)
Lemma inv_core_set_names : forall s ns, inv_core s -> inv_core (set_names s ns).
Proof. intros s ns H. apply (inv_core_same_store s); auto. Qed.

Lemma named_frame : forall s ns' k,
  named s -> rget (s_names s) k = None ->
  (forall k', k' <> k -> rget ns' k' = rget (s_names s) k') -> named (set_names s ns').
Proof.
  intros s ns' k Hnamed Hnone Hframe r Hr. cbn [set_names s_recs s_names] in *.
  destruct (Hnamed r Hr) as [nr [Hg E]]. exists nr. split; [|exact E].
  apply get_record_key in Hg. destruct Hg as [k0 [Ek Hk]]. apply get_record_key. exists k0.
  split; [exact Ek|]. rewrite Hframe; [exact Hk|]. intros ->. congruence.
Qed.

Lemma bind_keeps : forall cfg U s parent signer child owner restr ns,
  inv0 cfg s -> bind idh (c_params cfg) (s_names s) parent signer child owner restr = Some ns ->
  keeps cfg U s (set_names s ns) (forall n, norm cfg (child ++ "." ++ parent)%string = Some n -> In n U).
Proof.
  intros cfg U s parent signer child owner restr ns [Hc Hn Hnorm] H. split.
  - constructor; [apply inv_core_set_names; exact Hc| |exact Hnorm].
    unfold ninv. cbn [set_names s_names].
    apply (NameProofs.exec_inv idh (c_params cfg) (s_names s) (OpBind parent signer child owner restr)); assumption.
  - intros Hcf HU [Hnamed [Hu1 Hu2]].
    destruct (bind_spec _ _ _ _ _ _ _ _ _ H) as [prec [name [k [_ [_ [En [Ek [Hnone [Hnew Hframe]]]]]]]]].
    split; [eapply named_frame; eauto|]. split; [|exact Hu2].
    intros k' nr. cbn [set_names s_names]. destruct (string_dec k' k) as [->|Hne].
    + rewrite Hnew. intros E. injection E as <-. cbn [r_name]. apply HU. exact En.
    + rewrite Hframe by exact Hne. apply Hu1.
Qed.

Lemma modify_keeps : forall cfg U s signer name owner restr ns,
  inv0 cfg s -> modify idh (c_params cfg) (s_names s) signer name owner restr = Some ns ->
  keeps cfg U s (set_names s ns) (forall n, norm cfg name = Some n -> In n U).
Proof.
  intros cfg U s signer name owner restr ns [Hc Hn Hnorm] H. split.
  - constructor; [apply inv_core_set_names; exact Hc| |exact Hnorm].
    unfold ninv. cbn [set_names s_names].
    apply (NameProofs.exec_inv idh (c_params cfg) (s_names s) (OpModify signer name owner restr)); assumption.
  - intros Hcf HU [Hnamed [Hu1 Hu2]].
    destruct (modify_spec _ _ _ _ _ _ _ _ H) as [ex [n [k [_ [_ [En [Ek [Hnew Hframe]]]]]]]].
    apply name_key_idh in Ek. split; [|split; [|exact Hu2]].
    + intros r Hr. cbn [set_names s_recs s_names] in *.
      destruct (Hnamed r Hr) as [nr [Hg E]]. apply get_record_key in Hg. destruct Hg as [k0 [Ek0 Hk0]].
      destruct (string_dec k0 k) as [->|Hne].
      * eexists. split; [apply get_record_key; exists k; split; [exact Ek0|exact Hnew]|].
        cbn [r_name]. apply Hcf; [apply HU; exact En|apply Hu2; exact Hr|congruence].
      * exists nr. split; [|exact E]. apply get_record_key. exists k0. split; [exact Ek0|].
        rewrite Hframe by exact Hne. exact Hk0.
    + intros k' nr. cbn [set_names s_names]. destruct (string_dec k' k) as [->|Hne].
      * rewrite Hnew. intros E. injection E as <-. cbn [r_name]. apply HU. exact En.
      * rewrite Hframe by exact Hne. apply Hu1.
Qed.

Lemma delete_name_keeps : forall cfg U s name signer ns n s',
  inv0 cfg s -> delete idh (c_params cfg) (s_names s) name signer = Some ns -> norm cfg name = Some n ->
  purge_attribute cfg (set_names s ns) signer n = Some s' ->
  keeps cfg U s s' (forall n, norm cfg name = Some n -> In n U).
Proof.
  intros cfg U s name signer ns n s' [Hc Hn Hnorm] H En Hp.
  assert (Hi1 : inv0 cfg (set_names s ns)).
  { constructor; [apply inv_core_set_names; exact Hc| |exact Hnorm].
    unfold ninv. cbn [set_names s_names].
    apply (NameProofs.exec_inv idh (c_params cfg) (s_names s) (OpDelete name signer)); assumption. }
  destruct (purge_keeps cfg U _ _ _ _ True Hi1 Hp) as [K1 _]. split; [exact K1|].
  intros Hcf HU [Hnamed [Hu1 Hu2]].
  destruct (NameProofs.delete_spec _ _ _ _ _ _ H) as [ex [n' [k [En' [Ek [Hex [_ [Hgone Hframe]]]]]]]].
  unfold norm in En. rewrite En in En'. injection En' as <-. apply name_key_idh in Ek.
  destruct (purge_removes _ _ _ _ _ (i_core _ _ Hi1) Hp) as [_ [[Es _] [_ I3]]].
  cbn [set_names s_names s_recs] in Es, I3.
  split; [|split].
  - intros r Hr. apply I3 in Hr. destruct Hr as [Hr Hne]. rewrite Es.
    destruct (Hnamed r Hr) as [nr [Hg E]]. apply get_record_key in Hg. destruct Hg as [k0 [Ek0 Hk0]].
    destruct (string_dec k0 k) as [->|Hk].
    + exfalso. apply Hne. f_equal. apply Hcf; [apply Hu2; exact Hr|apply HU; exact En|congruence].
    + exists nr. split; [|exact E]. apply get_record_key. exists k0. split; [exact Ek0|].
      rewrite Hframe by exact Hk. exact Hk0.
  - intros k' nr. rewrite Es. destruct (string_dec k' k) as [->|Hne].
    + rewrite Hgone. discriminate.
    + rewrite Hframe by exact Hne. apply Hu1.
  - intros r Hr. apply I3 in Hr. apply Hu2. tauto.
Qed.

(** * Every operation preserves the invariants *)
Lemma exec_keeps : forall cfg U s o s',
  inv0 cfg s -> exec cfg s o = Some s' -> keeps cfg U s s' (op_in cfg U o).
Proof.
  intros cfg U s o s' Hi E. destruct o; cbn [exec op_in] in *.
  - destruct (bind idh (c_params cfg) (s_names s) parent signer child owner restr) as [ns|] eqn:B; [|discriminate].
    injection E as <-. eapply bind_keeps; eauto.
  - destruct (modify idh (c_params cfg) (s_names s) signer name owner restr) as [ns|] eqn:B; [|discriminate].
    injection E as <-. eapply modify_keeps; eauto.
  - destruct (delete idh (c_params cfg) (s_names s) name signer) as [ns|] eqn:B; [|discriminate].
    destruct (norm cfg name) as [n|] eqn:En; [|discriminate]. unfold keeps. rewrite <- En.
    eapply delete_name_keeps; eauto.
  - eapply set_attribute_keeps; eauto.
  - eapply update_attribute_keeps; eauto.
  - eapply update_expiration_keeps; eauto.
  - eapply delete_k_keeps; eauto. apply delete_msg_spec. exact E.
  - eapply delete_k_keeps; eauto. apply delete_msg_spec. exact E.
  - eapply purge_keeps; eauto.
  - eapply set_account_data_keeps; eauto.
  - destruct (N.eqb auth gov); [|discriminate]. injection E as <-.
    apply store_op_keeps; auto.
    + apply (inv_core_same_store s); auto. apply Hi.
    + intros r Hr. left. apply old_name. exact Hr.
  - destruct (dt <? 0); [discriminate|]. injection E as <-.
    destruct (sweep_facts cfg limit (set_now s (s_now s + dt))) as [I1 [I2 [[I3 _] _]]].
    { apply (inv_core_same_store s); auto. apply Hi. }
    apply store_op_keeps; auto.
    intros r Hr. left. apply old_name. apply I2 in Hr. exact Hr.
Qed.

Lemma genesis_ninv : forall cfg, NameProofs.inv idh (c_params cfg) (genesis_names cfg).
Proof.
  intros cfg. unfold genesis_names.
  assert (G : forall l ns, NameProofs.inv idh (c_params cfg) ns ->
            NameProofs.inv idh (c_params cfg)
              (fold_left (fun ns x => let '(n, o, r) := x in
                            match set_name_record idh (c_params cfg) ns n o r with
                            | Some ns' => ns' | None => ns end) l ns)).
  { induction l as [|[[n o] r] t IH]; intros ns Hns; cbn [fold_left]; [exact Hns|].
    apply IH. destruct (set_name_record idh (c_params cfg) ns n o r) eqn:E; [|exact Hns].
    eapply set_name_record_inv; eauto. }
  apply G. apply inv_init.
Qed.

Lemma inv0_init : forall cfg t0, inv0 cfg (init cfg t0).
Proof.
  intros cfg t0. constructor.
  - apply inv_core_init.
  - unfold ninv. cbn [init s_names]. apply genesis_ninv.
  - intros r [].
Qed.

Lemma step_inv0 : forall cfg s o, inv0 cfg s -> inv0 cfg (fst (step cfg s o)).
Proof.
  intros cfg s o H. unfold step. destruct (exec cfg s o) eqn:E; cbn [fst]; [|exact H].
  apply (exec_keeps cfg [] s o s0 H E).
Qed.

Lemma run_from_inv0 : forall cfg ops s, inv0 cfg s -> inv0 cfg (run_from cfg s ops).
Proof.
  intros cfg ops. induction ops as [|o t IH]; intros s H; cbn [run_from fold_left]; [exact H|].
  apply IH. apply step_inv0. exact H.
Qed.

Lemma run_inv0 : forall cfg t0 ops, inv0 cfg (run cfg t0 ops).
Proof. intros. apply run_from_inv0. apply inv0_init. Qed.

(** the universe hypothesis for the initial name store *)
Definition genesis_in (cfg : config) (U : list string) : Prop :=
  forall k nr, rget (genesis_names cfg) k = Some nr -> In (r_name nr) U.

Lemma inv1_init : forall cfg U t0, genesis_in cfg U -> inv1 U (init cfg t0).
Proof.
  intros cfg U t0 Hg. split; [intros r []|]. split; [exact Hg|intros r []].
Qed.

Lemma step_inv1 : forall cfg U s o,
  coll_free U -> op_in cfg U o -> inv0 cfg s -> inv1 U s -> inv1 U (fst (step cfg s o)).
Proof.
  intros cfg U s o Hcf Ho H0 H1. unfold step. destruct (exec cfg s o) eqn:E; cbn [fst]; [|exact H1].
  apply (exec_keeps cfg U s o s0 H0 E); assumption.
Qed.

Lemma run_from_inv1 : forall cfg U ops s,
  coll_free U -> Forall (op_in cfg U) ops -> inv0 cfg s -> inv1 U s -> inv1 U (run_from cfg s ops).
Proof.
  intros cfg U ops. induction ops as [|o t IH]; intros s Hcf Ho H0 H1; cbn [run_from fold_left]; [exact H1|].
  inversion Ho as [|? ? Ho1 Ho2]; subst.
  apply IH; auto; [apply step_inv0; exact H0|apply step_inv1; auto].
Qed.

Lemma run_inv1 : forall cfg U t0 ops,
  coll_free U -> genesis_in cfg U -> Forall (op_in cfg U) ops -> inv1 U (run cfg t0 ops).
Proof.
  intros. apply run_from_inv1; auto; [apply inv0_init|apply inv1_init; assumption].
Qed.

(** * Part 4: the property lemmas *)
Definition absent (r : attr) (s : state) : Prop := forall r', In r' (s_recs s) -> akey r' <> akey r.

Lemma filter_none : forall {A} (p : A -> bool) l, (forall x, In x l -> p x = false) -> filter p l = [].
Proof.
  intros A p l. induction l as [|x t IH]; intros H; cbn [filter]; [reflexivity|].
  rewrite (H x (or_introl eq_refl)). apply IH. intros y Hy. apply H. right. exact Hy.
Qed.

Lemma owner_of_names : forall s s' n, s_names s' = s_names s -> owner_of s' n = owner_of s n.
Proof. intros s s' n E. unfold owner_of. rewrite E. reflexivity. Qed.

Lemma nexists_get_record : forall s n nr, get_record idh (s_names s) n = Some nr -> nexists s n = true.
Proof.
  intros s n nr H. unfold nexists, name_exists. unfold get_record in H.
  destruct (name_key idh n) as [k|]; [|discriminate]. unfold ahas. unfold rget in H. rewrite H. reflexivity.
Qed.

Lemma not_nexists_get_record : forall s n, nexists s n = false -> get_record idh (s_names s) n = None.
Proof.
  intros s n H. destruct (get_record idh (s_names s) n) eqn:G; [|reflexivity].
  rewrite (nexists_get_record _ _ _ G) in H. discriminate.
Qed.

Lemma normal_fixed : forall cfg s r, normal cfg s -> In r (s_recs s) -> norm cfg (a_name r) = Some (a_name r).
Proof. intros cfg s r Hn Hr. destruct (Hn r Hr) as [raw H]. exact (normalize_idem _ _ _ H). Qed.

(** the gate of DeleteAttribute / PurgeAttribute passed for a name that some attribute carries:
    the caller is that name's owner *)
Lemma may_remove_owner : forall cfg s c r,
  named s -> In r (s_recs s) -> may_remove cfg s c (a_name r) = true -> owner_of s (a_name r) = Some c.
Proof.
  intros cfg s c r Hnamed Hr H. destruct (Hnamed r Hr) as [nr [Hg E]].
  unfold may_remove in H. apply andb_true_iff in H. destruct H as [_ H].
  rewrite (nexists_get_record _ _ _ Hg) in H. cbn [negb] in H. rewrite orb_false_r in H.
  destruct (resolves_record _ _ _ H) as [nr' [Hg' <-]]. rewrite Hg in Hg'. injection Hg' as <-.
  apply owner_of_exact; assumption.
Qed.

Lemma delete_matches_fields : forall a name ov r, delete_matches a name ov r = true ->
  a_acct r = a /\ a_name r = name /\ match ov with Some v => a_val r = v | None => True end.
Proof.
  intros a name ov r H. unfold delete_matches in H.
  apply andb_true_iff in H. destruct H as [H Hv]. apply andb_true_iff in H. destruct H as [H Hn].
  apply andb_true_iff in H. destruct H as [Ha _].
  apply N.eqb_eq in Ha. apply String.eqb_eq in Hn. repeat split; auto.
  destruct ov; [apply Z.eqb_eq; exact Hv|exact I].
Qed.

Lemma delete_k_owner : forall cfg s c a name ov s',
  named s -> delete_attribute_k cfg s c a name ov = Some s' ->
  owner_of s name = Some c /\ exists r, In r (s_recs s) /\ a_name r = name.
Proof.
  intros cfg s c a name ov s' Hnamed H. destruct (delete_k_spec _ _ _ _ _ _ _ H) as [Hg [[r [Hr Hm]] _]].
  destruct (delete_matches_fields _ _ _ _ Hm) as [_ [En _]]. subst name.
  split; [eapply may_remove_owner; eauto|exists r; auto].
Qed.

(** Who may write under a name.  Names are identified by their normal form. *)
Definition writes_as_owner (cfg : config) (s : state) (o : op) : Prop :=
  match o with
  | OAdd c _ name _ _ _ | OUpdate c _ name _ _ _ _ | OUpdateExp c _ name _ _
  | ODelete c _ name | ODeleteDistinct c _ name _ | ODeleteName name c =>
      exists n, norm cfg name = Some n /\ owner_of s n = Some c
  | OPurge c name =>
      norm cfg name = Some name ->
      owner_of s name = Some c \/ (get_record idh (s_names s) name = None /\ fst (step cfg s o) = s)
  | OSetAccountData _ _ _ =>
      owner_of s account_data_name = Some mod_addr \/ fst (step cfg s o) = s
  | _ => True
  end.

Lemma only_owner_step : forall cfg U s o,
  coll_free U -> op_in cfg U o -> inv0 cfg s -> inv1 U s ->
  snd (step cfg s o) = true -> writes_as_owner cfg s o.
Proof.
  intros cfg U s o Hcf Ho [Hc Hn Hnorm] [Hnamed Hu] H.
  unfold step in H. destruct (exec cfg s o) as [s'|] eqn:E; [|discriminate]. clear H.
  destruct o; cbn [writes_as_owner op_in]; auto; cbn [exec op_in] in E, Ho.
  - (* delete name *)
    destruct (delete idh (c_params cfg) (s_names s) name signer) as [ns|] eqn:B; [|discriminate].
    destruct (NameProofs.delete_spec _ _ _ _ _ _ B) as [ex [n [k [En [Ek [Hex [Ea _]]]]]]].
    exists n. split; [exact En|]. apply name_key_idh in Ek.
    assert (Hg : get_record idh (s_names s) n = Some ex) by (apply get_record_key; eauto).
    rewrite <- Ea. apply owner_of_exact; [exact Hg|]. eapply exact_record; eauto.
  - destruct (set_attribute_spec _ _ _ _ _ _ _ _ _ E) as [n [En [Hres _]]].
    exists n. split; [exact En|]. eapply resolves_owner; eauto.
  - destruct (update_attribute_spec _ _ _ _ _ _ _ _ _ _ E) as [n [cur [En [Hres _]]]].
    exists n. split; [exact En|]. eapply resolves_owner; eauto.
  - destruct (update_expiration_spec _ _ _ _ _ _ _ _ E) as [n [cur [En [Hres _]]]].
    exists n. split; [exact En|]. eapply resolves_owner; eauto.
  - apply delete_msg_spec in E. destruct (delete_k_owner _ _ _ _ _ _ _ Hnamed E) as [Ho' [r [Hr <-]]].
    exists (a_name r). split; [eapply normal_fixed; eauto|exact Ho'].
  - apply delete_msg_spec in E. destruct (delete_k_owner _ _ _ _ _ _ _ Hnamed E) as [Ho' [r [Hr <-]]].
    exists (a_name r). split; [eapply normal_fixed; eauto|exact Ho'].
  - (* purge *)
    intros Hnormd. destruct (purge_spec _ _ _ _ _ E) as [Hg Es].
    unfold may_remove in Hg. apply andb_true_iff in Hg. destruct Hg as [_ Hg].
    apply orb_true_iff in Hg. destruct Hg as [Hg|Hg].
    + left. eapply resolves_owner; eauto.
    + right. apply negb_true_iff in Hg. apply not_nexists_get_record in Hg. split; [exact Hg|].
      unfold step. cbn [exec]. rewrite E. cbn [fst]. rewrite Es.
      rewrite filter_none; [reflexivity|]. intros x Hx. unfold purge_matches.
      destruct (String.eqb_spec (ank (a_name x)) (ank name)) as [Ek|]; [|reflexivity]. exfalso.
      assert (a_name x = name).
      { destruct (Hnorm x Hx) as [raw Hraw]. eapply ank_inj_normalised; eauto. }
      subst name. destruct (Hnamed x Hx) as [nr [Hg' _]]. congruence.
  - (* account data *)
    destruct (set_account_data_spec _ _ _ _ _ _ E) as [s1 [Hd Hs]].
    destruct Hd as [->|Hd].
    + destruct Hs as [->|Hs]; [right; unfold step; cbn [exec]; rewrite E; reflexivity|left].
      destruct (set_attribute_spec _ _ _ _ _ _ _ _ _ Hs) as [n [En [Hres _]]].
      rewrite (norm_account_data _ _ En) in *. eapply resolves_owner; eauto.
    + left. apply (delete_k_owner _ _ _ _ _ _ _ Hnamed Hd).
Qed.

(** When may a present attribute be absent after a step. *)
Definition justified (cfg : config) (s : state) (o : op) (r : attr) : Prop :=
  match o with
  | ODelete c a name => a_acct r = a /\ a_name r = name /\ owner_of s name = Some c
  | ODeleteDistinct c a name v => a_acct r = a /\ a_name r = name /\ a_val r = v /\ owner_of s name = Some c
  | OUpdate c a name ov _ _ _ =>
      akey r = (a, ank name, ov) /\ norm cfg name = Some (a_name r) /\ owner_of s (a_name r) = Some c
  | ODeleteName name c => norm cfg name = Some (a_name r) /\ owner_of s (a_name r) = Some c
  | OPurge c name =>
      ank (a_name r) = ank name /\
      (norm cfg name = Some name -> a_name r = name /\ owner_of s name = Some c)
  | OSetAccountData _ a _ =>
      a_acct r = a /\ a_name r = account_data_name /\ owner_of s account_data_name = Some mod_addr
  | OBlock dt _ => exists e, a_exp r = Some e /\ e < s_now s + dt
  | _ => False
  end.

Lemma put_keeps : forall s x r, In r (s_recs s) -> ~ absent r (put s x).
Proof.
  intros s x r Hr Ha. cbn [put] in Ha. unfold absent in Ha. cbn [set_store s_recs] in Ha.
  destruct (key_eqb (akey r) (akey x)) eqn:K.
  - apply key_eqb_eq in K. apply (Ha x); [left; reflexivity|congruence].
  - apply key_eqb_neq in K. apply (Ha r); [|reflexivity]. right. apply In_remove_key. auto.
Qed.

Lemma present_not_absent : forall r s, In r (s_recs s) -> ~ absent r s.
Proof. intros r s H Ha. exact (Ha r H eq_refl). Qed.

Lemma disappears_step : forall cfg U s o r,
  coll_free U -> op_in cfg U o -> inv0 cfg s -> inv1 U s ->
  In r (s_recs s) -> absent r (fst (step cfg s o)) -> justified cfg s o r.
Proof.
  intros cfg U s o r Hcf Ho Hi0 Hi1 Hr Ha. pose proof Hi0 as [Hc Hn Hnorm]. pose proof Hi1 as [Hnamed Hu].
  pose proof (only_owner_step cfg U s o Hcf Ho Hi0 Hi1) as Hown.
  unfold step in *. destruct (exec cfg s o) as [s'|] eqn:E; cbn [fst snd] in *;
    [|exfalso; exact (present_not_absent _ _ Hr Ha)].
  specialize (Hown eq_refl).
  destruct o; cbn [justified writes_as_owner op_in] in *; cbn [exec] in E.
  - destruct (bind _ _ _ _ _ _ _ _); [|discriminate]. injection E as <-. exact (present_not_absent _ _ Hr Ha).
  - destruct (modify _ _ _ _ _ _ _); [|discriminate]. injection E as <-. exact (present_not_absent _ _ Hr Ha).
  - (* delete name *)
    destruct (delete idh (c_params cfg) (s_names s) name signer) as [ns|] eqn:B; [|discriminate].
    destruct (norm cfg name) as [n|] eqn:En; [|discriminate].
    destruct (purge_removes _ _ _ _ _ (inv_core_set_names s ns Hc) E) as [_ [_ [_ I3]]].
    cbn [set_names s_recs] in I3.
    assert (Ek : ank (a_name r) = ank n).
    { destruct (string_dec (ank (a_name r)) (ank n)) as [Ek|Hne]; [exact Ek|].
      exfalso. apply (present_not_absent r s'); [apply I3; auto|exact Ha]. }
    assert (a_name r = n) by (destruct (Hnorm r Hr) as [raw Hraw]; eapply ank_inj_normalised; eauto).
    subst n. destruct Hown as [n' [En' Ho']]. injection En' as <-. auto.
  - destruct (set_attribute_spec _ _ _ _ _ _ _ _ _ E) as [n [_ [_ [_ ->]]]]. eapply put_keeps; eauto.
  - (* update *)
    destruct (update_attribute_spec _ _ _ _ _ _ _ _ _ _ E) as [n [cur [En [Hres [_ [Hcur [Hk ->]]]]]]].
    destruct (key_eqb (akey r) (akey cur)) eqn:K.
    + apply key_eqb_eq in K.
      assert (r = cur) by (eapply NoDup_key_unique; eauto; apply Hc). subst cur.
      assert (n = a_name r).
      { destruct (Hnorm r Hr) as [raw Hraw]. eapply ank_hits_normalised; eauto.
        unfold akey in Hk. injection Hk as _ Hk _. symmetry. exact Hk. }
      subst n. split; [exact Hk|]. split; [exact En|]. eapply resolves_owner; eauto.
    + exfalso. apply key_eqb_neq in K. eapply put_keeps; [|exact Ha].
      cbn [del_rec set_store s_recs]. apply In_remove_key. auto.
  - (* update expiration *)
    destruct (update_expiration_spec _ _ _ _ _ _ _ _ E) as [n [cur [_ [_ [_ [Hcur [_ ->]]]]]]].
    unfold absent in Ha. cbn [set_store s_recs] in Ha.
    destruct (key_eqb (akey r) (akey cur)) eqn:K.
    + apply key_eqb_eq in K. apply (Ha (with_exp cur e)); [left; reflexivity|].
      change (akey (with_exp cur e)) with (akey cur). congruence.
    + apply key_eqb_neq in K. apply (Ha r); [|reflexivity]. right. apply In_remove_key. auto.
  - (* delete *)
    apply delete_msg_spec in E. destruct (delete_k_removes _ _ _ _ _ _ _ Hc E) as [_ [_ I3]].
    destruct (delete_matches a name None r) eqn:M.
    + destruct (delete_matches_fields _ _ _ _ M) as [H1 [H2 _]].
      destruct (delete_k_owner _ _ _ _ _ _ _ Hnamed E) as [Ho' _]. auto.
    + exfalso. apply (present_not_absent r s'); [apply I3; auto|exact Ha].
  - (* delete distinct *)
    apply delete_msg_spec in E. destruct (delete_k_removes _ _ _ _ _ _ _ Hc E) as [_ [_ I3]].
    destruct (delete_matches a name (Some v) r) eqn:M.
    + destruct (delete_matches_fields _ _ _ _ M) as [H1 [H2 H3]].
      destruct (delete_k_owner _ _ _ _ _ _ _ Hnamed E) as [Ho' _]. auto.
    + exfalso. apply (present_not_absent r s'); [apply I3; auto|exact Ha].
  - (* purge *)
    destruct (purge_removes _ _ _ _ _ Hc E) as [_ [_ [_ I3]]].
    assert (Ek : ank (a_name r) = ank name).
    { destruct (string_dec (ank (a_name r)) (ank name)) as [Ek|Hne]; [exact Ek|].
      exfalso. apply (present_not_absent r s'); [apply I3; auto|exact Ha]. }
    split; [exact Ek|]. intros Hnormd.
    assert (a_name r = name) by (destruct (Hnorm r Hr) as [raw Hraw]; eapply ank_inj_normalised; eauto).
    subst name. split; [reflexivity|]. destruct (Hown Hnormd) as [Ho'|[Hnone _]]; [exact Ho'|].
    destruct (Hnamed r Hr) as [nr [Hg _]]. congruence.
  - (* account data *)
    destruct (set_account_data_spec _ _ _ _ _ _ E) as [s1 [Hd Hs]].
    assert (Hs1 : ~ In r (s_recs s1)).
    { intros Hin. destruct Hs as [->|Hs]; [exact (present_not_absent _ _ Hin Ha)|].
      destruct (set_attribute_spec _ _ _ _ _ _ _ _ _ Hs) as [n [_ [_ [_ ->]]]]. eapply put_keeps; eauto. }
    destruct Hd as [->|Hd]; [contradiction|].
    destruct (delete_k_removes _ _ _ _ _ _ _ Hc Hd) as [_ [_ I3]].
    destruct (delete_matches a account_data_name None r) eqn:M.
    + destruct (delete_matches_fields _ _ _ _ M) as [H1 [H2 _]].
      destruct (delete_k_owner _ _ _ _ _ _ _ Hnamed Hd) as [Ho' _]. auto.
    + exfalso. apply Hs1. apply I3. auto.
  - destruct (N.eqb auth gov); [|discriminate]. injection E as <-. exact (present_not_absent _ _ Hr Ha).
  - (* block *)
    destruct (dt <? 0); [discriminate|]. injection E as <-.
    destruct (sweep_facts cfg limit (set_now s (s_now s + dt))
                (inv_core_same_store s (set_now s (s_now s + dt)) eq_refl eq_refl eq_refl Hc))
      as [_ [_ [_ [I6 _]]]].
    cbn [set_now s_recs s_now] in I6. apply I6; [exact Hr|].
    intros Hin. exact (present_not_absent _ _ Hin Ha).
Qed.

(** ** expiry *)
Lemma inv_core_set_now : forall s t, inv_core s -> inv_core (set_now s t).
Proof. intros s t H. apply (inv_core_same_store s); auto. Qed.

Lemma expired_gone_step : forall cfg s r e dt limit,
  inv_core s -> In r (s_recs s) -> a_exp r = Some e -> 0 <= dt -> e < s_now s + dt ->
  (limit = 0 \/ ecount (s_now s + dt) s <= limit) ->
  absent r (fst (step cfg s (OBlock dt limit))).
Proof.
  intros cfg s r e dt limit Hc Hr He Hdt Hlt Hlim. unfold step. cbn [exec].
  destruct (dt <? 0) eqn:D; [lia|]. cbn [fst]. unfold absent.
  apply (sweep_expired_gone cfg limit (set_now s (s_now s + dt)) r (inv_core_set_now _ _ Hc)).
  - exact Hlim.
  - exact Hr.
  - unfold expired. rewrite He. cbn [set_now s_now]. lia.
Qed.

(** what a cut-off sweep still achieves: at least [limit] expired attributes are deleted *)
Lemma sweep_progress_step : forall cfg s dt limit,
  inv_core s -> 0 <= dt ->
  let s' := fst (step cfg s (OBlock dt limit)) in
  (forall r, In r (s_recs s) -> expired (s_now s + dt) r = true -> absent r s') \/
  (limit <> 0 /\ limit <= ecount (s_now s + dt) s - ecount (s_now s + dt) s').
Proof.
  intros cfg s dt limit Hc Hdt. cbn zeta. unfold step. cbn [exec].
  destruct (dt <? 0) eqn:D; [lia|]. cbn [fst].
  destruct (sweep_facts cfg limit (set_now s (s_now s + dt)) (inv_core_set_now _ _ Hc)) as [_ [_ [_ [_ H]]]].
  exact H.
Qed.

(** several consecutive blocks: if the blocks are enough for the limit to get through everything
    that has expired by the last block's time, an attribute expired at the first block is gone *)
Definition blocks (limit : Z) (dts : list Z) : list op := map (fun dt => OBlock dt limit) dts.

Lemma block_step_facts : forall cfg s dt limit,
  inv_core s ->
  let s1 := fst (step cfg s (OBlock dt limit)) in
  inv_core s1 /\ (forall r, In r (s_recs s1) -> In r (s_recs s)).
Proof.
  intros cfg s dt limit Hc. cbn zeta. unfold step. cbn [exec]. destruct (dt <? 0); cbn [fst]; [auto|].
  destruct (sweep_facts cfg limit (set_now s (s_now s + dt)) (inv_core_set_now _ _ Hc)) as [I1 [I2 _]]. auto.
Qed.

Lemma absent_block_persists : forall cfg limit dts s r,
  inv_core s -> absent r s -> absent r (run_from cfg s (blocks limit dts)).
Proof.
  intros cfg limit dts. induction dts as [|dt t IH]; intros s r Hc Ha; cbn [blocks map run_from fold_left]; [auto|].
  fold (blocks limit t). fold (run_from cfg (fst (step cfg s (OBlock dt limit))) (blocks limit t)).
  destruct (block_step_facts cfg s dt limit Hc) as [I1 I2].
  apply IH; [exact I1|]. intros r' Hr'. apply Ha. apply I2. exact Hr'.
Qed.

Lemma expired_gone_eventually : forall cfg limit dts s r e,
  inv_core s -> 0 < limit -> Forall (fun dt => 0 <= dt) dts ->
  In r (s_recs s) -> a_exp r = Some e ->
  match dts with dt :: _ => e < s_now s + dt | [] => False end ->
  ecount (s_now s + fold_right Z.add 0 dts) s <= limit * Z.of_nat (List.length dts) ->
  absent r (run_from cfg s (blocks limit dts)).
Proof.
  intros cfg limit dts. induction dts as [|dt t IH]; intros s r e Hc Hl Hdts Hr He Hfirst Hcount; [contradiction|].
  inversion Hdts as [|? ? Hdt Ht]; subst.
  cbn [blocks map run_from fold_left]. fold (blocks limit t).
  fold (run_from cfg (fst (step cfg s (OBlock dt limit))) (blocks limit t)).
  set (T := s_now s + fold_right Z.add 0 (dt :: t)) in *.
  assert (Hsum : 0 <= fold_right Z.add 0 t).
  { clear - Ht. induction Ht as [|x l Hx Hl IHl]; cbn [fold_right]; lia. }
  unfold step. cbn [exec]. destruct (dt <? 0) eqn:D; [lia|]. cbn [fst].
  set (s0 := set_now s (s_now s + dt)).
  assert (Hc0 : inv_core s0) by (apply inv_core_set_now; exact Hc).
  assert (HT : s_now s0 <= T) by (subst T s0; cbn [set_now s_now fold_right]; lia).
  destruct (sweep_facts_at cfg limit s0 T Hc0 HT) as [I1 [I2 [[_ [I3 _]] [_ I5]]]].
  set (s1 := sweep cfg limit s0) in *.
  assert (Hex0 : expired (s_now s0) r = true) by (unfold expired; rewrite He; subst s0; cbn [set_now s_now]; lia).
  assert (HexT : expired T r = true) by (unfold expired; rewrite He; subst T; cbn [fold_right]; lia).
  destruct I5 as [I5|[_ I5]].
  - apply absent_block_persists; [exact I1|]. exact (I5 r Hr Hex0).
  - assert (Hcount1 : ecount T s1 <= limit * Z.of_nat (List.length t)).
    { change (ecount T s0) with (ecount T s) in I5. cbn [List.length] in Hcount. lia. }
    destruct (in_dec attr_eq_dec r (s_recs s1)) as [Hin|Hnin].
    + destruct t as [|dt' t'].
      * exfalso. pose proof (ecount_pos T s1 r Hin HexT). cbn [List.length] in Hcount1. lia.
      * apply (IH s1 r e I1 Hl Ht Hin He).
        -- inversion Ht; subst. rewrite I3. subst s0. cbn [set_now s_now]. lia.
        -- rewrite I3. subst s0. cbn [set_now s_now]. subst T. cbn [fold_right] in *.
           replace (s_now s + dt + (dt' + fold_right Z.add 0 t')) with (s_now s + (dt + (dt' + fold_right Z.add 0 t'))) by lia.
           exact Hcount1.
    + apply absent_block_persists; [exact I1|]. intros r' Hr' Ek. apply Hnin.
      assert (r' = r) by (apply (NoDup_key_unique (s_recs s0)); [apply Hc0|apply I2; exact Hr'|exact Hr|exact Ek]).
      subst r'. exact Hr'.
Qed.

(** the same with an individual limit per block ([0] = no limit): enough is "some block has no
    limit, or the limits add up to the number of attributes expired by the last block's time" *)
Definition blocks2 (l : list (Z * Z)) : list op := map (fun p => OBlock (fst p) (snd p)) l.

Lemma absent_blocks2_persists : forall cfg l s r,
  inv_core s -> absent r s -> absent r (run_from cfg s (blocks2 l)).
Proof.
  intros cfg l. induction l as [|[dt limit] t IH]; intros s r Hc Ha; cbn [blocks2 map run_from fold_left fst snd]; [auto|].
  fold (blocks2 t). fold (run_from cfg (fst (step cfg s (OBlock dt limit))) (blocks2 t)).
  destruct (block_step_facts cfg s dt limit Hc) as [I1 I2].
  apply IH; [exact I1|]. intros r' Hr'. apply Ha. apply I2. exact Hr'.
Qed.

Lemma expired_gone_eventually2 : forall cfg l s r e,
  inv_core s -> Forall (fun p => 0 <= fst p /\ 0 <= snd p) l ->
  In r (s_recs s) -> a_exp r = Some e ->
  match l with p :: _ => e < s_now s + fst p | [] => False end ->
  (Exists (fun p => snd p = 0) l \/
   ecount (s_now s + fold_right (fun p acc => fst p + acc) 0 l) s <= fold_right (fun p acc => snd p + acc) 0 l) ->
  absent r (run_from cfg s (blocks2 l)).
Proof.
  intros cfg l. induction l as [|[dt limit] t IH]; intros s r e Hc Hl Hr He Hfirst Hcount; [contradiction|].
  inversion Hl as [|? ? [Hdt Hlim] Ht]; subst. cbn [fold_right fst snd] in *.
  cbn [blocks2 map run_from fold_left fst snd]. fold (blocks2 t).
  fold (run_from cfg (fst (step cfg s (OBlock dt limit))) (blocks2 t)).
  set (T := s_now s + (dt + fold_right (fun p acc => fst p + acc) 0 t)) in *.
  assert (Hsum : 0 <= fold_right (fun p acc => fst p + acc) 0 t).
  { clear - Ht. induction Ht as [|x l' [Hx _] Hl IHl]; cbn [fold_right]; lia. }
  unfold step. cbn [exec]. destruct (dt <? 0) eqn:D; [lia|]. cbn [fst].
  set (s0 := set_now s (s_now s + dt)).
  assert (Hc0 : inv_core s0) by (apply inv_core_set_now; exact Hc).
  assert (HT : s_now s0 <= T) by (subst T s0; cbn [set_now s_now]; lia).
  destruct (sweep_facts_at cfg limit s0 T Hc0 HT) as [I1 [I2 [[_ [I3 _]] [_ I5]]]].
  set (s1 := sweep cfg limit s0) in *.
  assert (Hex0 : expired (s_now s0) r = true) by (unfold expired; rewrite He; subst s0; cbn [set_now s_now]; lia).
  assert (HexT : expired T r = true) by (unfold expired; rewrite He; subst T; lia).
  destruct I5 as [I5|[Hne I5]].
  - apply absent_blocks2_persists; [exact I1|]. exact (I5 r Hr Hex0).
  - assert (Hcount1 : Exists (fun p => snd p = 0) t \/ ecount T s1 <= fold_right (fun p acc => snd p + acc) 0 t).
    { destruct Hcount as [Hex|Hcount].
      - inversion Hex as [? ? H0|? ? H0]; subst; [cbn [snd] in H0; contradiction|left; exact H0].
      - right. change (ecount T s0) with (ecount T s) in I5. lia. }
    destruct (in_dec attr_eq_dec r (s_recs s1)) as [Hin|Hnin].
    + destruct t as [|[dt' limit'] t'].
      * exfalso. pose proof (ecount_pos T s1 r Hin HexT). destruct Hcount1 as [Hex|Hc1]; [inversion Hex|].
        cbn [fold_right] in Hc1. lia.
      * apply (IH s1 r e I1 Ht Hin He).
        -- inversion Ht as [|? ? [Hd' _] _]; subst. cbn [fst] in *. rewrite I3. subst s0. cbn [set_now s_now]. lia.
        -- rewrite I3. subst s0. cbn [set_now s_now]. subst T. cbn [fold_right fst snd] in *.
           replace (s_now s + dt + (dt' + fold_right (fun p acc => fst p + acc) 0 t'))
             with (s_now s + (dt + (dt' + fold_right (fun p acc => fst p + acc) 0 t'))) by lia.
           exact Hcount1.
    + apply absent_blocks2_persists; [exact I1|]. intros r' Hr' Ek. apply Hnin.
      assert (r' = r) by (apply (NoDup_key_unique (s_recs s0)); [apply Hc0|apply I2; exact Hr'|exact Hr|exact Ek]).
      subst r'. exact Hr'.
Qed.

(** ** lookups *)
Lemma lookup_lists_holder : forall s r universe,
  inv_core s -> In r (s_recs s) -> In (a_acct r) universe ->
  In (a_acct r) (accounts_by_attribute s (a_name r) universe).
Proof.
  intros s r u Hc Hr Hu. unfold accounts_by_attribute. apply filter_In. split; [exact Hu|].
  pose proof (count_pos_in r _ Hr). pose proof (ic_cnt _ Hc (ank (a_name r)) (a_acct r)). lia.
Qed.

(** the gRPC queries return exactly the attributes of the keeper store that have not expired,
    for every spelling of the name that has the record's store key *)
Lemma live_not_expired : forall t r, live t r = negb (expired t r).
Proof. intros t r. unfold live, expired. destruct (a_exp r); reflexivity. Qed.

Lemma queries_faithful : forall s r,
  In r (s_recs s) -> live (s_now s) r = true ->
  In r (q_attributes s (a_acct r)) /\
  (forall name, ank name = ank (a_name r) -> In r (q_attribute s (a_acct r) name)) /\
  (forall suf, has_suffix (a_name r) suf = true -> In r (q_scan s (a_acct r) suf)).
Proof.
  intros s r Hr Hl. unfold q_attributes, q_attribute, q_scan. repeat split; [|intros name E|intros suf E];
    apply filter_In; (split; [exact Hr|]); rewrite N.eqb_refl, Hl; cbn [andb]; try reflexivity.
  - rewrite E, String.eqb_refl. reflexivity.
  - rewrite E. reflexivity.
Qed.

Lemma queries_sound : forall s a name suf r,
  (In r (q_attributes s a) -> In r (s_recs s) /\ a_acct r = a /\ expired (s_now s) r = false) /\
  (In r (q_attribute s a name) -> In r (s_recs s) /\ a_acct r = a /\ ank (a_name r) = ank name /\ expired (s_now s) r = false) /\
  (In r (q_scan s a suf) -> In r (s_recs s) /\ a_acct r = a /\ has_suffix (a_name r) suf = true /\ expired (s_now s) r = false).
Proof.
  intros s a name suf r. unfold q_attributes, q_attribute, q_scan. rewrite !filter_In, !andb_true_iff, !live_not_expired, !negb_true_iff, N.eqb_eq, String.eqb_eq.
  tauto.
Qed.

(** * The statements over all histories *)
Section All.
  Variable cfg : config.
  Variable U : list string.
  Hypothesis Hcf : coll_free U.
  Hypothesis Hgen : genesis_in cfg U.

  Lemma only_owner_writes_all : forall t0 ops o,
    Forall (op_in cfg U) ops -> op_in cfg U o ->
    let s := run cfg t0 ops in
    snd (step cfg s o) = true -> writes_as_owner cfg s o.
  Proof.
    intros t0 ops o Hops Ho s H.
    apply (only_owner_step cfg U s o Hcf Ho (run_inv0 cfg t0 ops) (run_inv1 cfg U t0 ops Hcf Hgen Hops) H).
  Qed.

  Lemma disappears_only_when_all : forall t0 ops o r,
    Forall (op_in cfg U) ops -> op_in cfg U o ->
    let s := run cfg t0 ops in
    In r (s_recs s) -> absent r (fst (step cfg s o)) -> justified cfg s o r.
  Proof.
    intros t0 ops o r Hops Ho s Hr Ha.
    apply (disappears_step cfg U s o r Hcf Ho (run_inv0 cfg t0 ops) (run_inv1 cfg U t0 ops Hcf Hgen Hops) Hr Ha).
  Qed.

  Lemma named_all : forall t0 ops,
    Forall (op_in cfg U) ops ->
    let s := run cfg t0 ops in
    forall r, In r (s_recs s) -> exists c, owner_of s (a_name r) = Some c.
  Proof.
    intros t0 ops Hops s r Hr. destruct (run_inv1 cfg U t0 ops Hcf Hgen Hops) as [Hnamed _].
    destruct (Hnamed r Hr) as [nr [Hg E]]. exists (r_addr nr). apply owner_of_exact; assumption.
  Qed.
End All.

Lemma lookup_never_omits_all : forall cfg t0 ops,
  let s := run cfg t0 ops in
  (forall n a, count_recs n a (s_recs s) <= s_cnt s n a) /\
  (forall r universe, In r (s_recs s) -> In (a_acct r) universe ->
                      In (a_acct r) (accounts_by_attribute s (a_name r) universe)).
Proof.
  intros cfg t0 ops s. pose proof (i_core _ _ (run_inv0 cfg t0 ops)) as H. split.
  - apply (ic_cnt _ H).
  - intros r u. apply lookup_lists_holder. exact H.
Qed.

Lemma expired_gone_after_sweep_all : forall cfg t0 ops r e dt limit,
  let s := run cfg t0 ops in
  In r (s_recs s) -> a_exp r = Some e -> 0 <= dt -> e < s_now s + dt ->
  (limit = 0 \/ ecount (s_now s + dt) s <= limit) ->
  absent r (fst (step cfg s (OBlock dt limit))).
Proof.
  intros cfg t0 ops r e dt limit s. apply expired_gone_step. apply (run_inv0 cfg t0 ops).
Qed.

Lemma expired_gone_eventually_all : forall cfg t0 ops limit dts r e,
  let s := run cfg t0 ops in
  0 < limit -> Forall (fun dt => 0 <= dt) dts ->
  In r (s_recs s) -> a_exp r = Some e ->
  match dts with dt :: _ => e < s_now s + dt | [] => False end ->
  ecount (s_now s + fold_right Z.add 0 dts) s <= limit * Z.of_nat (List.length dts) ->
  absent r (run cfg t0 (ops ++ blocks limit dts)).
Proof.
  intros cfg t0 ops limit dts r e s Hl Hd Hr He Hf Hc. unfold run, run_from. rewrite fold_left_app.
  apply (expired_gone_eventually cfg limit dts s r e); auto. apply (run_inv0 cfg t0 ops).
Qed.

Lemma expired_gone_eventually2_all : forall cfg t0 ops l r e,
  let s := run cfg t0 ops in
  Forall (fun p => 0 <= fst p /\ 0 <= snd p) l ->
  In r (s_recs s) -> a_exp r = Some e ->
  match l with p :: _ => e < s_now s + fst p | [] => False end ->
  (Exists (fun p => snd p = 0) l \/
   ecount (s_now s + fold_right (fun p acc => fst p + acc) 0 l) s <= fold_right (fun p acc => snd p + acc) 0 l) ->
  absent r (run cfg t0 (ops ++ blocks2 l)).
Proof.
  intros cfg t0 ops l r e s Hl Hr He Hf Hc. unfold run, run_from. rewrite fold_left_app.
  apply (expired_gone_eventually2 cfg l s r e); auto. apply (run_inv0 cfg t0 ops).
Qed.

Lemma well_formed_all : forall cfg t0 ops,
  let s := run cfg t0 ops in
  NoDup (map akey (s_recs s)) /\
  (forall r e, In r (s_recs s) -> a_exp r = Some e -> In (e, akey r) (s_queue s)) /\
  NoDup (s_queue s) /\
  (forall r, In r (s_recs s) -> norm cfg (a_name r) = Some (a_name r)).
Proof.
  intros cfg t0 ops s. destruct (run_inv0 cfg t0 ops) as [[H1 H2 H3 H4] _ H5]. repeat split; auto.
  intros r Hr. eapply normal_fixed; eauto.
Qed.

(** * Executable versions of the hypotheses (for concrete universes) *)
Definition mem_str (x : string) (l : list string) : bool := existsb (String.eqb x) l.
Definition ostr_eqb (x y : option string) : bool :=
  match x, y with Some a, Some b => String.eqb a b | None, None => true | _, _ => false end.
Definition coll_freeb (U : list string) : bool :=
  forallb (fun n1 => forallb (fun n2 =>
    negb (ostr_eqb (name_key_preimage n1) (name_key_preimage n2)) || String.eqb n1 n2) U) U.
Definition norm_in (cfg : config) (U : list string) (name : string) : bool :=
  match norm cfg name with Some n => mem_str n U | None => true end.
Definition op_inb (cfg : config) (U : list string) (o : op) : bool :=
  match o with
  | OBind parent _ child _ _ => norm_in cfg U (child ++ "." ++ parent)%string
  | OModifyName _ name _ _ | ODeleteName name _ | OAdd _ _ name _ _ _ | OUpdate _ _ name _ _ _ _
  | OUpdateExp _ _ name _ _ | ODelete _ _ name | ODeleteDistinct _ _ name _ | OPurge _ name =>
      norm_in cfg U name
  | OSetAccountData _ _ _ => mem_str account_data_name U
  | _ => true
  end.
Definition genesis_inb (cfg : config) (U : list string) : bool :=
  forallb (fun kv => mem_str (r_name (snd kv)) U) (st_recs (genesis_names cfg)).

Lemma mem_str_In : forall x l, mem_str x l = true <-> In x l.
Proof.
  intros x l. unfold mem_str. rewrite existsb_exists. split.
  - intros [y [Hy E]]. apply String.eqb_eq in E. subst. exact Hy.
  - intros H. exists x. split; [exact H|apply String.eqb_refl].
Qed.

Lemma coll_freeb_sound : forall U, coll_freeb U = true -> coll_free U.
Proof.
  intros U H n1 n2 H1 H2 E. unfold coll_freeb in H. rewrite forallb_forall in H.
  specialize (H n1 H1). rewrite forallb_forall in H. specialize (H n2 H2).
  rewrite E in H. apply orb_true_iff in H. destruct H as [H|H]; [|apply String.eqb_eq; exact H].
  exfalso. destruct (name_key_preimage n2); cbn in H; [rewrite String.eqb_refl in H|]; discriminate.
Qed.

Lemma norm_in_sound : forall cfg U name, norm_in cfg U name = true -> forall n, norm cfg name = Some n -> In n U.
Proof. intros cfg U name H n E. unfold norm_in in H. rewrite E in H. apply mem_str_In. exact H. Qed.

Lemma op_inb_sound : forall cfg U o, op_inb cfg U o = true -> op_in cfg U o.
Proof.
  intros cfg U o H. destruct o; cbn [op_inb op_in] in *; try exact I; try (apply norm_in_sound; exact H).
  apply mem_str_In. exact H.
Qed.

Lemma ops_inb_sound : forall cfg U ops, forallb (op_inb cfg U) ops = true -> Forall (op_in cfg U) ops.
Proof.
  intros cfg U ops H. apply Forall_forall. intros o Ho. apply op_inb_sound.
  rewrite forallb_forall in H. apply H. exact Ho.
Qed.

Lemma genesis_inb_sound : forall cfg U, genesis_inb cfg U = true -> genesis_in cfg U.
Proof.
  intros cfg U H k nr Hk. unfold genesis_inb in H. rewrite forallb_forall in H.
  apply mem_str_In. apply (H (k, nr)).
  unfold rget in Hk. apply (aget_some_in string record String.eqb String.eqb_spec). exact Hk.
Qed.
