(** Proofs about [PV.Marker.AuthzSeq]: histories of one transfer grant with block time,
    expiration, re-grants and revocation (property C12). *)
From Coq Require Import ZArith NArith List Bool Lia ZifyBool.
From PV Require Import Marker.Access Marker.Authz Marker.AuthzSeq Proofs.MarkerAccessProofs.
Import ListNotations.
Open Scope Z_scope.

(** * Coins *)

Lemma amount_of_add_amt d a l d' :
  amount_of d' (add_amt d a l) = amount_of d' l + (if N.eqb d' d then a else 0).
Proof.
  unfold add_amt. rewrite amount_of_set_amt.
  destruct (N.eqb_spec d' d) as [->|]; lia.
Qed.

Lemma all_zero_is_zero l : (forall d, amount_of d l = 0) -> is_zero l = true.
Proof.
  intros H. unfold is_zero. apply forallb_forall. intros x _. rewrite H. reflexivity.
Qed.

Lemma valid_limit_nonneg l :
  forallb (fun x => Z.ltb 0 (snd x)) l = true -> forall d, 0 <= amount_of d l.
Proof.
  induction l as [|[e a] l IH]; intros H d; cbn [amount_of]; [lia|].
  cbn [forallb snd] in H. apply andb_true_iff in H. destruct H as [Ha Hl].
  destruct (N.eqb d e); [lia|apply IH; exact Hl].
Qed.

Lemma valid_limit_not_zero l :
  is_nil l = false -> forallb (fun x => Z.ltb 0 (snd x)) l = true -> is_zero l = false.
Proof.
  destruct l as [|[e a] l]; [discriminate|]. intros _ H.
  cbn [forallb snd] in H. apply andb_true_iff in H. destruct H as [Ha _].
  unfold is_zero. cbn [forallb fst amount_of]. rewrite N.eqb_refl.
  destruct (Z.eqb_spec a 0); [lia|reflexivity].
Qed.

(** * The invariant *)

Definition inv (i : issue) (used : coins) (s : tstate) : Prop :=
  (forall d, 0 <= amount_of d used) /\
  (forall d, amount_of d used <= amount_of d (g_limit (is_grant i))) /\
  match ts_grant s with
  | Some tg =>
      stored_matches i used tg /\
      (forall d, 0 <= amount_of d (g_limit (tg_grant tg))) /\
      is_zero (g_limit (tg_grant tg)) = false
  | None => True
  end.

Lemma inv_fresh g e bal now :
  grant_valid g = true ->
  inv {| is_grant := g; is_exp := e |} []
      {| ts_grant := Some {| tg_grant := g; tg_exp := e |}; ts_bal := bal; ts_now := now |}.
Proof.
  unfold grant_valid. intros H.
  apply andb_true_iff in H. destruct H as [H _]. apply andb_true_iff in H. destruct H as [Hn Hp].
  apply negb_true_iff in Hn.
  unfold inv. cbn [amount_of is_grant is_exp ts_grant tg_grant tg_exp].
  split; [intros; lia|]. split; [intros d; apply valid_limit_nonneg; exact Hp|].
  split; [|split].
  - unfold stored_matches. cbn. repeat split. intros d. lia.
  - apply valid_limit_nonneg; exact Hp.
  - apply valid_limit_not_zero; assumption.
Qed.

(** What consuming the grant does to the bookkeeping: one lemma for both routes. *)
Lemma consume_keeps_inv i used s tg m r :
  inv i used s -> ts_grant s = Some tg -> 0 <= m_amt m ->
  accept (tg_grant tg) m = Some r ->
  inv i (add_amt (m_denom m) (m_amt m) used)
      (debit s m (if ar_delete r then None else Some {| tg_grant := ar_updated r; tg_exp := tg_exp tg |})) /\
  (is_nil (g_allow (is_grant i)) = true \/ mem (m_to m) (g_allow (is_grant i)) = true) /\
  tg_exp tg = is_exp i.
Proof.
  intros (Hu0 & Hul & Hg) Hs Hamt Hacc. rewrite Hs in Hg.
  destruct Hg as ((Hlim & Hal & Hex) & Hpos & Hnz).
  destruct (accept_gen_spec true (tg_grant tg) m r Hacc) as (Hle & Hallow & Hnew & Hkeep).
  split; [|split; [rewrite <- Hal; exact Hallow | exact Hex]].
  unfold inv. split; [|split].
  - intros d. rewrite amount_of_add_amt. specialize (Hu0 d). destruct (N.eqb d (m_denom m)); lia.
  - intros d. rewrite amount_of_add_amt. specialize (Hul d). specialize (Hlim d). specialize (Hpos d).
    destruct (N.eqb_spec d (m_denom m)) as [->|]; lia.
  - unfold debit. cbn [ts_grant].
    destruct (ar_delete r) eqn:Ed; [exact I|].
    cbn [tg_grant tg_exp]. split; [|split].
    + unfold stored_matches. cbn [tg_grant tg_exp]. split; [|split; [congruence|exact Hex]].
      intros d. rewrite Hnew, amount_of_set_amt, amount_of_add_amt. specialize (Hlim d).
      destruct (N.eqb_spec d (m_denom m)) as [->|]; lia.
    + intros d. rewrite Hnew, amount_of_set_amt. specialize (Hpos d).
      destruct (N.eqb d (m_denom m)); lia.
    + unfold accept, accept_gen, safe_sub in Hacc.
      destruct (Z.ltb (amount_of (m_denom m) (g_limit (tg_grant tg)) - m_amt m) 0); [discriminate|].
      destruct (negb (is_nil (g_allow (tg_grant tg))) && negb (mem (m_to m) (g_allow (tg_grant tg)))); [discriminate|].
      inversion Hacc; subst r. cbn [ar_delete ar_updated g_limit] in Ed |- *. exact Ed.
Qed.

Lemma inv_same_grant i used s s' :
  inv i used s -> ts_grant s' = ts_grant s -> inv i used s'.
Proof. unfold inv. intros H ->. exact H. Qed.

(** One use. *)
Lemma suse_spec r s m rights forced s' res i used :
  suse_gen true r s m rights forced = (s', res) -> inv i used s ->
  match res with
  | URefused => s' = s
  | UOther => ts_grant s' = ts_grant s /\ ts_now s' = ts_now s /\
              r = ViaKeeper /\ forced = true /\ has RForceTransfer rights = true
  | UGrant =>
      inv i (add_amt (m_denom m) (m_amt m) used) s' /\ ts_now s' = ts_now s /\
      expired (is_exp i) (ts_now s) = false /\
      (is_nil (g_allow (is_grant i)) = true \/ mem (m_to m) (g_allow (is_grant i)) = true)
  end.
Proof.
  intros H Hinv. destruct r; cbn [suse_gen] in H.
  - (* keeper *)
    destruct (transfer (xfer_of s m rights forced false (live_grant s))) as [[p g']|] eqn:Et;
      [|inversion H; reflexivity].
    pose proof (transfer_rules _ _ _ Et) as (_ & _ & _ & _ & _ & [Hamt _] & Hp).
    cbn [xfer_of x_msg x_self x_forced x_rights x_grant] in Hamt, Hp.
    destruct p.
    + destruct Hp as [Hself _]. discriminate.
    + destruct Hp as (_ & _ & g & ar & Hlive & Hacc & ->).
      unfold live_grant in Hlive.
      destruct (ts_grant s) as [tg|] eqn:Eg; [|discriminate].
      destruct (expired (tg_exp tg) (ts_now s)) eqn:Eexp; [discriminate|].
      inversion Hlive; subst g; clear Hlive.
      destruct (consume_keeps_inv i used s tg m ar Hinv Eg Hamt Hacc) as (Hinv' & Hallow & Hex).
      assert (Hexp' : expired (is_exp i) (ts_now s) = false) by (rewrite <- Hex; exact Eexp).
      unfold stored_after in H.
      destruct (ar_delete ar) eqn:Ed.
      * inversion H; subst s' res. split; [exact Hinv'|]. split; [reflexivity|]. split; assumption.
      * destruct (exp_writable (tg_exp tg) (ts_now s)); inversion H; subst s' res; [|reflexivity].
        split; [exact Hinv'|]. split; [reflexivity|]. split; assumption.
    + destruct Hp as (_ & Hfo & Hft & _).
      inversion H; subst s' res. cbn. auto.
  - (* exec *)
    destruct (ts_grant s) as [tg|] eqn:Eg; [|inversion H; reflexivity].
    destruct (expired (tg_exp tg) (ts_now s)) eqn:Eexp; [inversion H; reflexivity|].
    destruct (accept (tg_grant tg) m) as [ar|] eqn:Hacc; [|inversion H; reflexivity].
    destruct (transfer (xfer_of s m rights forced true None)) as [[p g']|] eqn:Et;
      [|inversion H; reflexivity].
    pose proof (transfer_rules _ _ _ Et) as (_ & _ & _ & _ & _ & [Hamt _] & _).
    cbn [xfer_of x_msg] in Hamt.
    destruct (consume_keeps_inv i used s tg m ar Hinv Eg Hamt Hacc) as (Hinv' & Hallow & Hex).
    assert (Hexp' : expired (is_exp i) (ts_now s) = false) by (rewrite <- Hex; exact Eexp).
    inversion H; subst s' res. split; [exact Hinv'|]. split; [reflexivity|]. split; assumption.
Qed.

(** * Histories *)

(** The step of the bookkeeping that goes with one event. *)
Definition account1 (i : issue) (used : coins) (o : sop) (res : ures) : issue * coins :=
  match o, res with
  | SGrant g ex, UOther => ({| is_grant := g; is_exp := ex |}, [])
  | SUse m _ _, UGrant => (i, add_amt (m_denom m) (m_amt m) used)
  | _, _ => (i, used)
  end.

Lemma account_cons i used e tr :
  account i used (e :: tr) =
  let '(i', u') := account1 i used (se_op e) (se_res e) in account i' u' tr.
Proof.
  cbn [account]. unfold account1. destruct (se_op e); destruct (se_res e); reflexivity.
Qed.

Lemma sstep_inv r s o s' res i used :
  sstep r s o = (s', res) -> inv i used s ->
  let '(i', u') := account1 i used o res in inv i' u' s'.
Proof.
  intros H Hinv. destruct o as [m rights forced|g e| |dt]; cbn [sstep sstep_gen] in H.
  - pose proof (suse_spec r s m rights forced s' res i used H Hinv) as Hs.
    destruct res; cbn [account1].
    + subst s'. exact Hinv.
    + destruct Hs as (Hs & _). exact Hs.
    + destruct Hs as (Hg & _). apply (inv_same_grant i used s s' Hinv Hg).
  - destruct (grant_valid g) eqn:Ev; cbn [andb] in H.
    + destruct (exp_writable e (ts_now s)); inversion H; subst s' res; cbn [account1].
      * apply inv_fresh. exact Ev.
      * exact Hinv.
    + inversion H; subst s' res. exact Hinv.
  - destruct (ts_grant s) eqn:Eg; inversion H; subst s' res; cbn [account1]; [|exact Hinv].
    destruct Hinv as (H0 & Hl & _). unfold inv. cbn [ts_grant]. auto.
  - inversion H; subst s' res. cbn [account1]. apply (inv_same_grant i used s _ Hinv). reflexivity.
Qed.

Lemma srun_inv r ops : forall s i used,
  inv i used s ->
  let '(i', u') := account i used (fst (srun r s ops)) in inv i' u' (snd (srun r s ops)).
Proof.
  induction ops as [|o ops IH]; intros s i used Hinv; unfold srun in *; cbn [srun_gen].
  - cbn. exact Hinv.
  - destruct (sstep_gen true r s o) as [s' res] eqn:Es.
    destruct (srun_gen true r s' ops) as [tr sf] eqn:Er. cbn [fst snd].
    rewrite account_cons. cbn [se_op se_res].
    pose proof (sstep_inv r s o s' res i used Es Hinv) as H1.
    destruct (account1 i used o res) as [i1 u1].
    specialize (IH s' i1 u1 H1). rewrite Er in IH. cbn [fst snd] in IH. exact IH.
Qed.

(** Per denom, what went through under the current issue never exceeds that issue's limit:
    a re-grant REPLACES the limit (what was left of the old one is not added). *)
Lemma timed_total_le_limit r g0 e0 bal now ops d :
  grant_valid g0 = true ->
  let '(i, used) := account {| is_grant := g0; is_exp := e0 |} []
        (fst (srun r {| ts_grant := Some {| tg_grant := g0; tg_exp := e0 |}; ts_bal := bal; ts_now := now |} ops)) in
  0 <= amount_of d used <= amount_of d (g_limit (is_grant i)).
Proof.
  intros Hv.
  pose proof (srun_inv r ops _ _ _ (inv_fresh g0 e0 bal now Hv)) as H.
  destruct (account _ _ _) as [i used]. destruct H as (H0 & Hl & _). split; auto.
Qed.

(** The stored grant is the issue less what was used (limit per denom), with the issue's allow
    list and expiration: uses change neither; and a grant whose issue is used up in every denom
    is gone. *)
Lemma timed_stored_grant r g0 e0 bal now ops :
  grant_valid g0 = true ->
  let run := srun r {| ts_grant := Some {| tg_grant := g0; tg_exp := e0 |}; ts_bal := bal; ts_now := now |} ops in
  let '(i, used) := account {| is_grant := g0; is_exp := e0 |} [] (fst run) in
  (forall tg, ts_grant (snd run) = Some tg -> stored_matches i used tg) /\
  ((forall d, amount_of d used = amount_of d (g_limit (is_grant i))) -> ts_grant (snd run) = None).
Proof.
  intros Hv. cbv zeta.
  pose proof (srun_inv r ops _ _ _ (inv_fresh g0 e0 bal now Hv)) as H.
  destruct (account _ _ _) as [i used]. destruct H as (_ & _ & Hg).
  split.
  - intros tg Etg. rewrite Etg in Hg. destruct Hg as [Hm _]. exact Hm.
  - intros Hall. destruct (ts_grant _) as [tg|]; [|reflexivity].
    destruct Hg as ((Hlim & _) & _ & Hnz).
    rewrite all_zero_is_zero in Hnz; [discriminate|].
    intros d. rewrite Hlim, Hall. lia.
Qed.

(** No use consumes the grant after the expiration of the issue it runs under, or reaches an
    address that is not on that issue's allow list. *)
Lemma srun_uses_ok r ops : forall s i used,
  inv i used s -> uses_ok i (fst (srun r s ops)) = true.
Proof.
  induction ops as [|o ops IH]; intros s i used Hinv; unfold srun in *; cbn [srun_gen]; [reflexivity|].
  destruct (sstep_gen true r s o) as [s' res] eqn:Es.
  destruct (srun_gen true r s' ops) as [tr sf] eqn:Er. cbn [fst uses_ok se_op se_res se_now].
  pose proof (sstep_inv r s o s' res i used Es Hinv) as H1.
  destruct o as [m rights forced|g e| |dt]; cbn [account1] in H1.
  - cbn [sstep_gen] in Es.
    pose proof (suse_spec r s m rights forced s' res i used Es Hinv) as Hs.
    destruct res.
    + specialize (IH s' i used H1). rewrite Er in IH. exact IH.
    + destruct Hs as (_ & _ & Hexp & Hallow). rewrite Hexp. cbn [negb andb].
      replace (is_nil (g_allow (is_grant i)) || mem (m_to m) (g_allow (is_grant i))) with true
        by (destruct Hallow as [-> | ->]; [reflexivity|symmetry; apply orb_true_r]).
      cbn [andb]. specialize (IH s' i _ H1). rewrite Er in IH. exact IH.
    + specialize (IH s' i used H1). rewrite Er in IH. exact IH.
  - destruct res; try (specialize (IH s' i used H1); rewrite Er in IH; exact IH).
    specialize (IH s' _ _ H1). rewrite Er in IH. exact IH.
  - destruct res; specialize (IH s' i used H1); rewrite Er in IH; exact IH.
  - destruct res; specialize (IH s' i used H1); rewrite Er in IH; exact IH.
Qed.

Lemma timed_uses_ok r g0 e0 bal now ops :
  grant_valid g0 = true ->
  uses_ok {| is_grant := g0; is_exp := e0 |}
    (fst (srun r {| ts_grant := Some {| tg_grant := g0; tg_exp := e0 |}; ts_bal := bal; ts_now := now |} ops)) = true.
Proof. intros Hv. apply (srun_uses_ok r ops _ _ [] (inv_fresh g0 e0 bal now Hv)). Qed.

(** A third-party use that went through without consuming the grant was a forced transfer by a
    holder of FORCE_TRANSFER on a marker allowing it (keeper route only). *)
Lemma srun_other_uses r ops : forall s,
  forallb (other_use_ok r) (fst (srun r s ops)) = true.
Proof.
  induction ops as [|o ops IH]; intros s; unfold srun in *; cbn [srun_gen]; [reflexivity|].
  destruct (sstep_gen true r s o) as [s' res] eqn:Es.
  destruct (srun_gen true r s' ops) as [tr sf] eqn:Er. cbn [fst forallb].
  specialize (IH s'). rewrite Er in IH. cbn [fst] in IH. rewrite IH, andb_true_r.
  unfold other_use_ok. cbn [se_op se_res].
  destruct o as [m rights forced|g e| |dt]; try reflexivity.
  destruct res; try reflexivity.
  cbn [sstep_gen] in Es. destruct r; cbn [suse_gen] in Es.
  - destruct (transfer (xfer_of s m rights forced false (live_grant s))) as [[p g']|] eqn:Et; [|discriminate].
    pose proof (transfer_rules _ _ _ Et) as (_ & _ & _ & _ & _ & _ & Hp).
    cbn [xfer_of x_self x_forced x_rights] in Hp.
    destruct p.
    + destruct Hp as [Hself _]. discriminate.
    + destruct (ts_grant s) as [tg|]; [|discriminate].
      destruct g'; [destruct (exp_writable _ _)|]; discriminate.
    + destruct Hp as (_ & -> & -> & _). reflexivity.
  - destruct (ts_grant s) as [tg|]; [|discriminate].
    destruct (expired _ _); [discriminate|].
    destruct (accept _ _); [|discriminate].
    destruct (transfer _); discriminate.
Qed.

(** * The variant that writes the reduced grant back WITHOUT its expiration is refuted: after one
    partial use the grant no longer expires. *)
Definition nil_exp_witness_grant : grant := {| g_limit := [(1%N, 10)]; g_allow := [] |}.
Definition nil_exp_witness_ops : list sop :=
  [ SUse {| m_to := 7%N; m_denom := 1%N; m_amt := 3 |} 64%N false;
    STick 200;
    SUse {| m_to := 7%N; m_denom := 1%N; m_amt := 3 |} 64%N false ].

Lemma nil_expiration_refuted :
  let s0 := {| ts_grant := Some {| tg_grant := nil_exp_witness_grant; tg_exp := Some 100 |};
               ts_bal := [(1%N, 50)]; ts_now := 0 |} in
  let i0 := {| is_grant := nil_exp_witness_grant; is_exp := Some 100 |} in
  uses_ok i0 (fst (srun_nil_exp ViaKeeper s0 nil_exp_witness_ops)) = false /\
  map se_res (fst (srun_nil_exp ViaKeeper s0 nil_exp_witness_ops)) = [UGrant; UOther; UGrant] /\
  uses_ok i0 (fst (srun ViaKeeper s0 nil_exp_witness_ops)) = true /\
  map se_res (fst (srun ViaKeeper s0 nil_exp_witness_ops)) = [UGrant; UOther; URefused].
Proof. vm_compute. repeat split. Qed.

(** At block time = expiration the keeper route can exhaust the grant but cannot write a reduced
    grant back (authz.NewGrant wants an expiration AFTER the block time), whereas MsgExec, which
    updates the stored grant in place, can: both are within the grant's lifetime. *)
Lemma boundary_at_expiration :
  let g := {| g_limit := [(1%N, 10)]; g_allow := [] |} in
  let s0 := {| ts_grant := Some {| tg_grant := g; tg_exp := Some 100 |}; ts_bal := [(1%N, 50)]; ts_now := 100 |} in
  let u a := SUse {| m_to := 7%N; m_denom := 1%N; m_amt := a |} 64%N false in
  snd (sstep ViaKeeper s0 (u 3)) = URefused /\ snd (sstep ViaKeeper s0 (u 10)) = UGrant /\
  snd (sstep ViaExec s0 (u 3)) = UGrant /\ snd (sstep ViaExec s0 (u 10)) = UGrant.
Proof. vm_compute. repeat split. Qed.
