(** C01: the asset and price allocation loops of BuildSettlement, seen as a sequence of
    elementary distribution steps.

    [allocate_assets] and [allocate_price] (Exchange/Fulfill.v) walk over the ask and bid
    fulfillments with index variables (zippers in the model).  Whatever the control flow, the
    only thing they ever do to the data is [dist_assets2 a b amt] / [dist_price2 a b amt] on one
    ask and one bid.  [steps op A B A' B'] says exactly that: (A', B') is reached from (A, B) by
    finitely many [op] steps, each replacing one ask and one bid in place.  Every invariant that
    one elementary step keeps (sums that move in lock step, projections that do not move at all)
    then holds for the whole loop, without looking at the zippers again. *)
From Coq Require Import ZArith List Bool Lia ZifyBool PArith.
From PV Require Import Exchange.Arith Exchange.Split Exchange.Fulfill Exchange.SettleSpec
  Proofs.ArithProofs Proofs.SplitProofs Proofs.FulfillProofs.
Import ListNotations.
Open Scope Z_scope.

(** ** Sums over lists ([sumz] is defined in Exchange/SettleSpec.v) *)

Lemma sumz_cons {A} (g : A -> Z) x l : sumz g (x :: l) = g x + sumz g l.
Proof. reflexivity. Qed.
Lemma sumz_nil {A} (g : A -> Z) : sumz g [] = 0.
Proof. reflexivity. Qed.
Lemma sumz_app {A} (g : A -> Z) l1 l2 : sumz g (l1 ++ l2) = sumz g l1 + sumz g l2.
Proof. induction l1 as [|x r IH]; [reflexivity|]. cbn [app]. rewrite !sumz_cons, IH. lia. Qed.
Lemma sumz_map {A B} (h : A -> B) (g : B -> Z) l : sumz g (map h l) = sumz (fun x => g (h x)) l.
Proof. induction l as [|x r IH]; [reflexivity|]. cbn [map]. rewrite !sumz_cons, IH. reflexivity. Qed.
Lemma sumz_ext {A} (g h : A -> Z) l : (forall x, In x l -> g x = h x) -> sumz g l = sumz h l.
Proof.
  induction l as [|x r IH]; intros H; [reflexivity|]. rewrite !sumz_cons, IH.
  - rewrite (H x (or_introl eq_refl)). reflexivity.
  - intros y Hy. apply H. right; assumption.
Qed.
Lemma sumz_zero {A} (g : A -> Z) l : (forall x, In x l -> g x = 0) -> sumz g l = 0.
Proof.
  induction l as [|x r IH]; intros H; [reflexivity|]. rewrite sumz_cons, IH.
  - rewrite (H x (or_introl eq_refl)). reflexivity.
  - intros y Hy. apply H. right; assumption.
Qed.
Lemma sumz_plus {A} (g h : A -> Z) l : sumz (fun x => g x + h x) l = sumz g l + sumz h l.
Proof. induction l as [|x r IH]; [reflexivity|]. rewrite !sumz_cons, IH. lia. Qed.
Lemma sumz_minus {A} (g h : A -> Z) l : sumz (fun x => g x - h x) l = sumz g l - sumz h l.
Proof. induction l as [|x r IH]; [reflexivity|]. rewrite !sumz_cons, IH. lia. Qed.
Lemma sumz_scale {A} (g : A -> Z) (b : bool) l :
  sumz (fun x => if b then g x else 0) l = if b then sumz g l else 0.
Proof. destruct b; [reflexivity|]. apply sumz_zero. reflexivity. Qed.

(** What a list of (address, amount) distributions hands to address [x]. *)
Definition dsum (l : list (addr * Z)) (x : addr) : Z :=
  sumz (fun e => if Pos.eqb x (fst e) then snd e else 0) l.

Lemma dsum_app l1 l2 x : dsum (l1 ++ l2) x = dsum l1 x + dsum l2 x.
Proof. apply sumz_app. Qed.

(** ** Elementary steps *)
Section Steps.
  Variable op : ofl -> ofl -> Z -> res (ofl * ofl).

  Inductive steps : list ofl -> list ofl -> list ofl -> list ofl -> Prop :=
  | steps_refl A B : steps A B A B
  | steps_cons A1 a A2 B1 b B2 amt a' b' A' B' :
      op a b amt = Ok (a', b') ->
      steps (A1 ++ a' :: A2) (B1 ++ b' :: B2) A' B' ->
      steps (A1 ++ a :: A2) (B1 ++ b :: B2) A' B'.

  Lemma steps_trans A B A1 B1 A2 B2 :
    steps A B A1 B1 -> steps A1 B1 A2 B2 -> steps A B A2 B2.
  Proof.
    induction 1 as [|? ? ? ? ? ? ? ? ? ? ? Hop _ IH]; intros H2; [assumption|].
    eapply steps_cons; [exact Hop|]. apply IH, H2.
  Qed.

  Lemma steps_one A1 a A2 B1 b B2 amt a' b' :
    op a b amt = Ok (a', b') ->
    steps (A1 ++ a :: A2) (B1 ++ b :: B2) (A1 ++ a' :: A2) (B1 ++ b' :: B2).
  Proof. intros H. eapply steps_cons; [exact H|apply steps_refl]. Qed.

  (** A projection that no elementary step changes is the same, position by position. *)
  Lemma steps_proj {T} (proj : ofl -> T) :
    (forall a b amt a' b', op a b amt = Ok (a', b') -> proj a' = proj a /\ proj b' = proj b) ->
    forall A B A' B', steps A B A' B' -> map proj A' = map proj A /\ map proj B' = map proj B.
  Proof.
    intros Hop A B A' B' H. induction H as [|? ? ? ? ? ? ? ? ? ? ? Hs _ IH]; [split; reflexivity|].
    destruct IH as [IH1 IH2]. destruct (Hop _ _ _ _ _ Hs) as [Ea Eb].
    rewrite IH1, IH2, !map_app. cbn [map]. rewrite Ea, Eb. split; reflexivity.
  Qed.

  (** Two quantities that every elementary step moves by the same amount, one on the ask it
      touches and one on the bid it touches, move by the same amount in total. *)
  Lemma steps_sum (pa pb : ofl -> Z) :
    (forall a b amt a' b', op a b amt = Ok (a', b') -> pa a' - pa a = pb b' - pb b) ->
    forall A B A' B', steps A B A' B' -> sumz pa A' - sumz pa A = sumz pb B' - sumz pb B.
  Proof.
    intros Hop A B A' B' H. induction H as [|? ? ? ? ? ? ? ? ? ? ? Hs _ IH]; [lia|].
    specialize (Hop _ _ _ _ _ Hs). rewrite !sumz_app, !sumz_cons in *. lia.
  Qed.
End Steps.

(** ** The elementary steps, explicitly *)
Definition add_adist (f : ofl) (other : addr) (amt : Z) : ofl :=
  {| f_order := f_order f; f_adists := f_adists f ++ [(other, amt)]; f_pdists := f_pdists f;
     f_afilled := f_afilled f + amt; f_aunfilled := f_aunfilled f - amt;
     f_papplied := f_papplied f; f_pleft := f_pleft f; f_fees := f_fees f |}.
Definition add_pdist (f : ofl) (other : addr) (amt : Z) : ofl :=
  {| f_order := f_order f; f_adists := f_adists f; f_pdists := f_pdists f ++ [(other, amt)];
     f_afilled := f_afilled f; f_aunfilled := f_aunfilled f;
     f_papplied := f_papplied f + amt; f_pleft := f_pleft f - amt; f_fees := f_fees f |}.

Lemma dist_assets2_inv a b amt a' b' :
  dist_assets2 a b amt = Ok (a', b') -> a' = add_adist a (f_owner b) amt /\ b' = add_adist b (f_owner a) amt.
Proof.
  unfold dist_assets2, dist_assets. intros H.
  destruct (f_aunfilled a <? amt); cbn in H; [discriminate|].
  destruct (f_aunfilled b <? amt); cbn in H; [discriminate|].
  inversion H; subst. split; reflexivity.
Qed.

Lemma dist_price2_inv a b amt a' b' :
  dist_price2 a b amt = Ok (a', b') -> a' = add_pdist a (f_owner b) amt /\ b' = add_pdist b (f_owner a) amt.
Proof.
  unfold dist_price2, dist_price. intros H.
  destruct ((f_pleft a <? amt) && negb (o_ask (f_order a))); cbn in H; [discriminate|].
  destruct ((f_pleft b <? amt) && negb (o_ask (f_order b))); cbn in H; [discriminate|].
  inversion H; subst. split; reflexivity.
Qed.

(** ** allocateAssets is a sequence of [dist_assets2] steps. *)
Lemma alloc_assets_steps fuel : forall adone asks bdone bids a1 b1,
  alloc_assets fuel adone asks bdone bids = Ok (a1, b1) ->
  steps dist_assets2 (rev adone ++ asks) (rev bdone ++ bids) a1 b1.
Proof.
  induction fuel as [|fuel IH]; intros adone asks bdone bids a1 b1 H.
  - destruct asks as [|a ar]; [|destruct bids as [|b br]]; cbn in H; try discriminate;
      inversion H; subst; apply steps_refl.
  - destruct asks as [|a ar]; [|destruct bids as [|b br]]; cbn [alloc_assets] in H;
      try (inversion H; subst; apply steps_refl).
    destruct ((f_aunfilled a <=? 0) || (f_aunfilled b <=? 0)); [discriminate|].
    inv_bind H. destruct x as [a' b'].
    destruct (negb (f_aunfilled a' =? 0) && negb (f_aunfilled b' =? 0)); [discriminate|].
    apply IH in H.
    eapply steps_cons; [exact Hx|].
    destruct (f_aunfilled a' =? 0), (f_aunfilled b' =? 0); cbn [rev] in H;
      rewrite <- ?app_assoc in H; exact H.
Qed.

Lemma allocate_assets_steps asks bids a1 b1 :
  allocate_assets asks bids = Ok (a1, b1) -> steps dist_assets2 asks bids a1 b1.
Proof. unfold allocate_assets. intros H. apply alloc_assets_steps in H. exact H. Qed.

(** ** allocatePrice is a sequence of [dist_price2] steps. *)
Lemma fp_inner_steps fuel : forall a bdone brest tot a' bd' br' tot' A1 A2,
  fp_inner fuel a bdone brest tot = Ok (a', bd', br', tot') ->
  steps dist_price2 (A1 ++ a :: A2) (rev bdone ++ brest) (A1 ++ a' :: A2) (rev bd' ++ br').
Proof.
  induction fuel as [|fuel IH]; intros a bdone brest tot a' bd' br' tot' A1 A2 H.
  - cbn [fp_inner] in H. destruct (f_pleft a <=? 0); [inversion H; subst; apply steps_refl|].
    destruct brest as [|b br]; [discriminate|].
    destruct (f_pleft b <=? 0); [inversion H; subst; apply steps_refl|discriminate].
  - cbn [fp_inner] in H. destruct (f_pleft a <=? 0); [inversion H; subst; apply steps_refl|].
    destruct brest as [|b br]; [discriminate|].
    destruct (f_pleft b <=? 0); [inversion H; subst; apply steps_refl|].
    inv_bind H. destruct x as [a1 b1].
    eapply steps_cons; [exact Hx|].
    destruct (f_pleft b1 <=? 0); apply (IH _ _ _ _ _ _ _ _ A1 A2) in H; cbn [rev] in H;
      rewrite <- ?app_assoc in H; exact H.
Qed.

Lemma first_pass_steps asks : forall bdone brest tot asks' bd' br' tot' A1,
  first_pass asks bdone brest tot = Ok (asks', bd', br', tot') ->
  steps dist_price2 (A1 ++ asks) (rev bdone ++ brest) (A1 ++ asks') (rev bd' ++ br').
Proof.
  induction asks as [|a ar IH]; intros bdone brest tot asks' bd' br' tot' A1 H; cbn [first_pass] in H.
  - inversion H; subst. apply steps_refl.
  - inv_bind H. destruct x as [[[a1 bd1] br1] t1]. inv_bind H. destruct x as [[[ar1 bd2] br2] t2].
    inversion H; subst; clear H.
    eapply steps_trans; [apply (fp_inner_steps _ _ _ _ _ _ _ _ _ A1 ar Hx)|].
    apply (IH _ _ _ _ _ _ _ (A1 ++ [a1])) in Hx0. rewrite <- !app_assoc in Hx0. exact Hx0.
Qed.

Lemma consume_steps brest : forall a add lft bdone a' add' lft' bd' br' A1 A2,
  consume a add lft bdone brest = Ok (a', add', lft', bd', br') ->
  steps dist_price2 (A1 ++ a :: A2) (rev bdone ++ brest) (A1 ++ a' :: A2) (rev bd' ++ br').
Proof.
  induction brest as [|b br IH]; intros a add lft bdone a' add' lft' bd' br' A1 A2 H; cbn [consume] in H.
  - inversion H; subst. apply steps_refl.
  - destruct (add =? 0); [inversion H; subst; apply steps_refl|].
    destruct (add <? f_pleft b); [inversion H; subst; apply steps_refl|].
    inv_bind H. destruct x as [a1 b1].
    eapply steps_cons; [exact Hx|].
    apply (IH _ _ _ _ _ _ _ _ _ A1 A2) in H. cbn [rev] in H. rewrite <- app_assoc in H. exact H.
Qed.

Lemma lo_step_steps L TA a first1 lft bdone brest a' lft' bd' br' A1 A2 :
  lo_step L TA a first1 lft bdone brest = Ok (a', lft', bd', br') ->
  steps dist_price2 (A1 ++ a :: A2) (rev bdone ++ brest) (A1 ++ a' :: A2) (rev bd' ++ br').
Proof.
  unfold lo_step. intros H.
  destruct brest as [|b0 br0] eqn:Eb; [discriminate|]. rewrite <- Eb in *. clear Eb b0 br0.
  inv_bind H. destruct (TA =? 0); [discriminate|].
  destruct ((Z.quot x TA =? 0) && first1); [inversion H; subst; apply steps_refl|].
  inv_bind H. destruct x0 as [[[[a1 add3] left1] bdone1] brest1].
  pose proof (consume_steps _ _ _ _ _ _ _ _ _ _ A1 A2 Hx0) as Hc.
  destruct (add3 =? 0); [inversion H; subst; exact Hc|].
  destruct brest1 as [|b br]; [inversion H; subst; exact Hc|].
  inv_bind H. destruct x0 as [a2 b2].
  eapply steps_trans; [exact Hc|].
  destruct (f_pleft b2 =? 0); inversion H; subst; clear H.
  - cbn [rev]. rewrite <- app_assoc. eapply steps_one; exact Hx1.
  - eapply steps_one; exact Hx1.
Qed.

Lemma leftover_steps fuel L TA : forall adone arest first lft bdone brest A' B',
  leftover_loop fuel L TA adone arest first lft bdone brest = Ok (A', B') ->
  steps dist_price2 (rev adone ++ arest) (rev bdone ++ brest) A' B'.
Proof.
  induction fuel as [|fuel IH]; intros adone arest first lft bdone brest A' B' H; cbn [leftover_loop] in H.
  - destruct (lft =? 0); [inversion H; subst; apply steps_refl|discriminate].
  - destruct (lft =? 0); [inversion H; subst; apply steps_refl|].
    destruct arest as [|a ar].
    + rewrite app_nil_r. destruct (rev adone) as [|a ar]; [discriminate|].
      inv_bind H. destruct x as [[[a' l'] bd'] br'].
      eapply steps_trans; [apply (lo_step_steps _ _ _ _ _ _ _ _ _ _ _ [] ar Hx)|].
      apply IH in H. cbn [rev app] in *. exact H.
    + inv_bind H. destruct x as [[[a' l'] bd'] br'].
      eapply steps_trans; [apply (lo_step_steps _ _ _ _ _ _ _ _ _ _ _ (rev adone) ar Hx)|].
      apply IH in H. cbn [rev] in H. rewrite <- app_assoc in H. exact H.
Qed.

Lemma allocate_price_steps asks bids a3 b3 :
  allocate_price asks bids = Ok (a3, b3) -> steps dist_price2 asks bids a3 b3.
Proof.
  unfold allocate_price. intros H.
  destruct (sum_pleft bids <? sum_pleft asks); [discriminate|].
  inv_bind H. destruct x as [[[asks1 bdone] brest] tot].
  pose proof (first_pass_steps _ _ _ _ _ _ _ _ [] Hx) as Hf. cbn [rev app] in Hf.
  destruct (tot =? sum_pleft bids).
  - inversion H; subst. exact Hf.
  - apply leftover_steps in H. cbn [rev app] in H. eapply steps_trans; [exact Hf|exact H].
Qed.

(** ** Invariants of the asset allocation *)
Definition owned_by (x : addr) (g : ofl -> Z) (f : ofl) : Z := if Pos.eqb x (f_owner f) then g f else 0.

(** Everything that [dist_assets2] leaves alone. *)
Definition aproj (f : ofl) := (f_order f, f_pdists f, f_papplied f, f_pleft f, f_fees f).

Lemma assets_steps_inv A B A' B' :
  steps dist_assets2 A B A' B' ->
  map aproj A' = map aproj A /\ map aproj B' = map aproj B /\
  sumz f_afilled A' - sumz f_afilled A = sumz f_afilled B' - sumz f_afilled B /\
  (forall x, sumz (fun a => dsum (f_adists a) x) A' - sumz (fun a => dsum (f_adists a) x) A =
             sumz (owned_by x f_afilled) B' - sumz (owned_by x f_afilled) B) /\
  (forall x, sumz (owned_by x f_afilled) A' - sumz (owned_by x f_afilled) A =
             sumz (fun b => dsum (f_adists b) x) B' - sumz (fun b => dsum (f_adists b) x) B).
Proof.
  intros H.
  destruct (steps_proj dist_assets2 aproj) with (1 := fun a b amt a' b' (E : dist_assets2 a b amt = Ok (a', b')) =>
      match dist_assets2_inv _ _ _ _ _ E with conj Ea Eb =>
        conj (f_equal aproj Ea) (f_equal aproj Eb) end) (2 := H) as [P1 P2].
  split; [exact P1|]. split; [exact P2|]. split; [|split].
  - refine (steps_sum dist_assets2 f_afilled f_afilled _ _ _ _ _ H).
    intros a b amt a' b' E. destruct (dist_assets2_inv _ _ _ _ _ E) as [-> ->]. cbn. lia.
  - intros x. refine (steps_sum dist_assets2 (fun a => dsum (f_adists a) x) (owned_by x f_afilled) _ _ _ _ _ H).
    intros a b amt a' b' E. destruct (dist_assets2_inv _ _ _ _ _ E) as [-> ->].
    unfold owned_by, f_owner. cbn [add_adist f_adists f_afilled f_order]. rewrite dsum_app.
    unfold dsum at 2. cbn. destruct (Pos.eqb x (o_owner (f_order b))); lia.
  - intros x. refine (steps_sum dist_assets2 (owned_by x f_afilled) (fun b => dsum (f_adists b) x) _ _ _ _ _ H).
    intros a b amt a' b' E. destruct (dist_assets2_inv _ _ _ _ _ E) as [-> ->].
    unfold owned_by, f_owner. cbn [add_adist f_adists f_afilled f_order]. rewrite dsum_app.
    unfold dsum at 2. cbn. destruct (Pos.eqb x (o_owner (f_order a))); lia.
Qed.

(** ** Invariants of the price allocation *)
Definition pproj (f : ofl) := (f_order f, f_adists f, f_afilled f, f_aunfilled f, f_fees f).

Lemma price_steps_inv A B A' B' :
  steps dist_price2 A B A' B' ->
  map pproj A' = map pproj A /\ map pproj B' = map pproj B /\
  sumz f_papplied A' - sumz f_papplied A = sumz f_papplied B' - sumz f_papplied B /\
  (forall x, sumz (owned_by x f_papplied) A' - sumz (owned_by x f_papplied) A =
             sumz (fun b => dsum (f_pdists b) x) B' - sumz (fun b => dsum (f_pdists b) x) B) /\
  (forall x, sumz (fun a => dsum (f_pdists a) x) A' - sumz (fun a => dsum (f_pdists a) x) A =
             sumz (owned_by x f_papplied) B' - sumz (owned_by x f_papplied) B).
Proof.
  intros H.
  destruct (steps_proj dist_price2 pproj) with (1 := fun a b amt a' b' (E : dist_price2 a b amt = Ok (a', b')) =>
      match dist_price2_inv _ _ _ _ _ E with conj Ea Eb =>
        conj (f_equal pproj Ea) (f_equal pproj Eb) end) (2 := H) as [P1 P2].
  split; [exact P1|]. split; [exact P2|]. split; [|split].
  - refine (steps_sum dist_price2 f_papplied f_papplied _ _ _ _ _ H).
    intros a b amt a' b' E. destruct (dist_price2_inv _ _ _ _ _ E) as [-> ->]. cbn. lia.
  - intros x. refine (steps_sum dist_price2 (owned_by x f_papplied) (fun b => dsum (f_pdists b) x) _ _ _ _ _ H).
    intros a b amt a' b' E. destruct (dist_price2_inv _ _ _ _ _ E) as [-> ->].
    unfold owned_by, f_owner. cbn [add_pdist f_pdists f_papplied f_order]. rewrite dsum_app.
    unfold dsum at 2. cbn. destruct (Pos.eqb x (o_owner (f_order a))); lia.
  - intros x. refine (steps_sum dist_price2 (fun a => dsum (f_pdists a) x) (owned_by x f_papplied) _ _ _ _ _ H).
    intros a b amt a' b' E. destruct (dist_price2_inv _ _ _ _ _ E) as [-> ->].
    unfold owned_by, f_owner. cbn [add_pdist f_pdists f_papplied f_order]. rewrite dsum_app.
    unfold dsum at 2. cbn. destruct (Pos.eqb x (o_owner (f_order b))); lia.
Qed.
