(** The property checker of Corr/C05.v is sound for the model: evaluated on the model's OWN
    observations of any step from a sound world it raises no [prop:] tag.  So a [prop:] failure on
    the real code is a behaviour the model (about which Properties/C05.v speaks) cannot show. *)
From Coq Require Import ZArith NArith List String Bool Lia ZifyBool.
From PV Require Import Marker.Lifecycle Marker.MultiLifecycle Corr.CorrBase Corr.C05
     Proofs.LifecycleProofs Proofs.LifecycleProofs2 Proofs.LifecycleProofs3
     Proofs.MultiLifecycleProofs Proofs.MultiLifecycleProofs2.
Import ListNotations.
Open Scope Z_scope.

#[local] Opaque get set total escrow.

(** What the harness would observe of the model itself. *)
Definition dobs_of (c : cell) : dobs := {| d_mk := model_mk c; d_supply := c_supply c; d_bals := c_bal c |}.
Definition obs_of (denoms : list denom) (W : world) (ok : bool) : obs :=
  {| o_ok := ok; o_max := w_max W; o_gov := w_gov W;
     o_den := map (fun d => (d, dobs_of (cells W d))) denoms |}.

Lemma dget_map (f : denom -> dobs) l d : In d l -> dget (map (fun d => (d, f d)) l) d = f d.
Proof.
  induction l as [|x l IH]; intros Hin; [contradiction|]. cbn [map dget].
  destruct (N.eqb_spec x d) as [->|Hne]; [reflexivity|]. apply IH. destruct Hin; [contradiction|assumption].
Qed.

Lemma oden_obs_of denoms W ok d : In d denoms -> oden (obs_of denoms W ok) d = dobs_of (cells W d).
Proof. intros Hin. unfold oden, obs_of. cbn [o_den]. apply (dget_map (fun d => dobs_of (cells W d))). exact Hin. Qed.

Lemma tag_nil b s : b = true -> tag b s = [].
Proof. intros ->. reflexivity. Qed.

Lemma flat_map_nil {A B} (f : A -> list B) l : (forall x, In x l -> f x = []) -> flat_map f l = [].
Proof.
  induction l as [|x l IH]; intros H; [reflexivity|]. cbn [flat_map].
  rewrite (H x (or_introl eq_refl)), IH; [reflexivity|]. intros y Hy. apply H. right. exact Hy.
Qed.

Lemma status_eqb_refl x : status_eqb x x = true.
Proof. unfold status_eqb. apply Z.eqb_refl. Qed.

Lemma status_eqb_eq x y : status_eqb x y = true -> x = y.
Proof. unfold status_eqb. destruct x, y; cbn; intros H; try discriminate H; reflexivity. Qed.

Lemma mk3_eqb_refl x : mk3_eqb x x = true.
Proof.
  destruct x as [[[s z] f]|]; [|reflexivity]. cbn [mk3_eqb].
  rewrite status_eqb_refl, Z.eqb_refl, Bool.eqb_reflx. reflexivity.
Qed.

Lemma dobs_same_refl p : dobs_same p p = true.
Proof.
  unfold dobs_same. rewrite Z.eqb_refl, mk3_eqb_refl. cbn [andb]. rewrite andb_true_r.
  apply forallb_forall. intros a _. apply Z.eqb_refl.
Qed.

(** A record that survives a step keeps its lifetime counter. *)
Lemma step_opt_gen s o s' : step_opt s o = Some s' -> mk s' <> None -> gen s' = gen s.
Proof.
  intros H Hn. destruct o; open_step H; subst; use_specs; simp_state;
    repeat match goal with Hx : _ /\ _ |- _ => destruct Hx end; simp_state; try congruence.
Qed.

Lemma mstep_inv W o : WInv W -> WInv (fst (mstep W o)).
Proof. intros HW. exact (mrun_inv [o] W HW). Qed.

Section Step.
  Variables (W : world) (o : mop) (d : denom).
  Hypothesis HW : WInv W.
  Let W' := fst (mstep W o).
  Let ok := snd (mstep W o).
  Let p := dobs_of (cells W d).
  Let c := dobs_of (cells W' d).

  Lemma ck_fixed : p_fixed_exact c = true.
  Proof.
    destruct (mstep_inv W o HW d) as [_ HF]. fold W' in HF. unfold FixedExact in HF. cbn [view mk supply] in HF.
    unfold p_fixed_exact, c, dobs_of, model_mk. cbn [d_mk d_supply].
    destruct (c_mk (cells W' d)) as [m|] eqn:Em; [|reflexivity].
    destruct (st m) eqn:Es; try reflexivity. destruct (fixed m) eqn:Ef; [|reflexivity].
    apply Z.eqb_eq. apply HF; [reflexivity|exact Es|exact Ef].
  Qed.

  Lemma ck_sum : p_sum c = true.
  Proof.
    destruct (mstep_inv W o HW d) as [[Hn He] _]. fold W' in Hn, He. cbn [view bal supply] in Hn, He.
    unfold p_sum, c, dobs_of. cbn [d_supply d_bals]. apply andb_true_iff. split; [apply Z.eqb_eq; exact He|].
    apply forallb_forall. intros e Hin. unfold NonNeg in Hn. rewrite Forall_forall in Hn. specialize (Hn e Hin). lia.
  Qed.

  Lemma ck_status : p_status p o c = true.
  Proof.
    unfold p_status, dst, p, c, dobs_of, model_mk. cbn [d_mk].
    destruct (c_mk (cells W d)) as [m|] eqn:Em; [|reflexivity].
    destruct (c_mk (cells W' d)) as [m'|] eqn:Em'.
    - apply Z.leb_le.
      destruct (mstep_cases W o) as [(W2 & Ho & He)|(Ho & He)]; unfold W' in Em'; rewrite He in Em'; cbn [fst] in Em'.
      + pose proof (mstep_proj W o W2 Ho d) as Hp. destruct (proj W o d) as [o1|].
        * pose proof (step_opt_lifepos _ _ _ Hp) as Hl.
          assert (gen (view W2 d) = gen (view W d)) as Hg.
          { apply (step_opt_gen _ _ _ Hp). cbn [view mk]. rewrite Em'. discriminate. }
          unfold lifepos in Hl. rewrite Hg in Hl. cbn [view mk] in Hl. rewrite Em, Em' in Hl. lia.
        * assert (c_mk (cells W2 d) = c_mk (cells W d)) as Hq by (change (mk (view W2 d) = mk (view W d)); rewrite Hp; reflexivity).
          rewrite Hq, Em in Em'. injection Em' as <-. lia.
      + rewrite Em in Em'. injection Em' as <-. lia.
    - destruct (m_removed_only_destroyed [] W o d m Em Em') as [Hd ->]. rewrite Hd. reflexivity.
  Qed.

  Lemma ck_mint : p_mint (w_max W) d p o ok c = true.
  Proof.
    unfold p_mint. destruct (mmint_amount o) as [[d' amt]|] eqn:Ea; [|reflexivity].
    unfold dst, p, dobs_of, model_mk. cbn [d_mk].
    destruct (c_mk (cells W d)) as [m|] eqn:Em; [|reflexivity].
    destruct (st m) eqn:Es; try reflexivity.
    destruct (N.eqb_spec d' d) as [->|Hne]; [|reflexivity]. cbn [andb].
    destruct ok eqn:Eok; [|reflexivity].
    assert (mstep W o = (W', true)) as Hs by (unfold W'; rewrite <- Eok; unfold ok; destruct (mstep W o); reflexivity).
    destruct (m_mint_le_max [] W o d amt m W' Ea Em Es Hs) as [H1 H2]. cbn [mrun fold_left] in H1, H2.
    unfold c, dobs_of. cbn [d_supply]. apply andb_true_iff. split; [apply Z.leb_le; exact H2|apply Z.eqb_eq; exact H1].
  Qed.

  Lemma ck_burn : p_burn d p c = true.
  Proof.
    unfold p_burn, p, c, dobs_of, dbal. cbn [d_supply d_bals].
    destruct (Z.ltb_spec (c_supply (cells W' d)) (c_supply (cells W d))) as [Hlt|Hge]; [|reflexivity].
    destruct (m_burn_only_escrow [] W o d Hlt) as [H1 H2]. cbn [mrun fold_left] in H1, H2. fold W' in H1, H2.
    apply andb_true_iff. split; [apply Z.eqb_eq; exact H1|].
    apply forallb_forall. intros a Hin. unfold others_of in Hin. apply filter_In in Hin. destruct Hin as [_ Hne].
    apply Z.eqb_eq. apply H2. intros ->. rewrite N.eqb_refl in Hne. discriminate Hne.
  Qed.

  Lemma recalled_true :
    (forall a, a <> escrow d -> get (c_bal (cells W d)) a = 0) ->
    forallb (fun a => dbal p a =? 0) (others_of d (holders p p)) = true.
  Proof.
    intros H. apply forallb_forall. intros a Hin. unfold others_of in Hin. apply filter_In in Hin. destruct Hin as [_ Hne].
    apply Z.eqb_eq. unfold dbal, p, dobs_of. cbn [d_bals]. apply H. intros ->. rewrite N.eqb_refl in Hne. discriminate Hne.
  Qed.

  Lemma ck_recall : p_recall d p o c = true.
  Proof.
    unfold p_recall. cbv zeta. unfold dst at 1 2. unfold p at 1, c at 1. unfold dobs_of at 1 2. unfold model_mk. cbn [d_mk].
    destruct (c_mk (cells W d)) as [m|] eqn:Em; [|reflexivity].
    destruct (c_mk (cells W' d)) as [m'|] eqn:Em'; [|reflexivity].
    destruct (st m') eqn:Es'; try reflexivity.
    - (* Cancelled *)
      destruct (is_cancel_of d o) eqn:Ec; [|reflexivity]. cbn [andb].
      destruct (status_eqb (st m) Finalized || status_eqb (st m) Active) eqn:Efa; [|reflexivity].
      assert (exists c0, o = MOn d (OCancel c0)) as Hc.
      { unfold is_cancel_of in Ec. destruct o; try discriminate Ec. destruct o0; try discriminate Ec.
        apply N.eqb_eq in Ec. subst. eexists. reflexivity. }
      assert (st m = Finalized \/ st m = Active) as Hfa.
      { apply orb_true_iff in Efa. destruct Efa as [E|E]; apply status_eqb_eq in E; tauto. }
      destruct (m_recall [] W o d m m' HW Em Em') as [Hr _]; [right; tauto|]. apply recalled_true. exact Hr.
    - (* Destroyed *)
      destruct (status_eqb (st m) Destroyed) eqn:Ed; [reflexivity|].
      assert (st m <> Destroyed) as Hnd by (intros E; rewrite E in Ed; discriminate Ed).
      destruct (m_recall [] W o d m m' HW Em Em') as [Hr Hz]; [left; tauto|].
      apply andb_true_iff. split; [apply recalled_true; exact Hr|].
      apply Z.eqb_eq. unfold c, dobs_of. cbn [d_supply]. apply Hz. exact Es'.
  Qed.

  Lemma ck_rejected : ok || dobs_same p c = true.
  Proof.
    destruct ok eqn:Eok; [reflexivity|]. cbn [orb].
    assert (W' = W) as Hq.
    { unfold W'. unfold ok in Eok. destruct (mstep_cases W o) as [(W2 & Ho & He)|(Ho & He)]; rewrite He in *; [discriminate Eok|reflexivity]. }
    unfold c. rewrite Hq. apply dobs_same_refl.
  Qed.

  Lemma ck_frame :
    match o with
    | MBeginBlock => true
    | _ => match touched o with
           | Some e => N.eqb e d || dobs_same p c
           | None => dobs_same p c
           end
    end = true.
  Proof.
    assert (o <> MBeginBlock -> touched o <> Some d -> dobs_same p c = true) as Hf.
    { intros H1 H2. unfold c, W'. rewrite (m_frame W o d H1 H2). apply dobs_same_refl. }
    destruct o eqn:Eo; try reflexivity; cbn [touched] in *;
      try (apply Hf; [discriminate|discriminate]);
      match goal with |- (N.eqb ?e d || _) = true =>
        destruct (N.eqb_spec e d) as [->|Hne]; [reflexivity|]; cbn [orb]; apply Hf; [discriminate|congruence] end.
  Qed.
End Step.

Lemma step_checker_holds denoms W o :
  WInv W ->
  prop_step denoms (obs_of denoms W true) o (obs_of denoms (fst (mstep W o)) (snd (mstep W o))) = [].
Proof.
  intros HW. unfold prop_step. apply flat_map_nil. intros d Hin. unfold prop_denom, at_denom. cbv zeta.
  rewrite !oden_obs_of by exact Hin. cbn [o_ok o_max obs_of].
  rewrite (tag_nil _ _ (ck_fixed W o d HW)), (tag_nil _ _ (ck_sum W o d HW)), (tag_nil _ _ (ck_status W o d)),
          (tag_nil _ _ (ck_mint W o d)), (tag_nil _ _ (ck_burn W o d)), (tag_nil _ _ (ck_recall W o d HW)),
          (tag_nil _ _ (ck_rejected W o d)), (tag_nil _ _ (ck_frame W o d)).
  reflexivity.
Qed.

(** After any history from a sound world. *)
Lemma checker_holds_on_model denoms ops W o :
  WInv W -> let W1 := mrun W ops in
  prop_step denoms (obs_of denoms W1 true) o (obs_of denoms (fst (mstep W1 o)) (snd (mstep W1 o))) = [].
Proof. intros HW W1. apply step_checker_holds. apply mrun_inv. exact HW. Qed.
