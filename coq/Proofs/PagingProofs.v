(** C13: a client that follows next_key, or that pages by offsets, receives every matching entry
    exactly once in iteration order (filteredPaginateAfterOrder and query.Paginate models of
    Exchange/Paging.v). *)
From Coq Require Import ZArith NArith List Bool Lia.
From PV Require Import Exchange.KV Exchange.Index Exchange.Paging Proofs.KVProofs.
Import ListNotations.
Open Scope N_scope.

(** ---- generic list lemmas ---- *)
Section ListLemmas.
  Variable A : Type.
  Variable f : A -> bool.

  Lemma filter_all_true : forall l, (forall x, In x l -> f x = true) -> filter f l = l.
  Proof.
    induction l as [|a l IH]; intros H; cbn; [reflexivity|].
    rewrite (H a (or_introl eq_refl)). f_equal. apply IH. intros x Hx. apply H. right; exact Hx.
  Qed.

  Lemma filter_all_false : forall l, (forall x, In x l -> f x = false) -> filter f l = [].
  Proof.
    induction l as [|a l IH]; intros H; cbn; [reflexivity|].
    rewrite (H a (or_introl eq_refl)). apply IH. intros x Hx. apply H. right; exact Hx.
  Qed.

  Lemma filter_filter' : forall (g : A -> bool) l,
    filter f (filter g l) = filter (fun x => g x && f x) l.
  Proof.
    intros g. induction l as [|a l IH]; cbn; [reflexivity|].
    destruct (g a); cbn; [destruct (f a); rewrite IH; reflexivity|exact IH].
  Qed.

  Lemma filter_len_le : forall l, (length (filter f l) <= length l)%nat.
  Proof. induction l as [|a l IH]; cbn; [lia|]. destruct (f a); cbn; lia. Qed.

  Lemma filter_split : forall l j x, nth_error (filter f l) j = Some x ->
    exists pre post, l = pre ++ x :: post /\ filter f pre = firstn j (filter f l) /\
                     filter f (x :: post) = skipn j (filter f l).
  Proof.
    induction l as [|a l IH]; intros j x H.
    - destruct j; discriminate.
    - assert (Hc : filter f (a :: l) = if f a then a :: filter f l else filter f l) by reflexivity.
      rewrite Hc in H |- *. clear Hc. destruct (f a) eqn:E.
      + destruct j as [|j].
        * cbn in H. injection H as ->. exists [], l.
          split; [reflexivity|]. split; [reflexivity|].
          cbn. rewrite E. reflexivity.
        * cbn [nth_error] in H. destruct (IH j x H) as (pre & post & Hl & Hp & Hq).
          exists (a :: pre), post.
          split; [cbn [app]; f_equal; exact Hl|].
          split; [|cbn [skipn]; exact Hq].
          cbn [filter]. rewrite E. cbn [firstn]. f_equal. exact Hp.
      + destruct (IH j x H) as (pre & post & Hl & Hp & Hq).
        exists (a :: pre), post.
        split; [cbn [app]; f_equal; exact Hl|].
        split; [|exact Hq].
        cbn [filter]. rewrite E. exact Hp.
  Qed.

  Lemma nth_error_skipn' : forall (l : list A) j m, nth_error (skipn j l) m = nth_error l (j + m).
  Proof.
    intros l j. revert l. induction j as [|j IH]; intros l m; [reflexivity|].
    destruct l as [|a l]; cbn [skipn plus nth_error].
    - destruct m; reflexivity.
    - apply IH.
  Qed.

  Lemma skipn_skipn' : forall (l : list A) a b, skipn b (skipn a l) = skipn (a + b) l.
  Proof.
    intros l a. revert l. induction a as [|a IH]; intros l b; [reflexivity|].
    destruct l as [|x l]; cbn [skipn plus].
    - apply skipn_nil.
    - apply IH.
  Qed.
End ListLemmas.
Arguments skipn_skipn' {A}.

Arguments filter_all_true {A}.
Arguments filter_all_false {A}.
Arguments filter_filter' {A}.
Arguments filter_len_le {A}.
Arguments filter_split {A}.
Arguments nth_error_skipn' {A}.

(** ---- keys ---- *)
Lemma key_leb_refl : forall a, key_leb a a = true.
Proof. intros a. apply key_leb_spec. right; reflexivity. Qed.

Lemma key_leb_trans : forall a b c, key_leb a b = true -> key_leb b c = true -> key_leb a c = true.
Proof.
  intros a b c H1 H2. apply key_leb_spec in H1. apply key_leb_spec in H2. apply key_leb_spec.
  destruct H1 as [H1| ->]; [|exact H2].
  destruct H2 as [H2| ->]; [|left; exact H1].
  left. eapply key_lt_trans; eauto.
Qed.

Lemma key_lt_asym : forall a b, key_lt a b -> ~ key_lt b a.
Proof. intros a b H1 H2. apply (key_lt_irrefl a). eapply key_lt_trans; eauto. Qed.

(** ---- sorted lists: splitting and seeking ---- *)
Section Sorted.
  Variable V : Type.
  Notation view := (list (key * V)).

  Lemma sorted_app_inv : forall (a b : view), sorted_keys (a ++ b) ->
    sorted_keys a /\ sorted_keys b /\
    (forall x y, In x a -> In y b -> key_lt (fst x) (fst y)).
  Proof.
    induction a as [|[k v] a IH]; intros b Hs.
    - split; [exact I|]. split; [exact Hs|]. intros x y [].
    - rewrite <- app_comm_cons in Hs.
      destruct (IH b (sorted_tail _ _ Hs)) as (Ha & Hb & Hc).
      split; [|split; [exact Hb|]].
      + apply sorted_cons; [exact Ha|]. intros k' v' Hin.
        eapply sorted_head_lt; [exact Hs|]. apply in_or_app. left; exact Hin.
      + intros x [ky vy] [<-|Hx] Hy; cbn [fst].
        * eapply sorted_head_lt; [exact Hs|]. apply in_or_app. right; exact Hy.
        * apply (Hc x (ky, vy) Hx Hy).
  Qed.

  Lemma seek_ge : forall (a b : view) x, sorted_keys (a ++ x :: b) ->
    filter (fun kv => key_leb (fst x) (fst kv)) (a ++ x :: b) = x :: b.
  Proof.
    intros a b x Hs. destruct (sorted_app_inv _ _ Hs) as (Ha & Hxb & Hc).
    rewrite filter_app. rewrite (filter_all_false _ a).
    2:{ intros y Hy. apply key_leb_false_lt. apply Hc; [exact Hy|left; reflexivity]. }
    cbn [app filter]. rewrite key_leb_refl. f_equal.
    apply filter_all_true. intros [ky vy] Hy. cbn [fst]. apply key_leb_spec. left.
    destruct x as [kx vx]. cbn [fst]. eapply sorted_head_lt; eauto.
  Qed.

  Lemma seek_lt : forall (a b : view) x, sorted_keys (a ++ x :: b) ->
    filter (fun kv => key_ltb (fst kv) (fst x)) (a ++ x :: b) = a.
  Proof.
    intros a b x Hs. destruct (sorted_app_inv _ _ Hs) as (Ha & Hxb & Hc).
    rewrite filter_app. rewrite (filter_all_true _ a).
    2:{ intros y Hy. apply key_ltb_lt. apply Hc; [exact Hy|left; reflexivity]. }
    rewrite (filter_all_false _ (x :: b)); [apply app_nil_r|].
    intros y Hy. destruct (key_ltb (fst y) (fst x)) eqn:E; [|reflexivity].
    apply key_ltb_lt in E. exfalso. destruct Hy as [<-|Hy].
    - exact (key_lt_irrefl _ E).
    - destruct x as [kx vx], y as [ky vy]. cbn [fst] in E.
      apply (key_lt_asym _ _ E). eapply sorted_head_lt; eauto.
  Qed.
End Sorted.

Arguments sorted_app_inv {V}.
Arguments seek_ge {V}.
Arguments seek_lt {V}.

(** ---- the loops ---- *)
Definition hitp {V} (hit : key -> V -> bool) (kv : key * V) : bool := hit (fst kv) (snd kv).

Section Loops.
  Variable V : Type.
  Variable hit : key -> V -> bool.
  Notation view := (list (key * V)).
  Notation hp := (hitp hit).

  Lemma filter_hp_cons : forall k v (r : view),
    filter hp ((k, v) :: r) = if hit k v then (k, v) :: filter hp r else filter hp r.
  Proof. reflexivity. Qed.

  Lemma fpao_key_loop_spec : forall (it : view) n L acc, n <= L ->
    fpao_key_loop V hit it n L acc =
      (rev acc ++ firstn (N.to_nat (L - n)) (filter hp it),
       option_map fst (nth_error (filter hp it) (N.to_nat (L - n)))).
  Proof.
    induction it as [|[k v] r IH]; intros n L acc Hn.
    - cbn [fpao_key_loop filter]. rewrite firstn_nil, app_nil_r.
      destruct (N.to_nat (L - n)); reflexivity.
    - cbn [fpao_key_loop]. rewrite filter_hp_cons. destruct (hit k v) eqn:Eh; cbn [andb].
      + destruct (n =? L) eqn:En.
        * apply N.eqb_eq in En. subst n. rewrite N.ltb_irrefl.
          replace (N.to_nat (L - L)) with 0%nat by lia.
          cbn [firstn nth_error option_map fst]. rewrite app_nil_r. reflexivity.
        * apply N.eqb_neq in En.
          assert (Hlt : (n <? L) = true) by (apply N.ltb_lt; lia). rewrite Hlt.
          rewrite IH by lia.
          replace (N.to_nat (L - n)) with (S (N.to_nat (L - (n + 1)))) by lia.
          cbn [firstn nth_error rev]. rewrite <- app_assoc. reflexivity.
      + apply IH. exact Hn.
  Qed.

  Lemma offset_loop_spec : forall (it : view) n o e acc, n <= e -> wrap64 (e + 1) = e + 1 ->
    fst (offset_loop V hit it n o e false None acc) =
      (rev acc ++ firstn (N.to_nat (e - N.max n o)) (skipn (N.to_nat (o - n)) (filter hp it)),
       option_map fst (nth_error (filter hp it) (N.to_nat (e - n)))).
  Proof.
    induction it as [|[k v] r IH]; intros n o e acc Hn Hw.
    - cbn [offset_loop filter fst]. rewrite skipn_nil, firstn_nil, app_nil_r.
      destruct (N.to_nat (e - n)); reflexivity.
    - cbn [offset_loop]. rewrite Hw. rewrite filter_hp_cons.
      destruct (hit k v) eqn:Eh; cbn [andb].
      + destruct (n + 1 =? e + 1) eqn:En.
        * apply N.eqb_eq in En. assert (n = e) by lia. subst n.
          rewrite N.ltb_irrefl, andb_false_r. cbn [fst].
          replace (N.to_nat (e - N.max e o)) with 0%nat by lia.
          replace (N.to_nat (e - e)) with 0%nat by lia.
          cbn [firstn nth_error option_map fst]. rewrite app_nil_r. reflexivity.
        * apply N.eqb_neq in En.
          assert (Hlt : (n <? e) = true) by (apply N.ltb_lt; lia). rewrite Hlt, andb_true_r.
          rewrite IH by (try assumption; lia).
          replace (N.to_nat (e - n)) with (S (N.to_nat (e - (n + 1)))) by lia.
          cbn [nth_error].
          destruct (o <=? n) eqn:Eo.
          -- apply N.leb_le in Eo.
             replace (N.to_nat (o - n)) with 0%nat by lia.
             replace (N.to_nat (o - (n + 1))) with 0%nat by lia.
             replace (N.to_nat (e - N.max n o)) with (S (N.to_nat (e - N.max (n + 1) o))) by lia.
             cbn [skipn firstn rev]. rewrite <- app_assoc. reflexivity.
          -- apply N.leb_gt in Eo.
             replace (N.to_nat (o - n)) with (S (N.to_nat (o - (n + 1)))) by lia.
             replace (N.max (n + 1) o) with (N.max n o) by lia.
             cbn [skipn]. reflexivity.
      + assert (En : (n =? e + 1) = false) by (apply N.eqb_neq; lia). rewrite En.
        apply IH; assumption.
  Qed.

  Lemma offset_loop_total : forall (it : view) n o e next acc,
    snd (offset_loop V hit it n o e true next acc) = n + N.of_nat (length (filter hp it)).
  Proof.
    induction it as [|[k v] r IH]; intros n o e next acc.
    - cbn [offset_loop filter snd length]. lia.
    - cbn [offset_loop]. rewrite filter_hp_cons.
      destruct (hit k v) eqn:Eh; cbn [andb].
      + destruct (n + 1 =? wrap64 (e + 1)); rewrite IH; cbn [length]; lia.
      + destruct (n =? wrap64 (e + 1)); rewrite IH; reflexivity.
  Qed.

End Loops.

(** query.Paginate loops = the filtered loops with the constant-true hit test. *)
Section SdkLoops.
  Variable V : Type.
  Notation view := (list (key * V)).
  Notation tt_hit := (fun (_ : key) (_ : V) => true).

  Lemma sdk_key_loop_eq : forall (it : view) n L acc, n <= L ->
    sdk_p_key_loop V it n L acc = fpao_key_loop V tt_hit it n L acc.
  Proof.
    induction it as [|[k v] r IH]; intros n L acc Hn; cbn [sdk_p_key_loop fpao_key_loop andb];
      [reflexivity|].
    destruct (n =? L) eqn:En.
    - apply N.eqb_eq in En. subst n. rewrite N.ltb_irrefl. reflexivity.
    - apply N.eqb_neq in En.
      assert (Hlt : (n <? L) = true) by (apply N.ltb_lt; lia). rewrite Hlt.
      apply IH. lia.
  Qed.

  Lemma sdk_offset_loop_eq : forall (it : view) n o e acc,
    n <= e -> o <= e -> wrap64 (e + 1) = e + 1 ->
    sdk_p_offset_loop V it n o e false None acc = offset_loop V tt_hit it n o e false None acc.
  Proof.
    induction it as [|[k v] r IH]; intros n o e acc Hn Ho Hw;
      cbn [sdk_p_offset_loop offset_loop andb]; [reflexivity|].
    rewrite Hw.
    destruct (n + 1 <=? o) eqn:E1.
    - apply N.leb_le in E1.
      assert (Eo : (o <=? n) = false) by (apply N.leb_gt; lia). rewrite Eo. cbn [andb].
      assert (En : (n + 1 =? e + 1) = false) by (apply N.eqb_neq; lia). rewrite En.
      apply IH; (assumption || lia).
    - apply N.leb_gt in E1.
      assert (Eo : (o <=? n) = true) by (apply N.leb_le; lia). rewrite Eo. cbn [andb].
      destruct (n + 1 <=? e) eqn:E2.
      + apply N.leb_le in E2.
        assert (Hlt : (n <? e) = true) by (apply N.ltb_lt; lia). rewrite Hlt.
        assert (En : (n + 1 =? e + 1) = false) by (apply N.eqb_neq; lia). rewrite En.
        apply IH; (assumption || lia).
      + apply N.leb_gt in E2.
        assert (Hlt : (n <? e) = false) by (apply N.ltb_ge; lia). rewrite Hlt.
        assert (En : (n + 1 =? e + 1) = true) by (apply N.eqb_eq; lia). rewrite En.
        reflexivity.
  Qed.
End SdkLoops.

(** ---- the iterators ---- *)
Section Iter.
  Variable V : Type.
  Notation view := (list (key * V)).

  Definition inbound (l : view) (after : N) : view :=
    filter (fun kv => ge_start (after_start after) (fst kv)) l.

  Definition itlist (l : view) (reverse : bool) (after : N) : view :=
    if reverse then rev (inbound l after) else inbound l after.

  Lemma matching_eq : forall hit (l : view) reverse after,
    matching hit l reverse after = filter (hitp hit) (itlist l reverse after).
  Proof. reflexivity. Qed.

  Lemma goi_first : forall (l : view) reverse after,
    get_order_iterator l [] reverse after = Some (itlist l reverse after).
  Proof.
    intros l reverse after. unfold get_order_iterator, itlist, inbound. destruct reverse.
    - unfold reverse_end. cbn [is_nil]. f_equal. unfold iter_rev. f_equal.
      apply filter_ext. intros kv. cbn [lt_end]. apply andb_true_r.
    - cbn [is_nil andb]. unfold iter_fwd. destruct (after =? 0) eqn:E; cbn [negb]; [|reflexivity].
      unfold after_start. rewrite E. reflexivity.
  Qed.

  Lemma fwd_seek : forall (l : view) after a x b,
    sorted_keys l -> inbound l after = a ++ x :: b ->
    iter_fwd l (Some (fst x)) = x :: b.
  Proof.
    intros l after a x b Hs Hinb. unfold iter_fwd. cbn [ge_start].
    assert (Hx : ge_start (after_start after) (fst x) = true).
    { assert (Hin : In x (inbound l after)) by (rewrite Hinb; apply in_or_app; right; left; reflexivity).
      unfold inbound in Hin. apply filter_In in Hin. exact (proj2 Hin). }
    assert (E : filter (fun kv => key_leb (fst x) (fst kv)) l
                = filter (fun kv => key_leb (fst x) (fst kv)) (inbound l after)).
    { unfold inbound. rewrite filter_filter'. apply filter_ext. intros kv.
      destruct (key_leb (fst x) (fst kv)) eqn:E1; [|rewrite andb_false_r; reflexivity].
      rewrite andb_true_r. destruct (after_start after) as [b0|]; cbn [ge_start] in *; [|reflexivity].
      symmetry. eapply key_leb_trans; eauto. }
    rewrite E, Hinb. apply seek_ge. rewrite <- Hinb. unfold inbound. apply sorted_filter. exact Hs.
  Qed.

  Lemma goi_key : forall (l : view) reverse after pre x post,
    sorted_keys l -> itlist l reverse after = pre ++ x :: post ->
    fst x <> [] -> pre <> [] ->
    get_order_iterator l (fst x) reverse after = Some (x :: post).
  Proof.
    intros l reverse after pre x post Hs Hit Hk Hpre.
    assert (Hnil : is_nil (fst x) = false) by (destruct (fst x); [congruence|reflexivity]).
    unfold get_order_iterator, itlist in *. destruct reverse.
    - destruct (exists_last Hpre) as (pre' & y & ->).
      assert (Hinb : inbound l after = (rev post ++ [x]) ++ y :: rev pre').
      { rewrite <- (rev_involutive (inbound l after)), Hit.
        rewrite rev_app_distr. cbn [rev]. rewrite rev_app_distr. cbn [rev app].
        rewrite <- !app_assoc. reflexivity. }
      assert (Hinb2 : inbound l after = rev post ++ x :: y :: rev pre').
      { rewrite Hinb, <- app_assoc. reflexivity. }
      unfold reverse_end. rewrite Hnil. rewrite (fwd_seek l after _ x _ Hs Hinb2).
      destruct y as [ky vy]. f_equal. unfold iter_rev.
      assert (E : filter (fun kv => ge_start (after_start after) (fst kv) && lt_end (Some ky) (fst kv)) l
                  = filter (fun kv => key_ltb (fst kv) (fst (ky, vy))) (inbound l after)).
      { unfold inbound. rewrite filter_filter'. reflexivity. }
      rewrite E, Hinb. rewrite seek_lt.
      + rewrite rev_app_distr, rev_involutive. reflexivity.
      + rewrite <- Hinb. unfold inbound. apply sorted_filter. exact Hs.
    - rewrite Hnil. cbn [andb]. f_equal. eapply fwd_seek; eauto.
  Qed.

  Lemma sdk_get_iterator_eq : forall (l : view) start reverse,
    sdk_get_iterator l start reverse = get_order_iterator l start reverse 0.
  Proof.
    intros l start reverse. unfold sdk_get_iterator, get_order_iterator. destruct reverse.
    - destruct (reverse_end l start); reflexivity.
    - destruct (is_nil start); reflexivity.
  Qed.

  Lemma inbound_0 : forall (l : view), inbound l 0 = l.
  Proof. intros l. unfold inbound. apply filter_all_true. intros; reflexivity. Qed.
End Iter.

Arguments inbound {V}.
Arguments itlist {V}.

(** No overflow: the clamp of commit 9f0ea4287 is the identity. *)
Lemma clamp_end_id : forall o L, o + L + 1 < two64 ->
  clamp_end o (wrap64 (o + L)) = o + L.
Proof.
  intros o L Hb.
  assert (Hw : wrap64 (o + L) = o + L) by (unfold wrap64; apply N.mod_small; lia).
  rewrite Hw. unfold clamp_end.
  assert (E1 : (o + L <? o) = false) by (apply N.ltb_ge; lia).
  assert (E2 : (o + L =? u64max) = false)
    by (apply N.eqb_neq; unfold u64max; unfold two64 in Hb; lia).
  rewrite E1, E2. reflexivity.
Qed.

(** ---- single pages ---- *)
Section Pages.
  Variable V : Type.
  Notation view := (list (key * V)).
  Variable hit : key -> V -> bool.

  Lemma fpao_offset_unfold : forall (l : view) after reverse L o ct, 1 <= L ->
    filtered_paginate_after_order hit l
      {| pr_key := []; pr_offset := o; pr_limit := L; pr_count_total := ct;
         pr_reverse := reverse |} after
    = let '(acc, next, n) :=
          offset_loop V hit (itlist l reverse after) 0 o (clamp_end o (wrap64 (o + L))) ct
                      None [] in
      Some (acc, {| ps_next := opt_key next; ps_total := if ct then n else 0 |}).
  Proof.
    intros l after reverse L o ct HL. unfold filtered_paginate_after_order.
    cbn [pr_key pr_offset pr_limit pr_count_total pr_reverse is_nil negb].
    rewrite andb_false_r. assert (E : (L =? 0) = false) by (apply N.eqb_neq; lia). rewrite E.
    rewrite goi_first. reflexivity.
  Qed.

  Lemma fpao_key_unfold : forall (l : view) after reverse L K, 1 <= L -> is_nil K = false ->
    filtered_paginate_after_order hit l
      {| pr_key := K; pr_offset := 0; pr_limit := L; pr_count_total := false;
         pr_reverse := reverse |} after
    = match get_order_iterator l K reverse after with
      | None => None
      | Some it =>
          let '(acc, next) := fpao_key_loop V hit it 0 L [] in
          Some (acc, {| ps_next := opt_key next; ps_total := 0 |})
      end.
  Proof.
    intros l after reverse L K HL HK. unfold filtered_paginate_after_order.
    cbn [pr_key pr_offset pr_limit pr_count_total pr_reverse].
    rewrite HK. change (0 <? 0) with false. cbn [negb andb].
    assert (E : (L =? 0) = false) by (apply N.eqb_neq; lia). rewrite E. reflexivity.
  Qed.

  Lemma fpao_off_page : forall (l : view) after reverse L o,
    1 <= L -> N.of_nat o + L + 1 < two64 ->
    filtered_paginate_after_order hit l
      {| pr_key := []; pr_offset := N.of_nat o; pr_limit := L; pr_count_total := false;
         pr_reverse := reverse |} after
    = Some (firstn (N.to_nat L) (skipn o (filter (hitp hit) (itlist l reverse after))),
            {| ps_next := opt_key (option_map fst
                 (nth_error (filter (hitp hit) (itlist l reverse after)) (o + N.to_nat L)));
               ps_total := 0 |}).
  Proof.
    intros l after reverse L o HL Hb. rewrite fpao_offset_unfold by exact HL.
    assert (Hw2 : wrap64 (N.of_nat o + L + 1) = N.of_nat o + L + 1)
      by (unfold wrap64; apply N.mod_small; lia).
    rewrite clamp_end_id by exact Hb.
    assert (H0 : 0 <= N.of_nat o + L) by lia.
    pose proof (offset_loop_spec V hit (itlist l reverse after) 0 (N.of_nat o)
                  (N.of_nat o + L) [] H0 Hw2) as Hspec.
    destruct (offset_loop V hit (itlist l reverse after) 0 (N.of_nat o) (N.of_nat o + L)
                false None []) as [[acc next] n].
    cbn [fst] in Hspec. injection Hspec as -> ->. cbn [rev app].
    replace (N.to_nat (N.of_nat o + L - N.max 0 (N.of_nat o))) with (N.to_nat L) by lia.
    replace (N.to_nat (N.of_nat o - 0)) with o by lia.
    replace (N.to_nat (N.of_nat o + L - 0)) with (o + N.to_nat L)%nat by lia.
    reflexivity.
  Qed.

  Lemma fpao_total_page : forall (l : view) after reverse L, 1 <= L ->
    exists items next,
      filtered_paginate_after_order hit l
        {| pr_key := []; pr_offset := 0; pr_limit := L; pr_count_total := true;
           pr_reverse := reverse |} after
      = Some (items, {| ps_next := next;
                        ps_total := N.of_nat (length (filter (hitp hit) (itlist l reverse after))) |}).
  Proof.
    intros l after reverse L HL. rewrite fpao_offset_unfold by exact HL.
    pose proof (offset_loop_total V hit (itlist l reverse after) 0 0
                  (clamp_end 0 (wrap64 (0 + L))) None []) as Ht.
    destruct (offset_loop V hit (itlist l reverse after) 0 0 (clamp_end 0 (wrap64 (0 + L)))
                true None []) as [[acc next] n].
    cbn [snd] in Ht. subst n. exists acc, (opt_key next). rewrite N.add_0_l. reflexivity.
  Qed.

  Lemma fpao_key_page : forall (l : view) after reverse L j (x : key * V),
    sorted_keys l -> 1 <= L -> (1 <= j)%nat -> fst x <> [] ->
    nth_error (filter (hitp hit) (itlist l reverse after)) j = Some x ->
    filtered_paginate_after_order hit l
      {| pr_key := fst x; pr_offset := 0; pr_limit := L; pr_count_total := false;
         pr_reverse := reverse |} after
    = Some (firstn (N.to_nat L) (skipn j (filter (hitp hit) (itlist l reverse after))),
            {| ps_next := opt_key (option_map fst
                 (nth_error (filter (hitp hit) (itlist l reverse after)) (j + N.to_nat L)));
               ps_total := 0 |}).
  Proof.
    intros l after reverse L j x Hs HL Hj Hk Hnth.
    assert (Hnil : is_nil (fst x) = false) by (destruct (fst x); [congruence|reflexivity]).
    destruct (filter_split _ _ _ _ Hnth) as (pre & post & Hit & Hp & Hq).
    assert (Hpre : pre <> []).
    { intros ->. cbn [filter] in Hp. apply (f_equal (@length _)) in Hp.
      rewrite firstn_length in Hp. cbn [length] in Hp.
      assert (j < length (filter (hitp hit) (itlist l reverse after)))%nat
        by (apply nth_error_Some; congruence).
      lia. }
    rewrite fpao_key_unfold by assumption.
    rewrite (goi_key V l reverse after pre x post Hs Hit Hk Hpre).
    rewrite fpao_key_loop_spec by lia. rewrite Hq. rewrite nth_error_skipn'.
    rewrite N.sub_0_r. reflexivity.
  Qed.
End Pages.

(** query.Paginate pages = filteredPaginateAfterOrder pages with the constant-true hit test and
    no after-bound (for the requests a client makes). *)
Section SdkPages.
  Variable V : Type.
  Notation view := (list (key * V)).
  Notation tt_hit := (fun (_ : key) (_ : V) => true).

  Lemma sdk_off_eq : forall (l : view) reverse L o, 1 <= L -> o + L + 1 < two64 ->
    sdk_paginate l {| pr_key := []; pr_offset := o; pr_limit := L; pr_count_total := false;
                      pr_reverse := reverse |}
    = filtered_paginate_after_order tt_hit l
        {| pr_key := []; pr_offset := o; pr_limit := L; pr_count_total := false;
           pr_reverse := reverse |} 0.
  Proof.
    intros l reverse L o HL Hb. rewrite fpao_offset_unfold by exact HL.
    rewrite clamp_end_id by exact Hb.
    unfold sdk_paginate.
    cbn [pr_key pr_offset pr_limit pr_count_total pr_reverse is_nil negb].
    rewrite andb_false_r. assert (E : (L =? 0) = false) by (apply N.eqb_neq; lia). rewrite E.
    rewrite sdk_get_iterator_eq, goi_first.
    assert (Hw1 : wrap64 (o + L) = o + L) by (unfold wrap64; apply N.mod_small; lia).
    assert (Hw2 : wrap64 (o + L + 1) = o + L + 1) by (unfold wrap64; apply N.mod_small; lia).
    rewrite Hw1. rewrite sdk_offset_loop_eq by (try assumption; lia). reflexivity.
  Qed.

  Lemma sdk_key_eq : forall (l : view) reverse L K, 1 <= L -> is_nil K = false ->
    sdk_paginate l {| pr_key := K; pr_offset := 0; pr_limit := L; pr_count_total := false;
                      pr_reverse := reverse |}
    = filtered_paginate_after_order tt_hit l
        {| pr_key := K; pr_offset := 0; pr_limit := L; pr_count_total := false;
           pr_reverse := reverse |} 0.
  Proof.
    intros l reverse L K HL HK. rewrite fpao_key_unfold by assumption.
    unfold sdk_paginate.
    cbn [pr_key pr_offset pr_limit pr_count_total pr_reverse].
    rewrite HK. change (0 <? 0) with false. cbn [negb andb].
    assert (E : (L =? 0) = false) by (apply N.eqb_neq; lia). rewrite E.
    rewrite sdk_get_iterator_eq.
    destruct (get_order_iterator l K reverse 0) as [it|]; [|reflexivity].
    rewrite sdk_key_loop_eq by lia. reflexivity.
  Qed.

  Lemma sdk_hits : forall (l : view) reverse,
    filter (hitp tt_hit) (itlist l reverse 0) = if reverse then rev l else l.
  Proof.
    intros l reverse. unfold itlist. rewrite inbound_0.
    apply filter_all_true. intros; reflexivity.
  Qed.
End SdkPages.

(** ---- following pages, for any page function that behaves as specified on the hit list ---- *)
Section Follow.
  Variable V : Type.
  Notation view := (list (key * V)).
  Variable page : page_req -> option (view * page_resp).
  Variable hs : view.
  Variable L : N.
  Variable reverse : bool.
  Hypothesis HL : 1 <= L.
  Hypothesis Hne : forall x, In x hs -> fst x <> [].

  Let nextk (j : nat) : key := opt_key (option_map fst (nth_error hs j)).

  Hypothesis Hoff : forall o, (o <= length hs)%nat ->
    page {| pr_key := []; pr_offset := N.of_nat o; pr_limit := L; pr_count_total := false;
            pr_reverse := reverse |}
    = Some (firstn (N.to_nat L) (skipn o hs),
            {| ps_next := nextk (o + N.to_nat L); ps_total := 0 |}).
  Hypothesis Hkey : forall j x, (1 <= j)%nat -> nth_error hs j = Some x ->
    page {| pr_key := fst x; pr_offset := 0; pr_limit := L; pr_count_total := false;
            pr_reverse := reverse |}
    = Some (firstn (N.to_nat L) (skipn j hs),
            {| ps_next := nextk (j + N.to_nat L); ps_total := 0 |}).

  Lemma nextk_some : forall j x, nth_error hs j = Some x ->
    nextk j = fst x /\ is_nil (nextk j) = false.
  Proof.
    intros j x H. unfold nextk. rewrite H. cbn [option_map opt_key]. split; [reflexivity|].
    pose proof (Hne x (nth_error_In _ _ H)) as Hx. destruct (fst x); [congruence|reflexivity].
  Qed.

  Lemma nextk_none : forall j, nth_error hs j = None -> is_nil (nextk j) = true.
  Proof. intros j H. unfold nextk. rewrite H. reflexivity. Qed.

  Lemma chunk_last : forall j, nth_error hs (j + N.to_nat L) = None ->
    firstn (N.to_nat L) (skipn j hs) = skipn j hs.
  Proof.
    intros j H. apply nth_error_None in H. apply firstn_all2. rewrite skipn_length. lia.
  Qed.

  Lemma chunk_next : forall j,
    firstn (N.to_nat L) (skipn j hs) ++ skipn (j + N.to_nat L) hs = skipn j hs.
  Proof.
    intros j. rewrite <- skipn_skipn'. apply firstn_skipn.
  Qed.

  Lemma follow_keys_from : forall fuel j x,
    (1 <= j)%nat -> nth_error hs j = Some x -> (length hs - j < fuel)%nat ->
    follow_keys page fuel L reverse (fst x) = Some (skipn j hs).
  Proof.
    induction fuel as [|f IH]; intros j x Hj Hnth Hf; [lia|].
    cbn [follow_keys]. rewrite (Hkey j x Hj Hnth). cbn [ps_next].
    destruct (nth_error hs (j + N.to_nat L)) as [x'|] eqn:E.
    - destruct (nextk_some _ _ E) as [Hk Hn]. rewrite Hn, Hk.
      assert (Hlt : (j + N.to_nat L < length hs)%nat) by (apply nth_error_Some; congruence).
      rewrite (IH (j + N.to_nat L)%nat x') by (try assumption; lia).
      rewrite chunk_next. reflexivity.
    - rewrite (nextk_none _ E). rewrite chunk_last by exact E. reflexivity.
  Qed.

  Lemma follow_keys_all : forall fuel, (length hs < fuel)%nat ->
    follow_keys page fuel L reverse [] = Some hs.
  Proof.
    intros [|f] Hf; [lia|]. cbn [follow_keys].
    pose proof (Hoff 0%nat (Nat.le_0_l _)) as H0. change (N.of_nat 0) with 0 in H0.
    rewrite H0. cbn [ps_next skipn plus].
    destruct (nth_error hs (N.to_nat L)) as [x'|] eqn:E.
    - destruct (nextk_some _ _ E) as [Hk Hn]. rewrite Hn, Hk.
      assert (Hlt : (N.to_nat L < length hs)%nat) by (apply nth_error_Some; congruence).
      rewrite (follow_keys_from f (N.to_nat L) x') by (try assumption; lia).
      rewrite firstn_skipn. reflexivity.
    - rewrite (nextk_none _ E). apply nth_error_None in E.
      rewrite firstn_all2 by exact E. reflexivity.
  Qed.

  Lemma follow_offsets_from : forall fuel o,
    (o <= length hs)%nat -> (length hs - o < fuel)%nat ->
    follow_offsets page fuel L reverse (N.of_nat o) = Some (skipn o hs).
  Proof.
    induction fuel as [|f IH]; intros o Ho Hf; [lia|].
    cbn [follow_offsets]. rewrite (Hoff o Ho). cbn [ps_next].
    destruct (nth_error hs (o + N.to_nat L)) as [x'|] eqn:E.
    - destruct (nextk_some _ _ E) as [Hk Hn]. rewrite Hn.
      assert (Hlt : (o + N.to_nat L < length hs)%nat) by (apply nth_error_Some; congruence).
      replace (N.of_nat o + L) with (N.of_nat (o + N.to_nat L)) by lia.
      rewrite IH by lia. rewrite chunk_next. reflexivity.
    - rewrite (nextk_none _ E). rewrite chunk_last by exact E. reflexivity.
  Qed.

  Lemma follow_offsets_all : forall fuel, (length hs < fuel)%nat ->
    follow_offsets page fuel L reverse 0 = Some hs.
  Proof.
    intros fuel Hf. change 0 with (N.of_nat 0).
    rewrite follow_offsets_from by lia. reflexivity.
  Qed.
End Follow.

(** ---- the two theorems ---- *)
Lemma paging_complete : forall V (hit : key -> V -> bool) (l : list (key * V))
    (limit : N) (reverse : bool) (after : N) (fuel : nat),
  sorted_keys l ->
  (forall k v, In (k, v) l -> hit k v = true -> k <> []) ->
  1 <= limit ->
  N.of_nat (length l) + limit + 1 < two64 ->
  (length l < fuel)%nat ->
  follow_keys (fun rq => filtered_paginate_after_order hit l rq after) fuel limit reverse []
    = Some (matching hit l reverse after) /\
  follow_offsets (fun rq => filtered_paginate_after_order hit l rq after) fuel limit reverse 0
    = Some (matching hit l reverse after) /\
  (exists items next,
     filtered_paginate_after_order hit l
       {| pr_key := []; pr_offset := 0; pr_limit := limit; pr_count_total := true;
          pr_reverse := reverse |} after
     = Some (items, {| ps_next := next; ps_total := N.of_nat (length (matching hit l reverse after)) |})).
Proof.
  intros V hit l limit reverse after fuel Hs Hne HL Hb Hf.
  rewrite matching_eq. set (hs := filter (hitp hit) (itlist l reverse after)).
  assert (Hlen : (length hs <= length l)%nat).
  { unfold hs. etransitivity; [apply filter_len_le|].
    unfold itlist. destruct reverse; [rewrite rev_length|]; apply filter_len_le. }
  assert (Hne' : forall x, In x hs -> fst x <> []).
  { intros [k v] Hin. unfold hs in Hin. apply filter_In in Hin. destruct Hin as [Hin Hh].
    cbn [fst]. apply (Hne k v); [|exact Hh].
    unfold itlist in Hin. destruct reverse; [apply in_rev in Hin|];
      apply filter_In in Hin; exact (proj1 Hin). }
  assert (Hoff : forall o, (o <= length hs)%nat ->
    (fun rq => filtered_paginate_after_order hit l rq after)
      {| pr_key := []; pr_offset := N.of_nat o; pr_limit := limit; pr_count_total := false;
         pr_reverse := reverse |}
    = Some (firstn (N.to_nat limit) (skipn o hs),
            {| ps_next := opt_key (option_map fst (nth_error hs (o + N.to_nat limit)));
               ps_total := 0 |})).
  { intros o Ho. apply fpao_off_page; [exact HL|lia]. }
  assert (Hkey : forall j x, (1 <= j)%nat -> nth_error hs j = Some x ->
    (fun rq => filtered_paginate_after_order hit l rq after)
      {| pr_key := fst x; pr_offset := 0; pr_limit := limit; pr_count_total := false;
         pr_reverse := reverse |}
    = Some (firstn (N.to_nat limit) (skipn j hs),
            {| ps_next := opt_key (option_map fst (nth_error hs (j + N.to_nat limit)));
               ps_total := 0 |})).
  { intros j x Hj Hnth. apply fpao_key_page; try assumption.
    apply Hne'. eapply nth_error_In; eauto. }
  split; [|split].
  - exact (follow_keys_all V _ hs limit reverse HL Hne' Hoff Hkey fuel ltac:(lia)).
  - exact (follow_offsets_all V _ hs limit reverse HL Hne' Hoff fuel ltac:(lia)).
  - apply fpao_total_page. exact HL.
Qed.

Lemma sdk_paging_complete : forall V (l : list (key * V))
    (limit : N) (reverse : bool) (fuel : nat),
  sorted_keys l ->
  (forall k v, In (k, v) l -> k <> []) ->
  1 <= limit ->
  N.of_nat (length l) + limit + 1 < two64 ->
  (length l < fuel)%nat ->
  follow_keys (fun rq => sdk_paginate l rq) fuel limit reverse []
    = Some (if reverse then rev l else l) /\
  follow_offsets (fun rq => sdk_paginate l rq) fuel limit reverse 0
    = Some (if reverse then rev l else l).
Proof.
  intros V l limit reverse fuel Hs Hne HL Hb Hf.
  rewrite <- (sdk_hits V l reverse).
  set (hs := filter (hitp (fun (_ : key) (_ : V) => true)) (itlist l reverse 0)).
  assert (Hhs : hs = if reverse then rev l else l) by apply sdk_hits.
  assert (Hlen : length hs = length l).
  { rewrite Hhs. destruct reverse; [apply rev_length|reflexivity]. }
  assert (Hne' : forall x, In x hs -> fst x <> []).
  { intros [k v] Hin. rewrite Hhs in Hin. cbn [fst]. apply (Hne k v).
    destruct reverse; [apply in_rev in Hin|]; exact Hin. }
  assert (Hoff : forall o, (o <= length hs)%nat ->
    (fun rq => sdk_paginate l rq)
      {| pr_key := []; pr_offset := N.of_nat o; pr_limit := limit; pr_count_total := false;
         pr_reverse := reverse |}
    = Some (firstn (N.to_nat limit) (skipn o hs),
            {| ps_next := opt_key (option_map fst (nth_error hs (o + N.to_nat limit)));
               ps_total := 0 |})).
  { intros o Ho. cbv beta. rewrite sdk_off_eq by (try assumption; lia).
    apply fpao_off_page; [exact HL|lia]. }
  assert (Hkey : forall j x, (1 <= j)%nat -> nth_error hs j = Some x ->
    (fun rq => sdk_paginate l rq)
      {| pr_key := fst x; pr_offset := 0; pr_limit := limit; pr_count_total := false;
         pr_reverse := reverse |}
    = Some (firstn (N.to_nat limit) (skipn j hs),
            {| ps_next := opt_key (option_map fst (nth_error hs (j + N.to_nat limit)));
               ps_total := 0 |})).
  { intros j x Hj Hnth.
    assert (Hk : fst x <> []) by (apply Hne'; eapply nth_error_In; eauto).
    assert (Hnil : is_nil (fst x) = false) by (destruct (fst x); [congruence|reflexivity]).
    cbv beta. rewrite sdk_key_eq by assumption.
    apply fpao_key_page; assumption. }
  split.
  - exact (follow_keys_all V _ hs limit reverse HL Hne' Hoff Hkey fuel ltac:(lia)).
  - exact (follow_offsets_all V _ hs limit reverse HL Hne' Hoff fuel ltac:(lia)).
Qed.

Print Assumptions paging_complete.
Print Assumptions sdk_paging_complete.
