(** Bech32 text is parsed case-insensitively, mixed case is rejected (about Metadata/Bech32.v,
    Metadata/Address.v [from_bech32] = ParseMetadataAddressFromBech32). *)
From Coq Require Import Arith NArith List Bool Lia.
From PV Require Import Metadata.Bech32 Metadata.Bech32Case Metadata.Address.
From PV Require Import Proofs.AddressProofs Proofs.Bech32Proofs Proofs.AddressTextProofs.
Import ListNotations.
Open Scope N_scope.

Definition in_range (c : N) : bool := (33 <=? c) && (c <=? 126).

Ltac cmp :=
  unfold in_range, is_lower, is_upper, upper_char, lower_char, is_lower, is_upper;
  repeat (match goal with
          | |- context [?a <=? ?b] =>
              lazymatch a with
              | context [_ <=? _] => fail
              | _ => lazymatch b with
                     | context [_ <=? _] => fail
                     | _ => destruct (N.leb_spec a b)
                     end
              end
          end; cbn [andb orb negb]);
  try reflexivity; try lia.

Lemma range_upper_char : forall c, in_range (upper_char c) = in_range c.
Proof. intros c. cmp. Qed.
Lemma is_lower_upper_char : forall c, is_lower (upper_char c) = false.
Proof. intros c. cmp. Qed.
Lemma lower_upper_char : forall c, lower_char (upper_char c) = lower_char c.
Proof. intros c. cmp. Qed.
Lemma lower_char_idem : forall c, lower_char (lower_char c) = lower_char c.
Proof. intros c. cmp. Qed.
Lemma range_lower_char : forall c, in_range (lower_char c) = in_range c.
Proof. intros c. cmp. Qed.
Lemma is_upper_lower_char : forall c, is_upper (lower_char c) = false.
Proof. intros c. cmp. Qed.

Lemma forallb_map_eq : forall (f : N -> N) p s, (forall c, p (f c) = p c) -> forallb p (map f s) = forallb p s.
Proof. intros f p s H. induction s as [|c s IH]; cbn [map forallb]; [reflexivity|]. rewrite H, IH. reflexivity. Qed.
Lemma existsb_map_false : forall (f : N -> N) p s, (forall c, p (f c) = false) -> existsb p (map f s) = false.
Proof. intros f p s H. induction s as [|c s IH]; cbn [map existsb]; [reflexivity|]. rewrite H, IH. reflexivity. Qed.

Lemma lower_upper : forall s, lower (upper s) = lower s.
Proof. intros s. unfold lower, upper. rewrite map_map. apply map_ext. apply lower_upper_char. Qed.
Lemma lower_lower : forall s, lower (lower s) = lower s.
Proof. intros s. unfold lower. rewrite map_map. apply map_ext. apply lower_char_idem. Qed.

Lemma normalize_unmixed : forall s, mixed_case s = false ->
  normalize s = if forallb in_range s then Some (lower s) else None.
Proof.
  intros s H. unfold normalize. fold in_range. unfold mixed_case in H. rewrite H.
  destruct (forallb in_range s); reflexivity.
Qed.

Lemma normalize_upper : forall s, mixed_case s = false -> normalize (upper s) = normalize s.
Proof.
  intros s H. rewrite (normalize_unmixed s H). unfold normalize. fold in_range. unfold upper at 1 2.
  rewrite (forallb_map_eq upper_char in_range s range_upper_char).
  rewrite (existsb_map_false upper_char is_lower s is_lower_upper_char). cbn [andb].
  fold (upper s). rewrite lower_upper. destruct (forallb in_range s); reflexivity.
Qed.

Lemma normalize_lower : forall s, mixed_case s = false -> normalize (lower s) = normalize s.
Proof.
  intros s H. rewrite (normalize_unmixed s H). unfold normalize. fold in_range. unfold lower at 1 3.
  rewrite (forallb_map_eq lower_char in_range s range_lower_char).
  rewrite (existsb_map_false lower_char is_upper s is_upper_lower_char). rewrite andb_false_r.
  fold (lower s). rewrite lower_lower. destruct (forallb in_range s); reflexivity.
Qed.

Lemma decode_same_normal : forall s t lim, length s = length t -> normalize s = normalize t ->
  decode s lim = decode t lim.
Proof. intros s t lim Hl Hn. unfold decode. rewrite Hl, Hn. reflexivity. Qed.

(** all-upper-case and all-lower-case spellings of a text that is not mixed case parse alike *)
Lemma from_bech32_case : forall s, mixed_case s = false ->
  from_bech32 (upper s) = from_bech32 s /\ from_bech32 (lower s) = from_bech32 s.
Proof.
  intros s H. unfold from_bech32, decode_and_convert. split.
  - rewrite (decode_same_normal (upper s) s 1023%nat); [reflexivity | apply map_length | apply normalize_upper, H].
  - rewrite (decode_same_normal (lower s) s 1023%nat); [reflexivity | apply map_length | apply normalize_lower, H].
Qed.
Print Assumptions from_bech32_case.

(** mixed case is rejected *)
Lemma from_bech32_mixed : forall s, mixed_case s = true -> from_bech32 s = None.
Proof.
  intros s H. unfold from_bech32, decode_and_convert, decode, normalize. unfold mixed_case in H. rewrite H.
  destruct (Nat.ltb 1023 (length s)); [reflexivity|]. destruct (Nat.ltb (length s) 8); [reflexivity|].
  destruct (negb _); reflexivity.
Qed.
Print Assumptions from_bech32_mixed.

(** String() of every well formed address: the text and its upper-case spelling both parse back to
    the same bytes; changing the case of some but not all letters of either is rejected *)
Lemma address_text_case : forall a, maddr_wf a ->
  Forall (fun b => (b < 256)%N) (maddr_bytes a) ->
  exists s, to_string (maddr_bytes a) = Some s /\
            from_bech32 s = Some (maddr_bytes a) /\ from_bech32 (upper s) = Some (maddr_bytes a) /\
            from_bech32 (lower s) = Some (maddr_bytes a) /\
            forall m, lower m = lower s -> mixed_case m = true -> from_bech32 m = None.
Proof.
  intros a Hwf Hb. destruct (address_text_roundtrip a Hwf Hb) as (s & Hs & Hp).
  assert (mixed_case s = false) as Hm.
  { destruct (mixed_case s) eqn:E; [|reflexivity]. rewrite (from_bech32_mixed s E) in Hp. discriminate. }
  destruct (from_bech32_case s Hm) as [Hu Hl].
  exists s. repeat split; auto; try congruence.
  intros m _ Hmm. apply from_bech32_mixed, Hmm.
Qed.
Print Assumptions address_text_case.
