From Coq Require Import NArith List Bool Lia.
From PV Require Import Metadata.Bech32 Metadata.Address Metadata.Utf8Name Proofs.AddressProofs.
Import ListNotations.
Open Scope N_scope.
(** Lemmas about the UTF-8 name model (Metadata/Utf8Name.v): agreement with the ASCII model of
    Metadata/Address.v on ASCII names, structure of TrimSpace, the addresses built from a
    normal form, and the EncodeRune / DecodeRune round trip. *)
From Coq Require Import ZArith ZifyBool.
Open Scope N_scope.

Definition ascii (s : list N) : Prop := forallb (fun b => b <? 128) s = true.

(** *** ascii helpers *)
Lemma ascii_in : forall s, ascii s <-> (forall b, In b s -> b < 128).
Proof.
  intros s. unfold ascii. rewrite forallb_forall. split; intros H b Hb.
  - apply N.ltb_lt, H, Hb.
  - apply N.ltb_lt, H, Hb.
Qed.

Lemma ascii_cons : forall b s, ascii (b :: s) <-> b < 128 /\ ascii s.
Proof.
  intros b s. unfold ascii. cbn [forallb]. rewrite andb_true_iff, N.ltb_lt. reflexivity.
Qed.

Lemma ascii_rev : forall s, ascii s -> ascii (rev s).
Proof.
  intros s Ha. apply ascii_in. intros b Hb. apply in_rev in Hb.
  apply (proj1 (ascii_in s) Ha), Hb.
Qed.

Lemma drop_space_in : forall s b, In b (drop_space s) -> In b s.
Proof.
  induction s as [|c r IH]; intros b Hb; [exact Hb|].
  cbn [drop_space] in Hb. destruct (is_space c) eqn:Ec.
  - right. apply IH, Hb.
  - exact Hb.
Qed.

Lemma ascii_drop_space : forall s, ascii s -> ascii (drop_space s).
Proof.
  intros s Ha. apply ascii_in. intros b Hb. apply drop_space_in in Hb.
  apply (proj1 (ascii_in s) Ha), Hb.
Qed.

Lemma ascii_trim : forall s, ascii s -> ascii (trim s).
Proof.
  intros s Ha. unfold trim.
  apply ascii_rev, ascii_drop_space, ascii_rev, ascii_drop_space, Ha.
Qed.

(** *** decoding ASCII *)
Definition arune (b : N) : urune := UR b true [b].

Lemma decode1_ascii : forall b rest, b < 128 -> decode1 b rest = (arune b, rest).
Proof.
  intros b rest Hb. unfold decode1. apply N.ltb_lt in Hb. rewrite Hb. reflexivity.
Qed.

Lemma decode_fuel_ascii : forall fuel s, (length s <= fuel)%nat -> ascii s ->
  decode_fuel fuel s = map arune s.
Proof.
  induction fuel as [|f IH]; intros s Hlen Ha.
  - destruct s as [|b rest]; [reflexivity|]. cbn [length] in Hlen. lia.
  - destruct s as [|b rest]; [reflexivity|].
    apply ascii_cons in Ha. destruct Ha as [Hb Hrest].
    cbn [decode_fuel]. rewrite decode1_ascii by exact Hb. cbn [map]. f_equal.
    apply IH; [cbn [length] in Hlen; lia|exact Hrest].
Qed.

(* on ASCII strings the decoder yields one rune per byte *)
Lemma decode_ascii : forall s, ascii s -> decode s = map (fun b => UR b true [b]) s.
Proof.
  intros s Ha. unfold decode. apply (decode_fuel_ascii (length s) s); [lia|exact Ha].
Qed.
Print Assumptions decode_ascii.

(** *** decoding loses no byte *)
Lemma decode1_bytes : forall b rest u rest', decode1 b rest = (u, rest') ->
  u_bytes u ++ rest' = b :: rest /\ (length rest' <= length rest)%nat.
Proof.
  intros b rest u rest' H. unfold decode1, bad in H. cbv zeta in H.
  repeat match type of H with
         | context [match ?x with _ => _ end] => destruct x eqn:?
         end;
    inversion H; subst; cbn [u_bytes app length]; (split; [reflexivity|lia]).
Qed.

Lemma decode_fuel_bytes : forall fuel s, (length s <= fuel)%nat ->
  flat_map u_bytes (decode_fuel fuel s) = s.
Proof.
  induction fuel as [|f IH]; intros s Hlen.
  - destruct s as [|b rest]; [reflexivity|]. cbn [length] in Hlen. lia.
  - destruct s as [|b rest]; [reflexivity|].
    cbn [decode_fuel]. destruct (decode1 b rest) as [u rest'] eqn:E.
    apply decode1_bytes in E. destruct E as [Hb Hl].
    cbn [flat_map]. rewrite IH; [exact Hb|]. cbn [length] in Hlen. lia.
Qed.

(* decoding loses no byte: the runes' source bytes concatenate to the input *)
Lemma decode_bytes : forall s, flat_map u_bytes (decode s) = s.
Proof. intros s. unfold decode. apply decode_fuel_bytes. lia. Qed.
Print Assumptions decode_bytes.

(** *** TrimSpace on ASCII *)
Lemma space_u_ascii : forall b, b < 128 -> space_u (arune b) = is_space b.
Proof.
  intros b Hb. unfold space_u, arune. cbn [u_ok u_cp andb].
  unfold is_space_rune, is_space, inr.
  assert (E1 : (b =? 133) = false) by (apply N.eqb_neq; lia).
  assert (E2 : (b =? 160) = false) by (apply N.eqb_neq; lia).
  assert (E3 : (b =? 5760) = false) by (apply N.eqb_neq; lia).
  assert (E4 : (8192 <=? b) = false) by (apply N.leb_gt; lia).
  assert (E5 : (b =? 8232) = false) by (apply N.eqb_neq; lia).
  assert (E6 : (b =? 8233) = false) by (apply N.eqb_neq; lia).
  assert (E7 : (b =? 8239) = false) by (apply N.eqb_neq; lia).
  assert (E8 : (b =? 8287) = false) by (apply N.eqb_neq; lia).
  assert (E9 : (b =? 12288) = false) by (apply N.eqb_neq; lia).
  rewrite E1, E2, E3, E4, E5, E6, E7, E8, E9. cbn [andb]. rewrite !orb_false_r. reflexivity.
Qed.

Lemma drop_space_u_ascii : forall s, ascii s ->
  drop_space_u (map arune s) = map arune (drop_space s).
Proof.
  induction s as [|b r IH]; intros Ha; [reflexivity|].
  apply ascii_cons in Ha. destruct Ha as [Hb Hr].
  cbn [map drop_space_u drop_space]. rewrite space_u_ascii by exact Hb.
  destruct (is_space b) eqn:Es; [apply IH, Hr|reflexivity].
Qed.

Lemma trim_runes_ascii : forall s, ascii s -> trim_runes (map arune s) = map arune (trim s).
Proof.
  intros s Ha. unfold trim_runes, trim.
  rewrite drop_space_u_ascii by exact Ha.
  rewrite <- map_rev.
  rewrite drop_space_u_ascii by (apply ascii_rev, ascii_drop_space, Ha).
  rewrite <- map_rev. reflexivity.
Qed.

Lemma flat_map_arune : forall l, flat_map u_bytes (map arune l) = l.
Proof.
  induction l as [|b r IH]; [reflexivity|]. cbn [map flat_map arune u_bytes app].
  fold (arune). rewrite IH. reflexivity.
Qed.

(* on ASCII names the UTF-8 model agrees with the ASCII model of Address.v *)
Lemma trim_u_ascii : forall s, ascii s -> trim_u s = trim s.
Proof.
  intros s Ha. unfold trim_u. rewrite decode_ascii by exact Ha.
  change (fun b : N => UR b true [b]) with arune.
  rewrite trim_runes_ascii by exact Ha. apply flat_map_arune.
Qed.
Print Assumptions trim_u_ascii.

Lemma normalize_u_ascii : forall s, ascii s -> normalize_u s = Some (normalize_name s).
Proof.
  intros s Ha. unfold normalize_u. rewrite trim_u_ascii by exact Ha.
  unfold lower_u. pose proof (ascii_trim s Ha) as Ht. unfold ascii in Ht. rewrite Ht.
  reflexivity.
Qed.
Print Assumptions normalize_u_ascii.

(** *** structure of TrimSpace *)
Lemma drop_space_u_suffix : forall l, exists p, l = p ++ drop_space_u l.
Proof.
  induction l as [|u r IH]; [exists []; reflexivity|].
  cbn [drop_space_u]. destruct (space_u u) eqn:Es.
  - destruct IH as [p Hp]. exists (u :: p). cbn [app]. rewrite <- Hp. reflexivity.
  - exists []. reflexivity.
Qed.

Lemma trim_runes_infix : forall l, exists p q, l = p ++ trim_runes l ++ q.
Proof.
  intros l. unfold trim_runes.
  destruct (drop_space_u_suffix l) as [p Hp].
  destruct (drop_space_u_suffix (rev (drop_space_u l))) as [q Hq].
  exists p, (rev q). rewrite <- rev_app_distr, <- Hq, rev_involutive. exact Hp.
Qed.

(* trimming removes only bytes: the result is a contiguous piece of the input *)
Lemma trim_u_infix : forall s, exists a b, s = a ++ trim_u s ++ b.
Proof.
  intros s. unfold trim_u. destruct (trim_runes_infix (decode s)) as [p [q Hpq]].
  exists (flat_map u_bytes p), (flat_map u_bytes q).
  rewrite <- !flat_map_app, <- Hpq. symmetry. apply decode_bytes.
Qed.
Print Assumptions trim_u_infix.

Lemma drop_space_u_head : forall l,
  match drop_space_u l with u :: _ => space_u u = false | [] => True end.
Proof.
  induction l as [|u r IH]; [exact I|].
  cbn [drop_space_u]. destruct (space_u u) eqn:Es; [exact IH|exact Es].
Qed.

(* the trimmed name neither starts nor ends with a white-space rune *)
Lemma trim_runes_ends : forall l,
  (match trim_runes l with u :: _ => space_u u = false | [] => True end) /\
  (match rev (trim_runes l) with u :: _ => space_u u = false | [] => True end).
Proof.
  intros l. unfold trim_runes. split.
  - pose proof (drop_space_u_head l) as Hm.
    destruct (drop_space_u_suffix (rev (drop_space_u l))) as [q Hq].
    remember (drop_space_u l) as m eqn:Em.
    remember (drop_space_u (rev m)) as d eqn:Ed.
    destruct (rev d) as [|x t] eqn:Er; [exact I|].
    assert (Hd : d = rev t ++ [x]).
    { rewrite <- (rev_involutive d), Er. reflexivity. }
    assert (Hmm : m = x :: t ++ rev q).
    { rewrite <- (rev_involutive m), Hq, Hd, !rev_app_distr. cbn [rev app].
      rewrite rev_involutive. reflexivity. }
    rewrite Hmm in Hm. exact Hm.
  - rewrite rev_involutive. apply drop_space_u_head.
Qed.
Print Assumptions trim_runes_ends.

Section WithHash.
  Variable name_hash : list N -> list N.
  Hypothesis name_hash_len : forall n, length (name_hash n) = 16%nat.

  Lemma record_addr_u_ascii : forall su name, ascii name ->
    record_addr_u name_hash su name = Some (record_addr name_hash su name) /\
    record_spec_addr_u name_hash su name = Some (record_spec_addr name_hash su name).
  Proof.
    intros su name Ha. unfold record_addr_u, record_spec_addr_u.
    rewrite normalize_u_ascii by exact Ha. cbn [option_map].
    unfold named_addr, record_addr, record_spec_addr.
    destruct (normalize_name name) as [|c r]; split; reflexivity.
  Qed.

  (* whatever the normal form is (any non-empty byte string, e.g. the one observed from Go), the
     record and the record-specification address built from it are well formed, parse back to
     their parts, carry the SAME name hash, and their parents are the scope / contract
     specification *)
  Lemma named_addr_parts : forall su cu norm, length su = 16%nat -> length cu = 16%nat -> norm <> [] ->
    exists r s, named_addr name_hash TRecord su norm = Some r /\ named_addr name_hash TRecordSpec cu norm = Some s /\
      parse r = Some (ARecord su (name_hash norm)) /\ parse s = Some (ARecordSpec cu (name_hash norm)) /\
      name_hash_of r = Some (name_hash norm) /\ name_hash_of s = Some (name_hash norm) /\
      as_scope_address r = Some (scope_addr su) /\ as_contract_spec_address s = Some (contract_spec_addr cu).
  Proof.
    intros su cu norm Hsu Hcu Hn.
    destruct norm as [|c n] eqn:En; [congruence|]. rewrite <- En in *. clear Hn.
    pose proof (name_hash_len norm) as Hh.
    assert (Hwr : maddr_wf (ARecord su (name_hash norm))) by (split; assumption).
    assert (Hws : maddr_wf (ARecordSpec cu (name_hash norm))) by (split; assumption).
    exists (maddr_bytes (ARecord su (name_hash norm))), (maddr_bytes (ARecordSpec cu (name_hash norm))).
    split; [unfold named_addr; rewrite En at 1; reflexivity|].
    split; [unfold named_addr; rewrite En at 1; reflexivity|].
    split; [apply parse_bytes, Hwr|]. split; [apply parse_bytes, Hws|].
    split.
    { unfold name_hash_of. cbn [maddr_bytes maddr_type type_byte].
      rewrite len_two by assumption. cbn -[bytes_17_33].
      rewrite b1733_two by assumption. reflexivity. }
    split.
    { unfold name_hash_of. cbn [maddr_bytes maddr_type type_byte].
      rewrite len_two by assumption. cbn -[bytes_17_33].
      rewrite b1733_two by assumption. reflexivity. }
    split.
    - destruct (parent_matches (ARecord su (name_hash norm)) (AScope su) Hwr eq_refl) as [Hm _].
      exact Hm.
    - destruct (parent_matches (ARecordSpec cu (name_hash norm)) (AContractSpec cu) Hws eq_refl) as [Hm _].
      exact Hm.
  Qed.

  (* two names with the same normal form have the same record address (case / surrounding white
     space do not matter), and a blank normal form has none *)
  Lemma same_norm_same_addr : forall su n1 n2 x, normalize_u n1 = Some x -> normalize_u n2 = Some x ->
    record_addr_u name_hash su n1 = record_addr_u name_hash su n2 /\
    record_spec_addr_u name_hash su n1 = record_spec_addr_u name_hash su n2.
  Proof.
    intros su n1 n2 x H1 H2. unfold record_addr_u, record_spec_addr_u.
    rewrite H1, H2. split; reflexivity.
  Qed.
End WithHash.
Print Assumptions record_addr_u_ascii.
Print Assumptions named_addr_parts.
Print Assumptions same_norm_same_addr.

(** *** EncodeRune then DecodeRune *)
Lemma decode_single : forall b rest u, decode1 b rest = (u, []) -> decode (b :: rest) = [u].
Proof.
  intros b rest u H. unfold decode. cbn [length decode_fuel]. rewrite H.
  destruct (length rest); reflexivity.
Qed.

Lemma decode1_2 : forall b c1 r, 194 <= b <= 223 -> 128 <= c1 <= 191 ->
  decode1 b (c1 :: r) = (UR ((b - 192) * 64 + (c1 - 128)) true [b; c1], r).
Proof.
  intros b c1 r Hb Hc. unfold decode1, inr, is_cont.
  assert (E1 : (b <? 128) = false) by (apply N.ltb_ge; lia).
  assert (E2 : (194 <=? b) = true) by (apply N.leb_le; lia).
  assert (E3 : (b <=? 223) = true) by (apply N.leb_le; lia).
  assert (E4 : (128 <=? c1) = true) by (apply N.leb_le; lia).
  assert (E5 : (c1 <=? 191) = true) by (apply N.leb_le; lia).
  rewrite E1, E2, E3, E4, E5. reflexivity.
Qed.

Lemma decode1_3 : forall b c1 c2 r, 224 <= b <= 239 -> 128 <= c1 <= 191 ->
  (b = 224 -> 160 <= c1) -> (b = 237 -> c1 <= 159) -> 128 <= c2 <= 191 ->
  decode1 b (c1 :: c2 :: r) =
    (UR ((b - 224) * 4096 + (c1 - 128) * 64 + (c2 - 128)) true [b; c1; c2], r).
Proof.
  intros b c1 c2 r Hb Hc1 Hlo Hhi Hc2. unfold decode1, inr, is_cont. cbv zeta.
  assert (E1 : (b <? 128) = false) by (apply N.ltb_ge; lia).
  assert (E2 : (b <=? 223) = false) by (apply N.leb_gt; lia).
  assert (E3 : (224 <=? b) = true) by (apply N.leb_le; lia).
  assert (E4 : (b <=? 239) = true) by (apply N.leb_le; lia).
  assert (E5 : (128 <=? c2) = true) by (apply N.leb_le; lia).
  assert (E6 : (c2 <=? 191) = true) by (apply N.leb_le; lia).
  assert (E7 : ((if b =? 224 then 160 else 128) <=? c1) = true).
  { destruct (N.eqb_spec b 224) as [e|e]; apply N.leb_le; [apply Hlo, e|lia]. }
  assert (E8 : (c1 <=? (if b =? 237 then 159 else 191)) = true).
  { destruct (N.eqb_spec b 237) as [e|e]; apply N.leb_le; [apply Hhi, e|lia]. }
  rewrite E1, E2, E3, E4, E5, E6, E7, E8. rewrite andb_false_r. reflexivity.
Qed.

Lemma decode1_4 : forall b c1 c2 c3 r, 240 <= b <= 244 -> 128 <= c1 <= 191 ->
  (b = 240 -> 144 <= c1) -> (b = 244 -> c1 <= 143) -> 128 <= c2 <= 191 -> 128 <= c3 <= 191 ->
  decode1 b (c1 :: c2 :: c3 :: r) =
    (UR ((b - 240) * 262144 + (c1 - 128) * 4096 + (c2 - 128) * 64 + (c3 - 128)) true
        [b; c1; c2; c3], r).
Proof.
  intros b c1 c2 c3 r Hb Hc1 Hlo Hhi Hc2 Hc3. unfold decode1, inr, is_cont. cbv zeta.
  assert (E1 : (b <? 128) = false) by (apply N.ltb_ge; lia).
  assert (E2 : (b <=? 223) = false) by (apply N.leb_gt; lia).
  assert (E3 : (b <=? 239) = false) by (apply N.leb_gt; lia).
  assert (E4 : (240 <=? b) = true) by (apply N.leb_le; lia).
  assert (E4' : (b <=? 244) = true) by (apply N.leb_le; lia).
  assert (E5 : (128 <=? c2) = true) by (apply N.leb_le; lia).
  assert (E6 : (c2 <=? 191) = true) by (apply N.leb_le; lia).
  assert (E5' : (128 <=? c3) = true) by (apply N.leb_le; lia).
  assert (E6' : (c3 <=? 191) = true) by (apply N.leb_le; lia).
  assert (E7 : ((if b =? 240 then 144 else 128) <=? c1) = true).
  { destruct (N.eqb_spec b 240) as [e|e]; apply N.leb_le; [apply Hlo, e|lia]. }
  assert (E8 : (c1 <=? (if b =? 244 then 143 else 191)) = true).
  { destruct (N.eqb_spec b 244) as [e|e]; apply N.leb_le; [apply Hhi, e|lia]. }
  rewrite E1, E2, E3, E4, E4', E5, E6, E5', E6', E7, E8. rewrite !andb_false_r. reflexivity.
Qed.

(* a valid scalar value encodes to bytes that decode back to exactly that rune (so U+FFFD
   written for an invalid byte reads back as U+FFFD) *)
Lemma decode_encode : forall r, r <= 1114111 -> ~ (55296 <= r <= 57343) ->
  decode (encode r) = [UR r true (encode r)].
Proof.
  intros r Hr Hs. unfold encode.
  destruct (N.ltb_spec r 128) as [H1|H1].
  { apply decode_single. apply decode1_ascii, H1. }
  pose proof (N.div_mod r 64 ltac:(lia)) as Da.
  pose proof (N.mod_lt r 64 ltac:(lia)) as Ma.
  destruct (N.ltb_spec r 2048) as [H2|H2].
  { apply decode_single.
    remember (r / 64) as a eqn:Ea. remember (r mod 64) as m0 eqn:Em0.
    rewrite decode1_2 by lia. f_equal. f_equal. lia. }
  assert (E3 : ((1114111 <? r) || inr 55296 57343 r) = false).
  { apply orb_false_iff. split; [apply N.ltb_ge; exact Hr|].
    unfold inr. apply andb_false_iff.
    destruct (N.le_gt_cases 55296 r) as [Hx|Hx].
    - right. apply N.leb_gt. lia.
    - left. apply N.leb_gt. lia. }
  rewrite E3.
  pose proof (N.div_mod (r / 64) 64 ltac:(lia)) as Db.
  pose proof (N.mod_lt (r / 64) 64 ltac:(lia)) as Mb.
  assert (E4096 : r / 4096 = r / 64 / 64) by (rewrite N.div_div by lia; reflexivity).
  destruct (N.ltb_spec r 65536) as [H4|H4].
  { apply decode_single. rewrite E4096.
    remember (r / 64) as a eqn:Ea. remember (r mod 64) as m0 eqn:Em0.
    remember (a / 64) as b eqn:Eb. remember (a mod 64) as m1 eqn:Em1.
    rewrite decode1_3 by lia. f_equal. f_equal. lia. }
  pose proof (N.div_mod (r / 64 / 64) 64 ltac:(lia)) as Dc.
  pose proof (N.mod_lt (r / 64 / 64) 64 ltac:(lia)) as Mc.
  assert (E262144 : r / 262144 = r / 64 / 64 / 64) by (rewrite !N.div_div by lia; reflexivity).
  apply decode_single. rewrite E4096, E262144.
  remember (r / 64) as a eqn:Ea. remember (r mod 64) as m0 eqn:Em0.
  remember (a / 64) as b eqn:Eb. remember (a mod 64) as m1 eqn:Em1.
  remember (b / 64) as c eqn:Ec. remember (b mod 64) as m2 eqn:Em2.
  rewrite decode1_4 by lia. f_equal. f_equal. lia.
Qed.
Print Assumptions decode_encode.

(* computed examples: Kelvin sign and "k" normalise alike; NBSP and U+3000 are trimmed; an
   invalid byte becomes U+FFFD when the name is not pure ASCII; a rune outside the modelled
   table answers None *)
Example utf8_examples :
  normalize_u [226; 132; 170] = Some [107] /\                       (* U+212A -> "k" *)
  normalize_u [194; 160; 195; 132; 227; 128; 128] = Some [195; 164] /\   (* NBSP A-umlaut U+3000 -> a-umlaut *)
  normalize_u [65; 255; 206; 145] = Some [97; 239; 191; 189; 206; 177] /\   (* "A" 0xFF Alpha -> "a" U+FFFD alpha *)
  normalize_u [65; 255] = Some [97; 239; 191; 189] /\
  normalize_u [213; 129] = None /\                                   (* Armenian capital: not modelled *)
  trim_u [32; 226; 128; 168; 104; 105; 9; 194; 133] = [104; 105].
Proof. repeat split; vm_compute; reflexivity. Qed.
Print Assumptions utf8_examples.
