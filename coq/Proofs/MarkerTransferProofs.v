(** More proofs about [PV.Marker.Authz] and the table of [PV.Marker.Access] (property C12):
    the three ways a MsgTransferRequest goes through as an EQUIVALENCE, withdrawals with their
    recipient, the receiving marker's status, and the endpoints decided by one right alone. *)
From Coq Require Import ZArith NArith List Bool Lia ZifyBool.
From PV Require Import Marker.Access Marker.Authz Proofs.MarkerAccessProofs.
Import ListNotations.
Open Scope Z_scope.

(** * MsgTransferRequest, both directions *)

Definition transfer_spec (x : xfer) (p : path) (g' : option grant) : Prop :=
  x_status x = SActive /\ x_type x = TRestricted /\
  (has RTransfer (x_rights x) || has RForceTransfer (x_rights x)) = true /\
  dest_marker_ok (x_dest x) = true /\ dest_blocked (x_dest x) = false /\
  0 <= m_amt (x_msg x) <= x_frombal x /\
  match p with
  | PSelf => x_self x = true /\ g' = x_grant x
  | PForced =>
      x_self x = false /\ x_forced x = true /\ has RForceTransfer (x_rights x) = true /\
      can_force_transfer_from (x_from x) = true /\ g' = x_grant x
  | PGrant =>
      x_self x = false /\ (x_forced x && has RForceTransfer (x_rights x)) = false /\
      exists g r, x_grant x = Some g /\ accept g (x_msg x) = Some r /\ g' = stored_after r
  end.

Lemma transfer_complete x p g' : transfer_spec x p g' -> transfer x = Some (p, g').
Proof.
  unfold transfer_spec, transfer, transfer_gen, transfer_gen2.
  intros (Hs & Ht & Hr & Hd & Hb & [Ha1 Ha2] & Hp).
  destruct (Z.ltb_spec (m_amt (x_msg x)) 0) as [|_]; [lia|].
  rewrite Hs, Ht. cbn [status_eqb is_restricted negb].
  rewrite Hd, Hb. cbn [negb].
  destruct (Z.ltb_spec (x_frombal x) (m_amt (x_msg x))) as [|_]; [lia|].
  destruct p.
  - destruct Hp as [Hself ->]. rewrite Hself.
    destruct (has RTransfer (x_rights x)), (has RForceTransfer (x_rights x)); cbn in Hr |- *; try discriminate; reflexivity.
  - destruct Hp as (Hself & Hf & g & r & Hg & Hacc & ->). rewrite Hself, Hg, Hacc.
    destruct (has RTransfer (x_rights x)), (has RForceTransfer (x_rights x)), (x_forced x);
      cbn in Hr, Hf |- *; try discriminate; reflexivity.
  - destruct Hp as (Hself & Hfo & Hft & Hc & ->). rewrite Hself, Hfo, Hft, Hc.
    destruct (has RTransfer (x_rights x)); cbn; reflexivity.
Qed.

Lemma transfer_iff x p g' : transfer x = Some (p, g') <-> transfer_spec x p g'.
Proof.
  split; [|apply transfer_complete].
  intros H. pose proof (transfer_rules x p g' H) as (Hs & Ht & Hr & Hd & Hb & Ha & Hp).
  unfold transfer_spec. repeat (split; [assumption|]).
  destruct p.
  - exact Hp.
  - exact Hp.
  - destruct Hp as (H1 & H2 & H3 & H4 & _ & H6). auto.
Qed.

(** The forced path on its own: exactly when the marker is an active restricted marker allowing
    forced transfers, the administrator (not the source) holds FORCE_TRANSFER -- TRANSFER is NOT
    needed --, the source may be forced (a group policy, a missing account, an account that has
    signed, a marker account -- including the marker's own --, a market account; never a
    module-account / contract-shaped one), the destination takes the deposit and is not blocked, the
    amount is not negative and covered.  The source's grant is left as it was. *)
Lemma forced_transfer_iff x g' :
  transfer x = Some (PForced, g') <->
  (x_status x = SActive /\ x_type x = TRestricted /\ x_forced x = true /\
   has RForceTransfer (x_rights x) = true /\ x_self x = false /\
   can_force_transfer_from (x_from x) = true /\
   dest_marker_ok (x_dest x) = true /\ dest_blocked (x_dest x) = false /\
   0 <= m_amt (x_msg x) <= x_frombal x /\ g' = x_grant x).
Proof.
  rewrite transfer_iff. unfold transfer_spec. split.
  - intros (Hs & Ht & Hr & Hd & Hb & Ha & Hself & Hfo & Hft & Hc & Hg). repeat split; auto; try lia.
  - intros (Hs & Ht & Hfo & Hft & Hself & Hc & Hd & Hb & Ha & Hg).
    repeat split; auto; try lia.
Qed.

Lemma forced_never_from_module_or_contract x g' :
  transfer x = Some (PForced, g') -> module_or_contract_shape (x_from x) = false.
Proof.
  intros H. apply forced_transfer_iff in H. destruct H as (_ & _ & _ & _ & _ & Hc & _).
  apply forceable_not_module_or_contract; exact Hc.
Qed.

(** A marker's own account CAN be forced (no WITHDRAW needed): marker.go "Allow force transfers out
    of marker accounts still".  Witness: FORCE_TRANSFER only, source = a marker account. *)
Lemma forced_from_marker_account_goes_through : exists x,
  a_marker (x_from x) = true /\ x_rights x = 128%N /\ transfer x = Some (PForced, None).
Proof.
  exists {| x_status := SActive; x_type := TRestricted; x_rights := 128; x_forced := true; x_self := false;
            x_from := {| a_group := false; a_exists := true; a_seq := 0; a_marker := true; a_market := false |};
            x_dest := DPlain; x_grant := None; x_msg := {| m_to := 9%N; m_denom := 1%N; m_amt := 5 |};
            x_frombal := 50 |}.
  vm_compute. repeat split.
Qed.

(** * The receiving marker: its status does not lift the DEPOSIT requirement *)

Lemma deposit_needed_in_every_status x p g' st rs :
  transfer x = Some (p, g') -> x_dest x = DMarker true st rs -> has RDeposit rs = true.
Proof.
  intros H Hd. apply transfer_iff in H. destruct H as (_ & _ & _ & Hok & _).
  rewrite Hd in Hok. exact Hok.
Qed.

(** A validateSendToMarker that only looked at ACTIVE receiving markers would let a transfer into a
    proposed restricted marker's account through without DEPOSIT on it. *)
Lemma active_only_deposit_check_refuted : exists x p g' st rs,
  x_dest x = DMarker true st rs /\ has RDeposit rs = false /\
  transfer_gen2 dest_marker_ok_active_only accept x = Some (p, g') /\ transfer x = None.
Proof.
  exists {| x_status := SActive; x_type := TRestricted; x_rights := 64; x_forced := false; x_self := true;
            x_from := {| a_group := false; a_exists := true; a_seq := 3; a_marker := false; a_market := false |};
            x_dest := DMarker true SProposed 0; x_grant := None;
            x_msg := {| m_to := 9%N; m_denom := 1%N; m_amt := 5 |}; x_frombal := 50 |},
         PSelf, None, SProposed, 0%N.
  vm_compute. repeat split.
Qed.

(** * Withdrawals with their recipient *)

Lemma withdraw_to_iff c d :
  withdraw_to c d = true <->
  (has RWithdraw (c_rights c) = true /\ c_status c = SActive /\
   dest_marker_ok d = true /\ dest_blocked d = false).
Proof.
  unfold withdraw_to, withdraw_to_gen, decide, decide_gen, done.
  destruct (has RWithdraw (c_rights c)), (c_status c); cbn [status_eqb andb];
    destruct (dest_marker_ok d), (dest_blocked d); cbn; intuition congruence.
Qed.

Lemma withdraw_into_restricted_marker_needs_deposit c st rs :
  withdraw_to c (DMarker true st rs) = true ->
  has RWithdraw (c_rights c) = true /\ has RDeposit rs = true.
Proof.
  intros H. apply withdraw_to_iff in H. destruct H as (Hw & _ & Hd & _). cbn in Hd. auto.
Qed.

Lemma withdraw_active_only_refuted : exists c st rs,
  has RDeposit rs = false /\
  withdraw_to_gen dest_marker_ok_active_only c (DMarker true st rs) = true /\
  withdraw_to c (DMarker true st rs) = false.
Proof.
  exists {| c_status := SActive; c_type := TCoin; c_rights := 8; c_manager := false; c_gov := false;
            c_govctl := false; c_allsupply := false; c_supply_zero := false; c_activated := true |},
         SCancelled, 0%N.
  vm_compute. repeat split.
Qed.

(** * Endpoints decided by one right alone *)

(** GrantAllowance (the fee allowance is paid out of the MARKER's account): ADMIN on the marker,
    nothing else helps (manager, governance account, whole supply, any other right), in any
    status. *)
Lemma grant_allowance_iff c : decide c OGrantAllowance = Done <-> has RAdmin (c_rights c) = true.
Proof.
  unfold decide, decide_gen, done. destruct (has RAdmin (c_rights c)); split; congruence.
Qed.

(** The governance-only endpoints: the governance account on a marker under governance control;
    no set of rights stands in for it. *)
Definition gov_only (o : op) : bool :=
  match o with
  | OUpdateForcedTransfer | OSupplyIncrease | OSupplyDecrease | OSetAdministrator
  | ORemoveAdministrator | OChangeStatus | OWithdrawEscrow | OSetMetadataProposal => true
  | _ => false
  end.

Lemma gov_only_needs_governance c o :
  gov_only o = true -> decide c o = Done -> c_gov c = true /\ c_govctl c = true.
Proof.
  unfold decide, decide_gen, done.
  destruct o; cbn [gov_only]; try discriminate; intros _;
    destruct (c_gov c), (c_govctl c); cbn [andb]; intros H; try discriminate; auto.
Qed.

Lemma forced_transfer_summary x g' :
  transfer x = Some (PForced, g') ->
  module_or_contract_shape (x_from x) = false /\ x_forced x = true /\
  has RForceTransfer (x_rights x) = true /\ x_type x = TRestricted /\ x_status x = SActive.
Proof.
  intros H. split; [exact (forced_never_from_module_or_contract x g' H)|].
  apply forced_transfer_iff in H. tauto.
Qed.

(** * MsgIbcTransferRequest *)

Lemma ibc_transfer_iff x g' :
  ibc_transfer x = Some g' <->
  (x_type x = TRestricted /\ has RTransfer (x_rights x) = true /\
   0 < m_amt (x_msg x) <= x_frombal x /\
   ((x_self x = true /\ g' = x_grant x) \/
    (x_self x = false /\ exists g r, x_grant x = Some g /\ accept g (x_msg x) = Some r /\ g' = stored_after r))).
Proof.
  unfold ibc_transfer, ibc_transfer_gen. cbn [andb].
  destruct (Z.leb_spec (m_amt (x_msg x)) 0) as [Hle|Hpos].
  { split; [discriminate|]. intros (_ & _ & [H _] & _). lia. }
  destruct (x_type x); cbn [is_restricted negb].
  { split; [discriminate|]. intros (H & _). discriminate. }
  destruct (has RTransfer (x_rights x)); cbn [negb].
  2:{ split; [discriminate|]. intros (_ & H & _). discriminate. }
  destruct (x_self x) eqn:Eself.
  - destruct (Z.ltb_spec (x_frombal x) (m_amt (x_msg x))) as [Hlt|Hge].
    + split; [discriminate|]. intros (_ & _ & [_ H] & _). lia.
    + split.
      * intros [= <-]. repeat split; auto; try lia.
      * intros (_ & _ & _ & [[_ ->]|[H _]]); [reflexivity|discriminate].
  - destruct (x_grant x) as [g|] eqn:Eg.
    + destruct (accept g (x_msg x)) as [r|] eqn:Ea.
      * destruct (Z.ltb_spec (x_frombal x) (m_amt (x_msg x))) as [Hlt|Hge].
        -- split; [discriminate|]. intros (_ & _ & [_ H] & _). lia.
        -- split.
           ++ intros [= <-]. repeat split; auto; try lia. right. split; [reflexivity|]. eauto.
           ++ intros (_ & _ & _ & [[H _]|(_ & g0 & r0 & Hg & Hacc & ->)]); [discriminate|].
              inversion Hg; subst g0. rewrite Ea in Hacc. inversion Hacc; subst r0. reflexivity.
      * split; [discriminate|].
        intros (_ & _ & _ & [[H _]|(_ & g0 & r0 & Hg & Hacc & _)]); [discriminate|].
        inversion Hg; subst g0. rewrite Ea in Hacc. discriminate.
    + split; [discriminate|].
      intros (_ & _ & _ & [[H _]|(_ & g0 & r0 & Hg & _)]); discriminate.
Qed.

(** An ibc transfer out of somebody else's account goes through only under that account's grant. *)
Lemma ibc_third_party_needs_grant x g' :
  ibc_transfer x = Some g' -> x_self x = false ->
  exists g r, x_grant x = Some g /\ accept g (x_msg x) = Some r /\ g' = stored_after r.
Proof.
  intros H Hs. apply ibc_transfer_iff in H. destruct H as (_ & _ & _ & [[H _]|[_ H]]); [congruence|exact H].
Qed.

(** Sharing TransferCoin's source logic (forced branch included) lets an ibc transfer out of
    another account through with no grant at all. *)
Lemma ibc_forced_branch_refuted : exists x g',
  x_self x = false /\ x_grant x = None /\
  ibc_transfer_gen true accept x = Some g' /\ ibc_transfer x = None.
Proof.
  exists {| x_status := SActive; x_type := TRestricted; x_rights := 192; x_forced := true; x_self := false;
            x_from := {| a_group := false; a_exists := true; a_seq := 3; a_marker := false; a_market := false |};
            x_dest := DPlain; x_grant := None; x_msg := {| m_to := 9%N; m_denom := 1%N; m_amt := 5 |};
            x_frombal := 50 |}, None.
  vm_compute. repeat split.
Qed.

(** * The whole-supply escape reads the RECORDED supply *)

Lemma all_supply_is_the_recorded_supply c sf o :
  (o = OAddAccess \/ o = ODeleteAccess) ->
  has RAdmin (c_rights c) = false -> c_manager c = false ->
  decide (with_supply c sf) o = Done ->
  sf_balance sf = sf_record sf /\ sf_record sf <> 0.
Proof.
  intros Ho Hr Hm. unfold decide, decide_gen, controls_all_supply, with_supply, with_supply_flags, done;
    cbn [c_status c_rights c_manager c_allsupply c_supply_zero].
  rewrite Hr, Hm. cbn [andb orb].
  destruct (Z.eqb_spec (sf_record sf) 0) as [E0|E0], (Z.eqb_spec (sf_record sf) (sf_balance sf)) as [E1|E1];
    destruct Ho as [-> | ->]; destruct (c_status c); cbn; intros H; try discriminate; split; auto.
Qed.

(** Comparing the balance with what the bank says exists instead: the holder of all 600 remaining
    coins of a floating marker recorded at 1000 changes the access list without any right. *)
Lemma circulating_supply_variant_refuted : exists c sf o,
  c_rights c = 0%N /\ c_manager c = false /\ c_gov c = false /\
  sf_balance sf = sf_bank sf /\ sf_balance sf < sf_record sf /\
  decide (with_supply_circulating c sf) o = Done /\ decide (with_supply c sf) o = Denied /\
  req_met (with_supply c sf) (documented o (c_status c) (c_type c)) = false.
Proof.
  exists {| c_status := SActive; c_type := TCoin; c_rights := 0; c_manager := false; c_gov := false;
            c_govctl := true; c_allsupply := false; c_supply_zero := false; c_activated := true |},
         {| sf_record := 1000; sf_bank := 600; sf_balance := 600 |}, OAddAccess.
  vm_compute. repeat split.
Qed.
