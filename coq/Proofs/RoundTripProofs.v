(** Proofs for Genesis/RoundTrip.v (property C18, export / import half).
    Every lemma here is closed under the global context. *)
From Coq Require Import ZArith NArith List Bool Sorted Lia.
From PV Require Import Genesis.RoundTrip.
Import ListNotations.
Open Scope Z_scope.

(* ------------------------------------------------------------------ order theory of kcmp *)

Lemma kcmp_refl : forall a, kcmp a a = Eq.
Proof.
  induction a as [|x a IH]; simpl; [reflexivity|].
  rewrite N.compare_refl. exact IH.
Qed.

Lemma kcmp_eq : forall a b, kcmp a b = Eq -> a = b.
Proof.
  induction a as [|x a IH]; destruct b as [|y b]; simpl; intro H; try discriminate; [reflexivity|].
  destruct (N.compare x y) eqn:E; try discriminate.
  apply N.compare_eq_iff in E. subst. f_equal. apply IH. exact H.
Qed.

Lemma kcmp_antisym : forall a b, kcmp a b = CompOpp (kcmp b a).
Proof.
  induction a as [|x a IH]; destruct b as [|y b]; simpl; try reflexivity.
  rewrite (N.compare_antisym y x). destruct (N.compare y x); simpl; [apply IH | reflexivity | reflexivity].
Qed.

Lemma kcmp_lt_gt : forall a b, kcmp a b = Lt -> kcmp b a = Gt.
Proof. intros a b H. rewrite kcmp_antisym, H. reflexivity. Qed.

Lemma kcmp_gt_lt : forall a b, kcmp a b = Gt -> kcmp b a = Lt.
Proof. intros a b H. rewrite kcmp_antisym, H. reflexivity. Qed.

Lemma kcmp_lt_trans : forall a b c, kcmp a b = Lt -> kcmp b c = Lt -> kcmp a c = Lt.
Proof.
  induction a as [|x a IH]; destruct b as [|y b]; destruct c as [|z c]; simpl; intros H1 H2;
    try discriminate; try reflexivity.
  destruct (N.compare x y) eqn:E1; try discriminate;
    destruct (N.compare y z) eqn:E2; try discriminate.
  - apply N.compare_eq_iff in E1. apply N.compare_eq_iff in E2. subst.
    rewrite N.compare_refl. eapply IH; eassumption.
  - apply N.compare_eq_iff in E1. subst. rewrite E2. reflexivity.
  - apply N.compare_eq_iff in E2. subst. rewrite E1. reflexivity.
  - apply N.compare_lt_iff in E1. apply N.compare_lt_iff in E2.
    assert (E3 : (x < z)%N) by (eapply N.lt_trans; eassumption).
    apply N.compare_lt_iff in E3. rewrite E3. reflexivity.
Qed.

(* ------------------------------------------------------------------ talter at the end of a table *)

Lemma talter_app_end : forall (R : Type) (f : option R -> option (option R)) (k : key) (t1 : table R),
  Forall (fun kr => kcmp (fst kr) k = Lt) t1 ->
  talter f k t1 =
  match f None with
  | None => None
  | Some None => Some t1
  | Some (Some v) => Some (t1 ++ [(k, v)])
  end.
Proof.
  intros R f k t1 H. induction H as [|[k' r'] t' Hk Ht IH]; simpl.
  - destruct (f None) as [[v|]|]; reflexivity.
  - simpl in Hk. rewrite (kcmp_lt_gt _ _ Hk). rewrite IH.
    destruct (f None) as [[v|]|]; reflexivity.
Qed.

Lemma sorted_app_head : forall (R : Type) (t1 t2 : table R) (k : key) (r : R),
  tsorted (t1 ++ (k, r) :: t2) -> Forall (fun kr => kcmp (fst kr) k = Lt) t1.
Proof.
  intros R t1 t2 k r. induction t1 as [|x t1 IH]; intro H.
  - constructor.
  - simpl in H. inversion H as [|? ? Hs Hf]; subst. constructor.
    + apply Forall_app in Hf. destruct Hf as [_ Hf].
      inversion Hf as [|? ? Hx _]; subst. exact Hx.
    + apply IH. exact Hs.
Qed.

(* ------------------------------------------------------------------ the generic round trip *)

Lemma timport_from_cons : forall (G R : Type) (key_of : G -> option key)
    (upd : G -> option R -> option (option R)) (g : G) (gs : list G) (t : table R),
  timport_from key_of upd (g :: gs) (Some t) =
  timport_from key_of upd gs
    (match key_of g with None => None | Some k => talter (upd g) k t end).
Proof. reflexivity. Qed.

Lemma timport_from_app : forall (G R : Type) (proj : R -> G) (key_of : G -> option key)
    (upd : G -> option R -> option (option R)) (t2 t1 : table R),
  tsorted (t1 ++ t2) ->
  Forall (fun kr => key_of (proj (snd kr)) = Some (fst kr) /\
                    upd (proj (snd kr)) None = Some (Some (snd kr))) t2 ->
  timport_from key_of upd (texport proj t2) (Some t1) = Some (t1 ++ t2).
Proof.
  intros G R proj key_of upd t2. induction t2 as [|[k r] t2 IH]; intros t1 Hs Hf.
  - rewrite app_nil_r. reflexivity.
  - inversion Hf as [|? ? [Hk Hu] Hf']; subst. cbn [fst snd] in Hk, Hu.
    change (texport proj ((k, r) :: t2)) with (proj r :: texport proj t2).
    rewrite timport_from_cons. rewrite Hk.
    rewrite (talter_app_end _ _ _ _ (sorted_app_head _ _ _ _ _ Hs)). rewrite Hu. cbv beta iota.
    change ((k, r) :: t2) with ([(k, r)] ++ t2) in Hs. rewrite app_assoc in Hs.
    pose proof (IH _ Hs Hf') as E. rewrite <- app_assoc in E. exact E.
Qed.

Lemma timport_texport : forall (G R : Type) (proj : R -> G) key_of upd (t : table R),
  twf proj key_of upd t -> timport key_of upd (texport proj t) = Some t.
Proof.
  intros G R proj key_of upd t [Hs Hf]. unfold timport.
  apply (timport_from_app G R proj key_of upd t []); assumption.
Qed.

(* ------------------------------------------------------------------ talter keeps tables sorted *)

Lemma talter_keys : forall (R : Type) (Q : key -> Prop) (f : option R -> option (option R))
    (k : key) (t u : table R),
  Forall (fun kr => Q (fst kr)) t -> Q k -> talter f k t = Some u ->
  Forall (fun kr => Q (fst kr)) u.
Proof.
  intros R Q f k t. induction t as [|[k' r'] t IH]; intros u Ht Hk Hu; simpl in Hu.
  - destruct (f None) as [[v|]|]; inversion Hu; subst; repeat constructor; exact Hk.
  - inversion Ht as [|? ? Hx Ht']; subst. destruct (kcmp k k').
    + destruct (f (Some r')) as [[v|]|]; inversion Hu; subst;
        [constructor; [exact Hk | exact Ht'] | exact Ht'].
    + destruct (f None) as [[v|]|]; inversion Hu; subst;
        [constructor; [exact Hk | exact Ht] | exact Ht].
    + destruct (talter f k t) as [u0|] eqn:E; inversion Hu; subst.
      constructor; [exact Hx | apply IH; [exact Ht' | exact Hk | reflexivity]].
Qed.

Lemma talter_sorted : forall (R : Type) (f : option R -> option (option R)) (k : key) (t u : table R),
  tsorted t -> talter f k t = Some u -> tsorted u.
Proof.
  intros R f k t. induction t as [|[k' r'] t IH]; intros u Hs Hu; simpl in Hu.
  - destruct (f None) as [[v|]|]; inversion Hu; subst; repeat constructor.
  - inversion Hs as [|? ? Hs' Hall]; subst. destruct (kcmp k k') eqn:E.
    + apply kcmp_eq in E. subst k'.
      destruct (f (Some r')) as [[v|]|]; inversion Hu; subst; [|exact Hs'].
      constructor; [exact Hs'|].
      eapply Forall_impl; [|exact Hall]. intros a Ha. exact Ha.
    + destruct (f None) as [[v|]|]; inversion Hu; subst; [|exact Hs].
      constructor; [exact Hs|]. constructor; [exact E|].
      eapply Forall_impl; [|exact Hall]. intros a Ha. unfold klt in *. cbn [fst] in *.
      eapply kcmp_lt_trans; eassumption.
    + destruct (talter f k t) as [u0|] eqn:Et; inversion Hu; subst.
      constructor; [apply IH; [exact Hs' | reflexivity]|].
      apply (talter_keys R (fun key0 => kcmp k' key0 = Lt) f k t u0).
      * exact Hall.
      * apply kcmp_gt_lt. exact E.
      * exact Et.
Qed.

Lemma tset_sorted : forall (R : Type) (k : key) (v : R) (t : table R), tsorted t -> tsorted (tset k v t).
Proof.
  intros R k v t Hs. unfold tset.
  destruct (talter (fun _ : option R => Some (Some v)) k t) as [u|] eqn:E; [|exact Hs].
  eapply talter_sorted; eassumption.
Qed.

Lemma tdel_sorted : forall (R : Type) (k : key) (t : table R), tsorted t -> tsorted (tdel k t).
Proof.
  intros R k t Hs. unfold tdel.
  destruct (talter (fun _ : option R => Some None) k t) as [u|] eqn:E; [|exact Hs].
  eapply talter_sorted; eassumption.
Qed.

Lemma fold_sstep_sorted : forall (R : Type) (h : list (sop R)) (t : table R),
  tsorted t -> tsorted (fold_left sstep h t).
Proof.
  intros R h. induction h as [|o h IH]; intros t Hs; simpl; [exact Hs|].
  apply IH. destruct o as [k v|k]; simpl; [apply tset_sorted | apply tdel_sorted]; exact Hs.
Qed.

Lemma srun_sorted : forall (R : Type) (h : list (sop R)), tsorted (srun h).
Proof. intros R h. unfold srun. apply fold_sstep_sorted. constructor. Qed.

(* ------------------------------------------------------------------ extensionality of sorted tables *)

Lemma tget_head_lt : forall (R : Type) (k : key) (t : table R),
  Forall (fun kr => kcmp k (fst kr) = Lt) t -> tget k t = None.
Proof.
  intros R k t H. destruct H as [|[k' r'] l Hx Hl]; simpl; [reflexivity|].
  simpl in Hx. rewrite Hx. reflexivity.
Qed.

Lemma tget_below : forall (R : Type) (k k0 : key) (r0 : R) (t : table R),
  Forall (klt (k0, r0)) t -> kcmp k k0 <> Gt -> tget k t = None.
Proof.
  intros R k k0 r0 t H Hc. apply tget_head_lt. eapply Forall_impl; [|exact H].
  intros [k' r'] Hk. unfold klt in Hk. cbn [fst] in *. destruct (kcmp k k0) eqn:E.
  - apply kcmp_eq in E. subst. exact Hk.
  - eapply kcmp_lt_trans; eassumption.
  - congruence.
Qed.

Lemma sorted_ext_eq : forall (R : Type) (t1 t2 : table R),
  tsorted t1 -> tsorted t2 -> (forall k, tget k t1 = tget k t2) -> t1 = t2.
Proof.
  intros R t1. induction t1 as [|[k1 r1] t1 IH]; intros t2 S1 S2 H; destruct t2 as [|[k2 r2] t2].
  - reflexivity.
  - specialize (H k2). simpl in H. rewrite kcmp_refl in H. discriminate.
  - specialize (H k1). simpl in H. rewrite kcmp_refl in H. discriminate.
  - inversion S1 as [|? ? S1' F1]; inversion S2 as [|? ? S2' F2]; subst.
    destruct (kcmp k1 k2) eqn:E.
    + apply kcmp_eq in E. subst k2.
      assert (Hr : r1 = r2).
      { specialize (H k1). simpl in H. rewrite kcmp_refl in H. congruence. }
      subst r2. f_equal. apply IH; [exact S1' | exact S2' |]. intro k.
      specialize (H k). simpl in H. destruct (kcmp k k1) eqn:E2.
      * rewrite (tget_below _ k k1 r1 t1 F1), (tget_below _ k k1 r1 t2 F2); congruence.
      * rewrite (tget_below _ k k1 r1 t1 F1), (tget_below _ k k1 r1 t2 F2); congruence.
      * exact H.
    + specialize (H k1). simpl in H. rewrite kcmp_refl, E in H. discriminate.
    + specialize (H k2). simpl in H. rewrite kcmp_refl in H.
      rewrite (kcmp_gt_lt _ _ E) in H. discriminate.
Qed.

Lemma export_deterministic : forall (R G : Type) (proj : R -> G) (h1 h2 : list (sop R)),
  (forall k, tget k (srun h1) = tget k (srun h2)) ->
  texport proj (srun h1) = texport proj (srun h2).
Proof.
  intros R G proj h1 h2 H. f_equal.
  apply sorted_ext_eq; [apply srun_sorted | apply srun_sorted | exact H].
Qed.

(* ------------------------------------------------------------------ hold *)

Lemma coins_add_app : forall (c2 c1 : coins),
  tsorted (c1 ++ c2) -> Forall (fun da => snd da <> 0) c2 -> coins_add c1 c2 = c1 ++ c2.
Proof.
  induction c2 as [|[d a] c2 IH]; intros c1 Hs Hf.
  - rewrite app_nil_r. reflexivity.
  - inversion Hf as [|? ? Ha Hf']; subst. cbn [snd] in Ha.
    unfold coins_add. cbn [fold_left fst snd].
    apply Z.eqb_neq in Ha. rewrite Ha.
    unfold coin_add. rewrite (talter_app_end _ _ _ _ (sorted_app_head _ _ _ _ _ Hs)). cbv beta iota.
    change ((d, a) :: c2) with ([(d, a)] ++ c2) in Hs. rewrite app_assoc in Hs.
    pose proof (IH _ Hs Hf') as E. rewrite <- app_assoc in E. exact E.
Qed.

Lemma coins_not_zero : forall (c : coins),
  c <> [] -> Forall (fun da => 0 < snd da) c -> coins_is_zero c = false.
Proof.
  intros c Hne Hf. destruct Hf as [|[d a] l Hx Hl]; [congruence|].
  cbn [snd] in Hx. unfold coins_is_zero. cbn [forallb snd].
  assert (E : (a =? 0) = false) by (apply Z.eqb_neq; lia). rewrite E. reflexivity.
Qed.

Lemma coins_no_neg : forall (c : coins),
  Forall (fun da => 0 < snd da) c -> coins_any_neg c = false.
Proof.
  intros c Hf. unfold coins_any_neg. induction Hf as [|[d a] l Hx Hl IH]; [reflexivity|].
  cbn [snd] in Hx. cbn [existsb snd].
  assert (E : (a <? 0) = false) by (apply Z.ltb_ge; lia). rewrite E. exact IH.
Qed.

Lemma coins_spendable : forall (spend : key -> key -> Z) (a : key) (c : coins),
  Forall (fun da => 0 < snd da <= spend a (fst da)) c ->
  forallb (fun da => (snd da =? 0) || (snd da <=? spend a (fst da) - coin_amt (fst da) [])) c = true.
Proof.
  intros spend a c Hf. induction Hf as [|[d z] l Hx Hl IH]; [reflexivity|].
  cbn [fst snd] in Hx. cbn [forallb fst snd]. rewrite IH.
  unfold coin_amt. cbn [tget]. rewrite Z.sub_0_r.
  assert (E : (z <=? spend a d) = true) by (apply Z.leb_le; lia). rewrite E.
  rewrite orb_true_r. reflexivity.
Qed.

Lemma hold_upd_ok : forall (spend : key -> key -> Z) (r : acct_hold),
  hold_rec_ok spend r -> hold_upd spend r None = Some (Some r).
Proof.
  intros spend [a c] (Hs & Hne & Hf). cbn [ah_addr ah_coins] in *.
  assert (Hpos : Forall (fun da : key * Z => 0 < snd da) c).
  { eapply Forall_impl; [|exact Hf]. intros da Hda. cbv beta in *. lia. }
  assert (Hnz : Forall (fun da : key * Z => snd da <> 0) c).
  { eapply Forall_impl; [|exact Hf]. intros da Hda. cbv beta in *. lia. }
  unfold hold_upd. cbn [ah_addr ah_coins].
  rewrite (coins_not_zero c Hne Hpos). rewrite (coins_no_neg c Hpos).
  rewrite (coins_spendable spend a c Hf).
  rewrite (coins_add_app c [] Hs Hnz). reflexivity.
Qed.

Lemma hold_import_export : forall spend s,
  hold_wf spend s -> hold_import spend (hold_export s) = Some s.
Proof.
  intros spend s [Hs Hf]. unfold hold_import, hold_export. apply timport_texport.
  split; [exact Hs|]. eapply Forall_impl; [|exact Hf].
  intros [k r] [Hk Hok]. cbn [fst snd] in *. split.
  - rewrite Hk. reflexivity.
  - apply hold_upd_ok. exact Hok.
Qed.

(* ------------------------------------------------------------------ name *)

Lemma name_import_export : forall name_key name_norm addr_valid s,
  name_wf name_key name_norm addr_valid s ->
  name_import name_key name_norm addr_valid (name_export s) = Some s.
Proof.
  intros nk nn av [p t] [Hs Hf]. cbn [ns_params ns_records] in Hs, Hf.
  unfold name_import, name_export. cbn [ng_params ng_bindings ns_params ns_records].
  rewrite (timport_texport _ _ _ _ _ t); [reflexivity|].
  split; [exact Hs|]. eapply Forall_impl; [|exact Hf].
  intros [k r] (H1 & H2 & H3). cbn [fst snd] in *.
  unfold name_rec_key, name_upd. rewrite H2, H3. split.
  - rewrite H1. reflexivity.
  - destruct r; reflexivity.
Qed.

(* ------------------------------------------------------------------ attribute *)

Lemma forallb_texport_id : forall (R : Type) (P : R -> bool) (t : table R),
  Forall (fun kr => P (snd kr) = true) t -> forallb P (texport (fun a => a) t) = true.
Proof.
  intros R P t H. induction H as [|x l Hx Hl IH]; [reflexivity|].
  change (texport (fun a : R => a) (x :: l)) with (snd x :: texport (fun a : R => a) l).
  cbn [forallb]. rewrite Hx. exact IH.
Qed.

Lemma attr_import_export : forall attr_key attr_valid attr_norm now s,
  attr_wf attr_key attr_valid attr_norm now s ->
  attr_import attr_key attr_valid attr_norm now (attr_export s) = Some s.
Proof.
  intros ak av an now [m t] [Hs Hf]. cbn [as_attrs as_maxlen] in Hs, Hf.
  unfold attr_import, attr_export. cbn [ag_attrs ag_maxlen as_attrs as_maxlen].
  rewrite forallb_texport_id
    by (eapply Forall_impl; [|exact Hf]; intros kr (_ & H & _); exact H).
  rewrite (timport_texport _ _ _ _ _ t); [reflexivity|].
  split; [exact Hs|]. eapply Forall_impl; [|exact Hf].
  intros [k a] (H1 & H2 & H3 & H4). cbn [fst snd] in *.
  unfold attr_rec_key, attr_upd. rewrite H4, H2, H3. split.
  - rewrite H1. reflexivity.
  - reflexivity.
Qed.

(* ------------------------------------------------------------------ quarantine *)

Lemma quar_import_export : forall rec_id holder s,
  quar_wf rec_id holder s -> quar_import rec_id holder (quar_export s) = Some s.
Proof.
  intros rid hol [o a r] H. unfold quar_wf in H. cbn [qs_optins qs_autos qs_recs] in H.
  destruct H as (H1 & H2 & H3 & H4 & H5 & H6 & H7).
  unfold quar_import, quar_export. cbn [qg_addrs qg_autos qg_funds qs_optins qs_autos qs_recs].
  rewrite (timport_texport _ _ _ _ _ o).
  2:{ split; [exact H1|]. eapply Forall_impl; [|exact H2].
      intros [k x] Hk. cbn [fst snd] in *. rewrite Hk. split; reflexivity. }
  rewrite (timport_texport _ _ _ _ _ a).
  2:{ split; [exact H3|]. eapply Forall_impl; [|exact H4].
      intros [k x] [Hk Hr]. cbn [fst snd] in *. unfold auto_upd. rewrite Hk, Hr. split; reflexivity. }
  rewrite (timport_texport _ _ _ _ _ r).
  2:{ split; [exact H5|]. eapply Forall_impl; [|exact H6].
      intros [k [to un ac co de]] (Hk & Hne & Hac). cbn [fst snd qr_to qr_unaccepted qr_accepted] in *.
      subst ac. rewrite app_nil_r in Hk. subst k.
      unfold qrec_key, qrec_upd, new_qrec, as_qfunds.
      cbn [qf_to qf_unaccepted qf_coins qf_declined qr_to qr_unaccepted qr_coins qr_declined].
      split; [|reflexivity]. destruct un; [congruence | reflexivity]. }
  cbv zeta in H7 |- *. unfold texport. rewrite H7. reflexivity.
Qed.

(* ------------------------------------------------------------------ sanction *)

Lemma sanc_import_export : forall unsanctionable s,
  sanc_wf unsanctionable s -> sanc_import unsanctionable (sanc_export s) = Some s.
Proof.
  intros uns [p sa te] H. unfold sanc_wf in H. cbn [ss_params ss_sanctioned ss_temps] in H.
  destruct H as (H1 & H2 & H3 & H4).
  unfold sanc_import, sanc_export. cbn [sg_params sg_addrs sg_temps ss_params ss_sanctioned ss_temps].
  rewrite (timport_texport _ _ _ _ _ sa).
  2:{ split; [exact H1|]. eapply Forall_impl; [|exact H2].
      intros [k x] [Hk Hu]. cbn [fst snd] in *. unfold sanc_upd. rewrite Hk, Hu. split; reflexivity. }
  rewrite (timport_texport _ _ _ _ _ te).
  2:{ split; [exact H3|]. eapply Forall_impl; [|exact H4].
      intros [k x] [Hk Hst]. cbn [fst snd] in *. unfold temp_upd. rewrite Hk.
      split; [reflexivity|]. destruct Hst as [[Hst Hu] | Hst]; rewrite Hst.
      - rewrite Hu. reflexivity.
      - reflexivity. }
  reflexivity.
Qed.

(* ------------------------------------------------------------------ msgfees *)

Lemma msgfee_import_export : forall msgfee_key msgfee_valid s,
  msgfee_wf msgfee_key msgfee_valid s ->
  msgfee_import msgfee_key msgfee_valid (msgfee_export s) = Some s.
Proof.
  intros mk mv [p t] [Hs Hf]. cbn [ms_params ms_fees] in Hs, Hf.
  unfold msgfee_import, msgfee_export. cbn [mg_params mg_fees ms_params ms_fees].
  rewrite forallb_texport_id
    by (eapply Forall_impl; [|exact Hf]; intros kr (_ & H); exact H).
  rewrite (timport_texport _ _ _ _ _ t); [reflexivity|].
  split; [exact Hs|]. eapply Forall_impl; [|exact Hf].
  intros [k x] [Hk _]. cbn [fst snd] in *. rewrite Hk. split; reflexivity.
Qed.

(* ------------------------------------------------------------------ trigger *)

Lemma trig_import_export : forall trig_valid s,
  trig_wf trig_valid s -> trig_import trig_valid (trig_export s) = Some s.
Proof.
  intros tv [ni qs q ts gs] H. unfold trig_wf in H. cbn [ts_triggers ts_gas] in H.
  destruct H as (H1 & H2 & H3 & H4 & H5).
  unfold trig_import. rewrite H5. unfold trig_export.
  cbn [tg_trigger_id tg_qstart tg_triggers tg_gas tg_queue
       ts_next_id ts_qstart ts_queue ts_triggers ts_gas].
  rewrite (timport_texport _ _ _ _ _ gs).
  2:{ split; [exact H3|]. eapply Forall_impl; [|exact H4].
      intros [k x] Hk. cbn [fst snd] in *. rewrite Hk. split; reflexivity. }
  rewrite (timport_texport _ _ _ _ _ ts).
  2:{ split; [exact H1|]. eapply Forall_impl; [|exact H2].
      intros [k x] Hk. cbn [fst snd] in *. rewrite Hk. split; reflexivity. }
  reflexivity.
Qed.

(* ------------------------------------------------------------------ product *)

Lemma app_import_export : forall x s,
  app_wf x s -> app_import x (app_export x s) = Some s.
Proof.
  intros x [q sa n att f h tr] H. unfold app_wf in H.
  cbn [a_quar a_sanc a_name a_attr a_fees a_hold a_trig] in H.
  destruct H as (Hq & Hs & Hn & Ha & Hf & Hh & Ht & r & Hr1 & Hr2 & Hr3).
  unfold app_import, app_export.
  cbn [g_quar g_sanc g_name g_attr g_fees g_hold g_trig
       a_quar a_sanc a_name a_attr a_fees a_hold a_trig].
  rewrite (quar_import_export _ _ _ Hq).
  rewrite (sanc_import_export _ _ Hs).
  rewrite (name_import_export _ _ _ _ Hn).
  rewrite (attr_import_export _ _ _ _ _ Ha).
  unfold ensure_accountdata. rewrite Hr1, Hr2. unfold keqb. rewrite Hr3. cbn [andb].
  rewrite (msgfee_import_export _ _ _ Hf).
  rewrite (hold_import_export _ _ Hh).
  rewrite (trig_import_export _ _ Ht).
  reflexivity.
Qed.

Lemma app_export_import_export : forall x s s',
  app_wf x s -> app_import x (app_export x s) = Some s' -> app_export x s' = app_export x s.
Proof.
  intros x s s' Hwf H. rewrite (app_import_export x s Hwf) in H.
  injection H as H. subst s'. reflexivity.
Qed.

Lemma app_reimported_accepts_own_export : forall x s s',
  app_wf x s -> app_import x (app_export x s) = Some s' ->
  app_import x (app_export x s') = Some s'.
Proof.
  intros x s s' Hwf H. rewrite (app_import_export x s Hwf) in H.
  injection H as H. subst s'. exact (app_import_export x s Hwf).
Qed.

(* ------------------------------------------------------------------ accepted senders: refutation *)

Definition refute_rec_id : list key -> key := fun l => concat l.
Definition refute_holder : key -> Z := fun _ => 1000.

Definition refute_s : quar_state :=
  {| qs_optins := []; qs_autos := [];
     qs_recs := [ (rec_key refute_rec_id [1%N] [[2%N]; [3%N]],
                   {| qr_to := [1%N]; qr_unaccepted := [[2%N]]; qr_accepted := [[3%N]];
                      qr_coins := [([7%N], 5)]; qr_declined := false |}) ] |}.

Definition refute_s' : quar_state :=
  {| qs_optins := []; qs_autos := [];
     qs_recs := [ (rec_key refute_rec_id [1%N] [[2%N]],
                   {| qr_to := [1%N]; qr_unaccepted := [[2%N]]; qr_accepted := [];
                      qr_coins := [([7%N], 5)]; qr_declined := false |}) ] |}.

Lemma quar_accepted_refuted :
  exists rec_id holder s s',
    tsorted (qs_recs s) /\ quar_import rec_id holder (quar_export s) = Some s' /\
    s' <> s /\ quar_export s' = quar_export s.
Proof.
  exists refute_rec_id, refute_holder, refute_s, refute_s'.
  split; [|split; [|split]].
  - unfold refute_s. cbn [qs_recs]. repeat constructor.
  - vm_compute. reflexivity.
  - intro H. apply (f_equal qs_recs) in H. vm_compute in H. discriminate H.
  - vm_compute. reflexivity.
Qed.

(* ------------------------------------------------------------------ non-vacuity witness *)

Definition witness_ext : ext :=
  {| x_name_key := fun n => 3%N :: n;
     x_name_norm := fun _ n => Some n;
     x_addr_valid := fun _ => true;
     x_attr_key := fun a => 2%N :: len_prefixed (at_addr a) ++ at_name a ++ at_value a;
     x_attr_valid := fun _ => true;
     x_attr_norm := fun n => Some n;
     x_rec_id := fun l => concat l;
     x_unsanctionable := fun _ => false;
     x_msgfee_key := fun u => 0%N :: u;
     x_msgfee_valid := fun _ => true;
     x_trig_valid := fun _ => true;
     x_spend := fun _ _ => 1000;
     x_holder := fun _ => 1000;
     x_now := 100;
     x_acctdata := [97%N; 99%N];
     x_attr_modaddr := [9%N; 9%N] |}.

Definition w_hold1 : acct_hold :=
  {| ah_addr := [1%N]; ah_coins := [([110%N], 5); ([120%N], 7)] |}.
Definition w_hold2 : acct_hold :=
  {| ah_addr := [2%N]; ah_coins := [([110%N], 3)] |}.

Definition w_name1 : name_rec :=
  {| nr_name := [97%N; 99%N]; nr_addr := [9%N; 9%N]; nr_restricted := true |}.
Definition w_name2 : name_rec :=
  {| nr_name := [98%N]; nr_addr := [1%N]; nr_restricted := false |}.

Definition w_attr1 : attr :=
  {| at_name := [98%N]; at_value := [5%N]; at_type := 1%N; at_addr := [1%N];
     at_exp := None; at_ctype := [] |}.
Definition w_attr2 : attr :=
  {| at_name := [98%N]; at_value := [6%N]; at_type := 2%N; at_addr := [2%N];
     at_exp := Some 200; at_ctype := [1%N] |}.

Definition w_auto : auto_resp := {| ar_to := [1%N]; ar_from := [2%N]; ar_resp := 1%N |}.
Definition w_qrec : qrec :=
  {| qr_to := [1%N]; qr_unaccepted := [[3%N]]; qr_accepted := [];
     qr_coins := [([110%N], 4)]; qr_declined := false |}.

Definition w_temp1 : temp_entry := {| te_addr := [6%N]; te_prop := 1%N; te_status := 1%N |}.
Definition w_temp2 : temp_entry := {| te_addr := [7%N]; te_prop := 2%N; te_status := 2%N |}.

Definition w_fee1 : msgfee :=
  {| mf_url := [47%N; 97%N]; mf_denom := [110%N]; mf_amt := 10; mf_recipient := []; mf_bips := 0%N |}.
Definition w_fee2 : msgfee :=
  {| mf_url := [47%N; 98%N]; mf_denom := [110%N]; mf_amt := 20; mf_recipient := [1%N]; mf_bips := 5000%N |}.

Definition w_trig1 : trig := {| tr_id := 1%N; tr_owner := [1%N]; tr_body := [10%N] |}.
Definition w_trig2 : trig := {| tr_id := 2%N; tr_owner := [2%N]; tr_body := [11%N] |}.

Definition witness_state : app_state :=
  {| a_quar :=
       {| qs_optins := [ (optin_key [1%N], [1%N]) ];
          qs_autos := [ (auto_key w_auto, w_auto) ];
          qs_recs := [ (rec_key (x_rec_id witness_ext) [1%N] [[3%N]], w_qrec) ] |};
     a_sanc :=
       {| ss_params := Some {| sp_sanction_min := [([110%N], 1)]; sp_unsanction_min := [] |};
          ss_sanctioned := [ (sanc_key [4%N], [4%N]); (sanc_key [5%N], [5%N]) ];
          ss_temps := [ (temp_key w_temp1, w_temp1); (temp_key w_temp2, w_temp2) ] |};
     a_name :=
       {| ns_params := {| np_max_seg := 32%N; np_min_seg := 2%N; np_max_levels := 16%N;
                          np_allow_unrestricted := true |};
          ns_records := [ (x_name_key witness_ext (nr_name w_name1), w_name1);
                          (x_name_key witness_ext (nr_name w_name2), w_name2) ] |};
     a_attr :=
       {| as_maxlen := 10000%N;
          as_attrs := [ (x_attr_key witness_ext w_attr1, w_attr1);
                        (x_attr_key witness_ext w_attr2, w_attr2) ] |};
     a_fees :=
       {| ms_params := {| mp_floor_denom := [110%N]; mp_floor_amt := 1905;
                          mp_nhash_per_usd_mil := 25000000%N; mp_conv_denom := [117%N] |};
          ms_fees := [ (x_msgfee_key witness_ext (mf_url w_fee1), w_fee1);
                       (x_msgfee_key witness_ext (mf_url w_fee2), w_fee2) ] |};
     a_hold := [ (hold_key (ah_addr w_hold1), w_hold1); (hold_key (ah_addr w_hold2), w_hold2) ];
     a_trig :=
       {| ts_next_id := 3%N; ts_qstart := 1%N;
          ts_queue := [ {| qt_height := 50%N; qt_time := 90; qt_trig := w_trig2 |} ];
          ts_triggers := [ (trig_key 1%N, w_trig1) ];
          ts_gas := [ (gas_key 1%N, {| gl_id := 1%N; gl_amt := 2000000%N |});
                      (gas_key 2%N, {| gl_id := 2%N; gl_amt := 1000000%N |}) ] |} |}.

Ltac wit_split :=
  repeat (cbv beta;
          match goal with
          | |- _ /\ _ => split
          | |- Forall _ _ => constructor
          | |- StronglySorted _ _ => constructor
          end).

Ltac wit_leaf :=
  first [ reflexivity
        | (vm_compute; reflexivity)
        | discriminate
        | (vm_compute; discriminate)
        | (left; wit_leaf)
        | (right; wit_leaf)
        | (split; wit_leaf) ].

Lemma witness_wf : app_wf witness_ext witness_state.
Proof.
  unfold app_wf, quar_wf, sanc_wf, name_wf, attr_wf, msgfee_wf, hold_wf, hold_rec_ok, trig_wf,
    tsorted, witness_state.
  cbn [a_quar a_sanc a_name a_attr a_fees a_hold a_trig
       qs_optins qs_autos qs_recs ss_params ss_sanctioned ss_temps ns_params ns_records
       as_maxlen as_attrs ms_params ms_fees ts_triggers ts_gas].
  wit_split; try (unfold klt; cbn [fst snd]; wit_leaf).
  exists w_name1. split; [vm_compute; reflexivity | split; [reflexivity | vm_compute; reflexivity]].
Qed.

Lemma witness_ok :
  app_wf witness_ext witness_state /\
  app_import witness_ext (app_export witness_ext witness_state) = Some witness_state /\
  g_hold (app_export witness_ext witness_state) <> [] /\
  qg_funds (g_quar (app_export witness_ext witness_state)) <> [] /\
  sg_temps (g_sanc (app_export witness_ext witness_state)) <> [].
Proof.
  split; [exact witness_wf|].
  split; [vm_compute; reflexivity|].
  split; [vm_compute; discriminate|].
  split; vm_compute; discriminate.
Qed.
