(** C13, SDK side: query.FilteredPaginate and query.Paginate (models of Exchange/Paging.v) are
    complete and report exact totals; the maximum page limit returns everything in one page since
    the clamp of commit 9f0ea4287 (and did not before); corollaries on reachable states. *)
From Coq Require Import ZArith NArith List Bool Lia.
From PV Require Import Exchange.KV Exchange.Index Exchange.Paging Proofs.KVProofs Proofs.IndexProofs Proofs.PaymentProofs Proofs.PagingProofs.
Import ListNotations.
Open Scope N_scope.

(** ---- the iteration list without an after-bound ---- *)
Section Itlist0.
  Variable V : Type.
  Notation view := (list (key * V)).

  Lemma itlist0_eq : forall (l : view) reverse, itlist l reverse 0 = if reverse then rev l else l.
  Proof. intros l reverse. unfold itlist. rewrite inbound_0. reflexivity. Qed.

  Lemma in_itlist0 : forall (l : view) reverse x, In x (itlist l reverse 0) -> In x l.
  Proof.
    intros l reverse x H. rewrite itlist0_eq in H.
    destruct reverse; [apply in_rev in H|]; exact H.
  Qed.

  Lemma itlist0_length : forall (l : view) reverse, length (itlist l reverse 0) = length l.
  Proof. intros l reverse. rewrite itlist0_eq. destruct reverse; [apply rev_length|reflexivity]. Qed.

  Lemma itlist_length_le : forall (l : view) reverse after,
    (length (itlist l reverse after) <= length l)%nat.
  Proof.
    intros l reverse after. unfold itlist, inbound.
    destruct reverse; [rewrite rev_length|]; apply filter_len_le.
  Qed.
End Itlist0.

(** ---- (1) query.FilteredPaginate ---- *)
Section SdkFiltered.
  Variable V : Type.
  Variable hit : key -> V -> bool.
  Notation view := (list (key * V)).
  Notation hp := (hitp hit).

  (** offset-mode pages coincide with filteredPaginateAfterOrder's when nothing overflows *)
  Lemma sdk_fp_off_eq : forall (l : view) reverse L o ct, 1 <= L -> o + L + 1 < two64 ->
    sdk_filtered_paginate hit l
      {| pr_key := []; pr_offset := o; pr_limit := L; pr_count_total := ct; pr_reverse := reverse |}
    = filtered_paginate_after_order hit l
        {| pr_key := []; pr_offset := o; pr_limit := L; pr_count_total := ct;
           pr_reverse := reverse |} 0.
  Proof.
    intros l reverse L o ct HL Hb. rewrite fpao_offset_unfold by exact HL.
    rewrite clamp_end_id by exact Hb.
    unfold sdk_filtered_paginate.
    cbn [pr_key pr_offset pr_limit pr_count_total pr_reverse is_nil negb].
    rewrite andb_false_r. assert (E : (L =? 0) = false) by (apply N.eqb_neq; lia). rewrite E.
    rewrite sdk_get_iterator_eq, goi_first.
    assert (Hw1 : wrap64 (o + L) = o + L) by (unfold wrap64; apply N.mod_small; lia).
    rewrite Hw1. reflexivity.
  Qed.

  Lemma sdk_fp_key_unfold : forall (l : view) reverse L K, 1 <= L -> is_nil K = false ->
    sdk_filtered_paginate hit l
      {| pr_key := K; pr_offset := 0; pr_limit := L; pr_count_total := false;
         pr_reverse := reverse |}
    = match get_order_iterator l K reverse 0 with
      | None => None
      | Some it =>
          let '(acc, next) := sdk_fp_key_loop V hit it 0 L [] in
          Some (acc, {| ps_next := opt_key next; ps_total := 0 |})
      end.
  Proof.
    intros l reverse L K HL HK. unfold sdk_filtered_paginate.
    cbn [pr_key pr_offset pr_limit pr_count_total pr_reverse].
    rewrite HK. change (0 <? 0) with false. cbn [negb andb].
    assert (E : (L =? 0) = false) by (apply N.eqb_neq; lia). rewrite E.
    rewrite sdk_get_iterator_eq. reflexivity.
  Qed.

  (** The key-mode loop returns the hits up to the [L]-th one and stops at the ENTRY after it. *)
  Lemma sdk_fp_key_loop_spec : forall (it : view) n L acc, n <= L ->
    sdk_fp_key_loop V hit it n L acc = (rev acc ++ filter hp it, None) \/
    (exists a x b, it = a ++ x :: b /\ N.of_nat (length (filter hp a)) = L - n /\
       sdk_fp_key_loop V hit it n L acc = (rev acc ++ filter hp a, Some (fst x))).
  Proof.
    induction it as [|[k v] r IH]; intros n L acc Hn.
    - left. cbn [sdk_fp_key_loop filter]. rewrite app_nil_r. reflexivity.
    - cbn [sdk_fp_key_loop]. destruct (n =? L) eqn:En.
      + apply N.eqb_eq in En. subst n. right. exists [], (k, v), r.
        split; [reflexivity|]. split; [cbn [filter length]; lia|].
        cbn [filter fst]. rewrite app_nil_r. reflexivity.
      + apply N.eqb_neq in En. rewrite (filter_hp_cons V hit). destruct (hit k v) eqn:Eh.
        * assert (Hn' : n + 1 <= L) by lia.
          destruct (IH (n + 1) L ((k, v) :: acc) Hn') as [H|(a & x & b & Hit & Hlen & H)].
          -- left. rewrite H. cbn [rev]. rewrite <- app_assoc. reflexivity.
          -- right. exists ((k, v) :: a), x, b.
             split; [cbn [app]; f_equal; exact Hit|].
             rewrite (filter_hp_cons V hit), Eh.
             split; [cbn [length]; lia|].
             rewrite H. cbn [rev]. rewrite <- app_assoc. reflexivity.
        * destruct (IH n L acc Hn) as [H|(a & x & b & Hit & Hlen & H)].
          -- left. exact H.
          -- right. exists ((k, v) :: a), x, b.
             split; [cbn [app]; f_equal; exact Hit|].
             rewrite (filter_hp_cons V hit), Eh.
             split; [exact Hlen|exact H].
  Qed.

  (** Following next keys from an entry [x] that is not the first iterated one yields the hits
      of the rest of the iteration. *)
  Lemma sdk_fp_follow_keys_from : forall (l : view) L reverse,
    sorted_keys l -> (forall k v, In (k, v) l -> k <> []) -> 1 <= L ->
    forall fuel pre x post,
      itlist l reverse 0 = pre ++ x :: post -> pre <> [] -> (length (x :: post) < fuel)%nat ->
      follow_keys (fun rq => sdk_filtered_paginate hit l rq) fuel L reverse (fst x)
      = Some (filter hp (x :: post)).
  Proof.
    intros l L reverse Hs Hne HL.
    assert (Hne' : forall y, In y (itlist l reverse 0) -> is_nil (fst y) = false).
    { intros [k v] Hy. apply in_itlist0 in Hy. apply Hne in Hy. cbn [fst].
      destruct k; [congruence|reflexivity]. }
    induction fuel as [|f IH]; intros pre x post Hit Hpre Hf; [cbn [length] in Hf; lia|].
    cbn [follow_keys].
    assert (Hx : is_nil (fst x) = false).
    { apply Hne'. rewrite Hit. apply in_or_app. right. left. reflexivity. }
    assert (Hx0 : fst x <> []) by (intros E0; rewrite E0 in Hx; discriminate).
    rewrite sdk_fp_key_unfold by assumption.
    rewrite (goi_key V l reverse 0 pre x post Hs Hit Hx0 Hpre).
    assert (H0L : 0 <= L) by lia.
    destruct (sdk_fp_key_loop_spec (x :: post) 0 L [] H0L) as [H|(a & x' & b & Ha & Hlen & H)];
      rewrite H; cbn [rev app ps_next opt_key is_nil].
    - reflexivity.
    - assert (Hx' : is_nil (fst x') = false).
      { apply Hne'. rewrite Hit, Ha. apply in_or_app. right. apply in_or_app. right. left.
        reflexivity. }
      rewrite Hx'.
      assert (Ha0 : a <> []).
      { intros ->. cbn [filter length] in Hlen. lia. }
      rewrite (IH (pre ++ a) x' b).
      + rewrite Ha, filter_app. reflexivity.
      + rewrite Hit, Ha. apply app_assoc.
      + intros E0. apply app_eq_nil in E0. destruct E0 as [E0 _]. contradiction.
      + apply (f_equal (@length _)) in Ha. rewrite app_length in Ha.
        destruct a as [|a0 a]; [congruence|]. cbn [length] in *. lia.
  Qed.
End SdkFiltered.

Lemma sdk_filtered_paging_complete : forall V (hit : key -> V -> bool) (l : list (key * V))
    (limit : N) (reverse : bool) (fuel : nat),
  sorted_keys l ->
  (forall k v, In (k, v) l -> k <> []) ->
  1 <= limit ->
  N.of_nat (length l) + limit + 1 < two64 ->
  (length l < fuel)%nat ->
  follow_keys (fun rq => sdk_filtered_paginate hit l rq) fuel limit reverse []
    = Some (matching hit l reverse 0) /\
  follow_offsets (fun rq => sdk_filtered_paginate hit l rq) fuel limit reverse 0
    = Some (matching hit l reverse 0) /\
  (exists items next,
     sdk_filtered_paginate hit l
       {| pr_key := []; pr_offset := 0; pr_limit := limit; pr_count_total := true;
          pr_reverse := reverse |}
     = Some (items, {| ps_next := next; ps_total := N.of_nat (length (matching hit l reverse 0)) |})).
Proof.
  intros V hit l limit reverse fuel Hs Hne HL Hb Hf.
  rewrite matching_eq. set (hs := filter (hitp hit) (itlist l reverse 0)).
  assert (Hlen : (length hs <= length l)%nat).
  { unfold hs. etransitivity; [apply filter_len_le|]. rewrite itlist0_length. lia. }
  assert (Hne' : forall x, In x hs -> fst x <> []).
  { intros [k v] Hin. unfold hs in Hin. apply filter_In in Hin. destruct Hin as [Hin _].
    apply in_itlist0 in Hin. cbn [fst]. exact (Hne k v Hin). }
  assert (Hoff : forall o, (o <= length hs)%nat ->
    (fun rq => sdk_filtered_paginate hit l rq)
      {| pr_key := []; pr_offset := N.of_nat o; pr_limit := limit; pr_count_total := false;
         pr_reverse := reverse |}
    = Some (firstn (N.to_nat limit) (skipn o hs),
            {| ps_next := opt_key (option_map fst (nth_error hs (o + N.to_nat limit)));
               ps_total := 0 |})).
  { intros o Ho. cbv beta. rewrite sdk_fp_off_eq by (try assumption; lia).
    apply fpao_off_page; [exact HL|lia]. }
  split; [|split].
  - destruct fuel as [|f]; [lia|]. cbn [follow_keys].
    pose proof (Hoff 0%nat (Nat.le_0_l _)) as H0. change (N.of_nat 0) with 0 in H0.
    cbv beta in H0. rewrite H0. cbn [ps_next skipn Nat.add].
    destruct (nth_error hs (N.to_nat limit)) as [x|] eqn:E; cbn [option_map opt_key].
    + assert (Hx0 : fst x <> []) by (apply Hne'; eapply nth_error_In; eauto).
      assert (Hx : is_nil (fst x) = false) by (destruct (fst x); [congruence|reflexivity]).
      rewrite Hx.
      assert (Hlt : (N.to_nat limit < length hs)%nat) by (apply nth_error_Some; congruence).
      destruct (filter_split (hitp hit) (itlist l reverse 0) (N.to_nat limit) x E)
        as (pre & post & Hit & Hp & Hq).
      fold hs in Hp, Hq.
      assert (Hpre : pre <> []).
      { intros ->. cbn [filter] in Hp. apply (f_equal (@length _)) in Hp.
        rewrite firstn_length in Hp. cbn [length] in Hp. lia. }
      rewrite (sdk_fp_follow_keys_from V hit l limit reverse Hs Hne HL f pre x post Hit Hpre).
      * rewrite Hq, firstn_skipn. reflexivity.
      * apply (f_equal (@length _)) in Hit. rewrite itlist0_length, app_length in Hit.
        destruct pre as [|p0 pre]; [congruence|]. cbn [length] in *. lia.
    + cbn [is_nil]. apply nth_error_None in E. rewrite firstn_all2 by exact E. reflexivity.
  - exact (follow_offsets_all V _ hs limit reverse HL Hne' Hoff fuel ltac:(lia)).
  - rewrite sdk_fp_off_eq by (try assumption; lia). apply fpao_total_page. exact HL.
Qed.

(** ---- (2) query.Paginate reports the exact total ---- *)
Lemma sdk_p_offset_loop_total : forall V (it : list (key * V)) c o e next acc,
  snd (sdk_p_offset_loop V it c o e true next acc) = c + N.of_nat (length it).
Proof.
  intros V. induction it as [|[k v] r IH]; intros c o e next acc; cbn [sdk_p_offset_loop].
  - cbn [snd length]. lia.
  - destruct (c + 1 <=? o); [rewrite IH; cbn [length]; lia|].
    destruct (c + 1 <=? e); [rewrite IH; cbn [length]; lia|].
    destruct (c + 1 =? wrap64 (e + 1)); rewrite IH; cbn [length]; lia.
Qed.

Lemma sdk_paginate_count_total : forall V (l : list (key * V)) (limit : N) (reverse : bool),
  1 <= limit ->
  exists items next,
    sdk_paginate l {| pr_key := []; pr_offset := 0; pr_limit := limit; pr_count_total := true;
                      pr_reverse := reverse |}
    = Some (items, {| ps_next := next; ps_total := N.of_nat (length l) |}).
Proof.
  intros V l limit reverse HL. unfold sdk_paginate.
  cbn [pr_key pr_offset pr_limit pr_count_total pr_reverse is_nil negb].
  rewrite andb_false_r. assert (E : (limit =? 0) = false) by (apply N.eqb_neq; lia). rewrite E.
  rewrite sdk_get_iterator_eq, goi_first.
  pose proof (sdk_p_offset_loop_total V (itlist l reverse 0) 0 0 (wrap64 (0 + limit)) None [])
    as Ht.
  destruct (sdk_p_offset_loop V (itlist l reverse 0) 0 0 (wrap64 (0 + limit)) true None [])
    as [[acc next] n].
  cbn [snd] in Ht. subst n. exists acc, (opt_key next).
  rewrite itlist0_length, N.add_0_l. reflexivity.
Qed.

(** ---- (3) the maximum page limit: one page returns everything ---- *)
Lemma u64_succ : two64 = u64max + 1.
Proof. reflexivity. Qed.

Lemma clamp_end_max : forall offset, offset < two64 ->
  clamp_end offset (wrap64 (offset + u64max)) = u64max - 1.
Proof.
  intros o Ho. unfold clamp_end. destruct (N.eq_dec o 0) as [->|Hn].
  - assert (E : wrap64 (0 + u64max) = u64max).
    { unfold wrap64. apply N.mod_small. rewrite u64_succ. lia. }
    rewrite E, N.eqb_refl, orb_true_r. reflexivity.
  - assert (E : wrap64 (o + u64max) = o - 1).
    { unfold wrap64.
      assert (E1 : o + u64max = (o - 1) + 1 * two64) by (rewrite u64_succ; lia).
      assert (E2 : two64 <> 0) by (rewrite u64_succ; lia).
      rewrite E1, (N.mod_add _ _ _ E2). apply N.mod_small. lia. }
    rewrite E. assert (E3 : (o - 1 <? o) = true) by (apply N.ltb_lt; lia).
    rewrite E3. reflexivity.
Qed.

Section OffsetLoopCT.
  Variable V : Type.
  Variable hit : key -> V -> bool.
  Notation view := (list (key * V)).

  (** past the end bound with a next key already chosen: nothing changes *)
  Lemma offset_loop_past : forall (it : view) n o e k acc, e < n ->
    fst (offset_loop V hit it n o e true (Some k) acc) = (rev acc, Some k).
  Proof.
    induction it as [|[k0 v0] r IH]; intros n o e k acc Hn; cbn [offset_loop].
    - reflexivity.
    - assert (Hlt : (n <? e) = false) by (apply N.ltb_ge; lia).
      rewrite Hlt, andb_false_r, andb_false_r.
      destruct (hit k0 v0).
      + destruct (n + 1 =? wrap64 (e + 1)); apply IH; lia.
      + destruct (n =? wrap64 (e + 1)); apply IH; lia.
  Qed.

  (** counting the total does not change the page or the next key *)
  Lemma offset_loop_ct_eq : forall (it : view) n o e next acc,
    n <= e -> wrap64 (e + 1) = e + 1 ->
    fst (offset_loop V hit it n o e true next acc) = fst (offset_loop V hit it n o e false next acc).
  Proof.
    induction it as [|[k v] r IH]; intros n o e next acc Hn Hw; cbn [offset_loop].
    - reflexivity.
    - rewrite Hw. destruct (hit k v) eqn:Eh; cbn [andb].
      + destruct (n + 1 =? e + 1) eqn:En.
        * apply N.eqb_eq in En.
          assert (Hp : e < n + 1) by lia.
          destruct next as [k'|]; rewrite offset_loop_past by exact Hp; reflexivity.
        * apply N.eqb_neq in En. apply IH; [lia|exact Hw].
      + assert (En : (n =? e + 1) = false) by (apply N.eqb_neq; lia). rewrite En.
        apply IH; assumption.
  Qed.
End OffsetLoopCT.

Lemma fpao_max_limit_one_page : forall V (hit : key -> V -> bool) (l : list (key * V))
    (offset : N) (ct reverse : bool) (after : N),
  N.of_nat (length l) < u64max -> offset < two64 ->
  filtered_paginate_after_order hit l (max_limit_req offset ct reverse) after
  = Some (skipn (N.to_nat offset) (matching hit l reverse after),
          {| ps_next := [];
             ps_total := if ct then N.of_nat (length (matching hit l reverse after)) else 0 |}).
Proof.
  intros V hit l offset ct reverse after Hl Ho. unfold max_limit_req.
  assert (H1 : 1 <= u64max) by (unfold u64max; lia).
  rewrite fpao_offset_unfold by exact H1.
  rewrite clamp_end_max by exact Ho.
  rewrite matching_eq.
  remember (u64max - 1) as e eqn:He.
  remember (itlist l reverse after) as it eqn:Hit.
  remember (filter (hitp hit) it) as hs eqn:Hhs.
  assert (He1 : e + 1 = u64max) by lia.
  assert (Hw : wrap64 (e + 1) = e + 1).
  { unfold wrap64. apply N.mod_small. rewrite He1, u64_succ. lia. }
  assert (Hlen : N.of_nat (length hs) <= e).
  { assert (length hs <= length l)%nat; [|lia].
    subst hs it. etransitivity; [apply filter_len_le|apply itlist_length_le]. }
  assert (H0e : 0 <= e) by lia.
  assert (HF : fst (offset_loop V hit it 0 offset e false None [])
               = (skipn (N.to_nat offset) hs, None)).
  { rewrite (offset_loop_spec V hit it 0 offset e [] H0e Hw). rewrite <- Hhs. cbn [rev app].
    f_equal.
    - replace (N.to_nat (offset - 0)) with (N.to_nat offset) by lia.
      apply firstn_all2. rewrite skipn_length. lia.
    - assert (Hnone : nth_error hs (N.to_nat (e - 0)) = None) by (apply nth_error_None; lia).
      rewrite Hnone. reflexivity. }
  destruct ct.
  - rewrite <- (offset_loop_ct_eq V hit it 0 offset e None [] H0e Hw) in HF.
    pose proof (offset_loop_total V hit it 0 offset e None []) as Ht.
    rewrite <- Hhs, N.add_0_l in Ht.
    destruct (offset_loop V hit it 0 offset e true None []) as [[acc next] n].
    cbn [fst snd] in HF, Ht. subst n. injection HF as -> ->. reflexivity.
  - destruct (offset_loop V hit it 0 offset e false None []) as [[acc next] n].
    cbn [fst] in HF. injection HF as -> ->. reflexivity.
Qed.

(** ---- (4) before the clamp: the maximum limit loses everything ---- *)
Definition maxlim_ops : list op :=
  [ OCreate {| o_bid := true; o_market := 1; o_owner := [1;1;1]; o_asset := [97;97;97]; o_amount := 5%Z; o_ext := [] |};
    OCreate {| o_bid := false; o_market := 1; o_owner := [2;2;2]; o_asset := [97;97;97]; o_amount := 5%Z; o_ext := [] |} ].

Lemma fpao_unclamped_refuted :
  exists ops p otype reverse,
    let l := pstore (run ops) p in
    matching (index_hit otype) l reverse 0 <> [] /\
    exists next, next <> [] /\
      filtered_paginate_after_order_unclamped (index_hit otype) l (max_limit_req 0 false reverse) 0
      = Some ([], {| ps_next := next; ps_total := 0 |}).
Proof.
  exists maxlim_ops, (p_mkt 1), (Some 1), true. cbv zeta. split.
  - vm_compute. discriminate.
  - exists (u64be 2). split; [vm_compute; discriminate|]. vm_compute. reflexivity.
Qed.

Lemma fpao_unclamped_refuted_fwd :
  exists ops p otype,
    let l := pstore (run ops) p in
    matching (index_hit otype) l false 0 <> [] /\
    exists next, next <> [] /\
      filtered_paginate_after_order_unclamped (index_hit otype) l (max_limit_req 0 false false) 0
      = Some ([], {| ps_next := next; ps_total := 0 |}).
Proof.
  exists maxlim_ops, (p_mkt 1), (Some 0). cbv zeta. split.
  - vm_compute. discriminate.
  - exists (u64be 1). split; [vm_compute; discriminate|]. vm_compute. reflexivity.
Qed.

(** ---- (5) reachable states ---- *)
Lemma all_orders_keys_nonempty : forall ops k v,
  N.of_nat (length ops) < u64max -> In (k, v) (pstore (run ops) p_all_orders) -> length k = 8%nat.
Proof.
  intros ops k v Hn Hin.
  destruct (reach ops Hn) as [HI _].
  assert (NO : ~ other_key (p_all_orders ++ k)).
  { unfold p_all_orders. intros [O|[O|O]]; cbn [app hd] in O; discriminate O. }
  destruct (scan_sound _ _ _ _ _ HI Hin NO) as (id & o & _ & _ & _ & Hx).
  apply all_entry in Hx. destruct Hx as [-> _]. apply u64be_length.
Qed.

Lemma all_orders_all_hits : forall ops reverse,
  N.of_nat (length ops) < u64max ->
  matching all_orders_hit (pstore (run ops) p_all_orders) reverse 0
  = if reverse then rev (pstore (run ops) p_all_orders) else pstore (run ops) p_all_orders.
Proof.
  intros ops reverse Hn. rewrite matching_eq. rewrite <- itlist0_eq.
  apply filter_all_true. intros [k v] Hin. apply in_itlist0 in Hin.
  unfold hitp, all_orders_hit. cbn [fst snd].
  rewrite (all_orders_keys_nonempty ops k v Hn Hin). reflexivity.
Qed.

Lemma paging_complete_all_orders : forall ops limit reverse fuel,
  let l := pstore (run ops) p_all_orders in
  N.of_nat (length ops) < u64max ->
  1 <= limit ->
  N.of_nat (length l) + limit + 1 < two64 ->
  (length l < fuel)%nat ->
  follow_keys (fun rq => sdk_filtered_paginate all_orders_hit l rq) fuel limit reverse []
    = Some (if reverse then rev l else l) /\
  follow_offsets (fun rq => sdk_filtered_paginate all_orders_hit l rq) fuel limit reverse 0
    = Some (if reverse then rev l else l) /\
  (exists items next,
     sdk_filtered_paginate all_orders_hit l
       {| pr_key := []; pr_offset := 0; pr_limit := limit; pr_count_total := true; pr_reverse := reverse |}
     = Some (items, {| ps_next := next; ps_total := N.of_nat (length l) |})).
Proof.
  intros ops limit reverse fuel l Hn HL Hb Hf.
  assert (Hs : sorted_keys l) by (apply pstore_sorted, run_sorted).
  assert (Hne : forall k v, In (k, v) l -> k <> []).
  { intros k v Hin E. subst k.
    pose proof (all_orders_keys_nonempty ops [] v Hn Hin) as H8. discriminate H8. }
  pose proof (sdk_filtered_paging_complete val all_orders_hit l limit reverse fuel Hs Hne HL Hb Hf)
    as (H1 & H2 & H3).
  assert (Hm : matching all_orders_hit l reverse 0 = if reverse then rev l else l)
    by (apply all_orders_all_hits; exact Hn).
  rewrite Hm in H1, H2, H3.
  assert (Hlen : length (if reverse then rev l else l) = length l)
    by (destruct reverse; [apply rev_length|reflexivity]).
  rewrite Hlen in H3. split; [exact H1|split; [exact H2|exact H3]].
Qed.

Lemma payments_keys_nonempty : forall ops p k v,
  (p = p_all_pay \/ exists t, p = p_tgt t) ->
  In (k, v) (pstore (run ops) p) -> k <> [].
Proof.
  intros ops p k v Hp Hin E. subst k.
  pose proof (PaymentProofs.inv_run ops) as HI.
  apply pstore_In in Hin. rewrite app_nil_r in Hin.
  apply (sorted_In_get _ _ _ (run_sorted ops)) in Hin.
  destruct Hp as [->|[t ->]].
  - unfold p_all_pay in Hin.
    destruct (PaymentProofs.inv_P _ HI _ _ Hin) as (q & _ & Hr & _).
    unfold len_prefix in Hr. discriminate Hr.
  - unfold p_tgt in Hin.
    destruct (PaymentProofs.inv_T _ HI _ _ Hin) as (q & _ & _ & Hr).
    rewrite <- (app_nil_r (len_prefix t)) in Hr. apply len_prefix_inj in Hr.
    destruct Hr as [_ Hr]. unfold len_prefix in Hr. discriminate Hr.
Qed.

Lemma paging_complete_payments_all_target : forall ops p limit reverse fuel,
  let l := pstore (run ops) p in
  (p = p_all_pay \/ exists t, p = p_tgt t) ->
  1 <= limit ->
  N.of_nat (length l) + limit + 1 < two64 ->
  (length l < fuel)%nat ->
  follow_keys (fun rq => sdk_paginate l rq) fuel limit reverse [] = Some (if reverse then rev l else l) /\
  follow_offsets (fun rq => sdk_paginate l rq) fuel limit reverse 0 = Some (if reverse then rev l else l).
Proof.
  intros ops p limit reverse fuel l Hp HL Hb Hf.
  apply sdk_paging_complete; try assumption.
  - apply pstore_sorted, run_sorted.
  - intros k v Hin. exact (payments_keys_nonempty ops p k v Hp Hin).
Qed.

(** ---- (6) forward paging tolerates an empty first key ---- *)
Section FollowFwd.
  Variable V : Type.
  Notation view := (list (key * V)).
  Variable page : page_req -> option (view * page_resp).
  Variable hs : view.
  Variable L : N.
  Variable reverse : bool.
  Hypothesis HL : 1 <= L.

  Lemma chunk_last1 : forall j, nth_error hs (j + N.to_nat L) = None ->
    firstn (N.to_nat L) (skipn j hs) = skipn j hs.
  Proof.
    intros j H. apply nth_error_None in H. apply firstn_all2. rewrite skipn_length. lia.
  Qed.

  Lemma chunk_next1 : forall j,
    firstn (N.to_nat L) (skipn j hs) ++ skipn (j + N.to_nat L) hs = skipn j hs.
  Proof. intros j. rewrite <- skipn_skipn'. apply firstn_skipn. Qed.

  Hypothesis Hne : forall j x, (1 <= j)%nat -> nth_error hs j = Some x -> fst x <> [].

  Let nextk (j : nat) : key := opt_key (option_map fst (nth_error hs j)).

  Hypothesis Hoff : forall o, (o <= length hs)%nat ->
    page {| pr_key := []; pr_offset := N.of_nat o; pr_limit := L; pr_count_total := false;
            pr_reverse := reverse |}
    = Some (firstn (N.to_nat L) (skipn o hs),
            {| ps_next := nextk (o + N.to_nat L); ps_total := 0 |}).
  Hypothesis Hkey : forall j x, (1 <= j)%nat -> nth_error hs j = Some x ->
    page {| pr_key := fst x; pr_offset := 0; pr_limit := L; pr_count_total := false;
            pr_reverse := reverse |}
    = Some (firstn (N.to_nat L) (skipn j hs),
            {| ps_next := nextk (j + N.to_nat L); ps_total := 0 |}).

  Lemma nextk_some1 : forall j x, (1 <= j)%nat -> nth_error hs j = Some x ->
    nextk j = fst x /\ is_nil (nextk j) = false.
  Proof.
    intros j x Hj H. unfold nextk. rewrite H. cbn [option_map opt_key]. split; [reflexivity|].
    pose proof (Hne j x Hj H) as Hx. destruct (fst x); [congruence|reflexivity].
  Qed.

  Lemma nextk_none1 : forall j, nth_error hs j = None -> is_nil (nextk j) = true.
  Proof. intros j H. unfold nextk. rewrite H. reflexivity. Qed.

  Lemma follow_keys_from1 : forall fuel j x,
    (1 <= j)%nat -> nth_error hs j = Some x -> (length hs - j < fuel)%nat ->
    follow_keys page fuel L reverse (fst x) = Some (skipn j hs).
  Proof.
    induction fuel as [|f IH]; intros j x Hj Hnth Hf; [lia|].
    cbn [follow_keys]. rewrite (Hkey j x Hj Hnth). cbn [ps_next].
    destruct (nth_error hs (j + N.to_nat L)) as [x'|] eqn:E.
    - assert (Hj' : (1 <= j + N.to_nat L)%nat) by lia.
      destruct (nextk_some1 _ _ Hj' E) as [Hk Hn]. rewrite Hn, Hk.
      assert (Hlt : (j + N.to_nat L < length hs)%nat) by (apply nth_error_Some; congruence).
      rewrite (IH (j + N.to_nat L)%nat x') by (try assumption; lia).
      rewrite chunk_next1. reflexivity.
    - rewrite (nextk_none1 _ E). rewrite chunk_last1 by exact E. reflexivity.
  Qed.

  Lemma follow_keys_all1 : forall fuel, (length hs < fuel)%nat ->
    follow_keys page fuel L reverse [] = Some hs.
  Proof.
    intros [|f] Hf; [lia|]. cbn [follow_keys].
    pose proof (Hoff 0%nat (Nat.le_0_l _)) as H0. change (N.of_nat 0) with 0 in H0.
    rewrite H0. cbn [ps_next skipn Nat.add].
    destruct (nth_error hs (N.to_nat L)) as [x'|] eqn:E.
    - assert (Hj' : (1 <= N.to_nat L)%nat) by lia.
      destruct (nextk_some1 _ _ Hj' E) as [Hk Hn]. rewrite Hn, Hk.
      assert (Hlt : (N.to_nat L < length hs)%nat) by (apply nth_error_Some; congruence).
      rewrite (follow_keys_from1 f (N.to_nat L) x') by (try assumption; lia).
      rewrite firstn_skipn. reflexivity.
    - rewrite (nextk_none1 _ E). apply nth_error_None in E.
      rewrite firstn_all2 by exact E. reflexivity.
  Qed.

  Lemma follow_offsets_from1 : forall fuel o,
    (o <= length hs)%nat -> (length hs - o < fuel)%nat ->
    follow_offsets page fuel L reverse (N.of_nat o) = Some (skipn o hs).
  Proof.
    clear Hkey. induction fuel as [|f IH]; intros o Ho Hf; [lia|].
    cbn [follow_offsets]. rewrite (Hoff o Ho). cbn [ps_next].
    destruct (nth_error hs (o + N.to_nat L)) as [x'|] eqn:E.
    - assert (Hj' : (1 <= o + N.to_nat L)%nat) by lia.
      destruct (nextk_some1 _ _ Hj' E) as [Hk Hn]. rewrite Hn.
      assert (Hlt : (o + N.to_nat L < length hs)%nat) by (apply nth_error_Some; congruence).
      replace (N.of_nat o + L) with (N.of_nat (o + N.to_nat L)) by lia.
      rewrite IH by lia. rewrite chunk_next1. reflexivity.
    - rewrite (nextk_none1 _ E). rewrite chunk_last1 by exact E. reflexivity.
  Qed.

  Lemma follow_offsets_all1 : forall fuel, (length hs < fuel)%nat ->
    follow_offsets page fuel L reverse 0 = Some hs.
  Proof.
    clear Hkey. intros fuel Hf. change 0 with (N.of_nat 0).
    rewrite follow_offsets_from1 by lia. reflexivity.
  Qed.
End FollowFwd.

Lemma key_not_lt_nil : forall k, ~ key_lt k [].
Proof. intros [|x k] H; unfold key_lt in H; cbn [key_compare] in H; discriminate H. Qed.

Lemma sorted_later_nonempty : forall V (l : list (key * V)) j x,
  sorted_keys l -> (1 <= j)%nat -> nth_error l j = Some x -> fst x <> [].
Proof.
  intros V l j x Hs Hj Hnth E.
  destruct l as [|[k0 v0] r]; [destruct j; discriminate|].
  destruct j as [|j]; [lia|]. cbn [nth_error] in Hnth. apply nth_error_In in Hnth.
  destruct x as [k v]. cbn [fst] in E. subst k.
  exact (key_not_lt_nil k0 (sorted_head_lt _ _ _ Hs _ _ Hnth)).
Qed.

Lemma sdk_paging_complete_forward : forall V (l : list (key * V)) (limit : N) (fuel : nat),
  sorted_keys l -> 1 <= limit -> N.of_nat (length l) + limit + 1 < two64 -> (length l < fuel)%nat ->
  follow_keys (fun rq => sdk_paginate l rq) fuel limit false [] = Some l /\
  follow_offsets (fun rq => sdk_paginate l rq) fuel limit false 0 = Some l.
Proof.
  intros V l limit fuel Hs HL Hb Hf.
  pose proof (sdk_hits V l false) as Hhs. cbv iota in Hhs.
  assert (Hne' : forall j x, (1 <= j)%nat -> nth_error l j = Some x -> fst x <> []).
  { intros j x Hj Hnth. exact (sorted_later_nonempty V l j x Hs Hj Hnth). }
  assert (Hoff : forall o, (o <= length l)%nat ->
    (fun rq => sdk_paginate l rq)
      {| pr_key := []; pr_offset := N.of_nat o; pr_limit := limit; pr_count_total := false;
         pr_reverse := false |}
    = Some (firstn (N.to_nat limit) (skipn o l),
            {| ps_next := opt_key (option_map fst (nth_error l (o + N.to_nat limit)));
               ps_total := 0 |})).
  { intros o Ho. cbv beta. rewrite sdk_off_eq by (try assumption; lia).
    rewrite fpao_off_page by (try assumption; lia). rewrite Hhs. reflexivity. }
  assert (Hkey : forall j x, (1 <= j)%nat -> nth_error l j = Some x ->
    (fun rq => sdk_paginate l rq)
      {| pr_key := fst x; pr_offset := 0; pr_limit := limit; pr_count_total := false;
         pr_reverse := false |}
    = Some (firstn (N.to_nat limit) (skipn j l),
            {| ps_next := opt_key (option_map fst (nth_error l (j + N.to_nat limit)));
               ps_total := 0 |})).
  { intros j x Hj Hnth.
    assert (Hk : fst x <> []) by (eapply Hne'; eauto).
    assert (Hnil : is_nil (fst x) = false) by (destruct (fst x); [congruence|reflexivity]).
    cbv beta. rewrite sdk_key_eq by assumption.
    rewrite <- Hhs in Hnth.
    rewrite (fpao_key_page V _ l 0 false limit j x Hs HL Hj Hk Hnth). rewrite Hhs. reflexivity. }
  split.
  - exact (follow_keys_all1 V _ l limit false HL Hne' Hoff Hkey fuel Hf).
  - exact (follow_offsets_all1 V _ l limit false HL Hne' Hoff fuel Hf).
Qed.

Print Assumptions sdk_filtered_paging_complete.
Print Assumptions sdk_paginate_count_total.
Print Assumptions fpao_max_limit_one_page.
Print Assumptions fpao_unclamped_refuted.
Print Assumptions fpao_unclamped_refuted_fwd.
Print Assumptions all_orders_keys_nonempty.
Print Assumptions paging_complete_all_orders.
Print Assumptions payments_keys_nonempty.
Print Assumptions paging_complete_payments_all_target.
Print Assumptions sdk_paging_complete_forward.
