(** Proofs/NameAuthorityProofs.v — property C15, deepening: whose authority a BindName is judged on,
    how far a lookup can be off, and completeness of the paged ReverseLookup after any history.

    A. [bind_checks_direct_parent]: after any history (name messages, parameter updates, genesis
       imports) an accepted BindName found a record under the key of the DIRECT PARENT of the name it
       created, and a restricted such record is owned by the signer (injective hash).
    B. [ambiguity_only_inside_preimage_class]: a lookup answers with a record whose stored name has
       the same key pre-image as the queried name (injective hash); exact when that class is a
       singleton.
    C. the index view of a state satisfying the invariant has pairwise different keys, holds hits
       only, and its hits are the one-page listing, which has no duplicates.
    D. [paged_reverse_lookup_complete]: following next keys or offsets with any limit >= 1 returns
       exactly the one-page listing, in order, every name once, in pages whose sizes depend only on
       the number of names. *)
From Coq Require Import Arith NArith List String Ascii Bool Lia.
From PV Require Import Name.Name Name.NameMsgs Name.NamePaging
  Proofs.NameProofs Proofs.NameMsgsProofs Proofs.NameValidProofs Proofs.NamePagingProofs.
Import ListNotations.
Open Scope string_scope.
Open Scope list_scope.

(** * General list facts *)

Lemma nodup_map_members_inj : forall (A B : Type) (f : A -> B) (l : list A),
  NoDup (map f l) -> forall x y, In x l -> In y l -> f x = f y -> x = y.
Proof.
  intros A B f l. induction l as [|z l IH]; intros Hnd x y Hx Hy Hf; [contradiction|].
  cbn [map] in Hnd. inversion Hnd as [|z' l' Hnin Hnd']; subst.
  destruct Hx as [Hx|Hx], Hy as [Hy|Hy].
  - congruence.
  - subst z. exfalso. apply Hnin. rewrite Hf. apply in_map. exact Hy.
  - subst z. exfalso. apply Hnin. rewrite <- Hf. apply in_map. exact Hx.
  - exact (IH Hnd' x y Hx Hy Hf).
Qed.

Lemma nodup_map_inj_on : forall (A B : Type) (f : A -> B) (l : list A),
  NoDup l -> (forall x y, In x l -> In y l -> f x = f y -> x = y) -> NoDup (map f l).
Proof.
  intros A B f l. induction l as [|z l IH]; intros Hnd Hinj; cbn [map]; [constructor|].
  inversion Hnd as [|z' l' Hnin Hnd']; subst. constructor.
  - intros Hin. apply in_map_iff in Hin. destruct Hin as [y [Hfy Hy]].
    assert (E : y = z).
    { apply Hinj; [right; exact Hy|left; reflexivity|exact Hfy]. }
    subst y. exact (Hnin Hy).
  - apply IH; [exact Hnd'|].
    intros x y Hx Hy Hf. apply Hinj; [right; exact Hx|right; exact Hy|exact Hf].
Qed.

(** * Facts that need no hypothesis on the hash *)

Lemma stored_any_fix : forall n, stored_any n -> normalize_name n = n.
Proof.
  intros n [p [raw H]]. apply normalize_some in H. subst n. apply normalize_name_idem.
Qed.

Lemma bind_some_nodot : forall hash p s parent signer child owner restr s',
  bind hash p s parent signer child owner restr = Some s' -> has_dot child = false.
Proof.
  intros hash p s parent signer child owner restr s' H. unfold bind in H.
  destruct (has_dot child) eqn:E; [|reflexivity].
  rewrite orb_true_r in H. discriminate H.
Qed.

Section Injective.
  Variable hash : string -> string.
  Hypothesis Hinj : forall x y, hash x = hash y -> x = y.

  (** B on any state satisfying the invariant *)
  Lemma get_record_preimage_inv : forall (Q : string -> Prop) s n r, invQ hash Q s ->
    get_record hash s n = Some r ->
    name_key_preimage (r_name r) = name_key_preimage n /\ Q (r_name r).
  Proof.
    intros Q s n r Hi H.
    destruct (lookup_up_to_key_inv hash Q s n r Hi H) as [Hk [HQ _]].
    split; [|exact HQ].
    apply (proj1 (keys_equal_iff_preimage_equal hash Hinj (r_name r) n)). exact Hk.
  Qed.

  (** a stored record is found under the normalised spelling of any name it is found under *)
  Lemma get_record_normalize_name : forall s n r, invQ hash stored_any s ->
    get_record hash s n = Some r ->
    get_record hash s (normalize_name n) = Some r /\
    name_key_preimage (r_name r) = name_key_preimage (normalize_name n).
  Proof.
    intros s n r Hi H.
    destruct (get_record_preimage_inv stored_any s n r Hi H) as [Hpre Hst].
    pose proof (preimage_lower_of_normal (r_name r) (stored_any_fix _ Hst)) as Hlow.
    assert (Hdp : name_key_preimage (normalize_name n) = name_key_preimage n).
    { rewrite preimage_normalize_name. rewrite <- Hpre. rewrite Hlow. reflexivity. }
    split.
    - unfold get_record in *. rewrite (same_preimage_same_key hash _ _ Hdp). exact H.
    - rewrite Hdp. exact Hpre.
  Qed.

  (* A. BindName is judged on the DIRECT PARENT OF THE RESULTING NAME: after any history (with
        parameter changes and genesis imports), an accepted bind found, under the key of the direct
        parent of the name it created, a record, and if that record is restricted the signer owns it. *)
  Theorem bind_checks_direct_parent : forall p0 allow0 ms parent signer child owner restr,
    let ps := prun hash p0 allow0 ms in
    snd (pstep hash ps (MOp (OpBind parent signer child owner restr))) = Ok ->
    exists name dp prec,
      normalize (ps_p ps) (child ++ "." ++ parent) = Some name /\
      parent_of name = Some dp /\
      get_record hash (ps_s ps) dp = Some prec /\
      (r_restricted prec = true -> r_addr prec = signer) /\
      name_key_preimage (r_name prec) = name_key_preimage dp.
  Proof.
    intros p0 allow0 ms parent signer child owner restr ps Hok.
    pose proof (prun_inv hash p0 allow0 ms) as Hi. fold ps in Hi. unfold pinv in Hi.
    destruct (pstep_op hash ps (OpBind parent signer child owner restr)) as [_ Hsnd].
    rewrite Hsnd in Hok.
    pose proof (step_ok_exec hash (ps_p ps) (ps_s ps) _ Hok) as He. cbn [exec] in He.
    pose proof (bind_some_nodot _ _ _ _ _ _ _ _ _ He) as Hnd.
    destruct (bind_spec _ _ _ _ _ _ _ _ _ He) as [prec [name [k [Hg [Hr [Hn _]]]]]].
    destruct (get_record_normalize_name _ _ _ Hi Hg) as [Hg' Hpre].
    exists name, (normalize_name parent), prec.
    split; [exact Hn|]. split; [exact (bind_name_shape _ _ _ _ Hnd Hn)|].
    split; [exact Hg'|]. split; [exact Hr|exact Hpre].
  Qed.

  (* B. resolution is ambiguous only inside a class of names with equal key pre-image *)
  Theorem ambiguity_only_inside_preimage_class : forall p0 allow0 ms n r,
    get_record hash (ps_s (prun hash p0 allow0 ms)) n = Some r ->
    name_key_preimage (r_name r) = name_key_preimage n.
  Proof.
    intros p0 allow0 ms n r H.
    exact (proj1 (get_record_preimage_inv stored_any _ n r (prun_inv hash p0 allow0 ms) H)).
  Qed.

  Corollary lookup_exact_when_class_is_singleton : forall p0 allow0 ms n r,
    (forall m, stored_any m -> name_key_preimage m = name_key_preimage n -> m = n) ->
    get_record hash (ps_s (prun hash p0 allow0 ms)) n = Some r -> r_name r = n.
  Proof.
    intros p0 allow0 ms n r Hsingle H.
    destruct (get_record_preimage_inv stored_any _ n r (prun_inv hash p0 allow0 ms) H) as [Hpre Hst].
    exact (Hsingle (r_name r) Hst Hpre).
  Qed.
End Injective.

Section PagedLookup.
  Variable hash : string -> string.

  (** an index entry is the record stored under its key, owned by its address *)
  Lemma idx_entry : forall Q s a k r, invQ hash Q s -> In ((a, k), r) (st_idx s) ->
    rget s k = Some r /\ r_addr r = a.
  Proof.
    intros Q s a k r Hi Hin.
    pose proof (in_aget_some ikey record ikey_eqb ikey_eqb_spec _ _ _ (invq_nd_idx hash Q s Hi) Hin) as Hg.
    change (iget s (a, k) = Some r) in Hg. rewrite (invq_idx hash Q s Hi) in Hg. unfold agree in Hg.
    destruct (rget s k) as [r0|]; [|discriminate Hg].
    destruct (N.eqb_spec (r_addr r0) a) as [Ea|Ea]; [|discriminate Hg].
    injection Hg as Hg. subst r0. split; [reflexivity|exact Ea].
  Qed.

  Lemma idx_view_in : forall s a kv, In kv (idx_view s a) ->
    In ((a, fst kv), snd kv) (st_idx s).
  Proof.
    intros s a kv Hin. unfold idx_view in Hin. apply in_map_iff in Hin.
    destruct Hin as [[[a' k] r] [Hkv Hin]]. apply filter_In in Hin. destruct Hin as [Hin Hf].
    cbn [fst snd] in Hkv, Hf. apply N.eqb_eq in Hf. subst a' kv. cbn [fst snd]. exact Hin.
  Qed.

  (* C. facts about the index view of a state satisfying the invariant *)
  Lemma idx_view_nodup : forall Q s a, invQ hash Q s -> NoDup (map fst (idx_view s a)).
  Proof.
    intros Q s a Hi. unfold idx_view. rewrite map_map. cbn [fst].
    pose proof (invq_nd_idx hash Q s Hi) as Hnd.
    apply nodup_map_inj_on.
    - apply NoDup_filter. exact (NoDup_map_inv _ _ Hnd).
    - intros [[a1 k1] r1] [[a2 k2] r2] Hx Hy Hf. cbn [fst snd] in Hf.
      apply filter_In in Hx. destruct Hx as [Hx Hfx].
      apply filter_In in Hy. destruct Hy as [Hy Hfy].
      cbn [fst snd] in Hfx, Hfy. apply N.eqb_eq in Hfx. apply N.eqb_eq in Hfy. subst a1 a2 k2.
      apply (nodup_map_members_inj _ _ fst (st_idx s) Hnd _ _ Hx Hy). reflexivity.
  Qed.

  Lemma idx_view_all_hits : forall Q s a kv, invQ hash Q s -> In kv (idx_view s a) -> N.eqb (r_addr (snd kv)) a = true.
  Proof.
    intros Q s a kv Hi Hin. apply idx_view_in in Hin.
    destruct (idx_entry Q s a (fst kv) (snd kv) Hi Hin) as [_ Ha].
    apply N.eqb_eq. exact Ha.
  Qed.

  Lemma idx_view_hits : forall s a,
    hits (fun r : record => N.eqb (r_addr r) a) (idx_view s a) = records_of s a.
  Proof.
    intros s a. unfold hits, idx_view, records_of.
    induction (st_idx s) as [|[[a' k] r] l IH]; [reflexivity|].
    cbn [filter fst snd].
    destruct (N.eqb a' a); cbn [andb map filter fst snd].
    - destruct (N.eqb (r_addr r) a); cbn [map snd]; [f_equal|]; exact IH.
    - exact IH.
  Qed.

  Lemma reverse_lookup_nodup : forall Q s a, invQ hash Q s -> NoDup (reverse_lookup s a).
  Proof.
    intros Q s a Hi. unfold reverse_lookup, records_of. rewrite map_map.
    pose proof (invq_nd_idx hash Q s Hi) as Hnd.
    apply nodup_map_inj_on.
    - apply NoDup_filter. exact (NoDup_map_inv _ _ Hnd).
    - intros [[a1 k1] r1] [[a2 k2] r2] Hx Hy Hf. cbn [fst snd] in Hf.
      apply filter_In in Hx. destruct Hx as [Hx Hfx].
      apply filter_In in Hy. destruct Hy as [Hy Hfy].
      cbn [fst snd] in Hfx, Hfy.
      apply andb_true_iff in Hfx. destruct Hfx as [Hfx _]. apply N.eqb_eq in Hfx.
      apply andb_true_iff in Hfy. destruct Hfy as [Hfy _]. apply N.eqb_eq in Hfy.
      subst a1 a2.
      destruct (idx_entry Q s a k1 r1 Hi Hx) as [Hr1 _].
      destruct (idx_entry Q s a k2 r2 Hi Hy) as [Hr2 _].
      destruct (invq_key hash Q s Hi k1 r1 Hr1) as [Hk1 _].
      destruct (invq_key hash Q s Hi k2 r2 Hr2) as [Hk2 _].
      rewrite Hf in Hk1. rewrite Hk1 in Hk2. injection Hk2 as Hk2. subst k2.
      apply (nodup_map_members_inj _ _ fst (st_idx s) Hnd _ _ Hx Hy). reflexivity.
  Qed.

  (** D on any state satisfying the invariant *)
  Lemma paged_reverse_lookup_complete_inv : forall Q s a limit fuel, invQ hash Q s ->
    let l := idx_view s a in
    let hit := fun r : record => N.eqb (r_addr r) a in
    (1 <= limit)%nat -> (List.length l < fuel)%nat ->
    (exists pages, follow_keys String.eqb hit fuel l None limit = Some pages /\
       map r_name (List.concat pages) = reverse_lookup s a /\
       map (@List.length record) pages = chunk_sizes (List.length (reverse_lookup s a)) limit fuel) /\
    (exists pages, follow_offsets String.eqb hit fuel l 0 limit = Some pages /\
       map r_name (List.concat pages) = reverse_lookup s a /\
       map (@List.length record) pages = chunk_sizes (List.length (reverse_lookup s a)) limit fuel) /\
    NoDup (reverse_lookup s a).
  Proof.
    intros Q s a limit fuel Hi l hit Hlim Hfuel.
    pose proof (idx_view_nodup Q s a Hi) as Hnd. fold l in Hnd.
    assert (Hall : forall kv, In kv l -> hit (snd kv) = true).
    { intros kv Hin. exact (idx_view_all_hits Q s a kv Hi Hin). }
    assert (Hhits : map r_name (hits hit l) = reverse_lookup s a).
    { unfold reverse_lookup. rewrite <- (idx_view_hits s a). reflexivity. }
    assert (Hlen : List.length (reverse_lookup s a) = List.length l).
    { rewrite <- Hhits, map_length. exact (hits_all_length string record hit l Hall). }
    split; [|split].
    - destruct (follow_keys_complete string record String.eqb String.eqb_spec hit l limit fuel Hnd Hlim Hfuel)
        as [pages [Hf [Hc _]]].
      pose proof (follow_keys_sizes_all_hits string record String.eqb String.eqb_spec hit l limit fuel
                    Hnd Hlim Hfuel Hall) as Hs.
      rewrite Hf in Hs. cbn [option_map] in Hs. injection Hs as Hs.
      exists pages. split; [exact Hf|]. split.
      + rewrite Hc. exact Hhits.
      + rewrite Hlen. exact Hs.
    - destruct (follow_offsets_complete string record String.eqb hit l limit fuel Hlim Hfuel)
        as [pages [Hf [Hc _]]].
      pose proof (follow_offsets_sizes_all_hits string record String.eqb hit l limit fuel
                    Hlim Hfuel Hall) as Hs.
      rewrite Hf in Hs. cbn [option_map] in Hs. injection Hs as Hs.
      exists pages. split; [exact Hf|]. split.
      + rewrite Hc. exact Hhits.
      + rewrite Hlen. exact Hs.
    - exact (reverse_lookup_nodup Q s a Hi).
  Qed.

  (* D. the paged ReverseLookup is complete and duplicate free after any history: a client that
        follows next keys (or offsets) with any limit >= 1 receives exactly the one-page listing, in
        the same order, every name once, in pages whose sizes depend only on the number of names *)
  Theorem paged_reverse_lookup_complete : forall p0 allow0 ms a limit fuel,
    let s := ps_s (prun hash p0 allow0 ms) in
    let l := idx_view s a in
    let hit := fun r : record => N.eqb (r_addr r) a in
    (1 <= limit)%nat -> (List.length l < fuel)%nat ->
    (exists pages, follow_keys String.eqb hit fuel l None limit = Some pages /\
       map r_name (List.concat pages) = reverse_lookup s a /\
       map (@List.length record) pages = chunk_sizes (List.length (reverse_lookup s a)) limit fuel) /\
    (exists pages, follow_offsets String.eqb hit fuel l 0 limit = Some pages /\
       map r_name (List.concat pages) = reverse_lookup s a /\
       map (@List.length record) pages = chunk_sizes (List.length (reverse_lookup s a)) limit fuel) /\
    NoDup (reverse_lookup s a).
  Proof.
    intros p0 allow0 ms a limit fuel s l hit Hlim Hfuel.
    exact (paged_reverse_lookup_complete_inv stored_any s a limit fuel
             (prun_inv hash p0 allow0 ms) Hlim Hfuel).
  Qed.
End PagedLookup.

(** * Non-vacuity: the collision history of NameProofs.v, read through these theorems.
    User 1 owns aa.bbcc; the never-bound name ccaa.bb is in the same pre-image class, so it resolves
    to that record, and a bind under "ccaa.bb" by user 1 is accepted: the record found under the
    direct parent's key is aa.bbcc. *)
Example collision_inside_class :
  let ps := prun hid default_params false (map MOp confusion_ops) in
  option_map r_name (get_record hid (ps_s ps) "ccaa.bb") = Some "aa.bbcc" /\
  name_key_preimage "aa.bbcc" = name_key_preimage "ccaa.bb" /\
  snd (pstep hid ps (MOp (OpBind "ccaa.bb" 1%N "zz" 1%N false))) = Ok /\
  reverse_lookup (ps_s ps) 1%N = ["aa.bbcc"].
Proof. vm_compute. repeat split. Qed.
