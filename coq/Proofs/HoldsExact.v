(** C02: the hold moves by EXACTLY the reserved amount of the item(s) an operation consumes or
    creates, for every operation (assembling Proofs/HoldsMulti.v and Proofs/HoldsMultiWf.v), at
    every point of every history; and what a genesis with more on hold than its records need
    keeps: the surplus, forever. *)
From Coq Require Import ZArith List Bool Lia.
From PV Require Import Exchange.Holds Proofs.HoldsProofs Proofs.HoldsMulti Proofs.HoldsWf Proofs.HoldsMultiWf.
Import ListNotations.
Open Scope Z_scope.

Lemma delta_exact s o s' a d :
  wf s -> cover s -> step s o = (s', ROk) ->
  hold_of s' a d - hold_of s a d = reserved_delta s o a d.
Proof.
  intros Hwf Hcov Hstep.
  destruct (needs_wf o) eqn:En; [|eapply delta_exact_nowf; eauto].
  unfold step in Hstep. destruct (op_adm o); [|discriminate].
  destruct (op_fun o s) as [s1|] eqn:E; [|discriminate]. injection Hstep as <-.
  destruct o; cbn [needs_wf] in En; try discriminate; cbn [op_fun] in E; cbn [reserved_delta].
  - eapply pay_reject_all_delta; [apply Hwf | exact E].
  - eapply close_market_delta; eauto.
Qed.

Lemma run_app s ops1 ops2 : run s (ops1 ++ ops2) = run (run s ops1) ops2.
Proof. unfold run. apply fold_left_app. Qed.

Lemma delta_exact_history s0 ops o s' a d :
  wf s0 -> ids_ok s0 -> cover s0 ->
  step (run s0 ops) o = (s', ROk) ->
  hold_of s' a d - hold_of (run s0 ops) a d = reserved_delta (run s0 ops) o a d.
Proof.
  intros Hwf Hok Hcov Hstep. eapply delta_exact; [| |exact Hstep].
  - apply wf_run. exact Hwf.
  - apply (cover_run ops s0 Hok Hcov).
Qed.

Lemma surplus_constant s0 ops a d :
  ids_ok s0 ->
  hold_of (run s0 ops) a d - required (run s0 ops) a d = hold_of s0 a d - required s0 a d.
Proof. intros Hok. destruct (run_pres ops s0 Hok) as (_ & D & _). apply D. Qed.

Lemma genesis_surplus_forever g s ops a d :
  genesis_init g = Some s ->
  hold_of (run s ops) a d - required (run s ops) a d = hold_of g a d - required g a d /\
  0 <= hold_of (run s ops) a d - required (run s ops) a d.
Proof.
  intros Hg. apply genesis_coverage in Hg. destruct Hg as (-> & Hc & Hok).
  pose proof (surplus_constant g ops a d Hok) as H. specialize (Hc a d). split; lia.
Qed.

(** An exact start gives an exact (hence covered) state for ever; together with [wf] this is what
    [delta_exact_history] needs. *)
Lemma exact_start_cover s0 : (forall a d, hold_of s0 a d = required s0 a d) -> cover s0.
Proof. intros H a d. rewrite H. lia. Qed.
