(** Lemmas about Metadata/Signers.v, part 1: the generic facts.
    - [take_first] (the "first party that ... is marked" loop) in split form;
    - the two greedy role passes are characterised by COUNTS per role;
    - counts per role are equivalent to the existence of an injective assignment (the trivial
      case of Hall's theorem: a party serves only its own role);
    - the smart-contract signer loop is the documented position rule;
    - the brute-force search [assign_b] finds exactly the injective assignments. *)
From Coq Require Import ZArith List Bool Lia Permutation.
From PV Require Import Metadata.Signers Metadata.SignersSpec.
Import ListNotations.
Open Scope Z_scope.

Definition key (d : details) : Z * Z := (d_addr d, d_role d).
Definition cnt {A} (Q : A -> bool) (l : list A) : nat := length (filter Q l).

Lemma Forall2_imp : forall A B (R R' : A -> B -> Prop) l l',
  (forall a b, R a b -> R' a b) -> Forall2 R l l' -> Forall2 R' l l'.
Proof. intros A B R R' l l' H HF; induction HF; constructor; auto. Qed.

(** ** take_first *)
Lemma take_first_none : forall P upd ds,
  take_first P upd ds = None <-> (forall d, In d ds -> P d = false).
Proof.
  intros P upd ds; induction ds as [|d t IH]; cbn.
  - split; [intros _ d []|reflexivity].
  - destruct (P d) eqn:HP.
    + split; [discriminate|]. intros H. specialize (H d (or_introl eq_refl)). congruence.
    + destruct (take_first P upd t) eqn:HT.
      * split; [discriminate|]. intros H.
        assert (HN : Some l = None) by (apply IH; intros x Hx; apply H; now right). discriminate.
      * split; [|reflexivity]. intros _ x [<-|Hx]; [exact HP|]. now apply (proj1 IH).
Qed.

Lemma take_first_some : forall P upd ds ds',
  take_first P upd ds = Some ds' ->
  exists l1 d l2, ds = l1 ++ d :: l2 /\ ds' = l1 ++ upd d :: l2 /\ P d = true /\
                  (forall x, In x l1 -> P x = false).
Proof.
  intros P upd ds; induction ds as [|d t IH]; cbn; intros ds' H; [discriminate|].
  destruct (P d) eqn:HP.
  - injection H as <-. exists [], d, t. repeat split; auto. intros x [].
  - destruct (take_first P upd t) as [t'|] eqn:HT; [|discriminate].
    injection H as <-. destruct (IH t' eq_refl) as (l1 & x & l2 & -> & -> & Hx & Hl1).
    exists (d :: l1), x, l2. repeat split; auto.
    intros y [<-|Hy]; auto.
Qed.

Lemma cnt_app : forall A (Q : A -> bool) l1 l2, cnt Q (l1 ++ l2) = (cnt Q l1 + cnt Q l2)%nat.
Proof. intros; unfold cnt; now rewrite filter_app, app_length. Qed.

Lemma cnt_cons : forall A (Q : A -> bool) x l,
  cnt Q (x :: l) = ((if Q x then 1 else 0) + cnt Q l)%nat.
Proof. intros; unfold cnt; cbn; destruct (Q x); reflexivity. Qed.

Lemma cnt_zero : forall A (Q : A -> bool) l, cnt Q l = 0%nat <-> (forall x, In x l -> Q x = false).
Proof.
  intros A Q l; induction l as [|x t IH].
  - split; [intros _ x []|reflexivity].
  - rewrite cnt_cons. destruct (Q x) eqn:HQ.
    + split; [discriminate|]. intros H. specialize (H x (or_introl eq_refl)). congruence.
    + cbn [Nat.add]. rewrite IH. split.
      * intros H y [<-|Hy]; auto.
      * intros H y Hy; apply H; now right.
Qed.

Lemma cnt_pos_ex : forall A (Q : A -> bool) l, (0 < cnt Q l)%nat ->
  exists l1 x l2, l = l1 ++ x :: l2 /\ Q x = true.
Proof.
  intros A Q l; induction l as [|x t IH]; [cbn; lia|].
  rewrite cnt_cons. destruct (Q x) eqn:HQ.
  - intros _. exists [], x, t. split; auto.
  - cbn [Nat.add]. intros H. destruct (IH H) as (l1 & y & l2 & -> & Hy).
    exists (x :: l1), y, l2. split; auto.
Qed.

(** A step of [take_first] changes a count by what it does to the one element it touches. *)
Lemma take_first_cnt : forall P upd ds ds' (Q : details -> bool),
  take_first P upd ds = Some ds' ->
  exists d, In d ds /\ P d = true /\
    (cnt Q ds' + (if Q d then 1 else 0) = cnt Q ds + (if Q (upd d) then 1 else 0))%nat.
Proof.
  intros P upd ds ds' Q H.
  destruct (take_first_some _ _ _ _ H) as (l1 & d & l2 & -> & -> & HP & _).
  exists d. split; [apply in_or_app; right; now left|]. split; [exact HP|].
  rewrite !cnt_app, !cnt_cons. lia.
Qed.

Lemma take_first_keys : forall P upd ds ds',
  (forall d, key (upd d) = key d) -> take_first P upd ds = Some ds' -> map key ds' = map key ds.
Proof.
  intros P upd ds ds' Hk H.
  destruct (take_first_some _ _ _ _ H) as (l1 & d & l2 & -> & -> & _ & _).
  rewrite !map_app. cbn. now rewrite Hk.
Qed.

Lemma take_first_Forall : forall P upd ds ds' (Q : details -> Prop),
  take_first P upd ds = Some ds' -> (forall d, P d = true -> Q d -> Q (upd d)) ->
  Forall Q ds -> Forall Q ds'.
Proof.
  intros P upd ds ds' Q H Hupd HF.
  destruct (take_first_some _ _ _ _ H) as (l1 & d & l2 & -> & -> & HP & _).
  apply Forall_app in HF as [H1 H2]. inversion H2 as [|? ? Hd H2']; subst.
  apply Forall_app; split; auto.
Qed.

Lemma take_first_exists : forall P upd ds ds' (Q : details -> Prop),
  take_first P upd ds = Some ds' -> (forall d, P d = true -> Q d -> Q (upd d)) ->
  (exists d, In d ds /\ Q d) -> exists d, In d ds' /\ Q d.
Proof.
  intros P upd ds ds' Q H Hupd (x & Hx & HQ).
  destruct (take_first_some _ _ _ _ H) as (l1 & d & l2 & -> & -> & HP & _).
  apply in_app_or in Hx as [Hx|[<-|Hx]].
  - exists x; split; auto. apply in_or_app; now left.
  - exists (upd d); split; auto. apply in_or_app; right; now left.
  - exists x; split; auto. apply in_or_app; right; now right.
Qed.

(** ** The two greedy passes, by counts.
    [S r]: usable for role r and signed (what associateRequiredRoles takes);
    [G r]: usable for role r, unsigned, but has granted to a signer (what the authz pass takes). *)
Section Greedy.
Variable e : env.
Variable signers : list Z.

Definition S (r : Z) (d : details) : bool := usable_as r d && has_signer d.
Definition G (r : Z) (d : details) : bool :=
  usable_as r d && negb (has_signer d) && has_grantee e signers d.

Lemma usable_role : forall r d, usable_as r d = true -> d_role d = r.
Proof. unfold usable_as; intros r d H. apply andb_prop in H as [_ H]. now apply Z.eqb_eq. Qed.

Lemma usable_mark_used : forall r d, usable_as r (mark_used d) = false.
Proof. intros; unfold usable_as, mark_used; cbn. now rewrite andb_false_r. Qed.

Lemma S_mark_used : forall r d, S r (mark_used d) = false.
Proof. intros; unfold S. now rewrite usable_mark_used. Qed.
Lemma G_mark_used : forall r d, G r (mark_used d) = false.
Proof. intros; unfold G. now rewrite usable_mark_used. Qed.

Lemma take_grantee_used : forall r d, has_grantee e signers d = true ->
  usable_as r (take_grantee e signers d) = false.
Proof.
  intros r d H. unfold take_grantee, has_grantee in *.
  destruct (find_grantee e (d_addr d) signers); [apply usable_mark_used|discriminate].
Qed.

Lemma S_other : forall r r' d, S r d = true -> r' <> r -> S r' d = false.
Proof.
  unfold S; intros r r' d H Hne. apply andb_prop in H as [H _].
  apply usable_role in H. unfold usable_as. destruct (Z.eqb_spec (d_role d) r'); [congruence|].
  now rewrite andb_false_r.
Qed.
Lemma G_other : forall r r' d, G r d = true -> r' <> r -> G r' d = false.
Proof.
  unfold G; intros r r' d H Hne. apply andb_prop in H as [H _]. apply andb_prop in H as [H _].
  apply usable_role in H. unfold usable_as. destruct (Z.eqb_spec (d_role d) r'); [congruence|].
  now rewrite andb_false_r.
Qed.
Lemma S_not_G : forall r r' d, S r d = true -> G r' d = false.
Proof.
  unfold S, G; intros r r' d H. apply andb_prop in H as [_ H]. rewrite H. cbn.
  now rewrite andb_false_r.
Qed.
Lemma G_not_S : forall r r' d, G r d = true -> S r' d = false.
Proof.
  unfold S, G; intros r r' d H. apply andb_prop in H as [H _]. apply andb_prop in H as [_ H].
  apply negb_true_iff in H. rewrite H. now rewrite andb_false_r.
Qed.

(** Pass A (associateRequiredRoles). *)
Lemma pass_a_counts : forall roles ds ds' missing,
  associate_required_roles ds roles = (ds', missing) ->
  (forall r, (cnt (S r) ds' + count_occ Z.eq_dec roles r
              = cnt (S r) ds + count_occ Z.eq_dec missing r)%nat) /\
  (forall r, (cnt (S r) ds' <= cnt (S r) ds)%nat) /\
  (forall r, cnt (G r) ds' = cnt (G r) ds) /\
  (forall r, In r missing -> cnt (S r) ds' = 0%nat) /\
  map key ds' = map key ds.
Proof.
  induction roles as [|r0 rest IH]; intros ds ds' missing H; cbn in H.
  - injection H as <- <-. repeat split; auto. intros r [].
  - destruct (take_first (fun d => usable_as r0 d && has_signer d) mark_used ds) as [ds1|] eqn:HT.
    + destruct (IH _ _ _ H) as (E1 & M1 & G1 & Z1 & K1).
      assert (HS : forall r, (cnt (S r) ds1 + (if Z.eq_dec r0 r then 1 else 0) = cnt (S r) ds)%nat).
      { intros r. destruct (take_first_cnt _ _ _ _ (S r) HT) as (d & _ & HP & Hc).
        rewrite S_mark_used in Hc. change (S r0 d = true) in HP.
        destruct (Z.eq_dec r0 r) as [<-|Hne].
        - rewrite HP in Hc. lia.
        - rewrite (S_other _ _ _ HP (not_eq_sym Hne)) in Hc. lia. }
      assert (HG : forall r, cnt (G r) ds1 = cnt (G r) ds).
      { intros r. destruct (take_first_cnt _ _ _ _ (G r) HT) as (d & _ & HP & Hc).
        rewrite G_mark_used in Hc. change (S r0 d = true) in HP.
        rewrite (S_not_G _ r _ HP) in Hc. lia. }
      repeat split.
      * intros r. specialize (E1 r). specialize (HS r). cbn [count_occ].
        destruct (Z.eq_dec r0 r); lia.
      * intros r. specialize (M1 r). specialize (HS r). lia.
      * intros r. now rewrite G1, HG.
      * exact Z1.
      * rewrite K1. eapply take_first_keys; [|exact HT]. reflexivity.
    + destruct (associate_required_roles ds rest) as [ds2 m] eqn:HR.
      injection H as <- <-.
      destruct (IH _ _ _ HR) as (E1 & M1 & G1 & Z1 & K1).
      repeat split; auto.
      * intros r. specialize (E1 r). cbn [count_occ]. destruct (Z.eq_dec r0 r); lia.
      * intros r [<-|Hr]; [|now apply Z1].
        assert (H0 : cnt (S r0) ds = 0%nat).
        { apply cnt_zero. exact (proj1 (take_first_none _ _ _) HT). }
        specialize (M1 r0). lia.
Qed.

(** Pass B (associateAuthorizationsForRoles). *)
Lemma pass_b_counts : forall missing ds ds' flag,
  associate_authz_for_roles e signers ds missing = (ds', flag) ->
  (flag = false <-> forall r, (count_occ Z.eq_dec missing r <= cnt (G r) ds)%nat).
Proof.
  induction missing as [|r0 rest IH]; intros ds ds' flag H; cbn in H.
  - injection H as <- <-. split; auto. intros _ r. cbn. lia.
  - destruct (take_first _ _ ds) as [ds1|] eqn:HT.
    + rewrite (IH _ _ _ H).
      assert (HG : forall r, (cnt (G r) ds1 + (if Z.eq_dec r0 r then 1 else 0) = cnt (G r) ds)%nat).
      { intros r. destruct (take_first_cnt _ _ _ _ (G r) HT) as (d & _ & HP & Hc).
        change (G r0 d = true) in HP.
        assert (Hg : has_grantee e signers d = true)
          by (unfold G in HP; apply andb_prop in HP as [_ HP]; exact HP).
        assert (Hu : G r (take_grantee e signers d) = false)
          by (unfold G; now rewrite take_grantee_used).
        rewrite Hu in Hc.
        destruct (Z.eq_dec r0 r) as [<-|Hne].
        - rewrite HP in Hc. lia.
        - rewrite (G_other _ _ _ HP (not_eq_sym Hne)) in Hc. lia. }
      split; intros Hall r; specialize (Hall r); specialize (HG r); cbn [count_occ] in *;
        destruct (Z.eq_dec r0 r); lia.
    + destruct (associate_authz_for_roles e signers ds rest) as [ds2 f2] eqn:HR.
      injection H as <- <-.
      split; [discriminate|]. intros Hall. exfalso.
      assert (H0 : cnt (G r0) ds = 0%nat).
      { apply cnt_zero. exact (proj1 (take_first_none _ _ _) HT). }
      specialize (Hall r0). cbn [count_occ] in Hall. destruct (Z.eq_dec r0 r0); [lia|congruence].
Qed.

(** The two passes together succeed exactly when every role has enough eligible parties. *)
Definition E (r : Z) (d : details) : bool := S r d || G r d.

Lemma cnt_E : forall r ds, cnt (E r) ds = (cnt (S r) ds + cnt (G r) ds)%nat.
Proof.
  intros r ds; induction ds as [|d t IH]; [reflexivity|].
  rewrite !cnt_cons, IH. unfold E.
  destruct (S r d) eqn:HS.
  - rewrite (S_not_G _ r _ HS). cbn. lia.
  - cbn. destruct (G r d); lia.
Qed.

Lemma greedy_counts : forall roles ds ds3 missing ds4 flag,
  associate_required_roles ds roles = (ds3, missing) ->
  associate_authz_for_roles e signers ds3 missing = (ds4, flag) ->
  (flag = false <-> forall r, (count_occ Z.eq_dec roles r <= cnt (E r) ds)%nat).
Proof.
  intros roles ds ds3 missing ds4 flag HA HB.
  destruct (pass_a_counts _ _ _ _ HA) as (E1 & M1 & G1 & Z1 & _).
  rewrite (pass_b_counts _ _ _ _ HB).
  split; intros Hall r; specialize (Hall r); specialize (E1 r); specialize (M1 r);
    rewrite ?cnt_E in *; rewrite G1 in *.
  - lia.
  - destruct (count_occ Z.eq_dec missing r) eqn:Hc; [lia|].
    assert (Hin : In r missing) by (apply (count_occ_In Z.eq_dec); lia).
    specialize (Z1 r Hin). lia.
Qed.
End Greedy.

(** ** Counts per role <-> an injective assignment (each element serves one role only). *)
Section Hall.
Context {A : Type}.
Variable el : Z -> A -> bool.
Hypothesis el_excl : forall r r' a, el r a = true -> el r' a = true -> r = r'.

Lemma assignment_of_counts : forall roles pool,
  NoDup pool ->
  (forall r, (count_occ Z.eq_dec roles r <= cnt (el r) pool)%nat) ->
  exists ps, NoDup ps /\ Forall2 (fun a r => In a pool /\ el r a = true) ps roles.
Proof.
  induction roles as [|r0 rest IH]; intros pool Hnd Hc.
  - exists []. split; constructor.
  - assert (Hpos : (0 < cnt (el r0) pool)%nat).
    { specialize (Hc r0). cbn [count_occ] in Hc. destruct (Z.eq_dec r0 r0); [lia|congruence]. }
    destruct (cnt_pos_ex _ _ _ Hpos) as (l1 & a & l2 & -> & Ha).
    apply NoDup_remove in Hnd as [Hnd Hnin].
    destruct (IH (l1 ++ l2) Hnd) as (ps & Hps & HF).
    { intros r. specialize (Hc r). rewrite cnt_app, cnt_cons in Hc. rewrite cnt_app.
      cbn [count_occ] in Hc. destruct (Z.eq_dec r0 r) as [<-|Hne].
      - rewrite Ha in Hc. lia.
      - destruct (el r a) eqn:Hra; [|lia]. exfalso. apply Hne. eapply el_excl; eauto. }
    exists (a :: ps). split.
    + constructor; auto. intros Hin. apply Hnin.
      clear - HF Hin. induction HF as [|x r xs rs [Hx _] _ IHF]; [destruct Hin|].
      destruct Hin as [<-|Hin]; auto.
    + constructor.
      * split; auto. apply in_or_app; right; now left.
      * eapply Forall2_imp; [|exact HF]. intros x r [Hx Hr]. split; auto.
        apply in_app_or in Hx as [Hx|Hx]; apply in_or_app; [now left|right; now right].
Qed.

Lemma counts_of_assignment : forall roles ps pool,
  NoDup ps -> Forall2 (fun a r => In a pool /\ el r a = true) ps roles ->
  forall r, (count_occ Z.eq_dec roles r <= cnt (el r) pool)%nat.
Proof.
  induction roles as [|r0 rest IH]; intros ps pool Hnd HF r; [cbn; lia|].
  inversion HF as [|a r0' ps' rest' [Hin Ha] HF']; subst.
  inversion Hnd as [|? ? Hnin Hnd']; subst.
  apply in_split in Hin as (l1 & l2 & ->).
  assert (HF2 : Forall2 (fun a r => In a (l1 ++ l2) /\ el r a = true) ps' rest).
  { clear - HF' Hnin. induction HF' as [|x rr xs rs [Hx Hr] _ IHF]; constructor.
    - split; auto. apply in_app_or in Hx as [Hx|[<-|Hx]].
      + apply in_or_app; now left.
      + exfalso; apply Hnin; now left.
      + apply in_or_app; now right.
    - apply IHF. intros Hc; apply Hnin; now right. }
  specialize (IH ps' (l1 ++ l2) Hnd' HF2 r).
  rewrite cnt_app in IH. rewrite cnt_app, cnt_cons. cbn [count_occ].
  destruct (Z.eq_dec r0 r) as [<-|Hne]; [rewrite Ha|]; lia.
Qed.
End Hall.

(** ** The brute-force search finds exactly the injective assignments. *)
Lemma picks_spec : forall A (l : list A) x r,
  In (x, r) (picks l) <-> exists l1 l2, l = l1 ++ x :: l2 /\ r = l1 ++ l2.
Proof.
  intros A l; induction l as [|y t IH]; intros x r; cbn.
  - split; [intros []|]. intros (l1 & l2 & H & _). destruct l1; discriminate.
  - split.
    + intros [H|H].
      * injection H as <- <-. exists [], t. split; reflexivity.
      * apply in_map_iff in H as ([x' r'] & Heq & Hin). cbn in Heq. injection Heq as <- <-.
        apply IH in Hin as (l1 & l2 & -> & ->). exists (y :: l1), l2. split; reflexivity.
    + intros (l1 & l2 & H & ->). destruct l1 as [|z l1]; cbn in H.
      * injection H as <- <-. now left.
      * injection H as <- ->. right. apply in_map_iff. exists (x, l1 ++ l2). split; [reflexivity|].
        apply IH. exists l1, l2. split; reflexivity.
Qed.

Lemma assign_b_spec : forall A (ok : Z -> A -> bool) roles pool,
  NoDup pool ->
  (assign_b ok roles pool = true <->
   exists ps, NoDup ps /\ Forall2 (fun a r => In a pool /\ ok r a = true) ps roles).
Proof.
  intros A ok roles; induction roles as [|r0 rest IH]; intros pool Hnd; cbn.
  - split; [|reflexivity]. intros _. exists []. split; constructor.
  - rewrite existsb_exists. split.
    + intros ([x pool'] & Hin & H). cbn in H. apply andb_prop in H as [Hx Hrest].
      apply picks_spec in Hin as (l1 & l2 & -> & ->).
      apply NoDup_remove in Hnd as [Hnd Hnin].
      apply (IH _ Hnd) in Hrest as (ps & Hps & HF).
      exists (x :: ps). split.
      * constructor; auto. intros Hc. apply Hnin.
        clear - HF Hc. induction HF as [|y r ys rs [Hy _] _ IHF]; [destruct Hc|].
        destruct Hc as [<-|Hc]; auto.
      * constructor; [split; auto; apply in_or_app; right; now left|].
        eapply Forall2_imp; [|exact HF]. intros y r [Hy Hr]; split; auto.
        apply in_app_or in Hy as [Hy|Hy]; apply in_or_app; [now left|right; now right].
    + intros (ps & Hps & HF).
      inversion HF as [|a r0' ps' rest' [Hin Ha] HF']; subst.
      inversion Hps as [|? ? Hnin Hps']; subst.
      apply in_split in Hin as (l1 & l2 & ->).
      exists (a, l1 ++ l2). split; [apply picks_spec; exists l1, l2; split; reflexivity|].
      cbn. rewrite Ha. cbn. apply NoDup_remove in Hnd as [Hnd _]. apply (IH _ Hnd).
      exists ps'. split; auto.
      clear - HF' Hnin. induction HF' as [|x rr xs rs [Hx Hr] _ IHF]; constructor.
      * split; auto. apply in_app_or in Hx as [Hx|[<-|Hx]].
        -- apply in_or_app; now left.
        -- exfalso; apply Hnin; now left.
        -- apply in_or_app; now right.
      * apply IHF. intros Hc; apply Hnin; now right.
Qed.

(** ** The smart-contract signer loop is the documented position rule. *)
Lemma sc_loop_rule_b : forall e used signers b,
  sc_loop e used b signers = contract_rule_b e (fun s => mem s used) b signers.
Proof.
  intros e used signers; induction signers as [|s rest IH]; intros b; [reflexivity|].
  cbn [sc_loop contract_rule_b].
  destruct (is_wasm e s) eqn:Hw; cbn [andb negb].
  - destruct b; cbn [negb andb]; [|reflexivity].
    destruct (mem s used); cbn [orb andb]; [apply IH|].
    destruct rest as [|g rest']; [reflexivity|].
    cbn [andb]. destruct (forallb (fun granter => granted e granter s) (g :: rest')); cbn [andb];
      [apply IH|reflexivity].
  - apply IH.
Qed.

Lemma contract_rule_b_spec : forall e (u : Z -> bool) signers b,
  contract_rule_b e u b signers = true <->
  (forall l1 s l2, signers = l1 ++ s :: l2 -> is_wasm e s = true ->
     b = true /\ (forall x, In x l1 -> is_wasm e x = true) /\
     (u s = true \/ (l2 <> [] /\ forall g, In g l2 -> granted e g s = true))).
Proof.
  intros e u signers; induction signers as [|s rest IH]; intros b.
  - cbn. split; [|reflexivity]. intros _ l1 s l2 H. destruct l1; discriminate.
  - cbn [contract_rule_b]. destruct (is_wasm e s) eqn:Hw.
    + rewrite !andb_true_iff, IH, orb_true_iff, andb_true_iff, forallb_forall. split.
      * intros [[Hb Hs] Hrest] l1 s' l2 Heq Hw'. destruct l1 as [|x l1]; cbn in Heq.
        -- injection Heq as <- <-. split; [exact Hb|]. split; [intros x []|].
           destruct Hs as [Hs|[Hne Hall]]; [now left|right].
           split; [destruct rest; [discriminate|discriminate]|exact Hall].
        -- injection Heq as <- ->. destruct (Hrest _ _ _ eq_refl Hw') as (Hb' & Hl1 & Hs').
           split; [exact Hb'|]. split; [|exact Hs'].
           intros y [<-|Hy]; auto.
      * intros H. split; [split|].
        -- exact (proj1 (H [] s rest eq_refl Hw)).
        -- destruct (H [] s rest eq_refl Hw) as (_ & _ & [Hs|[Hne Hall]]); [now left|right].
           split; [destruct rest; [congruence|reflexivity]|exact Hall].
        -- intros l1 s' l2 Heq Hw'. destruct (H (s :: l1) s' l2) as (Hb & Hl1 & Hs'); auto.
           { cbn. now rewrite Heq. }
           split; [exact Hb|]. split; [|exact Hs']. intros y Hy. apply Hl1. now right.
    + rewrite IH. split.
      * intros H l1 s' l2 Heq Hw'. destruct l1 as [|x l1]; cbn in Heq.
        -- injection Heq as <- <-. congruence.
        -- injection Heq as <- ->. destruct (H _ _ _ eq_refl Hw') as (Hb & _ & _). discriminate.
      * intros H l1 s' l2 Heq Hw'. destruct (H (s :: l1) s' l2) as (Hb & Hl1 & _); auto.
        { cbn. now rewrite Heq. }
        specialize (Hl1 s (or_introl eq_refl)). congruence.
Qed.

Lemma mem_In : forall a l, mem a l = true <-> In a l.
Proof.
  intros a l; unfold mem. rewrite existsb_exists. split.
  - intros (x & Hx & He). apply Z.eqb_eq in He. now subst.
  - intros H. exists a. split; auto. apply Z.eqb_refl.
Qed.

(** The loop, in the [Prop] form of Metadata/SignersSpec.v. *)
Lemma sc_loop_spec : forall e used signers,
  validate_smart_contract_signers e used signers = true <->
  contract_rule e (fun s => In s used) signers.
Proof.
  intros e used signers. unfold validate_smart_contract_signers, contract_rule.
  rewrite sc_loop_rule_b, contract_rule_b_spec. split.
  - intros H l1 s l2 Heq Hw. destruct (H _ _ _ Heq Hw) as (_ & Hl1 & Hs).
    split; auto. destruct Hs as [Hs|Hs]; [left; now apply mem_In|now right].
  - intros H l1 s l2 Heq Hw. destruct (H _ _ _ Heq Hw) as (Hl1 & Hs).
    split; auto. split; auto. destruct Hs as [Hs|Hs]; [left; now apply mem_In|now right].
Qed.

Lemma contract_rule_mono : forall e (U U' : Z -> Prop) signers,
  (forall s, In s signers -> U s -> U' s) -> contract_rule e U signers -> contract_rule e U' signers.
Proof.
  intros e U U' signers Himp H l1 s l2 Heq Hw. destruct (H _ _ _ Heq Hw) as (Hl1 & Hs).
  split; auto. destruct Hs as [Hs|Hs]; [left|now right].
  apply Himp; auto. rewrite Heq. apply in_or_app; right; now left.
Qed.

Lemma contract_rule_no_wasm : forall e U signers,
  (forall s, In s signers -> is_wasm e s = false) -> contract_rule e U signers.
Proof.
  intros e U signers H l1 s l2 Heq Hw. rewrite H in Hw; [discriminate|].
  rewrite Heq. apply in_or_app; right; now left.
Qed.
