(** Lemmas about Metadata/Signers.v, part 5: the endpoint table in both directions.
    - [outer_doc_sound]: every message the model accepts passes the WHOLE executable documented
      table [doc_sound] (the checker Corr/C10.v evaluates on the implementation's answers);
    - [outer_complete_direct]: per endpoint, rollup on and off — when every party the documented
      table names signs directly, the required roles are present among the directly signing
      parties and smart-contract signers respect the position rule, the message is accepted;
    - [doc_direct_sound]: the boolean [doc_direct] of the checker implies acceptance. *)
From Coq Require Import ZArith List Bool Lia.
From PV Require Import Metadata.Signers Metadata.SignersSpec Proofs.SignersProofs
  Proofs.SignersProofs2 Proofs.SignersProofs3 Proofs.SignersProofs4.
Import ListNotations.
Open Scope Z_scope.

(** ** Pieces, model -> boolean table *)
Lemma vrp_b : forall ps roles, validate_roles_present ps roles = true -> roles_present_b ps roles = true.
Proof. intros ps roles H. apply roles_present_b_spec. now apply validate_roles_present_spec. Qed.

Lemma prov_b : forall e ps, prov_role_ok e ps = true -> provenance_rule_b e ps = true.
Proof. intros e ps H. apply provenance_rule_b_spec. now apply prov_role_ok_spec. Qed.

Lemma contract_b : forall e req avail signers,
  contract_rule e (stands_for_party e req avail) signers ->
  contract_rule_b e (stands_for_party_b e req avail) true signers = true.
Proof.
  intros e req avail signers H.
  apply (contract_rule_b_reflect e _ (stands_for_party e req avail)); auto.
  intros s. apply stands_for_party_b_spec.
Qed.

Lemma contract_b_false : forall e signers,
  contract_rule e (fun _ => False) signers ->
  contract_rule_b e (fun _ => false) true signers = true.
Proof.
  intros e signers H. apply (contract_rule_b_reflect e _ (fun _ => False)); auto.
  intros s. split; [discriminate|intros []].
Qed.

Lemma without_cover_b : forall e ps signers,
  validate_signers_without_parties e (party_addrs ps) signers = true ->
  forallb (covered_b e signers) (all_addrs ps) = true.
Proof.
  intros e ps signers H. apply all_covered_b_spec. intros a Ha.
  eapply without_sound_addrs; [exact H|]. now apply all_addrs_party_addrs.
Qed.

Lemma without_cover_nonopt_b : forall e ps signers,
  validate_signers_without_parties e (required_party_addrs ps) signers = true ->
  required_covered_b e signers ps = true.
Proof.
  intros e ps signers H. apply required_covered_b_spec. intros p Hp Ho.
  eapply without_sound_addrs; [exact H|]. apply required_party_addrs_In, nonopt_addrs_In. eauto.
Qed.

Lemma stc_b : forall e req avail roles signers,
  signed_then_contracts e req avail roles signers = true ->
  required_covered_b e signers req = true /\ roles_signed_b e signers avail roles = true.
Proof.
  intros e req avail roles signers H. destruct (signed_then_contracts_sound _ _ _ _ _ H) as (H1 & H2 & _).
  split; [now apply required_covered_b_spec|now apply roles_signed_b_spec].
Qed.

Lemma wp_b : forall e req avail roles signers,
  validate_signers_with_parties e req avail roles signers = true ->
  required_covered_b e signers req = true /\ roles_signed_b e signers avail roles = true /\
  provenance_rule_b e avail = true.
Proof.
  intros e req avail roles signers H. destruct (with_parties_sound _ _ _ _ _ H) as (H1 & H2 & H3 & _).
  split; [now apply required_covered_b_spec|]. split; [now apply roles_signed_b_spec|].
  now apply provenance_rule_b_spec.
Qed.

Lemma required_covered_b_app : forall e signers l1 l2,
  required_covered_b e signers (l1 ++ l2) =
  required_covered_b e signers l1 && required_covered_b e signers l2.
Proof. intros. unfold required_covered_b. apply forallb_app. Qed.

Ltac conj := repeat match goal with |- andb _ _ = true => apply andb_true_intro; split end.

(** MsgWriteScope with the value-owner fields passes its row of the executable table *)
Lemma write_scope_full_doc_sound : forall e ex pr roles signers,
  outer_accept e (OWriteScopeFull ex pr roles) signers = true ->
  doc_sound e (OWriteScopeFull ex pr roles) signers = true.
Proof.
  intros e ex pr roles signers H.
  pose proof (write_scope_full_contract_rule _ _ _ _ _ H) as HC. unfold doc_used in HC.
  destruct (write_scope_full_sound _ _ _ _ _ H) as [Hreq Hpool].
  rewrite write_scope_full_accept in H.
  destruct (wsf_inv _ _ _ _ _ H) as (u1 & u2 & HV & _ & Hor).
  cbn [doc_parties doc_required_addrs doc_role_pool] in *.
  unfold doc_sound. cbn [doc_sound_gen].
  assert (Hvr : forallb (covered_b e signers) (vo_required ex pr) = true).
  { apply all_covered_b_spec. intros a Ha. apply Hreq. apply in_or_app. now left. }
  rewrite Hvr. cbn [andb].
  destruct Hor as [[Hov _]|(Hov & Hr & Hp & Hor)]; rewrite Hov in *.
  - now apply contract_b.
  - rewrite (vrp_b _ _ Hr), (prov_b _ _ Hp). cbn [andb].
    destruct Hor as [(Hru & ds & HVP & _)|[(Hru & Hn & _)|(Hru & Hn & ds & HVS & _)]]; rewrite Hru in *.
    + destruct (parties_signed_sound _ _ _ _ _ _ HVP) as [H1 H2].
      conj; [now apply required_covered_b_spec|now apply roles_signed_b_spec|now apply contract_b].
    + rewrite Hn in *. now apply contract_b.
    + rewrite Hn in *. conj; [|now apply contract_b].
      apply all_covered_b_spec. intros a Ha. apply Hreq. apply in_or_app. now right.
Qed.

(** ** Every accepted message passes the whole executable table *)
Theorem outer_doc_sound : forall e op signers,
  outer_accept e op signers = true -> doc_sound e op signers = true.
Proof.
  intros e op signers H.
  destruct (enforces_contract_rule op) eqn:Henf.
  2:{ destruct op; try discriminate. cbn [doc_sound doc_sound_gen].
      destruct (update_value_owners_sound _ _ _ _ H) as [_ Hall].
      apply forallb_forall. intros o Ho. destruct (Hall o Ho) as (a & -> & _ & Hc).
      apply covered_b_spec. eapply covered_incl; [|exact Hc]. apply vo_signers_incl. }
  pose proof (outer_contract_rule _ _ _ H Henf) as HC. unfold doc_used in HC.
  unfold doc_sound. destruct op as
    [proposed rollup roles
    |ex_rollup existing prop_rollup proposed other roles
    |rollup owners roles
    |rollup existing proposed roles
    |rollup owners existing proposed roles
    |rollup owners session old roles
    |rollup owners roles
    |rollup owners roles
    |vos proposed
    |ex pr roles]; try (now apply write_scope_full_doc_sound);
    cbn [outer_accept doc_parties doc_sound_gen] in *.
  - apply andb_prop in H as [H _]. apply andb_prop in H as [H Hp]. apply andb_prop in H as [_ Hr].
    conj; [now apply vrp_b|now apply prov_b|now apply contract_b_false].
  - apply andb_prop in H as [H HX]. apply andb_prop in H as [H Hp]. apply andb_prop in H as [_ Hr].
    conj; [now apply vrp_b|now apply prov_b|].
    destruct ex_rollup; cbn [negb] in HX.
    + change (signed_then_contracts e existing existing roles signers = true) in HX.
      destruct (stc_b _ _ _ _ _ HX) as [H1 H2]. conj; auto. now apply contract_b.
    + destruct (equal_parties existing proposed && eqb false prop_rollup && negb other).
      * now apply contract_b_false.
      * change (validate_signers_without_parties e (party_addrs existing) signers = true) in HX.
        conj; [now apply without_cover_b|now apply contract_b].
  - destruct rollup; cbn [negb] in H.
    + destruct roles as [rs|].
      * change (signed_then_contracts e owners owners rs signers = true) in H.
        destruct (stc_b _ _ _ _ _ H) as [H1 H2]. conj; auto. now apply contract_b.
      * conj; [now apply without_cover_nonopt_b|reflexivity|now apply contract_b].
    + conj; [now apply without_cover_b|now apply contract_b].
  - apply andb_prop in H as [H HX]. apply andb_prop in H as [H Hp]. apply andb_prop in H as [_ Hr].
    conj; [now apply vrp_b|now apply prov_b|].
    destruct rollup; cbn [negb] in HX.
    + change (signed_then_contracts e existing existing roles signers = true) in HX.
      destruct (stc_b _ _ _ _ _ HX) as [H1 H2]. conj; auto. now apply contract_b.
    + conj; [now apply without_cover_b|now apply contract_b].
  - apply andb_prop in H as [_ H]. destruct rollup; cbn [negb] in H.
    + apply andb_prop in H as [Hpp H].
      assert (Hpa : forallb (fun p => existsb (fun o => key_eqb (pkey p) (pkey o)) owners) proposed = true)
        by exact Hpp.
      destruct existing as [ex|].
      * apply andb_prop in H as [H HW]. apply andb_prop in H as [Hr Hp].
        destruct (wp_b _ _ _ _ _ HW) as (H1 & H2 & H3).
        rewrite required_covered_b_app in H1. apply andb_prop in H1 as [H1a H1b].
        conj; auto; [now apply vrp_b|now apply prov_b|now apply contract_b].
      * destruct (wp_b _ _ _ _ _ H) as (H1 & H2 & H3).
        conj; auto. now apply contract_b.
    + apply andb_prop in H as [H HW]. apply andb_prop in H as [Hr Hp].
      conj; [now apply vrp_b|now apply prov_b|now apply without_cover_b|now apply contract_b].
  - destruct rollup; cbn [negb] in H.
    + destruct (wp_b _ _ _ _ _ H) as (H1 & H2 & H3).
      rewrite !required_covered_b_app in H1. apply andb_prop in H1 as [H1a H1].
      apply andb_prop in H1 as [H1b H1c].
      conj; auto. now apply contract_b.
    + apply andb_prop in H as [Hr HW].
      assert (Hcov : forall a, In a (all_addrs session ++ all_addrs (opt_parties old)) ->
                               covered e signers a).
      { intros a Ha. eapply without_sound_addrs; [exact HW|].
        apply in_app_or in Ha as [Ha|Ha]; apply in_or_app.
        - left. now apply all_addrs_party_addrs.
        - right. destruct old as [o|]; [now apply all_addrs_party_addrs|destruct Ha]. }
      conj; [now apply vrp_b| | |now apply contract_b].
      * apply all_covered_b_spec. intros a Ha. apply Hcov. apply in_or_app. now left.
      * apply all_covered_b_spec. intros a Ha. apply Hcov. apply in_or_app. now right.
  - destruct rollup; cbn [negb] in H.
    + destruct roles as [rs|].
      * destruct (wp_b _ _ _ _ _ H) as (H1 & H2 & H3). conj; auto. now apply contract_b.
      * conj; [now apply without_cover_nonopt_b|reflexivity|now apply contract_b].
    + conj; [now apply without_cover_b|now apply contract_b].
  - destruct rollup; cbn [negb] in H.
    + destruct roles as [rs|]; [|discriminate].
      destruct (wp_b _ _ _ _ _ H) as (H1 & H2 & H3). conj; auto. now apply contract_b.
    + conj; [now apply without_cover_b|now apply contract_b].
  - discriminate.
Qed.

(** ** Pieces, documented hypotheses -> model *)
Lemma stc_direct : forall e req avail roles signers,
  nonopt_sign signers req -> roles_direct signers avail roles ->
  contract_rule e (is_party_signer req avail) signers ->
  signed_then_contracts e req avail roles signers = true.
Proof.
  intros e req avail roles signers H1 H2 H4. apply signed_then_contracts_complete; auto.
  - intros p Hp Ho. left. auto.
  - eapply role_assignment_mono; [|exact H2]. intros a Ha. now left.
Qed.

Lemma without_direct_gen : forall e required l signers,
  (forall a, In a required <-> In a l) -> all_sign signers l ->
  contract_rule e (is_party_signer (addr_parties l) []) signers ->
  validate_signers_without_parties e required signers = true.
Proof.
  intros e required l signers Heq Hs Hc. apply without_parties_complete_direct.
  - intros a Ha. apply Hs. now apply Heq.
  - eapply contract_rule_mono; [|exact Hc]. intros s _ Hp. apply Heq. now apply is_party_addr_parties.
Qed.

Lemma without_direct_all : forall e ps signers,
  all_sign signers (all_addrs ps) ->
  contract_rule e (is_party_signer (addr_parties (all_addrs ps)) []) signers ->
  validate_signers_without_parties e (party_addrs ps) signers = true.
Proof.
  intros e ps signers. apply without_direct_gen. intros a. apply party_addrs_In.
Qed.

Lemma without_direct_nonopt : forall e owners signers,
  nonopt_sign signers owners ->
  contract_rule e (is_party_signer owners []) signers ->
  validate_signers_without_parties e (required_party_addrs owners) signers = true.
Proof.
  intros e owners signers Hs Hc. apply without_parties_complete_direct.
  - intros a Ha. apply required_party_addrs_In, nonopt_addrs_In in Ha as (p & Hp & Ho & <-). auto.
  - eapply contract_rule_mono; [|exact Hc]. intros s _ (p & Hp & <-).
    apply considered_nil_avail in Hp as [Hp Ho]. apply required_party_addrs_In, nonopt_addrs_In. eauto.
Qed.

Lemma nonopt_sign_app : forall signers l1 l2,
  nonopt_sign signers l1 -> nonopt_sign signers l2 -> nonopt_sign signers (l1 ++ l2).
Proof. intros signers l1 l2 H1 H2 p Hp Ho. apply in_app_or in Hp as [Hp|Hp]; auto. Qed.

(** ** Endpoint completeness: everyone the table names signs directly *)
Theorem outer_complete_direct : forall e op signers,
  doc_wellformed op = true -> direct_with_contracts op = true ->
  doc_direct_P e op signers ->
  contract_rule e (doc_used is_party_signer op) signers ->
  outer_accept e op signers = true.
Proof.
  intros e op signers Hwf Henf HD HC. unfold doc_used in HC. destruct op as
    [proposed rollup roles
    |ex_rollup existing prop_rollup proposed other roles
    |rollup owners roles
    |rollup existing proposed roles
    |rollup owners existing proposed roles
    |rollup owners session old roles
    |rollup owners roles
    |rollup owners roles
    |vos proposed
    |ex pr roles]; try discriminate;
    cbn [outer_accept doc_parties doc_direct_P doc_wellformed] in *.
  - destruct HD as [Hr Hp]. apply andb_prop in Hwf as [Hwf1 Hwf2].
    conj; [exact Hwf1|exact Hwf2|now apply validate_roles_present_spec
      |now apply prov_role_ok_spec|now apply contract_rule_false_b].
  - destruct HD as (Hr & Hp & HX). apply andb_prop in Hwf as [Hwf1 Hwf2].
    conj; [exact Hwf1|exact Hwf2|now apply validate_roles_present_spec|now apply prov_role_ok_spec|].
    destruct ex_rollup; cbn [negb].
    + destruct HX as [H1 H2]. change (signed_then_contracts e existing existing roles signers = true).
      now apply stc_direct.
    + destruct (equal_parties existing proposed && eqb false prop_rollup && negb other).
      * now apply contract_rule_false_b.
      * change (validate_signers_without_parties e (party_addrs existing) signers = true).
        now apply without_direct_all.
  - destruct rollup; cbn [negb].
    + destruct HD as [H1 H2]. destruct roles as [rs|].
      * change (signed_then_contracts e owners owners rs signers = true). now apply stc_direct.
      * now apply without_direct_nonopt.
    + now apply without_direct_all.
  - destruct HD as (Hr & Hp & HX). apply andb_prop in Hwf as [Hwf1 Hwf2].
    conj; [exact Hwf1|exact Hwf2|now apply validate_roles_present_spec|now apply prov_role_ok_spec|].
    destruct rollup; cbn [negb].
    + destruct HX as [H1 H2]. change (signed_then_contracts e existing existing roles signers = true).
      now apply stc_direct.
    + now apply without_direct_all.
  - apply andb_prop in Hwf as [Hwf1 Hwf2]. conj; [exact Hwf1|exact Hwf2|]. destruct rollup; cbn [negb].
    + destruct HD as (Hpa & Hso & HX). conj; [now apply parties_are_present_spec|].
      destruct existing as [ex|].
      * destruct HX as (Hrd & Hrp & Hse & Hpp & Hpe).
        conj; [now apply validate_roles_present_spec|now apply prov_role_ok_spec|].
        apply with_parties_complete_direct; auto. now apply nonopt_sign_app.
      * destruct HX as (Hrd & Hpp). now apply with_parties_complete_direct.
    + destruct HD as (Hr & Hp & Hs).
      conj; [now apply validate_roles_present_spec|now apply prov_role_ok_spec
            |now apply without_direct_all].
  - destruct rollup; cbn [negb].
    + destruct HD as (Hrd & Ho & Hs & Hold & Hp).
      apply with_parties_complete_direct; auto. repeat apply nonopt_sign_app; auto.
    + destruct HD as (Hr & Hs & Hold). conj; [now apply validate_roles_present_spec|].
      eapply without_direct_gen; [| |exact HC].
      * intros a. rewrite !in_app_iff, party_addrs_In.
        destruct old as [o|]; cbn [opt_parties]; [rewrite party_addrs_In; reflexivity|].
        unfold all_addrs; cbn. tauto.
      * intros a Ha. apply in_app_or in Ha as [Ha|Ha]; auto.
  - destruct rollup; cbn [negb].
    + destruct HD as [H1 H2]. destruct roles as [rs|].
      * destruct H2 as [H2 H3]. now apply with_parties_complete_direct.
      * now apply without_direct_nonopt.
    + now apply without_direct_all.
  - destruct rollup; cbn [negb].
    + destruct HD as [H1 H2]. destruct roles as [rs|]; [|destruct H2].
      destruct H2 as [H2 H3]. now apply with_parties_complete_direct.
    + now apply without_direct_all.
Qed.

(** ** MsgUpdateValueOwners, direct *)
Lemma vo_loop_direct : forall e proposed sg existing,
  (forall x, In x existing -> x <> proposed -> In x sg) ->
  exists u, vo_loop e proposed sg existing = Some u.
Proof.
  intros e proposed sg; induction existing as [|x rest IH]; intros H; cbn [vo_loop].
  - eauto.
  - destruct IH as (u & Hu); [intros y Hy; apply H; now right|].
    destruct (Z.eqb_spec x proposed) as [->|Hne]; [eauto|].
    assert (Hm : mem x sg = true) by (apply mem_In; apply H; [now left|exact Hne]).
    rewrite Hm, Hu. cbn. eauto.
Qed.

Lemma value_owners_signers_direct : forall e existing proposed signers,
  (forall x, In x existing -> x <> proposed -> In x (vo_signers e signers)) ->
  exists u, validate_value_owners_signers e existing proposed signers = Some u.
Proof.
  intros e existing proposed signers H. unfold validate_value_owners_signers.
  destruct existing as [|x [|y t]]; try (apply vo_loop_direct; exact H).
  destruct (Z.eqb x proposed); [eauto|apply vo_loop_direct; exact H].
Qed.

Lemma vo_signers_no_wasm : forall e signers,
  (forall s, In s signers -> is_wasm e s = false) -> vo_signers e signers = signers.
Proof.
  intros e [|s0 t] H; cbn; [reflexivity|]. now rewrite (H s0 (or_introl eq_refl)).
Qed.

Lemma update_value_owners_direct : forall e vos proposed signers,
  (forall s, In s signers -> is_wasm e s = false) ->
  doc_direct_P e (OUpdateValueOwners vos proposed) signers ->
  outer_accept e (OUpdateValueOwners vos proposed) signers = true.
Proof.
  intros e vos proposed signers Hnw [Hne Hall]. cbn [outer_accept]. conj.
  - destruct vos; [congruence|reflexivity].
  - apply forallb_forall. intros o Ho. destruct (Hall o Ho) as (a & -> & _). reflexivity.
  - apply negb_true_iff. destruct (mem proposed (some_addrs vos)) eqn:Hm; [|reflexivity].
    apply mem_In, some_addrs_In in Hm. destruct (Hall _ Hm) as (a & Heq & Hn & _). congruence.
  - destruct (value_owners_signers_direct e (dedup_addrs [] (some_addrs vos)) proposed signers)
      as (u & ->); [|reflexivity].
    intros x Hx _. rewrite (vo_signers_no_wasm _ _ Hnw).
    apply dedup_addrs_In in Hx as [Hx _]. apply some_addrs_In in Hx.
    destruct (Hall _ Hx) as (a & Heq & _ & Hin). now injection Heq as <-.
Qed.

(** MsgWriteScope with the value-owner fields, direct, no smart contract among the signers *)
Lemma sc_no_wasm : forall e u signers,
  (forall s, In s signers -> is_wasm e s = false) ->
  validate_smart_contract_signers e u signers = true.
Proof. intros e u signers H. apply sc_loop_spec. now apply contract_rule_no_wasm. Qed.

Lemma write_scope_full_direct : forall e ex pr roles signers,
  doc_wellformed (OWriteScopeFull ex pr roles) = true ->
  (forall s, In s signers -> is_wasm e s = false) ->
  doc_direct_P e (OWriteScopeFull ex pr roles) signers ->
  outer_accept e (OWriteScopeFull ex pr roles) signers = true.
Proof.
  intros e ex pr roles signers Hwf Hnw [Hvo HD]. rewrite write_scope_full_accept. unfold wsf.
  cbn [doc_wellformed] in Hwf. rewrite Hwf. cbn [andb].
  destruct (vo_check_direct e ex pr signers) as (u2 & HV).
  { intros a Ha. rewrite (vo_signers_no_wasm _ _ Hnw). now apply Hvo. }
  rewrite HV.
  destruct (doc_only_vo ex pr); [now apply sc_no_wasm|].
  destruct HD as (Hr & Hp & HX).
  rewrite (proj2 (validate_roles_present_spec _ _) Hr), (proj2 (prov_role_ok_spec _ _) Hp). cbn [andb].
  destruct (sv_rollup ex); cbn [negb].
  - destruct HX as [H1 H2].
    destruct (proj2 (all_required_parties_signed_spec e (sv_owners ex) (sv_owners ex) roles signers))
      as (ds & HVP).
    { split; [intros p Hp' Ho; left; auto|].
      eapply role_assignment_mono; [|exact H2]. intros a Ha. now left. }
    rewrite HVP. cbn [option_map]. now apply sc_no_wasm.
  - destruct (nothing_changes ex pr); cbn [negb]; [now apply sc_no_wasm|].
    destruct (without_exists e (party_addrs (sv_owners ex)) signers) as (ds & HVS).
    { intros a Ha. left. apply HX. now apply party_addrs_incl_all. }
    rewrite HVS. cbn [option_map]. now apply sc_no_wasm.
Qed.

(** All endpoints, no smart contract among the signers. *)
Theorem outer_complete_direct_no_contract : forall e op signers,
  doc_wellformed op = true ->
  (forall s, In s signers -> is_wasm e s = false) ->
  doc_direct_P e op signers ->
  outer_accept e op signers = true.
Proof.
  intros e op signers Hwf Hnw HD. destruct (direct_with_contracts op) eqn:Henf.
  - apply outer_complete_direct; auto. now apply contract_rule_no_wasm.
  - destruct op; try discriminate; [now apply update_value_owners_direct|now apply write_scope_full_direct].
Qed.

(** ** The checker's [doc_direct] is the [Prop] table (plus well-formedness and no contract) *)
Lemma doc_direct_reflect : forall e op signers,
  doc_direct e op signers = true ->
  doc_wellformed op = true /\ (forall s, In s signers -> is_wasm e s = false) /\
  doc_direct_P e op signers.
Proof.
  intros e op signers H. unfold doc_direct in H.
  apply andb_prop in H as [H HX]. apply andb_prop in H as [Hwf Hnw].
  split; [exact Hwf|]. split; [now apply no_wasm_signer_spec|].
  destruct op as
    [proposed rollup roles
    |ex_rollup existing prop_rollup proposed other roles
    |rollup owners roles
    |rollup existing proposed roles
    |rollup owners existing proposed roles
    |rollup owners session old roles
    |rollup owners roles
    |rollup owners roles
    |vos proposed
    |ex pr roles]; cbn [doc_direct_P].
  - apply andb_prop in HX as [H1 H2].
    split; [now apply roles_present_b_spec|now apply provenance_rule_b_spec].
  - apply andb_prop in HX as [H HX]. apply andb_prop in H as [H1 H2].
    split; [now apply roles_present_b_spec|]. split; [now apply provenance_rule_b_spec|].
    destruct ex_rollup.
    + apply andb_prop in HX as [H3 H4].
      split; [now apply required_direct_b_spec|now apply roles_direct_b_spec].
    + now apply all_sign_b_spec.
  - destruct rollup.
    + apply andb_prop in HX as [H3 H4]. split; [now apply required_direct_b_spec|].
      destruct roles; [now apply roles_direct_b_spec|exact I].
    + now apply all_sign_b_spec.
  - apply andb_prop in HX as [H HX]. apply andb_prop in H as [H1 H2].
    split; [now apply roles_present_b_spec|]. split; [now apply provenance_rule_b_spec|].
    destruct rollup.
    + apply andb_prop in HX as [H3 H4].
      split; [now apply required_direct_b_spec|now apply roles_direct_b_spec].
    + now apply all_sign_b_spec.
  - destruct rollup.
    + apply andb_prop in HX as [H HX]. apply andb_prop in H as [H1 H2].
      split; [now apply parties_among_b_spec|]. split; [now apply required_direct_b_spec|].
      destruct existing as [ex|].
      * apply andb_prop in HX as [H H7]. apply andb_prop in H as [H H6].
        apply andb_prop in H as [H H5]. apply andb_prop in H as [H3 H4].
        split; [now apply roles_direct_b_spec|]. split; [now apply roles_present_b_spec|].
        split; [now apply required_direct_b_spec|].
        split; now apply provenance_rule_b_spec.
      * apply andb_prop in HX as [H3 H4].
        split; [now apply roles_direct_b_spec|now apply provenance_rule_b_spec].
    + apply andb_prop in HX as [H H3]. apply andb_prop in H as [H1 H2].
      split; [now apply roles_present_b_spec|]. split; [now apply provenance_rule_b_spec|].
      now apply all_sign_b_spec.
  - destruct rollup.
    + apply andb_prop in HX as [H H5]. apply andb_prop in H as [H H4].
      apply andb_prop in H as [H H3]. apply andb_prop in H as [H1 H2].
      split; [now apply roles_direct_b_spec|]. split; [now apply required_direct_b_spec|].
      split; [now apply required_direct_b_spec|]. split; [now apply required_direct_b_spec|].
      now apply provenance_rule_b_spec.
    + apply andb_prop in HX as [H H3]. apply andb_prop in H as [H1 H2].
      split; [now apply roles_present_b_spec|]. split; now apply all_sign_b_spec.
  - destruct rollup.
    + apply andb_prop in HX as [H3 H4]. split; [now apply required_direct_b_spec|].
      destruct roles; [|exact I]. apply andb_prop in H4 as [H4 H5].
      split; [now apply roles_direct_b_spec|now apply provenance_rule_b_spec].
    + now apply all_sign_b_spec.
  - destruct rollup.
    + apply andb_prop in HX as [H3 H4]. split; [now apply required_direct_b_spec|].
      destruct roles; [|discriminate]. apply andb_prop in H4 as [H4 H5].
      split; [now apply roles_direct_b_spec|now apply provenance_rule_b_spec].
    + now apply all_sign_b_spec.
  - apply andb_prop in HX as [H1 H2]. split; [destruct vos; [discriminate|discriminate]|].
    intros o Ho. rewrite forallb_forall in H2. specialize (H2 o Ho).
    destruct o as [a|]; [|discriminate]. apply andb_prop in H2 as [H2 H3].
    exists a. split; auto. split; [|now apply mem_In].
    apply negb_true_iff in H2. now apply Z.eqb_neq.
  - apply andb_prop in HX as [H1 HX]. split; [now apply all_sign_b_spec|].
    destruct (doc_only_vo ex pr); [exact I|].
    apply andb_prop in HX as [H HX]. apply andb_prop in H as [H2 H3].
    split; [now apply roles_present_b_spec|]. split; [now apply provenance_rule_b_spec|].
    destruct (sv_rollup ex).
    + apply andb_prop in HX as [H4 H5].
      split; [now apply required_direct_b_spec|now apply roles_direct_b_spec].
    + now apply all_sign_b_spec.
Qed.

Theorem doc_direct_sound : forall e op signers,
  doc_direct e op signers = true -> outer_accept e op signers = true.
Proof.
  intros e op signers H. destruct (doc_direct_reflect _ _ _ H) as (Hwf & Hnw & HD).
  now apply outer_complete_direct_no_contract.
Qed.

(** One row unfolded: a record moving from session [old] into [session], rollup on. *)
Lemma record_move_complete_direct : forall e owners session old roles signers,
  role_assignment (fun a => In a signers) session roles ->
  (forall p, In p owners -> p_opt p = false -> In (p_addr p) signers) ->
  (forall p, In p session -> p_opt p = false -> In (p_addr p) signers) ->
  (forall p, In p old -> p_opt p = false -> In (p_addr p) signers) ->
  provenance_rule e session ->
  (forall s, In s signers -> is_wasm e s = false) ->
  outer_accept e (OWriteRecord true owners session (Some old) roles) signers = true.
Proof.
  intros e owners session old roles signers H1 H2 H3 H4 H5 H6.
  apply outer_complete_direct_no_contract; [reflexivity|exact H6|]. cbn. auto.
Qed.
