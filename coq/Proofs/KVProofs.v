(** Lemmas about the ordered store model Exchange/KV.v: the key order is a strict total order,
    prefix stripping, get/set/del, sortedness. *)
From Coq Require Import NArith List Bool Lia.
From PV Require Import Exchange.KV.
Import ListNotations.
Open Scope N_scope.

Lemma key_compare_refl : forall a, key_compare a a = Eq.
Proof.
  induction a as [|x a IH]; cbn; [reflexivity|].
  rewrite N.compare_refl. exact IH.
Qed.

Lemma key_compare_eq : forall a b, key_compare a b = Eq -> a = b.
Proof.
  induction a as [|x a IH]; intros [|y b] H; cbn in H; try discriminate; [reflexivity|].
  destruct (N.compare x y) eqn:E; try discriminate.
  apply N.compare_eq in E. subst. f_equal. apply IH. exact H.
Qed.

Lemma key_compare_eq_iff : forall a b, key_compare a b = Eq <-> a = b.
Proof.
  intros a b; split; [apply key_compare_eq|intros ->; apply key_compare_refl].
Qed.

Lemma key_compare_antisym : forall a b, key_compare b a = CompOpp (key_compare a b).
Proof.
  induction a as [|x a IH]; intros [|y b]; cbn; try reflexivity.
  rewrite (N.compare_antisym x y).
  destruct (N.compare x y); cbn; try reflexivity. apply IH.
Qed.

Lemma key_lt_trans : forall a b c, key_lt a b -> key_lt b c -> key_lt a c.
Proof.
  unfold key_lt.
  induction a as [|x a IH]; intros [|y b] [|z c] H1 H2; cbn in *; try discriminate; try reflexivity.
  destruct (N.compare x y) eqn:E1; try discriminate.
  - apply N.compare_eq in E1; subst y.
    destruct (N.compare x z) eqn:E2; try discriminate; try reflexivity.
    eapply IH; eauto.
  - destruct (N.compare y z) eqn:E2; try discriminate.
    + apply N.compare_eq in E2; subst z. rewrite E1. reflexivity.
    + rewrite N.compare_lt_iff in E1, E2.
      assert (E3 : (x ?= z) = Lt) by (rewrite N.compare_lt_iff; lia).
      rewrite E3. reflexivity.
Qed.

Lemma key_lt_irrefl : forall a, ~ key_lt a a.
Proof. intros a H. unfold key_lt in H. rewrite key_compare_refl in H. discriminate. Qed.

Lemma key_eqb_eq : forall a b, key_eqb a b = true <-> a = b.
Proof.
  intros a b. unfold key_eqb. split.
  - destruct (key_compare a b) eqn:E; try discriminate. intros _. apply key_compare_eq; exact E.
  - intros ->. rewrite key_compare_refl. reflexivity.
Qed.

Lemma key_eqb_refl : forall a, key_eqb a a = true.
Proof. intros a. apply key_eqb_eq. reflexivity. Qed.

Lemma key_eqb_neq : forall a b, key_eqb a b = false <-> a <> b.
Proof.
  intros a b. rewrite <- key_eqb_eq. destruct (key_eqb a b); split; congruence.
Qed.

Lemma key_eqb_sym : forall a b, key_eqb a b = key_eqb b a.
Proof.
  intros a b. destruct (key_eqb a b) eqn:E.
  - apply key_eqb_eq in E; subst. symmetry; apply key_eqb_refl.
  - symmetry. apply key_eqb_neq. apply key_eqb_neq in E. congruence.
Qed.

Lemma key_ltb_lt : forall a b, key_ltb a b = true <-> key_lt a b.
Proof.
  intros a b. unfold key_ltb, key_lt. destruct (key_compare a b); split; congruence.
Qed.

Lemma key_leb_spec : forall a b, key_leb a b = true <-> (key_lt a b \/ a = b).
Proof.
  intros a b. unfold key_leb, key_lt. destruct (key_compare a b) eqn:E; split; intros H; try congruence.
  - right. apply key_compare_eq; exact E.
  - left; reflexivity.
  - destruct H as [H|H]; [discriminate|]. subst. rewrite key_compare_refl in E. discriminate.
Qed.

Lemma key_leb_false_lt : forall a b, key_leb a b = false <-> key_lt b a.
Proof.
  intros a b. unfold key_leb, key_lt. rewrite (key_compare_antisym a b).
  destruct (key_compare a b); cbn; split; congruence.
Qed.

(** Stripping a common prefix preserves the order. *)
Lemma key_compare_app : forall p a b, key_compare (p ++ a) (p ++ b) = key_compare a b.
Proof.
  induction p as [|x p IH]; intros a b; cbn; [reflexivity|].
  rewrite N.compare_refl. apply IH.
Qed.

Lemma strip_prefix_spec : forall p k r, strip_prefix p k = Some r <-> k = p ++ r.
Proof.
  induction p as [|x p IH]; intros k r; cbn.
  - split; congruence.
  - destruct k as [|y k]; [split; [discriminate|intros H; discriminate]|].
    destruct (N.eqb x y) eqn:E.
    + apply N.eqb_eq in E; subst y. rewrite IH. split; [intros ->; reflexivity|intros H; injection H; auto].
    + apply N.eqb_neq in E. split; [discriminate|]. intros H. injection H. intros _ ?. congruence.
Qed.

(** ---- sortedness ---- *)
Section StoreLemmas.
  Variable V : Type.
  Notation store := (list (key * V)).

  Lemma sorted_tail : forall (a : key * V) (r : store), sorted_keys (a :: r) -> sorted_keys r.
  Proof.
    intros [k v] [|[k' v'] r] H; cbn in *; [exact I|]. destruct H as [_ H]. exact H.
  Qed.

  Lemma sorted_head_lt : forall k v (r : store),
    sorted_keys ((k, v) :: r) -> forall k' v', In (k', v') r -> key_lt k k'.
  Proof.
    intros k v r. revert k v.
    induction r as [|[k1 v1] r IH]; intros k v H k' v' Hin; [destruct Hin|].
    cbn in H. destruct H as [Hlt Hs].
    destruct Hin as [Heq|Hin].
    - injection Heq; intros; subst. exact Hlt.
    - eapply key_lt_trans; [exact Hlt|]. exact (IH k1 v1 Hs k' v' Hin).
  Qed.

  Lemma sorted_cons : forall k v (r : store),
    sorted_keys r -> (forall k' v', In (k', v') r -> key_lt k k') -> sorted_keys ((k, v) :: r).
  Proof.
    intros k v [|[k1 v1] r] Hs Hall; cbn; [exact I|].
    split; [apply (Hall k1 v1); left; reflexivity|exact Hs].
  Qed.

  Lemma sorted_filter : forall (f : key * V -> bool) (l : store),
    sorted_keys l -> sorted_keys (filter f l).
  Proof.
    intros f l. induction l as [|[k v] r IH]; intros Hs; cbn; [exact I|].
    pose proof (sorted_tail _ _ Hs) as Hr.
    destruct (f (k, v)); [|apply IH; exact Hr].
    apply sorted_cons; [apply IH; exact Hr|].
    intros k' v' Hin. apply filter_In in Hin. destruct Hin as [Hin _].
    eapply sorted_head_lt; eauto.
  Qed.

  Lemma get_In : forall (s : store) k v, get s k = Some v -> In (k, v) s.
  Proof.
    induction s as [|[k1 v1] r IH]; intros k v H; cbn in H; [discriminate|].
    destruct (key_eqb k k1) eqn:E.
    - apply key_eqb_eq in E; subst. injection H; intros; subst. left; reflexivity.
    - right. apply IH; exact H.
  Qed.

  Lemma sorted_In_get : forall (s : store) k v,
    sorted_keys s -> (In (k, v) s <-> get s k = Some v).
  Proof.
    intros s k v Hs. split; [|apply get_In].
    induction s as [|[k1 v1] r IH]; intros Hin; [destruct Hin|].
    cbn. destruct Hin as [Heq|Hin].
    - injection Heq; intros; subst. rewrite key_eqb_refl. reflexivity.
    - destruct (key_eqb k k1) eqn:E.
      + apply key_eqb_eq in E; subst k1. exfalso.
        eapply key_lt_irrefl. eapply sorted_head_lt; eauto.
      + apply IH; [eapply sorted_tail; eauto|exact Hin].
  Qed.

  Lemma sorted_NoDup_keys : forall (s : store), sorted_keys s -> NoDup (map fst s).
  Proof.
    induction s as [|[k v] r IH]; intros Hs; cbn; constructor.
    - intros Hin. apply in_map_iff in Hin. destruct Hin as [[k' v'] [Hk Hin]]. cbn in Hk; subst k'.
      eapply key_lt_irrefl. eapply sorted_head_lt; eauto.
    - apply IH. eapply sorted_tail; eauto.
  Qed.

  (** ---- get / set / del ---- *)
  Lemma get_set : forall (s : store) k v k',
    get (set s k v) k' = if key_eqb k' k then Some v else get s k'.
  Proof.
    induction s as [|[k1 v1] r IH]; intros k v k'; cbn.
    - destruct (key_eqb k' k); reflexivity.
    - destruct (key_compare k k1) eqn:E; cbn.
      + apply key_compare_eq in E; subst k1. destruct (key_eqb k' k); reflexivity.
      + destruct (key_eqb k' k); reflexivity.
      + rewrite IH. destruct (key_eqb k' k1) eqn:E1; [|reflexivity].
        apply key_eqb_eq in E1; subst k1.
        destruct (key_eqb k' k) eqn:E2; [|reflexivity].
        apply key_eqb_eq in E2; subst k'. rewrite key_compare_refl in E. discriminate.
  Qed.

  Lemma get_del : forall (s : store) k k',
    get (del s k) k' = if key_eqb k' k then None else get s k'.
  Proof.
    induction s as [|[k1 v1] r IH]; intros k k'.
    - cbn. destruct (key_eqb k' k); reflexivity.
    - unfold del in *. cbn [filter fst]. destruct (key_eqb k k1) eqn:E; cbn [negb get].
      + apply key_eqb_eq in E; subst k1. rewrite IH.
        destruct (key_eqb k' k); reflexivity.
      + rewrite IH. destruct (key_eqb k' k1) eqn:E1; [|reflexivity].
        apply key_eqb_eq in E1; subst k1. rewrite key_eqb_sym, E. reflexivity.
  Qed.

  Lemma In_set_weak : forall (s : store) k v k' v',
    In (k', v') (set s k v) -> (k', v') = (k, v) \/ In (k', v') s.
  Proof.
    induction s as [|[k1 v1] r IH]; intros k v k' v' Hin; cbn in Hin.
    - destruct Hin as [H|[]]. left; symmetry; exact H.
    - destruct (key_compare k k1) eqn:E.
      + destruct Hin as [H|Hin]; [left; symmetry; exact H|right; right; exact Hin].
      + destruct Hin as [H|Hin]; [left; symmetry; exact H|right; exact Hin].
      + destruct Hin as [H|Hin]; [right; left; exact H|].
        apply IH in Hin. destruct Hin as [H|H]; [left; exact H|right; right; exact H].
  Qed.

  Lemma sorted_set : forall (s : store) k v, sorted_keys s -> sorted_keys (set s k v).
  Proof.
    induction s as [|[k1 v1] r IH]; intros k v Hs; cbn; [exact I|].
    destruct (key_compare k k1) eqn:E.
    - apply key_compare_eq in E; subst k1.
      apply sorted_cons; [eapply sorted_tail; eauto|].
      intros k' v' Hin. eapply sorted_head_lt; eauto.
    - cbn. split; [exact E|exact Hs].
    - apply sorted_cons; [apply IH; eapply sorted_tail; eauto|].
      intros k' v' Hin. apply In_set_weak in Hin. destruct Hin as [H|Hin].
      + injection H; intros; subst. unfold key_lt. rewrite key_compare_antisym, E. reflexivity.
      + eapply sorted_head_lt; eauto.
  Qed.

  Lemma sorted_del : forall (s : store) k, sorted_keys s -> sorted_keys (del s k).
  Proof. intros s k Hs. unfold del. apply sorted_filter. exact Hs. Qed.

  (** ---- prefix store ---- *)
  Lemma pstore_In : forall (s : store) p r v, In (r, v) (pstore s p) <-> In (p ++ r, v) s.
  Proof.
    intros s p r v. unfold pstore. rewrite in_flat_map. split.
    - intros [[k v0] [Hin H]]. cbn in H.
      destruct (strip_prefix p k) as [r0|] eqn:E; [|destruct H].
      destruct H as [H|[]]. injection H; intros; subst.
      apply strip_prefix_spec in E. subst k. exact Hin.
    - intros Hin. exists (p ++ r, v). split; [exact Hin|]. cbn.
      assert (E : strip_prefix p (p ++ r) = Some r) by (apply strip_prefix_spec; reflexivity).
      rewrite E. left; reflexivity.
  Qed.

  Lemma pstore_sorted : forall (s : store) p, sorted_keys s -> sorted_keys (pstore s p).
  Proof.
    induction s as [|[k v] r IH]; intros p Hs; [exact I|].
    pose proof (sorted_tail _ _ Hs) as Hr.
    change (pstore ((k, v) :: r) p)
      with ((match strip_prefix p k with Some r0 => [(r0, v)] | None => [] end) ++ pstore r p).
    destruct (strip_prefix p k) as [r0|] eqn:E; cbn [app]; [|apply IH; exact Hr].
    apply strip_prefix_spec in E. subst k.
    apply sorted_cons; [apply IH; exact Hr|].
    intros k' v' Hin. apply pstore_In in Hin.
    pose proof (sorted_head_lt _ _ _ Hs _ _ Hin) as Hlt.
    unfold key_lt in *. rewrite key_compare_app in Hlt. exact Hlt.
  Qed.
End StoreLemmas.

Arguments sorted_tail {V}.
Arguments sorted_head_lt {V}.
Arguments sorted_cons {V}.
Arguments sorted_filter {V}.
Arguments get_In {V}.
Arguments sorted_In_get {V}.
Arguments sorted_NoDup_keys {V}.
Arguments get_set {V}.
Arguments get_del {V}.
Arguments In_set_weak {V}.
Arguments sorted_set {V}.
Arguments sorted_del {V}.
Arguments pstore_In {V}.
Arguments pstore_sorted {V}.
