(** Proofs about [PV.Marker.MultiLifecycle] (property C05): every operation on the world of several
    markers is, for each denom, either invisible or ONE successful operation of the single-denom
    model on that denom's view ([mstep_proj]); hence every history of the world projects, denom by
    denom, to a history of Lifecycle.v ([mrun_view]) and the theorems proved there carry over. *)
From Coq Require Import ZArith NArith List Bool Lia ZifyBool.
From PV Require Import Marker.Lifecycle Marker.MultiLifecycle
     Proofs.LifecycleProofs Proofs.LifecycleProofs2 Proofs.LifecycleProofs3.
Import ListNotations.
Open Scope Z_scope.

#[local] Opaque get set total escrow.

(** * What a successful single-denom step never changes *)
Lemma step_opt_esc s o s' : step_opt s o = Some s' -> esc s' = esc s.
Proof.
  intros H. destruct o; open_step H; subst; use_specs; simp_state;
    repeat match goal with Hx : _ /\ _ |- _ => destruct Hx end; simp_state; congruence.
Qed.

Definition is_set_params (o : op) : bool :=
  match o with OSetParams _ _ _ _ => true | _ => false end.

Lemma step_opt_keeps_params s o s' :
  step_opt s o = Some s' -> is_set_params o = false ->
  maxsupply s' = maxsupply s /\ govparam s' = govparam s.
Proof.
  intros H Hn. destruct o; try discriminate Hn; open_step H; subst; use_specs; simp_state;
    repeat match goal with Hx : _ /\ _ |- _ => destruct Hx end; simp_state; split; congruence.
Qed.

(** * Views and updates *)
Lemma view_put_same W d s' :
  maxsupply s' = w_max W -> govparam s' = w_gov W -> esc s' = escrow d -> view (put W d s') d = s'.
Proof.
  intros H1 H2 H3. unfold view, put, cell_of. cbn [cells w_max w_gov]. rewrite N.eqb_refl.
  destruct s'. cbn in *. subst. reflexivity.
Qed.

Lemma cells_put_other W d s' d' : d' <> d -> cells (put W d s') d' = cells W d'.
Proof. intros Hne. unfold put. cbn [cells]. destruct (N.eqb_spec d' d); [contradiction|reflexivity]. Qed.

Lemma view_put_other W d s' d' : d' <> d -> view (put W d s') d' = view W d'.
Proof. intros Hne. unfold view. rewrite cells_put_other by exact Hne. reflexivity. Qed.

Lemma cells_consume_grant W a f e x : cells (consume_grant W a f e x) = cells W.
Proof. unfold consume_grant. destruct (find_grant (grants W) f a); reflexivity. Qed.

Lemma view_consume_grant W a f e x d : view (consume_grant W a f e x) d = view W d.
Proof. unfold consume_grant. destruct (find_grant (grants W) f a); reflexivity. Qed.

Lemma step_view_put W d o s' :
  step_opt (view W d) o = Some s' -> is_set_params o = false -> view (put W d s') d = s'.
Proof.
  intros H Hn. destruct (step_opt_keeps_params _ _ _ H Hn) as [H1 H2]. pose proof (step_opt_esc _ _ _ H) as H3.
  apply view_put_same; assumption.
Qed.

Lemma local_not_set_params o : local_op o = true -> is_set_params o = false.
Proof. destruct o; cbn; congruence. Qed.

(** * The operation of Lifecycle.v that denom [d] sees when the world performs [o] *)
Definition proj (W : world) (o : mop) (d : denom) : option op :=
  match o with
  | MOn d' o1 => if N.eqb d d' then Some o1 else None
  | MTransfer d' a f t x => if N.eqb d d' then Some (OTransfer a f t x (authz_accepts W a f t d' x)) else None
  | MWithdrawOther d' _ t e x => if N.eqb d e then Some (OMove (escrow d') t x) else None
  | MGovWithdrawOther _ d' t e x => if N.eqb d e then Some (OMove (escrow d') t x) else None
  | MSetParams a mx mts gv => Some (OSetParams a mx mts gv)
  | MBeginBlock => if in_dom W d then Some OBeginBlock else None
  | MAuthzGrant _ _ _ _ | MAuthzRevoke _ _ => None
  end.

Lemma in_dom_In W d : in_dom W d = true -> In d (dom W).
Proof.
  unfold in_dom. intros H. apply existsb_exists in H. destruct H as (x & Hx & He).
  apply N.eqb_eq in He. subst. exact Hx.
Qed.

Lemma mstep_proj W o W' :
  mstep_opt W o = Some W' ->
  forall d, match proj W o d with
            | Some o1 => step_opt (view W d) o1 = Some (view W' d)
            | None => view W' d = view W d
            end.
Proof.
  intros H d. destruct o; unfold mstep_opt in H; brk; subst; cbn [proj].
  - (* MOn *)
    destruct (N.eqb_spec d d0) as [->|Hne].
    + match goal with Hs : step_opt _ _ = Some _, Hl : local_op _ = true |- _ =>
        rewrite (step_view_put _ _ _ _ Hs (local_not_set_params _ Hl)); exact Hs end.
    + apply view_put_other. exact Hne.
  - (* MTransfer *)
    match goal with |- context [view (if ?b then ?x else ?y) d] =>
      replace (view (if b then x else y) d) with (view y d)
        by (destruct b; [symmetry; apply view_consume_grant | reflexivity]) end.
    destruct (N.eqb_spec d d0) as [->|Hne].
    + match goal with Hs : step_opt _ _ = Some _ |- _ =>
        rewrite (step_view_put _ _ _ _ Hs eq_refl); exact Hs end.
    + apply view_put_other. exact Hne.
  - (* MWithdrawOther *)
    destruct (N.eqb_spec d e) as [->|Hne].
    + match goal with Hs : step_opt _ _ = Some _ |- _ =>
        rewrite (step_view_put _ _ _ _ Hs eq_refl); exact Hs end.
    + apply view_put_other. exact Hne.
  - (* MGovWithdrawOther *)
    destruct (N.eqb_spec d e) as [->|Hne].
    + match goal with Hs : step_opt _ _ = Some _ |- _ =>
        rewrite (step_view_put _ _ _ _ Hs eq_refl); exact Hs end.
    + apply view_put_other. exact Hne.
  - reflexivity.
  - reflexivity.
  - (* MSetParams *)
    unfold step_opt. match goal with Hg : N.eqb _ GOV = true |- _ => rewrite Hg end. reflexivity.
  - (* MBeginBlock *)
    destruct (in_dom W d) eqn:Ed.
    + match goal with Hf : forallb _ _ = true |- _ => rename Hf into E end.
      rewrite forallb_forall in E. specialize (E d (in_dom_In _ _ Ed)).
      unfold bb_cell in E. destruct (step_opt (view W d) OBeginBlock) as [s'|] eqn:Eb; [|discriminate].
      f_equal. unfold view at 1. cbn [cells w_max w_gov]. rewrite Ed. unfold bb_cell. rewrite Eb.
      destruct (step_opt_keeps_params _ _ _ Eb eq_refl) as [H1 H2]. pose proof (step_opt_esc _ _ _ Eb) as H3.
      clear Eb E. cbn [view maxsupply govparam esc] in H1, H2, H3.
      destruct s' as [a1 a2 a3 a4 a5 a6 a7]. cbn [cell_of c_mk c_bal c_supply c_gen mk bal supply gen maxsupply govparam esc] in *. subst. reflexivity.
    + unfold view. cbn [cells w_max w_gov]. rewrite Ed. reflexivity.
Qed.

(** * Frame: only the touched denom's cell changes *)
Lemma mstep_cells_frame W o W' :
  mstep_opt W o = Some W' -> o <> MBeginBlock ->
  forall d, touched o <> Some d -> cells W' d = cells W d.
Proof.
  intros H Hnb d Ht. destruct o; try congruence; unfold mstep_opt in H; brk; subst; cbn [touched] in Ht;
    try (match goal with |- context [if ?b then _ else _] => destruct b end);
    try rewrite cells_consume_grant; try reflexivity; apply cells_put_other; congruence.
Qed.

Lemma mstep_dom W o W' : mstep_opt W o = Some W' -> dom W' = dom W.
Proof.
  intros H. destruct o; unfold mstep_opt in H; brk; subst; try reflexivity.
  destruct (uses_authz _ _ _); [|reflexivity].
  unfold consume_grant; destruct (find_grant _ _ _); reflexivity.
Qed.

(** * From successful steps to [mstep] *)
Lemma mstep_cases W o :
  (exists W', mstep_opt W o = Some W' /\ mstep W o = (W', true)) \/ (mstep_opt W o = None /\ mstep W o = (W, false)).
Proof. unfold mstep. destruct (mstep_opt W o) as [W'|]; [left; eauto | right; auto]. Qed.

(** The history of Lifecycle.v that denom [d] lives through while the world runs [ops]. *)
Fixpoint proj_hist (W : world) (ops : list mop) (d : denom) : list op :=
  match ops with
  | [] => []
  | o :: r =>
      (match mstep_opt W o with
       | Some _ => match proj W o d with Some o1 => [o1] | None => [] end
       | None => []
       end) ++ proj_hist (fst (mstep W o)) r d
  end.

Lemma mrun_cons W o r : mrun W (o :: r) = mrun (fst (mstep W o)) r.
Proof. reflexivity. Qed.

Lemma mrun_app W l1 l2 : mrun W (l1 ++ l2) = mrun (mrun W l1) l2.
Proof. unfold mrun. apply fold_left_app. Qed.

Lemma step_of_opt s o s' : step_opt s o = Some s' -> fst (step s o) = s'.
Proof. intros H. unfold step. rewrite H. reflexivity. Qed.

Lemma mrun_view ops : forall W d, view (mrun W ops) d = run (view W d) (proj_hist W ops d).
Proof.
  induction ops as [|o r IH]; intros W d; [reflexivity|].
  rewrite mrun_cons, IH. cbn [proj_hist]. rewrite run_app. f_equal.
  destruct (mstep_cases W o) as [(W' & Ho & He)|(Ho & He)]; rewrite He, Ho; cbn [fst]; [|reflexivity].
  pose proof (mstep_proj W o W' Ho d) as Hp. destruct (proj W o d) as [o1|].
  - cbn [run fold_left]. symmetry. apply step_of_opt. exact Hp.
  - cbn [run fold_left]. exact Hp.
Qed.

Lemma proj_hist_app l1 : forall W l2 d,
  proj_hist W (l1 ++ l2) d = proj_hist W l1 d ++ proj_hist (mrun W l1) l2 d.
Proof.
  induction l1 as [|o r IH]; intros W l2 d; [reflexivity|].
  cbn [app proj_hist]. rewrite IH, mrun_cons, app_assoc. reflexivity.
Qed.

(** * The invariant over histories *)
Lemma mrun_inv ops W : WInv W -> WInv (mrun W ops).
Proof. intros HW d. rewrite mrun_view. apply run_inv. apply HW. Qed.

(** * Theorems of Lifecycle.v carried over, denom by denom *)
Lemma m_fixed_exact ops W d m :
  WInv W -> let W1 := mrun W ops in
  c_mk (cells W1 d) = Some m -> st m = Active -> fixed m = true -> c_supply (cells W1 d) = msupply m.
Proof.
  intros HW W1 Hm Hs Hf. destruct (mrun_inv ops W HW d) as [_ HF]. exact (HF m Hm Hs Hf).
Qed.

Lemma m_sum ops W d :
  WInv W -> let W1 := mrun W ops in
  c_supply (cells W1 d) = total (c_bal (cells W1 d)) /\ NonNeg (c_bal (cells W1 d)).
Proof. intros HW W1. destruct (mrun_inv ops W HW d) as [[Hn He] _]. split; assumption. Qed.

Lemma m_begin_block_noop ops W :
  WInv W -> let W1 := mrun W ops in
  snd (mstep W1 MBeginBlock) = true /\
  forall d, c_supply (cells (fst (mstep W1 MBeginBlock)) d) = c_supply (cells W1 d) /\
            c_bal (cells (fst (mstep W1 MBeginBlock)) d) = c_bal (cells W1 d).
Proof.
  intros HW W1. pose proof (mrun_inv ops W HW) as HI. fold W1 in HI.
  assert (forall d, exists s', bb_cell W1 d = Some s' /\ supply s' = supply (view W1 d) /\ bal s' = bal (view W1 d)) as Hb.
  { intros d. pose proof (begin_block_noop [] (view W1 d) (HI d)) as Hn. cbn [run fold_left] in Hn. cbv zeta in Hn.
    unfold bb_cell. unfold step in Hn. destruct (step_opt (view W1 d) OBeginBlock) as [s'|].
    - exists s'. cbn [fst snd] in Hn. tauto.
    - cbn [snd] in Hn. destruct Hn as [Hn _]. discriminate Hn. }
  unfold mstep, mstep_opt.
  assert (forallb (fun d => match bb_cell W1 d with Some _ => true | None => false end) (dom W1) = true) as ->.
  { apply forallb_forall. intros d _. destruct (Hb d) as (s' & -> & _). reflexivity. }
  cbn [fst snd cells]. split; [reflexivity|]. intros d.
  destruct (in_dom W1 d); [|split; reflexivity].
  destruct (Hb d) as (s' & -> & Hs & Hbal). cbn [cell_of c_supply c_bal]. split; assumption.
Qed.

Lemma mstep_last W o W' : mstep W o = (W', true) -> mstep_opt W o = Some W'.
Proof. unfold mstep. destruct (mstep_opt W o); intros [= <-]; reflexivity. Qed.

Lemma m_mint_le_max ops W o d amt m W' :
  let W1 := mrun W ops in
  mmint_amount o = Some (d, amt) -> c_mk (cells W1 d) = Some m -> st m = Active -> mstep W1 o = (W', true) ->
  c_supply (cells W' d) = c_supply (cells W1 d) + amt /\ c_supply (cells W' d) <= w_max W1.
Proof.
  intros W1 Hm Hmk Hst Hstep. apply mstep_last in Hstep.
  destruct o; cbn [mmint_amount] in Hm; try discriminate Hm.
  destruct (mint_amount o) as [a|] eqn:Ea; [|discriminate Hm]. injection Hm as -> ->.
  pose proof (mstep_proj W1 _ W' Hstep d) as Hp. cbn [proj] in Hp. rewrite N.eqb_refl in Hp.
  exact (step_opt_mint (view W1 d) o (view W' d) amt m Hp Ea Hmk Hst).
Qed.

Lemma m_burn_only_escrow ops W o d :
  let W1 := mrun W ops in let W' := fst (mstep W1 o) in
  c_supply (cells W' d) < c_supply (cells W1 d) ->
  get (c_bal (cells W' d)) (escrow d) = get (c_bal (cells W1 d)) (escrow d) - (c_supply (cells W1 d) - c_supply (cells W' d)) /\
  (forall a, a <> escrow d -> get (c_bal (cells W' d)) a = get (c_bal (cells W1 d)) a).
Proof.
  intros W1 W' Hlt. subst W'.
  destruct (mstep_cases W1 o) as [(W2 & Ho & He)|(Ho & He)]; rewrite He in *; cbn [fst] in *; [|lia].
  pose proof (mstep_proj W1 o W2 Ho d) as Hp. destruct (proj W1 o d) as [o1|].
  - exact (step_opt_burn (view W1 d) o1 (view W2 d) Hp Hlt).
  - assert (c_supply (cells W2 d) = c_supply (cells W1 d)) by (change (supply (view W2 d) = supply (view W1 d)); rewrite Hp; reflexivity). lia.
Qed.

Lemma m_lifepos_step W o d : lifepos (view W d) <= lifepos (view (fst (mstep W o)) d).
Proof.
  change (fst (mstep W o)) with (mrun W [o]). rewrite mrun_view. apply run_lifepos.
Qed.

Lemma m_status_monotone W pre post d m1 m2 :
  let W1 := mrun W pre in let W2 := mrun W1 post in
  c_gen (cells W1 d) = c_gen (cells W2 d) -> c_mk (cells W1 d) = Some m1 -> c_mk (cells W2 d) = Some m2 ->
  rank (st m1) <= rank (st m2).
Proof.
  intros W1 W2 Hg H1 H2. subst W2. pose proof (mrun_view post W1 d) as Hv.
  pose proof (run_lifepos (proj_hist W1 post d) (view W1 d)) as Hl. rewrite <- Hv in Hl.
  unfold lifepos in Hl. cbn [view mk gen] in Hl. rewrite H1, H2, Hg in Hl. lia.
Qed.

Lemma m_removed_only_destroyed ops W o d m :
  let W1 := mrun W ops in
  c_mk (cells W1 d) = Some m -> c_mk (cells (fst (mstep W1 o)) d) = None -> st m = Destroyed /\ o = MBeginBlock.
Proof.
  intros W1 Hm Hn.
  destruct (mstep_cases W1 o) as [(W2 & Ho & He)|(Ho & He)]; rewrite He in *; cbn [fst] in *; [|congruence].
  pose proof (mstep_proj W1 o W2 Ho d) as Hp. destruct (proj W1 o d) as [o1|] eqn:Ep.
  - pose proof (removed_only_destroyed [] (view W1 d) o1 m) as Hr. cbn [run fold_left] in Hr. cbv zeta in Hr.
    rewrite (step_of_opt _ _ _ Hp) in Hr. destruct (Hr Hm Hn) as [Hd ->]. split; [exact Hd|].
    destruct o; cbn [proj] in Ep; try discriminate Ep;
      try (destruct (N.eqb d d0); discriminate Ep); try (destruct (N.eqb d e); discriminate Ep).
    + destruct (N.eqb d d0); [|discriminate Ep]. injection Ep as ->.
      unfold mstep_opt in Ho. brk. discriminate.
    + reflexivity.
  - exfalso. assert (c_mk (cells W2 d) = c_mk (cells W1 d)) as Hq by (change (mk (view W2 d) = mk (view W1 d)); rewrite Hp; reflexivity).
    congruence.
Qed.

Lemma m_recall ops W o d m m' :
  WInv W -> let W1 := mrun W ops in let W' := fst (mstep W1 o) in
  c_mk (cells W1 d) = Some m -> c_mk (cells W' d) = Some m' ->
  (st m <> Destroyed /\ st m' = Destroyed) \/
  ((exists c, o = MOn d (OCancel c)) /\ (st m = Finalized \/ st m = Active) /\ st m' = Cancelled) ->
  (forall a, a <> escrow d -> get (c_bal (cells W1 d)) a = 0) /\ (st m' = Destroyed -> c_supply (cells W' d) = 0).
Proof.
  intros HW W1 W' Hm Hm' Hc. subst W'.
  pose proof (mrun_inv ops W HW d) as HI. fold W1 in HI.
  destruct (mstep_cases W1 o) as [(W2 & Ho & He)|(Ho & He)]; rewrite He in *; cbn [fst] in *.
  - pose proof (mstep_proj W1 o W2 Ho d) as Hp. destruct (proj W1 o d) as [o1|] eqn:Ep.
    + pose proof (run_recall [] (view W1 d) o1 m m' HI) as Hr. cbn [run fold_left] in Hr. cbv zeta in Hr.
      rewrite (step_of_opt _ _ _ Hp) in Hr. apply Hr; try assumption.
      destruct Hc as [Hc|[(c & ->) Hc]]; [left; exact Hc|right].
      cbn [proj] in Ep. rewrite N.eqb_refl in Ep. injection Ep as <-. split; [eexists; reflexivity|exact Hc].
    + exfalso. assert (c_mk (cells W2 d) = c_mk (cells W1 d)) as Hq by (change (mk (view W2 d) = mk (view W1 d)); rewrite Hp; reflexivity).
      rewrite Hq, Hm in Hm'. injection Hm' as <-.
      destruct Hc as [[Hnd Hd]|[_ [[Hf|Ha] Hc]]]; congruence.
  - exfalso. rewrite Hm in Hm'. injection Hm' as <-.
    destruct Hc as [[Hnd Hd]|[_ [[Hf|Ha] Hc]]]; congruence.
Qed.

(** * Frame over [mstep] *)
Lemma m_frame W o d :
  o <> MBeginBlock -> touched o <> Some d -> cells (fst (mstep W o)) d = cells W d.
Proof.
  intros Hnb Ht. destruct (mstep_cases W o) as [(W2 & Ho & He)|(Ho & He)]; rewrite He; cbn [fst]; [|reflexivity].
  exact (mstep_cells_frame W o W2 Ho Hnb d Ht).
Qed.

(** * DeleteMarker leaves the marker's account empty of every denom of the world *)
Lemma step_opt_delete_empty s c s' : step_opt s (ODelete c) = Some s' -> get (bal s') (esc s) = 0.
Proof.
  intros H. open_step H; subst; use_specs; simp_state; slim; lia.
Qed.

Lemma m_delete_empty W d c W' :
  mstep W (MOn d (ODelete c)) = (W', true) ->
  forall e, In e (dom W) -> get (c_bal (cells W' e)) (escrow d) = 0.
Proof.
  intros Hs e He. apply mstep_last in Hs. pose proof Hs as Hs0.
  unfold mstep_opt in Hs. brk. subst. cbn [cross_ok] in E1. unfold account_empty_of_others in E1.
  pose proof (proj1 (forallb_forall _ _) E1 e He) as Hx. cbv beta in Hx. clear E1.
  destruct (N.eqb_spec e d) as [->|Hne].
  - pose proof (mstep_proj W _ _ Hs0 d) as Hp. cbn [proj] in Hp. rewrite N.eqb_refl in Hp.
    exact (step_opt_delete_empty _ _ _ Hp).
  - rewrite cells_put_other by exact Hne. cbn [orb] in Hx. lia.
Qed.
