(** Every bank transfer of [PV.Quarantine.Quarantine] pair by pair (MsgSend, MsgMultiSend, the
    many-inputs InputOutputCoins path): where each (input, output) pair's amount goes, what the
    records gain, and that no operation other than an accept lowers the holder's balance
    (property C07). *)
From Coq Require Import ZArith PArith List Bool Lia ZifyBool Permutation.
From PV Require Import Quarantine.Quarantine Proofs.QuarantineProofs Proofs.QuarantineIndex Proofs.QuarantineSteps.
Import ListNotations.
Open Scope Z_scope.

Definition xfer := (addr * addr * coins)%type.          (* (from, to, amount) of one pair *)
Definition x_from (t : xfer) : addr := fst (fst t).
Definition x_to (t : xfer) : addr := snd (fst t).
Definition x_coins (t : xfer) : coins := snd t.
(* the record a quarantined pair is added to *)
Definition rec_key (t : xfer) : rkey := (x_to t, [trunc (x_from t)]).

(* the (input, output) pairs an operation hands to the send restriction, and what it debits *)
Definition transfers_of (o : op) : list xfer :=
  match o with
  | OSend from to c => [(from, to, c)]
  | OMulti from _ outs => map (fun x => (from, fst x, snd x)) outs
  | OMultiIn ins to => map (fun x => (fst x, to, snd x)) ins
  | _ => []
  end.
Definition inputs_of (o : op) : list (addr * coins) :=
  match o with
  | OSend from _ c => [(from, c)]
  | OMulti from inc _ => [(from, inc)]
  | OMultiIn ins _ => ins
  | _ => []
  end.
Definition is_transfer (o : op) : Prop :=
  match o with OSend _ _ _ | OMulti _ _ _ | OMultiIn _ _ => True | _ => False end.

Definition debited (ins : list (addr * coins)) (a : addr) (d : denom) : Z :=
  fold_right (fun i acc => (if Pos.eqb a (fst i) then amt (snd i) d else 0) + acc) 0 ins.

Section WithHolder.
Variable h : addr.

(* where the amount of a pair ends up, judged in state [s] *)
Definition dest (s : state) (t : xfer) : addr :=
  if is_quarantined h s (x_from t) (x_to t) then h else x_to t.
Definition credited (s : state) (ts : list xfer) (a : addr) (d : denom) : Z :=
  fold_right (fun t acc => (if Pos.eqb a (dest s t) then amt (x_coins t) d else 0) + acc) 0 ts.
(* what the pairs add to the record stored under [k] *)
Definition recorded (s : state) (ts : list xfer) (k : rkey) (d : denom) : Z :=
  fold_right (fun t acc => (if is_quarantined h s (x_from t) (x_to t) && rkey_eqb k (rec_key t)
                            then amt (x_coins t) d else 0) + acc) 0 ts.

Lemma settings_is_quarantined s s' from to :
  same_settings s s' -> is_quarantined h s' from to = is_quarantined h s from to.
Proof.
  intros Hs. unfold is_quarantined. rewrite (settings_get_auto _ _ _ _ Hs).
  destruct Hs as [Ho _]. unfold is_optin. rewrite Ho. reflexivity.
Qed.

Lemma credited_settings s s' ts a d : same_settings s s' -> credited s' ts a d = credited s ts a d.
Proof.
  intros Hs. induction ts as [|t ts IH]; [reflexivity|]. cbn [credited fold_right]. fold (credited s' ts a d) (credited s ts a d).
  rewrite IH. unfold dest. rewrite (settings_is_quarantined _ _ _ _ Hs). reflexivity.
Qed.

Lemma recorded_settings s s' ts k d : same_settings s s' -> recorded s' ts k d = recorded s ts k d.
Proof.
  intros Hs. induction ts as [|t ts IH]; [reflexivity|]. cbn [recorded fold_right]. fold (recorded s' ts k d) (recorded s ts k d).
  rewrite IH, (settings_is_quarantined _ _ _ _ Hs). reflexivity.
Qed.

Lemma old_rset k k0 v l d : old k (rset k0 v l) d = if rkey_eqb k k0 then amt (q_coins v) d else old k l d.
Proof. unfold old. rewrite rget_rset. destruct (rkey_eqb k k0); reflexivity. Qed.

(** one pair *)
Lemma one_credit s t s' :
  wf s -> credit h (Some s) t = Some s' ->
  wf s' /\ same_settings s s' /\
  (forall a d, s_bal s' a d = s_bal s a d + (if Pos.eqb a (dest s t) then amt (x_coins t) d else 0)) /\
  (forall k d, old k (s_recs s') d = old k (s_recs s) d +
               (if is_quarantined h s (x_from t) (x_to t) && rkey_eqb k (rec_key t) then amt (x_coins t) d else 0)) /\
  (forall k, is_quarantined h s (x_from t) (x_to t) = false \/ k <> rec_key t ->
             rget k (s_recs s') = rget k (s_recs s)).
Proof.
  intros Hw Hc. destruct t as [[from to] c]. unfold dest, rec_key, x_from, x_to, x_coins. cbn [fst snd].
  destruct (credit_spec h _ _ _ _ _ Hw Hc) as (Hw' & Hset & [(Hq & Hr & Hb)|(Hq & Hb & r' & Hr & Hcn)]);
    (split; [exact Hw'|]; split; [exact Hset|]); rewrite Hq; cbn [andb].
  - split; [|split].
    + intros a d. rewrite Hb. unfold bal_add. destruct (Pos.eqb a to); lia.
    + intros k d. rewrite Hr. lia.
    + intros k _. rewrite Hr. reflexivity.
  - split; [|split].
    + intros a d. rewrite Hb. unfold bal_add. destruct (Pos.eqb a h); lia.
    + intros k d. rewrite Hr, old_rset. destruct (rkey_eqb k (to, [trunc from])) eqn:Ek; [|lia].
      apply rkey_eqb_eq in Ek. subst k. rewrite Hcn. lia.
    + intros k [Hk|Hk]; [discriminate|]. rewrite Hr, rget_rset, rkey_eqb_neq by exact Hk. reflexivity.
Qed.

(** a list of pairs *)
Lemma credits_spec ts : forall s s',
  wf s -> fold_left (credit h) ts (Some s) = Some s' ->
  wf s' /\ same_settings s s' /\
  (forall a d, s_bal s' a d = s_bal s a d + credited s ts a d) /\
  (forall k d, old k (s_recs s') d = old k (s_recs s) d + recorded s ts k d) /\
  (forall k, (forall t, In t ts -> is_quarantined h s (x_from t) (x_to t) = false \/ k <> rec_key t) ->
             rget k (s_recs s') = rget k (s_recs s)).
Proof.
  induction ts as [|t ts IH]; intros s s' Hw; cbn [fold_left].
  - intros [= <-]. split; [exact Hw|]. split; [apply same_settings_refl|].
    split; [intros; cbn; lia|]. split; [intros; cbn; lia | reflexivity].
  - destruct (credit h (Some s) t) as [s1|] eqn:E1; [|rewrite fold_credit_none; discriminate]. intros Hf.
    destruct (one_credit _ _ _ Hw E1) as (Hw1 & Hs1 & Hb1 & Ho1 & Hk1).
    destruct (IH _ _ Hw1 Hf) as (Hw' & Hs' & Hb' & Ho' & Hk').
    split; [exact Hw'|]. split; [eapply same_settings_trans; eassumption|]. split; [|split].
    + intros a d. rewrite Hb', Hb1, (credited_settings _ _ _ _ _ Hs1). cbn [credited fold_right]. fold (credited s ts a d). lia.
    + intros k d. rewrite Ho', Ho1, (recorded_settings _ _ _ _ _ Hs1). cbn [recorded fold_right]. fold (recorded s ts k d). lia.
    + intros k Hall. rewrite Hk'.
      * apply Hk1. apply Hall. left. reflexivity.
      * intros t' Hin. rewrite (settings_is_quarantined _ _ _ _ Hs1). apply Hall. right. exact Hin.
Qed.

Lemma debits_spec ins : forall s s',
  fold_left debit ins (Some s) = Some s' ->
  s_recs s' = s_recs s /\ same_settings s s' /\
  (forall a d, s_bal s' a d = s_bal s a d - debited ins a d).
Proof.
  induction ins as [|[a0 c0] ins IH]; intros s s'; cbn [fold_left].
  - intros [= <-]. split; [reflexivity|]. split; [apply same_settings_refl|]. intros; cbn; lia.
  - destruct (debit (Some s) (a0, c0)) as [s1|] eqn:E1; [|rewrite fold_debit_none; discriminate].
    apply debit_spec in E1. destruct E1 as [-> _]. intros Hf.
    destruct (IH _ _ Hf) as (A & B & C). split; [exact A|]. split; [exact B|].
    intros a d. rewrite C. cbn [s_bal with_bal debited fold_right fst snd]. fold (debited ins a d).
    unfold bal_sub. destruct (Pos.eqb a a0); lia.
Qed.

(** C07_transfer_pairs (step form): an accepted bank transfer, pair by pair *)
Lemma transfer_spec s o s' res :
  wf s -> is_transfer o -> step h s o = (s', Some res) ->
  wf s' /\ same_settings s s' /\
  (forall a d, s_bal s' a d = s_bal s a d - debited (inputs_of o) a d + credited s (transfers_of o) a d) /\
  (forall k d, old k (s_recs s') d = old k (s_recs s) d + recorded s (transfers_of o) k d) /\
  (forall k, (forall t, In t (transfers_of o) -> is_quarantined h s (x_from t) (x_to t) = false \/ k <> rec_key t) ->
             rget k (s_recs s') = rget k (s_recs s)).
Proof.
  intros Hw Ht.
  assert (G : forall ins ts, fold_left (credit h) ts (fold_left debit ins (Some s)) = Some s' ->
    wf s' /\ same_settings s s' /\
    (forall a d, s_bal s' a d = s_bal s a d - debited ins a d + credited s ts a d) /\
    (forall k d, old k (s_recs s') d = old k (s_recs s) d + recorded s ts k d) /\
    (forall k, (forall t, In t ts -> is_quarantined h s (x_from t) (x_to t) = false \/ k <> rec_key t) ->
               rget k (s_recs s') = rget k (s_recs s))).
  { intros ins ts E. destruct (fold_left debit ins (Some s)) as [s0|] eqn:Ed; [|rewrite fold_credit_none in E; discriminate].
    destruct (debits_spec _ _ _ Ed) as (Hr0 & Hs0 & Hb0).
    assert (Hw0 : wf s0) by (unfold wf; rewrite Hr0; exact Hw).
    destruct (credits_spec _ _ _ Hw0 E) as (Hw' & Hs' & Hb' & Ho' & Hk').
    split; [exact Hw'|]. split; [eapply same_settings_trans; eassumption|]. split; [|split].
    - intros a d. rewrite Hb', Hb0, (credited_settings _ _ _ _ _ Hs0). lia.
    - intros k d. rewrite Ho', Hr0, (recorded_settings _ _ _ _ _ Hs0). reflexivity.
    - intros k Hall. rewrite Hk', Hr0; [reflexivity|]. intros t Hin. rewrite (settings_is_quarantined _ _ _ _ Hs0).
      apply Hall, Hin. }
  destruct o as [a|a|from to c|from inc outs|ins to|to froms perm|to froms perm|to ups]; try contradiction; cbn [step];
    unfold lift.
  - destruct (send h s from to c) as [s1|] eqn:E; [|discriminate]. intros [= <- _]. unfold send in E.
    destruct (coins_valid c); [|discriminate]. apply (G [(from, c)] [(from, to, c)]), E.
  - destruct (multi_send h s from inc outs) as [s1|] eqn:E; [|discriminate]. intros [= <- _]. unfold multi_send in E.
    destruct outs as [|o0 outs0] eqn:Eo; [discriminate|]. rewrite <- Eo in *.
    destruct (coins_valid inc && _ && _); [|discriminate].
    apply (G [(from, inc)] (map (fun x => (from, fst x, snd x)) outs)), E.
  - destruct (multi_in h s ins to) as [s1|] eqn:E; [|discriminate]. intros [= <- _]. unfold multi_in in E.
    destruct ins as [|i0 ins0] eqn:Ei; [discriminate|]. rewrite <- Ei in *.
    destruct (forallb _ ins); [|discriminate].
    apply (G ins (map (fun x => (fst x, to, snd x)) ins)), E.
Qed.

(** the amounts an accepted transfer moves are non-negative *)
Lemma transfer_nonneg s o s' res :
  step h s o = (s', Some res) -> Forall (fun t => nonneg_coins (x_coins t)) (transfers_of o).
Proof.
  destruct o as [a|a|from to c|from inc outs|ins to|to froms perm|to froms perm|to ups]; cbn [step transfers_of];
    try solve [intros _; constructor]; unfold lift.
  - destruct (send h s from to c) as [s1|] eqn:E; [|discriminate]. intros _. unfold send in E.
    destruct (coins_valid c) eqn:Ev; [|discriminate]. constructor; [|constructor].
    intros d. apply coins_valid_nonneg, Ev.
  - destruct (multi_send h s from inc outs) as [s1|] eqn:E; [|discriminate]. intros _. unfold multi_send in E.
    destruct outs as [|o0 outs0] eqn:Eo; [discriminate|]. rewrite <- Eo in *.
    destruct (coins_valid inc && _ && _) eqn:Ev; [|discriminate].
    apply andb_true_iff in Ev. destruct Ev as [Ev _]. apply andb_true_iff in Ev. destruct Ev as [_ Ev].
    apply Forall_map. unfold x_coins. cbn [snd]. apply (valid_all_nonneg (fun o : addr * coins => snd o)), Ev.
  - destruct (multi_in h s ins to) as [s1|] eqn:E; [|discriminate]. intros _. unfold multi_in in E.
    destruct ins as [|i0 ins0] eqn:Ei; [discriminate|]. rewrite <- Ei in *.
    destruct (forallb _ ins) eqn:Ev; [|discriminate].
    apply Forall_map. unfold x_coins. cbn [snd]. apply (valid_all_nonneg (fun o : addr * coins => snd o)), Ev.
Qed.

Lemma credited_nonneg s ts a d : Forall (fun t => nonneg_coins (x_coins t)) ts -> 0 <= credited s ts a d.
Proof.
  induction 1 as [|t ts Ht _ IH]; [cbn; lia|]. cbn [credited fold_right]. fold (credited s ts a d).
  specialize (Ht d). destruct (Pos.eqb a (dest s t)); lia.
Qed.

Lemma debited_not_input ins a d : ~ In a (map fst ins) -> debited ins a d = 0.
Proof.
  induction ins as [|i ins IH]; intros Hn; [reflexivity|]. cbn [debited fold_right]. fold (debited ins a d).
  rewrite IH by (intros Hi; apply Hn; right; exact Hi).
  unfold addr in *. destruct (Pos.eqb_spec a (fst i)) as [E|E]; [exfalso; apply Hn; left; symmetry; exact E | lia].
Qed.

(* a receiver all of whose pairs are quarantined gets nothing *)
Lemma credited_all_quarantined s ts to d :
  to <> h -> (forall t, In t ts -> x_to t = to -> is_quarantined h s (x_from t) to = true) ->
  credited s ts to d = 0.
Proof.
  intros Hth. induction ts as [|t ts IH]; intros Hall; [reflexivity|]. cbn [credited fold_right]. fold (credited s ts to d).
  rewrite IH by (intros t' Hin; apply Hall; right; exact Hin).
  unfold dest. destruct (Pos.eq_dec (x_to t) to) as [E|E].
  - rewrite E, (Hall t (or_introl eq_refl) E). destruct (Pos.eqb_spec to h); [contradiction | lia].
  - destruct (is_quarantined h s (x_from t) (x_to t)).
    + destruct (Pos.eqb_spec to h); [contradiction | lia].
    + destruct (Pos.eqb_spec to (x_to t)); [congruence | lia].
Qed.

Lemma signer_inputs o : signer_ok h o -> ~ In h (map fst (inputs_of o)).
Proof.
  destruct o as [a|a|from to c|from inc outs|ins to|to froms perm|to froms perm|to ups]; cbn [signer_ok inputs_of map fst In];
    try tauto; try (intros H [E|[]]; congruence).
  intros H Hin. apply in_map_iff in Hin. destruct Hin as (i & Ei & Hi). rewrite Forall_forall in H. apply (H i Hi Ei).
Qed.

Lemma neutral_bal s o s' res : wf s -> neutral o -> step h s o = (s', res) -> forall a d, s_bal s' a d = s_bal s a d.
Proof. intros Hw Hn Hst. exact (proj1 (neutral_ops h s [] o s' res Hw (Forall_nil _) Hn Hst)). Qed.

(** C07_only_accept_lowers_holder (step form) *)
Lemma only_accept_lowers_holder s o s' res :
  wf s -> signer_ok h o -> step h s o = (s', res) ->
  (forall to froms perm, o <> OAccept to froms perm) ->
  forall d, s_bal s h d <= s_bal s' h d.
Proof.
  intros Hw Hs Hst Hna d.
  destruct res as [rel|].
  2:{ assert (s' = s); [|subst; lia].
      destruct o as [a|a|from to c|from inc outs|ins to|to froms perm|to froms perm|to ups]; cbn [step] in Hst; unfold lift in Hst;
        try discriminate.
      - destruct (send h s from to c); [discriminate | injection Hst as <-; reflexivity].
      - destruct (multi_send h s from inc outs); [discriminate | injection Hst as <-; reflexivity].
      - destruct (multi_in h s ins to); [discriminate | injection Hst as <-; reflexivity].
      - destruct (accept h s to froms perm) as [[? ?]|]; [discriminate | injection Hst as <-; reflexivity].
      - destruct (decline s to froms perm); [discriminate | injection Hst as <-; reflexivity].
      - destruct (update_auto s to ups); [discriminate | injection Hst as <-; reflexivity]. }
  destruct o as [a|a|from to c|from inc outs|ins to|to froms perm|to froms perm|to ups].
  1,2,7,8: (match type of Hst with step _ ?s0 ?o0 = _ => rewrite (neutral_bal s0 o0 _ _ Hw I Hst) end; lia).
  4: exfalso; apply (Hna to froms perm); reflexivity.
  all: match type of Hst with step _ ?s0 ?o0 = _ =>
         destruct (transfer_spec s0 o0 _ _ Hw I Hst) as (_ & _ & Hb & _);
         pose proof (credited_nonneg s0 (transfers_of o0) h d (transfer_nonneg _ _ _ _ Hst)) as Hnn;
         pose proof (debited_not_input (inputs_of o0) h d (signer_inputs o0 Hs)) as Hd
       end; rewrite Hb, Hd; lia.
Qed.

End WithHolder.
