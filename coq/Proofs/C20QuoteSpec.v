(** C20: OrderFeeCalc as transcribed answers exactly the declarative quote ([quote_ask_spec],
    [quote_bid_spec]: the market's tables and the ceiling charges of the ratios for the price denom). *)
From Coq Require Import ZArith List Bool String Ascii Lia.
From PV Require Import Exchange.Arith Proofs.ArithProofs Exchange.ReqAttr Exchange.FeeCheck Exchange.AdmitSpec
     Proofs.C20Proofs Proofs.C20Defs Proofs.C20Coins Proofs.C20Quotes.
Import ListNotations.
Open Scope Z_scope.

Lemma quote_bid_is_spec m s price :
  market_wf m -> stored_of m s -> 0 <= amt_of price ->
  quote_bid (Some s) price = quote_bid_spec true m price.
Proof.
  intros (_ & _ & _ & _ & _ & _ & W) (Em & _) Hp. unfold quote_bid, quote_bid_spec. rewrite Em.
  cbn [clear_reqs m_create_bid m_buyer_flat m_buyer_ratios].
  rewrite buyer_ratio_options_eq by assumption.
  destruct (m_buyer_ratios m) as [|r0 rs] eqn:E; [reflexivity|]. rewrite <- E.
  destruct (filter _ (m_buyer_ratios m)) as [|r1 l] eqn:F.
  - rewrite E. reflexivity.
  - reflexivity.
Qed.

Lemma quote_ask_is_spec m s price :
  market_wf m -> stored_of m s -> 0 <= amt_of price ->
  quote_ask (Some s) price = quote_ask_spec true m price.
Proof.
  intros (_ & _ & _ & _ & _ & W & _) (Em & _) Hp. unfold quote_ask, quote_ask_spec, seller_ratio. rewrite Em.
  cbn [clear_reqs m_create_ask m_seller_flat m_seller_ratios].
  destruct (get_ratio (m_seller_ratios m) (denom_of price) (denom_of price)) as [r|] eqn:G.
  - rewrite (apply_to_loosely_ceil r (amt_of price) (get_ratio_wf _ _ _ _ W G) Hp). reflexivity.
  - destruct (m_seller_ratios m); reflexivity.
Qed.
