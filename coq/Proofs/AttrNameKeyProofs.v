(** String facts relating the two ways the attribute module identifies a name (property C16):
      - the name module's normal form  [normalize_name] (every segment trimmed and lower-cased),
      - the attribute store's key      [ank] = ToLower(TrimSpace(whole name)).
    (1) a normal form is a fixed point of [ank]            ([ank_normalize_name]);
    (2) [ank] does not change the normal form              ([normalize_name_ank]);
    hence a request spelling whose [ank] equals a stored (normalised) name normalises to exactly
    that name ([ank_hits_normalised]). *)
From Coq Require Import Arith NArith List String Ascii Bool.
From PV Require Import Name.Name Proofs.NameProofs Attribute.Attribute.
Import ListNotations.
Open Scope list_scope.
Open Scope string_scope.

Lemma space_not_dot : forall c, is_space c = true -> is_dot c = false.
Proof. intros c. destruct c as [[] [] [] [] [] [] [] []]; cbn; intros H; try reflexivity; discriminate H. Qed.

Lemma to_lower_app : forall a b, to_lower (a ++ b) = to_lower a ++ to_lower b.
Proof. intros a b. induction a as [|c r IH]; cbn; [reflexivity|rewrite IH; reflexivity]. Qed.

Lemma join_cons2 : forall a b l, join_dots (a :: b :: l) = a ++ String "."%char (join_dots (b :: l)).
Proof. reflexivity. Qed.

Lemma to_lower_join : forall l, to_lower (join_dots l) = join_dots (map to_lower l).
Proof.
  induction l as [|a l IH]; [reflexivity|]. destruct l as [|b l]; [reflexivity|].
  rewrite join_cons2, to_lower_app. cbn [to_lower map]. rewrite IH. reflexivity.
Qed.

Lemma to_lower_seg_norm : forall x, to_lower (seg_norm x) = seg_norm x.
Proof. intros x. unfold seg_norm. apply to_lower_idem. Qed.

(** ** (1) a normal form is trimmed and lower-case as a whole *)
Definition tr_ok (s : string) : Prop := trim_right_by is_space s = s.

Lemma tr_ok_seg_norm : forall x, tr_ok (seg_norm x).
Proof.
  intros x. unfold tr_ok, seg_norm. rewrite trim_right_lower. f_equal.
  unfold trim. apply trim_right_idem.
Qed.

Lemma tr_ok_app : forall a rest, tr_ok rest -> rest <> "" -> tr_ok (a ++ rest).
Proof.
  intros a rest Hr Hne. unfold tr_ok in *. induction a as [|c r IH]; cbn; [exact Hr|].
  rewrite IH. destruct (r ++ rest) eqn:E.
  - destruct r; cbn in E; [congruence|discriminate].
  - cbn. rewrite andb_false_r. reflexivity.
Qed.

Lemma tr_ok_dot : forall r, tr_ok r -> tr_ok (String "."%char r).
Proof. intros r H. unfold tr_ok in *. cbn. rewrite H. reflexivity. Qed.

Lemma tr_ok_join : forall l, l <> [] -> tr_ok (join_dots (map seg_norm l)).
Proof.
  induction l as [|a l IH]; intros Hne; [congruence|]. destruct l as [|b l].
  - cbn. apply tr_ok_seg_norm.
  - cbn [map]. rewrite join_cons2. apply tr_ok_app; [|discriminate].
    apply tr_ok_dot. apply IH. discriminate.
Qed.

Lemma hd_ok_lower : forall t, hd_ok t -> hd_ok (to_lower t).
Proof. intros [|c r] H; cbn in *; [exact I|]. rewrite is_space_lower. exact H. Qed.

Lemma hd_ok_seg_norm : forall x, hd_ok (seg_norm x).
Proof.
  intros x. unfold seg_norm, trim. apply hd_ok_lower. apply hd_ok_trim_right. apply hd_ok_trim_left.
Qed.

Lemma hd_ok_app_dot : forall a rest, hd_ok a -> hd_ok (a ++ String "."%char rest).
Proof. intros [|c r] rest H; cbn in *; [reflexivity|exact H]. Qed.

Lemma hd_ok_join : forall l, hd_ok (join_dots (map seg_norm l)).
Proof.
  intros [|a l]; [exact I|]. destruct l as [|b l].
  - cbn. apply hd_ok_seg_norm.
  - cbn [map]. rewrite join_cons2. apply hd_ok_app_dot. apply hd_ok_seg_norm.
Qed.

Lemma ank_normalize_name : forall s, ank (normalize_name s) = normalize_name s.
Proof.
  intros s. unfold ank, normalize_name.
  change (fun seg : string => to_lower (trim seg)) with seg_norm.
  assert (Ht : trim (join_dots (map seg_norm (split_dots s))) = join_dots (map seg_norm (split_dots s))).
  { unfold trim. rewrite (trim_left_hd_ok _ (hd_ok_join _)). apply tr_ok_join.
    destruct (split_dots_cons s) as [h [t E]]. rewrite E. discriminate. }
  rewrite Ht, to_lower_join, map_map. f_equal. apply map_ext. intros x. apply to_lower_seg_norm.
Qed.

Lemma normalize_is_normalize_name : forall p raw n, normalize p raw = Some n -> n = normalize_name raw.
Proof.
  intros p raw n H. unfold normalize in H.
  destruct (negb (is_valid_name (normalize_name raw))); [discriminate|].
  match type of H with (if ?c then _ else _) = _ => destruct c end; [|discriminate].
  injection H as H. symmetry. exact H.
Qed.

Lemma ank_normalized : forall p raw n, normalize p raw = Some n -> ank n = n.
Proof.
  intros p raw n H. rewrite (normalize_is_normalize_name _ _ _ H). apply ank_normalize_name.
Qed.

(** ** (2) lower-casing and trimming the whole name does not change its normal form *)
Lemma split_dots_lower : forall s, split_dots (to_lower s) = map to_lower (split_dots s).
Proof.
  induction s as [|c r IH]; [reflexivity|]. cbn [to_lower split_dots]. rewrite is_dot_lower, IH.
  destruct (is_dot c); [reflexivity|]. destruct (split_dots r) as [|h t]; reflexivity.
Qed.

Lemma seg_norm_lower : forall x, seg_norm (to_lower x) = seg_norm x.
Proof. intros x. unfold seg_norm. rewrite trim_lower. apply to_lower_idem. Qed.

Lemma normalize_name_lower : forall s, normalize_name (to_lower s) = normalize_name s.
Proof.
  intros s. unfold normalize_name. change (fun seg : string => to_lower (trim seg)) with seg_norm.
  rewrite split_dots_lower, map_map. f_equal. apply map_ext. intros x. apply seg_norm_lower.
Qed.

(* leading white space belongs to the first segment *)
Lemma split_trim_left : forall s h t,
  split_dots s = h :: t -> split_dots (trim_left_by is_space s) = trim_left_by is_space h :: t.
Proof.
  induction s as [|c r IH]; intros h t E.
  - cbn in E. injection E as <- <-. reflexivity.
  - cbn [trim_left_by]. destruct (is_space c) eqn:Sp.
    + cbn [split_dots] in E. rewrite (space_not_dot _ Sp) in E.
      destruct (split_dots_cons r) as [h' [t' E']]. rewrite E' in E. injection E as <- <-.
      cbn [trim_left_by]. rewrite Sp. apply IH. exact E'.
    + rewrite E. f_equal. cbn [split_dots] in E. destruct (is_dot c).
      * injection E as <- _. reflexivity.
      * destruct (split_dots r) as [|h' t']; injection E as <- _; cbn [trim_left_by]; rewrite Sp; reflexivity.
Qed.

Lemma seg_norm_trim_left : forall h, seg_norm (trim_left_by is_space h) = seg_norm h.
Proof.
  intros h. unfold seg_norm, trim. rewrite (trim_left_hd_ok _ (hd_ok_trim_left h)). reflexivity.
Qed.

Lemma normalize_name_trim_left : forall s, normalize_name (trim_left_by is_space s) = normalize_name s.
Proof.
  intros s. unfold normalize_name. change (fun seg : string => to_lower (trim seg)) with seg_norm.
  destruct (split_dots_cons s) as [h [t E]]. rewrite (split_trim_left _ _ _ E), E. cbn [map].
  rewrite seg_norm_trim_left. reflexivity.
Qed.

(* trailing white space belongs to the last segment *)
Fixpoint all_sp (s : string) : bool :=
  match s with EmptyString => true | String c r => is_space c && all_sp r end.

Lemma trim_right_all_sp : forall ws, all_sp ws = true -> trim_right_by is_space ws = "".
Proof.
  induction ws as [|c r IH]; intros H; [reflexivity|]. cbn in H. apply andb_true_iff in H.
  destruct H as [Hc Hr]. cbn. rewrite (IH Hr), Hc. reflexivity.
Qed.

Lemma trim_right_decomp : forall s, exists ws, all_sp ws = true /\ s = trim_right_by is_space s ++ ws.
Proof.
  induction s as [|c r [ws [Hws E]]]; [exists ""; split; reflexivity|]. cbn [trim_right_by].
  destruct (is_space c && is_empty (trim_right_by is_space r)) eqn:B.
  - apply andb_true_iff in B. destruct B as [Hc He].
    destruct (trim_right_by is_space r) eqn:T; [|discriminate]. cbn in E. subst r.
    exists (String c ws). split; [cbn; rewrite Hc, Hws; reflexivity|reflexivity].
  - exists ws. split; [exact Hws|]. cbn. f_equal. exact E.
Qed.

Lemma trim_right_app_sp : forall x ws, all_sp ws = true ->
  trim_right_by is_space (x ++ ws) = trim_right_by is_space x.
Proof.
  intros x ws H. induction x as [|c r IH]; cbn; [apply trim_right_all_sp; exact H|].
  rewrite IH. reflexivity.
Qed.

Lemma trim_left_all_sp : forall ws, all_sp ws = true -> trim_left_by is_space ws = "".
Proof.
  induction ws as [|c r IH]; intros H; [reflexivity|]. cbn in H. apply andb_true_iff in H.
  destruct H as [Hc Hr]. cbn. rewrite Hc. exact (IH Hr).
Qed.

Lemma trim_left_app_sp : forall x ws, all_sp ws = true ->
  exists ws', all_sp ws' = true /\ trim_left_by is_space (x ++ ws) = trim_left_by is_space x ++ ws'.
Proof.
  intros x ws H. induction x as [|c r [ws' [H' E]]].
  - exists "". split; [reflexivity|]. cbn. apply trim_left_all_sp. exact H.
  - cbn. destruct (is_space c).
    + exists ws'. split; [exact H'|exact E].
    + exists ws. split; [exact H|reflexivity].
Qed.

Lemma trim_app_sp : forall x ws, all_sp ws = true -> trim (x ++ ws) = trim x.
Proof.
  intros x ws H. unfold trim. destruct (trim_left_app_sp x ws H) as [ws' [H' E]].
  rewrite E. apply trim_right_app_sp. exact H'.
Qed.

Lemma all_sp_no_dot : forall ws, all_sp ws = true -> has_dot ws = false.
Proof.
  unfold has_dot. induction ws as [|c r IH]; intros H; [reflexivity|]. cbn in H.
  apply andb_true_iff in H. destruct H as [Hc Hr]. cbn. rewrite (space_not_dot _ Hc). exact (IH Hr).
Qed.

Fixpoint app_last (l : list string) (ws : string) : list string :=
  match l with
  | [] => []
  | h :: t => match t with [] => [h ++ ws] | _ => h :: app_last t ws end
  end.

Lemma split_app_sp : forall b ws, all_sp ws = true ->
  split_dots (b ++ ws) = app_last (split_dots b) ws.
Proof.
  intros b ws H. induction b as [|c r IH].
  - cbn. apply split_nodot. apply all_sp_no_dot. exact H.
  - cbn [append split_dots]. rewrite IH. destruct (split_dots_cons r) as [h0 [t0 E]]. rewrite E.
    destruct (is_dot c); [reflexivity|]. destruct t0 as [|x t1]; reflexivity.
Qed.

Lemma map_seg_norm_app_last : forall l ws, all_sp ws = true ->
  map seg_norm (app_last l ws) = map seg_norm l.
Proof.
  intros l ws H. induction l as [|h t IH]; [reflexivity|]. destruct t as [|x t1].
  - cbn. unfold seg_norm. rewrite (trim_app_sp _ _ H). reflexivity.
  - change (app_last (h :: x :: t1) ws) with (h :: app_last (x :: t1) ws). cbn [map]. rewrite IH. reflexivity.
Qed.

Lemma normalize_name_trim_right : forall s, normalize_name (trim_right_by is_space s) = normalize_name s.
Proof.
  intros s. destruct (trim_right_decomp s) as [ws [H E]].
  unfold normalize_name. change (fun seg : string => to_lower (trim seg)) with seg_norm.
  rewrite E at 2. rewrite (split_app_sp _ _ H), (map_seg_norm_app_last _ _ H). reflexivity.
Qed.

Lemma normalize_name_trim : forall s, normalize_name (trim s) = normalize_name s.
Proof. intros s. unfold trim. rewrite normalize_name_trim_right. apply normalize_name_trim_left. Qed.

Lemma normalize_name_ank : forall s, normalize_name (ank s) = normalize_name s.
Proof. intros s. unfold ank. rewrite normalize_name_lower. apply normalize_name_trim. Qed.

(** ** the two together: a spelling whose store key is that of a normalised name normalises to it *)
Lemma ank_hits_normalised : forall p raw n raw' m,
  normalize p raw = Some n -> normalize p raw' = Some m -> ank raw = ank m -> n = m.
Proof.
  intros p raw n raw' m Hn Hm E.
  rewrite (ank_normalized _ _ _ Hm) in E.
  rewrite (normalize_is_normalize_name _ _ _ Hn), <- (normalize_name_ank raw), E.
  symmetry. apply (normalize_is_normalize_name p m).
  apply (normalize_idem _ _ _ Hm).
Qed.

(** two normalised names with the same attribute store key are the same name *)
Lemma ank_inj_normalised : forall p raw1 n1 raw2 n2,
  normalize p raw1 = Some n1 -> normalize p raw2 = Some n2 -> ank n1 = ank n2 -> n1 = n2.
Proof.
  intros p raw1 n1 raw2 n2 H1 H2 E.
  rewrite (ank_normalized _ _ _ H1), (ank_normalized _ _ _ H2) in E. exact E.
Qed.
