(** Lemmas about Metadata/Signers.v, part 4: reflection of the boolean renderings of the
    documented rule into [Prop]; validateRolesPresent and the PROVENANCE check on plain party lists;
    the smart-contract position rule PER ENDPOINT (every endpoint that calls
    validateSmartContractSigners), and the whole executable table [doc_sound] holds on every
    message the model accepts. *)
From Coq Require Import ZArith List Bool Lia Permutation.
From PV Require Import Metadata.Signers Metadata.SignersSpec Proofs.SignersProofs
  Proofs.SignersProofs2 Proofs.SignersProofs3.
Import ListNotations.
Open Scope Z_scope.

(** ** Reflection of the boolean renderings *)
Lemma existsb_ext_in : forall A (f g : A -> bool) l,
  (forall x, In x l -> f x = g x) -> existsb f l = existsb g l.
Proof.
  intros A f g l; induction l as [|x t IH]; intros H; cbn; [reflexivity|].
  rewrite (H x (or_introl eq_refl)), IH; [reflexivity|]. intros y Hy. apply H. now right.
Qed.

Lemma assign_b_ext : forall A (ok ok' : Z -> A -> bool) roles pool,
  (forall r a, ok r a = ok' r a) -> assign_b ok roles pool = assign_b ok' roles pool.
Proof.
  intros A ok ok' roles; induction roles as [|r rest IH]; intros pool H; cbn; [reflexivity|].
  apply existsb_ext_in. intros xr _. now rewrite H, (IH _ H).
Qed.

Lemma assign_keys_spec : forall (okb : Z -> bool) (ok : Z -> Prop),
  (forall a, okb a = true <-> ok a) -> forall avail roles,
  assign_b (fun r k => Z.eqb (snd k) r && okb (fst k)) roles (party_keys avail) = true <->
  role_assignment ok avail roles.
Proof.
  intros okb ok Hok avail roles. unfold role_assignment, party_keys.
  rewrite (assign_b_spec _ _ _ _ (dedup_keys_NoDup _)). split.
  - intros (ks & Hnd & HF). exists ks. split; auto. eapply Forall2_imp; [|exact HF].
    intros k r [Hin Hk]. apply andb_prop in Hk as [Hr Hc].
    split; [now apply dedup_keys_In|]. split; [now apply Z.eqb_eq|now apply Hok].
  - intros (ks & Hnd & HF). exists ks. split; auto. eapply Forall2_imp; [|exact HF].
    intros k r (Hin & Hr & Hc). split; [now apply dedup_keys_In|].
    apply andb_true_intro. split; [now apply Z.eqb_eq|now apply Hok].
Qed.

Lemma roles_direct_b_spec : forall signers avail roles,
  roles_direct_b signers avail roles = true <-> roles_direct signers avail roles.
Proof.
  intros signers avail roles. unfold roles_direct_b, roles_direct.
  apply (assign_keys_spec (fun a => mem a signers) (fun a => In a signers)).
  intros a. apply mem_In.
Qed.

Lemma roles_present_b_spec : forall avail roles,
  roles_present_b avail roles = true <-> roles_present avail roles.
Proof.
  intros avail roles. unfold roles_present_b, roles_present.
  rewrite (assign_b_ext _ _ (fun r k => Z.eqb (snd k) r && (fun _ => true) (fst k))).
  - apply (assign_keys_spec (fun _ => true) (fun _ => True)). intros _. tauto.
  - intros r a. cbn. now rewrite andb_true_r.
Qed.

Lemma required_direct_b_spec : forall signers req,
  required_direct_b signers req = true <-> nonopt_sign signers req.
Proof.
  intros signers req. unfold required_direct_b, nonopt_sign. rewrite forallb_forall. split.
  - intros H p Hp Ho. specialize (H p Hp). rewrite Ho in H. cbn in H. now apply mem_In.
  - intros H p Hp. destruct (p_opt p) eqn:Ho; [reflexivity|]. cbn. apply mem_In. auto.
Qed.

Lemma required_covered_b_spec : forall e signers req,
  required_covered_b e signers req = true <->
  (forall p, In p req -> p_opt p = false -> covered e signers (p_addr p)).
Proof.
  intros e signers req. unfold required_covered_b. rewrite forallb_forall. split.
  - intros H p Hp Ho. specialize (H p Hp). rewrite Ho in H. cbn in H. now apply covered_b_spec.
  - intros H p Hp. destruct (p_opt p) eqn:Ho; [reflexivity|]. cbn. apply covered_b_spec. auto.
Qed.

Lemma provenance_rule_b_spec : forall e ps,
  provenance_rule_b e ps = true <-> provenance_rule e ps.
Proof.
  intros e ps. unfold provenance_rule_b, provenance_rule. rewrite forallb_forall. split.
  - intros H p Hp. specialize (H p Hp). apply eqb_prop in H. rewrite H. apply Z.eqb_eq.
  - intros H p Hp. apply eqb_true_iff. apply eq_true_iff_eq. rewrite (H p Hp). symmetry. apply Z.eqb_eq.
Qed.

Lemma all_sign_b_spec : forall signers l,
  forallb (fun a => mem a signers) l = true <-> all_sign signers l.
Proof.
  intros signers l. unfold all_sign. rewrite forallb_forall. split; intros H a Ha; apply mem_In; auto.
Qed.

Lemma all_covered_b_spec : forall e signers l,
  forallb (covered_b e signers) l = true <-> (forall a, In a l -> covered e signers a).
Proof.
  intros e signers l. rewrite forallb_forall. split; intros H a Ha; apply covered_b_spec; auto.
Qed.

Lemma stands_for_party_b_spec : forall e req avail s,
  stands_for_party_b e req avail s = true <-> stands_for_party e req avail s.
Proof.
  intros e req avail s. unfold stands_for_party_b, stands_for_party. rewrite existsb_exists. split.
  - intros (p & Hp & H). exists p. split; auto. apply orb_prop in H as [H|H]; [left; now apply Z.eqb_eq|now right].
  - intros (p & Hp & [H|H]); exists p; (split; [exact Hp|]); apply orb_true_iff;
      [left; now apply Z.eqb_eq|now right].
Qed.

Lemma is_party_signer_b_spec : forall req avail s,
  is_party_signer_b req avail s = true <-> is_party_signer req avail s.
Proof.
  intros req avail s. unfold is_party_signer_b, is_party_signer. rewrite existsb_exists. split.
  - intros (p & Hp & H). exists p. split; auto. now apply Z.eqb_eq.
  - intros (p & Hp & H). exists p. split; auto. now apply Z.eqb_eq.
Qed.

Lemma contract_rule_b_reflect : forall e (u : Z -> bool) (U : Z -> Prop) signers,
  (forall s, u s = true <-> U s) ->
  (contract_rule_b e u true signers = true <-> contract_rule e U signers).
Proof.
  intros e u U signers HU. rewrite contract_rule_b_spec. unfold contract_rule. split.
  - intros H l1 s l2 Heq Hw. destruct (H _ _ _ Heq Hw) as (_ & Hl1 & Hs). split; auto.
    destruct Hs as [Hs|Hs]; [left; now apply HU|now right].
  - intros H l1 s l2 Heq Hw. destruct (H _ _ _ Heq Hw) as (Hl1 & Hs). split; auto. split; auto.
    destruct Hs as [Hs|Hs]; [left; now apply HU|now right].
Qed.

Lemma contract_rule_false_b : forall e signers,
  validate_smart_contract_signers e [] signers = true <->
  contract_rule e (fun _ => False) signers.
Proof.
  intros e signers. rewrite sc_loop_spec. split; apply contract_rule_mono; intros s _ H; destruct H.
Qed.

Lemma no_wasm_signer_spec : forall e signers,
  no_wasm_signer e signers = true <-> (forall s, In s signers -> is_wasm e s = false).
Proof.
  intros e signers. unfold no_wasm_signer. rewrite forallb_forall.
  split; intros H s Hs; specialize (H s Hs); [now apply negb_true_iff|now apply negb_true_iff].
Qed.

(** ** Parties given as plain address lists (rollup off) *)
Lemma addr_parties_In : forall l p,
  In p (addr_parties l) <->
  exists a, In a l /\ p = {| p_addr := a; p_role := role_unspecified; p_opt := false |}.
Proof.
  intros l p. unfold addr_parties. rewrite in_map_iff. split; intros (a & H1 & H2); exists a; auto.
Qed.

Lemma considered_addr_parties : forall l p,
  In p (considered (addr_parties l) []) <->
  exists a, In a l /\ p = {| p_addr := a; p_role := role_unspecified; p_opt := false |}.
Proof.
  intros l p. unfold considered. cbn [app]. rewrite filter_In, addr_parties_In. split.
  - intros [H _]. exact H.
  - intros (a & Ha & ->). split; [eauto|reflexivity].
Qed.

Lemma stands_for_addr_parties : forall e l s,
  stands_for_party e (addr_parties l) [] s <->
  exists a, In a l /\ (a = s \/ granted e a s = true).
Proof.
  intros e l s. unfold stands_for_party. split.
  - intros (p & Hp & H). apply considered_addr_parties in Hp as (a & Ha & ->). exists a. auto.
  - intros (a & Ha & H). eexists. split; [apply considered_addr_parties; eauto|exact H].
Qed.

Lemma is_party_addr_parties : forall l s, is_party_signer (addr_parties l) [] s <-> In s l.
Proof.
  intros l s. unfold is_party_signer. split.
  - intros (p & Hp & H). apply considered_addr_parties in Hp as (a & Ha & ->). cbn in H. now subst.
  - intros H. eexists. split; [apply considered_addr_parties; eauto|reflexivity].
Qed.

Lemma considered_nil_avail : forall owners p,
  In p (considered owners []) <-> In p owners /\ p_opt p = false.
Proof.
  intros owners p. unfold considered. cbn [app]. rewrite filter_In. now rewrite negb_true_iff.
Qed.

(** ** validateRolesPresent and validateProvenanceRole on a plain party list *)
Lemma usable_other : forall r r' d, usable_as r d = true -> r' <> r -> usable_as r' d = false.
Proof.
  intros r r' d H Hne. apply usable_role in H. unfold usable_as.
  destruct (Z.eqb_spec (d_role d) r'); [congruence|]. now rewrite andb_false_r.
Qed.

Lemma roles_present_loop_counts : forall roles ds,
  roles_present_loop ds roles = true <->
  (forall r, (count_occ Z.eq_dec roles r <= cnt (usable_as r) ds)%nat).
Proof.
  induction roles as [|r0 rest IH]; intros ds; cbn [roles_present_loop].
  - split; [intros _ r; cbn; lia|reflexivity].
  - destruct (take_first (usable_as r0) mark_used ds) as [ds1|] eqn:HT.
    + rewrite IH.
      assert (HS : forall r, (cnt (usable_as r) ds1 + (if Z.eq_dec r0 r then 1 else 0)
                              = cnt (usable_as r) ds)%nat).
      { intros r. destruct (take_first_cnt _ _ _ _ (usable_as r) HT) as (d & _ & HP & Hc).
        rewrite usable_mark_used in Hc. destruct (Z.eq_dec r0 r) as [<-|Hne].
        - rewrite HP in Hc. lia.
        - rewrite (usable_other _ _ _ HP (not_eq_sym Hne)) in Hc. lia. }
      split; intros Hall r; specialize (Hall r); specialize (HS r); cbn [count_occ] in *;
        destruct (Z.eq_dec r0 r); lia.
    + split; [discriminate|]. intros Hall. exfalso.
      assert (H0 : cnt (usable_as r0) ds = 0%nat).
      { apply cnt_zero. exact (proj1 (take_first_none _ _ _) HT). }
      specialize (Hall r0). cbn [count_occ] in Hall. destruct (Z.eq_dec r0 r0); [lia|congruence].
Qed.

Lemma usable_excl : forall r r' d, usable_as r d = true -> usable_as r' d = true -> r = r'.
Proof. intros r r' d H H'. apply usable_role in H, H'. congruence. Qed.

Lemma PQof_nil : forall k, PQof [] k <-> False.
Proof. intros k. unfold PQof, nonopt. cbn. tauto. Qed.

Lemma validate_roles_present_spec : forall ps roles,
  validate_roles_present ps roles = true <-> roles_present ps roles.
Proof.
  intros ps roles. unfold validate_roles_present. rewrite roles_present_loop_counts.
  destruct (build_inv [] ps) as (Hnd & Hall & Hk).
  set (ds := build_party_details [] ps) in *.
  assert (Huse : forall d r, In d ds ->
            (usable_as r d = true <-> (In (key d) (map pkey ps) /\ d_role d = r))).
  { intros d r Hd. destruct (Hall d Hd) as (Hu & _ & Hcan & _). unfold usable_as. rewrite Hu. cbn.
    rewrite andb_true_r, andb_true_iff, Z.eqb_eq. unfold PAof in Hcan. now rewrite Hcan. }
  unfold roles_present, role_assignment. split.
  - intros Hc.
    destruct (assignment_of_counts usable_as usable_excl roles ds) as (xs & Hxs & HF); auto.
    { eapply NoDup_map_inv; exact Hnd. }
    assert (Hin : forall z, In z xs -> In z ds).
    { clear - HF. induction HF as [|a r l l' [Ha _] _ IH]; intros z []; subst; auto. }
    exists (map key xs). split.
    + apply NoDup_map_on; auto. intros x y Hx Hy. apply (NoDup_map_inj _ _ key ds); auto.
    + apply Forall2_map_l. eapply Forall2_imp; [|exact HF]. intros d r [Hd HU].
      apply (Huse d r Hd) in HU as [H1 H2]. split; [exact H1|]. split; [exact H2|exact I].
  - intros (ks & Hks & HF).
    assert (Hex : exists xs, map key xs = ks /\
                   Forall2 (fun a r => In a ds /\ usable_as r a = true) xs roles).
    { clear Hks. induction HF as [|k r ks' rs (Hin & Hr & _) _ IH].
      - exists []. split; constructor.
      - destruct IH as (xs & Hm & HF').
        assert (Hkin : In k (map key ds)) by (apply Hk; now left).
        apply in_map_iff in Hkin as (d & Hkd & Hd).
        exists (d :: xs). split; [cbn; congruence|]. constructor; auto. split; auto.
        apply (Huse d r Hd). rewrite Hkd. split; auto. rewrite <- Hr, <- Hkd. reflexivity. }
    destruct Hex as (xs & Hm & HF').
    eapply (counts_of_assignment usable_as); [|exact HF'].
    eapply NoDup_map_inv. rewrite Hm. exact Hks.
Qed.

Lemma prov_role_ok_spec : forall e ps, prov_role_ok e ps = true <-> provenance_rule e ps.
Proof.
  intros e ps. unfold prov_role_ok.
  apply (provenance_role_spec e [] [] ps).
  destruct (build_inv [] ps) as (Hnd & Hall & Hk). split; [|split; [|split]].
  - intros d Hd. now destruct (Hall d Hd) as (_ & _ & Hcan & _).
  - exact Hk.
  - intros d s Hd Hs. destruct (Hall d Hd) as (_ & Hn & _). congruence.
  - intros k _ [].
Qed.

Lemma parties_are_present_spec : forall ps owners,
  validate_parties_are_present ps owners = true <-> parties_among ps owners.
Proof.
  intros ps owners. unfold validate_parties_are_present, parties_among.
  rewrite forallb_forall. split.
  - intros H p Hp. specialize (H p Hp). apply existsb_exists in H as (o & Ho & Hs).
    apply in_map_iff. exists o. split; auto. unfold same_party in Hs.
    apply andb_prop in Hs as [H1 H2]. apply Z.eqb_eq in H1, H2. unfold pkey. congruence.
  - intros H p Hp. specialize (H p Hp). apply in_map_iff in H as (o & Hk & Ho).
    apply existsb_exists. exists o. split; auto. unfold same_party, pkey in *.
    injection Hk as H1 H2. rewrite H1, H2, !Z.eqb_refl. reflexivity.
Qed.

Lemma parties_among_b_spec : forall ps owners,
  forallb (fun p => existsb (fun o => key_eqb (pkey p) (pkey o)) owners) ps = true <->
  parties_among ps owners.
Proof. intros. exact (parties_are_present_spec ps owners). Qed.

(** ** The smart-contract position rule after validateAllRequiredPartiesSigned /
    validateAllRequiredSigned *)
Lemma parties_signed_contract_sound : forall e req avail roles signers ds,
  validate_all_required_parties_signed e req avail roles signers = Some ds ->
  validate_smart_contract_signers e (used_signers ds) signers = true ->
  contract_rule e (stands_for_party e req avail) signers.
Proof.
  intros e req avail roles signers ds HV Hc.
  pose proof (all_required_parties_signed_final _ _ _ _ _ _ HV) as HF.
  apply sc_loop_spec in Hc. eapply contract_rule_mono; [|exact Hc].
  intros s _ Hs. apply used_signers_In in Hs as (d & Hd & Hsd).
  destruct HF as (_ & Hk & Hsg & _).
  destruct (Hsg d s Hd Hsd) as [_ Hor].
  assert (Hkin : In (key d) (map pkey (considered req avail))).
  { apply considered_keys. apply Hk. now apply in_map. }
  apply in_map_iff in Hkin as (p & Hkp & Hpin).
  exists p. split; auto.
  assert (Hpa : p_addr p = d_addr d) by (unfold key, pkey in Hkp; congruence).
  rewrite Hpa. destruct Hor as [->|Hg]; auto.
Qed.

Lemma parties_signed_contract_complete : forall e req avail roles signers ds,
  validate_all_required_parties_signed e req avail roles signers = Some ds ->
  contract_rule e (is_party_signer req avail) signers ->
  validate_smart_contract_signers e (used_signers ds) signers = true.
Proof.
  intros e req avail roles signers ds HV H4.
  pose proof (all_required_parties_signed_final _ _ _ _ _ _ HV) as HF.
  apply sc_loop_spec. eapply contract_rule_mono; [|exact H4].
  intros s Hs (p & Hp & Ha). apply used_signers_In.
  destruct HF as (_ & _ & _ & Hdir).
  destruct (Hdir (pkey p)) as (d & Hd & Hsd).
  - apply considered_keys. now apply in_map.
  - cbn. now rewrite Ha.
  - exists d. split; auto. cbn in Hsd. now rewrite Ha in Hsd.
Qed.

Lemma parties_signed_provenance : forall e req avail roles signers ds,
  validate_all_required_parties_signed e req avail roles signers = Some ds ->
  (validate_provenance_role e ds = true <-> provenance_rule e avail).
Proof.
  intros e req avail roles signers ds HV.
  eapply provenance_role_spec. eapply all_required_parties_signed_final; exact HV.
Qed.

(** [match V with None => false | Some ds => sc (used ds) end]: the callers that skip the
    PROVENANCE check on the existing parties. *)
Definition signed_then_contracts (e : env) (req avail : list party) (roles signers : list Z) : bool :=
  match validate_all_required_parties_signed e req avail roles signers with
  | None => false
  | Some ds => validate_smart_contract_signers e (used_signers ds) signers
  end.

Lemma signed_then_contracts_sound : forall e req avail roles signers,
  signed_then_contracts e req avail roles signers = true ->
  (forall p, In p req -> p_opt p = false -> covered e signers (p_addr p)) /\
  role_assignment (covered e signers) avail roles /\
  contract_rule e (stands_for_party e req avail) signers.
Proof.
  intros e req avail roles signers H. unfold signed_then_contracts in H.
  destruct (validate_all_required_parties_signed e req avail roles signers) as [ds|] eqn:HV;
    [|discriminate].
  destruct (parties_signed_sound _ _ _ _ _ _ HV) as [H1 H2]. split; auto. split; auto.
  eapply parties_signed_contract_sound; eauto.
Qed.

Lemma signed_then_contracts_complete : forall e req avail roles signers,
  (forall p, In p req -> p_opt p = false -> covered e signers (p_addr p)) ->
  role_assignment (covered e signers) avail roles ->
  contract_rule e (is_party_signer req avail) signers ->
  signed_then_contracts e req avail roles signers = true.
Proof.
  intros e req avail roles signers H1 H2 H4. unfold signed_then_contracts.
  destruct (proj2 (all_required_parties_signed_spec e req avail roles signers) (conj H1 H2))
    as (ds & HV).
  rewrite HV. eapply parties_signed_contract_complete; eauto.
Qed.

Lemma without_contract_sound : forall e required l signers,
  (forall a, In a required -> In a l) ->
  validate_signers_without_parties e required signers = true ->
  contract_rule e (stands_for_party e (addr_parties l) []) signers.
Proof.
  intros e required l signers Hincl H. destruct (without_parties_sound _ _ _ H) as [_ Hc].
  eapply contract_rule_mono; [|exact Hc]. intros s _ (a & Ha & Hor).
  apply stands_for_addr_parties. exists a. auto.
Qed.

Lemma without_contract_sound_nonopt : forall e owners signers,
  validate_signers_without_parties e (required_party_addrs owners) signers = true ->
  contract_rule e (stands_for_party e owners []) signers.
Proof.
  intros e owners signers H. destruct (without_parties_sound _ _ _ H) as [_ Hc].
  eapply contract_rule_mono; [|exact Hc]. intros s _ (a & Ha & Hor).
  apply required_party_addrs_In, nonopt_addrs_In in Ha as (p & Hp & Ho & <-).
  exists p. split; [now apply considered_nil_avail|exact Hor].
Qed.

Lemma party_addrs_incl_all : forall ps a, In a (party_addrs ps) -> In a (all_addrs ps).
Proof. intros ps a H. now apply party_addrs_In. Qed.

(** ** MsgWriteScope with the value-owner fields: who the used signers stand for *)
Lemma used_parties_stand : forall e req avail roles signers ds s,
  validate_all_required_parties_signed e req avail roles signers = Some ds ->
  In s (used_signers ds) -> stands_for_party e req avail s.
Proof.
  intros e req avail roles signers ds s HV Hs.
  pose proof (all_required_parties_signed_final _ _ _ _ _ _ HV) as HF.
  apply used_signers_In in Hs as (d & Hd & Hsd).
  destruct HF as (_ & Hk & Hsg & _).
  destruct (Hsg d s Hd Hsd) as [_ Hor].
  assert (Hkin : In (key d) (map pkey (considered req avail))).
  { apply considered_keys. apply Hk. now apply in_map. }
  apply in_map_iff in Hkin as (p & Hkp & Hpin).
  exists p. split; auto.
  assert (Hpa : p_addr p = d_addr d) by (unfold key, pkey in Hkp; congruence).
  rewrite Hpa. destruct Hor as [->|Hg]; auto.
Qed.

Lemma stands_for_with_vo : forall e vr req avail s,
  stands_for_party e req avail s \/ (exists a, In a vr /\ (a = s \/ granted e a s = true)) ->
  stands_for_party e (addr_parties vr ++ req) avail s.
Proof.
  intros e vr req avail s [(p & Hp & Hor)|(a & Ha & Hor)].
  - exists p. split; auto. unfold considered in *. rewrite filter_app.
    apply in_app_or in Hp as [Hp|Hp]; apply in_or_app; [now left|right]. apply in_or_app. now right.
  - exists {| p_addr := a; p_role := role_unspecified; p_opt := false |}. split; [|exact Hor].
    unfold considered. rewrite filter_app. apply in_or_app. right. apply in_or_app. left.
    apply filter_In. split; [|reflexivity]. apply addr_parties_In. eauto.
Qed.

Lemma write_scope_full_contract_rule : forall e ex pr roles signers,
  outer_accept e (OWriteScopeFull ex pr roles) signers = true ->
  contract_rule e (doc_used (stands_for_party e) (OWriteScopeFull ex pr roles)) signers.
Proof.
  intros e ex pr roles signers H. rewrite write_scope_full_accept in H.
  destruct (wsf_inv _ _ _ _ _ H) as (u1 & u2 & HV & Hsc & Hor).
  destruct (vo_check_sound _ _ _ _ _ HV) as [_ Hu2].
  apply sc_loop_spec in Hsc. eapply contract_rule_mono; [|exact Hsc].
  intros s _ Hs. unfold doc_used. cbn [doc_parties].
  apply in_app_or in Hs.
  destruct Hor as [[Hov ->]|(Hov & _ & _ & Hor)]; rewrite Hov.
  - destruct Hs as [Hs|[]]. apply stands_for_addr_parties. exact (Hu2 s Hs).
  - destruct Hor as [(Hru & ds & HVP & ->)|[(Hru & Hn & ->)|(Hru & Hn & ds & HVS & ->)]]; rewrite Hru.
    + apply stands_for_with_vo. destruct Hs as [Hs|Hs]; [right; exact (Hu2 s Hs)|left].
      eapply used_parties_stand; eauto.
    + rewrite Hn. destruct Hs as [Hs|[]]. apply stands_for_addr_parties. exact (Hu2 s Hs).
    + rewrite Hn. apply stands_for_addr_parties. destruct Hs as [Hs|Hs].
      * destruct (Hu2 s Hs) as (a & Ha & Hor). exists a. split; auto. apply in_or_app. now left.
      * destruct (without_details _ _ _ _ HVS) as (_ & H2 & _).
        destruct (H2 s Hs) as (_ & a & Ha & Hor). exists a. split; auto.
        apply in_or_app. right. now apply party_addrs_incl_all.
Qed.

(** ** The position rule per endpoint *)
Theorem outer_contract_rule : forall e op signers,
  outer_accept e op signers = true -> enforces_contract_rule op = true ->
  contract_rule e (doc_used (stands_for_party e) op) signers.
Proof.
  intros e op signers H Henf. unfold doc_used. destruct op as
    [proposed rollup roles
    |ex_rollup existing prop_rollup proposed other roles
    |rollup owners roles
    |rollup existing proposed roles
    |rollup owners existing proposed roles
    |rollup owners session old roles
    |rollup owners roles
    |rollup owners roles
    |vos proposed
    |ex pr roles]; try (now apply write_scope_full_contract_rule);
    cbn [outer_accept doc_parties] in *.
  - apply andb_prop in H as [_ H]. now apply contract_rule_false_b.
  - apply andb_prop in H as [_ H]. destruct ex_rollup; cbn [negb] in H.
    + change (signed_then_contracts e existing existing roles signers = true) in H.
      now destruct (signed_then_contracts_sound _ _ _ _ _ H) as (_ & _ & Hc).
    + destruct (equal_parties existing proposed && eqb false prop_rollup && negb other).
      * now apply contract_rule_false_b.
      * change (validate_signers_without_parties e (party_addrs existing) signers = true) in H.
        eapply without_contract_sound; [|exact H]. apply party_addrs_incl_all.
  - destruct rollup; cbn [negb] in H.
    + destruct roles as [rs|].
      * change (signed_then_contracts e owners owners rs signers = true) in H.
        now destruct (signed_then_contracts_sound _ _ _ _ _ H) as (_ & _ & Hc).
      * now apply without_contract_sound_nonopt.
    + eapply without_contract_sound; [|exact H]. apply party_addrs_incl_all.
  - apply andb_prop in H as [_ H]. destruct rollup; cbn [negb] in H.
    + change (signed_then_contracts e existing existing roles signers = true) in H.
      now destruct (signed_then_contracts_sound _ _ _ _ _ H) as (_ & _ & Hc).
    + eapply without_contract_sound; [|exact H]. apply party_addrs_incl_all.
  - apply andb_prop in H as [_ H]. destruct rollup; cbn [negb] in H.
    + apply andb_prop in H as [_ H]. destruct existing as [ex|].
      * apply andb_prop in H as [_ H]. now destruct (with_parties_sound _ _ _ _ _ H) as (_ & _ & _ & Hc).
      * now destruct (with_parties_sound _ _ _ _ _ H) as (_ & _ & _ & Hc).
    + apply andb_prop in H as [_ H]. eapply without_contract_sound; [|exact H].
      apply party_addrs_incl_all.
  - destruct rollup; cbn [negb] in H.
    + now destruct (with_parties_sound _ _ _ _ _ H) as (_ & _ & _ & Hc).
    + apply andb_prop in H as [_ H]. eapply without_contract_sound; [|exact H].
      intros a Ha. apply in_app_or in Ha as [Ha|Ha]; apply in_or_app.
      * left. now apply party_addrs_incl_all.
      * right. destruct old as [o|]; [now apply party_addrs_incl_all|destruct Ha].
  - destruct rollup; cbn [negb] in H.
    + destruct roles as [rs|].
      * now destruct (with_parties_sound _ _ _ _ _ H) as (_ & _ & _ & Hc).
      * now apply without_contract_sound_nonopt.
    + eapply without_contract_sound; [|exact H]. apply party_addrs_incl_all.
  - destruct rollup; cbn [negb] in H.
    + destruct roles as [rs|]; [|discriminate].
      now destruct (with_parties_sound _ _ _ _ _ H) as (_ & _ & _ & Hc).
    + eapply without_contract_sound; [|exact H]. apply party_addrs_incl_all.
  - discriminate.
Qed.

(** MsgUpdateValueOwners does not enforce the position rule: a smart contract after an ordinary
    signer is accepted (witness: value owner 3 signs, contract 6 follows). *)
Lemma update_value_owners_no_position_rule :
  exists e vos proposed signers,
    outer_accept e (OUpdateValueOwners vos proposed) signers = true /\
    ~ contract_rule e (fun _ => True) signers.
Proof.
  exists {| e_wasm := [6]; e_grants := [] |}, [Some 3], 2, [3; 6].
  split; [vm_compute; reflexivity|].
  intros H. destruct (H [3] 6 [] eq_refl eq_refl) as (Hl1 & _).
  specialize (Hl1 3 (or_introl eq_refl)). vm_compute in Hl1. discriminate.
Qed.

(** ... and a smart contract that is not the value owner changes the value owner alone when the
    value owner has granted to it (spec/01_concepts.md: "A smart contract cannot be used to change
    the value owner of a scope unless the smart contract is the value owner itself"). *)
Lemma update_value_owners_contract_literal_refuted :
  exists e vos proposed signers c,
    outer_accept e (OUpdateValueOwners vos proposed) signers = true /\
    signers = [c] /\ is_wasm e c = true /\ ~ In (Some c) vos.
Proof.
  exists {| e_wasm := [6]; e_grants := [(3, 6)] |}, [Some 3], 2, [6], 6.
  split; [vm_compute; reflexivity|]. split; [reflexivity|]. split; [reflexivity|].
  intros [H|[]]. discriminate.
Qed.

(** Strongest true statement: when the first signer is a smart contract, every current value
    owner is that contract itself or has granted the message type to it. *)
Lemma update_value_owners_contract_first : forall e vos proposed c rest,
  outer_accept e (OUpdateValueOwners vos proposed) (c :: rest) = true ->
  is_wasm e c = true ->
  forall a, In (Some a) vos -> a = c \/ granted e a c = true.
Proof.
  intros e vos proposed c rest H Hw a Ha.
  destruct (update_value_owners_sound _ _ _ _ H) as [_ Hall].
  destruct (Hall _ Ha) as (a' & Heq & _ & Hc). injection Heq as <-.
  cbn [vo_signers] in Hc. rewrite Hw in Hc.
  destruct Hc as [[<-|[]]|(g & [<-|[]] & Hg)]; auto.
Qed.

(** Direct signatures of ALL current value owners are not enough when the first signer is (taken
    for) a smart contract: it silences the others.  keeper.isWasmAccount takes every BaseAccount
    with sequence 0 and no public key for a smart contract, e.g. an account that has only ever
    RECEIVED a scope coin; here value owner 2 is such an account: signers [2; 3] are refused,
    [3; 2] are accepted. *)
Lemma update_value_owners_first_signer_silences :
  exists e vos proposed,
    outer_accept e (OUpdateValueOwners vos proposed) [2; 3] = false /\
    outer_accept e (OUpdateValueOwners vos proposed) [3; 2] = true /\
    (forall o, In o vos -> exists a, o = Some a /\ a <> proposed /\ In a [2; 3]).
Proof.
  exists {| e_wasm := [2; 5; 6]; e_grants := [] |}, [Some 2; Some 3], 7.
  split; [vm_compute; reflexivity|]. split; [vm_compute; reflexivity|].
  intros o [<-|[<-|[]]]; eexists; (split; [reflexivity|]); (split; [discriminate|]); cbn; auto.
Qed.
