(** Proofs about Genesis/ProcessHistory.v (property C18, what the shadow-node comparison decides). *)
From Coq Require Import NArith List Bool.
From PV Require Import Genesis.ProcessHistory.
Import ListNotations.

Section Node.
  Variables S C B T O : Type.
  Variable exec : S -> C -> B -> S * C * O.
  Variable side : S -> C -> T -> C.
  Variable fresh : C.

  (** If blocks are executed obliviously of the process memory, then the primary node - whatever
      side traffic it sees, on whatever states - and the shadow node - restarted wherever - produce
      the same results for every block and end in the same committed state. *)
  Theorem oblivious_primary_eq_shadow :
    oblivious S C B O exec ->
    forall (sched : list (traffic S T * B)) (restarts : list bool) s c1 c2,
      length restarts = length sched ->
      primary S C B T O exec side s c1 sched =
      shadow S C B O exec fresh s c2 (combine restarts (map snd sched)).
  Proof.
    intros Hob sched. induction sched as [|[tr b] r IH]; intros restarts s c1 c2 Hl.
    - destruct restarts; [reflexivity|discriminate].
    - destruct restarts as [|rs restarts]; [discriminate|].
      cbn [primary map combine shadow snd].
      destruct (Hob s (run_side S C T side tr c1) (if rs then fresh else c2) b) as [H1 H2].
      destruct (exec s (run_side S C T side tr c1) b) as [[s1 c1'] o1].
      destruct (exec s (if rs then fresh else c2) b) as [[s2 c2'] o2].
      cbn [fst snd] in H1, H2. subst s2 o2.
      rewrite (IH restarts s1 c1' c2'); [reflexivity|].
      cbn [length] in Hl. injection Hl. auto.
  Qed.
End Node.

(** the faithful shape is oblivious ... *)
Lemma plain_oblivious : oblivious N unit rblock bool plain_exec.
Proof. intros s [] [] b. split; reflexivity. Qed.

(** ... the cached shape is not: one item of side traffic on the mempool state (parameter still 0)
    after the block that set the parameter to 1 makes the primary node reject the marker that
    the shadow node - and any restarted node - accepts.  Same blocks, different results. *)
Theorem regex_cache_depends_on_process_history :
  exists (sched : list (traffic N unit * rblock)) (restarts : list bool),
    length restarts = length sched /\
    fst (primary N (option N) rblock unit bool regex_exec regex_side 0%N None sched) <>
    fst (shadow N (option N) rblock bool regex_exec None 0%N None (combine restarts (map snd sched))).
Proof.
  exists [([], RSetParam 1%N); ([(0%N, tt)], RAddMarker 1%N)], [false; false].
  split; [reflexivity|]. vm_compute. discriminate.
Qed.

Lemma regex_not_oblivious : ~ oblivious N (option N) rblock bool regex_exec.
Proof.
  intro H. destruct (H 1%N (Some 0%N) None (RAddMarker 1%N)) as [_ H2]. vm_compute in H2. discriminate.
Qed.
