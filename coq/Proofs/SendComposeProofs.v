(** Proofs about [PV.Marker.SendCompose]: the composed application restriction (marker, sanction,
    quarantine), the independence of the marker verdict, and what the quarantine pay-out is subject to. *)
From Coq Require Import ZArith PArith List Bool Ascii String.
From PV Require Import Marker.SendRestr Marker.SendRestrSpec Marker.SendCompose Proofs.SendRestrProofs
  Base.WiringTypes Base.WiringDoc.
Import ListNotations.

(** ** The wiring-driven definition is the written-out sequence marker, sanction, quarantine *)
Lemma reviewed_order :
  send_restriction_order reviewed_wiring = ["x/marker/keeper"; "x/sanction/keeper"; "x/quarantine/keeper"]%string.
Proof. vm_compute. reflexivity. Qed.

Lemma app_restriction_unfold ac from to amt :
  app_restriction ac from to amt = app_restriction_seq ac from to amt.
Proof.
  unfold app_restriction. rewrite reviewed_order.
  cbn [map compose]. unfold restriction_of_pkg.
  change (String.eqb "x/marker/keeper" "x/marker/keeper") with true.
  change (String.eqb "x/sanction/keeper" "x/marker/keeper") with false.
  change (String.eqb "x/sanction/keeper" "x/sanction/keeper") with true.
  change (String.eqb "x/quarantine/keeper" "x/marker/keeper") with false.
  change (String.eqb "x/quarantine/keeper" "x/sanction/keeper") with false.
  change (String.eqb "x/quarantine/keeper" "x/quarantine/keeper") with true.
  cbv iota. unfold app_restriction_seq.
  destruct (send_restriction (ac_marker ac) from to amt) as [to1|]; [|reflexivity].
  destruct (sanction_restriction (ac_sanction ac) from to1 amt) as [to2|]; [|reflexivity].
  destruct (quarantine_restriction (ac_quar ac) from to2 amt); reflexivity.
Qed.

(** ** Composition *)
Lemma quarantine_restriction_dest qc from to amt :
  quarantine_restriction qc from to amt = Some (q_dest qc from to).
Proof.
  unfold quarantine_restriction, q_dest, q_redirects.
  destruct (qc_bypass qc); cbn [negb andb]; [reflexivity|].
  destruct (addr_eqb from to); cbn [negb andb orb]; [reflexivity|].
  destruct (addr_eqb from (qc_holder qc)); cbn [negb andb]; [reflexivity|].
  destruct (is_quarantined qc to); cbn [negb andb orb]; [|reflexivity].
  destruct (is_auto_accept qc to from); reflexivity.
Qed.

Lemma sanction_restriction_eq sc from to amt :
  sanction_restriction sc from to amt = if sanction_passes sc from then Some to else None.
Proof.
  unfold sanction_restriction, sanction_passes.
  destruct (sc_bypass sc), (is_sanctioned sc from); reflexivity.
Qed.

Lemma app_restriction_seq_eq ac from to amt :
  app_restriction_seq ac from to amt =
  if allowed (ac_marker ac) from to amt && sanction_passes (ac_sanction ac) from
  then Some (q_dest (ac_quar ac) from to) else None.
Proof.
  unfold app_restriction_seq, allowed.
  destruct (send_restriction (ac_marker ac) from to amt) as [to1|] eqn:Em; [|reflexivity].
  apply send_restriction_same_to in Em. subst to1.
  rewrite sanction_restriction_eq.
  destruct (sanction_passes (ac_sanction ac) from); cbn [andb]; [|reflexivity].
  apply quarantine_restriction_dest.
Qed.

Lemma composition ac from to amt dest :
  app_restriction ac from to amt = Some dest <->
  allowed (ac_marker ac) from to amt = true /\
  (sc_bypass (ac_sanction ac) = true \/ is_sanctioned (ac_sanction ac) from = false) /\
  dest = (if q_redirects (ac_quar ac) from to then qc_holder (ac_quar ac) else to).
Proof.
  rewrite app_restriction_unfold, app_restriction_seq_eq. fold (q_dest (ac_quar ac) from to).
  unfold sanction_passes.
  destruct (allowed (ac_marker ac) from to amt); cbn [andb].
  - destruct (sc_bypass (ac_sanction ac)); cbn [orb].
    + split.
      * intros H. injection H as <-. repeat split. left; reflexivity.
      * intros (_ & _ & ->). reflexivity.
    + destruct (is_sanctioned (ac_sanction ac) from); cbn [negb].
      * split; [discriminate|]. intros (_ & [H|H] & _); discriminate.
      * split.
        -- intros H. injection H as <-. repeat split. right; reflexivity.
        -- intros (_ & _ & ->). reflexivity.
  - split; [discriminate|]. intros (H & _); discriminate.
Qed.

(** The marker verdict does not depend on the two other restrictions: a marker denial is final
    whatever the sanction and quarantine state and flags ... *)
Lemma marker_denial_final mc from to amt :
  allowed mc from to amt = false ->
  forall sc qc, app_restriction {| ac_marker := mc; ac_sanction := sc; ac_quar := qc |} from to amt = None.
Proof.
  intros H sc qc. rewrite app_restriction_unfold, app_restriction_seq_eq. cbn [ac_marker].
  rewrite H. reflexivity.
Qed.

(** ... and whenever the application lets a movement through, the marker rules permitted it for the
    ORIGINAL receiver (not for the quarantine holder the funds may be redirected to). *)
Lemma app_permission_needs_marker ac from to amt dest :
  app_restriction ac from to amt = Some dest -> allowed (ac_marker ac) from to amt = true.
Proof. intros H. apply composition in H. tauto. Qed.

(** Two applications with the same marker configuration differ only by sanction and redirection. *)
Lemma app_verdict_factor mc sc qc from to amt :
  match app_restriction {| ac_marker := mc; ac_sanction := sc; ac_quar := qc |} from to amt with
  | Some _ => true | None => false end =
  allowed mc from to amt && sanction_passes sc from.
Proof.
  rewrite app_restriction_unfold, app_restriction_seq_eq. cbn [ac_marker ac_sanction].
  destruct (allowed mc from to amt && sanction_passes sc from); reflexivity.
Qed.

(** ** The quarantine pay-out (AcceptQuarantinedFunds: SendCoins(quarantine.WithBypass(ctx), holder, to, coins)) *)
(** What one denom of a pay-out is subject to when the holder is a required-attribute bypass address
    that holds no marker access itself: everything validateSendDenom checks EXCEPT that, for a marker
    without required attributes, the sender's missing transfer permission is forgiven. *)
Definition payout_denom_ok (c : config) (holder to : addr) (d : denom) : bool :=
  match get_marker_ign c (AMarker d) with
  | None => true
  | Some m =>
      is_active (m_status m) &&
      (negb (is_restricted (m_type m)) ||
       (negb (addr_eqb to (cfg_fee_collector c)) &&
        negb (is_send_deny c (AMarker d) holder) &&
        (has_access m holder AcTransfer ||
         (match get_marker_ign c to with Some _ => false | None => true end &&
          match m_req_attrs m with
          | [] => true                                    (* the documented exception *)
          | req => is_req_attr_bypass c to ||
                   forallb (fun r => existsb (match_attribute r) (attributes_of c to)) req
          end))))
  end.

Lemma vsd_from_bypass_holder c holder to d :
  cfg_agents c = [] -> is_req_attr_bypass c holder = true ->
  validate_send_denom c holder to [] d (get_marker_ign c to) = payout_denom_ok c holder to d.
Proof.
  intros _ Hb. unfold validate_send_denom, payout_denom_ok.
  destruct (get_marker_ign c (AMarker d)) as [m|]; [|reflexivity].
  destruct (is_active (m_status m)); cbn [negb andb]; [|reflexivity].
  destruct (is_restricted (m_type m)); cbn [negb orb]; [|reflexivity].
  destruct (addr_eqb to (cfg_fee_collector c)); cbn [negb andb]; [reflexivity|].
  cbn [length Nat.eqb negb andb].
  destruct (is_send_deny c (AMarker d) holder); cbn [negb andb]; [reflexivity|].
  destruct (has_access m holder AcTransfer); cbn [orb]; [reflexivity|].
  destruct (get_marker_ign c to); cbn [andb]; [reflexivity|].
  destruct (m_req_attrs m) as [|r0 rs] eqn:Er.
  - rewrite Hb. reflexivity.
  - destruct (is_req_attr_bypass c to); cbn [orb]; [reflexivity|].
    rewrite find_missing_eq. reflexivity.
Qed.

Lemma payout_exact ac to amt :
  let mc := ac_marker ac in
  let holder := qc_holder (ac_quar ac) in
  cfg_ctx_bypass mc = false -> holder <> cfg_marker_module mc -> holder <> cfg_ibc_module mc ->
  cfg_agents mc = [] ->
  get_marker_ign mc holder = None ->                 (* the holder is not a marker account *)
  is_req_attr_bypass mc holder = true ->             (* wiring: marker_req_attr_bypass_addrs.elems *)
  qc_bypass (ac_quar ac) = true ->
  sc_bypass (ac_sanction ac) = true \/ is_sanctioned (ac_sanction ac) holder = false ->
  app_restriction ac holder to amt =
  if receiver_marker_block mc holder [] (get_marker_ign mc to) &&
     forallb (fun p => payout_denom_ok mc holder to (fst p)) amt
  then Some to else None.
Proof.
  intros mc holder Hb Hm Hi Hag Hnm Hbp Hq Hs.
  rewrite app_restriction_unfold, app_restriction_seq_eq. fold mc.
  assert (Hsp : sanction_passes (ac_sanction ac) holder = true).
  { unfold sanction_passes. fold holder in Hs. destruct Hs as [-> | ->]; [reflexivity | apply orb_true_r]. }
  fold holder. rewrite Hsp, andb_true_r.
  assert (Hd : q_dest (ac_quar ac) holder to = to).
  { unfold q_dest, q_redirects. rewrite Hq. reflexivity. }
  rewrite Hd.
  rewrite (allowed_decomposition mc holder to amt)
    by (apply not_bypassed_cond; repeat split; assumption).
  rewrite Hag. unfold sender_marker_block. rewrite Hnm. cbn [andb].
  replace (forallb (fun p => validate_send_denom mc holder to [] (fst p) (get_marker_ign mc to)) amt)
    with (forallb (fun p => payout_denom_ok mc holder to (fst p)) amt).
  - reflexivity.
  - induction amt as [|p amt IH]; cbn [forallb]; [reflexivity|].
    rewrite IH, (vsd_from_bypass_holder mc holder to (fst p) Hag Hbp). reflexivity.
Qed.

(** No laundering through the holder: coins that reach [R] by way of a quarantine were permitted by the
    marker rules for the pair (sender, R) when they were sent, and again for (holder, R) when accepted. *)
Lemma no_laundering ac1 ac2 S R amt dest :
  app_restriction ac1 S R amt = Some (qc_holder (ac_quar ac1)) ->
  app_restriction ac2 (qc_holder (ac_quar ac2)) R amt = Some dest ->
  allowed (ac_marker ac1) S R amt = true /\
  allowed (ac_marker ac2) (qc_holder (ac_quar ac2)) R amt = true.
Proof.
  intros H1 H2. split; eapply app_permission_needs_marker; eassumption.
Qed.

(** The one thing the pay-out forgets is WHO sent: a restricted coin without required attributes leaves the
    holder for any ordinary account, although the same send by a holder-less, permission-less account is denied. *)
Definition forget_marker : marker :=
  {| m_denom := 1%positive; m_type := MRestricted; m_status := SActive; m_req_attrs := [];
     m_access := [(AAcct 12%positive, [AcTransfer])]; m_forced := false |}.
Definition forget_cfg : config :=
  {| cfg_accounts := [(AMarker 1%positive, AcctMarker forget_marker)];
     cfg_deny := []; cfg_attrs := []; cfg_bypass_addrs := [AAcct 9%positive; AAcct 6%positive];
     cfg_fee_collector := AAcct 9%positive; cfg_marker_module := AAcct 8%positive;
     cfg_ibc_module := AAcct 7%positive;
     cfg_ctx_bypass := false; cfg_fee_grant := false; cfg_agents := [] |}.

Lemma payout_forgets_sender :
  exists c holder S R amt,
    coins_valid amt /\ is_req_attr_bypass c holder = true /\
    allowed c S R amt = false /\ allowed c holder R amt = true.
Proof.
  exists forget_cfg, (AAcct 6%positive), (AAcct 10%positive), (AAcct 20%positive), [(1%positive, 5%Z)].
  split; [repeat constructor | vm_compute; repeat split].
Qed.

(** ** Endpoints: the flags they set are reviewed setter sites *)
Definition site_listed (flag pkg func : string) : bool :=
  existsb (site_eqb (call flag pkg func)) reviewed_bypass_sites.

Lemma endpoint_flag_sites :
  site_listed "markertypes.WithBypass" "x/marker/keeper" "Keeper.TransferCoin" = true /\
  site_listed "markertypes.WithTransferAgents" "x/exchange/keeper" "Keeper.SettleOrders" = true /\
  site_listed "quarantine.WithBypass" "x/exchange/keeper" "Keeper.DoTransfer" = true /\
  site_listed "markertypes.WithTransferAgents" "x/metadata/keeper" "msgServer.UpdateValueOwners" = true /\
  site_listed "quarantine.WithBypass" "x/quarantine/keeper" "Keeper.AcceptQuarantinedFunds" = true /\
  site_listed "sanction.WithBypass" "x/sanction/keeper" "Keeper.SendRestrictionFn" = false.
Proof. vm_compute. repeat split. Qed.

(** An accepted MsgTransferRequest: the marker exists, is active and restricted, the administrator holds
    TRANSFER or FORCE_TRANSFER, a restricted-marker receiver gave the administrator DEPOSIT, a foreign source
    consented through authz unless the transfer is a permitted forced one, the sender is not sanctioned,
    and the coin is credited to the receiver or, when it is quarantined, to the holder. *)
Lemma transfer_coin_accepts ac admin from to d a authz_ok forcible blocked dest :
  transfer_coin ac admin from to d a authz_ok forcible blocked = Some dest ->
  exists m, get_marker (ac_marker ac) (AMarker d) = GMSome m /\
    m_status m = SActive /\ m_type m = MRestricted /\
    (has_access m admin AcTransfer = true \/ has_access m admin AcForceTransfer = true) /\
    validate_send_to_marker (ac_marker ac) to admin = true /\
    (admin = from \/ authz_ok = true \/
     (m_forced m = true /\ has_access m admin AcForceTransfer = true /\ forcible = true)) /\
    blocked = false /\ to <> cfg_fee_collector (ac_marker ac) /\
    sanction_passes (ac_sanction ac) from = true /\
    dest = q_dest (ac_quar ac) from to.
Proof.
  unfold transfer_coin, transfer_coin_guard.
  destruct (get_marker (ac_marker ac) (AMarker d)) as [| |m] eqn:Em; try discriminate.
  destruct (m_status m) eqn:Es; cbn [is_active negb]; try discriminate.
  destruct (m_type m) eqn:Et; cbn [is_restricted negb]; try discriminate.
  destruct (has_access m admin AcTransfer) eqn:Ht, (has_access m admin AcForceTransfer) eqn:Hf;
    cbn [negb andb]; try discriminate;
  (destruct (validate_send_to_marker (ac_marker ac) to admin) eqn:Ev; cbn [negb]; [|discriminate]);
  (destruct (addr_eqb admin from) eqn:Eaf; cbn [negb andb];
   [apply addr_eqb_eq in Eaf |
    destruct (m_forced m) eqn:Efo; cbn [negb orb]; try (destruct authz_ok; cbn [negb]; [|discriminate]);
    try (destruct forcible; cbn [negb]; [|discriminate])]);
  (destruct blocked; cbn [negb]; [discriminate|]);
  rewrite app_restriction_seq_eq; cbn [with_marker_bypass ac_marker ac_sanction ac_quar];
  (destruct (allowed _ from to [(d, a)]) eqn:Ea; cbn [andb]; [|discriminate]);
  (destruct (sanction_passes (ac_sanction ac) from) eqn:Esp; [|discriminate]);
  intros H; injection H as <-;
  (assert (Hfc : to <> cfg_fee_collector (ac_marker ac));
   [ intros ->;
     pose proof (no_restricted_to_fee_collector _ _ _ Ea d a m (or_introl eq_refl)) as Hc;
     cbn [mc_with cfg_fee_collector] in Hc;
     assert (Hg : get_marker (mc_with (ac_marker ac) true (cfg_fee_grant (ac_marker ac)) (cfg_agents (ac_marker ac)))
                    (AMarker d) = GMSome m) by exact Em;
     specialize (Hc Hg); congruence
   | exists m; repeat split; auto ]).
Qed.

(** ** The two simplified flowcharts of 12_transfers.md, "Quarantine Complexities" *)
(** "Sending Restricted Coins to a Quarantined Account": the receiver is neither a marker nor a bypass
    account nor the fee collector, the sender is neither deny-listed nor a bypass account. *)
Lemma quarantined_send_doc_simplified c S R d m :
  marker_for_denom c d = Some m -> m_status m = SActive -> m_type m = MRestricted ->
  R <> cfg_fee_collector c -> on_deny_list c d S = false ->
  marker_at c R = None -> bypass_account c R = false -> bypass_account c S = false ->
  validate_send_denom c S R (cfg_agents c) d (get_marker_ign c R) =
  (some_agent_has m (cfg_agents c) AcTransfer || has_role m S AcTransfer) ||
  match m_req_attrs m with [] => false | _ :: _ => has_required_attributes c m R end.
Proof.
  intros Hm Hs Ht Hfc Hd Hr Hbr Hbs.
  rewrite vsd_eq_doc. unfold doc_validate_send_denom, restricted_coin. rewrite Hm.
  unfold marker_active. rewrite Hs, Ht. cbn [negb].
  rewrite (addr_eqb_neq _ _ Hfc), Hd, Hr, Hbr, Hbs.
  destruct (some_agent_has m (cfg_agents c) AcTransfer); cbn [orb]; [reflexivity|].
  destruct (has_role m S AcTransfer); cbn [orb]; [reflexivity|].
  destruct (m_req_attrs m); reflexivity.
Qed.

(** "Accepting Quarantined Restricted Coins": the holder is a bypass account without marker access and
    not deny-listed; the receiver is neither a marker nor a bypass account nor the fee collector. *)
Lemma payout_doc_simplified c holder R d m :
  get_marker_ign c (AMarker d) = Some m -> m_status m = SActive -> m_type m = MRestricted ->
  R <> cfg_fee_collector c -> is_send_deny c (AMarker d) holder = false ->
  has_access m holder AcTransfer = false ->
  get_marker_ign c R = None -> is_req_attr_bypass c R = false ->
  payout_denom_ok c holder R d =
  match m_req_attrs m with [] => true | _ :: _ => has_required_attributes c m R end.
Proof.
  intros Hm Hs Ht Hfc Hd Ha Hr Hbr.
  unfold payout_denom_ok. rewrite Hm, Hs, Ht, (addr_eqb_neq _ _ Hfc), Hd, Ha, Hr, Hbr.
  cbn [is_active is_restricted negb andb orb].
  destruct (m_req_attrs m) as [|r0 rs] eqn:Er; [reflexivity|].
  rewrite has_required_attributes_eq, Er. reflexivity.
Qed.

(** ** Exchange settlement and value-owner updates *)
(** An accepted settlement: every transfer was permitted by the marker rules with the market admin as
    the only transfer agent, its sender is not sanctioned, its receiver is not bank-blocked, and (the
    quarantine being bypassed) it is credited to the receiver itself. *)
Lemma settle_accepts ac admin legs :
  settle_ok ac admin legs = true ->
  forall f t amt blocked, In (f, t, amt, blocked) legs ->
    blocked = false /\
    allowed (mc_with (ac_marker ac) (cfg_ctx_bypass (ac_marker ac)) (cfg_fee_grant (ac_marker ac)) [admin]) f t amt = true /\
    sanction_passes (ac_sanction ac) f = true /\
    app_restriction_seq (settle_ctx ac admin) f t amt = Some t.
Proof.
  unfold settle_ok. intros H f t amt blocked Hin.
  rewrite forallb_forall in H. specialize (H _ Hin). unfold leg_ok in H.
  apply andb_true_iff in H as [Hb Hp]. destruct blocked; [discriminate|].
  unfold app_permits in Hp. rewrite app_restriction_seq_eq in *.
  cbn [settle_ctx with_quarantine_bypass with_agents ac_marker ac_sanction ac_quar] in *.
  destruct (allowed _ f t amt) eqn:Ea; cbn [andb] in *; [|discriminate].
  destruct (sanction_passes (ac_sanction ac) f) eqn:Es; [|discriminate].
  repeat split.
Qed.

(** An accepted value-owner update of a scope held by [owner]: the owner signed or is a marker
    account; the marker rules permitted the move of the scope coin with the signers as transfer
    agents — so out of a marker account only with a signer holding WITHDRAW (or a fee grant in use),
    into a restricted marker only with a signer holding DEPOSIT. *)
Lemma update_value_owner_accepts ac signers owner to d blocked dest :
  cfg_ctx_bypass (ac_marker ac) = false -> owner <> cfg_marker_module (ac_marker ac) ->
  owner <> cfg_ibc_module (ac_marker ac) ->
  update_value_owner ac signers owner to d blocked = Some dest ->
  let c := mc_with (ac_marker ac) false (cfg_fee_grant (ac_marker ac)) signers in
  (In owner signers \/ exists om, get_marker (ac_marker ac) owner = GMSome om) /\
  blocked = false /\ owner <> to /\
  allowed c owner to [(d, 1%Z)] = true /\
  sanction_passes (ac_sanction ac) owner = true /\
  dest = q_dest (ac_quar ac) owner to /\
  (forall om, get_marker (ac_marker ac) owner = GMSome om ->
     cfg_fee_grant (ac_marker ac) = true \/ exists a, In a signers /\ has_access om a AcWithdraw = true) /\
  (forall tm, get_marker (ac_marker ac) to = GMSome tm -> m_type tm = MRestricted ->
     (signers = [] /\ has_access tm owner AcDeposit = true) \/
     exists a, In a signers /\ has_access tm a AcDeposit = true).
Proof.
  intros Hb Hmm Him. unfold update_value_owner, value_owner_guard.
  destruct (addr_eqb owner to) eqn:Eot; cbn [negb andb]; [discriminate|].
  destruct (existsb (addr_eqb owner) signers ||
            match get_marker_ign (ac_marker ac) owner with Some _ => true | None => false end) eqn:Esg;
    cbn [andb]; [|discriminate].
  destruct blocked; cbn [negb]; [discriminate|].
  rewrite app_restriction_seq_eq. cbn [with_agents ac_marker ac_sanction ac_quar]. rewrite Hb.
  set (c := mc_with (ac_marker ac) false (cfg_fee_grant (ac_marker ac)) signers).
  destruct (allowed c owner to [(d, 1%Z)]) eqn:Ea; cbn [andb]; [|discriminate].
  destruct (sanction_passes (ac_sanction ac) owner) eqn:Es; [|discriminate].
  intros H. injection H as <-. cbv zeta.
  assert (Hnb : not_bypassed c owner) by (repeat split; assumption).
  split; [|split; [reflexivity|split; [|split; [first [exact Ea | reflexivity]|split; [first [exact Es | reflexivity]|split; [reflexivity|split]]]]]].
  - apply orb_true_iff in Esg as [Hs|Hm].
    + left. apply existsb_exists in Hs as (x & Hx & Hxe). apply addr_eqb_eq in Hxe. subst x. exact Hx.
    + right. unfold get_marker_ign in Hm. destruct (get_marker (ac_marker ac) owner) as [| |om]; try discriminate.
      exists om; reflexivity.
  - intros ->. rewrite addr_eqb_refl in Eot. discriminate.
  - intros om Hom.
    destruct (withdraw_needs_authority c owner to [(d, 1%Z)] om Hnb Hom Ea) as [Hw _]. exact Hw.
  - intros tm Htm Hty.
    exact (deposit_needs_authority c owner to [(d, 1%Z)] tm Hnb Htm Hty Ea).
Qed.

(** What MsgTransferRequest gives that the send restriction never does: a holder of FORCE_TRANSFER on a
    marker that allows forced transfers moves the coin out of a MARKER ACCOUNT (here even the marker's own
    escrow) without WITHDRAW access — canForceTransferFrom lets marker accounts through on purpose, and the
    bank send runs under the marker bypass.  Documented ("out of almost any account"); stated here so that
    the scope of [withdraw_needs_authority] (outside the context bypass) is explicit. *)
Definition force_marker : marker :=
  {| m_denom := 1%positive; m_type := MRestricted; m_status := SActive; m_req_attrs := [];
     m_access := [(AAcct 12%positive, [AcForceTransfer])]; m_forced := true |}.
Definition force_app : app_config :=
  {| ac_marker :=
       {| cfg_accounts := [(AMarker 1%positive, AcctMarker force_marker)];
          cfg_deny := []; cfg_attrs := []; cfg_bypass_addrs := [AAcct 9%positive; AAcct 6%positive];
          cfg_fee_collector := AAcct 9%positive; cfg_marker_module := AAcct 8%positive;
          cfg_ibc_module := AAcct 7%positive;
          cfg_ctx_bypass := false; cfg_fee_grant := false; cfg_agents := [] |};
     ac_sanction := {| sc_sanctioned := []; sc_bypass := false |};
     ac_quar := {| qc_optin := []; qc_auto_accept := []; qc_holder := AAcct 6%positive; qc_bypass := false |} |}.

Lemma forced_transfer_leaves_marker_without_withdraw :
  exists ac admin m to d a,
    get_marker (ac_marker ac) (AMarker d) = GMSome m /\
    has_access m admin AcWithdraw = false /\ has_access m admin AcTransfer = false /\
    transfer_coin ac admin (AMarker d) to d a false true false = Some to /\
    (* the same movement as a plain bank send with the admin as transfer agent is refused *)
    app_restriction_seq (with_agents ac [admin]) (AMarker d) to [(d, a)] = None.
Proof.
  exists force_app, (AAcct 12%positive), force_marker, (AAcct 20%positive), 1%positive, 5%Z.
  vm_compute. repeat split.
Qed.
