(** Proofs for Genesis/ExchangeGenesis.v (property C18, exchange module): importing the export of
    a well-formed exchange store gives the store back, secondary indexes included.
    Closed under the global context. *)
From Coq Require Import ZArith NArith List Bool Sorted Lia.
From PV Require Import Genesis.RoundTrip Genesis.Indexed Genesis.ExchangeGenesis Proofs.RoundTripProofs Proofs.TableLemmas.
Import ListNotations.
Open Scope Z_scope.

(* ------------------------------------------------------------------ params *)

Lemma coins_nonzero_id : forall l : list coin,
  Forall (fun c => snd c <> 0) l -> coins_nonzero l = l.
Proof.
  intros l H. unfold coins_nonzero. induction H as [|c l Hc Hl IH]; [reflexivity|].
  cbn [filter]. apply Z.eqb_neq in Hc. rewrite Hc. cbn [negb]. rewrite IH. reflexivity.
Qed.

Lemma fee_store_id : forall l : list coin,
  Forall (fun c => snd c <> 0) l -> fee_store l = l.
Proof.
  intros l H. unfold fee_store. destruct H as [|c l Hc Hl]; [reflexivity|].
  cbn [is_nil orb]. unfold coins_all_zero. cbn [forallb]. apply Z.eqb_neq in Hc. rewrite Hc.
  reflexivity.
Qed.

(** [] is the least key: a table with an entry under [] starts with it *)
Lemma tget_nil_head : forall (R : Type) (t : table R) (v : R),
  tget [] t = Some v -> exists t', t = ([], v) :: t'.
Proof.
  intros R t v H. destruct t as [|[k r] t']; [discriminate|].
  cbn [tget] in H. destruct k as [|x k]; cbn [kcmp] in H; [|discriminate].
  inversion H; subst. eexists; reflexivity.
Qed.

Lemma splits_rest : forall (t : table (key * N)),
  Forall (fun kr => kcmp [] (fst kr) = Lt) t ->
  Forall (fun kr : key * (key * N) => fst kr = fst (snd kr) /\ (snd (snd kr) < 65536)%N) t ->
  filter (fun e : key * N => negb (is_nil (fst e))) (texport (fun e => e) t) = map snd t /\
  map (fun ds : key * N => (fst ds, (fst ds, u16 (snd ds)))) (map snd t) = t.
Proof.
  intros t Hlt Hf. induction Hf as [|[k [d v]] t [Hk Hv] Hf IH].
  - split; reflexivity.
  - inversion Hlt as [|? ? Hx Hlt']; subst. cbn [fst snd] in Hk, Hv, Hx. subst d.
    destruct (IH Hlt') as [IH1 IH2].
    change (texport (fun e : key * N => e) ((k, (k, v)) :: t))
      with ((k, v) :: texport (fun e : key * N => e) t).
    cbn [filter map fst snd]. destruct k as [|x k]; [discriminate|].
    cbn [is_nil negb]. rewrite IH1, IH2. split; [reflexivity|].
    unfold u16. rewrite (N.mod_small v 65536 Hv). reflexivity.
Qed.

Lemma params_roundtrip : forall p, params_wf p -> params_import (params_export p) = p.
Proof.
  intros [sp fc fa] (Hs & Hf & He & Hne & Hc & Ha).
  cbn [sp_splits sp_fee_create sp_fee_accept] in *.
  unfold params_export. cbn [sp_splits sp_fee_create sp_fee_accept].
  rewrite (coins_nonzero_id fc Hc), (coins_nonzero_id fa Ha).
  destruct sp as [|e sp'].
  - destruct (He eq_refl) as [E1 E2]. subst. reflexivity.
  - assert (Hnn : e :: sp' <> []) by discriminate.
    destruct (Hne Hnn) as [v Hv].
    destruct (tget_nil_head _ _ _ Hv) as [t' Et]. inversion Et; subst e sp'. clear Et Hnn Hne He.
    rewrite Hv. cbn [is_nil andb].
    inversion Hs as [|? ? Hs' Hlt]; subst.
    inversion Hf as [|? ? [Hk Hv0] Hf']; subst.
    destruct v as [d0 v0]. cbn [fst snd] in Hk, Hv0. subst d0.
    assert (Hlt' : Forall (fun kr : key * (key * N) => kcmp [] (fst kr) = Lt) t').
    { eapply Forall_impl; [|exact Hlt]. intros a Ha0. exact Ha0. }
    destruct (splits_rest t' Hlt' Hf') as [R1 R2].
    change (texport (fun e : key * N => e) (([], ([], v0)) :: t'))
      with (([], v0) :: texport (fun e : key * N => e) t').
    cbn [filter fst is_nil negb].
    match goal with |- context [filter ?f (texport ?g t')] =>
      replace (filter f (texport g t')) with (map snd t') by (symmetry; exact R1) end.
    unfold params_import, split_entries. cbn [xp_default xp_splits xp_fee_create xp_fee_accept].
    match goal with |- context [map ?f (map ?g t')] =>
      replace (map f (map g t')) with t' by (symmetry; exact R2) end.
    unfold u16. rewrite (N.mod_small v0 65536 Hv0).
    rewrite (fee_store_id fc Hc), (fee_store_id fa Ha).
    f_equal. apply tbuild_self. exact Hs.
Qed.

(* ------------------------------------------------------------------ one market *)

Lemma flat_entries_self : forall t : table coin,
  flat_wf t -> tbuild (flat_entries (texport (fun c => c) t)) = t.
Proof.
  intros t [Hs Hf].
  assert (E : flat_entries (texport (fun c => c) t) = t).
  { clear Hs. unfold flat_entries, texport. rewrite map_map.
    induction Hf as [|[k c] l Hx Hl IH]; [reflexivity|].
    cbn [map fst snd] in *. subst k. rewrite IH. reflexivity. }
  rewrite E. apply tbuild_self. exact Hs.
Qed.

Lemma ratio_entries_self : forall t : table ratio,
  ratios_wf t -> tbuild (ratio_entries (texport (fun r => r) t)) = t.
Proof.
  intros t [Hs Hf].
  assert (E : ratio_entries (texport (fun r => r) t) = t).
  { clear Hs. unfold ratio_entries, texport. rewrite map_map.
    induction Hf as [|[k c] l Hx Hl IH]; [reflexivity|].
    cbn [map fst snd] in *. subst k. rewrite IH. reflexivity. }
  rewrite E. apply tbuild_self. exact Hs.
Qed.

Lemma group_perms_entries : forall l : list (key * N),
  flat_map grant_entries (group_perms l) =
  map (fun ap => (perm_key (fst ap) (snd ap), (fst ap, perm_byte (snd ap)))) l.
Proof.
  induction l as [|[a p] r IH]; [reflexivity|].
  cbn [group_perms map fst snd]. destruct (group_perms r) as [|g gs].
  - rewrite <- IH. reflexivity.
  - destruct (keqb (gr_addr g) a) eqn:E.
    + apply keqb_true in E. subst a. rewrite <- IH. destruct g as [ga gp]. reflexivity.
    + rewrite <- IH. reflexivity.
Qed.

Lemma group_perms_addr_ok : forall l : list (key * N),
  Forall (fun ap => addr_ok (fst ap) = true) l ->
  forallb (fun g => addr_ok (gr_addr g)) (group_perms l) = true.
Proof.
  intros l H. induction H as [|[a p] r Ha Hr IH]; [reflexivity|].
  cbn [group_perms fst] in *. destruct (group_perms r) as [|g gs].
  - cbn [forallb gr_addr]. rewrite Ha. reflexivity.
  - cbn [forallb] in IH. apply andb_true_iff in IH. destruct IH as [I1 I2].
    destruct (keqb (gr_addr g) a); cbn [forallb gr_addr]; rewrite Ha, ?I1, I2; reflexivity.
Qed.

Lemma perms_self : forall t : table (key * N),
  tsorted t ->
  Forall (fun kr : key * (key * N) =>
            fst kr = perm_key (fst (snd kr)) (snd (snd kr)) /\ (snd (snd kr) < 256)%N /\
            addr_ok (fst (snd kr)) = true) t ->
  tbuild (flat_map grant_entries (group_perms (texport (fun e => e) t))) = t.
Proof.
  intros t Hs Hf. rewrite group_perms_entries.
  assert (E : map (fun ap : key * N => (perm_key (fst ap) (snd ap), (fst ap, perm_byte (snd ap))))
                  (texport (fun e => e) t) = t).
  { clear Hs. unfold texport. rewrite map_map.
    induction Hf as [|[k [a p]] l (Hk & Hp & _) Hl IH]; [reflexivity|].
    cbn [map fst snd] in *. subst k. rewrite IH. unfold perm_byte.
    rewrite (N.mod_small p 256 Hp). reflexivity. }
  rewrite E. apply tbuild_self. exact Hs.
Qed.

Lemma store_market_load : forall sm,
  smarket_wf sm -> store_market (sm_id sm) (load_market sm) = Some sm.
Proof.
  intros sm (Hid & H1 & H2 & H3 & H4 & H5 & H6 & H7 & Hps & Hpf).
  unfold store_market.
  assert (Hok : forallb (fun g => addr_ok (gr_addr g)) (mk_grants (load_market sm)) = true).
  { cbn [load_market mk_grants]. apply group_perms_addr_ok. unfold texport. rewrite Forall_map.
    eapply Forall_impl; [|exact Hpf]. intros kr (_ & _ & Hk). exact Hk. }
  rewrite Hok.
  cbn [load_market mk_id mk_details mk_ask_flat mk_bid_flat mk_seller_flat mk_buyer_flat
       mk_commit_flat mk_seller_ratios mk_buyer_ratios mk_accepting_orders mk_user_settle
       mk_accepting_commitments mk_grants mk_req_ask mk_req_bid mk_req_commit mk_bips
       mk_intermediary].
  rewrite (flat_entries_self _ H1), (flat_entries_self _ H2), (flat_entries_self _ H3),
    (flat_entries_self _ H4), (flat_entries_self _ H5).
  rewrite (ratio_entries_self _ H6), (ratio_entries_self _ H7).
  rewrite (perms_self _ Hps Hpf). rewrite negb_involutive.
  destruct sm; reflexivity.
Qed.

(* ------------------------------------------------------------------ markets *)

Lemma markets_import_from : forall (t t1 : table smarket) (l0 : N),
  tsorted (t1 ++ t) ->
  Forall (fun kr => fst kr = k_known (sm_id (snd kr)) /\ smarket_wf (snd kr)) t ->
  fold_left market_step (texport load_market t) (Some (l0, t1)) = Some (l0, t1 ++ t).
Proof.
  induction t as [|[k sm] t IH]; intros t1 l0 Hs Hf.
  - rewrite app_nil_r. reflexivity.
  - inversion Hf as [|? ? [Hk Hwf] Hf']; subst. cbn [fst snd] in Hk, Hwf.
    change (texport load_market ((k, sm) :: t)) with (load_market sm :: texport load_market t).
    cbn [fold_left]. unfold market_step at 2.
    change (mk_id (load_market sm)) with (sm_id sm).
    assert (Hid : (sm_id sm =? 0)%N = false) by (apply N.eqb_neq; exact (proj1 Hwf)).
    rewrite Hid. rewrite (store_market_load sm Hwf). rewrite <- Hk.
    assert (E : tset k sm t1 = t1 ++ [(k, sm)]).
    { unfold tset. rewrite (talter_app_end _ _ _ _ (sorted_app_head _ _ _ _ _ Hs)). reflexivity. }
    rewrite E. change ((k, sm) :: t) with ([(k, sm)] ++ t) in Hs |- *. rewrite app_assoc in Hs |- *.
    apply IH; assumption.
Qed.

(* ------------------------------------------------------------------ orders *)

Lemma order_guard_fresh : forall (t ta tb : table order) (k : key) (o : order),
  t = ta ++ (k, o) :: tb ->
  Forall (fun kr => addr_ok (od_owner (snd kr)) = true /\ (length (od_ext (snd kr)) <= 100)%nat) t ->
  (forall k1 o1 k2 o2, In (k1, o1) t -> In (k2, o2) t ->
     od_ext o1 <> [] -> k_ix_ext (od_market o1) (od_ext o1) = k_ix_ext (od_market o2) (od_ext o2) ->
     od_ext o2 <> [] -> od_id o1 = od_id o2) ->
  order_guard o None (set_all (derived_index (fun o => o) order_add ta) []) = true.
Proof.
  intros t ta tb k o Et Hf Hu.
  assert (Hin : In (k, o) t) by (rewrite Et; apply in_or_app; right; left; reflexivity).
  rewrite Forall_forall in Hf. destruct (Hf _ Hin) as [Hown Hlen]. cbn [snd] in Hown, Hlen.
  unfold order_guard. rewrite Hown. apply Nat.leb_le in Hlen. rewrite Hlen. cbn [andb].
  rewrite andb_true_r.
  destruct (od_ext o) as [|e0 er] eqn:Eext; [reflexivity|]. cbn [is_nil].
  destruct (tget (k_ix_ext (od_market o) (e0 :: er))
                 (set_all (derived_index (fun o0 : order => o0) order_add ta) [])) as [v|] eqn:Eg;
    [|reflexivity].
  assert (Hnil : tsorted (@nil (key * key))) by constructor.
  destruct (tget_set_all_in _ _ _ _ _ Hnil Eg) as [Hd|Hd]; [|discriminate Hd].
  unfold derived_index in Hd. apply in_flat_map in Hd. destruct Hd as [[k1 o1] [Hin1 Hadd]].
  cbn [snd order_add] in Hadd. apply in_app_or in Hadd. destruct Hadd as [Hc|He].
  - unfold const_entries, k_ix_ext, k_ix_market, k_ix_owner, k_ix_asset in Hc. cbn [In] in Hc.
    destruct Hc as [Hc|[Hc|[Hc|[]]]]; inversion Hc.
  - unfold ext_entries in He. destruct (od_ext o1) as [|f0 fr] eqn:Eext1; cbn [is_nil In] in He;
      [destruct He|]. destruct He as [He|[]].
    pose proof (f_equal fst He) as Hkey. pose proof (f_equal snd He) as Hv.
    cbn [fst snd] in Hkey, Hv. clear He. subst v.
    assert (Hid : od_id o1 = od_id o).
    { apply (Hu k1 o1 k o).
      - rewrite Et. apply in_or_app. left. exact Hin1.
      - exact Hin.
      - rewrite Eext1. discriminate.
      - rewrite Eext1, Eext. exact Hkey.
      - rewrite Eext. discriminate. }
    rewrite Hid. rewrite keqb_refl. destruct (length (be64 (od_id o)) =? 8)%nat; reflexivity.
Qed.

Lemma orders_import_export : forall (t : table order),
  tsorted t ->
  Forall (fun kr => fst kr = k_order (od_id (snd kr)) /\ addr_ok (od_owner (snd kr)) = true /\
                    (length (od_ext (snd kr)) <= 100)%nat) t ->
  (forall k1 o1 k2 o2, In (k1, o1) t -> In (k2, o2) t ->
     od_ext o1 <> [] -> k_ix_ext (od_market o1) (od_ext o1) = k_ix_ext (od_market o2) (od_ext o2) ->
     od_ext o2 <> [] -> od_id o1 = od_id o2) ->
  orders_import (texport (fun o => o) t) =
  Some (t, tbuild (derived_index (fun o => o) order_add t)).
Proof.
  intros t Hs Hf Hu. unfold orders_import, tbuild.
  apply (iimport_fresh (fun o : order => Some (k_order (od_id o))) (fun o _ _ => o) order_guard
           order_add (fun _ _ => []) (fun o : order => o) t []).
  - exact Hs.
  - eapply Forall_impl; [|exact Hf]. intros [k o] (Hk & _ & _). cbn [fst snd] in *.
    split; [rewrite Hk; reflexivity|]. split; [intro p; reflexivity | reflexivity].
  - intros ta [k o] tb Et. cbn [snd]. apply (order_guard_fresh t ta tb k o Et); [|exact Hu].
    eapply Forall_impl; [|exact Hf]. intros kr (_ & H1 & H2). split; assumption.
Qed.

Lemma max_order_le : forall (l : list order) (L acc : N),
  (acc <= L)%N -> Forall (fun o => (od_id o <= L)%N) l ->
  (fold_left (fun m o => N.max m (od_id o)) l acc <= L)%N.
Proof.
  induction l as [|o l IH]; intros L acc Hacc Hf; [exact Hacc|].
  inversion Hf as [|? ? Ho Hf']; subst. cbn [fold_left]. apply IH; [|exact Hf'].
  apply N.max_lub; assumption.
Qed.

(* ------------------------------------------------------------------ commitments *)

Lemma commit_upd_fresh : forall c,
  cm_amount c <> [] -> coins_pos (cm_amount c) -> commit_upd c None = Some (Some c).
Proof.
  intros [m a amt] Hne [Hs Hpos]. cbn [cm_amount] in *.
  assert (Hnz : Forall (fun da : key * Z => snd da <> 0) amt).
  { eapply Forall_impl; [|exact Hpos]. intros da Hda. cbv beta in Hda. lia. }
  unfold commit_upd, coins_plus. cbn [cm_market cm_addr cm_amount].
  rewrite (coins_add_app amt [] Hs Hnz). cbn [app].
  rewrite (coins_nonzero_id amt Hnz).
  destruct amt as [|x amt']; [congruence|]. reflexivity.
Qed.

Lemma commits_import_export : forall (t : table commitment),
  tsorted t ->
  Forall (fun kr => fst kr = k_commit (cm_market (snd kr)) (cm_addr (snd kr)) /\
                    addr_ok (cm_addr (snd kr)) = true /\ cm_amount (snd kr) <> [] /\
                    coins_pos (cm_amount (snd kr))) t ->
  timport commit_key commit_upd (texport (fun c => c) t) = Some t.
Proof.
  intros t Hs Hf. apply timport_texport. split; [exact Hs|].
  eapply Forall_impl; [|exact Hf]. intros [k c] (Hk & Ha & Hne & Hp). cbn [fst snd] in *. split.
  - unfold commit_key. rewrite Ha, Hk. reflexivity.
  - apply commit_upd_fresh; assumption.
Qed.

(* ------------------------------------------------------------------ payments *)

Lemma payments_import_export : forall (t : table payment) (ix : index),
  tsorted t ->
  Forall (fun kr => fst kr = k_payment (py_source (snd kr)) (py_ext (snd kr)) /\
                    addr_ok (py_source (snd kr)) = true /\
                    (py_target (snd kr) = [] \/ addr_ok (py_target (snd kr)) = true)) t ->
  iimport payment_pk (fun p _ _ => p) payment_guard payment_add (fun _ _ => [])
          (texport (fun p => p) t) [] ix =
  Some (t, set_all (derived_index (fun p => p) payment_add t) ix).
Proof.
  intros t ix Hs Hf.
  apply (iimport_fresh payment_pk (fun p _ _ => p) payment_guard payment_add (fun _ _ => [])
           (fun p : payment => p) t ix).
  - exact Hs.
  - eapply Forall_impl; [|exact Hf]. intros [k p] (Hk & Ha & _). cbn [fst snd] in *.
    split; [unfold payment_pk; rewrite Ha, Hk; reflexivity|].
    split; [intro q; reflexivity | reflexivity].
  - intros ta [k p] tb Et. cbn [snd]. unfold payment_guard.
    assert (Hin : In (k, p) t) by (rewrite Et; apply in_or_app; right; left; reflexivity).
    rewrite Forall_forall in Hf. destruct (Hf _ Hin) as (_ & _ & Ht). cbn [snd] in Ht.
    destruct Ht as [Ht|Ht]; [rewrite Ht; reflexivity | rewrite Ht; apply orb_true_r].
Qed.

(* ------------------------------------------------------------------ the module *)

Lemma exch_import_export : forall held s,
  exch_wf held s -> exch_import held (exch_export s) = Some s.
Proof.
  intros held s (Hp & Hms & Hmf & Hos & Hof & Hou & Hcs & Hcf & Hps & Hpf & Hix & Hh).
  remember (exch_export s) as g eqn:Eg.
  assert (E1 : xg_markets g = texport load_market (xs_markets s)) by (subst g; reflexivity).
  assert (E2 : xg_orders g = texport (fun o => o) (xs_orders s)) by (subst g; reflexivity).
  assert (E3 : xg_commitments g = texport (fun c => c) (xs_commitments s)) by (subst g; reflexivity).
  assert (E4 : xg_payments g = texport (fun p => p) (xs_payments s)) by (subst g; reflexivity).
  assert (E5 : xg_last_order g = xs_last_order s) by (subst g; reflexivity).
  assert (E6 : xg_last_market g = xs_last_market s) by (subst g; reflexivity).
  assert (E7 : xg_params g = params_export (xs_params s)) by (subst g; reflexivity).
  unfold exch_import. rewrite Hh, E1, E2, E3, E4, E5, E6, E7.
  match goal with |- context [fold_left market_step ?l ?a] =>
    replace (fold_left market_step l a) with (Some (0%N, xs_markets s))
      by (symmetry; exact (markets_import_from (xs_markets s) [] 0%N Hms Hmf)) end.
  rewrite (orders_import_export (xs_orders s) Hos).
  2:{ eapply Forall_impl; [|exact Hof]. intros kr (H1 & H2 & H3 & _). repeat split; assumption. }
  2:{ exact Hou. }
  assert (Hmax : (xs_last_order s <? max_order_id (texport (fun o => o) (xs_orders s)))%N = false).
  { apply N.ltb_ge. unfold max_order_id. apply max_order_le; [apply N.le_0_l|].
    unfold texport. rewrite Forall_map. eapply Forall_impl; [|exact Hof].
    intros kr (_ & _ & _ & H4). exact H4. }
  rewrite Hmax.
  rewrite (commits_import_export (xs_commitments s) Hcs Hcf).
  rewrite (payments_import_export (xs_payments s) _ Hps Hpf).
  rewrite (params_roundtrip _ Hp).
  fold (exch_index_of (xs_orders s) (xs_payments s)). rewrite <- Hix.
  destruct s; reflexivity.
Qed.

Lemma exch_indexes_rebuilt : forall held s s',
  exch_wf held s -> exch_import held (exch_export s) = Some s' -> xs_index s' = xs_index s.
Proof.
  intros held s s' Hwf H. rewrite (exch_import_export held s Hwf) in H.
  injection H as H. subst s'. reflexivity.
Qed.

Print Assumptions exch_import_export.
Print Assumptions exch_indexes_rebuilt.
