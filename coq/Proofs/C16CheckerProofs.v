(** The executable property checker of Corr/C16.v (the one evaluated on the implementation's
    observations) is sound for the model: on the model's own trace it never reports a failure. *)
From Coq Require Import ZArith List Bool Lia ZifyBool String.
From PV Require Import Attribute.Attribute Proofs.AttributeProofs Corr.CorrBase Corr.C16.
Import ListNotations.
Open Scope Z_scope.

Lemma tag_true : forall b s, b = true -> tag b s = [].
Proof. intros b s ->. reflexivity. Qed.

Lemma In_insert_rec : forall x r l, In x (insert_rec r l) <-> x = r \/ In x l.
Proof.
  intros x r l. induction l as [|y t IH]; cbn [insert_rec].
  - cbn. intuition.
  - destruct (key_ltb (okey r) (okey y)); cbn [In]; [intuition|]. rewrite IH. intuition.
Qed.

Lemma In_sort_recs : forall x l, In x (sort_recs l) <-> In x l.
Proof.
  intros x l. induction l as [|y t IH]; cbn [sort_recs fold_right]; [tauto|].
  fold (sort_recs t). rewrite In_insert_rec, IH. cbn [In]. intuition.
Qed.

Lemma okey_orec_of : forall r, okey (orec_of r) = akey r.
Proof. reflexivity. Qed.

Lemma In_obs_recs : forall accts names s ok x,
  In x (o_recs (model_obs accts names s ok)) <-> exists r, In r (s_recs s) /\ x = orec_of r.
Proof.
  intros. cbn [model_obs o_recs]. rewrite In_sort_recs, in_map_iff. split; intros [r [H1 H2]]; exists r; auto.
Qed.

Lemma has_key_model : forall accts names s ok k,
  has_key (model_obs accts names s ok) k = true <-> exists r, In r (s_recs s) /\ akey r = k.
Proof.
  intros. unfold has_key. rewrite existsb_exists. split.
  - intros [x [Hx Hk]]. apply In_obs_recs in Hx. destruct Hx as [r [Hr ->]].
    exists r. split; auto. apply key_eqb_eq in Hk. exact Hk.
  - intros [r [Hr Hk]]. exists (orec_of r). split; [apply In_obs_recs; eauto|].
    apply key_eqb_eq. rewrite okey_orec_of. exact Hk.
Qed.

Lemma nth_index_map : forall {B} (f : Z -> B) (d : B) n names,
  In n names -> nth (index_of n names) (map f names) d = f n.
Proof.
  intros B f d n names. induction names as [|y t IH]; intros Hin; [destruct Hin|].
  cbn [index_of map]. destruct (n =? y) eqn:E.
  - apply Z.eqb_eq in E. subst. reflexivity.
  - cbn [nth]. apply IH. destruct Hin as [->|H]; [rewrite Z.eqb_refl in E; discriminate|exact H].
Qed.

Lemma owner_in_model : forall accts names s ok n,
  In n names -> owner_in names (model_obs accts names s ok) n = s_owner s n.
Proof. intros. unfold owner_in. cbn [model_obs o_owners]. apply nth_index_map. exact H. Qed.

Lemma holders_in_model : forall accts names s ok n,
  In n names -> holders_in names (model_obs accts names s ok) n = accounts_by_attribute s n accts.
Proof.
  intros. unfold holders_in. cbn [model_obs o_accts].
  apply (nth_index_map (fun n => accounts_by_attribute s n accts)). exact H.
Qed.

Lemma is_owner_model : forall accts names s ok n c,
  In n names -> s_owner s n = Some c -> is_owner names (model_obs accts names s ok) n c = true.
Proof.
  intros. unfold is_owner. rewrite owner_in_model by assumption. apply oz_eqb_eq. assumption.
Qed.

Lemma mem_In : forall x l, mem x l = true <-> In x l.
Proof.
  intros. unfold mem. rewrite existsb_exists. split.
  - intros [y [Hy E]]. apply Z.eqb_eq in E. subst. exact Hy.
  - intros H. exists x. split; auto. apply Z.eqb_refl.
Qed.

(** names an operation mentions *)
Definition op_name (o : op) : option Z :=
  match o with
  | OBind n _ | OModifyName _ n _ | ODeleteName _ n | OAdd _ _ n _ _ _ _ | OUpdate _ _ n _ _ _ _ _
  | OUpdateExp _ _ n _ _ _ | ODelete _ _ n _ | ODeleteDistinct _ _ n _ _ | OPurge _ n => Some n
  | OBlock _ => None
  end.

Definition in_universe (accts names : list Z) (s : state) : Prop :=
  forall r, In r (s_recs s) -> In (a_name r) names /\ In (a_acct r) accts.

Lemma list_eqb_refl : forall {A} (eqb : A -> A -> bool) l,
  (forall x, eqb x x = true) -> list_eqb eqb l l = true.
Proof. intros A eqb l H. induction l; cbn; [reflexivity|]. rewrite H, IHl. reflexivity. Qed.

Lemma oz_eqb_refl : forall x, oz_eqb x x = true.
Proof. intros. apply oz_eqb_eq. reflexivity. Qed.

Lemma orec_eqb_refl : forall x, orec_eqb x x = true.
Proof. intros [[[[a n] v] t] e]. cbn. rewrite !Z.eqb_refl, oz_eqb_refl. reflexivity. Qed.

Lemma obs_same_model : forall accts names s b1 b2,
  obs_same (model_obs accts names s b1) (model_obs accts names s b2) = true.
Proof.
  intros. unfold obs_same. cbn [model_obs o_recs o_accts o_owners].
  rewrite !list_eqb_refl; auto using orec_eqb_refl, oz_eqb_refl, Z.eqb_refl.
  intros x. apply list_eqb_refl. apply Z.eqb_refl.
Qed.

Theorem checker_holds_on_model : forall accts names s o b,
  inv s ->
  in_universe accts names s -> in_universe accts names (fst (step s o)) ->
  (forall n, op_name o = Some n -> In n names) ->
  prop_step names (model_obs accts names s b) (s_now s) o
            (model_obs accts names (fst (step s o)) (snd (step s o))) = [].
Proof.
  intros accts names s o b Hinv Hu Hu' Hon.
  pose proof (step_inv s o Hinv) as Hinv'.
  unfold prop_step.
  rewrite !tag_true; [reflexivity| | | | |].
  - (* rejected changes nothing *)
    cbn [model_obs o_ok]. unfold step. destruct (exec s o); cbn [fst snd]; [reflexivity|].
    apply obs_same_model.
  - (* expired gone *)
    unfold p_expired_gone. destruct o; auto. destruct (dt <? 0) eqn:D; auto.
    apply forallb_forall. intros x Hx. apply In_obs_recs in Hx. destruct Hx as [r [Hr ->]].
    change (oexp (orec_of r)) with (a_exp r). destruct (a_exp r) as [e|] eqn:He; auto.
    destruct (e <? s_now s + dt) eqn:L; [|reflexivity]. cbn [negb orb].
    apply negb_true_iff. destruct (has_key _ (okey (orec_of r))) eqn:K; auto.
    apply has_key_model in K. destruct K as [r' [Hr' Hk]]. exfalso.
    apply (expired_gone_step s r e dt Hinv Hr He ltac:(lia) ltac:(lia) r' Hr'). exact Hk.
  - (* lookup *)
    unfold p_lookup. apply forallb_forall. intros x Hx. apply In_obs_recs in Hx.
    destruct Hx as [r [Hr ->]]. cbn [orec_of]. destruct (Hu' r Hr) as [Hn Ha].
    apply mem_In. rewrite holders_in_model by exact Hn. apply lookup_lists_holder; auto.
  - (* disappears *)
    unfold p_disappears. apply forallb_forall. intros x Hx. apply In_obs_recs in Hx.
    destruct Hx as [r [Hr ->]].
    destruct (has_key (model_obs accts names (fst (step s o)) (snd (step s o))) (okey (orec_of r))) eqn:K;
      [reflexivity|]. cbn [orb].
    assert (Ha : absent r (fst (step s o))).
    { intros r' Hr' Ek. assert (E : has_key (model_obs accts names (fst (step s o)) (snd (step s o))) (akey r) = true)
        by (apply has_key_model; eauto). rewrite okey_orec_of in K. congruence. }
    pose proof (disappears_step s o r Hinv Hr Ha) as J.
    assert (Hok : snd (step s o) = true).
    { unfold step in *. destruct (exec s o); [reflexivity|]. exfalso. apply (Ha r Hr). reflexivity. }
    cbn [model_obs o_ok]. rewrite Hok. cbn [andb].
    destruct (Hu r Hr) as [Hrn _].
    unfold justified. cbn [orec_of]. destruct o; cbn [AttributeProofs.justified] in J; try contradiction.
    + destruct J as [J1 J2]. subst. rewrite Z.eqb_refl. apply is_owner_model; auto.
    + destruct J as [J1 J2]. inversion J1; subst. rewrite !Z.eqb_refl. apply is_owner_model; auto.
    + destruct J as [J1 [J2 J3]]. subst. rewrite !Z.eqb_refl. apply is_owner_model; auto.
    + destruct J as [J1 [J2 [J3 J4]]]. subst. rewrite !Z.eqb_refl. apply is_owner_model; auto.
    + destruct J as [J1 J2]. subst. rewrite Z.eqb_refl. apply is_owner_model; auto.
    + destruct J as [e [J1 J2]]. rewrite J1. lia.
  - (* only owner *)
    unfold p_only_owner. cbn [model_obs o_ok]. destruct (snd (step s o)) eqn:Hok; [|reflexivity].
    pose proof (only_owner_step s o Hinv Hok) as W.
    destruct o; cbn [writer writes_as_owner] in *; auto;
      try (apply is_owner_model; [apply Hon; reflexivity|exact W]).
    destruct W as [W|[W _]].
    + rewrite is_owner_model; [reflexivity|apply Hon; reflexivity|exact W].
    + apply orb_true_iff. right. rewrite owner_in_model by (apply Hon; reflexivity). rewrite W. reflexivity.
Qed.

(** The universes are respected by histories whose operations stay inside them. *)
Definition op_ok (accts names : list Z) (o : op) : Prop :=
  match o with
  | OAdd _ a n _ _ _ _ | OUpdate _ a n _ _ _ _ _ => In a accts /\ In n names
  | OBind n _ | OModifyName _ n _ | ODeleteName _ n | OUpdateExp _ _ n _ _ _
  | ODelete _ _ n _ | ODeleteDistinct _ _ n _ _ | OPurge _ n => In n names
  | OBlock _ => True
  end.

Lemma op_ok_name : forall accts names o n, op_ok accts names o -> op_name o = Some n -> In n names.
Proof. intros accts names o n H E. destruct o; cbn in *; inversion E; subst; tauto. Qed.

Lemma universe_step : forall accts names s o,
  inv s -> in_universe accts names s -> op_ok accts names o -> in_universe accts names (fst (step s o)).
Proof.
  intros accts names s o [Hc Hn] Hu Hok. unfold step. destruct (exec s o) as [s'|] eqn:E; cbn [fst]; [|exact Hu].
  destruct o; cbn [exec op_ok] in *.
  - destruct (name_exists s n); inversion E; subst. exact Hu.
  - destruct (s_owner s n) as [cur|]; [|discriminate].
    destruct ((auth =? gov) || (auth =? cur)); inversion E; subst. exact Hu.
  - destruct (resolves s n c); [|discriminate]. unfold purge_attribute in E.
    destruct (may_remove _ c n); [|discriminate]. injection E as <-.
    pose proof (del_filter false
                (fun r => (a_name r =? n) && (0 <? s_cnt (set_owner s (upd_owner (s_owner s) n None)) n (a_acct r)))
                (set_owner s (upd_owner (s_owner s) n None))
                (inv_core_set_owner _ _ Hc)) as I. cbn zeta in I.
    cbn [set_owner s_recs s_cnt s_owner] in I. destruct I as [_ [I2 _]].
    intros r Hr. apply I2 in Hr. apply Hu. tauto.
  - unfold set_attribute in E. match type of E with (if ?b then _ else _) = _ => destruct b end;
      inversion E; subst. intros r. cbn [put set_store s_recs]. intros [<-|Hr].
    + cbn. tauto.
    + apply In_remove_key in Hr. apply Hu. tauto.
  - unfold update_attribute in E. match type of E with (if ?b then _ else _) = _ => destruct b end;
      [|discriminate].
    destruct (sp_inner sp); [discriminate|].
    destruct (find_rec (a, n, ov) (s_recs s)) as [cur|]; [|discriminate].
    destruct (a_type cur =? oty); inversion E; subst.
    intros r. cbn [put del_rec set_store s_recs]. intros [<-|Hr].
    + cbn. tauto.
    + apply In_remove_key in Hr. destruct Hr as [Hr _]. apply In_remove_key in Hr. apply Hu. tauto.
  - unfold update_expiration in E. match type of E with (if ?b then _ else _) = _ => destruct b end;
      [|discriminate].
    destruct (find_rec (a, n, v) (s_recs s)) as [cur|] eqn:F; inversion E; subst.
    apply find_rec_some in F. destruct F as [Hcur _].
    intros r. cbn [set_store s_recs]. intros [<-|Hr].
    + apply (Hu cur Hcur).
    + apply In_remove_key in Hr. apply Hu. tauto.
  - unfold delete_attribute in E. destruct (may_remove_raw s c n sp); [|discriminate].
    match type of E with context [filter ?p (s_recs s)] =>
      destruct (del_filter true p s Hc) as [_ [I2 _]]; destruct (filter p (s_recs s)) end;
      [discriminate|]. injection E as <-. cbn [fold_left] in I2.
    intros r Hr. apply I2 in Hr. apply Hu. tauto.
  - unfold delete_attribute in E. destruct (may_remove_raw s c n sp); [|discriminate].
    match type of E with context [filter ?p (s_recs s)] =>
      destruct (del_filter true p s Hc) as [_ [I2 _]]; destruct (filter p (s_recs s)) end;
      [discriminate|]. injection E as <-. cbn [fold_left] in I2.
    intros r Hr. apply I2 in Hr. apply Hu. tauto.
  - unfold purge_attribute in E. destruct (may_remove s c n); [|discriminate]. injection E as <-.
    match goal with |- context [filter ?p (s_recs s)] =>
      destruct (del_filter false p s Hc) as [_ [I2 _]] end.
    intros r Hr. apply I2 in Hr. apply Hu. tauto.
  - destruct (dt <? 0); inversion E; subst. unfold sweep.
    destruct (sweep_fold (due (s_now (set_now s (s_now s + dt))) (s_queue (set_now s (s_now s + dt))))
                (set_now s (s_now s + dt)) (inv_core_set_now _ _ Hc)) as [_ [I2 _]].
    intros r Hr. apply I2 in Hr. apply Hu. exact Hr.
Qed.

Lemma universe_run_from : forall accts names ops s,
  inv s -> in_universe accts names s -> Forall (op_ok accts names) ops ->
  in_universe accts names (run_from s ops).
Proof.
  intros accts names ops. induction ops as [|o t IH]; intros s Hi Hu Hf; cbn [run_from fold_left]; [exact Hu|].
  inversion Hf; subst. apply IH; auto using step_inv, universe_step.
Qed.

(** The executable checker used on the implementation's observations never fails on the model's
    own trace, for every history and next operation that stay inside the declared universes. *)
Theorem checker_holds_on_model_histories : forall t0 have accts names ops o b,
  Forall (op_ok accts names) ops -> op_ok accts names o ->
  let s := run t0 have ops in
  prop_step names (model_obs accts names s b) (s_now s) o
            (model_obs accts names (fst (step s o)) (snd (step s o))) = [].
Proof.
  intros t0 have accts names ops o b Hf Ho s.
  assert (Hi : inv s) by apply run_inv.
  assert (Hu : in_universe accts names s).
  { apply universe_run_from; auto. split; [apply inv_core_init|]; intros r []. intros r []. }
  apply checker_holds_on_model; auto.
  - apply universe_step; auto.
  - intros n. apply (op_ok_name accts names o n Ho).
Qed.
