(** The executable property checker of Corr/C16.v ([prop_core]: the five core tags) never fails
    on the model's own observations, for histories that stay inside declared, collision-free
    universes of accounts and names.  Hence a "prop:" failure of those tags on the real code is
    a behaviour the model cannot show. *)
From Coq Require Import ZArith NArith List Bool String Ascii Lia ZifyBool.
From PV Require Import Name.Name Proofs.NameProofs Proofs.AttrNameKeyProofs.
From PV Require Import Attribute.Attribute Proofs.AttributeProofs Corr.C16.
Import ListNotations.
Open Scope list_scope.
Open Scope Z_scope.

Lemma tag_true : forall b s, b = true -> tag b s = [].
Proof. intros b s ->. reflexivity. Qed.

(** * the model's observation *)
Lemma okey_orec_of : forall r, okey (orec_of r) = akey r.
Proof. reflexivity. Qed.

Lemma In_obs_recs : forall cfg accts names s ok q x,
  In x (o_recs (model_obs cfg accts names s ok q)) <-> exists r, In r (s_recs s) /\ x = orec_of r.
Proof.
  intros. cbn [model_obs o_recs]. rewrite in_map_iff. split; intros [r [H1 H2]]; exists r; auto.
Qed.

Lemma has_key_model : forall cfg accts names s ok q k,
  has_key (model_obs cfg accts names s ok q) k = true <-> exists r, In r (s_recs s) /\ akey r = k.
Proof.
  intros. unfold has_key. rewrite existsb_exists. split.
  - intros [x [Hx Hk]]. apply In_obs_recs in Hx. destruct Hx as [r [Hr ->]]. exists r. split; [exact Hr|].
    apply key_eqb_eq in Hk. exact Hk.
  - intros [r [Hr Hk]]. exists (orec_of r). split; [apply In_obs_recs; exists r; auto|].
    rewrite okey_orec_of. apply key_eqb_eq. exact Hk.
Qed.

Lemma find_obs_map : forall {B} (f : string -> B) names n,
  In n names -> find_obs names (map f names) n = Some (f n).
Proof.
  intros B f names n. induction names as [|m t IH]; intros H; [destruct H|]. cbn [map find_obs].
  destruct (String.eqb_spec m n) as [->|Hne]; [reflexivity|]. apply IH. destruct H as [H|H]; [contradiction|exact H].
Qed.

Lemma owner_in_model : forall cfg accts names s ok q n,
  In n names -> owner_in names (model_obs cfg accts names s ok q) n = owner_of s n.
Proof.
  intros cfg accts names s ok q n H. unfold owner_in, owner_of. cbn [model_obs o_owners]. unfold model_owners.
  rewrite (find_obs_map _ names n H). destruct (get_record idh (s_names s) n) as [nr|]; reflexivity.
Qed.

Lemma is_owner_model : forall cfg accts names s ok q n c,
  In n names -> owner_of s n = Some c -> is_owner names (model_obs cfg accts names s ok q) n c = true.
Proof.
  intros cfg accts names s ok q n c H E. unfold is_owner. rewrite (owner_in_model _ _ _ _ _ _ _ H), E.
  apply N.eqb_refl.
Qed.

Lemma holders_in_model : forall cfg accts names s ok q n,
  In n names -> holders_in names (model_obs cfg accts names s ok q) n = accounts_by_attribute s n accts.
Proof.
  intros cfg accts names s ok q n H. unfold holders_in. cbn [model_obs o_accts].
  rewrite (find_obs_map _ names n H). reflexivity.
Qed.

Lemma memN_In : forall x l, memN x l = true <-> In x l.
Proof.
  intros x l. unfold memN. rewrite existsb_exists. split.
  - intros [y [Hy E]]. apply N.eqb_eq in E. subst. exact Hy.
  - intros H. exists x. split; [exact H|apply N.eqb_refl].
Qed.

(** * reflexivity of the comparisons *)
Lemma list_eqb_refl : forall {A} (eqb : A -> A -> bool) l,
  (forall x, eqb x x = true) -> list_eqb eqb l l = true.
Proof. intros A eqb l H. induction l as [|x t IH]; cbn; [reflexivity|rewrite H, IH; reflexivity]. Qed.

Lemma oz_eqb_refl : forall x, oz_eqb x x = true.
Proof. intros [a|]; cbn; [apply Z.eqb_refl|reflexivity]. Qed.

Lemma orec_eqb_refl : forall x, orec_eqb x x = true.
Proof.
  intros [[[[a n] v] t] e]. cbn. rewrite N.eqb_refl, String.eqb_refl, !Z.eqb_refl, oz_eqb_refl. reflexivity.
Qed.

Lemma nrec_eqb_refl : forall x, nrec_eqb x x = true.
Proof. intros [[n a] r]. cbn. rewrite String.eqb_refl, N.eqb_refl. destruct r; reflexivity. Qed.

Lemma qent_eqb_refl : forall x, qent_eqb x x = true.
Proof. intros [[[t a] n] v]. cbn. rewrite !Z.eqb_refl, N.eqb_refl, String.eqb_refl. reflexivity. Qed.

Lemma queue_same_refl : forall l, queue_same l l = true.
Proof.
  intros l. unfold queue_same. rewrite Nat.eqb_refl, andb_true_r, andb_diag.
  apply forallb_forall. intros x Hx. apply existsb_exists. exists x. split; [exact Hx|apply qent_eqb_refl].
Qed.

Lemma obs_same_model : forall cfg accts names s b1 b2 q1 q2,
  obs_same (model_obs cfg accts names s b1 q1) (model_obs cfg accts names s b2 q2) = true.
Proof.
  intros. unfold obs_same, recs_same, accts_same. cbn [model_obs o_recs o_accts o_owners o_maxlen o_queue].
  rewrite queue_same_refl, andb_true_r.
  rewrite !list_eqb_refl, Z.eqb_refl; try reflexivity.
  - intros [x|]; cbn; [apply nrec_eqb_refl|reflexivity].
  - intros x. apply list_eqb_refl. apply N.eqb_refl.
  - apply orec_eqb_refl.
Qed.

(** * universes *)
Definition op_ok (cfg : config) (accts : list N) (names : list string) (o : op) : Prop :=
  op_in cfg names o /\
  match o with
  | OAdd _ a _ _ _ _ | OUpdate _ a _ _ _ _ _ | OSetAccountData _ a _ => In a accts
  | _ => True
  end.

Definition in_univ (accts : list N) (s : state) : Prop := forall r, In r (s_recs s) -> In (a_acct r) accts.

Lemma exec_in_univ : forall cfg accts names s o s',
  inv_core s -> op_ok cfg accts names o -> in_univ accts s -> exec cfg s o = Some s' -> in_univ accts s'.
Proof.
  intros cfg accts names s o s' Hc [_ Ho] Hu E. destruct o; cbn [exec] in E.
  - destruct (bind _ _ _ _ _ _ _ _); [|discriminate]. injection E as <-. exact Hu.
  - destruct (modify _ _ _ _ _ _ _); [|discriminate]. injection E as <-. exact Hu.
  - destruct (delete _ _ _ _ _) as [ns|]; [|discriminate]. destruct (norm cfg name); [|discriminate].
    destruct (purge_removes _ _ _ _ _ (inv_core_set_names s ns Hc) E) as [_ [_ [_ I3]]].
    intros r Hr. apply I3 in Hr. apply Hu. tauto.
  - destruct (set_attribute_spec _ _ _ _ _ _ _ _ _ E) as [n [_ [_ [_ ->]]]].
    intros r Hr. apply In_put in Hr. destruct Hr as [->|Hr]; [exact Ho|apply Hu; exact Hr].
  - destruct (update_attribute_spec _ _ _ _ _ _ _ _ _ _ E) as [n [cur [_ [_ [_ [_ [_ ->]]]]]]].
    intros r Hr. apply In_put in Hr. destruct Hr as [->|Hr]; [exact Ho|].
    cbn [del_rec set_store s_recs] in Hr. apply In_remove_key in Hr. apply Hu. tauto.
  - destruct (update_expiration_spec _ _ _ _ _ _ _ _ E) as [n [cur [_ [_ [_ [Hcur [_ ->]]]]]]].
    intros r Hr. cbn [set_store s_recs] in Hr. destruct Hr as [<-|Hr]; [exact (Hu cur Hcur)|].
    apply In_remove_key in Hr. apply Hu. tauto.
  - apply delete_msg_spec in E. destruct (delete_k_removes _ _ _ _ _ _ _ Hc E) as [_ [_ I3]].
    intros r Hr. apply I3 in Hr. apply Hu. tauto.
  - apply delete_msg_spec in E. destruct (delete_k_removes _ _ _ _ _ _ _ Hc E) as [_ [_ I3]].
    intros r Hr. apply I3 in Hr. apply Hu. tauto.
  - destruct (purge_removes _ _ _ _ _ Hc E) as [_ [_ [_ I3]]].
    intros r Hr. apply I3 in Hr. apply Hu. tauto.
  - destruct (set_account_data_spec _ _ _ _ _ _ E) as [s1 [Hd Hs]].
    assert (Hu1 : in_univ accts s1).
    { destruct Hd as [->|Hd]; [exact Hu|]. destruct (delete_k_removes _ _ _ _ _ _ _ Hc Hd) as [_ [_ I3]].
      intros r Hr. apply I3 in Hr. apply Hu. tauto. }
    destruct Hs as [->|Hs]; [exact Hu1|].
    destruct (set_attribute_spec _ _ _ _ _ _ _ _ _ Hs) as [n [_ [_ [_ ->]]]].
    intros r Hr. apply In_put in Hr. destruct Hr as [->|Hr]; [exact Ho|apply Hu1; exact Hr].
  - destruct (N.eqb auth gov); [|discriminate]. injection E as <-. exact Hu.
  - destruct (dt <? 0); [discriminate|]. injection E as <-.
    destruct (sweep_facts cfg limit (set_now s (s_now s + dt)) (inv_core_set_now _ _ Hc)) as [_ [I2 _]].
    intros r Hr. apply I2 in Hr. apply Hu. exact Hr.
Qed.

(** * counting for the cut-off sweep *)
Lemma filter_map_length : forall {A B} (f : A -> B) (p : B -> bool) l,
  List.length (filter p (map f l)) = List.length (filter (fun x => p (f x)) l).
Proof.
  intros A B f p l. induction l as [|x t IH]; cbn [map filter]; [reflexivity|].
  destruct (p (f x)); cbn [List.length]; rewrite IH; reflexivity.
Qed.

Lemma expired_at_orec : forall t r, expired_at t (orec_of r) = expired t r.
Proof. reflexivity. Qed.

Lemma filter_length_le_incl : forall (p q : attr -> bool) l l',
  NoDup (map akey l) -> (forall r, In r l -> p r = true -> In r l' /\ q r = true) ->
  NoDup (map akey l') ->
  (List.length (filter p l) <= List.length (filter q l'))%nat.
Proof.
  intros p q l l' Hnd H Hnd'. apply NoDup_incl_length.
  - assert (G : NoDup (map akey (filter p l))) by (apply NoDup_map_filter; exact Hnd).
    clear - G. induction (filter p l) as [|x t IH]; [constructor|]. cbn [map] in G.
    inversion G as [|? ? Hn Hd]; subst. constructor; [|apply IH; exact Hd].
    intros Hin. apply Hn. apply in_map. exact Hin.
  - intros r Hr. apply filter_In in Hr. destruct Hr as [Hr Hp]. apply filter_In. apply H; assumption.
Qed.

(** * the checker on one step of the model *)
Section Step.
  Variable cfg : config.
  Variable accts : list N.
  Variable names : list string.
  Hypothesis Hcf : coll_free names.

  Lemma p_only_owner_model : forall s o b q q',
    inv0 cfg s -> inv1 names s -> op_ok cfg accts names o ->
    p_only_owner (c_params cfg) names (model_obs cfg accts names s b q) o
      (model_obs cfg accts names (fst (step cfg s o)) (snd (step cfg s o)) q') = true.
  Proof.
    intros s o b q q' Hi0 Hi1 [Hin _]. unfold p_only_owner. cbn [model_obs o_ok].
    destruct (snd (step cfg s o)) eqn:Hok; [|reflexivity].
    pose proof (only_owner_step cfg names s o Hcf Hin Hi0 Hi1 Hok) as W.
    destruct o; cbn [writes_as_owner op_in] in *; try reflexivity;
      try (destruct W as [n [En Ho]]; unfold norm in En; rewrite En;
           apply is_owner_model; [apply Hin; exact En|exact Ho]).
    - (* purge *)
      unfold normalised. destruct (normalize (c_params cfg) name) as [n|] eqn:En; [|reflexivity].
      destruct (String.eqb_spec n name) as [->|]; [|reflexivity].
      assert (HU : In name names) by (apply Hin; exact En).
      destruct (W En) as [Ho|[Hnone _]].
      + rewrite (is_owner_model _ _ _ _ _ _ _ _ HU Ho). reflexivity.
      + apply orb_true_iff. right. unfold unowned, in_universe. apply andb_true_iff. split.
        * apply existsb_exists. exists name. split; [exact HU|apply String.eqb_refl].
        * cbn [model_obs o_owners]. unfold model_owners. rewrite (find_obs_map _ names name HU), Hnone. reflexivity.
    - (* account data *)
      destruct W as [Ho|Es].
      + rewrite (is_owner_model _ _ _ _ _ _ _ _ Hin Ho). reflexivity.
      + rewrite Es. apply orb_true_iff. right. fold (model_obs cfg accts names s true q'). apply obs_same_model.
  Qed.

  Lemma absent_of_no_key : forall s ok q r,
    has_key (model_obs cfg accts names s ok q) (akey r) = false -> absent r s.
  Proof.
    intros s ok q r H r' Hr' E. assert (has_key (model_obs cfg accts names s ok q) (akey r) = true).
    { apply has_key_model. exists r'. auto. } congruence.
  Qed.

  Lemma p_disappears_model : forall s o b q q',
    inv0 cfg s -> inv1 names s -> op_ok cfg accts names o ->
    p_disappears (c_params cfg) names (model_obs cfg accts names s b q) (s_now s) o
      (model_obs cfg accts names (fst (step cfg s o)) (snd (step cfg s o)) q') = true.
  Proof.
    intros s o b q q' Hi0 Hi1 [Hin _]. unfold p_disappears. apply forallb_forall. intros x Hx.
    apply In_obs_recs in Hx. destruct Hx as [r [Hr ->]]. rewrite okey_orec_of.
    destruct (has_key _ (akey r)) eqn:HK; [reflexivity|]. cbn [orb].
    pose proof (absent_of_no_key _ _ _ _ HK) as Ha.
    assert (Hok : snd (step cfg s o) = true).
    { destruct (snd (step cfg s o)) eqn:Hok; [reflexivity|]. exfalso.
      unfold step in Ha, Hok. destruct (exec cfg s o); [discriminate|]. cbn [fst] in Ha.
      exact (present_not_absent _ _ Hr Ha). }
    cbn [model_obs o_ok]. rewrite Hok. cbn [andb].
    pose proof (disappears_step cfg names s o r Hcf Hin Hi0 Hi1 Hr Ha) as J.
    pose proof (normal_fixed cfg s r (i_normal _ _ Hi0) Hr) as Hfix. unfold norm in Hfix.
    assert (HU : In (a_name r) names) by (apply Hi1; exact Hr).
    unfold C16.justified, orec_of.
    destruct o; cbn [AttributeProofs.justified] in J; try contradiction.
    - (* delete name *)
      destruct J as [En Ho]. unfold norm in En. rewrite En, String.eqb_refl. cbn [andb].
      apply is_owner_model; assumption.
    - (* update *)
      destruct J as [Hk [En Ho]]. unfold akey in Hk. injection Hk as Ha' _ Hv. unfold norm in En.
      rewrite Ha', En, Hv, N.eqb_refl, String.eqb_refl, Z.eqb_refl. cbn [andb].
      apply is_owner_model; assumption.
    - (* delete *)
      destruct J as [Ha' [En Ho]]. subst name. rewrite Ha', Hfix, N.eqb_refl, String.eqb_refl. cbn [andb].
      apply is_owner_model; assumption.
    - (* delete distinct *)
      destruct J as [Ha' [En [Hv Ho]]]. subst name. rewrite Ha', Hfix, Hv, N.eqb_refl, String.eqb_refl, Z.eqb_refl.
      cbn [andb]. apply is_owner_model; assumption.
    - (* purge *)
      destruct J as [Ek J]. unfold normalised.
      destruct (normalize (c_params cfg) name) as [n|] eqn:En; [|rewrite Ek; apply String.eqb_refl].
      destruct (String.eqb_spec n name) as [->|]; [|rewrite Ek; apply String.eqb_refl].
      destruct (J En) as [<- Ho]. rewrite String.eqb_refl. cbn [andb]. apply is_owner_model; assumption.
    - (* account data *)
      destruct J as [Ha' [En Ho]]. rewrite Ha', En, N.eqb_refl, String.eqb_refl. cbn [andb].
      apply is_owner_model; [rewrite <- En; exact HU|exact Ho].
    - (* block *)
      destruct J as [e [He Hlt]]. rewrite He. lia.
  Qed.

  Lemma p_lookup_model : forall s ok q,
    inv_core s -> inv1 names s -> in_univ accts s ->
    p_lookup names (model_obs cfg accts names s ok q) = true.
  Proof.
    intros s ok q Hc Hi1 Hu. unfold p_lookup. apply forallb_forall. intros x Hx.
    apply In_obs_recs in Hx. destruct Hx as [r [Hr ->]]. cbn [orec_of oacct oname].
    rewrite holders_in_model by (apply Hi1; exact Hr). apply memN_In.
    apply lookup_lists_holder; [exact Hc|exact Hr|apply Hu; exact Hr].
  Qed.

  Lemma p_expired_gone_model : forall s o b q q',
    inv_core s ->
    p_expired_gone (model_obs cfg accts names s b q) (s_now s) o
      (model_obs cfg accts names (fst (step cfg s o)) (snd (step cfg s o)) q') = true.
  Proof.
    intros s o b q q' Hc. unfold p_expired_gone. destruct o; try reflexivity.
    destruct (dt <? 0) eqn:D; [reflexivity|].
    set (t := s_now s + dt). set (s' := fst (step cfg s (OBlock dt limit))).
    cbn [model_obs o_recs].
    assert (Hlen : Z.of_nat (List.length (filter (expired_at t) (map orec_of (s_recs s)))) = ecount t s).
    { unfold ecount. rewrite filter_map_length. reflexivity. }
    rewrite Hlen.
    assert (Hgone : forall r, In r (s_recs s) -> expired t r = true -> absent r s' ->
                    has_key (model_obs cfg accts names s' (snd (step cfg s (OBlock dt limit))) q') (okey (orec_of r)) = false).
    { intros r Hr He Ha. rewrite okey_orec_of.
      destruct (has_key _ (akey r)) eqn:HK; [|reflexivity]. apply has_key_model in HK.
      destruct HK as [r' [Hr' Ek]]. exfalso. exact (Ha r' Hr' Ek). }
    assert (Hall : (forall r, In r (s_recs s) -> expired t r = true -> absent r s') ->
              filter (fun r0 => has_key (model_obs cfg accts names s' (snd (step cfg s (OBlock dt limit))) q') (okey r0))
                     (filter (expired_at t) (map orec_of (s_recs s))) = []).
    { intros H. apply filter_none. intros x Hx. apply filter_In in Hx. destruct Hx as [Hx He].
      apply in_map_iff in Hx. destruct Hx as [r [<- Hr]]. apply Hgone; auto. }
    destruct ((limit =? 0) || (ecount t s <=? limit)) eqn:B.
    - rewrite Hall; [reflexivity|]. intros r Hr He.
      unfold expired in He. destruct (a_exp r) as [e|] eqn:Ee; [|discriminate].
      apply orb_true_iff in B.
      apply (expired_gone_step cfg s r e dt limit Hc Hr Ee); [lia|unfold t in He; lia|].
      destruct B as [B|B]; [left|right]; unfold t in B; lia.
    - destruct (sweep_progress_step cfg s dt limit Hc ltac:(lia)) as [H|[Hl H]].
      + rewrite (Hall H). cbn [List.length]. lia.
      + fold t in H. fold s' in H.
        match goal with |- context [List.length (filter ?f (filter ?g ?l))] =>
          assert (Hle : Z.of_nat (List.length (filter f (filter g l))) <= ecount t s') end.
        { unfold ecount.
          destruct (block_step_facts cfg s dt limit Hc) as [Hc' Hsub]. fold s' in Hc', Hsub.
          set (present := fun r => has_key (model_obs cfg accts names s' (snd (step cfg s (OBlock dt limit))) q') (akey r)).
          assert (E1 : forall l, List.length (filter (fun r0 => has_key (model_obs cfg accts names s' (snd (step cfg s (OBlock dt limit))) q') (okey r0))
                                 (filter (expired_at t) (map orec_of l)))
                       = List.length (filter (fun r => present r && expired t r) l)).
          { induction l as [|x l IH]; [reflexivity|]. cbn [map filter].
            rewrite expired_at_orec. destruct (expired t x).
            - cbn [filter]. rewrite okey_orec_of. unfold present at 1. rewrite andb_true_r.
              destruct (has_key _ (akey x)); cbn [List.length]; rewrite IH; reflexivity.
            - rewrite andb_false_r. exact IH. }
          rewrite E1. apply Nat2Z.inj_le. apply filter_length_le_incl; [apply Hc| |apply Hc'].
          intros r Hr Hp. apply andb_true_iff in Hp. destruct Hp as [Hp He]. unfold present in Hp.
          apply has_key_model in Hp. destruct Hp as [r' [Hr' Ek]].
          assert (r' = r) by (apply (NoDup_key_unique (s_recs s)); [apply Hc|apply Hsub; exact Hr'|exact Hr|exact Ek]).
          subst r'. split; [exact Hr'|exact He]. }
        lia.
  Qed.

  Theorem checker_holds_on_model : forall s o b q q',
    inv0 cfg s -> inv1 names s -> in_univ accts s -> op_ok cfg accts names o ->
    prop_core (c_params cfg) names (model_obs cfg accts names s b q) (s_now s) o
              (model_obs cfg accts names (fst (step cfg s o)) (snd (step cfg s o)) q') = [].
  Proof.
    intros s o b q q' Hi0 Hi1 Hu Hok. unfold prop_core.
    rewrite (tag_true _ _ (p_only_owner_model s o b q q' Hi0 Hi1 Hok)).
    rewrite (tag_true _ _ (p_disappears_model s o b q q' Hi0 Hi1 Hok)).
    rewrite (tag_true _ _ (p_expired_gone_model s o b q q' (i_core _ _ Hi0))).
    assert (Hi0' : inv0 cfg (fst (step cfg s o))) by (apply step_inv0; exact Hi0).
    assert (Hi1' : inv1 names (fst (step cfg s o))) by (apply step_inv1; auto; apply Hok).
    assert (Hu' : in_univ accts (fst (step cfg s o))).
    { unfold step. destruct (exec cfg s o) eqn:E; cbn [fst]; [|exact Hu].
      eapply exec_in_univ; eauto. apply Hi0. }
    rewrite (tag_true _ _ (p_lookup_model _ _ q' (i_core _ _ Hi0') Hi1' Hu')).
    cbn [app]. apply tag_true. cbn [model_obs o_ok].
    destruct (snd (step cfg s o)) eqn:Hs; [reflexivity|]. cbn [orb].
    assert (fst (step cfg s o) = s) as ->.
    { unfold step in *. destruct (exec cfg s o); [discriminate|reflexivity]. }
    apply obs_same_model.
  Qed.
End Step.

(** the raw-queue clause of the checker on the model: [ic_queue] *)
Lemma p_queue_model : forall cfg accts names s ok q,
  inv_core s -> p_queue (model_obs cfg accts names s ok q) = true.
Proof.
  intros cfg accts names s ok q Hc. unfold p_queue. apply forallb_forall. intros x Hx.
  apply In_obs_recs in Hx. destruct Hx as [r [Hr ->]]. cbn [orec_of oexp oacct oname oval].
  destruct (a_exp r) as [e|] eqn:He; [|reflexivity].
  unfold qmem. apply existsb_exists. exists (e, a_acct r, ank (a_name r), a_val r).
  split; [|apply qent_eqb_refl]. cbn [model_obs o_queue]. unfold model_queue.
  apply in_map_iff. exists (e, akey r). split; [reflexivity|]. apply (ic_queue _ Hc); assumption.
Qed.

Theorem queue_checker_holds_on_model_histories : forall cfg accts names t0 ops ok q,
  p_queue (model_obs cfg accts names (run cfg t0 ops) ok q) = true.
Proof. intros. apply p_queue_model. apply (run_inv0 cfg t0 ops). Qed.

(** * over histories *)
Lemma in_univ_run_from : forall cfg accts names ops s,
  inv0 cfg s -> in_univ accts s -> Forall (op_ok cfg accts names) ops -> in_univ accts (run_from cfg s ops).
Proof.
  intros cfg accts names ops. induction ops as [|o t IH]; intros s Hi Hu Hops; cbn [run_from fold_left]; [exact Hu|].
  inversion Hops as [|? ? Ho Ht]; subst. apply IH; [apply step_inv0; exact Hi| |exact Ht].
  unfold step. destruct (exec cfg s o) eqn:E; cbn [fst]; [|exact Hu]. eapply exec_in_univ; eauto. apply Hi.
Qed.

Theorem checker_holds_on_model_histories : forall cfg accts names t0 ops o b q q',
  coll_freeb names = true -> genesis_inb cfg names = true ->
  Forall (op_ok cfg accts names) ops -> op_ok cfg accts names o ->
  let s := run cfg t0 ops in
  prop_core (c_params cfg) names (model_obs cfg accts names s b q) (s_now s) o
            (model_obs cfg accts names (fst (step cfg s o)) (snd (step cfg s o)) q') = [].
Proof.
  intros cfg accts names t0 ops o b q q' Hcf Hg Hops Ho s.
  apply coll_freeb_sound in Hcf. apply genesis_inb_sound in Hg.
  apply checker_holds_on_model; auto.
  - apply run_inv0.
  - apply run_inv1; auto. eapply Forall_impl; [|exact Hops]. intros x [H _]. exact H.
  - apply (in_univ_run_from cfg accts names); auto; [apply inv0_init|intros r []].
Qed.
