(** Lemmas about Metadata/Signers.v, part 6: the REQUIRED party list only matters as a set.
    BuildPartyDetails is put in normal form (available parties in their order, flagged required
    exactly when some non-optional required entry has the same address and role, followed by the
    remaining non-optional required parties, first occurrences); hence the outcome of
    validateAllRequiredPartiesSigned / ValidateSignersWithParties is insensitive to the ORDER of
    the concatenated lists scope owners ++ session parties ++ previous session parties, to
    DUPLICATES and to optional entries of the same party (an earlier optional entry cannot hide a
    later required one).  The order of the AVAILABLE parties, in contrast, is observable when a
    smart contract holds a grant (witness at the end). *)
From Coq Require Import ZArith List Bool Lia Permutation.
From PV Require Import Metadata.Signers Metadata.SignersSpec Proofs.SignersProofs
  Proofs.SignersProofs2 Proofs.SignersProofs3 Proofs.SignersProofs4.
Import ListNotations.
Open Scope Z_scope.

Definition reqkeys (req : list party) : list (Z * Z) := map pkey (nonopt req).
Definition inb (k : Z * Z) (ks : list (Z * Z)) : bool := existsb (key_eqb k) ks.
Definition mark_req (ks : list (Z * Z)) (d : details) : details :=
  if inb (key d) ks then make_required d else d.
Definition wrap_key (k : Z * Z) : details :=
  {| d_addr := fst k; d_role := snd k; d_opt := false; d_signer := None;
     d_can := false; d_used := false |}.

(** the required parties as a set of (address, role) *)
Definition same_reqset (req req' : list party) : Prop :=
  forall k, In k (reqkeys req) <-> In k (reqkeys req').

Lemma inb_In : forall k ks, inb k ks = true <-> In k ks.
Proof.
  intros k ks. unfold inb. rewrite existsb_exists. split.
  - intros (x & Hx & He). apply key_eqb_eq in He. now subst.
  - intros H. exists k. split; auto. now apply key_eqb_eq.
Qed.

Lemma inb_app : forall k l1 l2, inb k (l1 ++ l2) = inb k l1 || inb k l2.
Proof. intros. unfold inb. apply existsb_app. Qed.

Lemma key_eqb_sym : forall a b, key_eqb a b = key_eqb b a.
Proof. intros a b. unfold key_eqb. now rewrite (Z.eqb_sym (fst a)), (Z.eqb_sym (snd a)). Qed.

Lemma key_eqb_refl : forall a, key_eqb a a = true.
Proof. intros a. now apply key_eqb_eq. Qed.

(** ** filter / dedup_keys *)
Lemma filter_comm : forall A (f g : A -> bool) l, filter f (filter g l) = filter g (filter f l).
Proof.
  intros A f g l; induction l as [|x t IH]; cbn; [reflexivity|].
  destruct (g x) eqn:Hg, (f x) eqn:Hf; cbn; rewrite ?Hg, ?Hf, IH; reflexivity.
Qed.

Lemma filter_and : forall A (f g : A -> bool) l,
  filter (fun x => f x && g x) l = filter g (filter f l).
Proof.
  intros A f g l; induction l as [|x t IH]; cbn; [reflexivity|].
  destruct (f x) eqn:Hf; cbn; [destruct (g x); now rewrite IH|exact IH].
Qed.

Lemma filter_ext_in' : forall A (f g : A -> bool) l,
  (forall x, In x l -> f x = g x) -> filter f l = filter g l.
Proof.
  intros A f g l; induction l as [|x t IH]; intros H; cbn; [reflexivity|].
  rewrite (H x (or_introl eq_refl)), IH; [reflexivity|]. intros y Hy. apply H. now right.
Qed.

Lemma dedup_filter_comm : forall (g : Z * Z -> bool) l,
  dedup_keys (filter g l) = filter g (dedup_keys l).
Proof.
  intros g l; induction l as [|x t IH]; [reflexivity|].
  cbn [filter]. destruct (g x) eqn:Hg; cbn [dedup_keys filter]; rewrite ?Hg, IH.
  - f_equal. apply filter_comm.
  - rewrite (filter_comm _ g), <- filter_and. apply filter_ext_in'.
    intros y _. destruct (key_eqb x y) eqn:He; cbn; [|now rewrite andb_true_r].
    apply key_eqb_eq in He. subst y. now rewrite Hg.
Qed.

Lemma dedup_keys_nodup_id : forall l, NoDup l -> dedup_keys l = l.
Proof.
  induction l as [|x t IH]; intros Hnd; [reflexivity|]. inversion Hnd as [|? ? Hnin Hnd']; subst.
  cbn. rewrite (IH Hnd'). f_equal. rewrite <- (filter_ext_in' _ (fun _ => true)).
  - clear. induction t as [|y t IH]; cbn; [reflexivity|now rewrite IH].
  - intros y Hy. destruct (key_eqb x y) eqn:He; [|reflexivity].
    apply key_eqb_eq in He. subst. contradiction.
Qed.

(** ** add_required in normal form *)
Lemma make_required_idem : forall d, make_required (make_required d) = make_required d.
Proof. reflexivity. Qed.

Lemma key_mark_req : forall ks d, key (mark_req ks d) = key d.
Proof. intros ks d. unfold mark_req. destruct (inb (key d) ks); reflexivity. Qed.

Lemma mark_req_nil : forall d, mark_req [] d = d.
Proof. reflexivity. Qed.

Lemma mark_req_cons : forall k ks d,
  mark_req ks (mark_req [k] d) = mark_req (k :: ks) d.
Proof.
  intros k ks d. unfold mark_req at 2. unfold inb. cbn [existsb]. rewrite orb_false_r.
  destruct (key_eqb (key d) k) eqn:He.
  - unfold mark_req. change (key (make_required d)) with (key d). unfold inb. cbn [existsb].
    rewrite He. cbn. destruct (existsb (key_eqb (key d)) ks); reflexivity.
  - unfold mark_req, inb. cbn [existsb]. rewrite He. reflexivity.
Qed.

Lemma mark_req_skip : forall k ks d, key d <> k -> mark_req (k :: ks) d = mark_req ks d.
Proof.
  intros k ks d Hne. unfold mark_req, inb. cbn [existsb].
  destruct (key_eqb (key d) k) eqn:He; [apply key_eqb_eq in He; contradiction|reflexivity].
Qed.

Lemma add_required_normal : forall req acc,
  NoDup (map key acc) ->
  add_required acc req =
  map (mark_req (reqkeys req)) acc ++
  map wrap_key (dedup_keys (filter (fun k => negb (inb k (map key acc))) (reqkeys req))).
Proof.
  induction req as [|p rest IH]; intros acc Hnd; cbn [add_required].
  - cbn. rewrite app_nil_r. rewrite <- (map_id acc) at 1. apply map_ext. reflexivity.
  - destruct (p_opt p) eqn:Hopt.
    + rewrite (IH _ Hnd). unfold reqkeys, nonopt. cbn [filter]. rewrite Hopt. reflexivity.
    + assert (Hrk : reqkeys (p :: rest) = pkey p :: reqkeys rest).
      { unfold reqkeys, nonopt. cbn [filter]. rewrite Hopt. reflexivity. }
      rewrite Hrk. set (k := pkey p). set (ks := reqkeys rest).
      destruct (take_first (same_as (p_addr p) (p_role p)) make_required acc) as [acc'|] eqn:HT.
      * destruct (take_first_some _ _ _ _ HT) as (l1 & d & l2 & -> & -> & Hd & Hl1).
        apply same_as_key in Hd. change (key d = k) in Hd.
        assert (Hk' : map key (l1 ++ make_required d :: l2) = map key (l1 ++ d :: l2))
          by (rewrite !map_app; reflexivity).
        assert (Hother : forall x, In x l1 \/ In x l2 -> key x <> k).
        { intros x Hx Hkx. rewrite map_app in Hnd. cbn in Hnd. apply NoDup_remove_2 in Hnd.
          apply Hnd. rewrite Hd, <- Hkx. apply in_or_app.
          destruct Hx as [Hx|Hx]; [left|right]; now apply in_map. }
        assert (Hacc' : l1 ++ make_required d :: l2 = map (mark_req [k]) (l1 ++ d :: l2)).
        { rewrite map_app. cbn [map]. f_equal; [|f_equal].
          - rewrite <- (map_id l1) at 1. apply map_ext_in. intros x Hx.
            rewrite mark_req_skip; [reflexivity|apply Hother; now left].
          - unfold mark_req, inb. cbn [existsb]. rewrite Hd, key_eqb_refl. reflexivity.
          - rewrite <- (map_id l2) at 1. apply map_ext_in. intros x Hx.
            rewrite mark_req_skip; [reflexivity|apply Hother; now right]. }
        rewrite (IH _ (eq_ind_r (fun l => NoDup l) Hnd Hk')). rewrite Hk'.
        assert (Hin : inb k (map key (l1 ++ d :: l2)) = true).
        { apply inb_In. rewrite <- Hd. apply in_map. apply in_or_app. right. now left. }
        cbn [filter]. rewrite Hin. cbn [negb]. f_equal.
        rewrite Hacc', map_map. apply map_ext. intros x. apply mark_req_cons.
      * assert (Hnin : ~ In k (map key acc)).
        { intros H. apply in_map_iff in H as (d & Hkd & Hd).
          pose proof (proj1 (take_first_none _ _ _) HT d Hd) as Hf.
          assert (same_as (p_addr p) (p_role p) d = true) by (apply same_as_key; exact Hkd).
          congruence. }
        assert (Hw : wrap_required p = wrap_key k).
        { unfold wrap_required, wrap_key, k, pkey. cbn. now rewrite Hopt. }
        rewrite Hw.
        assert (Hnd' : NoDup (map key (acc ++ [wrap_key k]))).
        { rewrite map_app. cbn. apply NoDup_snoc; auto. }
        rewrite (IH _ Hnd').
        assert (Hinb : inb k (map key acc) = false).
        { destruct (inb k (map key acc)) eqn:Hi; [apply inb_In in Hi; contradiction|reflexivity]. }
        cbn [filter]. rewrite Hinb. cbn [negb dedup_keys map].
        rewrite map_app, <- app_assoc. cbn [map app]. f_equal.
        -- apply map_ext_in. intros x Hx. symmetry. apply mark_req_skip.
           intros Hkx. apply Hnin. rewrite <- Hkx. now apply in_map.
        -- f_equal.
           ++ unfold mark_req.
              match goal with |- (if ?b then _ else _) = _ => destruct b end; reflexivity.
           ++ f_equal. rewrite <- dedup_filter_comm. f_equal. rewrite <- filter_and.
              apply filter_ext_in'. intros x _. rewrite map_app, inb_app. cbn [map].
              unfold inb at 2. cbn [existsb]. rewrite orb_false_r.
              change (key (wrap_key k)) with (fst k, snd k). rewrite <- surjective_pairing.
              rewrite negb_orb, (key_eqb_sym k x). reflexivity.
Qed.

Lemma add_available_nodup : forall avail, NoDup (map key (add_available [] avail)).
Proof.
  intros avail.
  assert (H0 : Inv (fun _ => False) (fun _ => False) []).
  { split; [constructor|]. split; [intros d []|]. intros k; cbn; tauto. }
  now destruct (add_available_inv avail _ _ H0) as (Hnd & _).
Qed.

Definition avail_part (req avail : list party) : list details :=
  map (mark_req (reqkeys req)) (add_available [] avail).
Definition extra_keys (req avail : list party) : list (Z * Z) :=
  dedup_keys (filter (fun k => negb (inb k (map key (add_available [] avail)))) (reqkeys req)).

(** BuildPartyDetails, normal form. *)
Lemma build_normal : forall req avail,
  build_party_details req avail = avail_part req avail ++ map wrap_key (extra_keys req avail).
Proof.
  intros req avail. unfold build_party_details. apply add_required_normal, add_available_nodup.
Qed.

(** The required-party set of BuildPartyDetails is exactly the set of (address, role) of the
    non-optional entries of [req]: whatever the order, the repetitions, the optional entries of the
    same party elsewhere in [req], and the flags in [avail]. *)
Lemma required_set_spec : forall req avail k,
  (exists d, In d (build_party_details req avail) /\ key d = k /\ d_opt d = false) <->
  (exists p, In p req /\ p_opt p = false /\ pkey p = k).
Proof.
  intros req avail k. destruct (build_inv req avail) as (_ & Hall & Hk). split.
  - intros (d & Hd & Hkd & Ho). destruct (Hall d Hd) as (_ & _ & _ & H4).
    apply H4 in Ho. unfold PQof in Ho. apply in_map_iff in Ho as (p & Hkp & Hp).
    apply filter_In in Hp as [Hp Hop]. apply negb_true_iff in Hop. exists p. split; auto. split; auto. congruence.
  - intros (p & Hp & Ho & Hkp).
    assert (HQ : PQof req k).
    { unfold PQof, nonopt. rewrite <- Hkp. apply in_map. apply filter_In. split; auto. now rewrite Ho. }
    assert (Hin : In k (map key (build_party_details req avail))) by (apply Hk; now right).
    apply in_map_iff in Hin as (d & Hkd & Hd). exists d. split; auto. split; auto.
    destruct (Hall d Hd) as (_ & _ & _ & H4). apply H4. now rewrite Hkd.
Qed.

Lemma same_reqset_app_comm : forall l1 l2, same_reqset (l1 ++ l2) (l2 ++ l1).
Proof.
  intros l1 l2 k. unfold reqkeys, nonopt. rewrite !filter_app, !map_app, !in_app_iff. tauto.
Qed.

Lemma same_reqset_dup : forall l, same_reqset (l ++ l) l.
Proof.
  intros l k. unfold reqkeys, nonopt. rewrite !filter_app, !map_app, !in_app_iff. tauto.
Qed.

Lemma same_reqset_nonopt : forall l, same_reqset l (nonopt l).
Proof.
  intros l k. unfold reqkeys, nonopt. rewrite <- filter_and.
  erewrite (filter_ext_in' _ (fun x => negb (p_opt x) && negb (p_opt x))); [reflexivity|].
  intros x _. now rewrite andb_diag.
Qed.

Lemma same_reqset_perm : forall l l', Permutation l l' -> same_reqset l l'.
Proof.
  intros l l' HP k. unfold reqkeys, nonopt. rewrite !in_map_iff.
  split; intros (p & Hk & Hp); exists p; (split; [exact Hk|]); apply filter_In in Hp as [Hp Ho];
    apply filter_In; (split; [|exact Ho]).
  - eapply Permutation_in; eauto.
  - eapply Permutation_in; [apply Permutation_sym|]; eauto.
Qed.

(** ** The passes on [A ++ R] where nothing in [R] can be used by the spec *)
Lemma take_first_app_l : forall P upd A R,
  (forall x, In x R -> P x = false) ->
  take_first P upd (A ++ R) =
  match take_first P upd A with Some A' => Some (A' ++ R) | None => None end.
Proof.
  intros P upd A R HR; induction A as [|a t IH]; cbn.
  - now apply take_first_none.
  - destruct (P a); [reflexivity|]. rewrite IH. destruct (take_first P upd t); reflexivity.
Qed.

Definition cannot (d : details) : Prop := d_can d = false.

Lemma usable_cannot : forall r d, cannot d -> usable_as r d = false.
Proof. intros r d H. unfold usable_as. now rewrite H. Qed.

Lemma pass_a_app : forall roles A R,
  Forall cannot R ->
  associate_required_roles (A ++ R) roles =
  (fst (associate_required_roles A roles) ++ R, snd (associate_required_roles A roles)).
Proof.
  induction roles as [|r rest IH]; intros A R HR; cbn [associate_required_roles]; [reflexivity|].
  rewrite take_first_app_l.
  2:{ intros x Hx. rewrite Forall_forall in HR. now rewrite (usable_cannot _ _ (HR x Hx)). }
  destruct (take_first _ mark_used A) as [A'|].
  - now rewrite IH.
  - rewrite (IH _ _ HR). destruct (associate_required_roles A rest). reflexivity.
Qed.

Lemma pass_b_app : forall e signers missing A R,
  Forall cannot R ->
  associate_authz_for_roles e signers (A ++ R) missing =
  (fst (associate_authz_for_roles e signers A missing) ++ R,
   snd (associate_authz_for_roles e signers A missing)).
Proof.
  intros e signers; induction missing as [|r rest IH]; intros A R HR;
    cbn [associate_authz_for_roles]; [reflexivity|].
  rewrite take_first_app_l.
  2:{ intros x Hx. rewrite Forall_forall in HR. now rewrite (usable_cannot _ _ (HR x Hx)). }
  destruct (take_first _ (take_grantee e signers) A) as [A'|].
  - now rewrite IH.
  - rewrite (IH _ _ HR). destruct (associate_authz_for_roles e signers A rest). reflexivity.
Qed.

Lemma sign1_can : forall e signers d, d_can (sign1 e signers d) = d_can d.
Proof.
  intros e signers d. unfold sign1.
  destruct (mem (d_addr d) signers); cbn;
    match goal with |- context [if ?b then _ else _] => destruct b end; cbn; try reflexivity;
    match goal with |- context [match ?x with Some _ => _ | None => _ end] => destruct x end; reflexivity.
Qed.

(** validateAllRequiredPartiesSigned as a function of the two parts. *)
Definition signed_parts (e : env) (signers roles : list Z) (A R : list details) : option (list details) :=
  let A2 := map (sign1 e signers) A in
  let R2 := map (sign1 e signers) R in
  match unsigned_required A2 ++ unsigned_required R2 with
  | _ :: _ => None
  | [] =>
      let '(A3, missing) := associate_required_roles A2 roles in
      let '(A4, roles_missing) := associate_authz_for_roles e signers A3 missing in
      if roles_missing then None else Some (A4 ++ R2)
  end.

Lemma signed_as_parts : forall e req avail roles signers,
  validate_all_required_parties_signed e req avail roles signers =
  signed_parts e signers roles (avail_part req avail) (map wrap_key (extra_keys req avail)).
Proof.
  intros e req avail roles signers. unfold validate_all_required_parties_signed, signed_parts.
  rewrite sign_pass_map, build_normal, map_app.
  set (A2 := map (sign1 e signers) (avail_part req avail)).
  set (R2 := map (sign1 e signers) (map wrap_key (extra_keys req avail))).
  assert (HR : Forall cannot R2).
  { apply Forall_forall. intros x Hx. unfold R2 in Hx. rewrite map_map in Hx.
    apply in_map_iff in Hx as (k & <- & _). unfold cannot. now rewrite sign1_can. }
  unfold unsigned_required at 1. rewrite filter_app. fold (unsigned_required A2) (unsigned_required R2).
  destruct (unsigned_required A2 ++ unsigned_required R2); [|reflexivity].
  rewrite (pass_a_app _ _ _ HR). destruct (associate_required_roles A2 roles) as [A3 missing]. cbn [fst snd].
  rewrite (pass_b_app _ _ _ _ _ HR). destruct (associate_authz_for_roles e signers A3 missing) as [A4 f].
  reflexivity.
Qed.

(** ** Two required lists with the same set *)
Lemma avail_part_same : forall req req' avail,
  same_reqset req req' -> avail_part req avail = avail_part req' avail.
Proof.
  intros req req' avail Hs. unfold avail_part. apply map_ext. intros d. unfold mark_req.
  assert (inb (key d) (reqkeys req) = inb (key d) (reqkeys req')) as ->; [|reflexivity].
  apply eq_true_iff_eq. rewrite !inb_In. apply Hs.
Qed.

Lemma extra_keys_perm : forall req req' avail,
  same_reqset req req' -> Permutation (extra_keys req avail) (extra_keys req' avail).
Proof.
  intros req req' avail Hs. unfold extra_keys. apply NoDup_Permutation; try apply dedup_keys_NoDup.
  intros k. rewrite !dedup_keys_In, !filter_In. now rewrite (Hs k).
Qed.

Lemma filter_perm_nil : forall A (f : A -> bool) l l',
  Permutation l l' -> (filter f l = [] <-> filter f l' = []).
Proof.
  assert (H : forall A (f : A -> bool) l l', Permutation l l' -> filter f l = [] -> filter f l' = []).
  { intros A f l l' HP Hn. destruct (filter f l') as [|x t] eqn:Hf; [reflexivity|]. exfalso.
    assert (Hx : In x (filter f l')) by (rewrite Hf; now left).
    apply filter_In in Hx as [Hx Hfx].
    assert (In x (filter f l)) by (apply filter_In; split; auto; eapply Permutation_in;
                                   [apply Permutation_sym|]; eauto).
    rewrite Hn in H. destruct H. }
  intros A f l l' HP. split; apply H; [exact HP|now apply Permutation_sym].
Qed.

Lemma signed_parts_perm : forall e signers roles A R R',
  Permutation R R' ->
  match signed_parts e signers roles A R, signed_parts e signers roles A R' with
  | Some ds, Some ds' => Permutation ds ds'
  | None, None => True
  | _, _ => False
  end.
Proof.
  intros e signers roles A R R' HP. unfold signed_parts.
  set (A2 := map (sign1 e signers) A).
  assert (HP2 : Permutation (map (sign1 e signers) R) (map (sign1 e signers) R')) by now apply Permutation_map.
  pose proof (filter_perm_nil _ (fun d => is_required d && negb (has_signer d)) _ _ HP2) as Hnil.
  fold (unsigned_required (map (sign1 e signers) R)) (unsigned_required (map (sign1 e signers) R')) in Hnil.
  destruct (unsigned_required A2) as [|u t]; cbn [app].
  - destruct (unsigned_required (map (sign1 e signers) R)) as [|u t] eqn:HU.
    + rewrite (proj1 Hnil eq_refl).
      destruct (associate_required_roles A2 roles) as [A3 missing].
      destruct (associate_authz_for_roles e signers A3 missing) as [A4 f].
      destruct f; [exact I|]. now apply Permutation_app_head.
    + destruct (unsigned_required (map (sign1 e signers) R')) as [|u' t'] eqn:HU'; [|exact I].
      pose proof (proj2 Hnil eq_refl). discriminate.
  - exact I.
Qed.

Lemma signed_reqset : forall e req req' avail roles signers,
  same_reqset req req' ->
  match validate_all_required_parties_signed e req avail roles signers,
        validate_all_required_parties_signed e req' avail roles signers with
  | Some ds, Some ds' => Permutation ds ds'
  | None, None => True
  | _, _ => False
  end.
Proof.
  intros e req req' avail roles signers Hs. rewrite !signed_as_parts.
  rewrite (avail_part_same _ _ _ Hs). apply signed_parts_perm.
  apply Permutation_map. now apply extra_keys_perm.
Qed.

(** ** What the later checks see of a permuted party list *)
Lemma forallb_perm : forall A (f : A -> bool) l l', Permutation l l' -> forallb f l = forallb f l'.
Proof.
  intros A f l l' HP; induction HP; cbn; auto.
  - now rewrite IHHP.
  - destruct (f x), (f y); reflexivity.
  - congruence.
Qed.

Lemma used_signers_perm : forall ds ds' s,
  Permutation ds ds' -> mem s (used_signers ds) = mem s (used_signers ds').
Proof.
  intros ds ds' s HP. apply eq_true_iff_eq. rewrite !mem_In, !used_signers_In.
  split; intros (d & Hd & Hs); exists d; (split; [|exact Hs]).
  - eapply Permutation_in; eauto.
  - eapply Permutation_in; [apply Permutation_sym|]; eauto.
Qed.

Lemma sc_loop_ext : forall e u u' signers b,
  (forall s, mem s u = mem s u') -> sc_loop e u b signers = sc_loop e u' b signers.
Proof.
  intros e u u' signers; induction signers as [|s rest IH]; intros b H; cbn [sc_loop]; [reflexivity|].
  rewrite (H s). destruct (is_wasm e s && negb b); [reflexivity|].
  destruct (negb (is_wasm e s)); [now apply IH|].
  destruct (mem s u'); [now apply IH|]. destruct rest; [reflexivity|].
  destruct (forallb _ _); [now apply IH|reflexivity].
Qed.

(** ValidateSignersWithParties depends on the required list only through its set. *)
Theorem with_parties_reqset : forall e req req' avail roles signers,
  same_reqset req req' ->
  validate_signers_with_parties e req avail roles signers =
  validate_signers_with_parties e req' avail roles signers.
Proof.
  intros e req req' avail roles signers Hs. unfold validate_signers_with_parties.
  pose proof (signed_reqset e req req' avail roles signers Hs) as H.
  destruct (validate_all_required_parties_signed e req avail roles signers) as [ds|],
           (validate_all_required_parties_signed e req' avail roles signers) as [ds'|];
    [|destruct H|destruct H|reflexivity].
  unfold validate_provenance_role, validate_smart_contract_signers.
  rewrite (forallb_perm _ _ _ _ H). f_equal. apply sc_loop_ext. intros s. now apply used_signers_perm.
Qed.

Theorem signed_then_contracts_reqset : forall e req req' avail roles signers,
  same_reqset req req' ->
  signed_then_contracts e req avail roles signers = signed_then_contracts e req' avail roles signers.
Proof.
  intros e req req' avail roles signers Hs. unfold signed_then_contracts.
  pose proof (signed_reqset e req req' avail roles signers Hs) as H.
  destruct (validate_all_required_parties_signed e req avail roles signers) as [ds|],
           (validate_all_required_parties_signed e req' avail roles signers) as [ds'|];
    [|destruct H|destruct H|reflexivity].
  unfold validate_smart_contract_signers. apply sc_loop_ext. intros s. now apply used_signers_perm.
Qed.

(** Order of the concatenated lists, duplicates, optional entries. *)
Corollary with_parties_req_order : forall e l1 l2 avail roles signers,
  validate_signers_with_parties e (l1 ++ l2) avail roles signers =
  validate_signers_with_parties e (l2 ++ l1) avail roles signers.
Proof. intros. apply with_parties_reqset, same_reqset_app_comm. Qed.

Corollary with_parties_req_dup : forall e req avail roles signers,
  validate_signers_with_parties e (req ++ req) avail roles signers =
  validate_signers_with_parties e req avail roles signers.
Proof. intros. apply with_parties_reqset, same_reqset_dup. Qed.

Corollary with_parties_req_optional_irrelevant : forall e req avail roles signers,
  validate_signers_with_parties e req avail roles signers =
  validate_signers_with_parties e (nonopt req) avail roles signers.
Proof. intros. apply with_parties_reqset, same_reqset_nonopt. Qed.

Corollary with_parties_req_order_dup : forall e l1 l2 avail roles signers,
  validate_signers_with_parties e (l1 ++ l2) avail roles signers =
  validate_signers_with_parties e (l2 ++ l1) avail roles signers /\
  validate_signers_with_parties e (l1 ++ l1) avail roles signers =
  validate_signers_with_parties e l1 avail roles signers.
Proof. intros. split; [apply with_parties_req_order|apply with_parties_req_dup]. Qed.

(** GetRequiredPartyAddresses (used when the specification is gone): a set, too. *)
Lemma required_party_addrs_set : forall ps a,
  In a (required_party_addrs ps) <-> exists p, In p ps /\ p_opt p = false /\ p_addr p = a.
Proof. intros ps a. rewrite required_party_addrs_In. apply nonopt_addrs_In. Qed.

(** A record write with rollup: scope owners, session parties and previous-session parties may
    be concatenated in any order, listed repeatedly, or overlap with different optional flags. *)
Corollary record_write_required_set : forall e owners session old roles signers req',
  same_reqset (owners ++ session ++ opt_parties old) req' ->
  outer_accept e (OWriteRecord true owners session old roles) signers =
  validate_signers_with_parties e req' session roles signers.
Proof. intros. cbn [outer_accept negb]. now apply with_parties_reqset. Qed.

(** The order of the AVAILABLE parties is observable: two optional OWNER parties, 1 has granted
    to the smart contract 6 and 2 to the ordinary signer 3; one OWNER signature required; signers
    [6; 3].  The authz pass takes the first party with a grant: with 1 first the contract is
    "used" and accepted, with 2 first it is not and must hold a grant from 3. *)
Lemma avail_order_observable :
  exists e p1 p2 roles signers,
    validate_signers_with_parties e [p1; p2] [p1; p2] roles signers = true /\
    validate_signers_with_parties e [p2; p1] [p2; p1] roles signers = false.
Proof.
  exists {| e_wasm := [6]; e_grants := [(1, 6); (2, 3)] |},
         {| p_addr := 1; p_role := 5; p_opt := true |},
         {| p_addr := 2; p_role := 5; p_opt := true |}, [5], [6; 3].
  split; vm_compute; reflexivity.
Qed.
