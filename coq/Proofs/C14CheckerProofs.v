(** Soundness of the C14 property checkers ON THE MODEL.

    The executable checkers of Corr/C14.v ([p_refs], [p_spec_refs], [p_unique], [p_indexes],
    [p_listings], [p_locs_by_scope]) are evaluated by the framework on what the real code
    returned.  Here: evaluated on the model's own projection
    [model_obs accts scope_ids sspec_ids cspec_ids (run ops) ok] they never fail.  So a failing
    "prop:" tag on the real code is a behaviour the model cannot show. *)
From Coq Require Import String ZArith List Bool Lia.
From PV Require Import Corr.C14 Proofs.RefsProofs Proofs.SpecRefsProofs Proofs.RefsExtraProofs.
Import ListNotations.
Open Scope Z_scope.

(** * 0. tools: insertion sort keeps the elements *)
Lemma In_insert_by : forall {A} (kf : A -> Z * Z) (x y : A) (l : list A),
  In x (insert_by kf y l) <-> x = y \/ In x l.
Proof.
  intros A kf x y l; induction l as [|z t IH]; cbn [insert_by].
  - cbn [In]. intuition auto.
  - destruct (pair_ltb (kf y) (kf z)); cbn [In]; [|rewrite IH]; intuition auto.
Qed.

Lemma sort_by_cons : forall {A} (kf : A -> Z * Z) (x : A) (l : list A),
  sort_by kf (x :: l) = insert_by kf x (sort_by kf l).
Proof. reflexivity. Qed.

Lemma In_sort_by : forall {A} (kf : A -> Z * Z) (l : list A) x, In x (sort_by kf l) <-> In x l.
Proof.
  intros A kf l x; induction l as [|y t IH].
  - cbn. tauto.
  - rewrite sort_by_cons, In_insert_by, IH. cbn [In]. intuition auto.
Qed.
Print Assumptions In_sort_by.

Lemma existsb_sort_by : forall {A} (kf : A -> Z * Z) (p : A -> bool) l,
  existsb p (sort_by kf l) = existsb p l.
Proof.
  intros A kf p l. apply Bool.eq_iff_eq_true. rewrite !existsb_exists.
  split; intros (x & Hx & Hp); exists x; split; auto; apply (In_sort_by kf l x); auto.
Qed.
Print Assumptions existsb_sort_by.

Lemma forallb_sort_by : forall {A} (kf : A -> Z * Z) (p : A -> bool) l,
  forallb p (sort_by kf l) = forallb p l.
Proof.
  intros A kf p l. apply Bool.eq_iff_eq_true. rewrite !forallb_forall.
  split; intros H x Hx; apply H; apply (In_sort_by kf l x); auto.
Qed.
Print Assumptions forallb_sort_by.

(** * 1. sessions and records belong to a stored scope / session *)
Lemma p_refs_model : forall accts sids ssids csids ops b, forallb guarded ops = true ->
  p_refs (model_obs accts sids ssids csids (run ops) b) = true.
Proof.
  intros accts sids ssids csids ops b Hg.
  destruct (refs_inv ops Hg) as [Hs Hr].
  unfold p_refs, has_scope, has_session, model_obs. cbn [o_sessions o_records o_scopes].
  apply andb_true_iff; split; apply forallb_forall; intros x Hx; apply In_sort_by in Hx.
  - rewrite existsb_sort_by. apply existsb_exists.
    destruct (Hs x Hx) as (sc & Hin & Hid). exists sc; split; auto. apply Z.eqb_eq; auto.
  - rewrite !existsb_sort_by. destruct (Hr x Hx) as [(sc & Hin & Hid) (s & Hsin & H1 & H2)].
    apply andb_true_iff; split; apply existsb_exists.
    + exists sc; split; auto. apply Z.eqb_eq; auto.
    + exists s; split; auto. apply andb_true_iff; split; apply Z.eqb_eq; auto.
Qed.
Print Assumptions p_refs_model.

(** * 2. specification references *)
Lemma tag_true : forall b s, b = true -> tag b s = @nil string.
Proof. intros b s ->. reflexivity. Qed.

Lemma tags3 : forall b1 b2 b3 s1 s2 s3, b1 = true -> b2 = true -> b3 = true ->
  (tag b1 s1 ++ tag b2 s2 ++ tag b3 s3)%list = @nil string.
Proof. intros; subst; reflexivity. Qed.

Lemma tags5 : forall b1 b2 b3 b4 b5 s1 s2 s3 s4 s5,
  b1 = true -> b2 = true -> b3 = true -> b4 = true -> b5 = true ->
  (tag b1 s1 ++ tag b2 s2 ++ tag b3 s3 ++ tag b4 s4 ++ tag b5 s5)%list = @nil string.
Proof. intros; subst; reflexivity. Qed.

Lemma p_spec_refs_model : forall accts sids ssids csids ops b, forallb spec_guarded ops = true ->
  p_spec_refs (model_obs accts sids ssids csids (run ops) b) = [].
Proof.
  intros accts sids ssids csids ops b Hg.
  destruct (spec_refs_inv ops Hg) as (H1 & H2 & H3).
  unfold p_spec_refs, has_sspec, has_cspec, model_obs.
  cbn [o_scopes o_sspecs o_cspecs o_rspecs].
  apply tags3; apply forallb_forall; intros x Hx; apply In_sort_by in Hx.
  - rewrite existsb_sort_by. apply existsb_exists.
    apply isSome_find. exact (H1 x Hx).
  - apply forallb_forall; intros c Hc. rewrite existsb_sort_by. apply existsb_exists.
    apply isSome_find. exact (H2 x c Hx Hc).
  - rewrite existsb_sort_by. apply existsb_exists.
    apply isSome_find. exact (H3 x Hx).
Qed.
Print Assumptions p_spec_refs_model.

(** * 3. ids unique *)
Lemma pair_ltb_tri : forall a b : Z * Z, pair_ltb a b = false -> a <> b -> pair_ltb b a = true.
Proof.
  intros [a1 a2] [b1 b2]; unfold pair_ltb; cbn [fst snd]; intros H Hne.
  apply orb_false_iff in H; destruct H as [H1 H2]. apply Z.ltb_ge in H1.
  apply orb_true_iff. destruct (Z.eq_dec a1 b1) as [->|Hn].
  - right. rewrite Z.eqb_refl in *. cbn [andb] in *. apply Z.ltb_ge in H2. apply Z.ltb_lt.
    assert (a2 <> b2) by congruence. lia.
  - left. apply Z.ltb_lt. lia.
Qed.

Lemma strictly_sorted_cons : forall a l,
  strictly_sorted (a :: l) = true <->
  (match l with b :: _ => pair_ltb a b = true | [] => True end) /\ strictly_sorted l = true.
Proof.
  intros a [|b t].
  - cbn. tauto.
  - change (strictly_sorted (a :: b :: t)) with (pair_ltb a b && strictly_sorted (b :: t)).
    rewrite andb_true_iff. tauto.
Qed.

Lemma strictly_sorted_insert : forall {A} (kf : A -> Z * Z) (x : A) (l : list A),
  strictly_sorted (map kf l) = true -> ~ In (kf x) (map kf l) ->
  strictly_sorted (map kf (insert_by kf x l)) = true.
Proof.
  intros A kf x l; induction l as [|y t IH]; intros Hs Hn.
  - reflexivity.
  - cbn [insert_by]. destruct (pair_ltb (kf x) (kf y)) eqn:E.
    + cbn [map] in *. apply strictly_sorted_cons. split; auto.
    + cbn [map] in Hs, Hn. apply strictly_sorted_cons in Hs. destruct Hs as [Hh Ht].
      assert (pair_ltb (kf y) (kf x) = true) as Hyx.
      { apply pair_ltb_tri; auto. intros Heq. apply Hn. left. auto. }
      cbn [map]. apply strictly_sorted_cons. split.
      * destruct t as [|z t']; cbn [insert_by map]; auto.
        destruct (pair_ltb (kf x) (kf z)); cbn [map]; auto.
      * apply IH; auto. intros Hin. apply Hn. right. auto.
Qed.

Lemma strictly_sorted_sort_by : forall {A} (kf : A -> Z * Z) (l : list A),
  NoDup (map kf l) -> strictly_sorted (map kf (sort_by kf l)) = true.
Proof.
  intros A kf l; induction l as [|x t IH]; intros Hnd.
  - reflexivity.
  - cbn [map] in Hnd. inversion Hnd as [|? ? Hnin Hnd']; subst.
    rewrite sort_by_cons. apply strictly_sorted_insert; auto.
    intros Hin. apply Hnin. apply in_map_iff in Hin. destruct Hin as (y & Hy & Hin).
    apply In_sort_by in Hin. apply in_map_iff. exists y; auto.
Qed.
Print Assumptions strictly_sorted_sort_by.

Lemma NoDup_map_pair0 : forall {A} (f : A -> Z) (l : list A),
  NoDup (map f l) -> NoDup (map (fun s => (f s, 0)) l).
Proof.
  intros A f l; induction l as [|x t IH]; intros Hnd; cbn [map] in *.
  - constructor.
  - inversion Hnd as [|? ? Hnin Hnd']; subst. constructor; auto.
    intros Hin. apply Hnin. apply in_map_iff in Hin. destruct Hin as (y & Hy & Hin).
    apply in_map_iff. exists y; split; auto. congruence.
Qed.

Lemma p_unique_model : forall accts sids ssids csids ops b,
  p_unique (model_obs accts sids ssids csids (run ops) b) = true.
Proof.
  intros accts sids ssids csids ops b.
  destruct (keys_unique ops) as (U1 & U2 & U3 & U4 & U5 & U6).
  unfold p_unique, model_obs. cbn [o_scopes o_sessions o_records o_sspecs o_cspecs o_rspecs].
  repeat (apply andb_true_iff; split).
  - apply (strictly_sorted_sort_by (fun s => (sc_id s, 0))). apply NoDup_map_pair0; auto.
  - apply (strictly_sorted_sort_by (fun s => (se_scope s, se_uuid s))); auto.
  - apply (strictly_sorted_sort_by (fun r => (r_scope r, r_name r))); auto.
  - apply (strictly_sorted_sort_by (fun s => (ss_id s, 0))). apply NoDup_map_pair0; auto.
  - apply (strictly_sorted_sort_by (fun s => (cs_id s, 0))). apply NoDup_map_pair0; auto.
  - apply (strictly_sorted_sort_by (fun r => (rs_cspec r, rs_name r))); auto.
Qed.
Print Assumptions p_unique_model.

(** * 4. canonical sets: [setz] depends only on the elements *)
(** on plain integers the insertion of [sortz] compares with [<?] *)
Lemma pair_ltb_z0 : forall a b : Z, pair_ltb (a, 0) (b, 0) = (a <? b).
Proof.
  intros a b. unfold pair_ltb. cbn [fst snd]. rewrite Z.ltb_irrefl, andb_false_r, orb_false_r.
  reflexivity.
Qed.

Fixpoint lsorted (l : list Z) : Prop :=      (* non-strictly increasing *)
  match l with [] => True | a :: t => (forall y, In y t -> a <= y) /\ lsorted t end.
Fixpoint ssorted (l : list Z) : Prop :=      (* strictly increasing *)
  match l with [] => True | a :: t => (forall y, In y t -> a < y) /\ ssorted t end.

Lemma lsorted_insert : forall x l, lsorted l -> lsorted (insert_by (fun z => (z, 0)) x l).
Proof.
  intros x l; induction l as [|y t IH]; intros Hs.
  - cbn. split; [intros ? []|exact I].
  - cbn [insert_by]. rewrite pair_ltb_z0. destruct Hs as [Hy Ht].
    destruct (x <? y) eqn:E.
    + apply Z.ltb_lt in E. cbn [lsorted]. split; [|split; auto].
      intros z [<-|Hz]; [lia|]. specialize (Hy z Hz). lia.
    + apply Z.ltb_ge in E. cbn [lsorted]. split; [|apply IH; auto].
      intros z Hz. apply In_insert_by in Hz. destruct Hz as [->|Hz]; auto.
Qed.

Lemma lsorted_sortz : forall l, lsorted (sortz l).
Proof.
  induction l as [|x t IH]; [exact I|].
  unfold sortz in *. rewrite sort_by_cons. apply lsorted_insert; auto.
Qed.

Lemma dedupz_cons2 : forall a b t,
  dedupz (a :: b :: t) = if a =? b then dedupz (b :: t) else a :: dedupz (b :: t).
Proof. reflexivity. Qed.

Lemma In_dedupz : forall l x, In x (dedupz l) <-> In x l.
Proof.
  induction l as [|a l IH]; intros x; [tauto|].
  destruct l as [|b t]; [tauto|].
  rewrite dedupz_cons2. destruct (a =? b) eqn:E.
  - apply Z.eqb_eq in E; subst a. rewrite IH. cbn [In]. tauto.
  - change (In x (a :: dedupz (b :: t))) with (a = x \/ In x (dedupz (b :: t))).
    rewrite IH. cbn [In]. tauto.
Qed.

Lemma ssorted_dedupz : forall l, lsorted l -> ssorted (dedupz l).
Proof.
  induction l as [|a l IH]; intros Hs; [exact I|].
  destruct l as [|b t].
  - cbn. split; [intros ? []|exact I].
  - rewrite dedupz_cons2. destruct Hs as [Ha Hs]. destruct (a =? b) eqn:E.
    + apply IH; auto.
    + apply Z.eqb_neq in E.
      change (ssorted (a :: dedupz (b :: t)))
        with ((forall y, In y (dedupz (b :: t)) -> a < y) /\ ssorted (dedupz (b :: t))).
      split; [|apply IH; auto].
      intros y Hy. apply (proj1 (In_dedupz (b :: t) y)) in Hy.
      pose proof (Ha b (or_introl eq_refl)) as Hab.
      destruct Hy as [<-|Hy]; [lia|]. pose proof (proj1 Hs y Hy) as Hb. lia.
Qed.

Lemma ssorted_ext : forall l1 l2, ssorted l1 -> ssorted l2 ->
  (forall x, In x l1 <-> In x l2) -> l1 = l2.
Proof.
  induction l1 as [|a t1 IH]; intros [|b t2] H1 H2 He.
  - reflexivity.
  - exfalso. apply (He b). left; reflexivity.
  - exfalso. apply (He a). left; reflexivity.
  - destruct H1 as [Ha H1], H2 as [Hb H2].
    assert (a = b) as ->.
    { pose proof (proj1 (He a) (or_introl eq_refl)) as Hx.
      pose proof (proj2 (He b) (or_introl eq_refl)) as Hy.
      destruct Hx as [Hx|Hx]; [auto|]. destruct Hy as [Hy|Hy]; [auto|].
      specialize (Ha _ Hy). specialize (Hb _ Hx). lia. }
    f_equal. apply IH; auto. intros x; split; intros Hx.
    + pose proof (Ha x Hx) as Hlt. destruct (proj1 (He x) (or_intror Hx)) as [Heq|Hin]; auto. lia.
    + pose proof (Hb x Hx) as Hlt. destruct (proj2 (He x) (or_intror Hx)) as [Heq|Hin]; auto. lia.
Qed.

Lemma In_setz : forall l x, In x (setz l) <-> In x l.
Proof. intros l x. unfold setz, sortz. rewrite In_dedupz. apply In_sort_by. Qed.

Lemma ssorted_setz : forall l, ssorted (setz l).
Proof. intros l. unfold setz. apply ssorted_dedupz, lsorted_sortz. Qed.

Lemma setz_ext : forall l1 l2, (forall x, In x l1 <-> In x l2) -> setz l1 = setz l2.
Proof.
  intros l1 l2 H. apply ssorted_ext; try apply ssorted_setz.
  intros x. rewrite !In_setz. apply H.
Qed.
Print Assumptions setz_ext.

(** * 5. the five lookups list exactly what stored content names *)
Lemma list_eqb_refl : forall {A} (eqb : A -> A -> bool), (forall a, eqb a a = true) ->
  forall l, list_eqb eqb l l = true.
Proof.
  intros A eqb H l; induction l as [|a t IH]; cbn [list_eqb]; auto. rewrite H, IH. reflexivity.
Qed.
Lemma lz_eqb_refl : forall l, lz_eqb l l = true.
Proof. apply list_eqb_refl. apply Z.eqb_refl. Qed.
Lemma llz_eqb_refl : forall l, llz_eqb l l = true.
Proof. apply list_eqb_refl. apply lz_eqb_refl. Qed.
Lemma llz_eqb_of_eq : forall x y, x = y -> llz_eqb x y = true.
Proof. intros x y ->. apply llz_eqb_refl. Qed.

(** a lookup of an exact index = the ids of the items whose content names the key *)
Lemma lookup_exact : forall {A} (ix : list key) (items : list A) (keys : A -> list key)
    (idf : A -> Z) (p : Z -> A -> bool) (kf : A -> Z * Z),
  index_exact ix items keys ->
  (forall s a x, In (a, x) (keys s) <-> idf s = x /\ p a s = true) ->
  forall a, lookup ix a = setz (map idf (filter (p a) (sort_by kf items))).
Proof.
  intros A ix items keys idf p kf Hix Hk a. unfold lookup. apply setz_ext. intros x.
  rewrite !in_map_iff. split.
  - intros (e & He & Hin). apply filter_In in Hin. destruct Hin as [Hin Hf].
    apply Z.eqb_eq in Hf. destruct e as [e1 e2]. cbn [fst snd] in *. subst e1 e2.
    apply Hix in Hin. destruct Hin as (s & Hs & Hks). apply Hk in Hks. destruct Hks as [Hid Hp].
    exists s; split; auto. apply filter_In; split; auto. apply In_sort_by; auto.
  - intros (s & Hid & Hin). apply filter_In in Hin. destruct Hin as [Hin Hp].
    apply In_sort_by in Hin. exists (a, x). split; [reflexivity|].
    apply filter_In. split; [|cbn [fst]; apply Z.eqb_refl].
    apply Hix. exists s; split; auto. apply Hk; auto.
Qed.

Lemma In_keyed_map : forall (f : Z -> Z) (i : Z) (l : list Z) a x,
  In (a, x) (map (fun o => (f o, i)) l) <-> i = x /\ In a (map f l).
Proof.
  intros f i l a x. rewrite !in_map_iff. split.
  - intros (o & He & Hin). inversion He; subst. split; auto. exists o; auto.
  - intros (-> & o & <- & Hin). exists o; auto.
Qed.

Lemma keys_as_char : forall s a x,
  In (a, x) (scope_keys_as s) <->
  sc_id s = x /\ memz a (map acct (sc_owners s ++ sc_da s)) = true.
Proof.
  intros s a x. unfold scope_keys_as. rewrite In_keyed_map, memz_In.
  rewrite !map_app, !in_app_iff. tauto.
Qed.
Lemma keys_ss_char : forall s a x,
  In (a, x) (scope_keys_ss s) <-> sc_id s = x /\ (sc_spec s =? a) = true.
Proof.
  intros s a x. unfold scope_keys_ss. rewrite Z.eqb_eq. cbn [In]. split.
  - intros [H|[]]. inversion H; auto.
  - intros [<- <-]. auto.
Qed.
Lemma keys_asp_char : forall s a x,
  In (a, x) (sspec_keys_asp s) <-> ss_id s = x /\ memz a (map acct (ss_owners s)) = true.
Proof. intros s a x. unfold sspec_keys_asp. rewrite In_keyed_map, memz_In. tauto. Qed.
Lemma keys_cs_char : forall s a x,
  In (a, x) (sspec_keys_cs s) <-> ss_id s = x /\ memz a (ss_cspecs s) = true.
Proof.
  intros s a x. unfold sspec_keys_cs. rewrite (In_keyed_map (fun c => c)), memz_In, map_id. tauto.
Qed.
Lemma keys_ac_char : forall s a x,
  In (a, x) (cspec_keys_ac s) <-> cs_id s = x /\ memz a (map acct (cs_owners s)) = true.
Proof. intros s a x. unfold cspec_keys_ac. rewrite In_keyed_map, memz_In. tauto. Qed.

Lemma p_indexes_model : forall accts sids ssids csids ops b,
  p_indexes accts ssids csids (model_obs accts sids ssids csids (run ops) b) = [].
Proof.
  intros accts sids ssids csids ops b.
  destruct (indexes_exact ops) as (I1 & I2 & I3 & I4 & I5).
  unfold p_indexes, model_obs. cbn [l_as l_ss l_asp l_cs l_ac o_scopes o_sspecs o_cspecs].
  apply tags5; apply llz_eqb_of_eq; apply map_ext; intros a.
  - exact (lookup_exact _ _ _ sc_id (fun a s => memz a (map acct (sc_owners s ++ sc_da s)))
             _ I1 keys_as_char a).
  - exact (lookup_exact _ _ _ sc_id (fun x s => sc_spec s =? x) _ I2 keys_ss_char a).
  - exact (lookup_exact _ _ _ ss_id (fun a s => memz a (map acct (ss_owners s))) _ I3 keys_asp_char a).
  - exact (lookup_exact _ _ _ ss_id (fun c s => memz c (ss_cspecs s)) _ I4 keys_cs_char a).
  - exact (lookup_exact _ _ _ cs_id (fun a s => memz a (map acct (cs_owners s))) _ I5 keys_ac_char a).
Qed.
Print Assumptions p_indexes_model.

(** * 6. per-scope / per-contract-spec listings agree with the complete listings *)
Lemma setz_filter_sort_by : forall {A} (kf : A -> Z * Z) (f : A -> Z) (p : A -> bool) (l : list A),
  setz (map f (filter p l)) = setz (map f (filter p (sort_by kf l))).
Proof.
  intros A kf f p l. apply setz_ext. intros x. rewrite !in_map_iff.
  split; intros (s & Hs & Hin); exists s; split; auto; apply filter_In in Hin;
    destruct Hin as [Hin Hp]; apply filter_In; split; auto; apply (In_sort_by kf l s); auto.
Qed.

Lemma p_listings_model : forall accts sids ssids csids ops b,
  p_listings sids csids (model_obs accts sids ssids csids (run ops) b) = [].
Proof.
  intros accts sids ssids csids ops b.
  unfold p_listings, model_obs. cbn [l_sess l_rec l_rspec o_sessions o_records o_rspecs].
  apply tags3; apply llz_eqb_of_eq; apply map_ext; intros a; apply setz_filter_sort_by.
Qed.
Print Assumptions p_listings_model.

(** * 7. locators by scope *)
(** accounts are unique in the object store locators (one entry per account) *)
Lemma find_none_notin : forall (l : list (Z * Z)) a,
  find (fun x => fst x =? a) l = None -> ~ In a (map fst l).
Proof.
  intros l a Hf Hin. apply in_map_iff in Hin. destruct Hin as (y & Hy & Hin).
  pose proof (find_none _ _ Hf y Hin) as Hn. cbn beta in Hn. apply Z.eqb_neq in Hn. auto.
Qed.

Lemma notin_map_filter_out : forall (l : list (Z * Z)) a,
  ~ In a (map fst (filter (fun x => negb (fst x =? a)) l)).
Proof.
  intros l a Hin. apply in_map_iff in Hin. destruct Hin as (y & Hy & Hin).
  apply filter_In in Hin. destruct Hin as [_ Hn]. apply negb_true_iff, Z.eqb_neq in Hn. auto.
Qed.

Lemma locs_unique_step : forall st o,
  NoDup (map fst (locs st)) -> NoDup (map fst (locs (fst (step st o)))).
Proof.
  intros st o Hnd. destruct (loc_op o) eqn:El.
  - destruct o; try discriminate El; clear El; cbn [step].
    + unfold set_loc.
      destruct ((uri =? 0) || negb has_acct || isSome (find_loc st (acct a))) eqn:E;
        cbn [of_opt fst]; auto.
      apply orb_false_iff in E. destruct E as [_ E]. unfold find_loc in E.
      destruct (find (fun x => fst x =? acct a) (locs st)) eqn:Ef; [discriminate E|].
      sproj. cbn [map fst]. constructor; auto. apply find_none_notin; auto.
    + unfold remove_loc. destruct (isSome (find_loc st (acct a))); cbn [of_opt fst]; auto.
      sproj. apply NoDup_map_filter; auto.
    + unfold modify_loc. destruct ((uri =? 0) || negb (isSome (find_loc st (acct a))));
        cbn [of_opt fst]; auto.
      sproj. cbn [map fst]. constructor; [apply notin_map_filter_out|apply NoDup_map_filter; auto].
  - rewrite locs_frame; auto.
Qed.

Lemma locs_unique_fold : forall ops st, NoDup (map fst (locs st)) ->
  NoDup (map fst (locs (fold_left (fun st o => fst (step st o)) ops st))).
Proof.
  induction ops as [|o ops IH]; intros st H; cbn [fold_left]; auto.
  apply IH. apply locs_unique_step; auto.
Qed.

Lemma locs_unique : forall ops, NoDup (map fst (locs (run ops))).
Proof. intros ops. unfold run. apply locs_unique_fold. cbn. constructor. Qed.
Print Assumptions locs_unique.

(** on a list with pairwise distinct ids, looking an id up does not depend on the order *)
Lemma nodup_map_inj : forall {A K} (f : A -> K) (l : list A) a b,
  NoDup (map f l) -> In a l -> In b l -> f a = f b -> a = b.
Proof.
  intros A K f l; induction l as [|x t IH]; intros a b Hnd Ha Hb Hid; [destruct Ha|].
  cbn [map] in Hnd. inversion Hnd as [|? ? Hnin Hnd']; subst.
  destruct Ha as [->|Ha], Hb as [->|Hb]; auto.
  - exfalso; apply Hnin. rewrite Hid. apply in_map; auto.
  - exfalso; apply Hnin. rewrite <- Hid. apply in_map; auto.
Qed.

Lemma find_sort_by_unique : forall {A} (idf : A -> Z) (kf : A -> Z * Z) (l : list A) i,
  NoDup (map idf l) ->
  find (fun s => idf s =? i) (sort_by kf l) = find (fun s => idf s =? i) l.
Proof.
  intros A idf kf l i Hnd.
  destruct (find (fun s => idf s =? i) l) as [x|] eqn:E1;
    destruct (find (fun s => idf s =? i) (sort_by kf l)) as [y|] eqn:E2; auto.
  - apply find_some in E1, E2. destruct E1 as [Hx Hxi], E2 as [Hy Hyi].
    apply In_sort_by in Hy. apply Z.eqb_eq in Hxi, Hyi.
    f_equal. apply (nodup_map_inj idf l); auto. congruence.
  - apply find_some in E1. destruct E1 as [Hx Hxi].
    pose proof (find_none _ _ E2 x (proj2 (In_sort_by kf l x) Hx)) as Hn. cbn beta in Hn. congruence.
  - apply find_some in E2. destruct E2 as [Hy Hyi]. apply In_sort_by in Hy.
    pose proof (find_none _ _ E1 y Hy) as Hn. cbn beta in Hn. congruence.
Qed.

Lemma filter_insert_false : forall {A} (kf : A -> Z * Z) (p : A -> bool) x l,
  p x = false -> filter p (insert_by kf x l) = filter p l.
Proof.
  intros A kf p x l Hp; induction l as [|y t IH]; cbn [insert_by].
  - cbn [filter]. rewrite Hp. reflexivity.
  - destruct (pair_ltb (kf x) (kf y)).
    + change (filter p (x :: y :: t)) with (if p x then x :: filter p (y :: t) else filter p (y :: t)).
      rewrite Hp. reflexivity.
    + cbn [filter]. rewrite IH. reflexivity.
Qed.

Lemma filter_insert_true_nil : forall {A} (kf : A -> Z * Z) (p : A -> bool) x l,
  p x = true -> filter p l = [] -> filter p (insert_by kf x l) = [x].
Proof.
  intros A kf p x l Hp; induction l as [|y t IH]; intros Hn; cbn [insert_by].
  - cbn [filter]. rewrite Hp. reflexivity.
  - destruct (pair_ltb (kf x) (kf y)).
    + change (filter p (x :: y :: t)) with (if p x then x :: filter p (y :: t) else filter p (y :: t)).
      rewrite Hp, Hn. reflexivity.
    + cbn [filter] in *. destruct (p y); [discriminate Hn|]. apply IH; auto.
Qed.

Lemma filter_sort_by_unique : forall (kf : Z * Z -> Z * Z) (l : list (Z * Z)) a,
  NoDup (map fst l) ->
  filter (fun x => fst x =? a) (sort_by kf l) =
  match find (fun x => fst x =? a) l with Some x => [x] | None => [] end.
Proof.
  intros kf l a; induction l as [|x t IH]; intros Hnd; [reflexivity|].
  cbn [map] in Hnd. inversion Hnd as [|? ? Hnin Hnd']; subst.
  rewrite sort_by_cons. cbn [find]. destruct (fst x =? a) eqn:E.
  - apply filter_insert_true_nil; auto. rewrite (IH Hnd').
    destruct (find (fun x0 => fst x0 =? a) t) as [y|] eqn:Ef; auto.
    exfalso. apply find_some in Ef. destruct Ef as [Hy Hya]. apply Z.eqb_eq in E, Hya.
    apply Hnin. apply in_map_iff. exists y; split; auto. congruence.
  - rewrite filter_insert_false; auto.
Qed.

Lemma zz_eqb_refl : forall x, zz_eqb x x = true.
Proof. intros x. unfold zz_eqb. rewrite !Z.eqb_refl. reflexivity. Qed.
Lemma lzz_eqb_refl : forall l, lzz_eqb l l = true.
Proof. apply list_eqb_refl. apply zz_eqb_refl. Qed.
Lemma olzz_eqb_refl : forall o, opt_eqb lzz_eqb o o = true.
Proof. intros [l|]; cbn [opt_eqb]; auto. apply lzz_eqb_refl. Qed.

Lemma p_locs_by_scope_model : forall accts sids ssids csids ops b,
  p_locs_by_scope sids (model_obs accts sids ssids csids (run ops) b) = true.
Proof.
  intros accts sids ssids csids ops b.
  destruct (keys_unique ops) as (U1 & _). pose proof (locs_unique ops) as UL.
  unfold p_locs_by_scope, model_obs. cbn [l_locsc o_scopes o_locs].
  match goal with |- list_eqb _ ?x ?y = true => assert (x = y) as -> end;
    [|apply list_eqb_refl; apply olzz_eqb_refl].
  apply map_ext. intros id. unfold locs_by_scope, find_scope.
  rewrite (find_sort_by_unique sc_id (fun s => (sc_id s, 0)) (scopes (run ops)) id U1).
  destruct (find (fun s => sc_id s =? id) (scopes (run ops))) as [sc|]; auto.
  f_equal. apply flat_map_ext. intros e. unfold find_loc.
  symmetry. apply filter_sort_by_unique; auto.
Qed.
Print Assumptions p_locs_by_scope_model.
