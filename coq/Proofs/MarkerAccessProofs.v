(** Proofs about [PV.Marker.Access] and [PV.Marker.Authz] (property C12). *)
From Coq Require Import ZArith NArith List Bool Lia ZifyBool.
From PV Require Import Marker.Access Marker.Authz.
Import ListNotations.
Open Scope Z_scope.

(** * The access table *)

(* case analysis on exactly the rights and flags a goal mentions *)
Ltac kill_table :=
  repeat match goal with
         | |- context [has ?r ?x] => destruct (has r x)
         end;
  repeat match goal with b : bool |- _ => clear b end;
  repeat match goal with b : bool |- _ => destruct b end;
  cbn; try discriminate; auto.

Lemma decide_documented : forall c o,
  cfg_wfb c = true ->
  decide c o = Done -> req_met c (documented o (c_status c) (c_type c)) = true.
Proof.
  intros [s t rs m g gc al sz act] o.
  unfold cfg_wfb, decide, decide_gen, controls_all_supply, documented, req_met, done, any_right, all_rights, alt_met;
    cbn [c_status c_type c_rights c_manager c_gov c_govctl c_allsupply c_supply_zero c_activated].
  intros Hwf.
  (* under the invariant "manager and never activated" is just "manager", and an active marker has none *)
  assert (Hm : (m && negb act) = m) by (destruct m, act, s; cbn in Hwf; try discriminate; reflexivity).
  assert (Ha : s = SActive -> m = false)
    by (intros ->; destruct m, act; cbn in Hwf; try discriminate; reflexivity).
  clear Hwf. rewrite Hm. clear Hm.
  destruct o, s, t; try rewrite (Ha eq_refl); clear Ha;
    cbn [st_in existsb status_eqb is_restricted orb andb negb]; kill_table.
Qed.

(** Before fix 374f3de02 the "holds the whole supply" alternative of AddAccess / RemoveAccess was
    satisfied by ANY caller without coins when the marker's recorded supply is zero. *)
Lemma zero_supply_prefix_refuted : exists c o,
  decide_prefix c o = Done /\ c_rights c = 0%N /\ c_manager c = false /\ c_gov c = false /\
  req_met c (documented o (c_status c) (c_type c)) = false /\ decide c o = Denied.
Proof.
  exists {| c_status := SActive; c_type := TCoin; c_rights := 0; c_manager := false; c_gov := false;
            c_govctl := false; c_allsupply := true; c_supply_zero := true; c_activated := true |}, OAddAccess.
  vm_compute. repeat split.
Qed.

(** The well-formedness hypothesis is needed: were a manager to survive activation, the manager
    escapes of SetMarkerDenomMetadata and DeleteMarker would let it act without any right. *)
Lemma surviving_manager_refuted : exists c o,
  cfg_wfb c = false /\ c_rights c = 0%N /\ c_status c = SActive /\
  decide c o = Done /\ req_met c (documented o (c_status c) (c_type c)) = false.
Proof.
  exists {| c_status := SActive; c_type := TCoin; c_rights := 0; c_manager := true; c_gov := false;
            c_govctl := true; c_allsupply := false; c_supply_zero := false; c_activated := true |}, OSetMetadata.
  vm_compute. repeat split.
Qed.

(** * The lifecycle keeps the invariant, over every history of transitions (incl. governance). *)
Lemma set_status_wf l s : life_wfb l = true -> life_wfb (set_status l s) = true.
Proof.
  destruct l as [st m a]. unfold life_wfb, set_status, set_status_gen; cbn [l_status l_manager l_activated].
  destruct s, m, a, st; cbn; auto.
Qed.

Lemma life_step_wf l o : life_wfb l = true -> life_wfb (fst (life_step l o)) = true.
Proof.
  intros H. unfold life_step, life_step_gen.
  destruct o as [| | | |t];
    repeat match goal with |- context [if ?b then _ else _] => destruct b end;
    try (destruct (l_status l)); cbn [fst]; auto using set_status_wf.
Qed.

Lemma life_run_wf ops : forall l, life_wfb l = true -> life_wfb (life_run l ops) = true.
Proof.
  unfold life_run, life_run_gen. induction ops as [|o ops IH]; intros l H; cbn [fold_left]; [exact H|].
  apply IH. apply (life_step_wf l o H).
Qed.

Lemma manager_cleared_only_from_finalized_refuted : exists l ops,
  life_wfb l = true /\ life_wfb (life_run_gen set_status_from_finalized_only l ops) = false.
Proof.
  exists {| l_status := SProposed; l_manager := true; l_activated := false |}, [LGov SActive].
  vm_compute. split; reflexivity.
Qed.

(** Cancelling a cancelled marker is the only success that is not a [Done], and it changes nothing. *)
Lemma noop_only_cancel_of_cancelled : forall c o,
  decide c o = NoOp -> o = OCancel /\ c_status c = SCancelled /\ status_after c o = SCancelled.
Proof.
  intros [s t rs m g gc al sz act] o. unfold status_after, decide, decide_gen, done;
    cbn [c_status c_type c_rights c_manager c_gov c_govctl c_allsupply c_supply_zero c_activated].
  destruct o, s; cbn [st_in existsb status_eqb orb andb];
    repeat match goal with |- context [if ?b then _ else _] => destruct b end;
    intros H; try discriminate; auto.
Qed.

(** A denied call leaves the status alone. *)
Lemma denied_keeps_status : forall c o, decide c o = Denied -> status_after c o = c_status c.
Proof. intros c o H. unfold status_after. rewrite H. reflexivity. Qed.

(** The exhaustive agreement over the finite domain (5 statuses x 2 types x 256 masks x 2^6 flags
    x 15 endpoints), by computation: wherever the model lets a call through, the documented
    requirement is met. *)
Definition table_ok (c : cfg) (o : op) : bool :=
  match decide c o with
  | Done => implb (cfg_wfb c) (req_met c (documented o (c_status c) (c_type c)))
  | _ => true
  end.

Lemma table_ok_everywhere :
  forallb (fun c => forallb (table_ok c) all_ops) all_cfgs = true.
Proof. vm_compute. reflexivity. Qed.

(** * Coins *)

Lemma amount_of_filter_ne d d' l :
  N.eqb d' d = false ->
  amount_of d' (filter (fun x => negb (N.eqb d (fst x))) l) = amount_of d' l.
Proof.
  intros Hne. induction l as [|[e a] l IH]; cbn [filter amount_of fst]; [reflexivity|].
  destruct (N.eqb_spec d e) as [->|Hde]; cbn [negb].
  - rewrite Hne. exact IH.
  - cbn [amount_of]. destruct (N.eqb d' e); [reflexivity|exact IH].
Qed.

Lemma amount_of_set_amt d v l d' :
  amount_of d' (set_amt d v l) = if N.eqb d' d then v else amount_of d' l.
Proof.
  unfold set_amt. cbn [amount_of]. destruct (N.eqb d' d) eqn:E; [reflexivity|].
  apply amount_of_filter_ne; exact E.
Qed.

(** * One use of a grant *)

Lemma accept_gen_spec keep g m r :
  accept_gen keep g m = Some r ->
  m_amt m <= amount_of (m_denom m) (g_limit g) /\
  (is_nil (g_allow g) = true \/ mem (m_to m) (g_allow g) = true) /\
  g_limit (ar_updated r) = set_amt (m_denom m) (amount_of (m_denom m) (g_limit g) - m_amt m) (g_limit g) /\
  g_allow (ar_updated r) = (if keep then g_allow g else []).
Proof.
  unfold accept_gen, safe_sub.
  destruct (Z.ltb_spec (amount_of (m_denom m) (g_limit g) - m_amt m) 0) as [Hn|Hn]; [discriminate|].
  destruct (is_nil (g_allow g)) eqn:En; cbn [negb andb].
  - intros [= <-]. cbn. repeat split; auto; lia.
  - destruct (mem (m_to m) (g_allow g)) eqn:Em; cbn [negb]; [|discriminate].
    intros [= <-]. cbn. repeat split; auto; lia.
Qed.

Definition remaining (d : denom) (og : option grant) : Z :=
  match og with Some g => amount_of d (g_limit g) | None => 0 end.

Lemma use_gen_step keep s m s' :
  use_gen (accept_gen keep) s m = (s', true) ->
  (forall d, 0 <= remaining d (gs_grant s)) ->
  0 <= m_amt m /\
  (forall d, 0 <= remaining d (gs_grant s')) /\
  (forall d, (if N.eqb d (m_denom m) then m_amt m else 0) + remaining d (gs_grant s') <= remaining d (gs_grant s)) /\
  (exists g, gs_grant s = Some g /\ (is_nil (g_allow g) = true \/ mem (m_to m) (g_allow g) = true) /\
             match gs_grant s' with
             | Some g' => g_allow g' = (if keep then g_allow g else [])
             | None => True
             end).
Proof.
  unfold use_gen. intros H Hpos.
  destruct (Z.ltb_spec (m_amt m) 0) as [Hneg|Hamt]; [inversion H|].
  destruct (gs_grant s) as [g|] eqn:Eg; [|inversion H].
  destruct (accept_gen keep g m) as [r|] eqn:Ea; [|inversion H].
  destruct (Z.ltb (amount_of (m_denom m) (gs_bal s)) (m_amt m)); [inversion H|].
  inversion H; subst s'; clear H. cbn [gs_grant].
  destruct (accept_gen_spec keep g m r Ea) as (Hle & Hallow & Hlim & Hal).
  assert (Hrem : forall d, remaining d (Some (ar_updated r)) =
                           if N.eqb d (m_denom m) then amount_of (m_denom m) (g_limit g) - m_amt m
                           else amount_of d (g_limit g)).
  { intros d. cbn [remaining]. rewrite Hlim. apply amount_of_set_amt. }
  split; [exact Hamt|]. split; [|split].
  - intros d. unfold stored_after. destruct (ar_delete r); cbn [remaining]; [lia|].
    specialize (Hrem d). cbn [remaining] in Hrem. rewrite Hrem.
    destruct (N.eqb d (m_denom m)); [lia|]. specialize (Hpos d). cbn [remaining] in Hpos. exact Hpos.
  - intros d. unfold stored_after.
    pose proof (Hpos d) as Hp. cbn [remaining] in Hp |- *.
    destruct (ar_delete r); cbn [remaining].
    + destruct (N.eqb_spec d (m_denom m)) as [E|E]; [rewrite E in *|]; lia.
    + specialize (Hrem d). cbn [remaining] in Hrem. rewrite Hrem.
      destruct (N.eqb_spec d (m_denom m)) as [E|E]; [rewrite E in *|]; lia.
  - exists g. split; [reflexivity|]. split; [exact Hallow|].
    unfold stored_after. destruct (ar_delete r); [exact I|exact Hal].
Qed.

Lemma use_gen_refused acc s m s' : use_gen acc s m = (s', false) -> s' = s.
Proof.
  unfold use_gen. intros H.
  destruct (Z.ltb (m_amt m) 0); [inversion H; reflexivity|].
  destruct (gs_grant s) as [g|]; [|inversion H; reflexivity].
  destruct (acc g m) as [r|]; [|inversion H; reflexivity].
  destruct (Z.ltb (amount_of (m_denom m) (gs_bal s)) (m_amt m)); inversion H; reflexivity.
Qed.

(** * Sequences of uses *)

Lemma moved_le_remaining keep ms : forall s d,
  (forall d', 0 <= remaining d' (gs_grant s)) ->
  moved d (fst (run_gen (accept_gen keep) s ms)) <= remaining d (gs_grant s).
Proof.
  induction ms as [|m ms IH]; intros s d Hpos; cbn [run_gen].
  - cbn. apply Hpos.
  - destruct (use_gen (accept_gen keep) s m) as [s' ok] eqn:Eu.
    destruct (run_gen (accept_gen keep) s' ms) as [tr sf] eqn:Er. cbn [fst moved].
    destruct ok.
    + destruct (use_gen_step keep s m s' Eu Hpos) as (_ & Hpos' & Hdec & _).
      specialize (IH s' d Hpos'). rewrite Er in IH. cbn [fst] in IH.
      specialize (Hdec d). cbn [andb]. lia.
    + apply use_gen_refused in Eu. subst s'.
      specialize (IH s d Hpos). rewrite Er in IH. cbn [fst] in IH. cbn [andb]. lia.
Qed.

Lemma grant_total_le_limit g0 bal ms d :
  (forall d', 0 <= amount_of d' (g_limit g0)) ->
  moved d (fst (run {| gs_grant := Some g0; gs_bal := bal |} ms)) <= amount_of d (g_limit g0).
Proof.
  intros Hpos. apply (moved_le_remaining true ms {| gs_grant := Some g0; gs_bal := bal |} d). exact Hpos.
Qed.

(** The pre-fix code keeps the total bounded as well (only the allow list was lost). *)
Lemma grant_total_le_limit_prefix g0 bal ms d :
  (forall d', 0 <= amount_of d' (g_limit g0)) ->
  moved d (fst (run_prefix {| gs_grant := Some g0; gs_bal := bal |} ms)) <= amount_of d (g_limit g0).
Proof.
  intros Hpos. apply (moved_le_remaining false ms {| gs_grant := Some g0; gs_bal := bal |} d). exact Hpos.
Qed.

Definition allow_is (allow : list addr) (og : option grant) : Prop :=
  match og with Some g => g_allow g = allow | None => True end.

Lemma recipients_in_allow allow ms : forall s,
  allow_is allow (gs_grant s) ->
  forallb (fun x => negb (snd x) || (is_nil allow || mem (m_to (fst x)) allow))
          (fst (run s ms)) = true.
Proof.
  induction ms as [|m ms IH]; intros s Hal; unfold run in *; cbn [run_gen]; [reflexivity|].
  destruct (use_gen accept s m) as [s' ok] eqn:Eu.
  destruct (run_gen accept s' ms) as [tr sf] eqn:Er. cbn [fst forallb snd].
  destruct ok.
  - assert (Hstep : (is_nil allow || mem (m_to m) allow) = true /\ allow_is allow (gs_grant s')).
    { unfold use_gen in Eu.
      destruct (Z.ltb (m_amt m) 0); [inversion Eu|].
      destruct (gs_grant s) as [g|] eqn:Eg; [|inversion Eu].
      destruct (accept g m) as [r|] eqn:Ea; [|inversion Eu].
      destruct (Z.ltb (amount_of (m_denom m) (gs_bal s)) (m_amt m)); [inversion Eu|].
      inversion Eu; subst s'. cbn [gs_grant].
      destruct (accept_gen_spec true g m r Ea) as (_ & Hallow & _ & Hkeep).
      cbn [allow_is] in Hal. subst allow. split.
      - destruct Hallow as [-> | ->]; [reflexivity|apply orb_true_r].
      - unfold stored_after. destruct (ar_delete r); cbn [allow_is]; [exact I|exact Hkeep]. }
    destruct Hstep as [Hto Hal']. cbn [negb orb]. rewrite Hto. cbn [andb].
    specialize (IH s' Hal'). rewrite Er in IH. exact IH.
  - apply use_gen_refused in Eu. subst s'. cbn [negb orb andb].
    specialize (IH s Hal). rewrite Er in IH. exact IH.
Qed.

Lemma grant_recipients_allowed g0 bal ms :
  recipients_in (g_allow g0) (fst (run {| gs_grant := Some g0; gs_bal := bal |} ms)) = true.
Proof.
  unfold recipients_in. destruct (is_nil (g_allow g0)) eqn:En; [reflexivity|]. cbn [orb].
  pose proof (recipients_in_allow (g_allow g0) ms {| gs_grant := Some g0; gs_bal := bal |} eq_refl) as H.
  rewrite En in H. cbn [orb] in H. exact H.
Qed.

(** The code before fix 24c42e028: after one partial use the stored grant has no allow list, and a
    later use reaches an address that was never listed. *)
Definition prefix_witness_grant : grant := {| g_limit := [(1%N, 10)]; g_allow := [1%N] |}.
Definition prefix_witness_uses : list tmsg :=
  [ {| m_to := 1%N; m_denom := 1%N; m_amt := 3 |}; {| m_to := 2%N; m_denom := 1%N; m_amt := 3 |} ].

Lemma unfixed_accept_refuted : exists g0 bal ms,
  recipients_in (g_allow g0) (fst (run_prefix {| gs_grant := Some g0; gs_bal := bal |} ms)) = false /\
  recipients_in (g_allow g0) (fst (run {| gs_grant := Some g0; gs_bal := bal |} ms)) = true.
Proof.
  exists prefix_witness_grant, [(1%N, 100)], prefix_witness_uses. vm_compute. split; reflexivity.
Qed.

(** * TransferCoin *)

Lemma forceable_not_module_or_contract a :
  can_force_transfer_from a = true -> module_or_contract_shape a = false.
Proof.
  unfold can_force_transfer_from, module_or_contract_shape.
  destruct (a_group a), (a_exists a), (N.eqb (a_seq a) 0), (a_marker a), (a_market a); cbn; congruence.
Qed.

Lemma transfer_rules x p g' :
  transfer x = Some (p, g') ->
  x_status x = SActive /\ x_type x = TRestricted /\
  (has RTransfer (x_rights x) || has RForceTransfer (x_rights x)) = true /\
  dest_marker_ok (x_dest x) = true /\ dest_blocked (x_dest x) = false /\
  0 <= m_amt (x_msg x) <= x_frombal x /\
  match p with
  | PSelf => x_self x = true /\ g' = x_grant x
  | PForced =>
      x_self x = false /\ x_forced x = true /\ has RForceTransfer (x_rights x) = true /\
      can_force_transfer_from (x_from x) = true /\ module_or_contract_shape (x_from x) = false /\
      g' = x_grant x
  | PGrant =>
      x_self x = false /\ (x_forced x && has RForceTransfer (x_rights x)) = false /\
      exists g r, x_grant x = Some g /\ accept g (x_msg x) = Some r /\ g' = stored_after r
  end.
Proof.
  unfold transfer, transfer_gen, transfer_gen2.
  destruct (Z.ltb_spec (m_amt (x_msg x)) 0) as [|Hamt]; [discriminate|].
  destruct (x_status x) eqn:Es; cbn [status_eqb negb]; try discriminate.
  destruct (x_type x) eqn:Et; cbn [is_restricted negb]; try discriminate.
  destruct (has RTransfer (x_rights x)) eqn:Ht, (has RForceTransfer (x_rights x)) eqn:Hf;
    cbn [negb andb orb]; try discriminate;
  (destruct (dest_marker_ok (x_dest x)) eqn:Ed; cbn [negb]; [|discriminate]);
  (destruct (x_self x) eqn:Eself;
   [| destruct (x_forced x) eqn:Efo; cbn [negb orb andb];
      try (destruct (x_grant x) as [g|] eqn:Eg; [destruct (accept g (x_msg x)) as [r|] eqn:Ea|]);
      try (destruct (can_force_transfer_from (x_from x)) eqn:Ec; cbn [negb]) ]);
  try discriminate;
  (destruct (dest_blocked (x_dest x)) eqn:Eb; [discriminate|]);
  (destruct (Z.ltb_spec (x_frombal x) (m_amt (x_msg x))) as [|Hbal]; [discriminate|]);
  intros [= <- <-];
  repeat (split; [first [reflexivity | lia | assumption]|]);
  repeat split; auto using forceable_not_module_or_contract; try lia;
  try (eexists; eexists; repeat split; eauto).
Qed.

(** A third-party transfer without an accepting grant is a forced transfer, so the marker allows
    forced transfers, the admin holds FORCE_TRANSFER and the source is no module / contract account. *)
Lemma third_party_needs_grant_or_force x p g' :
  transfer x = Some (p, g') -> x_self x = false ->
  (exists g r, x_grant x = Some g /\ accept g (x_msg x) = Some r) \/
  (x_forced x = true /\ has RForceTransfer (x_rights x) = true /\
   module_or_contract_shape (x_from x) = false).
Proof.
  intros H Hs. pose proof (transfer_rules x p g' H) as (_ & _ & _ & _ & _ & _ & Hp).
  destruct p.
  - destruct Hp as [Hp _]. congruence.
  - destruct Hp as (_ & _ & g & r & Hg & Ha & _). left. eauto.
  - destruct Hp as (_ & Hf & Hr & _ & Hm & _). right. auto.
Qed.
