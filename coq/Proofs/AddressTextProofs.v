(** Text form of metadata addresses: String() followed by MetadataAddressFromBech32 gives the
    bytes back (bech32 round trip specialised to the six address kinds). *)
From Coq Require Import String Ascii.
From Coq Require Import Arith NArith List Bool Lia.
From PV Require Import Metadata.Address Proofs.AddressProofs Proofs.Bech32Proofs.
Import ListNotations.
Open Scope N_scope.

Lemma list_N_eqb_refl : forall l, list_N_eqb l l = true.
Proof.
  intros l. unfold list_N_eqb. rewrite Nat.eqb_refl. cbn [andb].
  induction l as [|x r IH]; [reflexivity|]. cbn [combine forallb fst snd].
  rewrite N.eqb_refl. exact IH.
Qed.

Lemma hrp_of_good : forall t,
  hrp_of t <> [] /\
  Forall (fun c => (33 <= c <= 126)%N /\ ~ (65 <= c <= 90)%N) (hrp_of t) /\
  (length (hrp_of t) <= 12)%nat.
Proof.
  intros t. destruct t; (split; [discriminate|]); (split; [|cbn; lia]);
    cbv [hrp_of codes list_ascii_of_string map N_of_ascii N_of_digits];
    repeat (constructor; [split; lia|]); constructor.
Qed.

Lemma address_text_roundtrip : forall a, maddr_wf a ->
  Forall (fun b => (b < 256)%N) (maddr_bytes a) ->
  exists s, to_string (maddr_bytes a) = Some s /\ from_bech32 s = Some (maddr_bytes a).
Proof.
  intros a Hwf Hb.
  pose proof (verify_bytes a Hwf) as Hv.
  destruct (hrp_of_good (maddr_type a)) as [Hne [Hchars Hlen]].
  assert (Hl : (length (maddr_bytes a) <= 33)%nat).
  { unfold verify_format in Hv. destruct (maddr_bytes a) as [|b r] eqn:E; [discriminate|].
    destruct (type_of_byte b) as [t|]; [|discriminate].
    destruct (Nat.eqb (length (b :: r)) (required_len t)) eqn:El; [|discriminate].
    apply Nat.eqb_eq in El. rewrite El. destruct t; cbn [required_len]; repeat constructor. }
  destruct (bech32_roundtrip (hrp_of (maddr_type a)) (maddr_bytes a) Hne Hchars Hb) as [s [He Hd]].
  { assert ((8 * length (maddr_bytes a) + 4) / 5 <= 54)%nat.
    { apply Nat.div_le_upper_bound; lia. }
    lia. }
  exists s. split.
  - unfold to_string. destruct (maddr_bytes a) as [|b r] eqn:E.
    + destruct a; discriminate.
    + rewrite Hv. exact He.
  - unfold from_bech32. rewrite Hd, Hv, list_N_eqb_refl. reflexivity.
Qed.
