(** Specification references of the metadata store model [PV.Metadata.Refs]:
      A  spec_refs_inv          scope -> scope spec, scope spec -> contract spec and record spec ->
                                contract spec references survive every history without the raw
                                writers / the keeper's RemoveContractSpecification
      B  use_refs_inv           session -> contract spec and record -> record spec references survive
                                as long as no contract / record specification is removed
      C  session_cspec_refuted, record_rspec_refuted, rspec_orphan_refuted, raw_writers_dangle
                                computed witnesses that the excluded operations do break them
    Everything is first proved about the keeper functions; the step lemmas are case analyses. *)
From Coq Require Import ZArith List Bool Lia.
From PV Require Import Metadata.Refs Proofs.RefsProofs.
Import ListNotations.
Open Scope Z_scope.

Definition spec_refs_ok (st : state) : Prop :=
  (forall sc, In sc (scopes st) -> isSome (find_sspec st (sc_spec sc)) = true) /\
  (forall sp c, In sp (sspecs st) -> In c (ss_cspecs sp) -> isSome (find_cspec st c) = true) /\
  (forall r, In r (rspecs st) -> isSome (find_cspec st (rs_cspec r)) = true).

Definition use_refs_ok (st : state) : Prop :=
  (forall se, In se (sessions st) -> isSome (find_cspec st (se_spec se)) = true) /\
  (forall r, In r (records st) ->
     exists se, find_session st (r_scope r) (r_sess r) = Some se /\
                isSome (find_rspec st (se_spec se) (r_name r)) = true).

(** * Tactics *)
Ltac norm_b :=
  repeat match goal with
  | H : negb _ = false |- _ => apply negb_false_iff in H
  | H : negb _ = true |- _ => apply negb_true_iff in H
  | H : _ && _ = true |- _ => apply andb_true_iff in H; destruct H
  | H : _ || _ = false |- _ => apply orb_false_iff in H; destruct H
  end.

(** * Generic list facts *)
Lemma isSome_find : forall {A} (p : A -> bool) l,
  isSome (find p l) = true <-> exists x, In x l /\ p x = true.
Proof.
  intros A p l; split.
  - destruct (find p l) as [x|] eqn:E; [|discriminate]. intros _. exists x. apply (find_some _ _ E).
  - intros (x & Hx & Hp). destruct (find p l) as [y|] eqn:E; [reflexivity|].
    rewrite (find_none _ _ E x Hx) in Hp. discriminate Hp.
Qed.

Lemma existsb_false_In : forall {A} (f : A -> bool) l x, existsb f l = false -> In x l -> f x = false.
Proof.
  intros A f l x H Hx. destruct (f x) eqn:E; auto. rewrite <- H. symmetry.
  apply existsb_exists. exists x; auto.
Qed.

Lemma memz_In : forall x l, memz x l = true <-> In x l.
Proof.
  intros x l; unfold memz; rewrite existsb_exists; split.
  - intros (y & Hy & He). apply Z.eqb_eq in He. subst; auto.
  - intros H; exists x; split; auto. apply Z.eqb_refl.
Qed.

Lemma find_filter_keep : forall {A} (p q : A -> bool) l,
  (forall x, p x = true -> q x = true) -> find p (filter q l) = find p l.
Proof.
  intros A p q l H; induction l as [|a l IH]; simpl; auto.
  destruct (p a) eqn:Ep.
  - rewrite (H a Ep). simpl. rewrite Ep. reflexivity.
  - destruct (q a); simpl; [rewrite Ep|]; exact IH.
Qed.

Lemma find_unique : forall {A K} (f : A -> K) (p : A -> bool) l a,
  NoDup (map f l) -> In a l -> p a = true -> (forall x, p x = true -> f x = f a) -> find p l = Some a.
Proof.
  intros A K f p l a; induction l as [|x l IH]; intros Hnd Ha Hp Hk; [destruct Ha|].
  cbn [map] in Hnd. inversion Hnd as [|? ? Hnin Hnd']; subst. cbn [find].
  destruct Ha as [->|Ha].
  - rewrite Hp; reflexivity.
  - destruct (p x) eqn:Epx.
    + exfalso. apply Hnin. rewrite (Hk x Epx). apply in_map; auto.
    + apply IH; auto.
Qed.

Section ById.
  Context {A : Type} (id : A -> Z).

  (** replacing the entry of [id x] keeps every id findable *)
  Lemma has_put : forall l x i,
    isSome (find (fun y => id y =? i) l) = true ->
    isSome (find (fun y => id y =? i) (x :: filter (fun y => negb (id y =? id x)) l)) = true.
  Proof.
    intros l x i H. apply isSome_find in H. destruct H as (y & Hy & Hi). apply Z.eqb_eq in Hi.
    apply isSome_find. destruct (Z.eq_dec i (id x)) as [Heq|Hne].
    - exists x; split; [left; reflexivity | apply Z.eqb_eq; auto].
    - exists y; split; [|apply Z.eqb_eq; auto]. right. apply filter_In; split; auto.
      apply negb_true_iff, Z.eqb_neq. congruence.
  Qed.

  (** removing the entry of [j] keeps every other id findable *)
  Lemma find_filter_other : forall l i j, i <> j ->
    isSome (find (fun y => id y =? i) l) = true ->
    isSome (find (fun y => id y =? i) (filter (fun y => negb (id y =? j)) l)) = true.
  Proof.
    intros l i j Hne H. apply isSome_find in H. destruct H as (y & Hy & Hi).
    apply isSome_find. exists y; split; auto. apply filter_In; split; auto.
    apply Z.eqb_eq in Hi. apply negb_true_iff, Z.eqb_neq. congruence.
  Qed.
End ById.

Lemma has_put2 : forall {A} (f g : A -> Z) l x a b,
  isSome (find (fun y => (f y =? a) && (g y =? b)) l) = true ->
  isSome (find (fun y => (f y =? a) && (g y =? b))
               (x :: filter (fun y => negb ((f y =? f x) && (g y =? g x))) l)) = true.
Proof.
  intros A f g l x a b H. apply isSome_find in H. destruct H as (y & Hy & Hi).
  apply isSome_find. destruct ((f x =? a) && (g x =? b)) eqn:Ex.
  - exists x; split; [left; reflexivity | exact Ex].
  - exists y; split; [|exact Hi]. right. apply filter_In; split; auto.
    apply eqb2_true in Hi. destruct Hi as [Hi1 Hi2]. apply negb_eqb2. intros [E1 E2].
    rewrite <- E1, <- E2, Hi1, Hi2, !Z.eqb_refl in Ex. discriminate Ex.
Qed.

(** lookups only read their own list *)
Lemma find_sspec_eq : forall st st' i, sspecs st' = sspecs st -> find_sspec st' i = find_sspec st i.
Proof. intros st st' i E. unfold find_sspec. rewrite E. reflexivity. Qed.
Lemma find_cspec_eq : forall st st' i, cspecs st' = cspecs st -> find_cspec st' i = find_cspec st i.
Proof. intros st st' i E. unfold find_cspec. rewrite E. reflexivity. Qed.
Lemma find_rspec_eq : forall st st' i n, rspecs st' = rspecs st -> find_rspec st' i n = find_rspec st i n.
Proof. intros st st' i n E. unfold find_rspec. rewrite E. reflexivity. Qed.
Lemma find_session_eq : forall st st' a b,
  sessions st' = sessions st -> find_session st' a b = find_session st a b.
Proof. intros st st' a b E. unfold find_session. rewrite E. reflexivity. Qed.

Lemma set_nav_some : forall st sc d p st', set_nav st sc d p = Some st' -> exists v, st' = with_navs st v.
Proof.
  intros st sc d p st' H. unfold set_nav in H. destruct (p <? 0); [discriminate H|].
  inversion H. eexists; reflexivity.
Qed.

(** * A: specification references *)
Lemma spec_refs_mono : forall st st',
  (forall sc, In sc (scopes st') -> In sc (scopes st)) ->
  sspecs st' = sspecs st -> cspecs st' = cspecs st -> rspecs st' = rspecs st ->
  spec_refs_ok st -> spec_refs_ok st'.
Proof.
  intros st st' Hsc E2 E3 E4 (H1 & H2 & H3). unfold spec_refs_ok. splits.
  - intros sc Hin. rewrite (find_sspec_eq _ _ _ E2). apply H1, Hsc, Hin.
  - intros sp c Hsp Hc. rewrite (find_cspec_eq _ _ _ E3). rewrite E2 in Hsp. eapply H2; eauto.
  - intros r Hr. rewrite (find_cspec_eq _ _ _ E3). rewrite E4 in Hr. auto.
Qed.

Lemma spec_refs_same : forall st st',
  scopes st' = scopes st -> sspecs st' = sspecs st -> cspecs st' = cspecs st -> rspecs st' = rspecs st ->
  spec_refs_ok st -> spec_refs_ok st'.
Proof. intros st st' E1 E2 E3 E4. apply spec_refs_mono; auto. rewrite E1; auto. Qed.

Lemma spec_refs_sub : forall st st', sub st st' -> spec_refs_ok st -> spec_refs_ok st'.
Proof. intros st st' (E1&E2&E3&E4&_). apply spec_refs_same; auto. Qed.

Lemma spec_set_session : forall st s, spec_refs_ok st -> spec_refs_ok (set_session st s).
Proof. intros st s; apply spec_refs_same; reflexivity. Qed.
Lemma spec_set_record : forall st r, spec_refs_ok st -> spec_refs_ok (set_record st r).
Proof. intros st r; apply spec_refs_same; reflexivity. Qed.
Lemma spec_remove_navs : forall st x, spec_refs_ok st -> spec_refs_ok (remove_navs st x).
Proof. intros st x; apply spec_refs_same; reflexivity. Qed.
Lemma spec_remove_session : forall st su ss, spec_refs_ok st -> spec_refs_ok (remove_session st su ss).
Proof. intros st su ss; apply spec_refs_sub, sub_remove_session. Qed.
Lemma spec_remove_record : forall st su n, spec_refs_ok st -> spec_refs_ok (remove_record st su n).
Proof. intros st su n; apply spec_refs_sub, sub_remove_record. Qed.

Lemma spec_set_nav : forall st sc d p st', set_nav st sc d p = Some st' -> spec_refs_ok st -> spec_refs_ok st'.
Proof.
  intros st sc d p st' H. apply set_nav_some in H. destruct H as (v & ->).
  apply spec_refs_same; reflexivity.
Qed.

Lemma spec_set_loc : forall st h a u st', set_loc st h a u = Some st' -> spec_refs_ok st -> spec_refs_ok st'.
Proof.
  intros st h a u st' H. unfold set_loc in H.
  destruct (_ || _); [discriminate H|]. inversion H; subst st'. apply spec_refs_same; reflexivity.
Qed.

Lemma spec_remove_loc : forall st a st', remove_loc st a = Some st' -> spec_refs_ok st -> spec_refs_ok st'.
Proof.
  intros st a st' H. unfold remove_loc in H.
  destruct (isSome _); [|discriminate H]. inversion H; subst st'. apply spec_refs_same; reflexivity.
Qed.

Lemma spec_modify_loc : forall st a u st', modify_loc st a u = Some st' -> spec_refs_ok st -> spec_refs_ok st'.
Proof.
  intros st a u st' H. unfold modify_loc in H.
  destruct (_ || _); [discriminate H|]. inversion H; subst st'. apply spec_refs_same; reflexivity.
Qed.

(** ** scopes *)
Lemma spec_set_scope : forall st s, isSome (find_sspec st (sc_spec s)) = true ->
  spec_refs_ok st -> spec_refs_ok (set_scope st s).
Proof.
  intros st s Hs (H1 & H2 & H3). unfold spec_refs_ok, find_sspec, find_cspec, set_scope in *; sproj.
  splits; auto. intros sc [<-|Hsc]; auto. apply filter_In in Hsc. apply H1; tauto.
Qed.

Lemma spec_set_scope_upd : forall st id sc o d r, find_scope st id = Some sc -> spec_refs_ok st ->
  spec_refs_ok (set_scope st (ScR (sc_id sc) (sc_spec sc) o d r)).
Proof.
  intros st id sc o d r Hf HS. apply spec_set_scope; auto. cbn [sc_spec].
  pose proof HS as (H1 & _ & _). unfold find_scope in Hf. apply find_some in Hf. apply H1; tauto.
Qed.

Lemma spec_write_scope_nav : forall st a b c st1 s, set_nav st a b c = Some st1 ->
  isSome (find_sspec st (sc_spec s)) = true -> spec_refs_ok st -> spec_refs_ok (set_scope st1 s).
Proof.
  intros st a b c st1 s H Hs HS. apply set_nav_some in H. destruct H as (v & ->).
  apply spec_set_scope; [exact Hs|]. revert HS. apply spec_refs_same; reflexivity.
Qed.

Lemma spec_remove_scope : forall st id, spec_refs_ok st -> spec_refs_ok (remove_scope st id).
Proof.
  intros st id H. destruct (find_scope st id) as [sc|] eqn:E.
  2:{ unfold remove_scope; rewrite E; exact H. }
  rewrite (remove_scope_eq _ _ _ E). cbv zeta.
  pose proof (spec_refs_sub _ _ (sub_rm st id) H) as H2.
  revert H2. apply spec_refs_mono; sproj; auto.
  intros x Hx. apply filter_In in Hx. tauto.
Qed.

(** ** scope specifications *)
Lemma spec_set_sspec : forall st s,
  (forall c, In c (ss_cspecs s) -> isSome (find_cspec st c) = true) ->
  spec_refs_ok st -> spec_refs_ok (set_sspec st s).
Proof.
  intros st s Hs (H1 & H2 & H3). unfold spec_refs_ok, find_sspec, find_cspec, set_sspec in *; sproj.
  splits; auto.
  - intros sc Hsc. apply (has_put ss_id). auto.
  - intros sp c [<-|Hsp] Hc; auto. apply filter_In in Hsp. apply (H2 sp); tauto.
Qed.

Lemma spec_write_sspec : forall st s, spec_refs_ok st -> spec_refs_ok (fst (step st (MWriteSSpec s))).
Proof.
  intros st s HS. unfold step, ok. cbv zeta.
  destruct (forallb _ (ss_cspecs s)) eqn:Ec; [|exact HS]. cbn [fst].
  apply spec_set_sspec; auto. intros c Hc.
  rewrite forallb_forall in Ec. specialize (Ec c Hc). apply orb_true_iff in Ec.
  destruct Ec as [Hm|Hc']; [|exact Hc'].
  destruct (find_sspec st (ss_id s)) as [e|] eqn:Ef; [|simpl in Hm; discriminate Hm].
  apply memz_In in Hm. unfold find_sspec in Ef. apply find_some in Ef.
  destruct HS as (_ & H2 & _). apply (H2 e); tauto.
Qed.

Lemma spec_add_cspec : forall st c s x sp, find_cspec st c = Some x -> find_sspec st s = Some sp ->
  spec_refs_ok st -> spec_refs_ok (set_sspec st (Ss (ss_id sp) (ss_owners sp) (ss_cspecs sp ++ [c]))).
Proof.
  intros st c s x sp Hc Hs HS. apply spec_set_sspec; auto. cbn [ss_cspecs]. intros c' Hc'.
  apply in_app_or in Hc'. destruct Hc' as [Hin|[<-|[]]].
  - unfold find_sspec in Hs. apply find_some in Hs. destruct HS as (_ & H2 & _). apply (H2 sp); tauto.
  - rewrite Hc; reflexivity.
Qed.

Lemma spec_del_cspec : forall st s sp p, find_sspec st s = Some sp ->
  spec_refs_ok st -> spec_refs_ok (set_sspec st (Ss (ss_id sp) (ss_owners sp) (filter p (ss_cspecs sp)))).
Proof.
  intros st s sp p Hs HS. apply spec_set_sspec; auto. cbn [ss_cspecs]. intros c' Hc'.
  apply filter_In in Hc'.
  unfold find_sspec in Hs. apply find_some in Hs. destruct HS as (_ & H2 & _). apply (H2 sp); tauto.
Qed.

(** isScopeSpecUsed is exact: an unused scope specification is the specification of no scope *)
Lemma spec_remove_sspec : forall st id st', remove_sspec st id = Some st' -> Inv st ->
  spec_refs_ok st -> spec_refs_ok st'.
Proof.
  intros st id st' H (_ & (_ & I2 & _)) (H1 & H2 & H3). unfold remove_sspec in H.
  destruct (sspec_used st id) eqn:Eu; [discriminate H|].
  destruct (find_sspec st id) as [s|] eqn:E; [|discriminate H].
  inversion H; subst st'; clear H.
  unfold spec_refs_ok, find_sspec, find_cspec in *; sproj. splits; auto.
  - intros sc Hsc. apply (find_filter_other ss_id); auto.
    intros Heq. unfold sspec_used in Eu.
    assert (In (sc_spec sc, sc_id sc) (ix_ss st)) as Hk.
    { apply I2. exists sc; split; auto. unfold scope_keys_ss. left; reflexivity. }
    pose proof (existsb_false_In _ _ _ Eu Hk) as Hf. cbn [fst] in Hf. apply Z.eqb_neq in Hf. auto.
  - intros sp c Hsp Hc. apply filter_In in Hsp. apply (H2 sp); tauto.
Qed.

(** ** contract specifications *)
Lemma spec_set_cspec : forall st s, spec_refs_ok st -> spec_refs_ok (set_cspec st s).
Proof.
  intros st s (H1 & H2 & H3). unfold spec_refs_ok, find_sspec, find_cspec, set_cspec in *; sproj.
  splits; auto.
  - intros sp c Hsp Hc. apply (has_put cs_id). eauto.
  - intros r Hr. apply (has_put cs_id). auto.
Qed.

Lemma spec_with_rspecs_filter : forall st p,
  spec_refs_ok st -> spec_refs_ok (with_rspecs st (filter p (rspecs st))).
Proof.
  intros st p (H1 & H2 & H3). unfold spec_refs_ok, find_sspec, find_cspec in *; sproj. splits; auto.
  intros r Hr. apply filter_In in Hr. apply H3; tauto.
Qed.

(** isContractSpecUsed is exact for scope specifications; record specifications must be gone *)
Lemma spec_remove_cspec : forall st id st', remove_cspec st id = Some st' -> Inv st ->
  (forall r, In r (rspecs st) -> rs_cspec r <> id) -> spec_refs_ok st -> spec_refs_ok st'.
Proof.
  intros st id st' H (_ & (_ & _ & _ & I4 & _)) Hr (H1 & H2 & H3). unfold remove_cspec in H.
  destruct (cspec_used st id) eqn:Eu; [discriminate H|].
  destruct (find_cspec st id) as [s|] eqn:E; [|discriminate H].
  inversion H; subst st'; clear H.
  unfold spec_refs_ok, find_sspec, find_cspec in *; sproj. splits; auto.
  - intros sp c Hsp Hc. apply (find_filter_other cs_id); eauto.
    intros Heq. unfold cspec_used in Eu.
    assert (In (c, ss_id sp) (ix_cs st)) as Hk.
    { apply I4. exists sp; split; auto. unfold sspec_keys_cs. apply in_map_iff. exists c; auto. }
    pose proof (existsb_false_In _ _ _ Eu Hk) as Hf. cbn [fst] in Hf. apply Z.eqb_neq in Hf. auto.
  - intros r Hin. apply (find_filter_other cs_id); auto.
Qed.

Lemma spec_delete_cspec : forall st id st',
  remove_cspec (with_rspecs st (filter (fun x => negb (rs_cspec x =? id)) (rspecs st))) id = Some st' ->
  Inv st -> spec_refs_ok st -> spec_refs_ok st'.
Proof.
  intros st id st' H HI HS. eapply spec_remove_cspec; [exact H | | | ].
  - apply Inv_with_rspecs_filter; auto.
  - sproj. intros r Hr. apply filter_In in Hr. destruct Hr as [_ Hr].
    apply negb_true_iff, Z.eqb_neq in Hr. exact Hr.
  - apply spec_with_rspecs_filter; auto.
Qed.

(** ** record specifications *)
Lemma spec_set_rspec : forall st r, isSome (find_cspec st (rs_cspec r)) = true ->
  spec_refs_ok st -> spec_refs_ok (set_rspec st r).
Proof.
  intros st r Hc (H1 & H2 & H3). unfold spec_refs_ok, find_sspec, find_cspec, set_rspec in *; sproj.
  splits; auto. intros x [<-|Hx]; auto. apply filter_In in Hx. apply H3; tauto.
Qed.

Lemma spec_remove_rspec : forall st cu n st', remove_rspec st cu n = Some st' ->
  spec_refs_ok st -> spec_refs_ok st'.
Proof.
  intros st cu n st' H HS. unfold remove_rspec in H.
  destruct (find_rspec st cu n) as [r|]; [|discriminate H]. inversion H; subst st'.
  apply spec_with_rspecs_filter; auto.
Qed.

(** ** [step] *)
Lemma spec_step : forall st o, spec_guarded o = true -> Inv st -> spec_refs_ok st ->
  spec_refs_ok (fst (step st o)).
Proof.
  intros st o Hg HI HS.
  destruct o; try discriminate Hg; clear Hg;
  lazymatch goal with
  | |- context [MWriteSSpec _] => apply spec_write_sspec; assumption
  | _ =>
    unfold step, ok, of_opt, option_map; cbv zeta; destruct_matches; cbn [fst]; norm_b;
    try exact HS;
    eauto using spec_set_scope, spec_set_scope_upd, spec_write_scope_nav, spec_remove_scope,
      spec_set_session, spec_remove_session, spec_set_record, spec_remove_record,
      spec_remove_sspec, spec_add_cspec, spec_del_cspec, spec_set_cspec, spec_delete_cspec,
      spec_set_rspec, spec_remove_rspec, spec_set_nav, spec_remove_navs,
      spec_set_loc, spec_remove_loc, spec_modify_loc
  end.
Qed.

Lemma spec_init : spec_refs_ok init.
Proof. unfold spec_refs_ok. splits; [intros x [] | intros x c [] | intros x []]. Qed.

Lemma spec_fold : forall ops st, forallb spec_guarded ops = true -> Inv st -> spec_refs_ok st ->
  spec_refs_ok (fold_left (fun st o => fst (step st o)) ops st).
Proof.
  induction ops as [|o ops IH]; intros st Hg HI HS; cbn [fold_left]; auto.
  cbn [forallb] in Hg. apply andb_true_iff in Hg. destruct Hg as [Hg1 Hg2].
  apply IH; auto using Inv_step. apply spec_step; auto.
Qed.

(* A: specification references that the code keeps intact *)
Lemma spec_refs_inv : forall ops, forallb spec_guarded ops = true -> spec_refs_ok (run ops).
Proof. intros ops Hg. unfold run. apply spec_fold; auto using Inv_init, spec_init. Qed.
Print Assumptions spec_refs_inv.

(** * B: what sessions and records refer to *)
Lemma use_refs_same : forall st st',
  sessions st' = sessions st -> records st' = records st -> cspecs st' = cspecs st -> rspecs st' = rspecs st ->
  use_refs_ok st -> use_refs_ok st'.
Proof.
  intros st st' E1 E2 E3 E4 [H1 H2]. split.
  - intros se Hse. rewrite (find_cspec_eq _ _ _ E3). rewrite E1 in Hse. auto.
  - intros r Hr. rewrite E2 in Hr. destruct (H2 r Hr) as (se & Hf & Hrs). exists se.
    rewrite (find_session_eq _ _ _ _ E1), (find_rspec_eq _ _ _ _ E4). auto.
Qed.

Lemma use_RS : forall st, use_refs_ok st -> RS_ok st.
Proof.
  intros st [_ H] r Hr. destruct (H r Hr) as (se & Hf & _). unfold find_session in Hf.
  apply find_some in Hf. destruct Hf as [Hin Hk]. apply eqb2_true in Hk. exists se; tauto.
Qed.

(** session keys are unique: a stored session is the one its key finds *)
Lemma find_session_unique : forall st s, Inv st -> In s (sessions st) ->
  find_session st (se_scope s) (se_uuid s) = Some s.
Proof.
  intros st s ((_ & U2 & _) & _) Hs. unfold find_session.
  apply (find_unique (fun s => (se_scope s, se_uuid s))); auto.
  - rewrite !Z.eqb_refl; reflexivity.
  - intros x Hx. apply eqb2_true in Hx. destruct Hx as [E1 E2]. cbn beta. rewrite E1, E2. reflexivity.
Qed.

Lemma use_refs_sub : forall st st', Inv st -> sub st st' -> RS_ok st' -> use_refs_ok st -> use_refs_ok st'.
Proof.
  intros st st' HI Hsub HRS [H1 H2].
  pose proof (Inv_sub _ _ HI Hsub) as HI'.
  pose proof Hsub as (E1 & E2 & E3 & E4 & _).
  split.
  - intros se Hse. rewrite (find_cspec_eq _ _ _ E3). apply H1. eapply sub_sessions; eauto.
  - intros r Hr. destruct (H2 r (sub_records _ _ _ Hsub Hr)) as (se & Hf & Hrs).
    destruct (HRS r Hr) as (s' & Hs' & K1 & K2).
    exists s'.
    pose proof (find_session_unique _ _ HI' Hs') as F'. rewrite K1, K2 in F'.
    pose proof (find_session_unique _ _ HI (sub_sessions _ _ _ Hsub Hs')) as F. rewrite K1, K2 in F.
    rewrite F in Hf. inversion Hf; subst se. split; auto.
    rewrite (find_rspec_eq _ _ _ _ E4). exact Hrs.
Qed.

Lemma use_remove_session : forall st su ss, Inv st -> use_refs_ok st -> use_refs_ok (remove_session st su ss).
Proof.
  intros st su ss HI H. apply (use_refs_sub st); auto using sub_remove_session.
  apply RS_remove_session, use_RS, H.
Qed.

Lemma use_remove_record : forall st su n, Inv st -> use_refs_ok st -> use_refs_ok (remove_record st su n).
Proof.
  intros st su n HI H. apply (use_refs_sub st); auto using sub_remove_record.
  apply RS_remove_record, use_RS, H.
Qed.

Lemma use_remove_scope : forall st id, Inv st -> use_refs_ok st -> use_refs_ok (remove_scope st id).
Proof.
  intros st id HI H. destruct (find_scope st id) as [sc|] eqn:E.
  2:{ unfold remove_scope; rewrite E; exact H. }
  rewrite (remove_scope_eq _ _ _ E). cbv zeta.
  pose proof (use_refs_sub _ _ HI (sub_rm st id) (RS_rm st id (use_RS _ H)) H) as H2.
  revert H2. apply use_refs_same; reflexivity.
Qed.

Lemma use_set_scope : forall st s, use_refs_ok st -> use_refs_ok (set_scope st s).
Proof. intros st s; apply use_refs_same; reflexivity. Qed.
Lemma use_set_sspec : forall st s, use_refs_ok st -> use_refs_ok (set_sspec st s).
Proof. intros st s; apply use_refs_same; reflexivity. Qed.
Lemma use_remove_navs : forall st x, use_refs_ok st -> use_refs_ok (remove_navs st x).
Proof. intros st x; apply use_refs_same; reflexivity. Qed.

Lemma use_remove_sspec : forall st id st', remove_sspec st id = Some st' -> use_refs_ok st -> use_refs_ok st'.
Proof.
  intros st id st' H. unfold remove_sspec in H.
  destruct (sspec_used st id); [discriminate H|].
  destruct (find_sspec st id) as [s|]; [|discriminate H].
  inversion H; subst st'. apply use_refs_same; reflexivity.
Qed.

Lemma use_set_nav : forall st sc d p st', set_nav st sc d p = Some st' -> use_refs_ok st -> use_refs_ok st'.
Proof.
  intros st sc d p st' H. apply set_nav_some in H. destruct H as (v & ->).
  apply use_refs_same; reflexivity.
Qed.

Lemma use_set_loc : forall st h a u st', set_loc st h a u = Some st' -> use_refs_ok st -> use_refs_ok st'.
Proof.
  intros st h a u st' H. unfold set_loc in H.
  destruct (_ || _); [discriminate H|]. inversion H; subst st'. apply use_refs_same; reflexivity.
Qed.

Lemma use_remove_loc : forall st a st', remove_loc st a = Some st' -> use_refs_ok st -> use_refs_ok st'.
Proof.
  intros st a st' H. unfold remove_loc in H.
  destruct (isSome _); [|discriminate H]. inversion H; subst st'. apply use_refs_same; reflexivity.
Qed.

Lemma use_modify_loc : forall st a u st', modify_loc st a u = Some st' -> use_refs_ok st -> use_refs_ok st'.
Proof.
  intros st a u st' H. unfold modify_loc in H.
  destruct (_ || _); [discriminate H|]. inversion H; subst st'. apply use_refs_same; reflexivity.
Qed.

(** writers of contract / record specifications replace an entry by one with the same id *)
Lemma use_set_cspec : forall st s, use_refs_ok st -> use_refs_ok (set_cspec st s).
Proof.
  intros st s [H1 H2]. split.
  - intros se Hse. unfold find_cspec, set_cspec; sproj. apply (has_put cs_id). apply H1; exact Hse.
  - exact H2.
Qed.

Lemma use_set_rspec : forall st x, use_refs_ok st -> use_refs_ok (set_rspec st x).
Proof.
  intros st x [H1 H2]. split.
  - exact H1.
  - intros r Hr. destruct (H2 r Hr) as (se & Hf & Hrs). exists se; split; [exact Hf|].
    unfold find_rspec, set_rspec; sproj. apply (has_put2 rs_cspec rs_name). exact Hrs.
Qed.

(** WriteSession: the contract specification of an existing session cannot change *)
Lemma use_set_session : forall st s,
  match find_session st (se_scope s) (se_uuid s) with Some e => se_spec e =? se_spec s | None => true end = true ->
  isSome (find_cspec st (se_spec s)) = true ->
  use_refs_ok st -> use_refs_ok (set_session st s).
Proof.
  intros st s Hsame Hc [H1 H2]. split.
  - intros se Hse. change (find_cspec (set_session st s) (se_spec se)) with (find_cspec st (se_spec se)).
    unfold set_session in Hse; sproj. destruct Hse as [<-|Hse]; auto. apply filter_In in Hse. apply H1; tauto.
  - intros r Hr. change (records (set_session st s)) with (records st) in Hr.
    destruct (H2 r Hr) as (se & Hf & Hrs).
    destruct ((se_scope s =? r_scope r) && (se_uuid s =? r_sess r)) eqn:Ek.
    + apply eqb2_true in Ek. destruct Ek as [K1 K2]. exists s. split.
      * unfold find_session, set_session; sproj. cbn [find]. rewrite K1, K2, !Z.eqb_refl. reflexivity.
      * rewrite K1, K2, Hf in Hsame. cbv beta iota in Hsame. apply Z.eqb_eq in Hsame.
        rewrite <- Hsame. exact Hrs.
    + exists se. split; [|exact Hrs].
      unfold find_session, set_session; sproj. cbn [find]. rewrite Ek.
      rewrite find_filter_keep; [exact Hf|].
      intros x Hx. apply eqb2_true in Hx. destruct Hx as [X1 X2]. rewrite X1, X2.
      apply negb_true_iff. rewrite (Z.eqb_sym (r_scope r)), (Z.eqb_sym (r_sess r)). exact Ek.
Qed.

Lemma use_write_session : forall st s, use_refs_ok st -> use_refs_ok (fst (step st (MWriteSession s))).
Proof.
  intros st s HU. unfold step, ok. cbv zeta.
  destruct (find_scope st (se_scope s)) as [sc|]; [|exact HU].
  destruct (find_sspec st (sc_spec sc)) as [sp|]; [|exact HU].
  destruct (_ && _ && _) eqn:Ec; [|exact HU].
  cbn [fst]. apply andb_true_iff in Ec; destruct Ec as [Ec Hm].
  apply andb_true_iff in Ec; destruct Ec as [Hsame Hc]. apply use_set_session; auto.
Qed.

(** WriteRecord: the record specification was checked; the session a record moved out of is only
    removed when no record is left in it *)
Lemma use_set_record : forall st r se, find_session st (r_scope r) (r_sess r) = Some se ->
  isSome (find_rspec st (se_spec se) (r_name r)) = true -> use_refs_ok st -> use_refs_ok (set_record st r).
Proof.
  intros st r se Hf Hrs [H1 H2]. split; [exact H1|].
  intros x Hx. unfold set_record in Hx; sproj. destruct Hx as [<-|Hx].
  - exists se; split; [exact Hf | exact Hrs].
  - apply filter_In in Hx. destruct (H2 x (proj1 Hx)) as (se' & Hf' & Hrs').
    exists se'; split; [exact Hf' | exact Hrs'].
Qed.

Lemma use_write_record : forall st r, Inv st -> use_refs_ok st -> use_refs_ok (fst (step st (MWriteRecord r))).
Proof.
  intros st r HI HU. unfold step, ok. cbv zeta.
  destruct (find_scope st (r_scope r)) as [sc|]; [|exact HU].
  destruct (find_session st (r_scope r) (r_sess r)) as [se|] eqn:Hf; [|exact HU].
  destruct (isSome (find_rspec st (se_spec se) (r_name r))) eqn:Hrs; [|exact HU].
  pose proof (use_set_record _ _ _ Hf Hrs HU) as H1.
  destruct (find_record st (r_scope r) (r_name r)) as [e|]; [|exact H1].
  destruct (r_sess e =? r_sess r); [exact H1|].
  cbn [fst]. apply use_remove_session; auto using Inv_set_record.
Qed.

(** ** [step] *)
Lemma use_step : forall st o, guarded o = true -> removes_cr_spec o = false -> Inv st ->
  use_refs_ok st -> use_refs_ok (fst (step st o)).
Proof.
  intros st o Hg Hr HI HU.
  destruct o; try discriminate Hg; try discriminate Hr; clear Hg Hr;
  lazymatch goal with
  | |- context [MWriteSession _] => apply use_write_session; assumption
  | |- context [MWriteRecord _] => apply use_write_record; assumption
  | _ =>
    unfold step, ok, of_opt, option_map; cbv zeta; destruct_matches; cbn [fst]; norm_b;
    try exact HU;
    eauto using use_set_scope, use_remove_scope, use_remove_session, use_remove_record,
      use_set_sspec, use_remove_sspec, use_set_cspec, use_set_rspec, use_set_nav, use_remove_navs,
      use_set_loc, use_remove_loc, use_modify_loc
  end.
Qed.

Lemma use_init : use_refs_ok init.
Proof. split; intros x []. Qed.

Lemma use_fold : forall ops st,
  forallb (fun o => guarded o && negb (removes_cr_spec o)) ops = true -> Inv st -> use_refs_ok st ->
  use_refs_ok (fold_left (fun st o => fst (step st o)) ops st).
Proof.
  induction ops as [|o ops IH]; intros st Hg HI HU; cbn [fold_left]; auto.
  cbn [forallb] in Hg. apply andb_true_iff in Hg. destruct Hg as [Hg1 Hg2].
  apply andb_true_iff in Hg1. destruct Hg1 as [Hg1 Hr1]. apply negb_true_iff in Hr1.
  apply IH; auto using Inv_step. apply use_step; auto.
Qed.

(* B: what sessions and records refer to survives as long as no contract / record specification is removed *)
Lemma use_refs_inv : forall ops,
  forallb (fun o => guarded o && negb (removes_cr_spec o)) ops = true -> use_refs_ok (run ops).
Proof. intros ops Hg. unfold run. apply use_fold; auto using Inv_init, use_init. Qed.
Print Assumptions use_refs_inv.

(** * C: computed witnesses *)
(* the list of accept/reject answers of a history *)
Definition oks (ops : list op) : list bool :=
  snd (fold_left (fun acc o => let '(st', b) := step (fst acc) o in (st', snd acc ++ [b])) ops (init, [])).

(* C1: by MESSAGES only, a session whose contract specification is gone *)
Definition w_session : list op :=
  [MWriteCSpec (Cs 1 [1]); MWriteSSpec (Ss 1 [1] [1]); MWriteScope (Sc 1 1 [1] []) 0;
   MWriteSession (Se 1 1 1); MDelCSpecFromSSpec 1 1; MDeleteCSpec 1].
Lemma session_cspec_refuted :
  forallb guarded w_session = true /\ forallb spec_guarded w_session = true /\
  oks w_session = [true; true; true; true; true; true] /\
  sessions (run w_session) = [Se 1 1 1] /\ find_cspec (run w_session) 1 = None.
Proof. vm_compute. repeat split. Qed.
Print Assumptions session_cspec_refuted.

(* C2: by MESSAGES only, a record whose record specification is gone (isRecordSpecUsed is constantly false) *)
Definition w_record : list op :=
  [MWriteCSpec (Cs 1 [1]); MWriteRSpec (Rs 1 7); MWriteSSpec (Ss 1 [1] [1]); MWriteScope (Sc 1 1 [1] []) 0;
   MWriteSession (Se 1 1 1); MWriteRecord (Re 1 7 1); MDeleteRSpec 1 7].
Lemma record_rspec_refuted :
  forallb guarded w_record = true /\ forallb spec_guarded w_record = true /\
  oks w_record = [true; true; true; true; true; true; true] /\
  records (run w_record) = [Re 1 7 1] /\ find_session (run w_record) 1 1 = Some (Se 1 1 1) /\
  find_rspec (run w_record) 1 7 = None.
Proof. vm_compute. repeat split. Qed.
Print Assumptions record_rspec_refuted.

(* C3: the keeper's RemoveContractSpecification leaves the record specifications behind *)
Lemma rspec_orphan_refuted :
  let ops := [MWriteCSpec (Cs 1 [1]); MWriteRSpec (Rs 1 7); KRemoveCSpec 1] in
  oks ops = [true; true; true] /\ rspecs (run ops) = [Rs 1 7] /\ find_cspec (run ops) 1 = None.
Proof. vm_compute. repeat split. Qed.
Print Assumptions rspec_orphan_refuted.

(* C4: the raw writers store dangling ids, and messages keep them: an id a scope specification
   already lists is never re-checked; data access can be edited on a scope without specification,
   owners cannot *)
Lemma raw_writers_dangle :
  (let ops := [KSetScope (Sc 1 9 [1] []); MAddDataAccess 1 [2]; MAddOwners 1 [2]] in
   oks ops = [true; true; false] /\ scopes (run ops) = [Sc 1 9 [1] [2]] /\ find_sspec (run ops) 9 = None) /\
  (let ops := [KSetSSpec (Ss 1 [1] [9]); MWriteSSpec (Ss 1 [2] [9]); MWriteSSpec (Ss 2 [2] [9])] in
   oks ops = [true; true; false] /\ sspecs (run ops) = [Ss 1 [2] [9]] /\ find_cspec (run ops) 9 = None).
Proof. vm_compute. repeat split. Qed.
Print Assumptions raw_writers_dangle.
