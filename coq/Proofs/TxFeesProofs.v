(** Proofs about [PV.Fees.TxFees] (property C08). *)
From Coq Require Import ZArith NArith List Bool Lia ZifyBool Permutation.
From PV Require Import Exchange.Arith Proofs.ArithProofs Fees.TxFees.
Import ListNotations.
Open Scope Z_scope.

(** * Formal sums *)
Lemma amount_of_app a b d : amount_of (a ++ b) d = amount_of a d + amount_of b d.
Proof. induction a as [|[d' v] a IH]; cbn [amount_of app]; [reflexivity|]. rewrite IH. ring. Qed.

Lemma amount_of_cneg c d : amount_of (cneg c) d = - amount_of c d.
Proof. induction c as [|[d' v] c IH]; cbn [amount_of cneg map fst snd]; [reflexivity|]. fold (cneg c). rewrite IH. destruct (N.eqb d d'); ring. Qed.

Lemma amount_of_csub a b d : amount_of (csub a b) d = amount_of a d - amount_of b d.
Proof. unfold csub. rewrite amount_of_app, amount_of_cneg. ring. Qed.

Lemma amount_of_cadd a b d : amount_of (cadd a b) d = amount_of a d + amount_of b d.
Proof. apply amount_of_app. Qed.

Lemma amount_of_notin c d : ~ In d (cdenoms c) -> amount_of c d = 0.
Proof.
  induction c as [|[d' v] c IH]; cbn [amount_of cdenoms map fst]; intros Hn; [reflexivity|].
  fold (cdenoms c) in Hn. destruct (N.eqb_spec d d') as [->|Hne].
  - exfalso. apply Hn. left. reflexivity.
  - rewrite IH; [ring|]. intros Hi. apply Hn. right. exact Hi.
Qed.

Lemma has_neg_false c : has_neg c = false -> forall d, 0 <= amount_of c d.
Proof.
  intros H d. destruct (in_dec N.eq_dec d (cdenoms c)) as [Hi|Hn].
  - destruct (Z.ltb_spec (amount_of c d) 0) as [Hlt|]; [|assumption].
    exfalso. unfold has_neg in H. apply not_true_iff_false in H. apply H.
    apply existsb_exists. exists d. split; [assumption|]. apply Z.ltb_lt. assumption.
  - rewrite amount_of_notin by assumption. lia.
Qed.

Lemma is_zero_true c : is_zero c = true -> forall d, amount_of c d = 0.
Proof.
  intros H d. destruct (in_dec N.eq_dec d (cdenoms c)) as [Hi|Hn].
  - unfold is_zero in H. rewrite forallb_forall in H. apply Z.eqb_eq. apply H. assumption.
  - apply amount_of_notin. assumption.
Qed.

(** * Moves *)
Lemma zsum_app {A} (f : A -> Z) l1 l2 : zsum f (l1 ++ l2) = zsum f l1 + zsum f l2.
Proof. induction l1 as [|x l1 IH]; cbn [zsum app fold_right]; [reflexivity|]. fold (zsum f (l1 ++ l2)). fold (zsum f l1). rewrite IH. ring. Qed.

Lemma zsum_cons {A} (f : A -> Z) x l : zsum f (x :: l) = f x + zsum f l.
Proof. reflexivity. Qed.

Lemma zsum_nil {A} (f : A -> Z) : zsum f [] = 0.
Proof. reflexivity. Qed.

Lemma zsum_flat_map {A B} (f : B -> Z) (g : A -> list B) l :
  zsum f (flat_map g l) = zsum (fun x => zsum f (g x)) l.
Proof. induction l as [|x l IH]; cbn [flat_map]; [reflexivity|]. rewrite zsum_app, zsum_cons, IH. reflexivity. Qed.

Lemma debit_of_app m1 m2 a d : debit_of (m1 ++ m2) a d = debit_of m1 a d + debit_of m2 a d.
Proof. apply zsum_app. Qed.
Lemma credit_of_app m1 m2 a d : credit_of (m1 ++ m2) a d = credit_of m1 a d + credit_of m2 a d.
Proof. apply zsum_app. Qed.

Lemma exec_moves_spec ms : forall b b', exec_moves b ms = Some b' ->
  forall a d, b' a d = b a d - debit_of ms a d + credit_of ms a d.
Proof.
  induction ms as [|m ms IH]; cbn [exec_moves]; intros b b' H a d.
  - inversion H. unfold debit_of, credit_of. rewrite !zsum_nil. ring.
  - unfold exec_move in H. destruct (can_pay b (mv_from m) (mv_coins m)); [|discriminate].
    rewrite (IH _ _ H a d). unfold debit_of, credit_of, apply_move. rewrite !zsum_cons. ring.
Qed.

Lemma exec_moves_app ms1 ms2 b b1 b2 :
  exec_moves b ms1 = Some b1 -> exec_moves b1 ms2 = Some b2 -> exec_moves b (ms1 ++ ms2) = Some b2.
Proof.
  revert b. induction ms1 as [|m ms1 IH]; cbn [exec_moves app]; intros b H1 H2.
  - inversion H1. subst. assumption.
  - destruct (exec_move b m); [|discriminate]. eapply IH; eassumption.
Qed.

(** * Fee grants *)
Lemma use_grant_spec s t fee s0 src :
  use_grant s t fee = Some (s0, src) ->
  src = fee_source t /\ bal s0 = bal s /\ seqn s0 = seqn s /\
  (forall g p, (g, p) <> (fee_source t, t_payer t) -> allow s0 g p = allow s g p).
Proof.
  unfold use_grant, fee_source. destruct (t_granter t) as [g|].
  - destruct (N.eqb_spec g (t_payer t)) as [->|Hne].
    + intros H. inversion H. subst. repeat split; auto.
    + destruct (allow s g (t_payer t)) as [[lim|]|]; [| |discriminate].
      * destruct (has_neg (csub lim fee)); [discriminate|]. intros H. inversion H. subst. clear H.
        repeat split; auto. intros g' p' Hd. cbn [set_allow allow].
        destruct (N.eqb_spec src g'), (N.eqb_spec (t_payer t) p'); cbn [andb]; try reflexivity.
        subst. exfalso. apply Hd. reflexivity.
      * intros H. inversion H. subst. repeat split; auto.
  - intros H. inversion H. subst. repeat split; auto.
Qed.

(** * Additional fees: the operational calculation against the closed forms *)
Definition charge_ok (ch : coin * Z * option acct) : Prop :=
  let '((_, amt), bips, r) := ch in 0 < amt /\ (r <> None -> 0 <= bips <= 10000).

Definition recips_amt (l : list (acct * coin)) (a : acct) (d : denom) : Z :=
  zsum (fun e => if N.eqb a (fst e) then amount_of [snd e] d else 0) l.

Lemma amount_of_single dn v d : amount_of [(dn, v)] d = if N.eqb d dn then v else 0.
Proof. cbn [amount_of]. destruct (N.eqb d dn); ring. Qed.

Lemma amount_of_cons dn v c d : amount_of ((dn, v) :: c) d = (if N.eqb d dn then v else 0) + amount_of c d.
Proof. reflexivity. Qed.

(** how one calculation step changes a distribution, against the closed forms of its charges *)
Definition dist_rel (d0 d1 : dist) (chs : list (coin * Z * option acct)) : Prop :=
  (forall x, amount_of (d_total d1) x = amount_of (d_total d0) x + zsum (ch_amount x) chs) /\
  (forall a x, recips_amt (d_recips d1) a x = recips_amt (d_recips d0) a x + zsum (ch_share a x) chs) /\
  (forall x, amount_of (map snd (d_recips d1)) x = amount_of (map snd (d_recips d0)) x + zsum (ch_share_any x) chs) /\
  (forall x, amount_of (d_module d1) x + amount_of (map snd (d_recips d1)) x - amount_of (d_total d1) x
             = amount_of (d_module d0) x + amount_of (map snd (d_recips d0)) x - amount_of (d_total d0) x).

Lemma dist_rel_refl d : dist_rel d d [].
Proof. repeat split; intros; rewrite ?zsum_nil; ring. Qed.

Lemma dist_rel_trans d0 dm d1 c1 c2 : dist_rel d0 dm c1 -> dist_rel dm d1 c2 -> dist_rel d0 d1 (c1 ++ c2).
Proof.
  intros (T1 & R1 & S1 & M1) (T2 & R2 & S2 & M2). repeat split; intros; rewrite ?zsum_app.
  - rewrite T2, T1. ring.
  - rewrite R2, R1. ring.
  - rewrite S2, S1. ring.
  - rewrite M2, M1. ring.
Qed.

Lemma increase_spec d0 c bips r d1 :
  0 <= bips -> increase d0 c bips r = Some d1 ->
  let chs := if 0 <? snd c then [(c, bips, r)] else [] in
  Forall charge_ok chs /\ dist_rel d0 d1 chs.
Proof.
  intros Hb. destruct c as [dn amt]. cbn [increase snd].
  destruct (Z.leb_spec amt 0) as [Hle|Hgt].
  - intros H. inversion H. subst. replace (0 <? amt) with false by lia. cbn zeta.
    split; [constructor|apply dist_rel_refl].
  - replace (0 <? amt) with true by lia. cbn zeta. destruct r as [a|].
    + destruct (10000 <? bips) eqn:Hbig.
      { rewrite split_by_bips_rejects by lia. discriminate. }
      destruct (split_by_bips_spec amt bips) as (rc & rest & Hs & Hrc & Hsum & Hr0 & Hrest0); [lia|lia|].
      rewrite Hs. intros H. inversion H. subst d1. clear H.
      split; [constructor; [|constructor]; cbn; split; [lia|intros _; lia]|].
      unfold dist_rel. cbn [d_total d_recips d_module].
      split; [|split; [|split]].
      * intros x. rewrite amount_of_cons, zsum_cons, zsum_nil. cbn [ch_amount]. ring.
      * intros a' x. unfold recips_amt. rewrite !zsum_cons, zsum_nil. cbn [fst snd ch_share].
        rewrite amount_of_single. destruct (N.eqb a' a), (N.eqb x dn); cbn [andb]; subst; ring.
      * intros x. cbn [map snd]. rewrite amount_of_cons, zsum_cons, zsum_nil. cbn [ch_share_any].
        destruct (N.eqb x dn); subst; ring.
      * intros x. cbn [map snd]. rewrite !amount_of_cons.
        destruct (Z.eqb_spec rest 0); [|rewrite amount_of_cons]; destruct (N.eqb x dn); lia.
    + intros H. inversion H. subst d1. clear H.
      split; [constructor; [|constructor]; cbn; split; [lia|intros Hc; congruence]|].
      unfold dist_rel. cbn [d_total d_recips d_module].
      split; [|split; [|split]].
      * intros x. rewrite amount_of_cons, zsum_cons, zsum_nil. cbn [ch_amount]. ring.
      * intros a' x. rewrite zsum_cons, zsum_nil. cbn [ch_share]. ring.
      * intros x. rewrite zsum_cons, zsum_nil. cbn [ch_share_any]. ring.
      * intros x. rewrite !amount_of_cons. ring.
Qed.

(** well-formedness of inputs: basis points are unsigned in Go; the declared fee is an sdk.Coins *)
Definition wf_cfg (cfg : config) : Prop := forall e, In e (schedule cfg) -> 0 <= fe_bips e.
Definition wf_routed (r : routed) : Prop :=
  match r_custom r with Some cu => 0 <= custom_bips cu | None => True end /\
  Forall (fun c : coin => 0 < snd c) (r_post r).
Definition wf_tx (t : tx) : Prop :=
  (forall d, 0 <= amount_of (t_fee t) d) /\ Forall wf_routed (routed_all t).

Lemma lookup_fee_in s ty e : lookup_fee s ty = Some e -> In e s.
Proof. unfold lookup_fee. intros H. apply find_some in H. tauto. Qed.

Lemma calc_one_spec cfg d0 r d1 :
  wf_cfg cfg -> wf_routed r -> calc_one cfg d0 r = Some d1 ->
  Forall charge_ok (charges_pre cfg r) /\ dist_rel d0 d1 (charges_pre cfg r).
Proof.
  intros Hs Hr. unfold calc_one, charges_pre. destruct Hr as (Hr & _).
  destruct (lookup_fee (schedule cfg) (r_type r)) as [e|] eqn:El.
  - destruct (increase d0 (fe_coin e) (fe_bips e) (fe_recipient e)) as [dm|] eqn:E1; [|discriminate].
    apply increase_spec in E1; [|apply Hs; eapply lookup_fee_in; eassumption]. destruct E1 as (F1 & D1).
    unfold wf_routed in Hr. destruct (r_custom r) as [cu|].
    + destruct (convert cfg (cu_coin cu)) as [c|]; [|discriminate].
      intros H. apply increase_spec in H; [|assumption]. destruct H as (F2 & D2).
      split; [apply Forall_app; split; assumption|eapply dist_rel_trans; eassumption].
    + intros H. inversion H. subst. rewrite app_nil_r. split; assumption.
  - unfold wf_routed in Hr. destruct (r_custom r) as [cu|].
    + destruct (convert cfg (cu_coin cu)) as [c|]; [|discriminate].
      intros H. apply increase_spec in H; [|assumption]. cbn [app]. exact H.
    + intros H. inversion H. subst. split; [constructor|apply dist_rel_refl].
Qed.

Lemma additional_cons cfg r rs d : additional cfg (r :: rs) d = zsum (ch_amount d) (charges cfg r) + additional cfg rs d.
Proof. unfold additional. cbn [flat_map]. apply zsum_app. Qed.
Lemma share_cons cfg r rs a d : share cfg (r :: rs) a d = zsum (ch_share a d) (charges cfg r) + share cfg rs a d.
Proof. unfold share. cbn [flat_map]. apply zsum_app. Qed.
Lemma shares_total_cons cfg r rs d : shares_total cfg (r :: rs) d = zsum (ch_share_any d) (charges cfg r) + shares_total cfg rs d.
Proof. unfold shares_total. cbn [flat_map]. apply zsum_app. Qed.

Lemma additional_pre_cons cfg r rs d :
  additional_pre cfg (r :: rs) d = zsum (ch_amount d) (charges_pre cfg r) + additional_pre cfg rs d.
Proof. unfold additional_pre. cbn [flat_map]. apply zsum_app. Qed.

Lemma calc_spec cfg rs : forall d0 d1,
  wf_cfg cfg -> Forall wf_routed rs -> calc cfg d0 rs = Some d1 ->
  Forall charge_ok (flat_map (charges_pre cfg) rs) /\
  forall x, amount_of (d_total d1) x = amount_of (d_total d0) x + additional_pre cfg rs x.
Proof.
  induction rs as [|r rs IH]; cbn [calc]; intros d0 d1 Hc Hw H.
  - inversion H. subst. split; [constructor|]. intros. unfold additional_pre. cbn. ring.
  - inversion Hw as [|? ? Hr Hrs]. subst. destruct (calc_one cfg d0 r) as [dm|] eqn:E; [|discriminate].
    apply calc_one_spec in E; try assumption. destruct E as (F & T & _).
    destruct (IH _ _ Hc Hrs H) as (F' & T'). split.
    + cbn [flat_map]. apply Forall_app. split; assumption.
    + intros x. rewrite T', T, additional_pre_cons. ring.
Qed.

(** charges are positive, shares are between 0 and the charge *)
Lemma charge_bounds ch a d : charge_ok ch ->
  0 <= ch_share a d ch <= ch_share_any d ch /\ ch_share_any d ch <= ch_amount d ch /\ 0 <= ch_amount d ch.
Proof.
  destruct ch as [[[dn amt] bips] r]. cbn [charge_ok ch_share ch_share_any ch_amount]. intros (Hp & Hb).
  destruct r as [a'|].
  - assert (0 <= bips <= 10000) by (apply Hb; congruence).
    assert (0 <= amt * bips / 10000 <= amt) by (split; [apply Z.div_pos; nia | apply Z.div_le_upper_bound; nia]).
    destruct (N.eqb a a'), (N.eqb d dn); cbn [andb]; lia.
  - destruct (N.eqb d dn); lia.
Qed.

Lemma charges_bounds chs a d : Forall charge_ok chs ->
  0 <= zsum (ch_share a d) chs <= zsum (ch_share_any d) chs /\
  zsum (ch_share_any d) chs <= zsum (ch_amount d) chs /\ 0 <= zsum (ch_amount d) chs.
Proof.
  induction 1 as [|ch chs Hc _ IH]; [rewrite !zsum_nil; lia|].
  rewrite !zsum_cons. pose proof (charge_bounds ch a d Hc). lia.
Qed.

(** * The sufficiency check *)
Lemma ensure_spec cfg fee gas addl :
  (forall d, 0 <= amount_of fee d) -> ensure cfg fee gas addl = true ->
  forall d, amount_of (base_fee cfg gas) d + amount_of addl d <= amount_of fee d.
Proof.
  intros Hf. unfold ensure. destruct (is_zero (cadd (base_fee cfg gas) addl)) eqn:Ez.
  - intros _ d. pose proof (is_zero_true _ Ez d) as H. rewrite amount_of_cadd in H. specialize (Hf d). lia.
  - intros H d. apply negb_true_iff in H. pose proof (has_neg_false _ H d) as Hn.
    rewrite amount_of_csub, amount_of_cadd in Hn. lia.
Qed.

(** * Routing: meter and message moves *)
Lemma consumed_amount m d : amount_of (consumed m) d = amount_of (mt_module m) d + amount_of (map snd (mt_recips m)) d.
Proof. unfold consumed. apply amount_of_app. Qed.

Definition meter_rel cfg (m0 m1 : meter) (rs : list routed) : Prop :=
  (forall a d, recips_amt (mt_recips m1) a d = recips_amt (mt_recips m0) a d + share cfg rs a d) /\
  (forall d, amount_of (map snd (mt_recips m1)) d = amount_of (map snd (mt_recips m0)) d + shares_total cfg rs d) /\
  (forall d, amount_of (consumed m1) d = amount_of (consumed m0) d + additional cfg rs d).

Lemma recips_amt_app l1 l2 a d : recips_amt (l1 ++ l2) a d = recips_amt l1 a d + recips_amt l2 a d.
Proof. apply zsum_app. Qed.

Lemma meter_rel_refl cfg m : meter_rel cfg m m [].
Proof. unfold meter_rel, share, shares_total, additional. cbn [flat_map]. repeat split; intros; rewrite zsum_nil; ring. Qed.

Lemma meter_rel_cons cfg m0 m1 m2 r rs :
  meter_rel cfg m0 m1 [r] -> meter_rel cfg m1 m2 rs -> meter_rel cfg m0 m2 (r :: rs).
Proof.
  intros (A1 & B1 & C1) (A2 & B2 & C2). unfold meter_rel.
  split; [|split]; intros.
  - rewrite A2, A1, !share_cons. change (share cfg [] a d) with 0. ring.
  - rewrite B2, B1, !shares_total_cons. change (shares_total cfg [] d) with 0. ring.
  - rewrite C2, C1, !additional_cons. change (additional cfg [] d) with 0. ring.
Qed.

Definition moves_of (r : routed) : list move :=
  match r_action r with
  | ASend f t c => [{| mv_from := f; mv_to := t; mv_coins := c |}]
  | ANop _ => []
  | AExt _ ms => ms
  end.

Lemma msg_moves_cons r rs : msg_moves (r :: rs) = moves_of r ++ msg_moves rs.
Proof. reflexivity. Qed.

Lemma some_inj {A} (x y : A) : Some x = Some y -> x = y.
Proof. congruence. Qed.

(* the charges a handler records itself *)
Lemma post_charges_spec (post : coins) :
  Forall (fun c : coin => 0 < snd c) post ->
  let chs := map (fun c : coin => (c, 0, @None acct)) post in
  Forall charge_ok chs /\
  (forall d, zsum (ch_amount d) chs = amount_of post d) /\
  (forall a d, zsum (ch_share a d) chs = 0) /\ (forall d, zsum (ch_share_any d) chs = 0).
Proof.
  induction 1 as [|[dn v] post Hc _ IH]; cbn zeta.
  - split; [constructor|]. repeat split; intros; reflexivity.
  - destruct IH as (F & A & S & T). cbn [map]. split; [constructor; [cbn; split; [exact Hc|intros Hn; congruence]|exact F]|].
    split; [|split]; intros; rewrite zsum_cons.
    + rewrite A, amount_of_cons. reflexivity.
    + rewrite S. reflexivity.
    + rewrite T. reflexivity.
Qed.

Lemma route_spec cfg t b m r b' m' :
  wf_cfg cfg -> wf_routed r ->
  route cfg t (b, m) r = Some (b', m') ->
  exec_moves b (moves_of r) = Some b' /\ meter_rel cfg m m' [r] /\
  Forall charge_ok (charges cfg r).
Proof.
  intros Hc Hr. pose proof Hr as (_ & Hpost). unfold route.
  destruct (calc_one cfg dist0 r) as [fd|] eqn:E; [|discriminate].
  apply calc_one_spec in E; try assumption. destruct E as (F & T & R & S & M).
  cbn [dist0 d_total d_recips d_module map amount_of] in T, R, S, M.
  destruct (post_charges_spec _ Hpost) as (Fp & Ap & Sp & Tp). cbn zeta in Fp, Ap, Sp, Tp.
  assert (Rz : forall a x, recips_amt [] a x = 0) by reflexivity.
  set (mm := if is_zero (d_total fd) then Some m
             else if ensure cfg (t_fee t) (t_gas t) (cadd (consumed m) (d_total fd))
                  then Some {| mt_module := d_module fd ++ mt_module m; mt_recips := d_recips fd ++ mt_recips m |}
                  else None).
  (* the router's part, against the router-visible charges *)
  assert (Hm : forall m1, mm = Some m1 ->
     (forall a d, recips_amt (mt_recips m1) a d = recips_amt (mt_recips m) a d + zsum (ch_share a d) (charges_pre cfg r)) /\
     (forall d, amount_of (map snd (mt_recips m1)) d = amount_of (map snd (mt_recips m)) d + zsum (ch_share_any d) (charges_pre cfg r)) /\
     (forall d, amount_of (consumed m1) d = amount_of (consumed m) d + zsum (ch_amount d) (charges_pre cfg r))).
  { subst mm. intros m1. destruct (is_zero (d_total fd)) eqn:Ez.
    - intros H. inversion H. subst m1. clear H.
      assert (Z0 : forall x, zsum (ch_amount x) (charges_pre cfg r) = 0).
      { intros x. pose proof (is_zero_true _ Ez x) as Hz. rewrite T in Hz. lia. }
      split; [|split]; intros.
      + pose proof (charges_bounds _ a d F). specialize (Z0 d). lia.
      + pose proof (charges_bounds _ 0%N d F). specialize (Z0 d). lia.
      + specialize (Z0 d). lia.
    - destruct (ensure cfg (t_fee t) (t_gas t) (cadd (consumed m) (d_total fd))); [|discriminate].
      intros H. inversion H. subst m1. clear H. cbn [mt_recips mt_module].
      split; [|split].
      + intros a d. rewrite recips_amt_app, R, Rz. ring.
      + intros d. rewrite map_app, amount_of_app, S. ring.
      + intros d. rewrite !consumed_amount. cbn [mt_module mt_recips]. rewrite map_app, !amount_of_app.
        specialize (M d). specialize (T d). lia. }
  destruct mm as [m1|]; [|discriminate]. specialize (Hm m1 eq_refl). destruct Hm as (R1 & S1 & C1).
  set (act := match r_action r with
              | ANop ok => if ok then Some b else None
              | ASend from to c => if is_zero c then None else exec_move b {| mv_from := from; mv_to := to; mv_coins := c |}
              | AExt ok ms => if ok then exec_moves b ms else None
              end).
  assert (Ha : forall b1, act = Some b1 -> exec_moves b (moves_of r) = Some b1).
  { subst act. unfold moves_of. intros b1. destruct (r_action r) as [f to c|ok|ok ms].
    - destruct (is_zero c); [discriminate|]. intros Em. cbn [exec_moves]. rewrite Em. reflexivity.
    - destruct ok; [|discriminate]. intros H. inversion H. reflexivity.
    - destruct ok; [|discriminate]. auto. }
  destruct act as [b1|]; [|discriminate]. specialize (Ha b1 eq_refl).
  intros H. apply some_inj in H. inversion H. subst b' m'. clear H.
  split; [exact Ha|]. split; [|unfold charges; apply Forall_app; split; assumption].
  unfold meter_rel, share, shares_total, additional, charges. cbn [flat_map]. rewrite app_nil_r.
  destruct (is_zero (r_post r)) eqn:Ezp.
  - assert (Zp : forall d, amount_of (r_post r) d = 0) by (apply is_zero_true; exact Ezp).
    split; [|split]; intros; rewrite zsum_app.
    + rewrite R1, Sp. ring.
    + rewrite S1, Tp. ring.
    + rewrite C1, Ap, Zp. ring.
  - cbn [mt_recips]. split; [|split]; intros; rewrite zsum_app.
    + rewrite R1, Sp. ring.
    + rewrite S1, Tp. ring.
    + rewrite consumed_amount. cbn [mt_module mt_recips]. rewrite amount_of_app, Ap.
      specialize (C1 d). rewrite consumed_amount in C1. lia.
Qed.

Lemma route_all_spec cfg t rs : forall b m b' m',
  wf_cfg cfg -> Forall wf_routed rs ->
  route_all cfg t (b, m) rs = Some (b', m') ->
  exec_moves b (msg_moves rs) = Some b' /\ meter_rel cfg m m' rs /\
  Forall charge_ok (flat_map (charges cfg) rs).
Proof.
  induction rs as [|r rs IH]; cbn [route_all]; intros b m b' m' Hc Hw H.
  - inversion H. subst. split; [reflexivity|]. split; [apply meter_rel_refl|constructor].
  - inversion Hw as [|? ? Hr Hrs]. subst.
    destruct (route cfg t (b, m) r) as [[b1 m1]|] eqn:E; [|discriminate].
    apply route_spec in E; try assumption. destruct E as (X1 & R1 & F1).
    destruct (IH _ _ _ _ Hc Hrs H) as (X2 & R2 & F2).
    split; [|split].
    + rewrite msg_moves_cons. eapply exec_moves_app; eassumption.
    + eapply meter_rel_cons; eassumption.
    + cbn [flat_map]. apply Forall_app. split; assumption.
Qed.

(** * FeeInvoke: the sweep and the distribution *)
Lemma zsum_map {A B} (f : B -> Z) (g : A -> B) l : zsum f (map g l) = zsum (fun x => f (g x)) l.
Proof. induction l as [|x l IH]; [reflexivity|]. cbn [map]. rewrite !zsum_cons, IH. reflexivity. Qed.

Lemma zsum_plus {A} (f g : A -> Z) l : zsum (fun x => f x + g x) l = zsum f l + zsum g l.
Proof. induction l as [|x l IH]; [reflexivity|]. rewrite !zsum_cons, IH. ring. Qed.

Lemma zsum_ext {A} (f g : A -> Z) l : (forall x, In x l -> f x = g x) -> zsum f l = zsum g l.
Proof.
  induction l as [|x l IH]; intros H; [reflexivity|]. rewrite !zsum_cons.
  rewrite (H x (or_introl eq_refl)), IH; [reflexivity|]. intros y Hy. apply H. right. exact Hy.
Qed.

Lemma sum_ind_notin (f : acct -> Z) keys a : ~ In a keys -> zsum (fun k => if N.eqb a k then f k else 0) keys = 0.
Proof.
  induction keys as [|k keys IH]; intros Hn; [reflexivity|]. rewrite zsum_cons.
  destruct (N.eqb_spec a k) as [->|Hne]; [exfalso; apply Hn; left; reflexivity|].
  rewrite IH; [ring|]. intros Hi. apply Hn. right. exact Hi.
Qed.

Lemma sum_ind_nodup (f : acct -> Z) keys a : NoDup keys -> In a keys ->
  zsum (fun k => if N.eqb a k then f k else 0) keys = f a.
Proof.
  induction 1 as [|k keys Hk Hnd IH]; intros Hi; [destruct Hi|]. rewrite zsum_cons.
  destruct Hi as [->|Hi].
  - rewrite N.eqb_refl, sum_ind_notin by assumption. ring.
  - destruct (N.eqb_spec a k) as [->|Hne]; [contradiction|]. rewrite IH by assumption. ring.
Qed.

Lemma recips_amt_notin l a d : ~ In a (map fst l) -> recips_amt l a d = 0.
Proof.
  induction l as [|e l IH]; intros Hn; [reflexivity|]. unfold recips_amt. rewrite zsum_cons. cbn beta.
  fold (recips_amt l a d). cbn [map] in Hn.
  match goal with |- context [N.eqb a ?x] => destruct (N.eqb a x) eqn:E end;
    [apply N.eqb_eq in E; exfalso; apply Hn; left; symmetry; exact E|].
  rewrite IH; [ring|]. intros Hi. apply Hn. right. exact Hi.
Qed.

Lemma coins_for_amount m a d : amount_of (coins_for m a) d = recips_amt (mt_recips m) a d.
Proof.
  unfold coins_for. induction (mt_recips m) as [|[k [dn v]] l IH]; [reflexivity|].
  unfold recips_amt. rewrite zsum_cons. cbn beta. fold (recips_amt l a d). cbn [filter fst snd].
  rewrite (N.eqb_sym k a). destruct (N.eqb a k).
  - cbn [map snd]. rewrite amount_of_cons, IH, amount_of_single. ring.
  - rewrite IH. ring.
Qed.

Lemma recip_keys_nodup m : NoDup (recip_keys m).
Proof.
  unfold recip_keys. eapply Permutation_NoDup; [apply NSort.Permuted_sort|]. apply NoDup_nodup.
Qed.

Lemma recip_keys_in m k : In k (recip_keys m) <-> In k (map fst (mt_recips m)).
Proof.
  unfold recip_keys. split; intros H.
  - eapply Permutation_in in H; [|apply Permutation_sym, NSort.Permuted_sort]. apply nodup_In in H. exact H.
  - eapply Permutation_in; [apply NSort.Permuted_sort|]. apply nodup_In. exact H.
Qed.

Lemma partition_sum d keys : NoDup keys -> forall l : list (acct * coin),
  (forall e, In e l -> In (fst e) keys) ->
  zsum (fun k => amount_of (map snd (filter (fun e => N.eqb (fst e) k) l)) d) keys = amount_of (map snd l) d.
Proof.
  intros Hnd. induction l as [|[a [dn v]] l IH]; intros Hin.
  - cbn [filter map amount_of]. clear. induction keys as [|k keys IHk]; [reflexivity|].
    rewrite zsum_cons, IHk. reflexivity.
  - cbn [map snd]. rewrite amount_of_cons. rewrite <- IH by (intros e He; apply Hin; right; exact He).
    rewrite <- (sum_ind_nodup (fun _ => if N.eqb d dn then v else 0) keys a Hnd) by (apply (Hin (a, (dn, v))); left; reflexivity).
    rewrite <- zsum_plus. apply zsum_ext. intros k _. cbn [filter fst].
    destruct (N.eqb a k); [cbn [map snd]; rewrite amount_of_cons|]; ring.
Qed.

Lemma debit_all_src ms src a d : Forall (fun m => mv_from m = src) ms ->
  debit_of ms a d = ind (N.eqb a src) (amount_of (sent_of ms) d).
Proof.
  induction 1 as [|m ms Hm _ IH]; unfold debit_of, sent_of.
  - cbn. destruct (N.eqb a src); reflexivity.
  - rewrite zsum_cons. cbn [flat_map]. rewrite amount_of_app. fold (debit_of ms a d). fold (sent_of ms).
    rewrite IH, Hm. unfold ind. destruct (N.eqb a src); ring.
Qed.

Lemma dist_moves_spec src m a d :
  Forall (fun mv => mv_from mv = src) (dist_moves src m) /\
  amount_of (sent_of (dist_moves src m)) d = amount_of (mt_module m) d + amount_of (map snd (mt_recips m)) d /\
  credit_of (dist_moves src m) a d = ind (N.eqb a collector) (amount_of (mt_module m) d) + recips_amt (mt_recips m) a d.
Proof.
  unfold dist_moves. split; [|split].
  - constructor; [reflexivity|]. apply Forall_forall. intros mv Hi. apply in_map_iff in Hi. destruct Hi as (k & <- & _). reflexivity.
  - unfold sent_of. cbn [flat_map mv_coins]. rewrite amount_of_app. f_equal.
    fold (sent_of (map (fun k => {| mv_from := src; mv_to := k; mv_coins := coins_for m k |}) (recip_keys m))).
    assert (E : forall l, amount_of (sent_of (map (fun k => {| mv_from := src; mv_to := k; mv_coins := coins_for m k |}) l)) d
                = zsum (fun k => amount_of (coins_for m k) d) l).
    { induction l as [|k l IHl]; [reflexivity|]. unfold sent_of in *. cbn [map flat_map mv_coins].
      rewrite amount_of_app, zsum_cons, IHl. reflexivity. }
    rewrite E. unfold coins_for. apply partition_sum; [apply recip_keys_nodup|].
    intros e He. apply recip_keys_in. apply in_map. exact He.
  - unfold credit_of. rewrite zsum_cons. cbn [mv_to mv_coins]. f_equal.
    rewrite zsum_map. cbn [mv_to mv_coins].
    destruct (in_dec N.eq_dec a (recip_keys m)) as [Hi|Hn].
    + rewrite (sum_ind_nodup (fun k => amount_of (coins_for m k) d)) by (auto using recip_keys_nodup).
      apply coins_for_amount.
    + rewrite (sum_ind_notin (fun k => amount_of (coins_for m k) d)) by assumption.
      symmetry. apply recips_amt_notin. intros Hi. apply Hn. apply recip_keys_in. exact Hi.
Qed.

Lemma invoke_moves_spec src unch m ms a d :
  invoke_moves src unch m = Some ms ->
  debit_of ms a d = ind (N.eqb a src) (amount_of unch d) /\
  credit_of ms a d = ind (N.eqb a collector) (amount_of unch d - amount_of (map snd (mt_recips m)) d)
                     + recips_amt (mt_recips m) a d /\
  amount_of (consumed m) d <= amount_of unch d.
Proof.
  unfold invoke_moves. cbv zeta. destruct (has_neg (csub unch (sent_of (dist_moves src m)))) eqn:Eneg; [discriminate|].
  intros H. apply some_inj in H. subst ms. pose proof (has_neg_false _ Eneg d) as Hnn.
  destruct (dist_moves_spec src m a d) as (Fs & Hsent & Hcred).
  set (unsent := csub unch (sent_of (dist_moves src m))).
  assert (Hu : amount_of unsent d = amount_of unch d - amount_of (mt_module m) d - amount_of (map snd (mt_recips m)) d).
  { subst unsent. rewrite amount_of_csub, Hsent. ring. }
  fold unsent in Hnn. rewrite consumed_amount.
  rewrite debit_of_app, credit_of_app, Hcred, (debit_all_src _ src a d Fs), Hsent.
  destruct (is_zero unsent) eqn:Ez.
  - pose proof (is_zero_true _ Ez d) as Hz. unfold debit_of, credit_of. rewrite !zsum_nil.
    unfold ind. destruct (N.eqb a src), (N.eqb a collector); lia.
  - unfold debit_of, credit_of. rewrite !zsum_cons, !zsum_nil. cbn [mv_from mv_to mv_coins].
    unfold ind. destruct (N.eqb a src), (N.eqb a collector); lia.
Qed.

(** * The ante chain *)
Lemma base_moves_spec src base a d :
  debit_of (base_moves src base) a d = ind (N.eqb a src) (amount_of base d) /\
  credit_of (base_moves src base) a d = ind (N.eqb a collector) (amount_of base d).
Proof.
  unfold base_moves. destruct (is_zero base) eqn:Ez.
  - pose proof (is_zero_true _ Ez d) as Hz. unfold debit_of, credit_of, ind. rewrite !zsum_nil, Hz.
    destruct (N.eqb a src), (N.eqb a collector); auto.
  - unfold debit_of, credit_of. rewrite !zsum_cons, !zsum_nil. cbn [mv_from mv_to mv_coins]. unfold ind.
    destruct (N.eqb a src), (N.eqb a collector); split; ring.
Qed.

Definition seq_bumped (s s' : state) (t : tx) : Prop :=
  forall a, seqn s' a = seqn s a + ind (existsb (N.eqb a) (t_signers t)) 1.
Definition allow_others (s s' : state) (t : tx) : Prop :=
  forall g p, (g, p) <> (fee_source t, t_payer t) -> allow s' g p = allow s g p.

Lemma ante_spec cfg s t chk s1 :
  ante cfg s t chk = Some s1 ->
  t_gas_out t <> GasAnte /\
  (exists fd, calc cfg dist0 (routed_top t) = Some fd /\
              (chk = true -> ensure cfg (t_fee t) (t_gas t) (d_total fd) = true)) /\
  (forall a d, bal s1 a d = bal s a d + spec_fail_delta cfg t a d) /\
  seq_bumped s s1 t /\ allow_others s s1 t.
Proof.
  unfold ante. destruct (t_gas_out t) eqn:Eg; try discriminate.
  all: destruct (t_gas t <=? 0); [discriminate|]; destruct (negb (only_gov t) && (gas_tx_limit <? t_gas t)); [discriminate|];
    destruct (calc cfg dist0 (routed_top t)) as [fd|] eqn:Ec; [|discriminate];
    destruct (chk && negb (ensure cfg (t_fee t) (t_gas t) (d_total fd))) eqn:Ee; [discriminate|];
    destruct (use_grant s t (base_fee cfg (t_gas t))) as [[s0 src]|] eqn:Eu; [|discriminate];
    destruct (negb (forallb (fun d => amount_of (d_total fd) d <=? bal s0 src d) (cdenoms (d_total fd)))); [discriminate|];
    destruct (exec_moves (bal s0) (base_moves src (base_fee cfg (t_gas t)))) as [b|] eqn:Em; [|discriminate];
    destruct (t_sig_ok t); [|discriminate]; intros H; inversion H; subst s1; clear H;
    apply use_grant_spec in Eu; destruct Eu as (-> & Hb & Hs & Ha);
    (split; [congruence|]); (split; [exists fd; split; [reflexivity|intros ->; cbn [andb] in Ee; apply negb_false_iff in Ee; exact Ee]|]);
    (split; [|split]).
  all: try (intros a d; cbn [bump_seq with_bal bal]; rewrite (exec_moves_spec _ _ _ Em a d), Hb;
            destruct (base_moves_spec (fee_source t) (base_fee cfg (t_gas t)) a d) as (-> & ->);
            unfold spec_fail_delta; ring).
  all: try (intros a; cbn [bump_seq with_bal seqn]; rewrite Hs; unfold ind; destruct (existsb (N.eqb a) (t_signers t)); ring).
  all: intros g p Hd; cbn [bump_seq with_bal allow]; apply Ha; exact Hd.
Qed.

Definition covered_pre (cfg : config) (t : tx) (rs : list routed) : Prop :=
  forall d, amount_of (base_fee cfg (t_gas t)) d + additional_pre cfg rs d <= amount_of (t_fee t) d.

(** admission: the declared fee covers the base fee plus the additional fees of the top-level messages
    that the fee schedule and the custom assessed fees define *)
Lemma admitted_covered cfg s t :
  wf_cfg cfg -> wf_tx t -> Forall wf_routed (routed_top t) -> check_tx cfg s t = true ->
  covered_pre cfg t (routed_top t).
Proof.
  intros Hc (Hfee & _) Hw. unfold check_tx. destruct (ante cfg s t true) as [s1|] eqn:E; [|discriminate]. intros _.
  apply ante_spec in E. destruct E as (_ & (fd & Ecalc & Hens) & _).
  specialize (Hens eq_refl). apply calc_spec in Ecalc; try assumption. destruct Ecalc as (F & T).
  intros d. pose proof (ensure_spec _ _ _ _ Hfee Hens d) as He. rewrite T in He. cbn [dist0 d_total amount_of] in He. lia.
Qed.

Lemma routed_top_wf t : Forall wf_routed (routed_all t) -> Forall wf_routed (routed_top t).
Proof.
  unfold routed_all, routed_top. intros H. rewrite Forall_forall in *. intros r Hr.
  apply in_map_iff in Hr. destruct Hr as (m & <- & Hm). apply H. apply in_flat_map. exists m. split; [assumption|left; reflexivity].
Qed.

(** * Executing a transaction in a block *)
Lemma fee_invoke_spec cfg s t base m s' :
  fee_invoke cfg s t base m = Some s' ->
  (forall a d, bal s' a d = bal s a d
      - ind (N.eqb a (fee_source t)) (amount_of (t_fee t) d - amount_of base d)
      + ind (N.eqb a collector) (amount_of (t_fee t) d - amount_of base d - amount_of (map snd (mt_recips m)) d)
      + recips_amt (mt_recips m) a d
      \/ (forall x, amount_of (t_fee t) x = amount_of base x) /\ (forall x, amount_of (consumed m) x = 0) /\ bal s' a d = bal s a d) /\
  (forall d, amount_of base d + amount_of (consumed m) d <= amount_of (t_fee t) d) /\
  seqn s' = seqn s /\ allow_others s s' t.
Proof.
  unfold fee_invoke. destruct (use_grant s t (csub (t_fee t) base)) as [[s1 src]|] eqn:Eu; [|discriminate].
  apply use_grant_spec in Eu. destruct Eu as (-> & Hb & Hs & Ha).
  destruct (is_zero (csub (t_fee t) base) && is_zero (consumed m)) eqn:Ez.
  - intros H. inversion H. subst s'. clear H. apply andb_true_iff in Ez. destruct Ez as (Z1 & Z2).
    assert (Hz1 : forall x, amount_of (t_fee t) x = amount_of base x).
    { intros x. pose proof (is_zero_true _ Z1 x) as Hz. rewrite amount_of_csub in Hz. lia. }
    split; [|split; [|split; [assumption|exact Ha]]].
    + intros a d. right. split; [exact Hz1|split; [apply is_zero_true; assumption|rewrite Hb; reflexivity]].
    + intros d. rewrite (Hz1 d), (is_zero_true _ Z2 d). lia.
  - destruct (invoke_moves (fee_source t) (csub (t_fee t) base) m) as [ms|] eqn:Ei; [|discriminate].
    destruct (exec_moves (bal s1) ms) as [b|] eqn:Em; [|discriminate].
    intros H. inversion H. subst s'. clear H. cbn [with_bal bal seqn allow].
    split; [|split; [|split; [assumption|exact Ha]]].
    + intros a d. left. rewrite (exec_moves_spec _ _ _ Em a d), Hb.
      destruct (invoke_moves_spec _ _ _ _ a d Ei) as (-> & -> & _). rewrite amount_of_csub. ring.
    + intros d. destruct (invoke_moves_spec _ _ _ _ collector d Ei) as (_ & _ & Hle).
      rewrite amount_of_csub in Hle. lia.
Qed.

Lemma deliver_cases cfg s t s' r :
  deliver cfg s t = (s', r) ->
  (r = RAnteFail /\ s' = s) \/
  (exists s1, ante cfg s t false = Some s1 /\ t_gas_out t <> GasBlockFull /\
     ((r = RFailed /\ s' = s1) \/
      (r = ROk /\ t_gas_out t = GasOk /\
       exists b2 m, route_all cfg t (bal s1, meter0) (routed_all t) = Some (b2, m) /\
                    fee_invoke cfg (with_bal s1 b2) t (base_fee cfg (t_gas t)) m = Some s'))).
Proof.
  unfold deliver. destruct (t_gas_out t) eqn:Eg.
  5: { intros H. inversion H. subst. left. auto. }
  all: destruct (ante cfg s t false) as [s1|] eqn:Ea; [|intros H; inversion H; subst; left; auto].
  all: intros H; right; exists s1; (split; [reflexivity|]); (split; [discriminate|]).
  3, 4: inversion H; subst; left; auto.
  2: { apply ante_spec in Ea. destruct Ea as (Hn & _). congruence. }
  destruct (route_all cfg t (bal s1, meter0) (routed_all t)) as [[b2 m]|] eqn:Er;
    [|inversion H; subst; left; auto].
  destruct (fee_invoke cfg (with_bal s1 b2) t (base_fee cfg (t_gas t)) m) as [s3|] eqn:Ef;
    inversion H; subst; [right; split; [reflexivity|]; split; [reflexivity|]; exists b2, m; auto | left; auto].
Qed.

Lemma deliver_failed cfg s t s' :
  deliver cfg s t = (s', RFailed) ->
  (forall a d, bal s' a d = bal s a d + spec_fail_delta cfg t a d) /\ seq_bumped s s' t /\ allow_others s s' t.
Proof.
  intros H. apply deliver_cases in H. destruct H as [(Hr & _)|(s1 & Ea & _ & [(_ & ->)|(Hr & _)])]; try discriminate.
  apply ante_spec in Ea. tauto.
Qed.

Lemma deliver_ok cfg s t s' :
  wf_cfg cfg -> wf_tx t -> deliver cfg s t = (s', ROk) ->
  (forall a d, bal s' a d = bal s a d + spec_ok_delta cfg t a d) /\
  covered cfg t (routed_all t) /\ (forall d, 0 <= additional cfg (routed_all t) d) /\
  seq_bumped s s' t /\ allow_others s s' t.
Proof.
  intros Hc Hw H. pose proof Hw as (Hfee & Hall).
  apply deliver_cases in H. destruct H as [(Hr & _)|(s1 & Ea & _ & [(Hr & _)|(_ & _ & b2 & m & Er & Ef)])]; try discriminate.
  apply ante_spec in Ea. destruct Ea as (_ & _ & Hb1 & Hs1 & Ha1).
  apply route_all_spec in Er; try assumption. destruct Er as (Xm & (Rr & Rs & Rc) & F).
  cbn [meter0 mt_recips mt_module map amount_of consumed app] in Rr, Rs, Rc.
  assert (Rz : forall a x, recips_amt [] a x = 0) by reflexivity.
  apply fee_invoke_spec in Ef. destruct Ef as (Hb3 & Hcov & Hs3 & Ha3). cbn [with_bal bal seqn allow] in Hb3, Hs3, Ha3.
  split; [|split; [|split; [|split]]].
  - intros a d. pose proof (exec_moves_spec _ _ _ Xm a d) as Hb2.
    destruct (Hb3 a d) as [->|(Hfeeq & Hcz & ->)].
    + rewrite Hb2, Hb1, Rr, Rs, Rz. unfold spec_ok_delta, spec_fail_delta, msg_net, ind.
      destruct (N.eqb a (fee_source t)), (N.eqb a collector); ring.
    + (* nothing to sweep and nothing consumed: the declared fee is the base fee and all shares are zero *)
      assert (Hadd : additional cfg (routed_all t) d = 0) by (specialize (Rc d); specialize (Hcz d); lia).
      pose proof (charges_bounds _ a d F) as Hbd. fold (share cfg (routed_all t) a d) in Hbd.
      fold (shares_total cfg (routed_all t) d) in Hbd. fold (additional cfg (routed_all t) d) in Hbd.
      rewrite Hb2, Hb1. unfold spec_ok_delta, spec_fail_delta, msg_net, ind. rewrite (Hfeeq d).
      destruct (N.eqb a (fee_source t)), (N.eqb a collector); lia.
  - intros d. specialize (Hcov d). specialize (Rc d). lia.
  - intros d. pose proof (charges_bounds _ 0%N d F) as Hbd. fold (additional cfg (routed_all t) d) in Hbd. lia.
  - intros a. rewrite Hs3. apply Hs1.
  - intros g p Hd. rewrite Ha3 by assumption. apply Ha1. assumption.
Qed.

(** * Nothing is lost: the recipients' shares add up to the total taken out of the declared fee *)
Lemma zsum_zero {A} (l : list A) : zsum (fun _ => 0) l = 0.
Proof. induction l as [|x l IH]; [reflexivity|]. rewrite zsum_cons, IH. reflexivity. Qed.

Lemma zsum_swap {A B} (f : A -> B -> Z) (la : list A) (lb : list B) :
  zsum (fun a => zsum (f a) lb) la = zsum (fun b => zsum (fun a => f a b) la) lb.
Proof.
  induction lb as [|b lb IH].
  - cbn [zsum fold_right]. apply zsum_zero.
  - rewrite zsum_cons, <- IH, <- zsum_plus. apply zsum_ext. intros a _. apply zsum_cons.
Qed.

Definition ch_recipient (ch : coin * Z * option acct) : option acct := snd ch.

Lemma ch_share_sum accts d ch : NoDup accts ->
  (forall a, ch_recipient ch = Some a -> In a accts) ->
  zsum (fun a => ch_share a d ch) accts = ch_share_any d ch.
Proof.
  intros Hnd Hin. destruct ch as [[[dn amt] bips] [r|]]; cbn [ch_share ch_share_any ch_recipient snd] in *.
  - destruct (N.eqb d dn).
    + transitivity (zsum (fun k => if N.eqb r k then (fun _ => amt * bips / 10000) k else 0) accts).
      * apply zsum_ext. intros a _. rewrite (N.eqb_sym a r), andb_true_r. reflexivity.
      * apply (sum_ind_nodup (fun _ => amt * bips / 10000) accts r Hnd (Hin r eq_refl)).
    + transitivity (zsum (fun _ : acct => 0) accts); [|apply zsum_zero].
      apply zsum_ext. intros a _. rewrite andb_false_r. reflexivity.
  - apply zsum_zero.
Qed.

Lemma shares_sum cfg rs accts d : NoDup accts ->
  (forall ch a, In ch (flat_map (charges cfg) rs) -> ch_recipient ch = Some a -> In a accts) ->
  zsum (fun a => share cfg rs a d) accts = shares_total cfg rs d.
Proof.
  intros Hnd Hin. unfold share, shares_total. rewrite zsum_swap. apply zsum_ext.
  intros ch Hch. apply ch_share_sum; [assumption|]. intros a Ha. eapply Hin; eassumption.
Qed.

(** * The clauses of the property, per transaction and over histories *)
Lemma c08_debit cfg s t s' r :
  wf_cfg cfg -> wf_tx t -> check_tx cfg s t = true -> deliver cfg s t = (s', r) ->
  fee_source t <> collector ->
  (r = RFailed -> forall d, bal s (fee_source t) d - bal s' (fee_source t) d = amount_of (base_fee cfg (t_gas t)) d) /\
  (r = ROk -> forall d, bal s (fee_source t) d - bal s' (fee_source t) d
                        = amount_of (t_fee t) d - share cfg (routed_all t) (fee_source t) d
                          - msg_net (routed_all t) (fee_source t) d) /\
  (forall d, amount_of (base_fee cfg (t_gas t)) d <= amount_of (t_fee t) d).
Proof.
  intros Hc Hw Hadm Hd Hsrc. apply N.eqb_neq in Hsrc.
  split; [|split].
  - intros ->. apply deliver_failed in Hd. destruct Hd as (Hb & _). intros d. rewrite Hb.
    unfold spec_fail_delta, ind. rewrite N.eqb_refl, Hsrc. ring.
  - intros ->. apply deliver_ok in Hd; try assumption. destruct Hd as (Hb & _). intros d. rewrite Hb.
    unfold spec_ok_delta, ind. rewrite N.eqb_refl, Hsrc. ring.
  - destruct Hw as (Hf & Hall). intros d.
    pose proof (admitted_covered cfg s t Hc (conj Hf Hall) (routed_top_wf t Hall) Hadm d) as Hcov.
    assert (Hadm' := Hadm). unfold check_tx in Hadm'. destruct (ante cfg s t true) as [s1|] eqn:E; [|discriminate].
    apply ante_spec in E. destruct E as (_ & (fd & Ecalc & _) & _).
    apply calc_spec in Ecalc; try assumption; [|apply routed_top_wf; assumption]. destruct Ecalc as (F & _).
    pose proof (charges_bounds _ 0%N d F) as Hbd. fold (additional_pre cfg (routed_top t) d) in Hbd. lia.
Qed.

Lemma c08_additional_covered cfg s t s' :
  wf_cfg cfg -> wf_tx t -> check_tx cfg s t = true -> deliver cfg s t = (s', ROk) ->
  covered cfg t (routed_all t).
Proof. intros Hc Hw Hadm Hd. apply deliver_ok in Hd; tauto. Qed.

Lemma c08_distribution cfg s t s' :
  wf_cfg cfg -> wf_tx t -> check_tx cfg s t = true -> deliver cfg s t = (s', ROk) ->
  (forall a d, a <> fee_source t -> a <> collector ->
     bal s' a d - bal s a d - msg_net (routed_all t) a d = share cfg (routed_all t) a d) /\
  (fee_source t <> collector -> forall d,
     bal s' collector d - bal s collector d - msg_net (routed_all t) collector d - share cfg (routed_all t) collector d
     = amount_of (t_fee t) d - shares_total cfg (routed_all t) d) /\
  (forall accts d, NoDup accts ->
     (forall ch a, In ch (flat_map (charges cfg) (routed_all t)) -> ch_recipient ch = Some a -> In a accts) ->
     zsum (fun a => share cfg (routed_all t) a d) accts
     + (amount_of (t_fee t) d - shares_total cfg (routed_all t) d) = amount_of (t_fee t) d).
Proof.
  intros Hc Hw Hadm Hd. apply deliver_ok in Hd; try assumption. destruct Hd as (Hb & _).
  split; [|split].
  - intros a d Ha1 Ha2. apply N.eqb_neq in Ha1, Ha2. rewrite Hb. unfold spec_ok_delta, ind. rewrite Ha1, Ha2. ring.
  - intros Hs d. apply N.eqb_neq in Hs. rewrite Hb. unfold spec_ok_delta, ind. rewrite N.eqb_refl.
    rewrite (N.eqb_sym collector (fee_source t)), Hs. ring.
  - intros accts d Hnd Hin. rewrite (shares_sum cfg _ accts d Hnd Hin). ring.
Qed.

Lemma c08_rejected cfg s t :
  (check_tx cfg s t = false -> step s (OTx cfg t) = (s, RRejected)) /\
  (wf_cfg cfg -> wf_tx t -> ~ covered_pre cfg t (routed_top t) -> check_tx cfg s t = false).
Proof.
  split.
  - intros H. cbn [step]. rewrite H. reflexivity.
  - intros Hc Hw Hn. destruct (check_tx cfg s t) eqn:E; [|reflexivity]. exfalso. apply Hn.
    destruct Hw as (Hf & Hall). apply (admitted_covered cfg s t Hc (conj Hf Hall) (routed_top_wf t Hall) E).
Qed.

(** everything a transaction can do to the modelled state, by outcome *)
Definition tx_clauses (cfg : config) (s : state) (t : tx) (s' : state) (r : result) : Prop :=
  match r with
  | RRejected | RAnteFail => s' = s
  | RFailed => (forall a d, bal s' a d = bal s a d + spec_fail_delta cfg t a d) /\ seq_bumped s s' t /\ allow_others s s' t
  | ROk => (forall a d, bal s' a d = bal s a d + spec_ok_delta cfg t a d) /\ covered cfg t (routed_all t) /\
           (forall d, 0 <= additional cfg (routed_all t) d) /\ seq_bumped s s' t /\ allow_others s s' t
  end.

Lemma step_clauses cfg s t : wf_cfg cfg -> wf_tx t ->
  tx_clauses cfg s t (fst (step s (OTx cfg t))) (snd (step s (OTx cfg t))).
Proof.
  intros Hc Hw. cbn [step]. destruct (check_tx cfg s t) eqn:Ea; [|reflexivity].
  destruct (deliver cfg s t) as [s' r] eqn:Ed. cbn [fst snd]. destruct r; cbn [tx_clauses].
  - apply deliver_cases in Ed. destruct Ed as [(Hr & _)|(s1 & _ & _ & [(Hr & _)|(Hr & _)])]; discriminate.
  - apply deliver_cases in Ed. destruct Ed as [(_ & ->)|(s1 & _ & _ & [(Hr & _)|(Hr & _)])]; try discriminate. reflexivity.
  - apply deliver_failed. assumption.
  - apply deliver_ok; assumption.
Qed.

Lemma history_clauses s0 ops cfg t : wf_cfg cfg -> wf_tx t ->
  let s := run s0 ops in
  tx_clauses cfg s t (fst (step s (OTx cfg t))) (snd (step s (OTx cfg t))).
Proof. intros Hc Hw. apply step_clauses; assumption. Qed.

Lemma c08_failure cfg s t s' :
  deliver cfg s t = (s', RFailed) ->
  (forall a d, bal s' a d = bal s a d
                 - (if N.eqb a (fee_source t) then amount_of (base_fee cfg (t_gas t)) d else 0)
                 + (if N.eqb a collector then amount_of (base_fee cfg (t_gas t)) d else 0)) /\
  (forall a, seqn s' a = seqn s a + (if existsb (N.eqb a) (t_signers t) then 1 else 0)) /\
  (forall g p, (g, p) <> (fee_source t, t_payer t) -> allow s' g p = allow s g p).
Proof.
  intros H. apply deliver_failed in H. destruct H as (Hb & Hs & Ha). split; [|split; [exact Hs|exact Ha]].
  intros a d. rewrite Hb. unfold spec_fail_delta, ind. ring.
Qed.
