(** C20: valid sdk.Coins are sorted, positive and duplicate-free; the message-level admission
    decision needs no side condition on the request. *)
From Coq Require Import ZArith List Bool String Ascii Lia ZifyBool Sorted Permutation OrderedTypeEx.
From PV Require Import Exchange.Arith Proofs.ArithProofs Exchange.ReqAttr Exchange.FeeCheck Exchange.AdmitSpec
     Proofs.C20Proofs Proofs.C20Defs.
Import ListNotations.
Open Scope Z_scope.

(** The denom order: [String.ltb] is the strict order of [String_as_OT]. *)
Lemma sltb_lt a b : String.ltb a b = true <-> String_as_OT.lt a b.
Proof.
  rewrite <- String_as_OT.cmp_lt. unfold String.ltb, String_as_OT.cmp.
  destruct (String.compare a b); split; congruence.
Qed.

Lemma sltb_trans a b c : String.ltb a b = true -> String.ltb b c = true -> String.ltb a c = true.
Proof. rewrite !sltb_lt. apply String_as_OT.lt_trans. Qed.

Lemma sltb_irrefl a : String.ltb a a = false.
Proof.
  destruct (String.ltb a a) eqn:E; [|reflexivity].
  apply sltb_lt in E. exfalso. exact (String_as_OT.lt_not_eq _ _ E eq_refl).
Qed.

Lemma coins_ascending_sorted l : forall low,
  coins_ascending low l = true <->
  Forall (fun c => 0 < amt_of c) l /\ Forall (fun c => String.ltb low (denom_of c) = true) l /\
  StronglySorted denom_lt l.
Proof.
  induction l as [|c r IH]; intros low; cbn [coins_ascending].
  - split; [intros _; repeat split; constructor|reflexivity].
  - rewrite !andb_true_iff, IH. unfold coin_pos. rewrite Z.ltb_lt. split.
    + intros [[L P] (FP & FL & SS)]. repeat split.
      * constructor; assumption.
      * constructor; [assumption|]. eapply Forall_impl; [|exact FL].
        intros x Hx. cbv beta in Hx. eapply sltb_trans; eassumption.
      * constructor; assumption.
    + intros (FP & FL & SS). inversion FP; subst. inversion FL; subst. inversion SS; subst.
      repeat split; assumption.
Qed.

Lemma strongly_sorted_nodup l : StronglySorted denom_lt l -> NoDup (map denom_of l).
Proof.
  induction 1 as [|c r SS IH F]; cbn [map]; constructor; [|assumption].
  intros HI. apply in_map_iff in HI. destruct HI as (x & E & HI).
  rewrite Forall_forall in F. specialize (F x HI). unfold denom_lt in F.
  rewrite E, sltb_irrefl in F. discriminate.
Qed.

Lemma nodup_map_inj {A B} (f : A -> B) l x y :
  NoDup (map f l) -> In x l -> In y l -> f x = f y -> x = y.
Proof.
  induction l as [|a r IH]; cbn [map In]; [contradiction|].
  intros ND Hx Hy E. inversion ND as [|? ? NI ND']; subst.
  destruct Hx as [->|Hx], Hy as [->|Hy].
  - reflexivity.
  - exfalso. apply NI. rewrite E. apply in_map; assumption.
  - exfalso. apply NI. rewrite <- E. apply in_map; assumption.
  - apply IH; assumption.
Qed.

Lemma coins_wf_ascending l : forall low,
  forallb coin_pos l && strictly_ascending (low :: map denom_of l) = coins_ascending low l.
Proof.
  induction l as [|c r IH]; intros low.
  - reflexivity.
  - cbn [map forallb coins_ascending]. rewrite <- IH.
    change (strictly_ascending (low :: denom_of c :: map denom_of r))
      with (String.ltb low (denom_of c) && strictly_ascending (denom_of c :: map denom_of r)).
    destruct (coin_pos c), (String.ltb low (denom_of c)), (forallb coin_pos r),
      (strictly_ascending (denom_of c :: map denom_of r)); reflexivity.
Qed.

(** Coins.Validate accepts exactly the lists with positive amounts and strictly ascending denoms. *)
Lemma coins_valid_sorted l :
  coins_valid l = true <-> Forall (fun c => 0 < amt_of c) l /\ StronglySorted denom_lt l.
Proof.
  destruct l as [|c r]; cbn [coins_valid].
  - split; [intros _; split; constructor|reflexivity].
  - rewrite andb_true_iff, coins_ascending_sorted. unfold coin_pos. rewrite Z.ltb_lt. split.
    + intros [P (FP & FL & SS)]. split; constructor; assumption.
    + intros [FP SS]. inversion FP; subst. inversion SS; subst. repeat split; assumption.
Qed.

(** Hence no denom - and no coin - occurs twice: the hypothesis of [buyer_fee_iff]. *)
Lemma coins_valid_nodup l : coins_valid l = true -> NoDup (map denom_of l) /\ NoDup l.
Proof.
  intros H. apply coins_valid_sorted in H. destruct H as [_ SS].
  pose proof (strongly_sorted_nodup _ SS) as ND. split; [assumption|].
  eapply NoDup_map_inv; eassumption.
Qed.

Lemma coins_wf_eq l : coins_wf l = coins_valid l.
Proof.
  destruct l as [|c r]; [reflexivity|].
  unfold coins_wf. cbn [map forallb coins_valid]. rewrite <- coins_wf_ascending.
  rewrite andb_assoc. reflexivity.
Qed.

Lemma request_wf_eq a : request_wf a = msg_basic a.
Proof. destruct a; cbn [request_wf msg_basic]; rewrite ?coins_wf_eq; reflexivity. Qed.

Lemma msg_basic_action_wf a : msg_basic a = true -> action_wf a.
Proof.
  destruct a; cbn [msg_basic action_wf]; rewrite ?andb_true_iff; unfold coin_pos;
    rewrite ?Z.ltb_lt; intros; try exact I; lia.
Qed.

(** In a valid coin set a denom names at most one coin. *)
Lemma coins_valid_denom_inj l c1 c2 :
  coins_valid l = true -> In c1 l -> In c2 l -> denom_of c1 = denom_of c2 -> c1 = c2.
Proof.
  intros H. apply coins_valid_nodup in H. destruct H as [ND _].
  apply nodup_map_inj; assumption.
Qed.

(** Message-level admission = the declarative rule, with NO hypothesis on the request. *)
Lemma admission_msg_stored m s accs a :
  market_wf m -> stored_of m s ->
  admits_msg (Some s) accs a = admit_spec_msg true m accs a.
Proof.
  intros W S. unfold admits_msg, admit_spec_msg. rewrite request_wf_eq.
  destruct (msg_basic a) eqn:B; [|reflexivity]. cbn [andb].
  apply admission_stored; try assumption. apply msg_basic_action_wf; assumption.
Qed.

Lemma admission_msg_eq m accs a :
  market_wf m ->
  admits_msg (create_market m) accs a = admit_spec_msg (is_some (create_market m)) m accs a.
Proof.
  intros W. destruct (create_market m) as [s|] eqn:C.
  - apply admission_msg_stored; [assumption|]. apply create_market_stored; assumption.
  - unfold admits_msg, admit_spec_msg, admit_spec. cbn [admits is_some andb].
    rewrite request_wf_eq. reflexivity.
Qed.

(** [buyer_fee_iff] for a fee that passed Coins.Validate. *)
Lemma buyer_fee_iff_valid_coins flats rs price fee :
  ratios_wf rs -> 0 <= amt_of price -> coins_valid fee = true ->
  (validate_buyer_settlement_fee flats rs price fee = true <->
   (flats = [] /\ rs = []) \/
   (flats <> [] /\ rs = [] /\ exists c f, In c fee /\ flat_covered flats c f) \/
   (flats = [] /\ rs <> [] /\ exists c x, In c fee /\ ratio_covered rs price c x) \/
   (flats <> [] /\ rs <> [] /\
    exists c1 c2 f x, In c1 fee /\ In c2 fee /\ flat_covered flats c1 f /\ ratio_covered rs price c2 x /\
                      (c1 = c2 -> f + x <= amt_of c1))).
Proof.
  intros W Hp V. apply buyer_fee_iff; try assumption. apply coins_valid_nodup; assumption.
Qed.
